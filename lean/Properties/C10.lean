import DimodProofs.ContainerProofs
import DimodProofs.DqmFile
import DimodProofs.JsonContracts
import DimodProofs.HeaderContracts
import DimodProofs.ZipEnd
import DimodProofs.CqmClosed
import DimodProofs.DqmClosed
import DimodProofs.CqmDomain
import DimodProofs.ZipStrict
import DimodProofs.ZipTrunc
import DimodProofs.DqmLenChecked

/-! # C10 — a truncated model file never loads as a different model -/

namespace C10

open FileFmt

/-- **reader prefix lemma.**  For *every* reader program: a run that saw no short read
    (i) used exactly the bytes `c` it consumed, and (ii) gives the same value on every input that
    starts with `c`, leaving the rest unread. -/
theorem reader_prefix_lemma (p : Prog α) (xs : Bytes) (a : α) (r : Bytes)
    (h : p.runS xs false = .ok (a, r, false)) :
    ∃ c, xs = c ++ r ∧ ∀ ys, p.runS (c ++ ys) false = .ok (a, ys, false) := by
  obtain ⟨c, hc, hrun⟩ := runS_consumed p xs a r h
  exact ⟨c, hc, fun ys => by simpa using runS_stable p c a [] hrun ys⟩

/-- the short-read flag of `runS` is a ghost: erasing it gives `run`, the interpreter the
    correspondence check executes -/
theorem short_flag_is_ghost (p : Prog α) (s : Bytes) (sh : Bool) : eraseFlag (p.runS s sh) = p.run s :=
  runS_erase p s sh

/-- **QM files cut at any byte offset.**  For every well-formed model and every `k` smaller than
    the file length, loading the first `k` bytes either raises, or returns exactly the original
    model having lost fewer than 64 bytes, all of them inside the trailing padding of the last
    section.  It never returns another model and never reaches undefined behaviour (the raw loaders
    carry their length guard: `guard = true`). -/
theorem truncation_safe_qm (parse : Bytes → Option (QHeader J)) (parseVars : Bytes → Option (List J))
    (hdrText varsText : Bytes) (h : QHeader J) (vi : VarInfo) (c : QContent) (labels : List J)
    (hh : HeaderOK parse hdrText h) (wf : QmWF h vi c) (hv : h.vars.truthy = true → VarsOK parseVars varsText labels) :
    ∃ pad, pad < 64 ∧ ∀ k, k < (qmEncode hdrText h vi c varsText).length →
      (∃ e, (qmDecode true parse parseVars).run ((qmEncode hdrText h vi c varsText).take k) = .err e) ∨
      ((qmDecode true parse parseVars).run ((qmEncode hdrText h vi c varsText).take k) = .ok (qmResult h vi c labels, []) ∧
        (qmEncode hdrText h vi c varsText).length - pad ≤ k) := by
  obtain ⟨pad, hp, hc⟩ := Comp.qm parse parseVars hdrText varsText h vi c labels hh wf hv
  exact ⟨pad, hp, fun k hk => hc.truncation_safe k hk⟩

/-- **BQM files (format 1 and 2) cut at any byte offset**: an exception, or the original model with
    fewer than 64 bytes lost, all inside the padding of the `VARS` section.  Files without a `VARS`
    section have no trailing padding: there `pad = 0` and every proper prefix raises. -/
theorem truncation_safe_bqm (parse : Bytes → Option (QHeader J)) (parseVars : Bytes → Option (List J)) (maj : UInt8)
    (hdrText varsText : Bytes) (h : QHeader J) (c : QContent) (labels : List J)
    (hmaj : maj.toNat < 3) (hh : HeaderOK parse hdrText h) (wf : BqmWF h c)
    (hv1 : maj.toNat < 2 → ∃ l, h.vars = .labels l)
    (hv2 : 2 ≤ maj.toNat → h.vars.truthy = true → VarsOK parseVars varsText labels) :
    ∃ pad, pad < 64 ∧ ∀ k, k < (bqmEncode maj hdrText h c varsText).length →
      (∃ e, (bqmDecode parse parseVars).run ((bqmEncode maj hdrText h c varsText).take k) = .err e) ∨
      ((bqmDecode parse parseVars).run ((bqmEncode maj hdrText h c varsText).take k) = .ok (bqmResult maj h c labels, []) ∧
        (bqmEncode maj hdrText h c varsText).length - pad ≤ k) := by
  obtain ⟨pad, hp, hc⟩ := Comp.bqm parse parseVars maj hdrText varsText h c labels hmaj hh wf hv1 hv2
  exact ⟨pad, hp, fun k hk => hc.truncation_safe k hk⟩

/-- **expression files cut at any byte offset** (the members `objective` and `constraints/*/lhs` of
    a CQM archive): an exception, or the same expression with only padding of `QUAD` lost. -/
theorem truncation_safe_expr (parse : Bytes → Option (QHeader J)) (hdrText : Bytes) (h : QHeader J) (e : ExprContent)
    (hh : HeaderOK parse hdrText h) (wf : ExprWF h e) :
    ∀ k, k < (exprEncode hdrText h.isize e).length →
      (∃ er, (exprDecode true parse).run ((exprEncode hdrText h.isize e).take k) = .err er) ∨
      ((exprDecode true parse).run ((exprEncode hdrText h.isize e).take k) = .ok ((h, e), []) ∧
        (exprEncode hdrText h.isize e).length - sectionPad magQUAD nlb8 (e.quad.map (encQuadRec h.isize)).flatten ≤ k) :=
  fun k hk => (Comp.expr parse hdrText h e hh wf).truncation_safe k hk

/-- **no undefined behaviour under any bytes** — the five raw loaders with their length guard
    (`_ivartypes_load`, `_ivarinfo_load`: `ivartypesLoad`; `_iindices_load`, `_iquadratic_load`:
    `rawRecords`; `_ilinear_load`: `ilinearLoad`): for every buffer, every record size and every
    count, the outcome is `ok` or `err`, never an out-of-bounds read. -/
theorem no_ub_under_any_bytes (dsz rs numVars : Nat) (buff : Bytes) (arr : List Bytes) (n : Nat) :
    ivartypesLoad true dsz buff n ≠ .ub ∧ rawRecords true rs buff n ≠ .ub ∧ ilinearLoad true numVars arr n ≠ .ub :=
  ⟨ivartypesLoad_guard_ne_ub dsz buff n, rawRecords_guard_ne_ub rs buff n, ilinearLoad_ne_ub numVars arr n⟩

/-- … and therefore the whole loaders: for *any* input bytes and *any* behaviour of `json.loads`,
    `QuadraticModel.from_file`, `BinaryQuadraticModel.from_file` and `_cyExpression._from_file`
    return or raise. -/
theorem loaders_never_ub (parse : Bytes → Option (QHeader J)) (parseVars : Bytes → Option (List J)) (s : Bytes) :
    (qmDecode true parse parseVars).run s ≠ .ub ∧ (bqmDecode parse parseVars).run s ≠ .ub ∧ (exprDecode true parse).run s ≠ .ub :=
  ⟨NoUB.qmDecode parse parseVars s, NoUB.bqmDecode parse parseVars s, NoUB.exprDecode parse s⟩

/-- the guard is what makes this true: the loop as originally written (D12) reads out of bounds on
    a buffer that holds fewer records than announced — e.g. an empty buffer and one record -/
theorem unguarded_loader_reaches_ub :
    rawRecords false 4 [] 1 = .ub ∧ ivartypesLoad false 8 [] 1 = .ub ∧ ilinearLoad false 1 [] 1 = .ub := by
  exact ⟨rfl, rfl, rfl⟩

/-- **CQM files cut at any byte offset** (`truncation_safe_container_partial`, zip part): under the
    stated contract of `zipfile` — the complete archive opens, no proper prefix of it does — every
    proper prefix of a CQM file makes `from_file` raise (in the header: by the header reader; in
    the archive: `BadZipFile`).  Partial because the contract is validated only by the sweep of all
    prefixes on the real loader. -/
theorem truncation_safe_container_partial (parseHdr : Bytes → Option H) (openZip : Bytes → Option β) (hdrText zipBytes : Bytes)
    (maj min : UInt8) (h : H) (a : β) (verOk : List Nat → Bool)
    (hh : HeaderOK parseHdr hdrText h) (hz : ContainerContract openZip zipBytes a) (hne : zipBytes ≠ [])
    (k : Nat) (hk : k < (makeHeader cqmPrefix maj min hdrText ++ zipBytes).length) :
    ∃ e, containerLoad cqmPrefix parseHdr verOk openZip ((makeHeader cqmPrefix maj min hdrText ++ zipBytes).take k) = .err e :=
  containerLoad_cut cqmPrefix hdrText zipBytes maj min parseHdr h verOk openZip a hh hz hne k hk

/-- **DQM files cut at any byte offset** (npz part by contract): an exception, or the original
    with only padding of the `VARS` section lost. -/
theorem truncation_safe_dqm_partial (parse : Bytes → Option (Bool × H)) (parseVars : Bytes → Option (List J))
    (npLoad : Bytes → Option D) (nvarsOf : D → Nat) (hdrText npz varsText : Bytes) (labelled : Bool) (h : H) (d : D)
    (labels : List J) (hh : HeaderOK parse hdrText (labelled, h)) (hz : ContainerContract npLoad npz d) (hsz : npz.length < 256 ^ 4)
    (hv : labelled = true → VarsOK parseVars varsText labels ∧ labels.length = nvarsOf d) :
    ∃ pad, pad < 64 ∧ ∀ k, k < (dqmEncode hdrText labelled npz varsText).length →
      (∃ e, (dqmDecode parse parseVars npLoad nvarsOf).run ((dqmEncode hdrText labelled npz varsText).take k) = .err e) ∨
      ((dqmDecode parse parseVars npLoad nvarsOf).run ((dqmEncode hdrText labelled npz varsText).take k) =
          .ok ((h, d, if labelled then some labels else none), []) ∧
        (dqmEncode hdrText labelled npz varsText).length - pad ≤ k) := by
  obtain ⟨pad, hp, hc⟩ := Comp.dqm parse parseVars npLoad nvarsOf hdrText npz varsText labelled h d labels hh hz hsz hv
  exact ⟨pad, hp, fun k hk => hc.truncation_safe k hk⟩

/-- **CQM files cut at any byte offset — the whole loader** (header, archive, every member, header
    consistency check), under `ZipContract` only: the complete archive opens to the members
    written; a proper prefix opens, with identical members, exactly when only bytes after the
    end-of-central-directory record were lost (`tail` of them; `0` for what dimod writes), and
    otherwise does not open.  Then loading the first `k` bytes of a CQM file raises, or returns the
    original CQM content having lost at most those `tail` bytes.  Never another model. -/
theorem truncation_safe_cqm (parseHdr : Bytes → Option CqmCounts) (openZip : Bytes → Option Archive)
    (parse : Bytes → Option (QHeader J)) (okLabel : List Char → Bool) (isz dsz : Nat) (m : CqmContent)
    (hdrText zipBytes : Bytes) (tail : Nat) (wf : CqmWF parse okLabel isz dsz m)
    (hh : HeaderOK parseHdr hdrText (cqmCounts m.erase)) (hz : ZipContract openZip zipBytes (cqmMembers isz m) tail)
    (htail : tail < zipBytes.length) (k : Nat) (hk : k < (makeHeader cqmPrefix 2 0 hdrText ++ zipBytes).length) :
    (∃ e, cqmFileLoad true dsz parseHdr openZip parse okLabel ((makeHeader cqmPrefix 2 0 hdrText ++ zipBytes).take k) = .err e) ∨
    (cqmFileLoad true dsz parseHdr openZip parse okLabel ((makeHeader cqmPrefix 2 0 hdrText ++ zipBytes).take k) = .ok m.erase ∧
      (makeHeader cqmPrefix 2 0 hdrText ++ zipBytes).length ≤ k + tail) := by
  unfold cqmFileLoad
  rcases containerLoad_trunc cqmPrefix hdrText zipBytes 2 0 parseHdr _ cqmVerOk openZip _ tail hh (by decide) hz htail k hk with
    ⟨e, he⟩ | ⟨hok, hle⟩
  · left; exact ⟨e, by rw [he]; rfl⟩
  · right
    refine ⟨?_, hle⟩
    rw [hok]
    simp only [Res.bind, cqmDecodeChecked]
    have hn : (cqmCounts m.erase).numVariables = m.varinfo.length := rfl
    rw [hn, cqmDecode_members parse okLabel isz dsz m wf]
    simp [Res.bind]

/-- **DQM files cut at any byte offset — the whole loader** (header, `BIAS` frame, `np.load` of the
    blob, `from_numpy_vectors` with all its validation, `VARS`), under `ZipContract` for the npz blob
    only: an exception, or the original DQM having lost only padding of the `VARS` section
    (labelled) or at most `tail` bytes after the blob's end-of-central-directory record. -/
theorem truncation_safe_dqm (parse : Bytes → Option (Bool × H)) (parseVars : Bytes → Option (List J))
    (openNpz : Bytes → Option (List NpyMember)) (hdrText npz varsText : Bytes) (labelled : Bool) (h : H) (c : DqmContent)
    (labels : List J) (tail : Nat) (hh : HeaderOK parse hdrText (labelled, h)) (wf : DqmWF c)
    (hz : ZipContract openNpz npz (dqmMembers c) tail) (hsz : npz.length < 256 ^ 4)
    (hv : labelled = true → VarsOK parseVars varsText labels ∧ labels.length = c.caseStarts.length) :
    ∃ pad, (pad < 64 ∨ pad = tail) ∧ ∀ k, k < (dqmEncode hdrText labelled npz varsText).length →
      (∃ e, (dqmDecode parse parseVars (fun blob => (openNpz blob).bind fun ms => match dqmFromMembers ms with | .ok d => some d | _ => none)
          (fun d => d.caseStarts.length)).run ((dqmEncode hdrText labelled npz varsText).take k) = .err e) ∨
      ((dqmDecode parse parseVars (fun blob => (openNpz blob).bind fun ms => match dqmFromMembers ms with | .ok d => some d | _ => none)
          (fun d => d.caseStarts.length)).run ((dqmEncode hdrText labelled npz varsText).take k) =
            .ok ((h, c, if labelled then some labels else none), []) ∧
        (dqmEncode hdrText labelled npz varsText).length - pad ≤ k) := by
  have hc : ZipContract (fun blob => (openNpz blob).bind fun ms => match dqmFromMembers ms with | .ok d => some d | _ => none) npz c tail :=
    ⟨by simp [hz.full, dqmFromMembers_members c wf], fun j hj hle => by simp [hz.keep j hj hle, dqmFromMembers_members c wf],
     fun j hj => by simp [hz.lose j hj]⟩
  obtain ⟨pad, hp, hcomp⟩ := Comp.dqmZ parse parseVars _ (fun d : DqmContent => d.caseStarts.length) hdrText npz varsText labelled h c labels
    tail hh hc hsz hv
  exact ⟨pad, hp, fun k hk => hcomp.truncation_safe k hk⟩

/-- **`json.loads` rejects every proper prefix** of the texts the writers emit: a dumped array or
    string (the `VARS` section, `variable_labels.json`, a directory name) and a dumped header
    dictionary.  This discharges the `cut` half of `JsonContract`, which the section truncation
    theorems assumed; the proof is extension stability of the modelled scanners
    (`scan_stable`, `scanString_stable`, `scanNumber_stable`, `scanItems_stable`) plus the round trip. -/
theorem json_prefix_rejected (esc : Bool) (v : JVal) (hv : JOK v) (hsd : SelfDelim (dumpsE esc v))
    (d : HDict) (hd : ∀ kv ∈ d, FOK kv.2) :
    (∀ k, k < (dumpsE esc v).length → loadsJ ((dumpsE esc v).take k) = none) ∧
    (∀ k, k < (dumpsDict d).length → loadsDict ((dumpsDict d).take k) = none) := by
  refine ⟨fun k hk => loadsJ_dumps_prefix_none esc v hv hsd k hk, fun k hk => ?_⟩
  obtain ⟨b1, b2⟩ := items_bounds d
  refine loadsDict_prefix_none d hd (fun kv hkv => ?_) (by simp only [dumpsDict, List.length_cons, List.length_append, List.length_nil]; omega) k hk
  have := fieldSize_le kv.2 (hd kv hkv)
  have := b1 kv hkv
  simp only [dumpsDict, List.length_cons, List.length_append, List.length_nil]; omega

/-- **QM files cut at any byte offset, no JSON oracle** (header and label texts written by the model
    and parsed by the modelled `json.loads`) -/
theorem truncation_safe_qm_json (dsz isz : Nat) (vi : VarInfo) (c : QContent) (labels : List FLabel)
    (hd : dsz = 4 ∨ dsz = 8) (hi : isz = 4 ∨ isz = 8) (hl : JOKs (serializeLabels labels))
    (wf : QmWF (qmHeaderOf dsz isz c labels) vi c)
    (hlen : (dumpsDict (qmDict (qmHeaderDict dsz isz c labels))).length + 65 < 2 ^ 32)
    (hvlen : (dumpsJ (.arr (serializeLabels labels))).length + 64 < 256 ^ nlb4) :
    ∃ pad, pad < 64 ∧ ∀ k, k < (qmEncode (qmHeaderText dsz isz c labels) (qmHeaderOf dsz isz c labels) vi c (varsTextOf labels)).length →
      (∃ e, (qmDecode true parseQmHeader parseVarsReal).run
          ((qmEncode (qmHeaderText dsz isz c labels) (qmHeaderOf dsz isz c labels) vi c (varsTextOf labels)).take k) = .err e) ∨
      ((qmDecode true parseQmHeader parseVarsReal).run
          ((qmEncode (qmHeaderText dsz isz c labels) (qmHeaderOf dsz isz c labels) vi c (varsTextOf labels)).take k) =
            .ok (qmResult (qmHeaderOf dsz isz c labels) vi c (serializeLabels labels), []) ∧
        (qmEncode (qmHeaderText dsz isz c labels) (qmHeaderOf dsz isz c labels) vi c (varsTextOf labels)).length - pad ≤ k) := by
  obtain ⟨pad, hp, hc⟩ := Comp.qm_json dsz isz vi c labels hd hi hl wf hlen hvlen
  exact ⟨pad, hp, fun k hk => hc.truncation_safe k hk⟩

/-- **BQM files (format 1 and 2) cut at any byte offset, no JSON oracle** -/
theorem truncation_safe_bqm_json (maj : UInt8) (ignore : Bool) (vartype dsz isz : Nat) (c : QContent) (labels : List FLabel)
    (hmaj : maj.toNat < 3) (hd : dsz = 4 ∨ dsz = 8) (hi : isz = 4 ∨ isz = 8) (hv : vartype = 0 ∨ vartype = 1)
    (hl : JOKs (serializeLabels labels))
    (wf : BqmWF (bqmHeaderOf maj.toNat ignore vartype dsz isz c labels) c)
    (hlen : (dumpsDict (bqmDict (bqmHeaderDict maj.toNat ignore vartype dsz isz c labels))).length + 65 < 2 ^ 32)
    (hvlen : (dumpsJ (.arr (serializeLabels labels))).length + 64 < 256 ^ nlb4) :
    ∃ pad, pad < 64 ∧ ∀ k, k < (bqmEncode maj (bqmHeaderText maj.toNat ignore vartype dsz isz c labels)
        (bqmHeaderOf maj.toNat ignore vartype dsz isz c labels) c (varsTextOf labels)).length →
      (∃ e, (bqmDecode parseBqmHeader parseVarsReal).run ((bqmEncode maj (bqmHeaderText maj.toNat ignore vartype dsz isz c labels)
          (bqmHeaderOf maj.toNat ignore vartype dsz isz c labels) c (varsTextOf labels)).take k) = .err e) ∨
      ((bqmDecode parseBqmHeader parseVarsReal).run ((bqmEncode maj (bqmHeaderText maj.toNat ignore vartype dsz isz c labels)
          (bqmHeaderOf maj.toNat ignore vartype dsz isz c labels) c (varsTextOf labels)).take k) =
            .ok (bqmResult maj (bqmHeaderOf maj.toNat ignore vartype dsz isz c labels) c (serializeLabels labels), []) ∧
        (bqmEncode maj (bqmHeaderText maj.toNat ignore vartype dsz isz c labels)
          (bqmHeaderOf maj.toNat ignore vartype dsz isz c labels) c (varsTextOf labels)).length - pad ≤ k) := by
  obtain ⟨pad, hp, hc⟩ := Comp.bqm_json maj ignore vartype dsz isz c labels hmaj hd hi hv hl wf hlen hvlen
  exact ⟨pad, hp, fun k hk => hc.truncation_safe k hk⟩

/-! ## round 6: the zip contract as a theorem over the byte-level end-record search -/

/-- **`zipfile` rejects every proper prefix of an archive.**  `_EndRecData` (modelled byte for byte: the
    last 22 bytes, then the last occurrence of the signature in the last `65536 + 22` bytes, then the
    22-byte length test) finds no end record in any proper prefix of a file `w` in which the signature
    `PK\x05\x06` occurs only within the last 22 bytes — i.e. only where the writer put the record.  So
    `ZipFile(prefix)` raises `BadZipFile` whatever a directory reader would do. -/
theorem zip_prefix_rejected (readDir : EndRec → Bytes → Option β) (w : Bytes) (hocc : ∀ i, SigAt w i → w.length ≤ i + 22)
    (j : Nat) (hj : j < w.length) : endRecData (w.take j) = none ∧ zipOpen readDir (w.take j) = none :=
  ⟨endRecData_prefix_none w hocc j hj, zipOpen_prefix_none readDir w hocc j hj⟩

/-- the side condition is necessary, and is why it is checked on every generated file: an archive
    whose payload contains an end record (here: the record of an empty archive followed by two payload
    bytes and the real record) has a proper prefix that `zipfile` opens -/
theorem zip_prefix_needs_signature_free_payload :
    ∃ (w : Bytes) (j : Nat), j < w.length ∧ (endRecData (w.take j)).isSome = true :=
  ⟨eocdRecord 0 0 0 ++ [1, 2] ++ eocdRecord 0 0 24, 22, by decide, by decide⟩

/-- **`ZipContract` is a theorem** (tail `0`): for an archive `x ++ e` (`e` the 22-byte end record, the
    signature not occurring before it) the byte-level opener satisfies the contract the truncation
    theorems `truncation_safe_cqm` / `truncation_safe_dqm` assume, given only that the directory reader
    returns `a` on the COMPLETE archive. -/
theorem zip_contract_holds (readDir : EndRec → Bytes → Option β) (x e : Bytes) (a : β)
    (hlen : e.length = 22) (hsig : e.take 4 = sigEOCD) (hz : e.drop 20 = [0, 0])
    (hocc : ∀ i, SigAt (x ++ e) i → x.length ≤ i) (hdir : (EndRec.mk x.length e).sizeCd ≤ x.length)
    (hread : readDir ⟨x.length, e⟩ (x ++ e) = some a) :
    ZipContract (zipOpen readDir) (x ++ e) a 0 :=
  zipContract_of_eocd readDir x e a hlen hsig hz hocc hdir hread

/-- **CQM files cut at any byte offset, no contract about `zipfile` at all**: with the archive located
    in the whole file as `zipfile` does, every proper prefix of a CQM file in which the end-record
    signature occurs only in the last 22 bytes makes `from_file` raise — in the header reader, or
    `BadZipFile`.  The header text is the model's (`cqm_header_ok`); nothing is assumed of the
    directory reader, of `json.loads` or of the members. -/
theorem truncation_safe_cqm_zip (readDir : EndRec → Bytes → Option Archive) (parse : Bytes → Option (QHeader J))
    (okLabel : List Char → Bool) (dsz : Nat) (counts : CqmCounts) (body : Bytes)
    (hh : (dumpsDict (cqmCountsDict counts)).length + 65 < 2 ^ 32)
    (hocc : ∀ i, SigAt (makeHeader cqmPrefix 2 0 (cqmHeaderText counts) ++ body) i →
      (makeHeader cqmPrefix 2 0 (cqmHeaderText counts) ++ body).length ≤ i + 22)
    (k : Nat) (hk : k < (makeHeader cqmPrefix 2 0 (cqmHeaderText counts) ++ body).length) :
    ∃ e, cqmFileLoadW true dsz parseCqmHeader readDir parse okLabel
      ((makeHeader cqmPrefix 2 0 (cqmHeaderText counts) ++ body).take k) = .err e := by
  unfold cqmFileLoadW
  obtain ⟨e, he⟩ := containerLoadW_cut cqmPrefix (cqmHeaderText counts) body 2 0 parseCqmHeader counts cqmVerOk (zipOpen readDir)
    (cqm_header_ok counts hh) (fun j hj => zipOpen_prefix_none readDir _ hocc j hj) k hk
  exact ⟨e, by rw [he]; rfl⟩

/-- **DQM files cut at any byte offset, the npz blob located by the modelled end-record search**
    (the loader that hands `np.load` the blob, i.e. dimod with the D58 repair): an exception, or the
    original DQM with only padding of the `VARS` section lost.  Of `np.load` only the reading of the
    COMPLETE blob is assumed. -/
theorem truncation_safe_dqm_zip (parse : Bytes → Option (Bool × H)) (parseVars : Bytes → Option (List J))
    (readNpz : EndRec → Bytes → Option (List NpyMember)) (hdrText x e varsText : Bytes) (labelled : Bool) (h : H) (c : DqmContent)
    (labels : List J) (hh : HeaderOK parse hdrText (labelled, h)) (wf : DqmWF c)
    (hlen : e.length = 22) (hsig : e.take 4 = sigEOCD) (hz : e.drop 20 = [0, 0])
    (hocc : ∀ i, SigAt (x ++ e) i → x.length ≤ i) (hdir : (EndRec.mk x.length e).sizeCd ≤ x.length)
    (hread : readNpz ⟨x.length, e⟩ (x ++ e) = some (dqmMembers c)) (hsz : (x ++ e).length < 256 ^ 4)
    (hv : labelled = true → VarsOK parseVars varsText labels ∧ labels.length = c.caseStarts.length) :
    ∃ pad, pad < 64 ∧ ∀ k, k < (dqmEncode hdrText labelled (x ++ e) varsText).length →
      (∃ er, (dqmDecode parse parseVars (fun blob => (zipOpen readNpz blob).bind fun ms => match dqmFromMembers ms with | .ok d => some d | _ => none)
          (fun d => d.caseStarts.length)).run ((dqmEncode hdrText labelled (x ++ e) varsText).take k) = .err er) ∨
      ((dqmDecode parse parseVars (fun blob => (zipOpen readNpz blob).bind fun ms => match dqmFromMembers ms with | .ok d => some d | _ => none)
          (fun d => d.caseStarts.length)).run ((dqmEncode hdrText labelled (x ++ e) varsText).take k) =
            .ok ((h, c, if labelled then some labels else none), []) ∧
        (dqmEncode hdrText labelled (x ++ e) varsText).length - pad ≤ k) := by
  obtain ⟨pad, hp, hall⟩ := truncation_safe_dqm parse parseVars (zipOpen readNpz) hdrText (x ++ e) varsText labelled h c labels 0 hh wf
    (zipContract_of_eocd readNpz x e _ hlen hsig hz hocc hdir hread) hsz hv
  refine ⟨if pad < 64 then pad else 0, by split <;> omega, fun k hk => ?_⟩
  rcases hp with hp | hp
  · rw [if_pos hp]; exact hall k hk
  · subst hp; simpa using hall k hk

/-! ## round 7: truncation over the real byte layout; the end-record search with and without the side condition -/

/-- **the backward search finds the record the writer put at the end** — always, whatever the payload: for a file
    `w ++ e` ending in a well-formed 22-byte end record `e`, `_EndRecData` returns `e` at offset `w.length`
    (first branch: the last 22 bytes), even when `w` contains other records.  Together with
    `zip_prefix_rejected` (no PROPER PREFIX has one when the signature occurs only in `e`) this is the
    end-record search in full under the side condition. -/
theorem end_record_found (w e : Bytes) (hlen : e.length = 22) (hsig : e.take 4 = sigEOCD) (hz : e.drop 20 = [0, 0]) :
    endRecData (w ++ e) = some ⟨w.length, e⟩ :=
  endRecData_full w e hlen hsig hz

/-- **without the side condition**: a payload that spells an end record `e'` (comment length `0`) is found as THE end
    record of the file cut right after it — `_EndRecData` cannot tell a truncated file whose payload ends in a record
    from a complete archive.  (For every `a`, `b`: the first `a.length + 22` bytes of `a ++ e' ++ b`.) -/
theorem embedded_end_record_found (a e' b : Bytes) (hlen : e'.length = 22) (hsig : e'.take 4 = sigEOCD) (hz : e'.drop 20 = [0, 0]) :
    endRecData ((a ++ e' ++ b).take (a.length + 22)) = some ⟨a.length, e'⟩ := by
  have : (a ++ e' ++ b).take (a.length + 22) = a ++ e' := by
    rw [List.take_left' (by simp [hlen])]
  rw [this]
  exact endRecData_full a e' hlen hsig hz

/-- … and when the payload spells a COMPLETE archive (local entries, central directory and end record of other
    members `zs`, written for any offset `base`), the file cut right after it OPENS and yields those other
    members: `zipfile` shifts every offset by the integer `concat = pre.length - base`.  This is the mechanism of the defect found
    in round 7 (`ConstrainedQuadraticModel.from_file` / `DiscreteQuadraticModel.from_file` returned the embedded
    model for a truncated file; repaired in dimod by checking that the members tile the file from the header on / that
    the `BIAS` section has its recorded length): the side condition of the truncation theorems cannot be dropped for
    the loaders as they were. -/
theorem embedded_archive_opens (crc32 : Bytes → Nat) (inflate : Bytes → Option Bytes) (pre : Bytes) (base : Nat) (zs : List ZEntry)
    (hz : ∀ z ∈ zs, z.OK crc32 inflate) (hcount : zs.length < 256 ^ 2)
    (hsize : base + (zipLocals zs).length + (zipCD base zs).length < 4294967295) :
    zipOpen (readDirBytes crc32 inflate) (pre ++ zipBytes base zs) = some (zs.map fun z => (z.name, z.content)) := by
  have h256 : (256 : Nat) ^ 4 = 4294967296 := by decide
  obtain ⟨a, b, c⟩ := eocdRecord_shape zs.length (zipCD base zs).length (base + (zipLocals zs).length)
  obtain ⟨d, _, _⟩ := eocdRecord_fields zs.length (zipCD base zs).length (base + (zipLocals zs).length)
    (pre ++ (zipLocals zs ++ zipCD base zs)).length (by omega) (by omega) hcount
  have hfile : pre ++ zipBytes base zs = (pre ++ (zipLocals zs ++ zipCD base zs)) ++
      eocdRecord zs.length (zipCD base zs).length (base + (zipLocals zs).length) := by
    simp [zipBytes, List.append_assoc]
  rw [hfile]
  exact zipOpen_full _ _ _ _ a b c (by rw [d]; simp only [List.length_append]; omega)
    (readDirBytes_zipBytes_shift crc32 inflate pre base zs hz hcount hsize)

/-- **CQM files cut at any byte offset, closed**: for every CQM in the format's domain whose file contains the end-record
    signature only in its last 22 bytes, every proper prefix of the bytes `to_file` writes (header dictionary, members,
    local headers, central directory, end record — `dumpCqm`) makes the whole modelled `from_file` raise; nothing loads.
    No parameter stands for `zipfile`, `json.loads` or a parse function. -/
theorem truncation_safe_cqm_closed (crc32 : Bytes → Nat) (inflate : Bytes → Option Bytes) (deflate : Option (Bytes → Bytes))
    (μ : Nat → ZMeta) (s : CqmSrc) (hd : s.InDomain)
    (hocc : ∀ i, SigAt (dumpCqm crc32 deflate μ s) i → (dumpCqm crc32 deflate μ s).length ≤ i + 22)
    (k : Nat) (hk : k < (dumpCqm crc32 deflate μ s).length) :
    (∃ e, loadCqm crc32 inflate ((dumpCqm crc32 deflate μ s).take k) = .err e) ∧
    loadCqmSrc crc32 inflate ((dumpCqm crc32 deflate μ s).take k) = none := by
  obtain ⟨e, he⟩ := truncation_safe_cqm_zip (readDirChars crc32 inflate) parseExprHeader (fun d => (loadsJ d).isSome) 8
    (cqmCounts s.content.erase) (zipBytes (cqmFileHeader s).length (mkEntries crc32 deflate μ 0 (cqmMembers 4 s.content)))
    hd.hdrLen hocc k hk
  refine ⟨⟨e, he⟩, ?_⟩
  unfold loadCqmSrc
  have he' : loadCqm crc32 inflate ((dumpCqm crc32 deflate μ s).take k) = .err e := he
  rw [he']

/-- **DQM files cut at any byte offset, closed**: header, `BIAS` frame, `.npz` blob (`.npy` headers and data, ZIP container
    at byte level, the end record located by the modelled `_EndRecData`), `from_numpy_vectors`, `VARS` — every proper
    prefix of the bytes `to_file` writes raises or returns the original DQM with only padding of the `VARS` section lost,
    provided the end-record signature occurs in the blob only in its last 22 bytes. -/
theorem truncation_safe_dqm_closed (crc32 : Bytes → Nat) (inflate : Bytes → Option Bytes) (deflate : Option (Bytes → Bytes))
    (μ : Nat → ZMeta) (ignore : Bool) (c : DqmContent) (labels : List FLabel)
    (wf : DqmWF c) (hnpy : ∀ m ∈ dqmMembers c, m.OK) (hl : JOKs (serializeLabels labels)) (hn : labels.length = c.caseStarts.length)
    (hcrc : ∀ b, crc32 b < 256 ^ 4) (hcodec : ∀ d, deflate = some d → ∀ b, inflate (d b) = some b) (hμ : ∀ i, (μ i).OK)
    (hfit : ∀ m ∈ npzArchive (dqmMembers c), MemberFits deflate m)
    (hsize : dqmBlobBase ignore c labels + (npzBytes crc32 deflate μ (dqmBlobBase ignore c labels) (dqmMembers c)).length < 4294967295)
    (hocc : ∀ i, SigAt (npzBytes crc32 deflate μ (dqmBlobBase ignore c labels) (dqmMembers c)) i →
      (npzBytes crc32 deflate μ (dqmBlobBase ignore c labels) (dqmMembers c)).length ≤ i + 22)
    (hlen : (dumpsDict (dqmCountsDict (dqmCounts c) (dqmVariablesFlag ignore labels))).length + 65 < 2 ^ 32)
    (hvlen : (dumpsJ (.arr (serializeLabels labels))).length + 64 < 256 ^ nlb4) :
    ∃ pad, pad < 64 ∧ ∀ k, k < (dumpDqm crc32 deflate μ ignore c labels).length →
      (∃ er, (dqmDecode parseDqmHeader parseVarsReal
          (fun blob => (zipOpen (readNpzBytes crc32 inflate) blob).bind fun ms => match dqmFromMembers ms with | .ok d => some d | _ => none)
          (fun d => d.caseStarts.length)).run ((dumpDqm crc32 deflate μ ignore c labels).take k) = .err er) ∨
      ((dqmDecode parseDqmHeader parseVarsReal
          (fun blob => (zipOpen (readNpzBytes crc32 inflate) blob).bind fun ms => match dqmFromMembers ms with | .ok d => some d | _ => none)
          (fun d => d.caseStarts.length)).run ((dumpDqm crc32 deflate μ ignore c labels).take k) =
            .ok ((dqmCountsDict (dqmCounts c) (dqmVariablesFlag ignore labels), c,
                  if dqmVariablesFlag ignore labels then some (serializeLabels labels) else none), []) ∧
        (dumpDqm crc32 deflate μ ignore c labels).length - pad ≤ k) := by
  obtain ⟨x, e, hxe, h22, hsig, hz, hdir, _, hnpz, _⟩ :=
    readDqmBlob_npz crc32 inflate deflate μ (dqmBlobBase ignore c labels) c wf hnpy hcrc hcodec hμ hfit hsize
  have h256 : (256 : Nat) ^ 4 = 4294967296 := by decide
  unfold dumpDqm
  rw [hxe] at hocc hsize ⊢
  exact truncation_safe_dqm_zip parseDqmHeader parseVarsReal (readNpzBytes crc32 inflate) _ x e (varsTextOf labels) _ _ c
    (serializeLabels labels) (dqm_header_ok _ _ hlen) wf h22 hsig hz
    (fun i hi => by have := hocc i hi; simp only [List.length_append] at this; omega) hdir hnpz (by omega)
    (fun _ => ⟨VarsOK_real _ hl hvlen, by rw [serializeLabels_length, hn]⟩)

/-- **DQM files cut at any byte offset, with NO condition on the payload, for the loader that checks the section length**
    (dimod after the round-7 repair: `blob = file_like.read(length); if len(blob) != length: raise`; which of the two the
    source does is regenerated as `Gen.dqmChecksSectionLength`): `np.load` is reached only with the complete section, so
    a payload that spells an end record or a whole archive cannot be mistaken for one — every proper prefix raises or
    returns the original with only `VARS` padding lost, given only that the COMPLETE blob loads.
    `_partial`: the opener compares with `npz.length`, the length recorded in THIS file's frame, instead of the number read
    from the frame of the prefix — the two agree on every prefix in which the opener is reached (the 4-byte length field
    has then been read completely), an argument made outside Lean. -/
theorem truncation_safe_dqm_length_checked_partial (parse : Bytes → Option (Bool × H)) (parseVars : Bytes → Option (List J))
    (openNpz : Bytes → Option (List NpyMember)) (hdrText npz varsText : Bytes) (labelled : Bool) (h : H) (c : DqmContent)
    (labels : List J) (hh : HeaderOK parse hdrText (labelled, h)) (wf : DqmWF c)
    (hfull : openNpz npz = some (dqmMembers c)) (hsz : npz.length < 256 ^ 4)
    (hv : labelled = true → VarsOK parseVars varsText labels ∧ labels.length = c.caseStarts.length) :
    ∃ pad, pad < 64 ∧ ∀ k, k < (dqmEncode hdrText labelled npz varsText).length →
      (∃ er, (dqmDecode parse parseVars (fun blob => (if blob.length ≠ npz.length then none else openNpz blob).bind fun ms =>
            match dqmFromMembers ms with | .ok d => some d | _ => none)
          (fun d => d.caseStarts.length)).run ((dqmEncode hdrText labelled npz varsText).take k) = .err er) ∨
      ((dqmDecode parse parseVars (fun blob => (if blob.length ≠ npz.length then none else openNpz blob).bind fun ms =>
            match dqmFromMembers ms with | .ok d => some d | _ => none)
          (fun d => d.caseStarts.length)).run ((dqmEncode hdrText labelled npz varsText).take k) =
            .ok ((h, c, if labelled then some labels else none), []) ∧
        (dqmEncode hdrText labelled npz varsText).length - pad ≤ k) := by
  have hz : ZipContract (fun blob => if blob.length ≠ npz.length then none else openNpz blob) npz (dqmMembers c) 0 :=
    ⟨by simp [hfull], fun j hj hle => by omega, fun j hj => by
      have : (npz.take j).length ≠ npz.length := by rw [List.length_take]; omega
      show (if (npz.take j).length ≠ npz.length then none else openNpz (npz.take j)) = none
      rw [if_pos this]⟩
  obtain ⟨pad, hp, hall⟩ := truncation_safe_dqm parse parseVars _ hdrText npz varsText labelled h c labels 0 hh wf hz hsz hv
  refine ⟨if pad < 64 then pad else 0, by split <;> omega, fun k hk => ?_⟩
  rcases hp with hp | hp
  · rw [if_pos hp]; exact hall k hk
  · subst hp; simpa using hall k hk

/-- **the repaired CQM loader's tiling check** (`_open_archive`: the members, in the order of their shifted header offsets,
    must tile the file from where the header ended up to the central directory; modelled as `openTiled`)
    (i) ACCEPTS every archive the writer appended — no valid file is refused, the members are read as before —, and
    (ii) REFUSES a non-empty archive that does not start where the header ended, whatever offset it was written for: in
    particular the archive spelled by a payload, in the file cut right after it, which `zipfile` alone opens
    (`embedded_archive_opens`).  So the counterexample class found this round is closed at model level; the general statement
    "every proper prefix is refused whatever the payload" for the tiling loader is not proved (see the level note). -/
theorem tiling_check_accepts_and_refuses (crc32 : Bytes → Nat) (inflate : Bytes → Option Bytes) (pre : Bytes) (zs : List ZEntry)
    (hz : ∀ z ∈ zs, z.OK crc32 inflate) (hcount : zs.length < 256 ^ 2)
    (hsize : pre.length + (zipLocals zs).length + (zipCD pre.length zs).length < 4294967295) :
    openTiled crc32 inflate pre.length (pre ++ zipBytes pre.length zs) = some (zs.map fun z => (z.name, z.content)) ∧
    ∀ (other : Bytes) (base start : Nat) (z : ZEntry) (zs' : List ZEntry), other.length ≠ start →
      (∀ y ∈ z :: zs', y.OK crc32 inflate) → (z :: zs').length < 256 ^ 2 →
      base + (zipLocals (z :: zs')).length + (zipCD base (z :: zs')).length < 4294967295 →
      openTiled crc32 inflate start (other ++ zipBytes base (z :: zs')) = none :=
  ⟨openTiled_zipBytes crc32 inflate pre zs hz hcount hsize,
   fun other base start z zs' hs hz' hc hsz => openTiled_embedded_none crc32 inflate other base start z zs' hs hz' hc hsz⟩

/-- **the three round-7 repairs are in the source under test** (flags regenerated by `harness/translators/fileconsts.py` from
    `_from_file_numpy`, `ConstrainedQuadraticModel.from_file` / `_open_archive` and `read_header`): the DQM loader refuses a
    short `BIAS` section (the loader of `truncation_safe_dqm_length_checked_partial`), the CQM loader checks that the archive
    members tile the file from the header to the central directory, and `read_header` reads the dictionary fully.  Without
    them the truncation property FAILS on the real code for payloads that spell an archive (`embedded_archive_opens`) and for
    file objects with short reads; a source that drops one of them breaks this theorem, and the adversarial / short-read
    sweeps of the harness then produce the concrete failing input. -/
theorem loader_repairs_from_source :
    Gen.dqmChecksSectionLength = true ∧ Gen.cqmChecksArchiveTiling = true ∧ Gen.headerReadsFully = true ∧
    Gen.dqmLoadsWholeFile = false := by decide

/-- non-vacuity: the signature side condition is a Boolean check (`sigOnlyAtEnd`, sound for the hypothesis `hocc` of the
    truncation theorems) and holds e.g. for two payload bytes followed by the end record of an empty archive; the domain
    hypothesis `InDomain` is met by the concrete CQM of `Properties/C09.lean`.  On every generated file the harness evaluates
    the same condition (tick `eocd sweep …`). -/
example : sigOnlyAtEnd ([1, 2] ++ eocdRecord 0 0 0) = true ∧
    (∀ i, SigAt ([1, 2] ++ eocdRecord 0 0 0) i → ([1, 2] ++ eocdRecord 0 0 0).length ≤ i + 22) :=
  ⟨by decide, sigOnlyAtEnd_sound _ (by decide)⟩

/-! ## round 8: the tiling check alone is not enough — the directory must agree with the local headers

Found on the real (round-7 repaired) loader: a payload can spell a directory that lists a COVER member at the header end
whose `compress_size` spans every real member up to the embedded ones; the members then tile the file, the loader never
opens the cover, and a truncated file loads as the embedded model (`notes/repro/r8e-cqm-cover-member.py`).  Repaired in
dimod by `patches/cqm-archive-local-headers.diff`; `openTiledStrict` is the model of the repaired opener. -/

/-- **the round-7 walk trusts the directory's size** (the mechanism of the defect, a theorem about the model `tilesFrom` of
    the round-7 `_open_archive`): a listed member at the walk's position moves the walk by `30 + name + extra + c` for EVERY
    `compress_size = c` the directory states — so a directory spelled by the payload reaches any position it likes,
    in particular the first embedded member. -/
theorem tiling_walk_trusts_directory_size (file : Bytes) (sd ocd pos : Nat) (i : CDInfo) (c : Nat) (h1 : ocd ≤ i.offset + sd)
    (h2 : i.offset + sd - ocd = pos) (h3 : ((file.drop (pos + 26)).take 4).length = 4) :
    tilesFrom file sd ocd pos [{ i with csize := c }] =
      some (pos + 30 + leNat (((file.drop (pos + 26)).take 4).take 2) + leNat (((file.drop (pos + 26)).take 4).drop 2) + c) :=
  tilesFrom_single file sd ocd pos i c h1 h2 h3

/-- **the repaired opener accepts every archive the writer appended** — no valid file is refused, the members are read as
    before — given that each local header records the size of its data (`ZEntry.LocalOK`: the 4-byte field, or `0xFFFFFFFF`
    and the zip64 extra of `force_zip64=True`; a Boolean the driver evaluates on every generated file). -/
theorem local_header_check_accepts_written (crc32 : Bytes → Nat) (inflate : Bytes → Option Bytes) (pre : Bytes) (zs : List ZEntry)
    (hz : ∀ z ∈ zs, z.OK crc32 inflate) (hl : ∀ z ∈ zs, z.LocalOK) (hcount : zs.length < 256 ^ 2)
    (hsize : pre.length + (zipLocals zs).length + (zipCD pre.length zs).length < 4294967295) :
    openTiledStrict crc32 inflate pre.length (pre ++ zipBytes pre.length zs) = some (zs.map fun z => (z.name, z.content)) :=
  openTiledStrict_zipBytes crc32 inflate pre zs hz hl hcount hsize

/-- **the directory cannot lie**: whatever directory `zipfile` found (`infos`: ANY list — the real one or one spelled by a
    payload, with any `start_dir` / `offset_cd`), if the repaired walk passes over the local entries the writer wrote after
    the header, then the listed members ARE the first `infos.length` written members — same names, same sizes, same order —
    and the walk (hence `start_dir`) stands at the boundary after them.  So a truncated file can only be accepted with a
    directory that sits at a member boundary and lists exactly the real members before it. -/
theorem local_header_check_directory_cannot_lie (sd ocd : Nat) (zs : List ZEntry) (pre post : Bytes) (infos : List CDInfo) (p : Nat)
    (hl : ∀ z ∈ zs, z.LocalOK) (hlen : infos.length ≤ zs.length)
    (h : tilesFromStrict (pre ++ (zipLocals zs ++ post)) sd ocd pre.length infos = some p) :
    infos.map (fun i => (i.name, i.csize)) = (zs.take infos.length).map (fun z => (z.name, z.stored.length)) ∧
    p = pre.length + (zipLocals (zs.take infos.length)).length :=
  tilesFromStrict_sound sd ocd zs pre post infos p hl hlen h

/-- **the cover member is refused**: a directory whose first member (in offset order) states another size than the local
    header of the first written member — the counterexample class of round 8 — fails the repaired walk, whatever follows. -/
theorem local_header_check_refuses_cover (sd ocd : Nat) (z : ZEntry) (pre rest : Bytes) (i : CDInfo) (t : List CDInfo) (hz : z.LocalOK)
    (hc : i.csize ≠ z.stored.length) : tilesFromStrict (pre ++ (localEntry z ++ rest)) sd ocd pre.length (i :: t) = none :=
  tilesFromStrict_cover_none sd ocd z pre rest i t hz hc

/-- **the repaired opener refines the round-7 opener**: what it opens, the tiling opener opens with the same members; so it
    still refuses an archive that does not start where the header ended (`tiling_check_accepts_and_refuses` (ii)). -/
theorem local_header_check_refines_tiling (crc32 : Bytes → Nat) (inflate : Bytes → Option Bytes) :
    (∀ start file ms, openTiledStrict crc32 inflate start file = some ms → openTiled crc32 inflate start file = some ms) ∧
    ∀ (other : Bytes) (base start : Nat) (z : ZEntry) (zs' : List ZEntry), other.length ≠ start →
      (∀ y ∈ z :: zs', y.OK crc32 inflate) → (z :: zs').length < 256 ^ 2 →
      base + (zipLocals (z :: zs')).length + (zipCD base (z :: zs')).length < 4294967295 →
      openTiledStrict crc32 inflate start (other ++ zipBytes base (z :: zs')) = none := by
  refine ⟨fun start file ms h => openTiled_of_strict crc32 inflate start file ms h, fun other base start z zs' hs hz hc hsz => ?_⟩
  cases h : openTiledStrict crc32 inflate start (other ++ zipBytes base (z :: zs')) with
  | none => rfl
  | some ms =>
    have := openTiled_of_strict crc32 inflate start _ ms h
    rw [openTiled_embedded_none crc32 inflate other base start z zs' hs hz hc hsz] at this
    exact absurd this (by simp)

/-- **the round-8 repair is in the source under test** (regenerated by `harness/translators/fileconsts.py` from the ast of
    `_open_archive`): the walk compares the directory's `header_offset`, `compress_size` and `orig_filename` with what the
    local header at that position records, and checks the local signature.  A source that drops the comparison breaks this
    theorem; the harness (`adversarial_payloads`: cover member) then produces the truncated file that loads as another model. -/
theorem loader_repairs_from_source_r8 :
    Gen.cqmChecksLocalHeaders = true ∧ Gen.cqmChecksArchiveTiling = true ∧
    Gen.cqmOpenerComparedFields = ["compress_size", "flag_bits", "header_offset", "orig_filename"] := by decide

/-- non-vacuity: a member as `writestr` writes it (size in the header) and one as `zf.open(name, 'w', force_zip64=True)`
    writes it (`0xFFFFFFFF` + zip64 extra: id 1, length 16, file size, compressed size) both meet `LocalOK` -/
example : (ZEntry.mk [118] [1, 2, 3] [1, 2, 3] 0 0 20 20 0 0 0 3 3 [] [] 0 0).LocalOK ∧
    (ZEntry.mk [111] [1, 2, 3] [1, 2, 3] 0 0 45 45 0 0 0 4294967295 4294967295
      ([1, 0, 16, 0] ++ toLE 8 3 ++ toLE 8 3) [] 0 0).LocalOK := by decide

/-! ## round 8: the general statement — every proper prefix is refused, whatever the payload -/

/-- **every proper prefix of a written archive file is refused by the repaired opener, WHATEVER THE PAYLOAD.**  For any bytes
    `pre` (the dimod header) followed by the archive `zipfile` appends for any non-empty list of members `front ++ [zl]` —
    any contents: end records, directories, whole archives with cover members spelled by the biases — the model of
    `_open_archive` (as coded after `patches/cqm-archive-local-headers.diff`: `_EndRecData` with its backward search,
    `start_dir` / `concat`, the directory loop, sort by offset, the walk over the local headers, `pos == start_dir`) returns
    `none` (raises) on the first `k` bytes, for every `k` below the file length.  No side condition on where the end-record
    signature occurs.  Assumed: what the writer guarantees of each member (`ZEntry.OK`; `LocalOK`: the local header records
    the size of the data, evaluated by the driver on every generated file) and that the name / directory extra of the LAST
    member holds no byte `0x06` (names are ASCII JSON text; the extra is empty below 4 GiB).
    Proof: the walk ends at `start_dir` inside the prefix, so it is a walk on the complete file; there the directory cannot
    lie (`local_header_check_directory_cannot_lie`), so `start_dir` is the boundary after the first `m` real members; for
    `m` below the member count the bytes there are a local header, not a directory record (nor, for an empty directory, an
    end record); for `m` = all members the directory read is the real one cut short, whose `n` records reach into the last
    name, where no end-record signature can start. -/
theorem truncation_safe_archive_any_payload (crc32 : Bytes → Nat) (inflate : Bytes → Option Bytes) (pre : Bytes) (front : List ZEntry)
    (zl : ZEntry) (hz : ∀ z ∈ front ++ [zl], z.OK crc32 inflate) (hl : ∀ z ∈ front ++ [zl], z.LocalOK)
    (h6 : (6 : UInt8) ∉ zl.name ++ zl.cextra) (k : Nat) (hk : k < (pre ++ zipBytes pre.length (front ++ [zl])).length) :
    openTiledStrict crc32 inflate pre.length ((pre ++ zipBytes pre.length (front ++ [zl])).take k) = none :=
  openTiledStrict_prefix_none crc32 inflate pre front zl hz hl h6 k hk

/-- **CQM files cut at any byte offset, the repaired loader, ANY payload — closed**: for every CQM source `s` (no domain
    condition on biases, bounds, weights: they are payload) every proper prefix of the bytes `to_file` writes (`dumpCqm`)
    makes the modelled `from_file` — `read_header`, version test, `_open_archive` at the position the header reader stopped
    at, members, decoding, header check (`cqmFileLoadTiled`) — raise.  This is `truncation_safe_cqm_closed` WITHOUT its
    signature side condition, for the loader dimod has after the round-8 repair.  Hypotheses: the header dictionary fits its
    length field (`hlen`), the archive has a last member (`hsplit`; `to_file` always writes `varinfo` and `objective`), the
    members are as the writer writes them (`hz`, `hl`), the last member's name has no byte `0x06` (`h6`), and the 64-byte
    aligned header itself (prefix, version, length, ASCII JSON text, spaces) does not contain the end-record signature
    (`hhdr`; a Boolean check, `sigOnlyAtEnd`-style, evaluated by the harness on every generated header). -/
theorem truncation_safe_cqm_tiled (crc32 : Bytes → Nat) (inflate : Bytes → Option Bytes) (deflate : Option (Bytes → Bytes)) (μ : Nat → ZMeta)
    (s : CqmSrc) (front : List ZEntry) (zl : ZEntry)
    (hlen : (dumpsDict (cqmCountsDict (cqmCounts s.content.erase))).length + 65 < 2 ^ 32)
    (hsplit : mkEntries crc32 deflate μ 0 (cqmMembers 4 s.content) = front ++ [zl])
    (hz : ∀ z ∈ front ++ [zl], z.OK crc32 inflate) (hl : ∀ z ∈ front ++ [zl], z.LocalOK)
    (h6 : (6 : UInt8) ∉ zl.name ++ zl.cextra) (hhdr : ∀ i, ¬ SigAt (cqmFileHeader s) i)
    (k : Nat) (hk : k < (dumpCqm crc32 deflate μ s).length) :
    ∃ e, cqmFileLoadTiled true 8 parseCqmHeader crc32 inflate parseExprHeader (fun d => (loadsJ d).isSome)
      ((dumpCqm crc32 deflate μ s).take k) = .err e :=
  cqmFileLoadTiled_cut crc32 inflate deflate μ s front zl hlen hsplit hz hl h6 hhdr k hk

/-- non-vacuity: an archive whose only member's CONTENT is an end record (`PK\x05\x06` + 18 zero bytes: the payload the older
    theorems exclude) meets every hypothesis; all of its proper prefixes are refused -/
example : ∀ k, k < (([68, 73] : Bytes) ++ zipBytes 2 ([] ++ [ZEntry.mk [118] (eocdRecord 0 0 0) (eocdRecord 0 0 0) 0 0 20 20 0 0 0 22 22 [] [] 0 0])).length →
    openTiledStrict (fun _ => 0) (fun _ => none) 2
      ((([68, 73] : Bytes) ++ zipBytes 2 ([] ++ [ZEntry.mk [118] (eocdRecord 0 0 0) (eocdRecord 0 0 0) 0 0 20 20 0 0 0 22 22 [] [] 0 0])).take k) = none :=
  fun k hk => truncation_safe_archive_any_payload (fun _ => 0) (fun _ => none) [68, 73] []
    (ZEntry.mk [118] (eocdRecord 0 0 0) (eocdRecord 0 0 0) 0 0 20 20 0 0 0 22 22 [] [] 0 0)
    (by intro z hz; simp only [List.nil_append, List.mem_singleton] at hz; subst hz; unfold ZEntry.OK; decide)
    (by intro z hz; simp only [List.nil_append, List.mem_singleton] at hz; subst hz; decide)
    (by decide) k hk

/-! ## round 8: the DQM theorem with the length check where the code has it -/

/-- **DQM files cut at any byte offset, NO condition on the payload, the loader as coded** (`_from_file_numpy` after the
    round-7 repair: `blob = file_like.read(length); if len(blob) != length: raise ValueError` — `dqmDecodeLenChecked`, the
    comparison is with the number the loader READ from the frame of the bytes it was given).  This lifts
    `truncation_safe_dqm_length_checked_partial`: on every prefix of a written file the length field, if it is read at all,
    reads as the recorded length (`dqmLen_of_prefix`), so the loader with the check inside agrees with the one whose opener
    compares with `npz.length`, up to the class of the exception (`dqmDecode_sim_on_prefix`).  Every proper prefix raises or
    returns the original with only `VARS` padding lost, given only that `np.load` reads the COMPLETE blob. -/
theorem truncation_safe_dqm_length_checked (parse : Bytes → Option (Bool × H)) (parseVars : Bytes → Option (List J))
    (openNpz : Bytes → Option (List NpyMember)) (hdrText npz varsText : Bytes) (labelled : Bool) (h : H) (c : DqmContent)
    (labels : List J) (hh : HeaderOK parse hdrText (labelled, h)) (wf : DqmWF c)
    (hfull : openNpz npz = some (dqmMembers c)) (hsz : npz.length < 256 ^ 4)
    (hv : labelled = true → VarsOK parseVars varsText labels ∧ labels.length = c.caseStarts.length) :
    ∃ pad, pad < 64 ∧ ∀ k, k < (dqmEncode hdrText labelled npz varsText).length →
      (∃ er, (dqmDecodeLenChecked parse parseVars (fun blob => (openNpz blob).bind fun ms =>
            match dqmFromMembers ms with | .ok d => some d | _ => none)
          (fun d => d.caseStarts.length)).run ((dqmEncode hdrText labelled npz varsText).take k) = .err er) ∨
      ((dqmDecodeLenChecked parse parseVars (fun blob => (openNpz blob).bind fun ms =>
            match dqmFromMembers ms with | .ok d => some d | _ => none)
          (fun d => d.caseStarts.length)).run ((dqmEncode hdrText labelled npz varsText).take k) =
            .ok ((h, c, if labelled then some labels else none), []) ∧
        (dqmEncode hdrText labelled npz varsText).length - pad ≤ k) := by
  obtain ⟨pad, hp, hall⟩ := truncation_safe_dqm_length_checked_partial parse parseVars openNpz hdrText npz varsText labelled h c labels
    hh wf hfull hsz hv
  refine ⟨pad, hp, fun k hk => ?_⟩
  have hsim := dqmDecode_sim_on_prefix parse parseVars
    (fun blob => (openNpz blob).bind fun ms => match dqmFromMembers ms with | .ok d => some d | _ => none)
    (fun d : DqmContent => d.caseStarts.length) hdrText npz varsText labelled h hh hsz k
  have heq : (fun b : Bytes => if b.length ≠ npz.length then none else
        (openNpz b).bind fun ms => match dqmFromMembers ms with | .ok d => some d | _ => none) =
      (fun blob => (if blob.length ≠ npz.length then none else openNpz blob).bind fun ms =>
        match dqmFromMembers ms with | .ok d => some d | _ => none) := by
    funext b; by_cases hb : b.length ≠ npz.length <;> simp [hb]
  rw [heq] at hsim
  rcases hall k hk with herr | ⟨hok, hle⟩
  · exact Or.inl (Res.sim_err hsim herr)
  · exact Or.inr ⟨Res.sim_ok hsim hok, hle⟩

end C10
