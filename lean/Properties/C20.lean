import DimodProofs.BqmErr
import DimodProofs.Counts
import DimodProofs.NoUB
import DimodProofs.CppWF
import DimodProofs.CppMore
import DimodProofs.NoUB2
import DimodProofs.CqmInv
import DimodProofs.NoUBExpr
import DimodModel.CppCover
import DimodProofs.NoUBCqm
import DimodProofs.CyCqmVars
import DimodProofs.CqmChangeVartype

/-! # C20 — no call sequence corrupts the native data structures

Models: `DimodModel/Bqm.lean` (label level, shared with C04), `DimodModel/Cpp.lean` (`CppM`: index-level model of
`abc.h` / `binary_quadratic_model.h` / `quadratic_model.h`, one per interpreter slot) and
`DimodModel/Checked.lean` (the same methods with every vector access checked).  Tie to the code:
`harness/props/c20.py` — the C++ interpreter (ASan/UBSan/assertions) against `CppM` on every op of every
sequence, structural invariants on the printed state, isolated malformed calls at the Python boundary.
Memory safety of the compiled code itself is *observed* (sanitizers), not proved. -/

namespace C20
open Bqm

/-- shared with C04: every call of every history (any arguments, returning or raising, directly or through a
    view) keeps: one neighbourhood per variable, strictly sorted, indices in range, symmetric with equal
    biases, no self-loop on SPIN/BINARY, label list in step with the native model -/
theorem wf_preserved_all_ops (m : Bqm) (h : m.WF) (via : Via) (op : Op) : (m.step via op).1.WF := h.step via op

theorem wf_all_histories (vt : VT) (ops : List (Via × Op)) : ((Bqm.empty vt).run ops).WF := (WF.empty vt).run ops

/-- the index-level primitives on an adjacency with self-loops allowed where `loopOK` says so (QM / expressions):
    symmetric add/set, removal of an interaction, removal of a variable, scaling keep the invariant -/
theorem wf_preserved_index_level {n : Nat} {adj : AdjT} {l : Nat → Bool} (h : AdjWF n adj l) :
    (∀ u v b set, u < n → v < n → u ≠ v → AdjWF n (adjSym adj u v b set) l) ∧
    (∀ u v, u < n → v < n → AdjWF n (adjDrop adj u v) l) ∧
    (∀ vi, vi < n → AdjWF (n - 1) (adjRemove adj vi) (fun x => l (skip vi x))) ∧
    (∀ s, AdjWF n (adjScale adj s) l) :=
  ⟨fun u v b set hu hv hne => h.adjSym u v b set hu hv hne, fun u v hu hv => h.adjDrop u v hu hv,
   fun vi hvi => h.adjRemove vi hvi, fun s => h.adjScale s⟩

/-- **the header methods keep the invariant within their preconditions** (index-level model `CppM` of
    BinaryQuadraticModel / QuadraticModel, the one diffed against the sanitizer-instrumented interpreter): for indices
    `< num_variables()`: add_linear / set_linear, add_quadratic / set_quadratic (self-loop on INTEGER/REAL, linear or
    offset on BINARY/SPIN, `domain_error` unchanged), remove_interaction (pair or self-loop), remove_variable,
    fix_variable, scale, substitute_variables, clear; for a BQM also add_variable, resize(k) for any k, change_vartype. -/
theorem cpp_wf_preserved (m : CppM) (h : m.WF) :
    (∀ i f, (m.withLin (Bqm.modifyAt · i f)).WF) ∧
    (∀ u v b set, u < m.q.lin.length → v < m.q.lin.length → (m.quad u v b set).1.WF) ∧
    (∀ u v, u < m.q.lin.length → v < m.q.lin.length → (m.removeInteraction u v).1.WF) ∧
    (∀ v, v < m.q.lin.length → (m.removeAt v).WF) ∧
    (∀ v a, v < m.q.lin.length → (m.fix v a).WF) ∧
    (∀ s, (m.scale s).WF) ∧ (∀ a c, (m.substituteAll a c).WF) ∧ m.clear.WF ∧
    (∀ t, m.bvt = some t → (m.addVar none).WF ∧ (∀ k, (m.baseResize k).WF) ∧
      (∀ t', Qm.isBin t' = true → (m.changeVartype t' 0).1.WF)) :=
  ⟨fun i f => h.withLin i f, fun u v b set hu hv => h.quad u v b set hu hv,
   fun u v hu hv => h.removeInteraction u v hu hv, fun v hv => h.removeAt v hv, fun v a hv => h.fix v a hv,
   fun s => h.scale s, fun a c => h.substituteAll a c, h.clear,
   fun t ht => ⟨h.addVar_bqm t ht, fun k => h.baseResize_bqm k t ht, fun t' ht' => h.changeVartype_bqm t' t ht ht'⟩⟩

/-- … and the rest of the header API of the two model classes:
    * `remove_variables(vs)` for distinct indices `< num_variables()` (the model removes them from the largest down);
    * `substitute_variable(v, mult, c)` as coded, the self-loop branch (fix of D4) included;
    * `QuadraticModel::resize(k)`, `k ≤ num_variables()`, with the variable info truncated alongside;
    * `add_quadratic_from_dense(dense, k)` for `k ≤ num_variables()`;
    * the iterator `add_quadratic(rows, cols, biases)`: a BQM grows to the largest index first, for a QM the indices have
      to be `< num_variables()`. -/
theorem cpp_wf_preserved_more (m : CppM) (h : m.WF) :
    (∀ vs : List Nat, vs.Nodup → (∀ v ∈ vs, v < m.q.lin.length) → (m.removeMany vs).WF) ∧
    (∀ v mult c, v < m.q.lin.length → (m.substituteVariable v mult c).WF) ∧
    (∀ k, m.bvt = none → k ≤ m.q.lin.length → (m.resize k).1.WF) ∧
    (∀ k d, k ≤ m.q.lin.length → (m.addDense k d).WF) ∧
    (∀ rows cols vals, cols.length = rows.length → (m.bvt = none → ∀ x ∈ rows ++ cols, x < m.q.lin.length) →
      (m.addCoo rows cols vals).WF) :=
  ⟨fun vs hn hb => h.removeMany vs hn hb, fun v mult c hv => h.substituteVariable v mult c hv,
   fun k hb hk => h.resize_qm k hb hk, fun k d hk => h.addDense k d hk,
   fun rows cols vals hl hq => h.addCoo rows cols vals hl hq⟩

/-- **the Expression layer** (`dimod::Expression`: `variables_`, `indices_`, and a `QuadraticModelBase` over local
    indices), model `DimodModel/Cqm.lean` (`Expr`, owned by C05 and tied to the code there): the invariant `ExprWF` —
    `variables_` duplicate-free, `indices_` the inverse of `variables_`, linear biases and adjacency as long as
    `variables_`, **every stored neighbour index `< variables_.size()`** — is preserved by `enforce_variable`, add / set
    linear, `add_quadratic`, `remove_interaction`, `remove_variable` (with its re-indexing) and `substitute_variable`.
    Gap (hence `_partial`): the interpreter's Expression / Constraint / CQM slots are compared structurally and under
    the sanitizers, not against this Lean model; constraint management (`add_constraint`, `remove_constraint`, the
    move / copy / swap paths, `fix_variable` on a CQM) has no invariant theorem here. -/
theorem expression_wf_preserved_partial (e : Expr) (h : CqmP.ExprWF e) :
    (∀ g, CqmP.ExprWF (e.enforce g).1 ∧ (e.enforce g).2 < (e.enforce g).1.vars.length) ∧
    (∀ g b, CqmP.ExprWF (e.addLinear g b)) ∧ (∀ g b, CqmP.ExprWF (e.setLinear g b)) ∧
    (∀ vt gu gv b, CqmP.ExprWF (e.addQuadratic vt gu gv b)) ∧
    (∀ gu gv, CqmP.ExprWF (e.removeInteraction gu gv)) ∧
    (∀ g, CqmP.ExprWF (e.removeVar g)) ∧
    (∀ g m c, CqmP.ExprWF (e.substitute g m c)) :=
  ⟨fun g => ⟨CqmP.enforce_wf h g, CqmP.enforce_lt h g⟩, fun g b => CqmP.addLinear_wf h g b, fun g b => CqmP.setLinear_wf h g b,
   fun vt gu gv b => CqmP.addQuadratic_wf h vt gu gv b, fun gu gv => CqmP.removeInteraction_wf h gu gv,
   fun g => CqmP.removeVar_wf h g, fun g m c => CqmP.substitute_wf h g m c⟩

/-- **counts are consistent**: `num_interactions()` as the header computes it ((Σ row sizes + #self-loops) / 2)
    is the number of unordered pairs carrying an interaction (self-loops once), and `degree(v)` is the number of
    distinct neighbours of `v` — on every well-formed adjacency, of any size -/
theorem counts_consistent (m : CppM) {l : Nat → Bool} (h : AdjWF m.q.lin.length m.q.adj l) :
    m.numInteractions = pairCount m.q.adj m.q.lin.length ∧
    ∀ v, m.degree v = sumTo m.q.lin.length (fun w => ind m.q.adj v w) :=
  ⟨CppM.numInteractions_eq_pairCount m h, CppM.degree_eq_neighbours m h⟩

/-- **no out-of-range access within the preconditions**: with every `operator[]` of the header modelled as a
    checked lookup, `add_quadratic`/`set_quadratic`, `remove_interaction`, `fix_variable` and `energy` never
    hit a failing lookup when the indices given are `< num_variables()` (resp. the sample has that length) and
    the adjacency is well-formed — in particular the neighbour indices *stored* in the structure are always
    usable as indices into the linear biases and the sample. -/
theorem no_ub_within_preconditions (m : CppM) {l : Nat → Bool} (h : AdjWF m.q.lin.length m.q.adj l) :
    (∀ u v b set, u < m.q.lin.length → v < m.q.lin.length → m.quad? u v b set = some (m.quad u v b set)) ∧
    (∀ u v, u < m.q.lin.length → v < m.q.lin.length → m.removeInteraction? u v = some (m.removeInteraction u v)) ∧
    (∀ v a, v < m.q.lin.length → m.fix? v a = some (m.fix v a)) ∧
    (∀ x : List Rat, x.length = m.q.lin.length → m.energy? x = some (m.energy x)) :=
  ⟨fun u v b set hu hv => CppM.quad?_eq m h u v b set hu hv, fun u v hu hv => CppM.removeInteraction?_eq m h u v hu hv,
   fun v a hv => CppM.fix?_eq m h v a hv, fun x hx => CppM.energy?_eq m h x hx⟩

/-- … and for the rest of the two model classes (every vector access of the header modelled as a checked lookup,
    `DimodModel/Checked.lean`):
    * `remove_variable(v)`, `v < num_variables()`: the `erase(begin + v)` of each vector;
    * `remove_variables(vs)`: every `reindex[·]` lookup of the re-indexing scheme — for the indices given and for
      **every neighbour index stored in the structure** — is inside the vector;
    * `substitute_variable(v, mult, c)`: `linear_biases_[v]`, `(*adj_ptr_)[v]`, and per neighbour `linear_biases_[term.v]`,
      `asymmetric_quadratic_ref(term.v, v)`;
    * `substitute_variables`: the loops over `v < num_variables()` index both vectors in range (they are equally long);
    * dense / COO construction: every `add_quadratic` of the loops;
    * `resize` performs no `operator[]` (`vector::resize`, `erase(lower_bound(..), end())`), nothing to check. -/
theorem no_ub_more (m : CppM) (h : m.WF) :
    (∀ v, v < m.q.lin.length → m.removeAt? v = some (m.removeAt v)) ∧
    (∀ vs : List Nat, (∀ v ∈ vs, v < m.q.lin.length) → (m.reindexLookups? vs).isSome) ∧
    (∀ v mult c, v < m.q.lin.length → m.substituteVariable? v mult c = some (m.substituteVariable v mult c)) ∧
    m.substituteAllLookups?.isSome ∧
    (∀ k d, k ≤ m.q.lin.length → m.addDense? k d = some (m.addDense k d)) ∧
    (∀ rows cols vals, cols.length = rows.length → (m.bvt = none → ∀ x ∈ rows ++ cols, x < m.q.lin.length) →
      m.addCoo? rows cols vals = some (m.addCoo rows cols vals)) :=
  ⟨fun v hv => CppM.removeAt?_eq m h v hv, fun vs hb => CppM.reindexLookups_ok m h vs hb,
   fun v mult c hv => CppM.substituteVariable?_eq m h v mult c hv, CppM.substituteAllLookups_ok m h,
   fun k d hk => CppM.addDense?_eq m h k d hk, fun rows cols vals hl hq => CppM.addCoo?_eq m h rows cols vals hl hq⟩

/-- **the Expression layer performs no out-of-range access** (checked-indexing model `DimodModel/CheckedExpr.lean`: every
    `operator[]` on `variables_`, `linear_biases_`, `(*adj_ptr_)` with the local index handed back by `enforce_variable` /
    `indices_`, and with every neighbour index stored in the structure, is a lookup that can fail).  Under `ExprWF`, for
    **any** global index (the Expression methods have no precondition on it: an unknown variable is added or ignored):
    add / set linear, `add_quadratic` (self-loop branches per vartype included), `remove_interaction`, `remove_variable`
    (`variables_.erase(begin + i)` and the base `remove_variable(i)`), `substitute_variable` (`linear_biases_[v]`,
    `(*adj_ptr_)[v]`, per term `linear_biases_[term.v]`, `(*adj_ptr_)[term.v]`), and the readers `linear`, `quadratic`
    all complete without a failing lookup and return what the unchecked model returns. -/
theorem expression_no_ub (e : Expr) (h : CqmP.ExprWF e) :
    (∀ g b, e.addLinear? g b = some (e.addLinear g b)) ∧ (∀ g b, e.setLinear? g b = some (e.setLinear g b)) ∧
    (∀ vt gu gv b, e.addQuadratic? vt gu gv b = some (e.addQuadratic vt gu gv b)) ∧
    (∀ gu gv, e.removeInteraction? gu gv = some (e.removeInteraction gu gv)) ∧
    (∀ g, e.removeVar? g = some (e.removeVar g)) ∧
    (∀ g m c, e.substitute? g m c = some (e.substitute g m c)) ∧
    (∀ g, e.linear? g = some (e.linear g)) ∧ (∀ g k, e.quadratic? g k = some (e.quadratic g k)) :=
  ⟨fun g b => CqmP.Expr.addLinear?_eq h g b, fun g b => CqmP.Expr.setLinear?_eq h g b,
   fun vt gu gv b => CqmP.Expr.addQuadratic?_eq h vt gu gv b, fun gu gv => CqmP.Expr.removeInteraction?_eq h gu gv,
   fun g => CqmP.Expr.removeVar?_eq h g, fun g m c => CqmP.Expr.substitute?_eq h g m c,
   fun g => CqmP.Expr.linear?_eq h g, fun g k => CqmP.Expr.quadratic?_eq h g k⟩

/-- … and for **every call sequence** on an expression, starting from the empty one: the run with checked lookups
    never fails, equals the unchecked run, and ends in a well-formed expression (induction over the sequence) -/
theorem expression_histories_no_ub (vt : List VT4) (ops : List EOp) :
    Expr.runE? vt (some {}) ops = some (({} : Expr).runE vt ops) ∧ CqmP.ExprWF (({} : Expr).runE vt ops) :=
  ⟨CqmP.runE?_eq vt ops CqmP.exprWF_empty, CqmP.runE_wf vt ops CqmP.exprWF_empty⟩

/-- non-vacuity: a checked run that adds, links, substitutes and removes variables of an expression -/
example : (Expr.runE? [.integer, .binary, .spin] (some {})
    [.addLinear 2 (1/2), .addQuadratic 0 0 (3/2), .addQuadratic 0 2 1, .substitute 0 2 (-1), .removeVar 2, .removeInteraction 0 0]).isSome = true := by
  decide +kernel

/-- gap of `no_ub_within_preconditions` / `no_ub_more` / `expression_no_ub`: the Constraint / CQM level (the vector of
    constraints, `fix_variable` / `remove_variable` of a whole CQM walking every expression, the copy / move / swap paths)
    has no checked-indexing model (covered by the sanitizer runs only); `remove_variables` is checked for its lookups, not
    shown equal to the model's one-by-one removal (that equality is observed by the correspondence run). -/
theorem no_ub_partial (m : CppM) (h : m.WF) (vs : List Nat) (hb : ∀ v ∈ vs, v < m.q.lin.length) :
    (m.reindexLookups? vs).isSome := CppM.reindexLookups_ok m h vs hb

/-- **the Python boundary rejects before it changes anything**: a call with an argument outside the label /
    number alphabet, a `None` label, a self-loop — and every other raising single-term call — returns the model
    it was given -/
theorem python_boundary_rejects (m : Bqm) (h : m.WF) (via : Via) :
    (m.step via .malformed = (m, some .type)) ∧
    (∀ b, m.step via (.addLinear none b) = (m, some .value)) ∧
    (∀ u b, (m.step via (.addQuadratic (some u) none b)) = (m, some .value)) ∧
    (∀ u b, (m.step via (.addQuadratic (some u) (some u) b)) = (m, some .value)) ∧
    (∀ op e, SingleTerm op → (m.step via op).2 = some e → (m.step via op).1 = m) :=
  ⟨rfl, fun _ => rfl, fun _ _ => rfl, fun u b => by simp [Bqm.step], fun op e hs he => error_leaves_unchanged h via op hs e he⟩

/-- non-vacuity: a concrete model with a self-loop where the counts are what they should be -/
example : ((CppM.newQm.addVar (some (.integer, 0, 5))).addVar (some (.binary, 0, 1)) |>.quad 0 0 (1/2) false).1.numInteractions = 1 := by
  decide +kernel

/-! ## Round 7: the op alphabet is checked against the header -/

/-- **Every public mutator of `dimod::abc::QuadraticModelBase`** — the list `Generated.AbcMutators.mutators` is extracted
    from dimod/include/dimod/abc.h on every run (name, number of parameters, initializer-list overload) — has an entry in
    the coverage table `Cpp.cover` naming at least one operation, and only operations that the model driver executes
    (`Cpp.driverOps`, enforced by `Drivers/CppMain.lean`).  A mutator added to the header, or one whose arity changes, makes
    this theorem fail to build; the harness (`c20.py`, "op alphabet") checks on every run that harness/cpp/interp.cc calls
    each of them with that arity under the named op and that the generator emitted the op. -/
theorem abc_mutators_covered : ∀ s ∈ Generated.AbcMutators.mutators, Cpp.covered s = true := by
  decide +kernel

/-- the table has no entry for a function the header does not have (stale entries are reported, too) -/
theorem abc_cover_has_no_stale_entry : ∀ e ∈ Cpp.cover, Generated.AbcMutators.mutators.contains e.1 = true := by
  decide +kernel

/-! ## Round 7: the Constraint / CQM level with checked indexing -/

/-- **Constraint / CQM level, one call** (`DimodModel/CheckedCqm.lean`: every `constraints_[c]`, `constraints_.begin() + c`,
    `varinfo_[v]`, `varinfo_.begin() + v`, and — through `Expression::substitute_variable` / `reindex_variables` on the
    objective and on every constraint — every access to `variables_`, `linear_biases_`, `(*adj_ptr_)` is a checked
    lookup).  Under the representation invariant (`CqmCWF`: every expression of the model well-formed, the columns of
    `varinfo_` of one length) and the documented precondition of the call (`COp.Pre`: constraint / variable index inside
    the model — the `assert`s of constrained_quadratic_model.h), **no lookup fails**: the checked call returns, returns
    exactly what the unchecked call computes, and the invariant is kept.  Calls: any Expression operation on the
    objective or on `constraint_ref(c)`, `add_constraint()`, `remove_constraint(c)`, copy assignment and swap of two
    constraints, CQM-wide `substitute_variable`, `remove_variable`, `fix_variable`, `set_lower_bound` /
    `set_upper_bound` / `set_vartype`, `clear`.  (Copy / move / swap of whole models exchange the three members and touch
    no index.)  This lifts the Constraint / CQM part of the gap of `no_ub_partial`. -/
theorem cqm_no_ub (m : Cqm) (w : CqmP.CqmCWF m) (op : Cqm.COp) (hp : Cqm.COp.Pre m op) :
    m.cstep? op = some (m.cstep op) ∧ CqmP.CqmCWF (m.cstep op) :=
  CqmP.cstep?_eq w op hp

/-- **… and every call sequence** on a CQM, from any well-formed model (in particular the empty one), in which each call
    meets its precondition in the state it is issued in: the run with checked lookups never fails, equals the unchecked
    run and ends well-formed — the invariant `expression_wf_preserved_partial` speaks about is preserved along every
    such history, for the objective and every constraint at once. -/
theorem cqm_histories_no_ub (m : Cqm) (w : CqmP.CqmCWF m) (ops : List Cqm.COp) (hp : Cqm.PreAll m ops) :
    Cqm.crun? (some m) ops = some (m.crun ops) ∧ CqmP.CqmCWF (m.crun ops) :=
  CqmP.crun?_eq ops w hp

theorem cqm_histories_no_ub_from_empty (ops : List Cqm.COp) (hp : Cqm.PreAll {} ops) :
    Cqm.crun? (some {}) ops = some (({} : Cqm).crun ops) ∧ CqmP.CqmCWF (({} : Cqm).crun ops) :=
  CqmP.crun?_eq ops CqmP.cqmCWF_empty hp

/-- non-vacuity: a checked run on a three-variable CQM (objective term, a constraint, CQM-wide fix, constraint
    removal) succeeds — and the checks are real: removing a constraint of an empty model is a failing access -/
example : (Cqm.crun? (some { vt := [.integer, .binary, .spin], lb := [0, 0, -1], ub := [5, 1, 1] })
    [.objOp (.addQuadratic 0 2 1), .addConstraint, .consOp 0 (.addLinear 1 (1/2)), .consOp 0 (.addQuadratic 0 1 2),
     .fixVariable 0 2, .swapConstraints 0 0, .removeConstraint 0]).isSome = true := by
  decide +kernel

example : ({} : Cqm).cstep? (.removeConstraint 0) = none := rfl

/-- non-vacuity of the hypotheses of `cqm_histories_no_ub_from_empty`: a sequence from the empty model in which every call
    meets its precondition in the state it is issued in (the second constraint exists when it is edited and removed) -/
example : Cqm.PreAll {} [.addConstraint, .addConstraint, .consOp 1 (.addQuadratic 0 1 (1/2)), .swapConstraints 0 1,
    .objOp (.addLinear 2 1), .removeConstraint 1] := by
  refine ⟨trivial, trivial, ?_, ?_, trivial, ?_, trivial⟩
  · show (1 : Nat) < _; decide +kernel
  · show (0 : Nat) < _ ∧ (1 : Nat) < _; exact ⟨by decide +kernel, by decide +kernel⟩
  · show (1 : Nat) < _; decide +kernel

example : (({ vt := [.binary], lb := [0], ub := [1] } : Cqm).cstep? (.removeVariable 3)).isSome = false := by
  decide +kernel

/-! ## round 8: labels and native records of a constrained model through `add_variables` (Cython layer) -/

/-- **`cyConstrainedQuadraticModel.add_variables`** as coded (`CyCqm.Vars.addVariables`, DimodModel/CyCqmVars.lean: per element
    `_append(v, permissive=True)`, then the consistency checks of a label that existed or `cppcqm.add_variable(vt, lb, ub)`,
    with the running `count` of the code): from a model whose label list and native records (`varinfo_`) are in step, for every
    vartype, bounds, "bound given" flags and argument list - new labels, repeated labels, labels that exist with the same or
    with another vartype / bounds, unhashable objects, in any order - and WHETHER OR NOT THE CALL RAISES:
    labels and native records are in step afterwards (no label without a native variable: no index past the end of `varinfo_`),
    the model is the model before extended by new labels that all carry the record `(vt, lb, ub)` (no existing label or record
    is touched, the labels before a rejected element stay, as documented), and the `RuntimeError("something went wrong")`
    branch is unreachable. -/
theorem cy_add_variables_lock_step (m : CyCqm.Vars) (h : m.labels.length = m.info.length) (vt : QVT) (lb ub : Rat)
    (lbGiven ubGiven : Bool) (vs : List (Option Label)) :
    (m.addVariables vt lb ub lbGiven ubGiven vs).1.labels.length = (m.addVariables vt lb ub lbGiven ubGiven vs).1.info.length ∧
    CyCqm.Ext vt lb ub m (m.addVariables vt lb ub lbGiven ubGiven vs).1 ∧
    (m.addVariables vt lb ub lbGiven ubGiven vs).2 ≠ some .runtime :=
  CyCqm.addVariables_spec m h vt lb ub lbGiven ubGiven vs

/-- non-vacuity, and the documented partial effect: two new labels, then a label that exists as BINARY, then another new label -
    the call raises ValueError, the two labels before the conflict are in the model WITH their native records -/
example :
    ({ labels := [.str "x"], info := [(.binary, 0, 1)] } : CyCqm.Vars).addVariables .spin (-1) 1 true true
        [some (.str "s"), some (.str "t"), some (.str "x"), some (.str "u")]
      = ({ labels := [.str "x", .str "s", .str "t"], info := [(.binary, 0, 1), (.spin, -1, 1), (.spin, -1, 1)] }, some .value) := by
  decide +kernel

/-- the theorem is about the code as it is: growing the native model once AFTER the loop (seeded change C20-9,
    `CyCqm.Vars.addVariablesBatched`) leaves, on the same input, three labels over one native record -/
example :
    (({ labels := [.str "x"], info := [(.binary, 0, 1)] } : CyCqm.Vars).addVariablesBatched .spin (-1) 1 true true
        [some (.str "s"), some (.str "t"), some (.str "x"), some (.str "u")]).1
      = { labels := [.str "x", .str "s", .str "t"], info := [(.binary, 0, 1)] } := by
  decide +kernel

/-! ## round 8: `ConstrainedQuadraticModel::change_vartype` -/

/-- **`ConstrainedQuadraticModel::change_vartype(target, v)`** as coded (`Cqm.changeVartypeC`, DimodModel/CqmChangeVartype.lean:
    the branch on the vartype `v` has, `substitute_variable(v, mult, c)` on the objective and on every constraint, the three
    `varinfo_[v]` writes; SPIN → INTEGER through BINARY; any other pair throws `std::logic_error` before anything is changed):
    on a well-formed model with `v < num_variables()` - the documented precondition - the call with every vector access checked
    never fails, equals the unchecked call, and leaves the model well-formed, for every target vartype (the unsupported ones
    included).  With `cqm_no_ub` this covers the CQM-level mutators of the header except the copying `fix_variables`, the
    constraint-building overloads with a mapping and `remove_constraints_if` (interpreter + Python sequences only). -/
theorem cqm_change_vartype_no_ub (m : Cqm) (w : CqmP.CqmCWF m) (t : VT4) (v : Nat) (hv : v < m.vt.length) :
    m.changeVartypeC? t v = some (m.changeVartypeC t v) ∧ CqmP.CqmCWF (m.changeVartypeC t v).1 :=
  CqmP.changeVartypeC?_eq w t v hv

/-- non-vacuity: SPIN → INTEGER on a variable that the objective uses with a self-product-free interaction runs the five calls
    (and is checked: an index outside the model is a failing access) -/
example : ((({ vt := [.spin, .binary], lb := [-1, 0], ub := [1, 1] } : Cqm).cstep (.objOp (.addQuadratic 0 1 1))).changeVartypeC? .integer 0).isSome = true ∧
    (({ vt := [.spin, .binary], lb := [-1, 0], ub := [1, 1] } : Cqm).changeVartypeC .integer 0).1.vt = [.integer, .binary] ∧
    (({ vt := [.spin], lb := [-1], ub := [1] } : Cqm).changeVartypeC? .binary 3) = none ∧
    (({ vt := [.integer], lb := [0], ub := [5] } : Cqm).changeVartypeC .spin 0).2 = true := by
  decide +kernel

end C20
