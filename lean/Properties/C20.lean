import DimodProofs.BqmErr
import DimodProofs.Counts
import DimodProofs.NoUB
import DimodProofs.CppWF

/-! # C20 — no call sequence corrupts the native data structures

Models: `DimodModel/Bqm.lean` (label level, shared with C04), `DimodModel/Cpp.lean` (`CppM`: index-level model of
`abc.h` / `binary_quadratic_model.h` / `quadratic_model.h`, one per interpreter slot) and
`DimodModel/Checked.lean` (the same methods with every vector access checked).  Tie to the code:
`harness/props/c20.py` — the C++ interpreter (ASan/UBSan/assertions) against `CppM` on every op of every
sequence, structural invariants on the printed state, isolated malformed calls at the Python boundary.
Memory safety of the compiled code itself is *observed* (sanitizers), not proved. -/

namespace C20
open Bqm

/-- shared with C04: every call of every history (any arguments, returning or raising, directly or through a
    view) keeps: one neighbourhood per variable, strictly sorted, indices in range, symmetric with equal
    biases, no self-loop on SPIN/BINARY, label list in step with the native model -/
theorem wf_preserved_all_ops (m : Bqm) (h : m.WF) (via : Via) (op : Op) : (m.step via op).1.WF := h.step via op

theorem wf_all_histories (vt : VT) (ops : List (Via × Op)) : ((Bqm.empty vt).run ops).WF := (WF.empty vt).run ops

/-- the index-level primitives on an adjacency with self-loops allowed where `loopOK` says so (QM / expressions):
    symmetric add/set, removal of an interaction, removal of a variable, scaling keep the invariant -/
theorem wf_preserved_index_level {n : Nat} {adj : AdjT} {l : Nat → Bool} (h : AdjWF n adj l) :
    (∀ u v b set, u < n → v < n → u ≠ v → AdjWF n (adjSym adj u v b set) l) ∧
    (∀ u v, u < n → v < n → AdjWF n (adjDrop adj u v) l) ∧
    (∀ vi, vi < n → AdjWF (n - 1) (adjRemove adj vi) (fun x => l (skip vi x))) ∧
    (∀ s, AdjWF n (adjScale adj s) l) :=
  ⟨fun u v b set hu hv hne => h.adjSym u v b set hu hv hne, fun u v hu hv => h.adjDrop u v hu hv,
   fun vi hvi => h.adjRemove vi hvi, fun s => h.adjScale s⟩

/-- **the header methods keep the invariant within their preconditions** (index-level model `CppM` of
    BinaryQuadraticModel / QuadraticModel, the one diffed against the sanitizer-instrumented interpreter): for indices
    `< num_variables()`: add_linear / set_linear, add_quadratic / set_quadratic (self-loop on INTEGER/REAL, linear or
    offset on BINARY/SPIN, `domain_error` unchanged), remove_interaction (pair or self-loop), remove_variable,
    fix_variable, scale, substitute_variables, clear; for a BQM also add_variable, resize(k) for any k, change_vartype.
    Gap (hence `_partial`): remove_variables (bulk), substitute_variable, dense / COO construction, QM::resize with
    bounds and the Expression / CQM layer have no invariant proof here (sanitizer + correspondence only). -/
theorem cpp_wf_preserved_partial (m : CppM) (h : m.WF) :
    (∀ i f, (m.withLin (Bqm.modifyAt · i f)).WF) ∧
    (∀ u v b set, u < m.q.lin.length → v < m.q.lin.length → (m.quad u v b set).1.WF) ∧
    (∀ u v, u < m.q.lin.length → v < m.q.lin.length → (m.removeInteraction u v).1.WF) ∧
    (∀ v, v < m.q.lin.length → (m.removeAt v).WF) ∧
    (∀ v a, v < m.q.lin.length → (m.fix v a).WF) ∧
    (∀ s, (m.scale s).WF) ∧ (∀ a c, (m.substituteAll a c).WF) ∧ m.clear.WF ∧
    (∀ t, m.bvt = some t → (m.addVar none).WF ∧ (∀ k, (m.baseResize k).WF) ∧
      (∀ t', Qm.isBin t' = true → (m.changeVartype t' 0).1.WF)) :=
  ⟨fun i f => h.withLin i f, fun u v b set hu hv => h.quad u v b set hu hv,
   fun u v hu hv => h.removeInteraction u v hu hv, fun v hv => h.removeAt v hv, fun v a hv => h.fix v a hv,
   fun s => h.scale s, fun a c => h.substituteAll a c, h.clear,
   fun t ht => ⟨h.addVar_bqm t ht, fun k => h.baseResize_bqm k t ht, fun t' ht' => h.changeVartype_bqm t' t ht ht'⟩⟩

/-- **counts are consistent**: `num_interactions()` as the header computes it ((Σ row sizes + #self-loops) / 2)
    is the number of unordered pairs carrying an interaction (self-loops once), and `degree(v)` is the number of
    distinct neighbours of `v` — on every well-formed adjacency, of any size -/
theorem counts_consistent (m : CppM) {l : Nat → Bool} (h : AdjWF m.q.lin.length m.q.adj l) :
    m.numInteractions = pairCount m.q.adj m.q.lin.length ∧
    ∀ v, m.degree v = sumTo m.q.lin.length (fun w => ind m.q.adj v w) :=
  ⟨CppM.numInteractions_eq_pairCount m h, CppM.degree_eq_neighbours m h⟩

/-- **no out-of-range access within the preconditions**: with every `operator[]` of the header modelled as a
    checked lookup, `add_quadratic`/`set_quadratic`, `remove_interaction`, `fix_variable` and `energy` never
    hit a failing lookup when the indices given are `< num_variables()` (resp. the sample has that length) and
    the adjacency is well-formed — in particular the neighbour indices *stored* in the structure are always
    usable as indices into the linear biases and the sample. -/
theorem no_ub_within_preconditions (m : CppM) {l : Nat → Bool} (h : AdjWF m.q.lin.length m.q.adj l) :
    (∀ u v b set, u < m.q.lin.length → v < m.q.lin.length → m.quad? u v b set = some (m.quad u v b set)) ∧
    (∀ u v, u < m.q.lin.length → v < m.q.lin.length → m.removeInteraction? u v = some (m.removeInteraction u v)) ∧
    (∀ v a, v < m.q.lin.length → m.fix? v a = some (m.fix v a)) ∧
    (∀ x : List Rat, x.length = m.q.lin.length → m.energy? x = some (m.energy x)) :=
  ⟨fun u v b set hu hv => CppM.quad?_eq m h u v b set hu hv, fun u v hu hv => CppM.removeInteraction?_eq m h u v hu hv,
   fun v a hv => CppM.fix?_eq m h v a hv, fun x hx => CppM.energy?_eq m h x hx⟩

/-- gap of `no_ub_within_preconditions`: `remove_variable(s)`, `resize`, `substitute_variable(s)`, dense/COO
    construction and the Expression / CQM layer are covered by the sanitizer runs and the `CppM` correspondence
    only; they have no checked-indexing proof yet. -/
theorem no_ub_partial (m : CppM) {l : Nat → Bool} (h : AdjWF m.q.lin.length m.q.adj l) (v : Nat) (a : Rat)
    (hv : v < m.q.lin.length) : m.fix? v a = some (m.fix v a) := CppM.fix?_eq m h v a hv

/-- **the Python boundary rejects before it changes anything**: a call with an argument outside the label /
    number alphabet, a `None` label, a self-loop — and every other raising single-term call — returns the model
    it was given -/
theorem python_boundary_rejects (m : Bqm) (h : m.WF) (via : Via) :
    (m.step via .malformed = (m, some .type)) ∧
    (∀ b, m.step via (.addLinear none b) = (m, some .value)) ∧
    (∀ u b, (m.step via (.addQuadratic (some u) none b)) = (m, some .value)) ∧
    (∀ u b, (m.step via (.addQuadratic (some u) (some u) b)) = (m, some .value)) ∧
    (∀ op e, SingleTerm op → (m.step via op).2 = some e → (m.step via op).1 = m) :=
  ⟨rfl, fun _ => rfl, fun _ _ => rfl, fun u b => by simp [Bqm.step], fun op e hs he => error_leaves_unchanged h via op hs e he⟩

/-- non-vacuity: a concrete model with a self-loop where the counts are what they should be -/
example : ((CppM.newQm.addVar (some (.integer, 0, 5))).addVar (some (.binary, 0, 1)) |>.quad 0 0 (1/2) false).1.numInteractions = 1 := by
  decide +kernel

end C20
