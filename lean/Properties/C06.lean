import DimodProofs.SymTree
import DimodProofs.SymInfo
import DimodProofs.SymStore
import DimodProofs.SymStoreMore

/-! # C06 — symbolic arithmetic on models is pointwise arithmetic on energies

Model: `DimodModel/Sym.lean` — `build : SymExpr → Except Err Val` follows the operator overloads of
`BinaryQuadraticModel`, `QuadraticModel` and the CQM expression views (promotion rules, `update`'s
compatibility check, the double loops of `__mul__` with their per-vartype repeated-label cases, the
in-place forms, aliased operands, `quicksum`); tied to the code by `harness/props/c06.py` through
`symdriver` on every run (every sub-tree of every generated tree, coefficient-wise).

`SymExpr.eval` is the same tree read as arithmetic on numbers.  Binary `x*x = x` and spin `s*s = 1`
enter only through the hypothesis that the sample respects the domain of every leaf (`InDom`);
integer and real variables are unrestricted (true squares). -/

namespace C06
open Sym

/-- **build_eval**: whatever expression tree is evaluated with the operators, if it evaluates at all,
    the resulting model's (or number's) energy at a sample is the tree's arithmetic on the operands'
    energies — for every sample that gives each binary leaf a value with `x*x = x` and each spin leaf a
    value with `s*s = 1`. -/
theorem build_eval (e : SymExpr) (v : Val) (x : Label → Rat) (h : build e = .ok v)
    (hx : ∀ l k, e.HasLeaf l k → InDom k (x l)) : v.eval x = e.eval x :=
  (build_spec e x v h hx).2

/-- every variable of the result was introduced by a leaf of that kind; a BQM result is SPIN or BINARY
    and all its variables have its vartype -/
theorem build_typed (e : SymExpr) (v : Val) (x : Label → Rat) (h : build e = .ok v)
    (hx : ∀ l k, e.HasLeaf l k → InDom k (x l)) : v.Typed e.HasLeaf :=
  (build_spec e x v h hx).1

/-- the in-place forms bind the same value as the binary operators (either the left operand is
    mutated into it or Python falls back on the binary operator) -/
theorem inplace_eq (a b : SymExpr) (q : Rat) :
    build (.iadd a b) = build (.add a b) ∧ build (.isub a b) = build (.sub a b) ∧
    build (.imul a b) = build (.mul a b) ∧ build (.idiv a q) = build (.div a q) :=
  ⟨rfl, rfl, rfl, rfl⟩

/-- the product of two linear models in one step (`QuadraticModel.__mul__`): energies multiply -/
theorem mul_linear_eval {T : Label → VT → Prop} (a b m : Model) (x : Label → Rat) (ha : Typed T a) (hb : Typed T b)
    (hx : ∀ l k, T l k → InDom k (x l)) (h : mMul a b = .ok m) : m.eval x = a.eval x * b.eval x :=
  (mMul_spec a b m x ha hb hx h).1

/-- `update` adds energies -/
theorem update_eval (m o m' : Model) (x : Label → Rat) (h : qmUpdate m o = .ok m') : m'.eval x = m.eval x + o.eval x :=
  eval_qmUpdate m o m' x h

/-- `scale` scales energies -/
theorem scale_eval (m : Model) (q : Rat) (x : Label → Rat) : (m.scale q).eval x = q * m.eval x := eval_scale m q x

/-- **promotion_keeps_varinfo**: promotion of a BQM to a QM keeps the variable list with types and
    bounds, and merging (`update`, the engine of `+`, `-`, `quicksum` and of the views' operators) keeps
    every variable of both operands with unchanged vartype and bounds -/
theorem promotion_keeps_varinfo (m o m' : Model) (hnd : (o.vars.map (·.l)).Nodup) (h : qmUpdate m o = .ok m') :
    m.toQM.vars = m.vars ∧
    (∀ w ∈ m.vars, HasVar m'.vars w.l w.info) ∧ (∀ w ∈ o.vars, HasVar m'.vars w.l w.info) :=
  ⟨rfl, qmUpdate_keeps_varinfo m o m' hnd h⟩

/-- **conflict_rejected**: a label carried by both operands with different vartype or bounds makes
    `update` raise (ValueError) -/
theorem conflict_rejected (m o : Model) (w v : Var) (hw : w ∈ o.vars) (hf : findVar m.vars w.l = some v)
    (hne : v.info ≠ w.info) : qmUpdate m o = .error .value :=
  qmUpdate_conflict m o w v hw hf hne

/-- … and in a product `add_variable` raises: TypeError for a different vartype -/
theorem conflict_rejected_mul (m : Model) (l : Label) (i : VarInfo) (v : Var) (hf : findVar m.vars l = some v)
    (hne : v.info.vt ≠ i.vt) : addVariable m l i = .error .type := by
  simp [addVariable, hf, hne]

/-- **operands_unchanged** (object level, `DimodModel/SymStore.lean`): the body of every non-in-place
    operator (`+`, `-`, `*`, unary `-`, `±`/`*`/`/` a number, in all class combinations, i.e. with the
    promotions `from_bqm`) allocates its result and mutates only what it allocated: whatever store it runs
    in, every object that existed before the call — in particular both operands — is the same afterwards,
    also when the operands are one and the same object. -/
theorem operands_unchanged (h h' : Store) (a b : Nat) (q : Rat) (p : List Instr)
    (hp : p ∈ nonInplacePrograms a b q h.length) (he : exec h p = .ok h') :
    ∀ j, j < h.length → h'[j]? = h[j]? :=
  exec_frame p h h' h.length (Nat.le_refl _) (nonInplace_writes_fresh a b q h.length p hp) he

/-- **operands_unchanged, the remaining forms**: `quicksum` over any number of items (deep copy of the first, `+=` of the
    others, also when a `+=` falls back on the promoting `+`), `** 2` (the same object as both factors), and the operators
    of the CQM expression views (`view ± model`, `view ± BQM`, `view ± number`, `model ± view`, `number − view`: a fresh
    `QuadraticModel()` is filled from the view first) allocate their result and mutate only what they allocated: every
    object that existed before the call is the same afterwards -/
theorem operands_unchanged_more (h h' : Store) (a b : Nat) (rest : List Nat) (q : Rat) (p : List Instr)
    (hp : p ∈ moreNonInplacePrograms a b rest q h.length) (he : exec h p = .ok h') :
    ∀ j, j < h.length → h'[j]? = h[j]? :=
  exec_frame p h h' h.length (Nat.le_refl _) (more_write_fresh a b rest q h.length p hp) he

/-- `quicksum([x, y])` computes `copy(x).update(y)` into the fresh object (the value `build` uses for two items) -/
theorem quicksum_program_refines (h : Store) (a b : Nat) (x y : Model) (ha : h[a]? = some x) (hb : h[b]? = some y) :
    (exec h (progQuicksum a [b] h.length)).map (fun h' => h'[h.length]?) = (upd x y).map some :=
  exec_quicksum_two h a b x y ha hb

/-- the same-class `+` program computes `mAdd` (the value `build` uses) into the fresh object -/
theorem add_program_refines (h : Store) (a b : Nat) (x y : Model) (ha : h[a]? = some x) (hb : h[b]? = some y)
    (hcls : x.isQM = y.isQM) (hd : x.isQM = false → bqmDiffer x y = false) :
    (exec h (progAddSame a b h.length)).map (fun h' => h'[h.length]?) = (mAdd x y).map some :=
  exec_addSame h a b x y ha hb hcls hd

/-- `model * q`, `-model`, `model / q`, `model + q`, `q - model` and the same-class product compute the
    values `build` uses, into a fresh object -/
theorem scalar_and_mul_programs_refine (h : Store) (a b : Nat) (x y : Model) (q : Rat)
    (ha : h[a]? = some x) (hb : h[b]? = some y) (hcls : x.isQM = y.isQM) (hd : x.isQM = false → bqmDiffer x y = false) :
    (exec h (progScale a q h.length)).map (fun h' => h'[h.length]?) = .ok (some (x.scale q)) ∧
    (exec h (progAddNum a q h.length)).map (fun h' => h'[h.length]?) = .ok (some (x.addOffset q)) ∧
    (exec h (progRsubNum a q h.length)).map (fun h' => h'[h.length]?) = .ok (some ((x.scale (-1)).addOffset q)) ∧
    (exec h (progMulSame a b h.length)).map (fun h' => h'[h.length]?) = (mMul x y).map some :=
  ⟨exec_scale h a x q ha, exec_addNum h a x q ha, exec_rsubNum h a x q ha, exec_mulSame h a b x y ha hb hcls hd⟩

/-- the promoting `+` programs (`BQM+BQM` of different vartypes, `BQM+QM`, `QM+BQM`) compute `mAdd` -/
theorem add_promoting_programs_refine (h : Store) (a b : Nat) (x y : Model) (ha : h[a]? = some x) (hb : h[b]? = some y) :
    (x.isQM = false → y.isQM = false → bqmDiffer x y = true →
      (exec h (progAddPromoteBoth a b h.length)).map (fun h' => h'[h.length]?) = (mAdd x y).map some) ∧
    (x.isQM = false → y.isQM = true →
      (exec h (progAddPromoteLeft a b h.length)).map (fun h' => h'[h.length + 1]?) = (mAdd x y).map some) ∧
    (x.isQM = true → y.isQM = false →
      (exec h (progAddPromoteRight a b h.length)).map (fun h' => h'[h.length]?) = (mAdd x y).map some) :=
  ⟨exec_addPromoteBoth h a b x y ha hb, exec_addPromoteLeft h a b x y ha hb, exec_addPromoteRight h a b x y ha hb⟩

/-- all `-` programs compute `mSub` -/
theorem sub_programs_refine (h : Store) (a b : Nat) (x y : Model) (ha : h[a]? = some x) (hb : h[b]? = some y) :
    (x.isQM = true → y.isQM = true →
      (exec h (progSubSame a b h.length)).map (fun h' => h'[h.length]?) = (mSub x y).map some) ∧
    (x.isQM = false → y.isQM = false → bqmDiffer x y = false →
      (exec h (progSubSame a b h.length)).map (fun h' => h'[h.length]?) = (mSub x y).map some) ∧
    (x.isQM = false → y.isQM = false → bqmDiffer x y = true →
      (exec h (progSubPromoteBoth a b h.length)).map (fun h' => h'[h.length]?) = (mSub x y).map some) ∧
    (x.isQM = false → y.isQM = true →
      (exec h (progSubPromoteLeft a b h.length)).map (fun h' => h'[h.length + 1]?) = (mSub x y).map some) ∧
    (x.isQM = true → y.isQM = false →
      (exec h (progSubPromoteRight a b h.length)).map (fun h' => h'[h.length + 1]?) = (mSub x y).map some) :=
  ⟨exec_subSameQM h a b x y ha hb, exec_subSameBQM h a b x y ha hb, exec_subPromoteBoth h a b x y ha hb,
   exec_subPromoteLeft h a b x y ha hb, exec_subPromoteRight h a b x y ha hb⟩

/-- the promoting `*` programs compute `mMul` -/
theorem mul_promoting_programs_refine (h : Store) (a b : Nat) (x y : Model) (ha : h[a]? = some x) (hb : h[b]? = some y) :
    (x.isQM = false → y.isQM = true →
      (exec h (progMulPromoteLeft a b h.length)).map (fun h' => h'[h.length + 1]?) = (mMul x y).map some) ∧
    (x.isQM = true → y.isQM = false →
      (exec h (progMulPromoteRight a b h.length)).map (fun h' => h'[h.length + 1]?) = (mMul x y).map some) ∧
    (x.isQM = false → y.isQM = false → bqmDiffer x y = true → (x.isLinear = true ∧ y.isLinear = true) →
      (exec h (progMulPromoteBoth a b h.length)).map (fun h' => h'[h.length + 2]?) = (mMul x y).map some) :=
  ⟨exec_mulPromoteLeft h a b x y ha hb, exec_mulPromoteRight h a b x y ha hb, exec_mulPromoteBoth h a b x y ha hb⟩

/-- a variable-free BQM as LEFT operand of the opposite vartype promotes (`other.num_variables` is what
    counts, not `self.num_variables`): `BQM('BINARY') + Spin('s')` is a QM in which `s` is still SPIN;
    as RIGHT operand it does not: `Spin('s') + BQM('BINARY')` stays a SPIN BQM -/
theorem empty_bqm_promotion :
    (match build (.add (.empty .binary 3) (.var .spin (.str "s") 1 none none)) with
     | .ok (.mdl m) => m.isQM && (m.vars.map fun v => decide (v.info.vt = .spin)) == [true] | _ => false) = true ∧
    (match build (.add (.var .spin (.str "s") 1 none none) (.empty .binary 3)) with
     | .ok (.mdl m) => !m.isQM && decide (m.bvt = .spin) && decide (m.off = 3) | _ => false) = true ∧
    (match build (.mul (.empty .binary 3) (.var .spin (.str "s") 1 none none)) with
     | .ok (.mdl m) => m.isQM && (m.vars.map fun v => decide (v.info.vt = .spin)) == [true] | _ => false) = true := by
  refine ⟨?_, ?_, ?_⟩ <;> decide +kernel

/-- **comparisons** (`dimod.sym`): `e <= q`, `e >= q`, `e == q` and the reflected `q <= e`, `q >= e`, `q == e`
    with a number build `Le/Ge/Eq(lhs, rhs)` whose left-hand side is the built model itself (nothing is moved
    across) and whose right-hand side is the number.  At every sample respecting the leaves' domains the
    constraint's activity `lhs(x) − rhs` is the operands' `e(x) − q`, and the comparison object holds exactly
    when the written comparison holds between the numbers — reflection turns `q <= e` into `Ge(e, q)`. -/
theorem comparison_activity (c : SymCmp) (k : Cmp) (x : Label → Rat) (h : buildCmp c = .ok (some k))
    (hx : ∀ l kind, c.expr.HasLeaf l kind → InDom kind (x l)) :
    k.lhs.eval x - k.rhs = c.expr.eval x - c.num ∧ (k.holds x ↔ c.holds x) := by
  unfold buildCmp at h
  cases hb : build c.expr with
  | error e => rw [hb] at h; simp at h
  | ok v =>
    rw [hb] at h
    cases v with
    | num q => simp at h
    | view o m => simp only at h; split at h <;> simp at h
    | mdl m =>
      simp only [Except.ok.injEq, Option.some.injEq] at h
      subst h
      have he : m.eval x = c.expr.eval x := build_eval c.expr (.mdl m) x hb hx
      refine ⟨by simp only [he], ?_⟩
      cases c <;> simp only [Cmp.holds, SymCmp.sense, SymCmp.holds, SymCmp.num, SymCmp.expr] at he ⊢ <;> rw [he] <;>
        first | exact Iff.rfl | exact eq_comm

/-- an ordering between two models, or with an expression view, is not defined (TypeError): the model
    has no node for it; a view compared with `<=`/`>=` is refused -/
theorem comparison_view_refused (c : SymCmp) (o : Bool) (m : Model) (h : build c.expr = .ok (.view o m)) (hne : c.isEq = false) :
    buildCmp c = .error .type := by
  simp [buildCmp, h, hne]

/-! ## non-vacuity: concrete trees evaluated by the model -/

/-- `(2x + 1) * (x + 3y)` over binary `x, y` is `3x + 3y + 6xy` -/
example :
    (match build (.mul (.add (.var .binary (.str "x") 2 none none) (.const 1))
                       (.add (.var .binary (.str "x") 1 none none) (.var .binary (.str "y") 3 none none))) with
     | .ok v => v.eval (fun l => if l = .str "x" then 1 else 0) | .error _ => (0 : Rat)) = (3 : Rat) := by decide +kernel

/-- `Binary('i') + Integer('i')` is rejected -/
example : (match build (.add (.var .binary (.str "i") 1 none none) (.var .integer (.str "i") 1 (some 0) none)) with
     | .ok _ => false | .error e => e == .value) = true := by decide +kernel

/-- `(i + 1) ** 2` for an integer `i` keeps the true square `i*i` -/
example :
    (match build (.pow (.add (.var .integer (.str "i") 1 (some 0) none) (.const 1)) 2) with
     | .ok v => v.eval (fun _ => 3) | .error _ => (0 : Rat)) = (16 : Rat) := by decide +kernel

end C06
