import DimodProofs.SymTree
import DimodProofs.SymInfo
import DimodProofs.SymStore
import DimodProofs.SymStoreMore
import DimodProofs.SymCmp
import DimodProofs.SymGen
import DimodProofs.SymView
import Generated.SymFolds

/-! # C06 — symbolic arithmetic on models is pointwise arithmetic on energies

Model: `DimodModel/Sym.lean` — `build : SymExpr → Except Err Val` follows the operator overloads of
`BinaryQuadraticModel`, `QuadraticModel` and the CQM expression views (promotion rules, `update`'s
compatibility check, the double loops of `__mul__` with their per-vartype repeated-label cases, the
in-place forms, aliased operands, `quicksum`); tied to the code by `harness/props/c06.py` through
`symdriver` on every run (every sub-tree of every generated tree, coefficient-wise).

`SymExpr.eval` is the same tree read as arithmetic on numbers.  Binary `x*x = x` and spin `s*s = 1`
enter only through the hypothesis that the sample respects the domain of every leaf (`InDom`);
integer and real variables are unrestricted (true squares). -/

namespace C06
open Sym

/-- **build_eval**: whatever expression tree is evaluated with the operators, if it evaluates at all,
    the resulting model's (or number's) energy at a sample is the tree's arithmetic on the operands'
    energies — for every sample that gives each binary leaf a value with `x*x = x` and each spin leaf a
    value with `s*s = 1`. -/
theorem build_eval (e : SymExpr) (v : Val) (x : Label → Rat) (h : build e = .ok v)
    (hx : ∀ l k, e.HasLeaf l k → InDom k (x l)) : v.eval x = e.eval x :=
  (build_spec e x v h hx).2

/-- every variable of the result was introduced by a leaf of that kind; a BQM result is SPIN or BINARY
    and all its variables have its vartype -/
theorem build_typed (e : SymExpr) (v : Val) (x : Label → Rat) (h : build e = .ok v)
    (hx : ∀ l k, e.HasLeaf l k → InDom k (x l)) : v.Typed e.HasLeaf :=
  (build_spec e x v h hx).1

/-- the in-place forms bind the same value as the binary operators (either the left operand is
    mutated into it or Python falls back on the binary operator) -/
theorem inplace_eq (a b : SymExpr) (q : Rat) :
    build (.iadd a b) = build (.add a b) ∧ build (.isub a b) = build (.sub a b) ∧
    build (.imul a b) = build (.mul a b) ∧ build (.idiv a q) = build (.div a q) :=
  ⟨rfl, rfl, rfl, rfl⟩

/-- the product of two linear models in one step (`QuadraticModel.__mul__`): energies multiply -/
theorem mul_linear_eval {T : Label → VT → Prop} (a b m : Model) (x : Label → Rat) (ha : Typed T a) (hb : Typed T b)
    (hx : ∀ l k, T l k → InDom k (x l)) (h : mMul a b = .ok m) : m.eval x = a.eval x * b.eval x :=
  (mMul_spec a b m x ha hb hx h).1

/-- `update` adds energies -/
theorem update_eval (m o m' : Model) (x : Label → Rat) (h : qmUpdate m o = .ok m') : m'.eval x = m.eval x + o.eval x :=
  eval_qmUpdate m o m' x h

/-- `scale` scales energies -/
theorem scale_eval (m : Model) (q : Rat) (x : Label → Rat) : (m.scale q).eval x = q * m.eval x := eval_scale m q x

/-- **promotion_keeps_varinfo**: promotion of a BQM to a QM keeps the variable list with types and
    bounds, and merging (`update`, the engine of `+`, `-`, `quicksum` and of the views' operators) keeps
    every variable of both operands with unchanged vartype and bounds -/
theorem promotion_keeps_varinfo (m o m' : Model) (hnd : (o.vars.map (·.l)).Nodup) (h : qmUpdate m o = .ok m') :
    m.toQM.vars = m.vars ∧
    (∀ w ∈ m.vars, HasVar m'.vars w.l w.info) ∧ (∀ w ∈ o.vars, HasVar m'.vars w.l w.info) :=
  ⟨rfl, qmUpdate_keeps_varinfo m o m' hnd h⟩

/-- **conflict_rejected**: a label carried by both operands with different vartype or bounds makes
    `update` raise (ValueError) -/
theorem conflict_rejected (m o : Model) (w v : Var) (hw : w ∈ o.vars) (hf : findVar m.vars w.l = some v)
    (hne : v.info ≠ w.info) : qmUpdate m o = .error .value :=
  qmUpdate_conflict m o w v hw hf hne

/-- … and in a product `add_variable` raises: TypeError for a different vartype -/
theorem conflict_rejected_mul (m : Model) (l : Label) (i : VarInfo) (v : Var) (hf : findVar m.vars l = some v)
    (hne : v.info.vt ≠ i.vt) : addVariable m l i = .error .type := by
  simp [addVariable, hf, hne]

/-- **operands_unchanged** (object level, `DimodModel/SymStore.lean`): the body of every non-in-place
    operator (`+`, `-`, `*`, unary `-`, `±`/`*`/`/` a number, in all class combinations, i.e. with the
    promotions `from_bqm`) allocates its result and mutates only what it allocated: whatever store it runs
    in, every object that existed before the call — in particular both operands — is the same afterwards,
    also when the operands are one and the same object. -/
theorem operands_unchanged (h h' : Store) (a b : Nat) (q : Rat) (p : List Instr)
    (hp : p ∈ nonInplacePrograms a b q h.length) (he : exec h p = .ok h') :
    ∀ j, j < h.length → h'[j]? = h[j]? :=
  exec_frame p h h' h.length (Nat.le_refl _) (nonInplace_writes_fresh a b q h.length p hp) he

/-- **operands_unchanged, the remaining forms**: `quicksum` over any number of items (deep copy of the first, `+=` of the
    others, also when a `+=` falls back on the promoting `+`), `** 2` (the same object as both factors), and the operators
    of the CQM expression views (`view ± model`, `view ± BQM`, `view ± number`, `model ± view`, `number − view`: a fresh
    `QuadraticModel()` is filled from the view first) allocate their result and mutate only what they allocated: every
    object that existed before the call is the same afterwards -/
theorem operands_unchanged_more (h h' : Store) (a b : Nat) (rest : List Nat) (q : Rat) (p : List Instr)
    (hp : p ∈ moreNonInplacePrograms a b rest q h.length) (he : exec h p = .ok h') :
    ∀ j, j < h.length → h'[j]? = h[j]? :=
  exec_frame p h h' h.length (Nat.le_refl _) (more_write_fresh a b rest q h.length p hp) he

/-- `quicksum([x, y])` computes `copy(x).update(y)` into the fresh object (the value `build` uses for two items) -/
theorem quicksum_program_refines (h : Store) (a b : Nat) (x y : Model) (ha : h[a]? = some x) (hb : h[b]? = some y) :
    (exec h (progQuicksum a [b] h.length)).map (fun h' => h'[h.length]?) = (upd x y).map some :=
  exec_quicksum_two h a b x y ha hb

/-- the same-class `+` program computes `mAdd` (the value `build` uses) into the fresh object -/
theorem add_program_refines (h : Store) (a b : Nat) (x y : Model) (ha : h[a]? = some x) (hb : h[b]? = some y)
    (hcls : x.isQM = y.isQM) (hd : x.isQM = false → bqmDiffer x y = false) :
    (exec h (progAddSame a b h.length)).map (fun h' => h'[h.length]?) = (mAdd x y).map some :=
  exec_addSame h a b x y ha hb hcls hd

/-- `model * q`, `-model`, `model / q`, `model + q`, `q - model` and the same-class product compute the
    values `build` uses, into a fresh object -/
theorem scalar_and_mul_programs_refine (h : Store) (a b : Nat) (x y : Model) (q : Rat)
    (ha : h[a]? = some x) (hb : h[b]? = some y) (hcls : x.isQM = y.isQM) (hd : x.isQM = false → bqmDiffer x y = false) :
    (exec h (progScale a q h.length)).map (fun h' => h'[h.length]?) = .ok (some (x.scale q)) ∧
    (exec h (progAddNum a q h.length)).map (fun h' => h'[h.length]?) = .ok (some (x.addOffset q)) ∧
    (exec h (progRsubNum a q h.length)).map (fun h' => h'[h.length]?) = .ok (some ((x.scale (-1)).addOffset q)) ∧
    (exec h (progMulSame a b h.length)).map (fun h' => h'[h.length]?) = (mMul x y).map some :=
  ⟨exec_scale h a x q ha, exec_addNum h a x q ha, exec_rsubNum h a x q ha, exec_mulSame h a b x y ha hb hcls hd⟩

/-- the promoting `+` programs (`BQM+BQM` of different vartypes, `BQM+QM`, `QM+BQM`) compute `mAdd` -/
theorem add_promoting_programs_refine (h : Store) (a b : Nat) (x y : Model) (ha : h[a]? = some x) (hb : h[b]? = some y) :
    (x.isQM = false → y.isQM = false → bqmDiffer x y = true →
      (exec h (progAddPromoteBoth a b h.length)).map (fun h' => h'[h.length]?) = (mAdd x y).map some) ∧
    (x.isQM = false → y.isQM = true →
      (exec h (progAddPromoteLeft a b h.length)).map (fun h' => h'[h.length + 1]?) = (mAdd x y).map some) ∧
    (x.isQM = true → y.isQM = false →
      (exec h (progAddPromoteRight a b h.length)).map (fun h' => h'[h.length]?) = (mAdd x y).map some) :=
  ⟨exec_addPromoteBoth h a b x y ha hb, exec_addPromoteLeft h a b x y ha hb, exec_addPromoteRight h a b x y ha hb⟩

/-- all `-` programs compute `mSub` -/
theorem sub_programs_refine (h : Store) (a b : Nat) (x y : Model) (ha : h[a]? = some x) (hb : h[b]? = some y) :
    (x.isQM = true → y.isQM = true →
      (exec h (progSubSame a b h.length)).map (fun h' => h'[h.length]?) = (mSub x y).map some) ∧
    (x.isQM = false → y.isQM = false → bqmDiffer x y = false →
      (exec h (progSubSame a b h.length)).map (fun h' => h'[h.length]?) = (mSub x y).map some) ∧
    (x.isQM = false → y.isQM = false → bqmDiffer x y = true →
      (exec h (progSubPromoteBoth a b h.length)).map (fun h' => h'[h.length]?) = (mSub x y).map some) ∧
    (x.isQM = false → y.isQM = true →
      (exec h (progSubPromoteLeft a b h.length)).map (fun h' => h'[h.length + 1]?) = (mSub x y).map some) ∧
    (x.isQM = true → y.isQM = false →
      (exec h (progSubPromoteRight a b h.length)).map (fun h' => h'[h.length + 1]?) = (mSub x y).map some) :=
  ⟨exec_subSameQM h a b x y ha hb, exec_subSameBQM h a b x y ha hb, exec_subPromoteBoth h a b x y ha hb,
   exec_subPromoteLeft h a b x y ha hb, exec_subPromoteRight h a b x y ha hb⟩

/-- the promoting `*` programs compute `mMul` -/
theorem mul_promoting_programs_refine (h : Store) (a b : Nat) (x y : Model) (ha : h[a]? = some x) (hb : h[b]? = some y) :
    (x.isQM = false → y.isQM = true →
      (exec h (progMulPromoteLeft a b h.length)).map (fun h' => h'[h.length + 1]?) = (mMul x y).map some) ∧
    (x.isQM = true → y.isQM = false →
      (exec h (progMulPromoteRight a b h.length)).map (fun h' => h'[h.length + 1]?) = (mMul x y).map some) ∧
    (x.isQM = false → y.isQM = false → bqmDiffer x y = true → (x.isLinear = true ∧ y.isLinear = true) →
      (exec h (progMulPromoteBoth a b h.length)).map (fun h' => h'[h.length + 2]?) = (mMul x y).map some) :=
  ⟨exec_mulPromoteLeft h a b x y ha hb, exec_mulPromoteRight h a b x y ha hb, exec_mulPromoteBoth h a b x y ha hb⟩

/-- a variable-free BQM as LEFT operand of the opposite vartype promotes (`other.num_variables` is what
    counts, not `self.num_variables`): `BQM('BINARY') + Spin('s')` is a QM in which `s` is still SPIN;
    as RIGHT operand it does not: `Spin('s') + BQM('BINARY')` stays a SPIN BQM -/
theorem empty_bqm_promotion :
    (match build (.add (.empty .binary 3) (.var .spin (.str "s") 1 none none)) with
     | .ok (.mdl m) => m.isQM && (m.vars.map fun v => decide (v.info.vt = .spin)) == [true] | _ => false) = true ∧
    (match build (.add (.var .spin (.str "s") 1 none none) (.empty .binary 3)) with
     | .ok (.mdl m) => !m.isQM && decide (m.bvt = .spin) && decide (m.off = 3) | _ => false) = true ∧
    (match build (.mul (.empty .binary 3) (.var .spin (.str "s") 1 none none)) with
     | .ok (.mdl m) => m.isQM && (m.vars.map fun v => decide (v.info.vt = .spin)) == [true] | _ => false) = true := by
  refine ⟨?_, ?_, ?_⟩ <;> decide +kernel

/-- **comparisons** (`dimod.sym`): `e <= q`, `e >= q`, `e == q` and the reflected `q <= e`, `q >= e`, `q == e`
    with a number build `Le/Ge/Eq(lhs, rhs)` whose left-hand side is the built model itself (nothing is moved
    across) and whose right-hand side is the number.  At every sample respecting the leaves' domains the
    constraint's activity `lhs(x) − rhs` is the operands' `e(x) − q`, and the comparison object holds exactly
    when the written comparison holds between the numbers — reflection turns `q <= e` into `Ge(e, q)`. -/
theorem comparison_activity (c : SymCmp) (k : Cmp) (x : Label → Rat) (h : buildCmp c = .ok (some k))
    (hx : ∀ l kind, c.expr.HasLeaf l kind → InDom kind (x l)) :
    k.lhs.eval x - k.rhs = c.expr.eval x - c.num ∧ (k.holds x ↔ c.holds x) := by
  unfold buildCmp at h
  cases hb : build c.expr with
  | error e => rw [hb] at h; simp at h
  | ok v =>
    rw [hb] at h
    cases v with
    | num q => simp at h
    | view o m => simp only at h; split at h <;> simp at h
    | mdl m =>
      simp only [Except.ok.injEq, Option.some.injEq] at h
      subst h
      have he : m.eval x = c.expr.eval x := build_eval c.expr (.mdl m) x hb hx
      refine ⟨by simp only [he], ?_⟩
      cases c <;> simp only [Cmp.holds, SymCmp.sense, SymCmp.holds, SymCmp.num, SymCmp.expr] at he ⊢ <;> rw [he] <;>
        first | exact Iff.rfl | exact eq_comm

/-- an ordering between two models, or with an expression view, is not defined (TypeError): the model
    has no node for it; a view compared with `<=`/`>=` is refused -/
theorem comparison_view_refused (c : SymCmp) (o : Bool) (m : Model) (h : build c.expr = .ok (.view o m)) (hne : c.isEq = false) :
    buildCmp c = .error .type := by
  simp [buildCmp, h, hne]

/-! ## non-vacuity: concrete trees evaluated by the model -/

/-- `(2x + 1) * (x + 3y)` over binary `x, y` is `3x + 3y + 6xy` -/
example :
    (match build (.mul (.add (.var .binary (.str "x") 2 none none) (.const 1))
                       (.add (.var .binary (.str "x") 1 none none) (.var .binary (.str "y") 3 none none))) with
     | .ok v => v.eval (fun l => if l = .str "x" then 1 else 0) | .error _ => (0 : Rat)) = (3 : Rat) := by decide +kernel

/-- `Binary('i') + Integer('i')` is rejected -/
example : (match build (.add (.var .binary (.str "i") 1 none none) (.var .integer (.str "i") 1 (some 0) none)) with
     | .ok _ => false | .error e => e == .value) = true := by decide +kernel

/-- `(i + 1) ** 2` for an integer `i` keeps the true square `i*i` -/
example :
    (match build (.pow (.add (.var .integer (.str "i") 1 (some 0) none) (.const 1)) 2) with
     | .ok v => v.eval (fun _ => 3) | .error _ => (0 : Rat)) = (16 : Rat) := by decide +kernel


/-! ## round 7: one theorem per operator dispatch path, two-operand comparisons, stored constraints,
       operands of rejected operators (`DimodModel/SymCmp.lean`, `DimodProofs/SymCmp.lean`) -/

/-- **`+` on two models, every dispatch path** (`BQM.__add__(BQM)` same vartype → `copy().update`; different vartypes →
    `from_bqm(self) += from_bqm(other)`; `BQM.__add__(QM)` → `from_bqm(self) + other`; `BQM.__radd__(QM)` →
    `other.copy() += from_bqm(self)`; `QM.__add__(QM)`): whenever the operator returns, the result's energy is the sum of the
    operands' energies at EVERY sample (no domain hypothesis), and the result is a QuadraticModel exactly when one operand
    is one or the two BQMs differ in vartype with a non-empty right operand. -/
theorem add_dispatch_eval (a b m : Model) (x : Label → Rat) (h : mAdd a b = .ok m) :
    m.eval x = a.eval x + b.eval x ∧ m.isQM = (a.isQM || b.isQM || bqmDiffer a b) :=
  ⟨mAdd_eval a b m x h, mAdd_class a b m h⟩

/-- **`-` on two models, every dispatch path** (`__sub__`, `__rsub__`, the promoting forms): energies subtract at every
    sample; same class rule as `+` -/
theorem sub_dispatch_eval (a b m : Model) (x : Label → Rat) (h : mSub a b = .ok m) :
    m.eval x = a.eval x - b.eval x ∧ m.isQM = (a.isQM || b.isQM || bqmDiffer a b) :=
  mSub_eval_class a b m x h

/-- **model with a number, every form** (`m + q`, `q + m` (`__radd__`), `m - q`, `q - m` (`__rsub__`), `m * q`, `q * m`
    (`__rmul__`), `-m`, `m / q`): a model of the same class whose energy is that arithmetic at every sample; `m / 0`
    raises ZeroDivisionError -/
theorem number_dispatch_eval (m : Model) (q : Rat) (x : Label → Rat) :
    (∃ r, valAdd (.mdl m) (.num q) = .ok (.mdl r) ∧ r.eval x = m.eval x + q ∧ r.isQM = m.isQM ∧ r.bvt = m.bvt) ∧
    (∃ r, valAdd (.num q) (.mdl m) = .ok (.mdl r) ∧ r.eval x = q + m.eval x ∧ r.isQM = m.isQM ∧ r.bvt = m.bvt) ∧
    (∃ r, valSub (.mdl m) (.num q) = .ok (.mdl r) ∧ r.eval x = m.eval x - q ∧ r.isQM = m.isQM ∧ r.bvt = m.bvt) ∧
    (∃ r, valSub (.num q) (.mdl m) = .ok (.mdl r) ∧ r.eval x = q - m.eval x ∧ r.isQM = m.isQM ∧ r.bvt = m.bvt) ∧
    (∃ r, valMul (.mdl m) (.num q) = .ok (.mdl r) ∧ r.eval x = m.eval x * q ∧ r.isQM = m.isQM ∧ r.bvt = m.bvt) ∧
    (∃ r, valMul (.num q) (.mdl m) = .ok (.mdl r) ∧ r.eval x = q * m.eval x ∧ r.isQM = m.isQM ∧ r.bvt = m.bvt) ∧
    (∃ r, valNeg (.mdl m) = .ok (.mdl r) ∧ r.eval x = - m.eval x ∧ r.isQM = m.isQM ∧ r.bvt = m.bvt) ∧
    (q ≠ 0 → ∃ r, valDiv (.mdl m) q = .ok (.mdl r) ∧ r.eval x = m.eval x / q ∧ r.isQM = m.isQM ∧ r.bvt = m.bvt) ∧
    valDiv (.mdl m) 0 = .error .zerodiv := by
  refine ⟨⟨m.addOffset q, rfl, eval_addOffset m q x, rfl, rfl⟩,
          ⟨m.addOffset q, rfl, by rw [eval_addOffset]; ring, rfl, rfl⟩,
          ⟨m.addOffset (-q), rfl, by rw [eval_addOffset]; ring, rfl, rfl⟩,
          ⟨(m.scale (-1)).addOffset q, rfl, by rw [eval_addOffset, eval_scale]; ring, rfl, rfl⟩,
          ⟨m.scale q, rfl, by rw [eval_scale]; ring, rfl, rfl⟩,
          ⟨m.scale q, rfl, eval_scale m q x, rfl, rfl⟩,
          ⟨m.scale (-1), rfl, by rw [eval_scale]; ring, rfl, rfl⟩,
          fun hq => ⟨m.scale (1 / q), by simp [valDiv, hq], by rw [eval_scale]; ring, rfl, rfl⟩,
          by simp [valDiv]⟩

/-- **the repeated-label cases of the product loops** (`u == v` in `QuadraticModel.__mul__` / `BinaryQuadraticModel.__mul__`):
    a BINARY label contributes to the LINEAR bias (`x*x = x`), a SPIN label to the OFFSET (`s*s = 1`), an INTEGER or REAL
    label gets a SELF-LOOP (a true square; for REAL `add_quadratic` then raises) -/
theorem square_dispatch (u v : Var) (acc : Model) (h : u.l = v.l) :
    (u.info.vt = .binary → qmMulStep u v acc = addLinear acc u.l (u.bias * v.bias)) ∧
    (u.info.vt = .spin → qmMulStep u v acc = .ok (acc.addOffset (u.bias * v.bias))) ∧
    (u.info.vt = .integer ∨ u.info.vt = .real → qmMulStep u v acc = addQuadratic acc u.l u.l (u.bias * v.bias)) ∧
    bqmMulStep .binary u v acc = addLinear acc u.l (u.bias * v.bias) ∧
    bqmMulStep .spin u v acc = .ok (acc.addOffset (u.bias * v.bias)) := by
  refine ⟨fun hk => by simp [qmMulStep, h, hk], fun hk => by simp [qmMulStep, h, hk],
          fun hk => by rcases hk with hk | hk <;> simp [qmMulStep, h, hk], by simp [bqmMulStep, h], by simp [bqmMulStep, h]⟩

/-- … and the self-loop is a true square in the energy, the linear/offset forms are `b·x` / `b` -/
theorem square_dispatch_eval (acc acc' : Model) (l : Label) (b : Rat) (x : Label → Rat) :
    (addQuadratic acc l l b = .ok acc' → acc'.eval x = acc.eval x + b * x l * x l) ∧
    (addLinear acc l b = .ok acc' → acc'.eval x = acc.eval x + b * x l) ∧
    (acc.addOffset b).eval x = acc.eval x + b :=
  ⟨eval_addQuadratic acc acc' l l b x, eval_addLinear acc acc' l b x, eval_addOffset acc b x⟩

/-- **comparison of two arbitrary operands** `a ⋈ b` (`__le__`, `__ge__`, `__eq__` and Python's reflection): whenever a
    `Comparison` object comes out, then at every sample respecting the leaves' domains EITHER its sense is the written one and
    its activity `lhs(x) − rhs` is `a(x) − b(x)`, OR (reflected: the number was on the left) its sense is the flipped one and
    its activity is `b(x) − a(x)`; in both cases it holds exactly when the written comparison holds between the energies. -/
theorem comparison_two_operands (s : Sense) (a b : SymExpr) (k : Cmp) (x : Label → Rat) (h : buildCmp2 s a b = .ok (some k))
    (hxa : ∀ l kd, a.HasLeaf l kd → InDom kd (x l)) (hxb : ∀ l kd, b.HasLeaf l kd → InDom kd (x l)) :
    ((k.sense = s ∧ k.lhs.eval x - k.rhs = a.eval x - b.eval x) ∨
     (k.sense = s.flip ∧ k.lhs.eval x - k.rhs = -(a.eval x - b.eval x))) ∧
    (k.holds x ↔ s.rel (a.eval x) (b.eval x)) :=
  buildCmp2_spec s a b k x h hxa hxb

/-- non-vacuity of `comparison_two_operands`: `3 >= 2·x + 1` over a binary `x` is `Le(2x + 1, 3)` -/
example :
    (match buildCmp2 .ge (.const 3) (.add (.var .binary (.str "x") 2 none none) (.const 1)) with
     | .ok (some k) => decide (k.sense = .le) && decide (k.rhs = 3) && decide (k.lhs.eval (fun _ => 1) = 3) | _ => false) = true := by
  decide +kernel

/-- **no terms are moved across**: with models (or expression views) on BOTH sides `<=`/`>=` raise TypeError and `==` is a
    plain bool (`is_equal` / identity) — this version of dimod builds a `Comparison` only against a number -/
theorem comparison_models_refused (s : Sense) (a b : SymExpr) (va vb : Val) (ha : build a = .ok va) (hb : build b = .ok vb)
    (hna : ∀ q, va ≠ .num q) (hnb : ∀ q, vb ≠ .num q) :
    buildCmp2 s a b = if s = .eq then .ok none else .error .type := by
  simp only [buildCmp2, ha, hb]
  exact cmpVals_refused s va vb hna hnb

/-- non-vacuity: `Binary('x') <= Integer('i')` meets the hypotheses -/
example : buildCmp2 .le (.var .binary (.str "x") 1 none none) (.var .integer (.str "i") 1 (some 0) (some 3)) = .error .type := by
  apply comparison_models_refused .le _ _ _ _ rfl rfl <;> intro q hq <;> cases hq

/-- the two-operand comparison extends the six number forms of `buildCmp` -/
theorem comparison2_extends (e : SymExpr) (q : Rat) :
    buildCmp (.le e q) = buildCmp2 .le e (.const q) ∧ buildCmp (.ge e q) = buildCmp2 .ge e (.const q) ∧
    buildCmp (.eq e q) = buildCmp2 .eq e (.const q) ∧ buildCmp (.rle q e) = buildCmp2 .le (.const q) e ∧
    buildCmp (.rge q e) = buildCmp2 .ge (.const q) e ∧ buildCmp (.req q e) = buildCmp2 .eq (.const q) e := by
  refine ⟨?_, ?_, ?_, ?_, ?_, ?_⟩ <;>
    (simp only [buildCmp, buildCmp2, build, SymCmp.expr, SymCmp.num, SymCmp.sense, SymCmp.isEq]
     cases build e with
     | error _ => rfl
     | ok v => cases v <;> rfl)

/-- **the constraint a CQM stores for a comparison** (`add_constraint(comp)` → `add_constraint_from_model(comp.lhs,
    comp.sense, rhs=comp.rhs, copy=True)`): its activity at every sample is `lhs(x) − rhs` of the comparison (the offset
    stays on the left), sense, right-hand side and variables (with types and bounds) are preserved, and it is satisfied
    exactly when the comparison holds -/
theorem constraint_from_comparison (k : Cmp) (x : Label → Rat) :
    (conOfCmp k).activity x = k.lhs.eval x - k.rhs ∧ (conOfCmp k).sense = k.sense ∧ (conOfCmp k).rhs = k.rhs ∧
    (conOfCmp k).lhs.vars = k.lhs.vars ∧ ((conOfCmp k).holds x ↔ k.holds x) := by
  refine ⟨rfl, rfl, rfl, rfl, ?_⟩
  obtain ⟨l, s, r⟩ := k
  cases s <;> exact Iff.rfl

/-- **comparisons leave their operands unchanged**: building the `Comparison` mutates nothing, adding it to a CQM
    allocates the copy -/
theorem comparison_operands_unchanged (h h' : Store) (a : Nat) (p : List Instr)
    (hp : p = progCompare ∨ p = progAddConstraint a) (he : exec h p = .ok h') :
    ∀ j, j < h.length → h'[j]? = h[j]? := by
  rcases hp with rfl | rfl
  · exact exec_frame _ h h' h.length (Nat.le_refl _) (compare_writes_fresh a h.length).1 he
  · exact exec_frame _ h h' h.length (Nat.le_refl _) (compare_writes_fresh a h.length).2 he

/-- **operands_unchanged, also when the operator is REJECTED**: run the body of any non-in-place operator (all of
    `operands_unchanged` and `operands_unchanged_more`, and the comparison forms) in any store; whether it returns or raises
    half-way (conflicting vartype/bounds for one label in `update`, a product of non-linear models, …), every object that
    existed before the call — both operands — is exactly as it was at the moment the call ends; `execT` is `exec` with the
    store at the moment of the exception kept. -/
theorem operands_unchanged_when_rejected (h : Store) (a b : Nat) (rest : List Nat) (q : Rat) (p : List Instr)
    (hp : p ∈ nonInplacePrograms a b q h.length ∨ p ∈ moreNonInplacePrograms a b rest q h.length ∨
          p = progCompare ∨ p = progAddConstraint a) :
    (∀ j, j < h.length → (execT h p).1[j]? = h[j]?) ∧
    exec h p = (match (execT h p).2 with | none => .ok (execT h p).1 | some e => .error e) := by
  refine ⟨?_, execT_exec p h⟩
  have hw : WritesFresh h.length p = true := by
    rcases hp with hp | hp | rfl | rfl
    · exact nonInplace_writes_fresh a b q h.length p hp
    · exact more_write_fresh a b rest q h.length p hp
    · exact (compare_writes_fresh a h.length).1
    · exact (compare_writes_fresh a h.length).2
  exact execT_frame p h h.length (Nat.le_refl _) hw

/-- non-vacuity: `Integer('i', upper_bound=5) - Integer('i', upper_bound=7)` (program `progSubSame`) is rejected with
    ValueError after the copy was negated — a case where `operands_unchanged` says nothing and this theorem does -/
example :
    (execT [⟨true, .binary, [⟨.str "i", ⟨.integer, 0, 5⟩, 1⟩], [], 0⟩, ⟨true, .binary, [⟨.str "i", ⟨.integer, 0, 7⟩, 1⟩], [], 0⟩]
       (progSubSame 0 1 2)).2 = some .value := by decide +kernel


/-! ### `x * x` in closed form (single-variable operands, any label, any biases) -/

/-- `Binary(l, b) * Binary(l, c)` is the LINEAR model `b·c·x` (a BINARY BQM, no interaction, no offset) -/
theorem square_binary_is_linear (l : Label) (b c : Rat) :
    mMul ⟨false, .binary, [⟨l, bqmInfo .binary, b⟩], [], 0⟩ ⟨false, .binary, [⟨l, bqmInfo .binary, c⟩], [], 0⟩
      = .ok ⟨false, .binary, [⟨l, bqmInfo .binary, b * c⟩], [], 0⟩ := by
  simp [mMul, Model.isLinear, bqmDiffer, bqmMulSame, mulOuter, mulInner, bqmMulStep, addLinear, Model.has, findVar, emptyBQM,
        mulTail, Model.addOffset, bumpVar]

/-- `Spin(l, b) * Spin(l, c)` is the CONSTANT `b·c` (a SPIN BQM that still lists `l`, with bias 0) -/
theorem square_spin_is_constant (l : Label) (b c : Rat) :
    mMul ⟨false, .spin, [⟨l, bqmInfo .spin, b⟩], [], 0⟩ ⟨false, .spin, [⟨l, bqmInfo .spin, c⟩], [], 0⟩
      = .ok ⟨false, .spin, [⟨l, bqmInfo .spin, 0⟩], [], b * c⟩ := by
  simp [mMul, Model.isLinear, bqmDiffer, bqmMulSame, mulOuter, mulInner, bqmMulStep, addLinear, Model.has, findVar, emptyBQM,
        mulTail, Model.addOffset, bumpVar]

/-- `Integer(l, b, lo, hi) * Integer(l, c, lo, hi)` is the SELF-LOOP `b·c·i·i` (bounds kept, linear bias 0) -/
theorem square_integer_is_selfloop (l : Label) (b c lo hi : Rat) :
    mMul ⟨true, .binary, [⟨l, ⟨.integer, lo, hi⟩, b⟩], [], 0⟩ ⟨true, .binary, [⟨l, ⟨.integer, lo, hi⟩, c⟩], [], 0⟩
      = .ok ⟨true, .binary, [⟨l, ⟨.integer, lo, hi⟩, 0⟩], [⟨l, l, b * c⟩], 0⟩ := by
  simp [mMul, qmMul, Model.isLinear, addVariables, addVariable, emptyQM, mulOuter, mulInner, qmMulStep, addLinear, addQuadratic, vtOf,
        Model.has, findVar, mulTail, Model.addOffset, bumpVar, bumpQuad]

/-- `Real(l, b) * Real(l, c)`: REAL variables take no interactions, `add_quadratic` raises ValueError -/
theorem square_real_rejected (l : Label) (b c lo hi : Rat) :
    mMul ⟨true, .binary, [⟨l, ⟨.real, lo, hi⟩, b⟩], [], 0⟩ ⟨true, .binary, [⟨l, ⟨.real, lo, hi⟩, c⟩], [], 0⟩
      = .error .value := by
  simp [mMul, qmMul, Model.isLinear, addVariables, addVariable, emptyQM, mulOuter, mulInner, qmMulStep, addQuadratic, vtOf, findVar]


/-! ## round 7: theorems over the operator programs GENERATED from the source

`Generated/SymPrograms.lean` is rewritten on every run by `harness/translators/sym_programs.py`: the body of every operator
overload of `BinaryQuadraticModel`, `QuadraticModel` and the CQM expression views, partially evaluated per class of the
operands (Python's `__op__` / `__rop__` / `__iop__` dispatch inlined) into a program over `Sym.Instr`.  The theorems below
quantify over those generated programs, so a change of an operator body in the source changes their subject. -/

/-- **operands_unchanged over the generated bodies**: every non-in-place operator form of the source (`+ - *` over
    BQM / QM / expression view / number in every combination incl. the reflected ones, unary `-`, `/ q`, `** 2`) and every
    in-place form that falls back on a binary operator writes only to objects it allocated: whatever store it runs in, and
    whether it returns or is rejected half-way, every object that existed before — both operands — is as it was. -/
theorem generated_operands_unchanged (h : Store) (a b : Nat) (q : Rat) (p : List Instr)
    (hp : p ∈ Generated.nonInplace a b q h.length ∨ p ∈ Generated.inplaceFallback a b q h.length) :
    (∀ j, j < h.length → (execT h p).1[j]? = h[j]?) ∧
    (∀ h', exec h p = .ok h' → ∀ j, j < h.length → h'[j]? = h[j]?) := by
  have hw : WritesFresh h.length p = true :=
    List.all_eq_true.mp (generated_write_fresh a b q h.length) p (List.mem_append.mpr hp)
  exact ⟨execT_frame p h h.length (Nat.le_refl _) hw, fun h' he => exec_frame p h h' h.length (Nat.le_refl _) hw he⟩

/-- **the mutating in-place forms touch their left operand only** (`+=`, `-=`, `*= q`, `/= q` when `__iop__` accepts): every
    other existing object — in particular the right operand when it is another object — is as it was, also when the
    operator is rejected half-way (the left operand may then be left modified: `scale(-1)` before a rejected `update`) -/
theorem generated_inplace_touches_left_only (h : Store) (a b : Nat) (q : Rat) (p : List Instr)
    (hp : p ∈ Generated.inplaceMutating a b q h.length) (j : Nat) (hj : j < h.length) (hja : j ≠ a) :
    (execT h p).1[j]? = h[j]? :=
  execT_frame_ne p h j hj (noWrite_of_targets p a j hja (List.all_eq_true.mp (generated_inplace_targets a b q h.length) p hp))

/-- non-vacuity and sharpness: `Integer('i', ub=5) -= Integer('i', ub=7)` is rejected and leaves the LEFT operand negated
    (as the code does), the right one untouched -/
example :
    (match execT [⟨true, .binary, [⟨.str "i", ⟨.integer, 0, 5⟩, 1⟩], [], 0⟩, ⟨true, .binary, [⟨.str "i", ⟨.integer, 0, 7⟩, 1⟩], [], 0⟩]
       (Generated.qm_isub_qm 0 1 0 2) with
     | (s, e) => decide (e = some .value) && (s.map fun m => m.vars.map (·.bias)) == [[-1], [1]]) = true := by decide +kernel

/-- **the generated bodies are the modelled programs** of `DimodModel/SymStore.lean` (so `add_program_refines`, `sub_programs_refine`,
    `scalar_and_mul_programs_refine`, `add_promoting_programs_refine`, `mul_promoting_programs_refine` and
    `quicksum_program_refines` speak about the source's own operator bodies): they compute `mAdd` / `mSub` / `mMul` /
    `scale` / `addOffset` of the operands.  (The views' operators with a BQM operand and `BQM * BQM` of different vartypes are
    generated with the source's exact allocation order, which differs from the hand-written `progViewAddBqm`, `progViewSubBqm`,
    `progMulPromoteBoth`; they are covered by `generated_operands_unchanged` and `generated_mul_differ_refines`.) -/
theorem generated_programs_are_modelled (a b : Nat) (q : Rat) (n : Nat) :
    Generated.bqm_add_bqm_same a b q n = progAddSame a b n ∧
    Generated.qm_add_qm a b q n = progAddSame a b n ∧
    Generated.bqm_add_bqm_differ a b q n = progAddPromoteBoth a b n ∧
    Generated.bqm_add_qm a b q n = progAddPromoteLeft a b n ∧
    Generated.qm_add_bqm a b q n = progAddPromoteRight a b n ∧
    Generated.bqm_sub_bqm_same a b q n = progSubSame a b n ∧
    Generated.qm_sub_qm a b q n = progSubSame a b n ∧
    Generated.bqm_sub_bqm_differ a b q n = progSubPromoteBoth a b n ∧
    Generated.bqm_sub_qm a b q n = progSubPromoteLeft a b n ∧
    Generated.qm_sub_bqm a b q n = progSubPromoteRight a b n ∧
    Generated.bqm_add_num a b q n = progAddNum a q n ∧
    Generated.qm_add_num a b q n = progAddNum a q n ∧
    Generated.num_add_bqm a b q n = progAddNum a q n ∧
    Generated.num_add_qm a b q n = progAddNum a q n ∧
    Generated.bqm_sub_num a b q n = progAddNum a (-q) n ∧
    Generated.qm_sub_num a b q n = progAddNum a (-q) n ∧
    Generated.num_sub_bqm a b q n = progRsubNum a q n ∧
    Generated.num_sub_qm a b q n = progRsubNum a q n ∧
    Generated.bqm_mul_num a b q n = progScale a q n ∧
    Generated.qm_mul_num a b q n = progScale a q n ∧
    Generated.num_mul_bqm a b q n = progScale a q n ∧
    Generated.num_mul_qm a b q n = progScale a q n ∧
    Generated.bqm_neg a b q n = progScale a (-1) n ∧
    Generated.qm_neg a b q n = progScale a (-1) n ∧
    Generated.bqm_truediv_num a b q n = progScale a (1 / q) n ∧
    Generated.qm_truediv_num a b q n = progScale a (1 / q) n ∧
    Generated.bqm_mul_bqm_same a b q n = progMulSame a b n ∧
    Generated.qm_mul_qm a b q n = progMulSame a b n ∧
    Generated.bqm_mul_qm a b q n = progMulPromoteLeft a b n ∧
    Generated.qm_mul_bqm a b q n = progMulPromoteRight a b n ∧
    Generated.bqm_pow_2 a b q n = progPow2 a n ∧
    Generated.qm_pow_2 a b q n = progPow2 a n ∧
    Generated.view_add_qm a b q n = progViewAdd a b n ∧
    Generated.view_sub_qm a b q n = progViewSub a b n ∧
    Generated.view_add_num a b q n = progViewAddNum a q n ∧
    Generated.view_sub_num a b q n = progViewAddNum a (-q) n ∧
    Generated.qm_add_view a b q n = progViewRadd b a n ∧
    Generated.qm_sub_view a b q n = progViewRsub b a n ∧
    Generated.num_sub_view a b q n = progViewRsubNum a q n ∧
    Generated.bqm_iadd_bqm_same a b q n = progIaddSame a b ∧
    Generated.qm_iadd_qm a b q n = progIaddSame a b ∧
    Generated.bqm_isub_bqm_same a b q n = progIsubSame a b ∧
    Generated.qm_isub_qm a b q n = progIsubSame a b := by
  (repeat' apply And.intro) <;> rfl

/-- the generated `BQM * BQM` of different vartypes computes `mMul` into the object it returns -/
theorem generated_mul_differ_refines (h : Store) (a b : Nat) (q : Rat) (x y : Model) (ha : h[a]? = some x) (hb : h[b]? = some y)
    (hx : x.isQM = false) (hy : y.isQM = false) (hd : bqmDiffer x y = true) (hl : x.isLinear = true ∧ y.isLinear = true) :
    (exec h (Generated.bqm_mul_bqm_differ a b q h.length)).map (fun h' => h'[Generated.bqm_mul_bqm_differResult a b h.length]?)
      = (mMul x y).map some :=
  exec_gen_mulDiffer h a b q x y ha hb hx hy hd hl

/-- the operator forms no class accepts (TypeError) are exactly the ones `valMul` / `valNeg` / `valDiv` / `valPow` refuse:
    every product, negation, division and power involving an expression view -/
theorem generated_refused_are_the_view_forms :
    Generated.refused = ["bqm_mul_view", "bqm_imul_view", "qm_mul_view", "qm_imul_view", "view_mul_bqm", "view_imul_bqm",
      "view_mul_qm", "view_imul_qm", "view_mul_view", "view_imul_view", "view_mul_num", "view_imul_num", "num_mul_view",
      "view_neg", "view_truediv_num", "view_itruediv_num", "view_pow_2"] ∧
    (∀ o m v, valMul (.view o m) v = .error .type) ∧ (∀ o m v, valMul v (.view o m) = .error .type) ∧
    (∀ o m, valNeg (.view o m) = .error .type) ∧ (∀ o m q, valDiv (.view o m) q = .error .type) ∧
    (∀ o m n, valPow (.view o m) n = .error .type) := by
  refine ⟨rfl, ?_, ?_, fun _ _ => rfl, ?_, fun _ _ _ => rfl⟩
  · intro o m v; cases v <;> rfl
  · intro o m v; cases v <;> rfl
  · intro o m q; by_cases hq : q = 0 <;> simp [valDiv, hq]


/-- **the product loops of the source are the modelled ones**: the case analysis of the inner loops of `QuadraticModel.__mul__`
    and `BinaryQuadraticModel.__mul__` (generated from the source; the surrounding skeleton is checked literally by the
    translator) is `qmMulStep` / `bqmMulStep`, so `mul_linear_eval`, `square_dispatch` and the closed forms of `x*x` speak
    about the loops as they are written -/
theorem generated_mul_steps : Generated.qmMulStep = qmMulStep ∧ Generated.bqmMulStep = bqmMulStep := by
  constructor
  · funext u v acc
    simp only [Generated.qmMulStep, qmMulStep]
    split
    · cases u.info.vt <;> simp
    · rfl
  · funext s u v acc
    rfl


/-- **the comparison methods of the source are the modelled ones** (`cmpVals`): `BinaryQuadraticModel` and `QuadraticModel`
    build `Eq/Ge/Le(self, other)` — left-hand side the model itself, sense of the method — exactly for a Number operand;
    `__ge__`/`__le__` return NotImplemented otherwise (TypeError after Python has tried both sides), `__eq__` falls back on
    `is_equal` (BQM) or NotImplemented → identity (QM), i.e. a bool; the expression views define none of them -/
theorem generated_comparisons :
    Generated.comparisons =
      [("BQM", "__eq__", "Eq", "is_equal"), ("BQM", "__ge__", "Ge", "NotImplemented"), ("BQM", "__le__", "Le", "NotImplemented"),
       ("QM", "__eq__", "Eq", "NotImplemented"), ("QM", "__ge__", "Ge", "NotImplemented"), ("QM", "__le__", "Le", "NotImplemented")] ∧
    (∀ s m q, cmpVals s (.mdl m) (.num q) = .ok (some ⟨m, s, q⟩)) ∧
    (∀ s m q, cmpVals s (.num q) (.mdl m) = .ok (some ⟨m, s.flip, q⟩)) ∧
    (∀ s o m q, cmpVals s (.view o m) (.num q) = if s = .eq then .ok none else .error .type) :=
  ⟨rfl, fun _ _ _ => rfl, fun _ _ _ => rfl, fun _ _ _ _ => rfl⟩


/-- **energies of the source's own operator bodies** (no `mAdd`/`mSub` in between): run ANY generated form of `+`/`+=`
    (every pair of classes BQM / QM / expression view, same or different vartypes, promoting or not, reflected or not),
    of `-`/`-=`, of `± q`, `q −`, `* q`, `q *`, `*= q`, unary `-`, `/ q`, `/= q` on two operand objects `x`, `y`; if it returns,
    the object it returns (for the mutating in-place forms: the left operand) has, at EVERY sample `s`, the energy
    `x(s) + y(s)`, `x(s) − y(s)`, `x(s) + q`, `x(s) − q`, `q − x(s)`, `q·x(s)`, `−x(s)`, `x(s)/q` respectively.
    (Products are the subject of `mul_linear_eval` / `generated_mul_steps`; that nothing else in the store changes is
    `generated_operands_unchanged` / `generated_inplace_touches_left_only`.) -/
theorem generated_energy (x y : Model) (q : Rat) (s : Label → Rat) :
    (∀ pr ∈ Generated.addForms q, ∀ h', exec [x, y] pr.1 = .ok h' → (h'[pr.2]?).map (·.eval s) = some (x.eval s + y.eval s)) ∧
    (∀ pr ∈ Generated.subForms q, ∀ h', exec [x, y] pr.1 = .ok h' → (h'[pr.2]?).map (·.eval s) = some (x.eval s - y.eval s)) ∧
    (∀ pr ∈ Generated.addNumForms q, ∀ h', exec [x, y] pr.1 = .ok h' → (h'[pr.2]?).map (·.eval s) = some (x.eval s + q)) ∧
    (∀ pr ∈ Generated.subNumForms q, ∀ h', exec [x, y] pr.1 = .ok h' → (h'[pr.2]?).map (·.eval s) = some (x.eval s - q)) ∧
    (∀ pr ∈ Generated.rsubNumForms q, ∀ h', exec [x, y] pr.1 = .ok h' → (h'[pr.2]?).map (·.eval s) = some (q - x.eval s)) ∧
    (∀ pr ∈ Generated.scaleForms q, ∀ h', exec [x, y] pr.1 = .ok h' → (h'[pr.2]?).map (·.eval s) = some (q * x.eval s)) ∧
    (∀ pr ∈ Generated.negForms q, ∀ h', exec [x, y] pr.1 = .ok h' → (h'[pr.2]?).map (·.eval s) = some (- x.eval s)) ∧
    (∀ pr ∈ Generated.divForms q, ∀ h', exec [x, y] pr.1 = .ok h' → (h'[pr.2]?).map (·.eval s) = some (x.eval s / q)) :=
  ⟨forms_energy _ _ _ _ (addForms_E _ _ q) x y s rfl rfl, forms_energy _ _ _ _ (subForms_E _ _ q) x y s rfl rfl,
   forms_energy _ _ _ _ (addNumForms_E _ _ q) x y s rfl rfl, forms_energy _ _ _ _ (subNumForms_E _ _ q) x y s rfl rfl,
   forms_energy _ _ _ _ (rsubNumForms_E _ _ q) x y s rfl rfl, forms_energy _ _ _ _ (scaleForms_E _ _ q) x y s rfl rfl,
   forms_energy _ _ _ _ (negForms_E _ _ q) x y s rfl rfl, forms_energy _ _ _ _ (divForms_E _ _ q) x y s rfl rfl⟩

/-- non-vacuity: the generated `Spin + Binary` (promoting `+`) does return on two concrete operands, with the sum's energy -/
example :
    (match exec [⟨false, .spin, [⟨.str "s", bqmInfo .spin, 2⟩], [], 1⟩, ⟨false, .binary, [⟨.str "x", bqmInfo .binary, 3⟩], [], 0⟩]
       (Generated.bqm_add_bqm_differ 0 1 0 2) with
     | .ok h' => (h'[Generated.bqm_add_bqm_differResult 0 1 2]?).map (·.eval fun _ => 1) | .error _ => none) = some (6 : Rat) := by
  decide +kernel

/-! ## round 8: expression VIEWS of a CQM (`cqm.objective`, `cqm.constraints[l].lhs`) as operands of `+ -`, of comparisons,
       of `set_objective` / `add_constraint`; `sum(items, start)` and `quicksum` as folds of the modelled `+`
       (`DimodModel/SymView.lean`, `DimodProofs/SymView.lean`).  All statements hold at EVERY sample (no domain hypothesis:
       `+`/`-` never use `x*x = x`). -/

/-- **`+` over every operand class incl. views on either side** (`_ExpressionMixin.__add__`: `qm = QM(); qm.update(view);
    qm += other`; `__radd__`: `other + qm`; number / BQM of either vartype, with or without variables / QM / view as the
    other operand): whenever the operator returns, the energy of the result is the sum of the operands' energies, and when
    one operand is a view the result is a new `QuadraticModel` object (never a view, never a BQM). -/
theorem view_add_eval (a b c : Val) (x : Label → Rat) (h : valAdd a b = .ok c) :
    c.eval x = a.eval x + b.eval x ∧ ((a.isView = true ∨ b.isView = true) → c.isQMObj = true) :=
  ⟨valAdd_eval a b c x h, fun hv => valAdd_view_class a b c hv h⟩

/-- **`-` over every operand class incl. views on either side** (`__sub__`: `qm -= other`; `__rsub__`: `other - qm`) -/
theorem view_sub_eval (a b c : Val) (x : Label → Rat) (h : valSub a b = .ok c) :
    c.eval x = a.eval x - b.eval x ∧ ((a.isView = true ∨ b.isView = true) → c.isQMObj = true) :=
  ⟨valSub_eval a b c x h, fun hv => valSub_view_class a b c hv h⟩

/-- **a variable-free BQM that carries an offset, combined with a view** (a BQM with `num_variables == 0` is falsy in
    Python whatever its offset — the class of a shortcut `if not other: return qm`): its constant is never dropped, on
    either side of `+` and `-`. -/
theorem constant_bqm_with_view (vt : VT) (c : Rat) (o : Bool) (a : Model) (r : Val) (x : Label → Rat) :
    (valAdd (.mdl (constBQM vt c)) (.view o a) = .ok r → r.eval x = c + a.eval x) ∧
    (valAdd (.view o a) (.mdl (constBQM vt c)) = .ok r → r.eval x = a.eval x + c) ∧
    (valSub (.mdl (constBQM vt c)) (.view o a) = .ok r → r.eval x = c - a.eval x) ∧
    (valSub (.view o a) (.mdl (constBQM vt c)) = .ok r → r.eval x = a.eval x - c) := by
  refine ⟨fun h => ?_, fun h => ?_, fun h => ?_, fun h => ?_⟩
  · simpa [Val.eval, eval_constBQM] using valAdd_eval _ _ _ x h
  · simpa [Val.eval, eval_constBQM] using valAdd_eval _ _ _ x h
  · simpa [Val.eval, eval_constBQM] using valSub_eval _ _ _ x h
  · simpa [Val.eval, eval_constBQM] using valSub_eval _ _ _ x h

/-- non-vacuity: `constant-4 binary BQM + objective view (2x + 3/2)` does return, and has energy 4 + 2 + 3/2 at x = 1 -/
example :
    (match valAdd (.mdl (constBQM .binary 4)) (.view true ⟨true, .binary, [⟨.str "x", bqmInfo .binary, 2⟩], [], 3/2⟩) with
     | .ok r => some (r.eval fun _ => 1) | .error _ => none) = some (15/2 : Rat) := by
  decide +kernel

/-- **views have no `*`, unary `-`, `/`, `**`**: TypeError whatever the other operand -/
theorem view_products_refused (o : Bool) (m : Model) (v : Val) (q : Rat) (n : Nat) :
    valMul (.view o m) v = .error .type ∧ valMul v (.view o m) = .error .type ∧ valNeg (.view o m) = .error .type ∧
    valDiv (.view o m) q = .error .type ∧ valPow (.view o m) n = .error .type := by
  refine ⟨by cases v <;> rfl, by cases v <;> rfl, rfl, ?_, rfl⟩
  unfold valDiv; split <;> rfl

/-- **`sum(items, start)`** (`acc = start; acc = acc + item` for each item — start a number (default 0), a BQM, a QM or a
    view; items of any classes): whenever it returns, the energy of the result is the start's energy plus the sum of the
    items' energies. -/
theorem sum_with_start_eval (start : Val) (items : List Val) (r : Val) (x : Label → Rat) (h : sumVals start items = .ok r) :
    r.eval x = start.eval x + sumEvals x items := sumVals_eval start items r x h

/-- `sum(items)` with the implicit start 0 -/
theorem sum_default_start_eval (items : List Val) (r : Val) (x : Label → Rat) (h : sumVals (.num 0) items = .ok r) :
    r.eval x = sumEvals x items := by
  have := sumVals_eval (.num 0) items r x h
  simpa [Val.eval] using this

/-- **`quicksum(items)` for any number of items** (deep copy of the first, `+=` each further one; `QuadraticModel()` when
    empty; a ConstraintView first item cannot be deep-copied → TypeError): the energy of the result is the sum of the items'
    energies. -/
theorem quicksum_eval (items : List Val) (r : Val) (x : Label → Rat) (h : qsumVals items = .ok r) :
    r.eval x = sumEvals x items := qsumVals_eval items r x h

/-- the fold of `sum` IS the nested `+` tree `((start + i0) + i1) + …` built by `build` (this is what the driver evaluates for
    the harness' `sum(...)` cases), whenever start and items evaluate -/
theorem sum_is_nested_add (start : SymExpr) (items : List SymExpr) (v : Val) (ws : List Val) (hs : build start = .ok v)
    (hi : List.Forall₂ (fun i w => build i = .ok w) items ws) : build (sumExpr start items) = sumVals v ws :=
  build_sumExpr start items v ws hs hi

/-- non-vacuity: `sum([view, 3, Spin s], start = constant-1 spin BQM)` returns, energy 1 + (2x + 3/2) + 3 + s at x = s = 1 -/
example :
    (match sumVals (.mdl (constBQM .spin 1))
        [.view false ⟨true, .binary, [⟨.str "x", bqmInfo .binary, 2⟩], [], 3/2⟩, .num 3,
         .mdl ⟨false, .spin, [⟨.str "s", bqmInfo .spin, 1⟩], [], 0⟩] with
     | .ok r => some (r.eval fun _ => 1) | .error _ => none) = some (17/2 : Rat) := by
  decide +kernel

/-- **a comparison / constraint built from a view expression** (`view + b <= c`, `a - view >= c`, `view - view == c`, …, then
    `cqm.add_constraint(…)`; a bare `view <= c` is a TypeError as coded: `comparison_view_refused`): the Comparison keeps the
    written sense, its activity `lhs − rhs` is `a(x) ± b(x) − c`, it holds iff the written comparison holds on numbers, and
    the constraint the CQM stores has that activity, sense and rhs. -/
theorem view_comparison_eval (s : Sense) (a b v : Val) (c : Rat) (k : Cmp) (x : Label → Rat)
    (hk : cmpVals s v (.num c) = .ok (some k)) :
    (valAdd a b = .ok v →
      k.sense = s ∧ k.lhs.eval x - k.rhs = a.eval x + b.eval x - c ∧ (k.holds x ↔ s.rel (a.eval x + b.eval x) c) ∧
      (conOfCmp k).activity x = a.eval x + b.eval x - c ∧ (conOfCmp k).sense = s ∧ (conOfCmp k).rhs = c) ∧
    (valSub a b = .ok v →
      k.sense = s ∧ k.lhs.eval x - k.rhs = a.eval x - b.eval x - c ∧ (k.holds x ↔ s.rel (a.eval x - b.eval x) c) ∧
      (conOfCmp k).activity x = a.eval x - b.eval x - c ∧ (conOfCmp k).sense = s ∧ (conOfCmp k).rhs = c) := by
  obtain ⟨h1, h2, h3⟩ := cmp_of_value s v c k x hk
  have hh := (cmpVals_spec s v (.num c) k x hk).2
  constructor
  · intro hv
    have e := valAdd_eval a b v x hv
    refine ⟨h1, by rw [h2, h3, e], ?_, by simp only [Con.activity, conOfCmp, eval_toQM]; rw [h2, h3, e], h1, h2⟩
    rw [hh, e]; rfl
  · intro hv
    have e := valSub_eval a b v x hv
    refine ⟨h1, by rw [h2, h3, e], ?_, by simp only [Con.activity, conOfCmp, eval_toQM]; rw [h2, h3, e], h1, h2⟩
    rw [hh, e]; rfl

/-- non-vacuity: `(objective view 2x + 3/2) - 1 <= 2` is a `Le` whose stored constraint has activity 2 + 3/2 − 1 − 2 at x = 1 -/
example :
    (match valSub (.view true ⟨true, .binary, [⟨.str "x", bqmInfo .binary, 2⟩], [], 3/2⟩) (.num 1) with
     | .ok v => (match cmpVals .le v (.num 2) with
                 | .ok (some k) => some ((conOfCmp k).activity fun _ => 1) | _ => none)
     | .error _ => none) = some (1/2 : Rat) := by
  decide +kernel

/-- **`cqm.set_objective(view op x)` / `add_constraint_from_model(view op x, …)` and reading the new view**: the value of
    `view ± x` / `x ± view` is a model object the CQM accepts; the view read back has, at every sample, the energy
    `a(x) ± b(x)` of the written expression. -/
theorem set_objective_of_view_expr (o : Bool) (a b r : Val) (x : Label → Rat) (hv : a.isView = true ∨ b.isView = true) :
    (valAdd a b = .ok r → ∃ m, setView o r = .ok (.view o m) ∧ m.isQM = true ∧ m.eval x = a.eval x + b.eval x) ∧
    (valSub a b = .ok r → ∃ m, setView o r = .ok (.view o m) ∧ m.isQM = true ∧ m.eval x = a.eval x - b.eval x) := by
  constructor
  · intro h
    have c := valAdd_view_class a b r hv h
    have e := valAdd_eval a b r x h
    cases r with
    | mdl m => exact ⟨m.toQM, rfl, rfl, by simpa [Val.eval, eval_toQM] using e⟩
    | num p => simp [Val.isQMObj] at c
    | view o' m => simp [Val.isQMObj] at c
  · intro h
    have c := valSub_view_class a b r hv h
    have e := valSub_eval a b r x h
    cases r with
    | mdl m => exact ⟨m.toQM, rfl, rfl, by simpa [Val.eval, eval_toQM] using e⟩
    | num p => simp [Val.isQMObj] at c
    | view o' m => simp [Val.isQMObj] at c

/-- **`quicksum` as read from the source** (`harness/translators/sym_folds.py` matches the body of `dimod.quicksum` statement by
    statement and emits what an empty iterable returns, the in-place operator applied per further item, and that the first item
    is deep-copied): the modelled `qsumVals` is exactly that fold — so `quicksum_eval` is a statement about the code's loop. -/
theorem generated_quicksum (vs : List Val) :
    Generated.quicksumDeepcopiesFirst = true ∧
    qsumVals vs = (match vs with
      | [] => .ok (.mdl Generated.quicksumEmpty)
      | .view false _ :: _ => .error .type
      | v :: rest => rest.foldlM Generated.quicksumStep v) := by
  refine ⟨rfl, ?_⟩
  unfold qsumVals Generated.quicksumEmpty Generated.quicksumStep
  rfl

end C06
