import DimodProofs.Pack
import DimodProofs.Vectors
import DimodProofs.CooText
import DimodProofs.BytesDoc
import DimodProofs.PickleReduce
import DimodProofs.CooVars

/-! # C11 — serializable / JSON / pickle / copy round trips

Model: `DimodModel/Pack.lean` (`Pack`), mirror of `dimod/serialization/utils.py`, the sample part of
`SampleSet.to_serializable/from_serializable`, `variables.py:serialize_variable/deserialize_variable`.
`json.dumps/loads` enters as `jsonRT` (tuples become lists, nothing else changes) — a stated
contract of the model; `np.packbits/unpackbits/view` are modelled at bit level. -/

namespace C11
open Pack SSM

/-- `unpack_samples(pack_samples(r), n) = r` for every width `n` (no restriction to multiples of 32),
    any number of rows, including the empty shapes `(0, n)` and `(m, 0)` -/
theorem unpack_pack (rows : List (List Bool)) (n : Nat) (h : ∀ r ∈ rows, r.length = n) :
    unpackSamples (packSamples rows n) n = rows :=
  unpack_pack_samples rows n h

/-- the same for one row, stated without the shape bookkeeping -/
theorem unpack_pack_one_row (bits : List Bool) : unpackRow (packRow bits) bits.length = bits :=
  unpack_pack_row bits

/-- labels: `deserialize_variable(json(serialize_variable(v))) = v` for int, float, string and
    arbitrarily nested tuple labels (the path of `Variables.to_serializable`, of `SampleSet` and — after
    the repair of D13 — of `BQM.from_serializable`) -/
theorem labels_roundtrip (v : PV) (h : isLabel v = true) : deserVar (jsonRT (serVar v)) = v :=
  label_roundtrip v h

theorem label_list_roundtrip (l : List PV) (h : isLabelList l = true) : deserVarList (jsonRTList (serVarList l)) = l :=
  labelList_roundtrip l h

/-- `deserialize_ndarray(json(serialize_ndarray(a))) = a`: dtype class, shape, every element, for any
    shape (0-d, empty, n-d) — floats that hold integers travel as JSON integers and come back -/
theorem ndarray_roundtrip (a : NDArr) (hl : a.data.length = prod a.shape) (hv : ∀ q ∈ a.data, validElem a.kind q) :
    deserializeNd a.kind a.shape (jsonRT (serializeData a)) = a :=
  Pack.ndarray_roundtrip a hl hv

/-- the sample matrix of a sample set survives `to_serializable → json → from_serializable` for every
    vartype (SPIN, BINARY, INTEGER, REAL), dtype class, shape and both values of `pack_samples`.
    This needs `packs vt → vt ∈ {SPIN, BINARY}` — the repaired packing decision (D14). -/
theorem sampleset_roundtrip (vt : VT) (kind : DKind) (packFlag : Bool) (rows : List (List Rat)) (n : Nat)
    (hlen : ∀ r ∈ rows, r.length = n)
    (hvalid : ∀ r ∈ rows, ∀ q ∈ r, validElem kind q)
    (hspin : vt = .spin → ∀ r ∈ rows, ∀ q ∈ r, q = 1 ∨ q = -1)
    (hbin : vt = .binary → ∀ r ∈ rows, ∀ q ∈ r, q = 0 ∨ q = 1) :
    decodeSamples vt n (encodeSamples true vt kind packFlag rows n).json = rows :=
  samples_roundtrip vt kind packFlag rows n hlen hvalid hspin hbin

/-- the repaired decision packs exactly the two-valued vartypes -/
theorem packs_only_two_valued (vt : VT) (packFlag : Bool) :
    packs true vt packFlag = true ↔ (packFlag = true ∧ (vt = .spin ∨ vt = .binary)) := by
  cases vt <;> cases packFlag <;> simp [packs]

/-- `info` (nested dicts / lists / scalars / arrays of any shape) survives
    `serialize_ndarrays → json → deserialize_ndarrays` -/
theorem info_roundtrip (i : Info) (h : goodInfo i) : deserInfo (jsonDoc (serInfo i)) = i :=
  info_rt i h

/-- the vectors form of a BQM (`to_serializable`, `__reduce__`): for any label order the sort produces
    and for both back-ends (Cython `coo_sort`, Python `lexsort`), `from_numpy_vectors(to_numpy_vectors(b))`
    has the same offset, the same linear bias for every variable and the same quadratic bias for every
    pair; the variable that was at index `u` is found at position `order.idxOf u`, whose label is the
    original one — equality up to variable order -/
theorem bqm_vectors_roundtrip (b : BQMIdx) (order : List Nat) (py : Bool)
    (hperm : order.Perm (List.range b.lin.length)) (hq : ∀ t ∈ b.quad, t.1 < b.lin.length ∧ t.2.1 < b.lin.length) :
    (fromVectors (toVectors b order py)).offset = b.offset ∧
    (∀ u, u < b.lin.length → (fromVectors (toVectors b order py)).lin.getD (order.idxOf u) 0 = b.lin.getD u 0) ∧
    (∀ u v, u < b.lin.length → v < b.lin.length →
      coef (fromVectors (toVectors b order py)).quad (order.idxOf u) (order.idxOf v) = coef b.quad u v) :=
  vectors_roundtrip b order py hperm hq

/-- the whole sample set through `to_serializable → json text → from_serializable` (both values of
    `pack_samples`): labels incl. nested tuples, vartype incl. INTEGER and REAL, sample dtype class, every
    sample value, energies, num_occurrences and all other data vectors of any shape, `info` with nested
    arrays.  (`from_serializable` then hands these to `from_samples`, whose label sort moves whole columns:
    C14 `keep_frame` / `fromSamples`.) -/
theorem sampleset_document_roundtrip (s : SSFull) (h : s.Good) (packFlag : Bool) : fromSer (toSer s packFlag).json = s :=
  ssfull_roundtrip s h packFlag

/-- the whole BQM document: the labels come back in the document's (sorted) order, the model is
    `from_numpy_vectors(to_numpy_vectors(…))`, to which `bqm_vectors_roundtrip` applies -/
theorem bqm_document_roundtrip (labels : List PV) (b : BQMIdx) (order : List Nat) (py : Bool)
    (hl : isLabelList labels = true) (hlen : labels.length = b.lin.length) (hperm : order.Perm (List.range b.lin.length)) :
    (bqmFromSer (bqmToSer labels b order py)).1 = order.map (fun i => labels.getD i .none) ∧
    (bqmFromSer (bqmToSer labels b order py)).2 = fromVectors (toVectors b order py) :=
  bqmdoc_roundtrip labels b order py hl hlen hperm

/-- the bytes payload (`use_bytes=True`): `np.frombuffer(arr.tobytes(), dtype)` is the array, for bool and every
    signed / unsigned integer dtype (two's complement, little endian, any item size) — this is also the path of
    bit-packed samples (uint32 words) -/
theorem bytes_payload_roundtrip_int (t : IntType) (data : List Int) (h : ∀ z ∈ data, t.holds z) :
    frombufferInt t (tobytesInt t data) data.length = data :=
  bytes_roundtrip_int t data h

/-- … and for floating dtypes under the stated IEEE contract (decoding inverts encoding on representable values;
    every item occupies `size` bytes): the chunking of the buffer is what is proved -/
theorem bytes_payload_roundtrip_float (c : FloatCodec) (data : List Rat) (h : ∀ q ∈ data, c.representable q) :
    frombufferFloat c (tobytesFloat c data) data.length = data :=
  bytes_roundtrip_float c data h

/-- the `use_bytes=True` document as coded — `dict(type='array', data=arr.tobytes(), data_type, shape, use_bytes=True)` — read
    back by `deserialize_ndarray` (branch on `obj['use_bytes']`, `np.frombuffer` over the whole buffer, `reshape(shape)`): the
    same dtype, shape and every element, for bool and every signed / unsigned integer dtype and any shape (0-d, empty, n-d) -/
theorem bytes_document_roundtrip (a : IntArr) (hs : 0 < a.t.size) (hl : a.data.length = prod a.shape) (h : ∀ z ∈ a.data, a.t.holds z) :
    deserializeArrDoc (serializeArrDoc a true) = some a :=
  bytesdoc_roundtrip a hs hl h

/-- the flag selects the branch: a list under `use_bytes=True` is handed to `np.frombuffer` and refused -/
theorem bytes_document_branch (t : IntType) (shape : List Nat) (v : PV) :
    deserializeArrDoc ⟨"array", .list v, t, shape, true⟩ = none := rfl

/-- COO text: loading the written lines gives, for every label, the printed linear bias if it was
    non-zero and nothing otherwise; for every pair the printed interaction.  Partial: biases are carried
    in millionths (the precision of `%f`), `%f`/`float()` and the line regex are trusted, the offset and
    variables without any non-zero bias are not part of the format. -/
theorem coo_roundtrip_partial (lin : Nat → Int) (nz : Nat → Bool) (quad : Nat → Nat → Option Int)
    (hsym : ∀ a b, quad a b = quad b a) (labels : List Nat) (hnd : labels.Nodup) :
    (∀ u, linSum (cooDump labels lin nz quad) u = if u ∈ labels ∧ nz u = true then lin u else 0) ∧
    (∀ u v, u ≠ v → quadSum (cooDump labels lin nz quad) u v = if u ∈ labels ∧ v ∈ labels then (quad u v).getD 0 else 0) := by
  have hp := List.mergeSort_perm labels (fun a b => decide (a ≤ b))
  have hnd' := hp.nodup_iff.mpr hnd
  refine ⟨fun u => ?_, fun u v huv => ?_⟩
  · rw [cooDump, coo_linear lin nz quad _ hnd' u]; simp only [hp.mem_iff]
  · rw [cooDump, coo_quadratic lin nz quad hsym _ hnd' u v huv]; simp only [hp.mem_iff]

/-- COO writer as coded (pairs `(u, v)` over the *sorted labels*, `v` from `u` on): the lines come out in strictly
    increasing lexicographic order of `(u, v)`, always with the smaller **label** first (upper triangle by label — also
    for labels with gaps or not starting at 0), so no interaction is written twice -/
theorem coo_emission_order (lin : Nat → Int) (nz : Nat → Bool) (quad : Nat → Nat → Option Int) (labels : List Nat) (hnd : labels.Nodup) :
    (cooDump labels lin nz quad).Pairwise tripleLt ∧
    ∀ t ∈ cooDump labels lin nz quad, t.1 ≤ t.2.1 ∧ t.1 ∈ labels ∧ t.2.1 ∈ labels := by
  have hp := List.mergeSort_perm labels (fun a b => decide (a ≤ b))
  obtain ⟨h1, h2⟩ := cooRows_sorted lin nz quad _ (sorted_lt_of_nodup labels hnd)
  exact ⟨h1, fun t ht => ⟨(h2 t ht).1, hp.mem_iff.mp (h2 t ht).2.1, hp.mem_iff.mp (h2 t ht).2.2⟩⟩

/-- the vartype header: written and read back it gives the vartype; an explicit `vartype` argument that agrees is
    accepted, one that disagrees is refused, and without header and argument loading is refused -/
theorem coo_vartype_header (vt vt' : VT) (hne : vt' ≠ vt) :
    cooLoadVartype none (cooHeader true vt) = some vt ∧
    cooLoadVartype (some vt) (cooHeader true vt) = some vt ∧
    cooLoadVartype (some vt) (cooHeader false vt) = some vt ∧
    cooLoadVartype (some vt') (cooHeader true vt) = none ∧
    cooLoadVartype none (cooHeader false vt) = none := by
  refine ⟨by simp [cooHeader, cooLoadVartype], by simp [cooHeader, cooLoadVartype], rfl, ?_, rfl⟩
  simp [cooHeader, cooLoadVartype, Ne.symm hne]

/-- the `sort_indices` block of the Python fallback (object-dtype models, vartype views) **as coded** — swap, one
    `lexsort` permutation applied to the row array, the column array and the bias array: the three sorted arrays zipped
    together are a permutation of the (row ≤ col normalised) input triples, i.e. every bias stays with its own pair.
    `bqm_vectors_roundtrip` (`py = true`) is proved on this form. -/
theorem fallback_sort_keeps_triples (q : QVec) (h1 : q.rows.length = q.cols.length) (h2 : q.cols.length = q.biases.length) :
    (sortIndicesPy q).triples.Perm (cooNormalise q.triples) :=
  sortIndicesPy_perm q h1 h2

/-- `cooLoad` is those sums -/
theorem cooLoad_eq (t : List (Nat × Nat × Int)) : cooLoad t = (linSum t, quadSum t) := rfl

/-! ## COO at text level (`DimodModel/CooText.lean`: `%d` / `%f` as printed characters, both regular expressions of
    `coo.py` as scanners, `int()` / `float()` as decimal parsers, `split('\n')` / `'\n'.join`) -/

section CooTextLevel
open CooText

/-- `int('%d' % n) = n` -/
theorem coo_int_print_parse (n : Nat) : parseNat (natDigits n) = n := parseNat_natDigits n

/-- `float('%f' % x)` is `x` rounded (half-even on the exact value) to six decimals — the printed precision -/
theorem coo_float_print_parse (x : Rat) : parseDec (printF x) = some (mkRat (round6 x) 1000000) := parseDec_printF x

/-- a written line `'%d %d %f' % (u, v, b)` is matched by `_LINE_REGEX` with exactly the three printed fields as groups,
    and is not taken for a vartype header -/
theorem coo_line_regex_on_written_line (t : Nat × Nat × Rat) :
    matchTriple (printLine t) = some (natDigits t.1, natDigits t.2.1, printF t.2.2) ∧ matchHeader (printLine t) = none :=
  ⟨matchTriple_printLine t, matchHeader_printLine t⟩

/-- the header line `# vartype=NAME` is matched by `_VARTYPE_HEADER_REGEX` with group `NAME`, `Vartype[NAME]` is the vartype,
    and the line is not taken for a triple -/
theorem coo_header_regex_on_written_header (vt : VT) :
    matchHeader (headerLine vt) = some (vtName vt) ∧ vtOfName (vtName vt) = some vt ∧ matchTriple (headerLine vt) = none :=
  ⟨header_match vt, vtOfName_vtName vt, header_noTriple vt⟩

/-- `s.split('\n')` undoes `'\n'.join` on the written lines -/
theorem coo_split_join (hdr : Bool) (vt : VT) (labels : List Nat) (lin : Nat → Rat) (quad : Nat → Nat → Option Rat)
    (hne : dumpLines hdr vt labels lin quad ≠ []) :
    splitNl (dumps hdr vt labels lin quad) = dumpLines hdr vt labels lin quad := by
  have hno : ∀ x ∈ dumpLines hdr vt labels lin quad, ∀ c ∈ x, c ≠ '\n' := by
    intro x hx
    simp only [dumpLines, List.mem_append, List.mem_map] at hx
    rcases hx with hx | ⟨t, _, rfl⟩
    · split at hx
      · simp at hx; subst hx; exact headerLine_noNl vt
      · simp at hx
    · exact printLine_noNl t
  rw [dumps]
  cases h : dumpLines hdr vt labels lin quad with
  | nil => exact absurd h hne
  | cons l ls => exact split_join l ls (h ▸ hno)

/-- **`coo.loads(coo.dumps(bqm, vartype_header), vartype)` at text level**, for every BQM labelled with non-negative integers
    (any labels: gaps, any order), both vartypes, with the header or with the `vartype` argument (or both): loading raises
    nothing, gives the vartype of the model, and the mutator calls it makes accumulate to — for every variable the written
    linear bias rounded to six decimals if it was non-zero and nothing otherwise; for every pair the written interaction
    rounded to six decimals.  (Variables whose biases are all absent from the text are not in the format; the offset is
    not in the format.  `float()` is taken as the exact decimal value: see the model header.) -/
theorem coo_text_roundtrip (hdr : Bool) (vt : VT) (arg : Option VT) (labels : List Nat) (lin : Nat → Rat) (quad : Nat → Nat → Option Rat)
    (hnd : labels.Nodup) (hsym : ∀ a b, quad a b = quad b a)
    (hvt : vt = .spin ∨ vt = .binary) (harg : arg = some vt ∨ (arg = none ∧ hdr = true)) :
    ∃ calls, loads arg (dumps hdr vt labels lin quad) = some (vt, calls) ∧
      (∀ u, linOf calls u = if u ∈ labels ∧ lin u ≠ 0 then mkRat (round6 (lin u)) 1000000 else 0) ∧
      (∀ u v, u ≠ v → quadOf calls u v =
        if u ∈ labels ∧ v ∈ labels then ((quad u v).map fun b => mkRat (round6 b) 1000000).getD 0 else 0) := by
  refine ⟨_, loads_dumps hdr vt arg labels lin quad hvt harg, ?_, ?_⟩
  all_goals
    have hp := List.mergeSort_perm labels (fun a b => decide (a ≤ b))
    have hnd' := hp.nodup_iff.mpr hnd
    have hcalls : (triples labels lin quad).map loaded
        = (cooRows (fun u => round6 (lin u)) (fun u => decide (lin u ≠ 0)) (fun u v => (quad u v).map round6)
            (labels.mergeSort fun a b => decide (a ≤ b))).map sc := by
      rw [← rows_r6, List.map_map]; rfl
    rw [hcalls]
  · intro u
    rw [linOf_sc, coo_linear _ _ _ _ hnd' u]
    simp only [hp.mem_iff, decide_eq_true_eq]
    split <;> simp [scale]
  · intro u v huv
    rw [quadOf_sc, coo_quadratic _ _ _ (fun a b => by simp [hsym a b]) _ hnd' u v huv]
    simp only [hp.mem_iff]
    split
    · cases quad u v <;> simp [scale]
    · simp [scale]

/-- a text without header and without `vartype` argument is refused; a `vartype` argument that disagrees with the written
    header is refused -/
theorem coo_text_vartype_refusals (vt vt' : VT) (labels : List Nat) (lin : Nat → Rat) (quad : Nat → Nat → Option Rat) (hne : vt' ≠ vt) :
    loadLines none (dumpLines false vt labels lin quad) = none ∧
    loadLines (some vt') (dumpLines true vt labels lin quad) = none := by
  constructor
  · simp [loadLines, dumpLines, fold_printLines, finishVartype]
  · have hn : ∀ l : List (List Char), List.foldl stepLine none l = none := by
      intro l; induction l with
      | nil => rfl
      | cons a l ih => simpa [stepLine] using ih
    simp [loadLines, dumpLines, stepLine, header_match, vtOfName_vtName, Ne.symm hne, hn]

example : printF (-9/2) = ['-', '4', '.', '5', '0', '0', '0', '0', '0'] := by decide +kernel
example : round6 (1/128) = 7812 ∧ round6 (3/128) = 23438 ∧ round6 (-1/10000000) = 0 := by decide +kernel   -- ties go to even
example : printF (-1/10000000) = ['-', '0', '.', '0', '0', '0', '0', '0', '0'] := by decide +kernel
example : matchTriple ['1', ' ', '2', ' ', '1', 'e', '5'] = none := by decide +kernel        -- exponent forms are not lines
example : matchTriple [' ', '1', '\t', '2', ' ', ' ', '+', '.', '5', ' '] = some (['1'], ['2'], ['+', '.', '5']) := by decide +kernel
example : parseDec ['+', '.', '5'] = some (1/2) := by decide +kernel
example : parseDec ['-'] = none := by decide +kernel

end CooTextLevel

/-! ## witnesses: the code before the repairs -/

/-- D14: the unrepaired decision bit-packs a REAL sample set; `[3.5, -2, 0]` comes back as `[1, 0, 0]` -/
theorem d14_witness :
    decodeSamples .real 3 (encodeSamples false .real .float true [[7/2, -2, 0]] 3).json = [[1, 0, 0]] := by
  decide +kernel

example : decodeSamples .real 3 (encodeSamples true .real .float true [[7/2, -2, 0]] 3).json = [[7/2, -2, 0]] := by
  decide +kernel

/-- D13: converting only the outermost list leaves a list inside the label `('a', (1, 2))` -/
theorem d13_witness :
    deserVarTopOnly (jsonRT (serVar (.tup [.str "a", .tup [.int 1, .int 2]]))) = .tup [.str "a", .list [.int 1, .int 2]] := rfl

example : deserVar (jsonRT (serVar (.tup [.str "a", .tup [.int 1, .int 2]]))) = .tup [.str "a", .tup [.int 1, .int 2]] := rfl

/-! ## non-vacuity -/

example : tobytesInt ⟨2, true⟩ [-2, 258] = [254, 255, 2, 1] := by decide
example : frombufferInt ⟨2, true⟩ [254, 255, 2, 1] 2 = [-2, 258] := by decide
example : packRow [true, false, true] = [5] := by decide
example : packRow (List.replicate 33 true) = [4294967295, 1] := by decide
example : (packSamples [[], []] 0).shape = (2, 0) := by decide
example : unpackRow [5] 3 = [true, false, true] := by decide


/-! ## round 7: pickle at `__reduce__` / `__getstate__` level (`DimodModel/PickleReduce.lean`); the variables of a loaded COO text -/

section round7
open Pack CooText

/-- **`pickle.loads(pickle.dumps(cybqm))` at the level of the tuple `__reduce__` returns**
    (`from_numpy_vectors, (ldata, qdata, off, vartype, labels)` with `to_numpy_vectors(return_labels=True)`, consumed with
    `labels` as `variable_order`): for whatever order the writer lists the variables in (the interactions unsorted, as `sort_indices=False` leaves them), the
    rebuilt model has the vartype, the offset, the same variables (as a permutation), the same linear bias under every label and
    the same quadratic bias under every pair of labels -/
theorem pickle_cybqm_reduce_roundtrip (b : CyBQM) (order : List Nat) (hnd : b.labels.Nodup)
    (hlen : b.labels.length = b.body.lin.length) (hperm : order.Perm (List.range b.labels.length))
    (hq : ∀ t ∈ b.body.quad, t.1 < b.body.lin.length ∧ t.2.1 < b.body.lin.length) :
    (b.pickleRoundTrip order).vt = b.vt ∧ (b.pickleRoundTrip order).body.offset = b.body.offset ∧
    (b.pickleRoundTrip order).labels.Perm b.labels ∧
    (∀ v ∈ b.labels, (b.pickleRoundTrip order).linear v = b.linear v) ∧
    (∀ u ∈ b.labels, ∀ v ∈ b.labels, (b.pickleRoundTrip order).quadratic u v = b.quadratic u v) :=
  pickle_cybqm b order hnd hlen hperm hq

/-- **the Python-level object** (`object.__reduce_ex__`: state = `__dict__`, set back with `__dict__.update`): the rebuilt
    object's `data` is the rebuilt cy model and the bound methods stored by `@forwarding_method` come back under the same names,
    bound to the REBUILT `data` (they are pickled as `getattr(data, name)`), so it reads what the original reads -/
theorem pickle_pyobject_state_roundtrip (o : PyBQM) (order : List Nat) (hnd : o.data.labels.Nodup)
    (hlen : o.data.labels.length = o.data.body.lin.length) (hperm : order.Perm (List.range o.data.labels.length))
    (hq : ∀ t ∈ o.data.body.quad, t.1 < o.data.body.lin.length ∧ t.2.1 < o.data.body.lin.length) :
    (o.getstate order).setstate = ⟨o.data.pickleRoundTrip order, o.fwd⟩ ∧
    (∀ v ∈ o.data.labels, (o.getstate order).setstate.data.linear v = o.data.linear v) ∧
    (∀ u ∈ o.data.labels, ∀ v ∈ o.data.labels, (o.getstate order).setstate.data.quadratic u v = o.data.quadratic u v) :=
  ⟨rfl, (pickle_cybqm o.data order hnd hlen hperm hq).2.2.2.1, (pickle_cybqm o.data order hnd hlen hperm hq).2.2.2.2⟩

/-- **`SampleSet.__getstate__`**: pickling a pending (future-backed, hooked) sample set first resolves it — the state holds the
    record the deferred hook chain produces (or the call raises when a hook does), the `Variables` come back with the same labels in
    the same order, `info` as it is; the rebuilt object is no longer pending, so a second round trip gives the same state -/
theorem pickle_sampleset_state (x : SSM.LSS) (vars : _root_.VState) (info : Info) (hinv : vars.Inv) :
    (ssGetstate x vars info).map (·.record) = x.resolve ∧
    (∀ st, ssGetstate x vars info = some st →
      st.variables.abs = vars.abs ∧ st.variables.Inv ∧ st.info = info ∧
      (ssGetstate (.res st.record) st.variables st.info).map (fun t => (t.record, t.variables.abs, t.info)) =
        some (st.record, vars.abs, info)) := by
  refine ⟨by simp [ssGetstate, Function.comp_def], ?_⟩
  intro st hst
  simp only [ssGetstate, Option.map_eq_some_iff] at hst
  obtain ⟨s, _, rfl⟩ := hst
  have h1 := VState.pickle_spec vars hinv
  have h2 := VState.pickle_spec vars.pickleRoundTrip h1.1
  exact ⟨h1.2, h1.1, rfl, by simp [ssGetstate, SSM.LSS.resolve, h2.2, h1.2]⟩

/-- **the variables of `coo.loads(coo.dumps(bqm))`**: the text is accepted, and a label is a variable of the loaded model iff it
    is a variable of the written one with a non-zero linear bias or an interaction (a variable with zero bias and no interaction
    has no line: it is not in the format) -/
theorem coo_loaded_variables (hdr : Bool) (vt : SSM.VT) (arg : Option SSM.VT) (labels : List Nat) (lin : Nat → Rat) (quad : Nat → Nat → Option Rat)
    (hsym : ∀ a b, quad a b = quad b a) (hvt : vt = .spin ∨ vt = .binary) (harg : arg = some vt ∨ (arg = none ∧ hdr = true)) :
    ∃ calls, loads arg (dumps hdr vt labels lin quad) = some (vt, calls) ∧
      ∀ u, u ∈ varsOf calls ↔ u ∈ labels ∧ (lin u ≠ 0 ∨ ∃ v ∈ labels, v ≠ u ∧ (quad u v).isSome) :=
  ⟨_, loads_dumps hdr vt arg labels lin quad hvt harg, varsOf_loaded labels lin quad hsym⟩

/-- a two-variable model written in the order `[1, 0]` (labels `b`, `a` sorted): the hypotheses are met and the tuple is as coded -/
example : (CyBQM.reduce ⟨[.str "b", .str "a"], .spin, ⟨[1, 2], [(1, 0, 3)], 5⟩⟩ [1, 0]).labels = [.str "a", .str "b"] := by decide +kernel
example : (CyBQM.reduce ⟨[.str "b", .str "a"], .spin, ⟨[1, 2], [(1, 0, 3)], 5⟩⟩ [1, 0]).ldata = [2, 1] := by decide +kernel
example : (CyBQM.pickleRoundTrip ⟨[.str "b", .str "a"], .spin, ⟨[1, 2], [(1, 0, 3)], 5⟩⟩ [1, 0]).linear (.str "b") = 1 := by decide +kernel
example : [1, 0].Perm (List.range 2) := by decide

end round7

end C11
