import Properties.C13
