import Properties.C13
import Properties.C09
import Properties.C10
