import Properties.C13
import Properties.C09
import Properties.C10
import Properties.C06
import Properties.C07
import Properties.C12
