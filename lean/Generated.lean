import Generated.FileConsts
import Generated.LpLabels
