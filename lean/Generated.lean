import Generated.FileConsts
