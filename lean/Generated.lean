import Generated.FileConsts
import Generated.LpLabels
import Generated.Vartype
import Generated.AbcSubst
import Generated.Gates
import Generated.VarsRules
import Generated.SampleArray
