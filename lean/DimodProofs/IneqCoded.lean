import DimodProofs.CqmIneq
import DimodProofs.DqmEnergy

/-! # C16: `BinaryQuadraticModel.add_linear_inequality_constraint` end to end, as coded (core Lean only) -/

namespace Pen

/-! ## the slack labels `slack_<label>_<j>` are pairwise different -/

theorem toString_nat_inj (P : String) (j j' : Nat) (h : P ++ toString j = P ++ toString j') : j = j' := by
  have h1 := congrArg String.toList h
  simp only [String.toList_append, Nat.toString_eq_repr, Nat.toList_repr] at h1
  have h2 := List.append_cancel_left h1
  have e1 := @Nat.ofDigitChars_ten_toDigits j
  have e2 := @Nat.ofDigitChars_ten_toDigits j'
  rw [h2] at e1
  omega

theorem slackLabels_nodup (label : String) (S : Nat) : (slackLabels label S).Nodup := by
  unfold slackLabels
  apply nodup_map_of_injOn _ List.nodup_range
  intro a _ b _ h
  have h' : (toString "slack_" ++ toString label ++ toString "_") ++ toString a
      = (toString "slack_" ++ toString label ++ toString "_") ++ toString b := by
    injection h
  exact toString_nat_inj _ a b h'

/-! ## which branch is taken: the conditions as coded -/

/-- **the four branches, as coded**: with `tu / tl` the sums of the positive / negative coefficients over
    *all* terms, `ub_c = min(tu, ub − c)`, `lb_c = max(tl, lb − c)`:
    warning-and-skip iff `tu ≤ ub_c ∧ tl ≥ lb_c`; otherwise `ValueError` iff `ub_c < lb_c`; otherwise the
    equality short-cut iff the *tightened* range is empty, `ub_c = lb_c` (not `lb = ub`); otherwise slack
    variables for `0 … ub_c − lb_c` -/
theorem ineq_plan_as_coded (coeffs : List Int) (c lb ub : Int) (tu tl ubc lbc : Int)
    (htu : tu = sumPos coeffs) (htl : tl = sumNeg coeffs) (hubc : ubc = min tu (ub - c)) (hlbc : lbc = max tl (lb - c)) :
    (ineqPlan coeffs c lb ub = .skip ↔ (tu ≤ ubc ∧ tl ≥ lbc))
    ∧ (ineqPlan coeffs c lb ub = .infeasible ↔ (¬ (tu ≤ ubc ∧ tl ≥ lbc) ∧ ubc < lbc))
    ∧ (∀ u, ineqPlan coeffs c lb ub = .equality u ↔ (¬ (tu ≤ ubc ∧ tl ≥ lbc) ∧ ubc = lbc ∧ u = ubc))
    ∧ (∀ u l S, ineqPlan coeffs c lb ub = .slack u l S ↔
        (¬ (tu ≤ ubc ∧ tl ≥ lbc) ∧ lbc < ubc ∧ u = ubc ∧ l = lbc ∧ (S : Int) = ubc - lbc)) := by
  subst htu htl
  have hdef : ineqPlan coeffs c lb ub =
      if sumPos coeffs ≤ ubc ∧ sumNeg coeffs ≥ lbc then .skip
      else if ubc < lbc then .infeasible
      else if (ubc - lbc).toNat = 0 then .equality ubc
      else .slack ubc lbc (ubc - lbc).toNat := by
    unfold ineqPlan; simp only; rw [← hubc, ← hlbc]
  rw [hdef]
  by_cases h1 : sumPos coeffs ≤ ubc ∧ sumNeg coeffs ≥ lbc
  · rw [if_pos h1]
    refine ⟨⟨fun _ => h1, fun _ => rfl⟩, ⟨fun h => (by cases h), fun h => absurd h1 h.1⟩, fun u => ⟨fun h => (by cases h), fun h => absurd h1 h.1⟩,
      fun u l S => ⟨fun h => (by cases h), fun h => absurd h1 h.1⟩⟩
  · rw [if_neg h1]
    by_cases h2 : ubc < lbc
    · rw [if_pos h2]
      refine ⟨⟨fun h => (by cases h), fun h => absurd h h1⟩, ⟨fun _ => ⟨h1, h2⟩, fun _ => rfl⟩, fun u => ⟨fun h => (by cases h), fun h => (by omega)⟩,
        fun u l S => ⟨fun h => (by cases h), fun h => (by omega)⟩⟩
    · rw [if_neg h2]
      by_cases h3 : (ubc - lbc).toNat = 0
      · rw [if_pos h3]
        refine ⟨⟨fun h => (by cases h), fun h => absurd h h1⟩, ⟨fun h => (by cases h), fun h => absurd h.2 h2⟩, fun u => ⟨?_, ?_⟩,
          fun u l S => ⟨fun h => (by cases h), fun h => (by omega)⟩⟩
        · intro h; injection h with h; subst h; exact ⟨h1, by omega, rfl⟩
        · rintro ⟨_, _, h⟩; rw [h]
      · rw [if_neg h3]
        refine ⟨⟨fun h => (by cases h), fun h => absurd h h1⟩, ⟨fun h => (by cases h), fun h => absurd h.2 h2⟩,
          fun u => ⟨fun h => (by cases h), fun h => (by omega)⟩, fun u l S => ⟨?_, ?_⟩⟩
        · intro h; injection h with h4 h5 h6; subst h4 h5 h6; exact ⟨h1, by omega, rfl, rfl, by omega⟩
        · rintro ⟨_, h4, h5, h6, h7⟩
          have : S = (ubc - lbc).toNat := by omega
          rw [h5, h6, this]

/-! ## the BQM method end to end -/

theorem ratTerms_eq {α : Type} (terms : List (α × Int)) : ratTerms terms = castTerms terms := rfl

/-- **`BQM.add_linear_inequality_constraint` (BINARY model, `cross_zero=False`, integer data, `λ ≥ 0`), every
    outcome as coded.**  `Feasible z` is `lb ≤ Σ aᵢ·z(vᵢ) + c ≤ ub`.
    * warning, nothing added: every 0/1 sample is feasible;
    * `ValueError`: no 0/1 sample is feasible;
    * otherwise, with `pen z` the value of the calls made on the model (the energy added): `pen ≥ 0`
      everywhere; `pen ≥ λ` at every infeasible 0/1 sample whatever the slack bits; at every feasible 0/1
      sample the returned slack variables — and only they — can be set so that `pen = 0`.  In the
      equality short-cut no slack variable is returned and `pen = 0` exactly on the feasible samples.
    The returned slack labels are `slack_<label>_0 …`, pairwise distinct; hypothesis: none of them is a
    variable of `terms` (the code does not check this). -/
theorem bqmIneq_spec (label : String) (terms : List (Label × Int)) (lam : Rat) (hlam : 0 ≤ lam) (c lb ub : Int)
    (hfresh : ∀ S, ∀ t ∈ terms, t.1 ∉ slackLabels label S) :
    match bqmIneq label terms lam c lb ub false with
    | .skipped => ∀ z, Bin01 z → Feasible z terms c lb ub
    | .raises => ∀ z, Bin01 z → ¬ Feasible z terms c lb ub
    | .err => False
    | .ok bag sl =>
      (sl.map (·.1)).Nodup ∧ (∀ t ∈ terms, t.1 ∉ sl.map (·.1))
      ∧ ∀ z, Bin01 z →
        0 ≤ evalBag (toRat z) bag
        ∧ (¬ Feasible z terms c lb ub → lam ≤ evalBag (toRat z) bag)
        ∧ (Feasible z terms c lb ub →
            ∃ z', Bin01 z' ∧ (∀ v, v ∉ sl.map (·.1) → z' v = z v) ∧ evalBag (toRat z') bag = 0) := by
  unfold bqmIneq
  cases hp : ineqPlan (terms.map (·.2)) c lb ub with
  | skip => exact fun z hz => (ineq_plan_refusal terms c lb ub z hz).2 hp
  | infeasible => exact fun z hz => (ineq_plan_refusal terms c lb ub z hz).1 hp
  | equality ubc =>
    simp only
    refine ⟨by simp, by simp, ?_⟩
    intro z hz
    have h := ineq_bqm_equality terms c lb ub lam hlam ubc hp z hz
    simp only at h
    rw [ratTerms_eq]
    by_cases hf : Feasible z terms c lb ub
    · have h0 := h.1 hf
      refine ⟨by rw [h0]; exact Rat.le_refl, fun hn => absurd hf hn, fun _ => ⟨z, hz, fun _ _ => rfl, h0⟩⟩
    · have h1 := h.2 hf
      exact ⟨Rat.le_trans hlam h1, fun _ => h1, fun hf' => absurd hf' hf⟩
  | slack ubc lbc S =>
    simp only
    have hsl : bqmSlack label ubc lbc S false = slackTerms (slackLabels label S) S := bqmSlack_eq label ubc lbc S
    have hlabels : (slackTerms (slackLabels label S) S).map (·.1) = slackLabels label S := by
      unfold slackTerms
      rw [List.map_fst_zip]
      simp [slackLabels_length]
    rw [hsl, hlabels]
    refine ⟨slackLabels_nodup label S, hfresh S, ?_⟩
    intro z hz
    have hev : ∀ z' : Label → Int,
        evalBag (toRat z') ((slackTerms (slackLabels label S) S).map (fun p => PTerm.lin p.1 0)
          ++ eqTermsCy .binary (ratTerms (terms ++ slackTerms (slackLabels label S) S)) lam (((-ubc : Int)) : Rat))
        = slackPenalty terms (slackLabels label S) S ubc lam z' := by
      intro z'
      rw [evalBag_append, touch_eval]
      unfold slackPenalty
      rw [ratTerms_eq]; grind
    have h := ineq_bqm_slack terms c lb ub lam hlam ubc lbc S hp (slackLabels label S) (slackLabels_length label S)
      (slackLabels_nodup label S) (hfresh S) z hz
    rw [hev z]
    refine ⟨h.1, h.2.1, fun hf => ?_⟩
    obtain ⟨z', hz', hag, h0⟩ := h.2.2 hf
    exact ⟨z', hz', hag, by rw [hev z']; exact h0⟩

end Pen
