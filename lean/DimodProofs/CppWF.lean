import DimodProofs.QmWF
import DimodModel.Cpp

/-! The representation invariant of the index-level C++ model (`CppM`: what the op-sequence interpreter of C20
    drives) is preserved by the header methods *within their documented preconditions* (indices
    `< num_variables()`).  Core Lean only. -/

namespace Bqm

theorem nbhCoef_filter_lt (nb : List (Nat × Rat)) (k y : Nat) :
    nbhCoef (nb.filter fun p => p.1 < k) y = if y < k then nbhCoef nb y else none := by
  induction nb with
  | nil => simp [nbhCoef]
  | cons p t ih =>
    obtain ⟨w, c⟩ := p
    by_cases hw : w < k
    · have hd : decide (w < k) = true := by simp [hw]
      simp only [List.filter, hd, nbhCoef]
      by_cases hwy : w = y
      · subst hwy; simp [hw]
      · simp only [hwy, if_false]; exact ih
    · have hd : decide (w < k) = false := by simp [hw]
      simp only [List.filter, hd, nbhCoef]
      rw [ih]
      by_cases hwy : w = y
      · subst hwy; simp [hw]
      · simp [hwy]

/-- `resize(k)` on the adjacency: drop entries `≥ k`, keep `k` rows, pad with empty rows -/
def adjResize (adj : AdjT) (k : Nat) : AdjT :=
  let a := (adj.map fun nb => nb.filter fun p => p.1 < k).take k
  a ++ List.replicate (k - a.length) []

theorem getD_adjResize (adj : AdjT) (k u : Nat) :
    (adjResize adj k).getD u [] = if u < k then (adj.getD u []).filter (fun p => p.1 < k) else [] := by
  unfold adjResize
  simp only []
  by_cases hu : u < k
  · simp only [hu, if_true]
    rcases Nat.lt_or_ge u adj.length with h1 | h1
    · have hlt : u < ((adj.map fun nb => nb.filter fun p => p.1 < k).take k).length := by simp; omega
      simp [List.getD, List.getElem?_append_left hlt, List.getElem?_take, hu, List.getElem?_eq_getElem h1]
    · have hge : ((adj.map fun nb => nb.filter fun p => p.1 < k).take k).length ≤ u := by simp; omega
      rw [getD_of_ge adj [] u h1]
      simp only [List.getD, List.getElem?_append_right hge, List.getElem?_replicate]
      split <;> rfl
  · simp only [hu, if_false]
    apply getD_of_ge
    simp; omega

theorem coefAt_adjResize (adj : AdjT) (k x y : Nat) :
    coefAt (adjResize adj k) x y = if x < k ∧ y < k then coefAt adj x y else none := by
  unfold coefAt
  rw [getD_adjResize]
  by_cases hx : x < k
  · simp only [hx, if_true, true_and, nbhCoef_filter_lt]
  · simp [hx, nbhCoef]

theorem AdjWF.adjResize {n adj l} (h : AdjWF n adj l) (k : Nat) : AdjWF k (adjResize adj k) l where
  len := by unfold Bqm.adjResize; simp; omega
  sorted := by
    intro u; rw [getD_adjResize]
    split
    · exact List.Pairwise.filter _ (h.sorted u)
    · simp [NbSorted]
  bound := by
    intro x y hs
    rw [coefAt_adjResize] at hs
    split at hs
    · rename_i hc; exact hc.2
    · simp at hs
  symm := by
    intro x y
    rw [coefAt_adjResize, coefAt_adjResize]
    by_cases hc : x < k ∧ y < k
    · have hc' : y < k ∧ x < k := ⟨hc.2, hc.1⟩
      simp only [hc, hc', if_true]; exact h.symm x y
    · have hc' : ¬ (y < k ∧ x < k) := fun hh => hc ⟨hh.2, hh.1⟩
      simp [hc, hc']
  noself := by
    intro x hx
    rw [coefAt_adjResize]
    split
    · exact h.noself x hx
    · rfl

end Bqm

namespace CppM
open Bqm

/-- self-loops only where the variable is INTEGER / REAL -/
def loopOK (m : CppM) (u : Nat) : Bool := !(Qm.isBin (m.vtOf u))

structure WF (m : CppM) : Prop where
  adj : AdjWF m.q.lin.length m.q.adj m.loopOK
  info : m.bvt = none → m.q.vt.length = m.q.lin.length ∧ m.q.lb.length = m.q.lin.length ∧ m.q.ub.length = m.q.lin.length
  /-- a `BinaryQuadraticModel` is SPIN or BINARY -/
  bin : ∀ t, m.bvt = some t → Qm.isBin t = true

theorem WF.newBqm (t : QVT) (n : Nat) (ht : Qm.isBin t = true) : WF (CppM.newBqm t n) := by
  refine ⟨?_, (by intro h; cases h), (by intro t' h; cases h; exact ht)⟩
  show AdjWF (List.replicate n (0 : Rat)).length (List.replicate n []) _
  refine ⟨by simp, ?_, ?_, ?_, ?_⟩
  · intro u; simp [List.getD, NbSorted]
    cases h : (List.replicate n ([] : List (Nat × Rat)))[u]? with
    | none => simp
    | some nb =>
      have := List.mem_of_getElem? h
      rw [List.mem_replicate] at this; rw [this.2]; simp
  · intro x y hs
    have : (List.replicate n ([] : List (Nat × Rat))).getD x [] = [] := by
      simp only [List.getD]
      cases h : (List.replicate n ([] : List (Nat × Rat)))[x]? with
      | none => rfl
      | some nb =>
        have := List.mem_of_getElem? h
        rw [List.mem_replicate] at this; simp [this.2]
    unfold coefAt at hs; rw [this] at hs; simp [nbhCoef] at hs
  · intro x y
    have e : ∀ z, (List.replicate n ([] : List (Nat × Rat))).getD z [] = [] := by
      intro z
      simp only [List.getD]
      cases h : (List.replicate n ([] : List (Nat × Rat)))[z]? with
      | none => rfl
      | some nb =>
        have := List.mem_of_getElem? h
        rw [List.mem_replicate] at this; simp [this.2]
    unfold coefAt; rw [e x, e y]; rfl
  · intro x _
    have e : (List.replicate n ([] : List (Nat × Rat))).getD x [] = [] := by
      simp only [List.getD]
      cases h : (List.replicate n ([] : List (Nat × Rat)))[x]? with
      | none => rfl
      | some nb =>
        have := List.mem_of_getElem? h
        rw [List.mem_replicate] at this; simp [this.2]
    unfold coefAt; rw [e]; rfl

/-- a model that differs from a well-formed one only in linear biases (same number), offset and an adjacency that is
    well-formed for the same vartypes -/
theorem WF.same {m m' : CppM} (h : WF m) (hb : m'.bvt = m.bvt) (hvt : m'.q.vt = m.q.vt) (hlb : m'.q.lb = m.q.lb)
    (hub : m'.q.ub = m.q.ub) (hlen : m'.q.lin.length = m.q.lin.length) (hadj : AdjWF m.q.lin.length m'.q.adj m.loopOK) : WF m' := by
  have hl : m'.loopOK = m.loopOK := by
    funext u; unfold CppM.loopOK CppM.vtOf Qm.vtAt; rw [hb, hvt]
  refine ⟨by rw [hlen, hl]; exact hadj, ?_, ?_⟩
  · intro e; rw [hb] at e
    have := h.info e
    rw [hvt, hlb, hub, hlen]; exact this
  · intro t e; rw [hb] at e; exact h.bin t e

theorem WF.newQm : WF CppM.newQm := ⟨AdjWF.nil _, fun _ => ⟨rfl, rfl, rfl⟩, by intro t h; cases h⟩

theorem WF.withLin {m : CppM} (h : WF m) (i : Nat) (f : Rat → Rat) : WF (m.withLin (modifyAt · i f)) :=
  h.same rfl rfl rfl rfl (by show (modifyAt m.q.lin i f).length = _; simp) h.adj

theorem WF.withOff {m : CppM} (h : WF m) (f : Rat → Rat) : WF (m.withOff f) := ⟨h.adj, h.info, h.bin⟩

/-- `add_quadratic` / `set_quadratic` with `u, v < num_variables()` (a raising `set_quadratic(u, u)` changes nothing) -/
theorem WF.quad {m : CppM} (h : WF m) (u v : Nat) (b : Rat) (set : Bool) (hu : u < m.q.lin.length) (hv : v < m.q.lin.length) :
    WF (m.quad u v b set).1 := by
  unfold CppM.quad
  by_cases huv : u = v
  · subst huv
    simp only [if_true]
    cases hvt : m.vtOf u with
    | binary => cases set <;> simp only [Bool.false_eq_true, if_false, if_true] <;> first | exact h | exact h.withLin _ _
    | spin => cases set <;> simp only [Bool.false_eq_true, if_false, if_true] <;> first | exact h | exact h.withOff _
    | integer =>
      exact h.same rfl rfl rfl rfl rfl (h.adj.selfLoop u b set hu (by unfold CppM.loopOK; rw [hvt]; rfl))
    | real =>
      exact h.same rfl rfl rfl rfl rfl (h.adj.selfLoop u b set hu (by unfold CppM.loopOK; rw [hvt]; rfl))
  · simp only [huv, if_false]
    exact h.same rfl rfl rfl rfl rfl (h.adj.adjSym u v b set hu hv huv)

theorem WF.removeInteraction {m : CppM} (h : WF m) (u v : Nat) (hu : u < m.q.lin.length) (hv : v < m.q.lin.length) :
    WF (m.removeInteraction u v).1 := by
  unfold CppM.removeInteraction
  cases nbhCoef (m.q.adj.getD u []) v with
  | none => exact h
  | some c =>
    simp only []
    split
    · exact h.same rfl rfl rfl rfl rfl (h.adj.dropSelf u hu)
    · exact h.same rfl rfl rfl rfl rfl (h.adj.adjDrop u v hu hv)

theorem WF.removeAt {m : CppM} (h : WF m) (vi : Nat) (hvi : vi < m.q.lin.length) : WF (m.removeAt vi) := by
  have hl : (eraseIdx m.q.lin vi).length = m.q.lin.length - 1 := length_eraseIdx _ _ hvi
  unfold CppM.removeAt
  cases hb : m.bvt with
  | some t =>
    simp only []
    refine ⟨?_, (by intro e; cases e), (by intro t' e; cases e; exact h.bin t hb)⟩
    show AdjWF (eraseIdx m.q.lin vi).length (adjRemove m.q.adj vi) _
    rw [hl]
    refine (h.adj.adjRemove vi hvi).congr_loop ?_
    intro u hu; left
    unfold CppM.loopOK CppM.vtOf at hu ⊢
    simp only [hb] at hu ⊢; exact hu
  | none =>
    simp only []
    have hi := h.info hb
    have e (l : List Rat) (hh : l.length = m.q.lin.length) : (eraseIdx l vi).length = (eraseIdx m.q.lin vi).length := by
      rw [hl, length_eraseIdx _ _ (by rw [hh]; exact hvi), hh]
    refine ⟨?_, fun _ => ⟨?_, e _ hi.2.1, e _ hi.2.2⟩, (by intro t e; cases e)⟩
    · show AdjWF (eraseIdx m.q.lin vi).length (adjRemove m.q.adj vi) _
      rw [hl]
      refine (h.adj.adjRemove vi hvi).congr_loop ?_
      intro u hu; left
      unfold CppM.loopOK CppM.vtOf Qm.vtAt at hu ⊢
      simp only [hb] at hu ⊢
      have : (eraseIdx m.q.vt vi).getD u QVT.binary = m.q.vt.getD (skip vi u) QVT.binary := getD_eraseIdx _ _ _ _
      rw [← this]; exact hu
    · show (eraseIdx m.q.vt vi).length = (eraseIdx m.q.lin vi).length
      rw [hl, length_eraseIdx _ _ (by rw [hi.1]; exact hvi), hi.1]

theorem WF.scale {m : CppM} (h : WF m) (s : Rat) : WF (m.scale s) :=
  h.same rfl rfl rfl rfl (by show (m.q.lin.map (· * s)).length = _; simp) (h.adj.adjScale s)

theorem WF.fix {m : CppM} (h : WF m) (v : Nat) (a : Rat) (hv : v < m.q.lin.length) : WF (m.fix v a) := by
  unfold CppM.fix
  have hlen : ∀ (nb : List (Nat × Rat)) (lin : List Rat),
      (nb.foldl (fun l p => modifyAt l p.1 (· + p.2 * a)) lin).length = lin.length := by
    intro nb; induction nb with
    | nil => intro lin; rfl
    | cons p t ih => intro lin; simp only [List.foldl]; rw [ih]; simp
  simp only []
  have h1 : WF { m with q := { m.q with lin := (m.q.adj.getD v []).foldl (fun l p => modifyAt l p.1 (· + p.2 * a)) m.q.lin,
                                        off := m.q.off + a * ((m.q.adj.getD v []).foldl (fun l p => modifyAt l p.1 (· + p.2 * a)) m.q.lin).getD v 0 } } :=
    h.same rfl rfl rfl rfl (hlen _ _) h.adj
  exact h1.removeAt v (by show v < ((m.q.adj.getD v []).foldl _ m.q.lin).length; rw [hlen]; exact hv)

theorem WF.substituteAll {m : CppM} (h : WF m) (a c : Rat) : WF (m.substituteAll a c) := by
  have hlen : ((m.q.lin.map (· * a)).zip m.q.adj).length = m.q.lin.length := by
    simp [List.length_zip, h.adj.len]
  refine h.same rfl rfl rfl rfl ?_ (h.adj.adjScale (a * a))
  show (List.map _ ((m.q.lin.map (· * a)).zip m.q.adj)).length = _
  rw [List.length_map, hlen]

theorem WF.clear {m : CppM} (h : WF m) : WF m.clear := ⟨AdjWF.nil _, fun _ => ⟨rfl, rfl, rfl⟩, h.bin⟩

/-- `resize(k)` of a BQM (any `k`) -/
theorem WF.baseResize_bqm {m : CppM} (h : WF m) (k : Nat) (t : QVT) (hb : m.bvt = some t) : WF (m.baseResize k) := by
  refine ⟨?_, (by intro e; rw [show (m.baseResize k).bvt = m.bvt from rfl, hb] at e; cases e), h.bin⟩
  show AdjWF (m.q.lin.take k ++ List.replicate (k - m.q.lin.length) 0).length (adjResize m.q.adj k) _
  have : (m.q.lin.take k ++ List.replicate (k - m.q.lin.length) (0 : Rat)).length = k := by simp; omega
  rw [this]
  refine (h.adj.adjResize k).congr_loop ?_
  intro u hu; left
  unfold CppM.loopOK CppM.vtOf at hu ⊢
  simp only [show (m.baseResize k).bvt = m.bvt from rfl, hb] at hu ⊢; exact hu

/-- `add_variable()` of a BQM -/
theorem WF.addVar_bqm {m : CppM} (h : WF m) (t : QVT) (hb : m.bvt = some t) : WF (m.addVar none) := by
  refine ⟨?_, (by intro e; rw [show (m.addVar none).bvt = m.bvt from rfl, hb] at e; cases e), h.bin⟩
  show AdjWF (m.q.lin ++ [0]).length (m.q.adj ++ [[]]) _
  rw [List.length_append]
  refine (h.adj.push).congr_loop ?_
  intro u hu; left
  unfold CppM.loopOK CppM.vtOf at hu ⊢
  simp only [show (m.addVar none).bvt = m.bvt from rfl, hb] at hu ⊢; exact hu

/-- `change_vartype(vartype)` of a BQM -/
theorem WF.changeVartype_bqm {m : CppM} (h : WF m) (t cur : QVT) (hb : m.bvt = some cur) (ht : Qm.isBin t = true) :
    WF (m.changeVartype t 0).1 := by
  unfold CppM.changeVartype
  rw [hb]
  simp only []
  split
  · exact h
  · have key : ∀ (a c : Rat) (t' : QVT), Qm.isBin t' = true → WF { (m.substituteAll a c) with bvt := some t' } := by
      intro a c t' ht'
      have s := h.substituteAll a c
      refine ⟨?_, (by intro e; cases e), (by intro t'' e; cases e; exact ht')⟩
      refine s.adj.congr_loop ?_
      intro u hu; left
      unfold CppM.loopOK CppM.vtOf
      have hcur := h.bin cur hb
      show (!Qm.isBin (match (m.substituteAll a c).bvt with | some t => t | none => (m.substituteAll a c).q.vtAt u)) = false
      rw [show (m.substituteAll a c).bvt = m.bvt from rfl, hb]; simp [hcur]
    cases t with
    | spin => exact key _ _ _ rfl
    | binary => exact key _ _ _ rfl
    | integer => cases ht
    | real => cases ht

end CppM
