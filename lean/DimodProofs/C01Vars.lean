import DimodModel.EnergyVars
import DimodProofs.C01Loops
import DimodProofs.VarsInv

/-! # C01 — the column used for a model variable is the column labelled with that variable (sparse `Variables` objects) -/

namespace En

variable {R : Type}

/-- `Variables.index` agrees with the position in the label list -/
theorem index?_eq_indexOf? (sv : VState) (h : sv.Inv) (v : Label) : sv.index? v = indexOf? sv.abs v := by
  cases hi : sv.index? v with
  | none =>
    have := (VState.index?_eq_none_iff sv h v).mp hi
    exact ((indexOf?_none sv.abs v).mpr this).symm
  | some i =>
    have hat := (VState.index?_eq_some_iff sv h v i).mp hi
    have hmem : v ∈ sv.abs := List.mem_of_getElem? hat
    obtain ⟨j, hj⟩ := indexOf?_of_mem sv.abs v hmem
    rw [hj, indexOf?_unique sv.abs (VState.abs_nodup sv h) v j i hj hat]

theorem qmToSampleVGo_eq (sv : VState) (h : sv.Inv) (ml : List Label) : qmToSampleVGo sv ml = qmToSample ml sv.abs := by
  induction ml with
  | nil => rfl
  | cons v vs ih =>
    simp only [qmToSampleVGo, qmToSample, index?_eq_indexOf? sv h v, ih]
    cases indexOf? sv.abs v with
    | none => rfl
    | some i => cases qmToSample vs sv.abs <;> rfl

/-- the resolution through the sparse maps (`at`, `count`, `_is_range` fast path, `_label_to_index` lookup with identity
    default) is the resolution by label lists: model variable `u` (label `mv.abs[u]`) is read from the sample column whose
    label is that label — whatever the order in which the model stores its variables and whatever the order (or
    range-ness) of the sample labels -/
theorem qmToSampleV_eq (mv sv : VState) (hs : sv.Inv) : qmToSampleV mv sv = qmToSample mv.abs sv.abs := by
  unfold qmToSampleV
  exact qmToSampleVGo_eq sv hs _

variable [CommRing R]

theorem cyEnergiesV_eq (m : QMB R) (mv sv : VState) (hs : sv.Inv) (samples : List (List R)) :
    cyEnergiesV m mv samples sv = cyEnergies m mv.abs samples sv.abs := by
  unfold cyEnergiesV cyEnergies
  rw [qmToSampleV_eq mv sv hs, VState.abs_length]
  split
  · rfl
  · cases qmToSample mv.abs sv.abs <;> rfl

end En
