import DimodProofs.MultNames

/-! # C17: `multiplication_circuit(n, m)`, `n, m ≥ 2`: for all operands the internal wires can be set so that
    every gate is satisfied (core Lean only) -/

namespace Gen
open Pen

/-! ## the wire names as coded are the names of `W` -/

theorem one_name (pre : String) (c : Char) (hp : pre = String.ofList [c]) (k : Nat) :
    toString pre ++ toString k = String.ofList (c :: dig k) := by
  subst hp
  have : (c :: dig k) = [c] ++ dig k := rfl
  rw [this, String.ofList_append, Nat.toString_eq_ofList_toDigits]; rfl

theorem aLabel_name (i : Nat) : aLabel i = (W.a i).name := by
  show strLabel (toString "a" ++ toString i) = _
  rw [one_name "a" 'a' (by decide)]; rfl

theorem bLabel_name (j : Nat) : bLabel j = (W.b j).name := by
  show strLabel (toString "b" ++ toString j) = _
  rw [one_name "b" 'b' (by decide)]; rfl

theorem pLabel_name (k : Nat) : pLabel k = (W.p k).name := by
  show strLabel (toString "p" ++ toString k) = _
  rw [one_name "p" 'p' (by decide)]; rfl

theorem two_name (pre : String) (cs : List Char) (hp : pre = String.ofList cs) (i j : Nat) :
    toString pre ++ toString i ++ toString "," ++ toString j = String.ofList (cs ++ (dig i ++ ',' :: dig j)) := by
  subst hp
  simp only [String.ofList_append, Nat.toString_eq_ofList_toDigits, dig]
  show String.ofList cs ++ String.ofList (Nat.toDigits 10 i) ++ "," ++ String.ofList (Nat.toDigits 10 j) = _
  have : (',' :: Nat.toDigits 10 j) = [','] ++ Nat.toDigits 10 j := rfl
  rw [this, String.ofList_append]
  have : String.ofList [','] = "," := by decide
  rw [this]
  simp only [String.append_assoc]

theorem mcAND_name (i j : Nat) : mcAND i j = if i ≠ 0 ∨ j ≠ 0 then (W.and i j).name else (W.p 0).name := by
  unfold mcAND
  split
  · show strLabel (toString "and" ++ toString i ++ toString "," ++ toString j) = _
    rw [two_name "and" ['a', 'n', 'd'] (by decide)]; rfl
  · rfl

theorem mcSUM_name (n i j : Nat) :
    mcSUM n i j = if j = 0 then (W.p i).name else if i = n - 1 then (W.p (i + j)).name else (W.sum i j).name := by
  unfold mcSUM
  split
  · exact pLabel_name i
  · split
    · exact pLabel_name (i + j)
    · show strLabel (toString "sum" ++ toString i ++ toString "," ++ toString j) = _
      rw [two_name "sum" ['s', 'u', 'm'] (by decide)]; rfl

theorem mcCARRY_name (n m i j : Nat) :
    mcCARRY n m i j = if i + j = n + m - 2 then (W.p (n + m - 1)).name else (W.carry i j).name := by
  unfold mcCARRY
  split
  · exact pLabel_name (n + m - 1)
  · show strLabel (toString "carry" ++ toString i ++ toString "," ++ toString j) = _
    rw [two_name "carry" ['c', 'a', 'r', 'r', 'y'] (by decide)]; rfl

/-! ## the converse of `cell_sat`: the two equations make every gate of the cell hold -/

theorem cell_sat_conv (n m i j : Nat) (hm : 2 ≤ m) (hj : j < m) (x : Label → Rat)
    (hand : x (mcAND i j) = x (aLabel i) * x (bLabel j))
    (hadd : 1 ≤ i →
        x (mcAND i j)
          + (if j < m - 1 then (if i > 1 then x (mcSUM n (i - 1) (j + 1)) else x (mcAND 0 (j + 1)))
             else (if i > 1 then x (mcCARRY n m (i - 1) j) else 0))
          + (if j = 0 then 0 else x (mcCARRY n m i (j - 1)))
        = x (mcSUM n i j) + 2 * x (mcCARRY n m i j)) :
    ∀ g ∈ mcGate n m i j, g.1.rel (g.2.map x) = true := by
  have handrel : GateKind.and.rel ([strLabel s!"a{i}", strLabel s!"b{j}", mcAND i j].map x) = true := by
    simp only [GateKind.rel, g0, List.map_cons, List.map_nil, List.getD_cons_zero, List.getD_cons_succ, beq_rat]
    exact hand
  by_cases hi : i = 0
  · have hins : mcInputs n m i j = [mcAND i j] := by unfold mcInputs; simp [hi]
    intro g hg
    unfold mcGate mcGateOf at hg
    simp only [hins, List.length_singleton, (by decide : ¬ ((1 : Nat) = 2)), (by decide : ¬ ((1 : Nat) = 3)), if_false, List.mem_singleton] at hg
    subst hg; exact handrel
  · have hi1 : 1 ≤ i := by omega
    have hadd := hadd hi1
    by_cases hj0 : j = 0
    · have hjm : j < m - 1 := by omega
      have hins : mcInputs n m i j = [mcAND i j, if i > 1 then mcSUM n (i - 1) (j + 1) else mcAND 0 (j + 1)] := by
        unfold mcInputs
        have : i > 0 := by omega
        have hm0 : ¬ (m - 1 = 0) := by omega
        subst hj0
        simp [this, hm0]
      intro g hg
      unfold mcGate mcGateOf at hg
      simp only [hins, List.length_cons, List.length_nil, if_true, List.mem_cons, List.not_mem_nil, or_false] at hg
      rcases hg with rfl | rfl
      · exact handrel
      · simp only [GateKind.rel, g0, List.map_cons, List.map_nil, List.cons_append, List.nil_append, List.getD_cons_zero, List.getD_cons_succ, beq_rat]
        simp only [hjm, hj0, if_true] at hadd
        by_cases h1 : i > 1
        · simp only [h1, if_true] at hadd ⊢; grind
        · simp only [h1, if_false] at hadd ⊢; grind
    · by_cases hjm : j < m - 1
      · have hins : mcInputs n m i j = [mcAND i j, if i > 1 then mcSUM n (i - 1) (j + 1) else mcAND 0 (j + 1), mcCARRY n m i (j - 1)] := by
          unfold mcInputs
          have : i > 0 := by omega
          have : j > 0 := by omega
          simp [*]
        intro g hg
        unfold mcGate mcGateOf at hg
        simp only [hins, List.length_cons, List.length_nil, (by decide : ¬ ((0 + 1 + 1 + 1 : Nat) = 2)), if_false, if_true, List.mem_cons, List.not_mem_nil, or_false] at hg
        rcases hg with rfl | rfl
        · exact handrel
        · simp only [GateKind.rel, g0, List.map_cons, List.map_nil, List.cons_append, List.nil_append, List.getD_cons_zero, List.getD_cons_succ, beq_rat]
          simp only [hjm, hj0, if_true, if_false] at hadd
          by_cases h1 : i > 1
          · simp only [h1, if_true] at hadd ⊢; grind
          · simp only [h1, if_false] at hadd ⊢; grind
      · by_cases h1 : i > 1
        · have hins : mcInputs n m i j = [mcAND i j, mcCARRY n m (i - 1) j, mcCARRY n m i (j - 1)] := by
            unfold mcInputs
            have : i > 0 := by omega
            have : j > 0 := by omega
            simp [*]
          intro g hg
          unfold mcGate mcGateOf at hg
          simp only [hins, List.length_cons, List.length_nil, (by decide : ¬ ((0 + 1 + 1 + 1 : Nat) = 2)), if_false, if_true, List.mem_cons, List.not_mem_nil, or_false] at hg
          rcases hg with rfl | rfl
          · exact handrel
          · simp only [GateKind.rel, g0, List.map_cons, List.map_nil, List.cons_append, List.nil_append, List.getD_cons_zero, List.getD_cons_succ, beq_rat]
            simp only [hjm, hj0, h1, if_true, if_false] at hadd
            grind
        · have hins : mcInputs n m i j = [mcAND i j, mcCARRY n m i (j - 1)] := by
            unfold mcInputs
            have : i > 0 := by omega
            have : j > 0 := by omega
            simp [*]
          intro g hg
          unfold mcGate mcGateOf at hg
          simp only [hins, List.length_cons, List.length_nil, if_true, List.mem_cons, List.not_mem_nil, or_false] at hg
          rcases hg with rfl | rfl
          · exact handrel
          · simp only [GateKind.rel, g0, List.map_cons, List.map_nil, List.cons_append, List.nil_append, List.getD_cons_zero, List.getD_cons_succ, beq_rat]
            simp only [hjm, hj0, h1, if_true, if_false] at hadd
            grind

/-! ## simulating the array -/

def fullS (a b c : Rat) : Rat := if a + b + c = 1 ∨ a + b + c = 3 then 1 else 0
def fullC (a b c : Rat) : Rat := if a + b + c = 2 ∨ a + b + c = 3 then 1 else 0

abbrev Bit (a : Rat) : Prop := a ∈ [(0 : Rat), 1]

theorem bit_cases (a : Rat) (h : Bit a) : a = 0 ∨ a = 1 := by simpa using h

theorem fullS_bit (a b c : Rat) : Bit (fullS a b c) := by unfold fullS; split <;> simp
theorem fullC_bit (a b c : Rat) : Bit (fullC a b c) := by unfold fullC; split <;> simp

theorem full_ok (a b c : Rat) (ha : Bit a) (hb : Bit b) (hc : Bit c) : a + b + c = fullS a b c + 2 * fullC a b c := by
  rcases bit_cases a ha with rfl | rfl <;> rcases bit_cases b hb with rfl | rfl <;> rcases bit_cases c hc with rfl | rfl <;>
    decide +kernel

theorem bit_mul (a b : Rat) (ha : Bit a) (hb : Bit b) : Bit (a * b) := by
  rcases bit_cases a ha with rfl | rfl <;> rcases bit_cases b hb with rfl | rfl <;> decide +kernel

/-- one row of ripple-carry adders: `(sum, carry)` of column `j` -/
def simRow (xs ys : Nat → Rat) : Nat → Rat × Rat
  | 0 => (fullS (xs 0) (ys 0) 0, fullC (xs 0) (ys 0) 0)
  | j + 1 => (fullS (xs (j + 1)) (ys (j + 1)) (simRow xs ys j).2, fullC (xs (j + 1)) (ys (j + 1)) (simRow xs ys j).2)

/-- the array: row `i`, column `j` ↦ `(S i j, C i j)`; `m'` = last column -/
def sim (A B : Nat → Rat) (m' : Nat) : Nat → Nat → Rat × Rat
  | 0 => fun j => (A 0 * B j, 0)
  | i + 1 => simRow (fun j => A (i + 1) * B j) (fun j => if j < m' then (sim A B m' i (j + 1)).1 else (sim A B m' i m').2)

theorem simRow_bits (xs ys : Nat → Rat) (j : Nat) : Bit (simRow xs ys j).1 ∧ Bit (simRow xs ys j).2 := by
  cases j with
  | zero => exact ⟨fullS_bit _ _ _, fullC_bit _ _ _⟩
  | succ j => exact ⟨fullS_bit _ _ _, fullC_bit _ _ _⟩

theorem sim_bits (A B : Nat → Rat) (hA : ∀ i, Bit (A i)) (hB : ∀ j, Bit (B j)) (m' i j : Nat) :
    Bit (sim A B m' i j).1 ∧ Bit (sim A B m' i j).2 := by
  cases i with
  | zero => exact ⟨bit_mul _ _ (hA 0) (hB j), by simp [sim]⟩
  | succ i => exact simRow_bits _ _ j

theorem simRow_cell (xs ys : Nat → Rat) (hx : ∀ j, Bit (xs j)) (hy : ∀ j, Bit (ys j)) (j : Nat) :
    xs j + ys j + (if j = 0 then 0 else (simRow xs ys (j - 1)).2) = (simRow xs ys j).1 + 2 * (simRow xs ys j).2 := by
  cases j with
  | zero =>
    simp only [if_true, simRow]
    have := full_ok (xs 0) (ys 0) 0 (hx 0) (hy 0) (by simp)
    grind
  | succ j =>
    simp only [Nat.add_one_ne_zero, if_false, Nat.add_sub_cancel, simRow]
    exact full_ok _ _ _ (hx _) (hy _) (simRow_bits xs ys j).2

theorem sim_cell (A B : Nat → Rat) (hA : ∀ i, Bit (A i)) (hB : ∀ j, Bit (B j)) (m' i j : Nat) :
    A (i + 1) * B j + (if j < m' then (sim A B m' i (j + 1)).1 else (sim A B m' i m').2)
      + (if j = 0 then 0 else (sim A B m' (i + 1) (j - 1)).2)
    = (sim A B m' (i + 1) j).1 + 2 * (sim A B m' (i + 1) j).2 := by
  have := simRow_cell (fun j => A (i + 1) * B j) (fun j => if j < m' then (sim A B m' i (j + 1)).1 else (sim A B m' i m').2)
    (fun j => bit_mul _ _ (hA _) (hB _))
    (fun j => by
      show Bit (if j < m' then _ else _)
      split
      · exact (sim_bits A B hA hB m' i (j + 1)).1
      · exact (sim_bits A B hA hB m' i m').2) j
  exact this

/-! ## the sample that satisfies every gate -/

/-- value of every wire for the operands `A`, `B` -/
def wval (n m : Nat) (A B : Nat → Rat) : W → Rat
  | .a i => A i
  | .b j => B j
  | .and i j => A i * B j
  | .sum i j => (sim A B (m - 1) i j).1
  | .carry i j => (sim A B (m - 1) i j).2
  | .p k => if k < n - 1 then (sim A B (m - 1) k 0).1
            else if k < n + m - 1 then (sim A B (m - 1) (n - 1) (k - (n - 1))).1
            else (sim A B (m - 1) (n - 1) (m - 1)).2

open Classical in
/-- the sample: a wire name gets the wire's value, every other label 0 -/
noncomputable def wsample (n m : Nat) (A B : Nat → Rat) (l : Label) : Rat :=
  if h : ∃ w : W, w.name = l then wval n m A B (choose h) else 0

theorem wsample_name (n m : Nat) (A B : Nat → Rat) (w : W) : wsample n m A B w.name = wval n m A B w := by
  unfold wsample
  have h : ∃ w' : W, w'.name = w.name := ⟨w, rfl⟩
  rw [dif_pos h]
  rw [name_inj _ _ (Classical.choose_spec h)]

theorem wval_bit (n m : Nat) (A B : Nat → Rat) (hA : ∀ i, Bit (A i)) (hB : ∀ j, Bit (B j)) (w : W) : Bit (wval n m A B w) := by
  cases w with
  | a i => exact hA i
  | b j => exact hB j
  | and i j => exact bit_mul _ _ (hA i) (hB j)
  | sum i j => exact (sim_bits A B hA hB _ i j).1
  | carry i j => exact (sim_bits A B hA hB _ i j).2
  | p k =>
    simp only [wval]
    split
    · exact (sim_bits A B hA hB _ _ _).1
    · split
      · exact (sim_bits A B hA hB _ _ _).1
      · exact (sim_bits A B hA hB _ _ _).2

theorem wsample_bit (n m : Nat) (A B : Nat → Rat) (hA : ∀ i, Bit (A i)) (hB : ∀ j, Bit (B j)) (l : Label) :
    Bit (wsample n m A B l) := by
  unfold wsample
  split
  · exact wval_bit n m A B hA hB _
  · simp

theorem ws_AND (n m : Nat) (hn : 2 ≤ n) (A B : Nat → Rat) (i j : Nat) :
    wsample n m A B (mcAND i j) = A i * B j := by
  rw [mcAND_name]
  split
  · rw [wsample_name]; rfl
  · rename_i h
    have hi : i = 0 := by omega
    have hj : j = 0 := by omega
    subst hi; subst hj
    rw [wsample_name]
    have : 0 < n - 1 := by omega
    simp only [wval, this, if_true, sim]

theorem ws_SUM (n m : Nat) (hm : 2 ≤ m) (A B : Nat → Rat) (i j : Nat) (hi1 : 1 ≤ i) (hi : i < n) (hj : j < m) :
    wsample n m A B (mcSUM n i j) = (sim A B (m - 1) i j).1 := by
  rw [mcSUM_name]
  split
  · rename_i hj0
    subst hj0
    rw [wsample_name]
    simp only [wval]
    split
    · rfl
    · have hin : i = n - 1 := by omega
      have : i < n + m - 1 := by omega
      simp only [this, if_true]
      rw [hin, Nat.sub_self]
  · split
    · rename_i hj0 hin
      rw [wsample_name]
      have h1 : ¬ (i + j < n - 1) := by omega
      have h2 : i + j < n + m - 1 := by omega
      simp only [wval, h1, h2, if_false, if_true]
      have : i + j - (n - 1) = j := by omega
      rw [this, hin]
    · rw [wsample_name]; rfl

theorem ws_CARRY (n m : Nat) (A B : Nat → Rat) (i j : Nat) (hi1 : 1 ≤ i) (hi : i < n) (hj : j < m) :
    wsample n m A B (mcCARRY n m i j) = (sim A B (m - 1) i j).2 := by
  rw [mcCARRY_name]
  split
  · rename_i h
    rw [wsample_name]
    have h1 : ¬ (n + m - 1 < n - 1) := by omega
    have h2 : ¬ (n + m - 1 < n + m - 1) := by omega
    simp only [wval, h1, h2, if_false]
    have hi' : i = n - 1 := by omega
    have hj' : j = m - 1 := by omega
    rw [hi', hj']
  · rw [wsample_name]; rfl

/-- **completeness of the wiring, all `n, m ≥ 2`**: for every pair of operands (bits `A`, `B`) there is a 0/1
    sample that carries them on `a0 …`, `b0 …` and satisfies every gate of `multiplication_circuit(n, m)` -/
theorem mulCircuit_complete (n m : Nat) (hn : 2 ≤ n) (hm : 2 ≤ m) (gs : List (GateKind × List Label)) (h : mulCircuit n m = some gs)
    (A B : Nat → Rat) (hA : ∀ i, Bit (A i)) (hB : ∀ j, Bit (B j)) :
    ∃ x : Label → Rat, (∀ l, Bit (x l)) ∧ (∀ i, x (aLabel i) = A i) ∧ (∀ j, x (bLabel j) = B j)
      ∧ ∀ g ∈ gs, g.1.rel (g.2.map x) = true := by
  refine ⟨wsample n m A B, wsample_bit n m A B hA hB, ?_, ?_, ?_⟩
  · intro i; rw [aLabel_name, wsample_name]; rfl
  · intro j; rw [bLabel_name, wsample_name]; rfl
  · intro g hg
    unfold mulCircuit at h
    have hn' : ¬ n < 1 := by omega
    have hm' : ¬ m = 0 := by omega
    simp only [hn', if_false, hm', Option.some.injEq] at h
    subst h
    simp only [List.mem_flatMap, List.mem_range] at hg
    obtain ⟨i, hi, j, hj, hg⟩ := hg
    refine cell_sat_conv n m i j hm hj (wsample n m A B) ?_ ?_ g hg
    · rw [ws_AND n m hn, aLabel_name, bLabel_name, wsample_name, wsample_name]; rfl
    · intro hi1
      obtain ⟨i', rfl⟩ : ∃ i', i = i' + 1 := ⟨i - 1, by omega⟩
      have hc := sim_cell A B hA hB (m - 1) i' j
      rw [ws_AND n m hn, ws_SUM n m hm A B (i' + 1) j hi1 hi hj, ws_CARRY n m A B (i' + 1) j hi1 hi hj]
      simp only [Nat.add_sub_cancel]
      rw [← hc]
      have e1 : (if j < m - 1 then (if i' + 1 > 1 then wsample n m A B (mcSUM n i' (j + 1)) else wsample n m A B (mcAND 0 (j + 1)))
                 else (if i' + 1 > 1 then wsample n m A B (mcCARRY n m i' j) else 0))
              = (if j < m - 1 then (sim A B (m - 1) i' (j + 1)).1 else (sim A B (m - 1) i' (m - 1)).2) := by
        by_cases hjm : j < m - 1
        · simp only [hjm, if_true]
          by_cases hi' : i' + 1 > 1
          · simp only [hi', if_true]
            exact ws_SUM n m hm A B i' (j + 1) (by omega) (by omega) (by omega)
          · have : i' = 0 := by omega
            subst this
            simp only [hi', if_false, ws_AND n m hn, sim]
        · simp only [hjm, if_false]
          have hjm' : j = m - 1 := by omega
          by_cases hi' : i' + 1 > 1
          · simp only [hi', if_true]
            rw [ws_CARRY n m A B i' j (by omega) (by omega) hj, hjm']
          · have : i' = 0 := by omega
            subst this
            simp only [hi', if_false, sim]
      have e2 : (if j = 0 then 0 else wsample n m A B (mcCARRY n m (i' + 1) (j - 1)))
              = (if j = 0 then 0 else (sim A B (m - 1) (i' + 1) (j - 1)).2) := by
        by_cases hj0 : j = 0
        · simp [hj0]
        · simp only [hj0, if_false]
          exact ws_CARRY n m A B (i' + 1) (j - 1) hi1 hi (by omega)
      rw [e1, e2]

/-! ## binary expansions are unique -/

theorem pow2_pos (k : Nat) : 0 < pow2 k := by
  induction k with
  | zero => simp only [pow2]; decide +kernel
  | succ k ih => simp only [pow2]; grind

theorem wsum_bounds (f : Nat → Rat) (k : Nat) (hf : ∀ j, j < k → Bit (f j)) : 0 ≤ wsum f k ∧ wsum f k < pow2 k := by
  induction k with
  | zero => simp only [wsum, pow2]; constructor <;> decide +kernel
  | succ k ih =>
    obtain ⟨h1, h2⟩ := ih (fun j hj => hf j (by omega))
    have hp := pow2_pos k
    simp only [wsum, pow2]
    rcases bit_cases _ (hf k (by omega)) with h | h <;> rw [h] <;> constructor <;> grind

theorem wsum_inj (f g : Nat → Rat) (k : Nat) (hf : ∀ j, j < k → Bit (f j)) (hg : ∀ j, j < k → Bit (g j))
    (h : wsum f k = wsum g k) : ∀ j, j < k → f j = g j := by
  induction k with
  | zero => intro j hj; omega
  | succ k ih =>
    have bf := wsum_bounds f k (fun j hj => hf j (by omega))
    have bg := wsum_bounds g k (fun j hj => hg j (by omega))
    have hp := pow2_pos k
    simp only [wsum] at h
    have htop : f k = g k := by
      rcases bit_cases _ (hf k (by omega)) with h1 | h1 <;> rcases bit_cases _ (hg k (by omega)) with h2 | h2 <;>
        rw [h1, h2] at h ⊢ <;> grind
    rw [htop] at h
    have hlow : wsum f k = wsum g k := by grind
    intro j hj
    by_cases hjk : j = k
    · rw [hjk]; exact htop
    · exact ih (fun j hj => hf j (by omega)) (fun j hj => hg j (by omega)) hlow j (by omega)

end Gen
