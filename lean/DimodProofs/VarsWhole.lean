import DimodProofs.VarsMore

/-! Whole-mapping statements about `_relabel` (accept / reject / reasons / merges) and the restore
    property of `_relabel_as_integers`. -/

namespace VState

open LSpec (lookup subst dictOf relabelOk)

/-- the substitution a mapping denotes: `mapping.get(l, l)` -/
def sigma (m : Dict) (l : Label) : Label := (lookup m l).getD l

theorem subst_eq_map (m : Dict) (l : List Label) : subst m l = l.map (sigma m) := rfl

/-- why `iter_safe_relabels` raises: two keys share a new label, or a new label is an existing label
    that is not itself a key -/
def Rejected (m : Dict) (l : List Label) : Prop :=
  ¬ (vals m).Nodup ∨ ∃ v ∈ vals m, v ∈ l ∧ v ∉ keys m

theorem relabelOk_false_iff (m : Dict) (hk : (keys m).Nodup) (l : List Label) :
    relabelOk m l = false ↔ Rejected m l := by
  rw [← Bool.not_eq_true, relabelOk_iff m hk l]
  unfold Rejected
  constructor
  · intro h
    by_cases hn : (vals m).Nodup
    · right
      refine Classical.byContradiction fun hc => h ⟨hn, fun v hv hl => Classical.byContradiction fun hk' => hc ⟨v, hv, hl, hk'⟩⟩
    · exact Or.inl hn
  · rintro (h | ⟨v, hv, hl, hk'⟩) ⟨h1, h2⟩
    · exact h h1
    · exact hk' (h2 v hv hl)

/-- **whole mapping**: for any mapping with distinct keys (partial, swapping, cyclic, chains through labels
    that are not variables, absent keys) `_relabel` as coded (conflict check, one- or two-phase plan) either
    yields a sound state whose labels are `[mapping.get(l, l) for l in labels]`, or raises, leaves the object
    untouched, and the mapping is a rejected one -/
theorem relabel_total (s : VState) (h : s.Inv) (m : Dict) (hk : (keys m).Nodup) :
    (∃ s', s.relabel m = some s' ∧ (s.step (.relabel m)) = (s', true) ∧ s'.Inv ∧ s'.abs = s.abs.map (sigma m) ∧
        ¬ Rejected m s.abs) ∨
    (s.relabel m = none ∧ s.step (.relabel m) = (s, false) ∧ Rejected m s.abs) := by
  obtain ⟨h1, h2⟩ := relabel_spec s h m hk
  rw [dictOf_eq_self m hk] at h1
  cases hr : relabelOk m s.abs with
  | true =>
    left
    obtain ⟨s', e, hI, ha⟩ := h1 hr
    refine ⟨s', e, by simp [step, e], hI, ha, ?_⟩
    intro hrej
    have := (relabelOk_false_iff m hk s.abs).2 hrej
    rw [hr] at this; cases this
  | false =>
    right
    exact ⟨h2 hr, by simp [step, h2 hr], (relabelOk_false_iff m hk s.abs).1 hr⟩

/-- a relabel that would merge two labels (the substituted list has a duplicate) raises and changes nothing -/
theorem relabel_rejects_merge (s : VState) (h : s.Inv) (m : Dict) (hk : (keys m).Nodup)
    (hmerge : ¬ (s.abs.map (sigma m)).Nodup) : s.relabel m = none ∧ s.step (.relabel m) = (s, false) := by
  rcases relabel_total s h m hk with ⟨s', _, _, hI, ha, _⟩ | ⟨h1, h2, _⟩
  · exact absurd (ha ▸ abs_nodup s' hI) hmerge
  · exact ⟨h1, h2⟩

/-- `_relabel` raises exactly for the rejected mappings -/
theorem relabel_none_iff (s : VState) (h : s.Inv) (m : Dict) (hk : (keys m).Nodup) :
    s.relabel m = none ↔ Rejected m s.abs := by
  rcases relabel_total s h m hk with ⟨s', e, _, _, _, hn⟩ | ⟨h1, _, hr⟩
  · simp [e, hn]
  · simp [h1, hr]

/-! ### for a mapping whose keys are all variables, "rejected" is exactly "would merge" -/

theorem not_nodup_map_of_collision {α β : Type} (f : α → β) : ∀ (l : List α) (a b : α),
    a ∈ l → b ∈ l → a ≠ b → f a = f b → ¬ (l.map f).Nodup
  | [], _, _, ha, _, _, _ => by cases ha
  | x :: t, a, b, ha, hb, hne, e => by
    intro hnd
    rw [List.map_cons, List.nodup_cons] at hnd
    rcases List.mem_cons.mp ha with rfl | ha' <;> rcases List.mem_cons.mp hb with rfl | hb'
    · exact hne rfl
    · exact hnd.1 (e ▸ List.mem_map.mpr ⟨b, hb', rfl⟩)
    · exact hnd.1 (e ▸ List.mem_map.mpr ⟨a, ha', rfl⟩)
    · exact not_nodup_map_of_collision f t a b ha' hb' hne e hnd.2

theorem exists_shared_val : ∀ (d : Dict), (keys d).Nodup → ¬ (vals d).Nodup →
    ∃ k1 k2 v, k1 ≠ k2 ∧ (k1, v) ∈ d ∧ (k2, v) ∈ d
  | [], _, h => absurd List.nodup_nil h
  | (a, b) :: d, hk, h => by
    simp only [keys_cons, List.nodup_cons] at hk
    simp only [vals_cons, List.nodup_cons] at h
    by_cases hb : b ∈ vals d
    · have h := hb
      obtain ⟨k, hkm⟩ := exists_of_mem_vals h
      refine ⟨a, k, b, ?_, List.mem_cons_self, List.mem_cons_of_mem _ hkm⟩
      intro e; exact hk.1 (e ▸ mem_keys_of_mem hkm)
    · have h : ¬ (vals d).Nodup := fun hn => h ⟨hb, hn⟩
      obtain ⟨k1, k2, v, hne, h1, h2⟩ := exists_shared_val d hk.2 h
      exact ⟨k1, k2, v, hne, List.mem_cons_of_mem _ h1, List.mem_cons_of_mem _ h2⟩

/-- a rejected mapping whose keys are all variables would merge two labels -/
theorem merge_of_rejected (m : Dict) (hk : (keys m).Nodup) (l : List Label) (hsub : ∀ k ∈ keys m, k ∈ l)
    (hr : Rejected m l) : ¬ (l.map (sigma m)).Nodup := by
  rcases hr with h | ⟨v, hv, hl, hnk⟩
  · obtain ⟨k1, k2, v, hne, h1, h2⟩ := exists_shared_val m hk h
    refine not_nodup_map_of_collision _ l k1 k2 (hsub _ (mem_keys_of_mem h1)) (hsub _ (mem_keys_of_mem h2)) hne ?_
    simp only [sigma, lookup_of_mem hk h1, lookup_of_mem hk h2, Option.getD_some]
  · obtain ⟨k, hkm⟩ := exists_of_mem_vals hv
    have hkv : k ≠ v := fun e => hnk (e ▸ mem_keys_of_mem hkm)
    refine not_nodup_map_of_collision _ l k v (hsub _ (mem_keys_of_mem hkm)) hl hkv ?_
    simp only [sigma, lookup_of_mem hk hkm, (lookup_eq_none_iff m v).2 hnk, Option.getD_some, Option.getD_none]

/-- **exactly**: when every key of the mapping is a variable, `_relabel` raises (changing nothing) if and only if
    the mapping would merge two labels -/
theorem relabel_none_iff_merge (s : VState) (h : s.Inv) (m : Dict) (hk : (keys m).Nodup)
    (hsub : ∀ k ∈ keys m, k ∈ s.abs) :
    s.relabel m = none ↔ ¬ (s.abs.map (sigma m)).Nodup := by
  constructor
  · intro hn
    exact merge_of_rejected m hk s.abs hsub ((relabel_none_iff s h m hk).1 hn)
  · intro hm; exact (relabel_rejects_merge s h m hk hm).1

/-! ### `_relabel_as_integers` returns the mapping that restores the labels -/

theorem keys_erase_sub [DecidableEq α] (m : AMap α β) (k x : α) (h : x ∈ (m.erase k).map Prod.fst) :
    x ∈ m.map Prod.fst ∧ x ≠ k := by
  induction m with
  | nil => simp [AMap.erase] at h
  | cons p m ih =>
    obtain ⟨a, b⟩ := p
    simp only [AMap.erase] at h
    split at h
    · obtain ⟨h1, h2⟩ := ih h; exact ⟨List.mem_cons_of_mem _ h1, h2⟩
    · rename_i hne
      simp only [List.map_cons, List.mem_cons] at h ⊢
      rcases h with rfl | h
      · exact ⟨Or.inl rfl, hne⟩
      · obtain ⟨h1, h2⟩ := ih h; exact ⟨Or.inr h1, h2⟩

theorem keys_erase_nodup [DecidableEq α] (m : AMap α β) (k : α) (h : (m.map Prod.fst).Nodup) :
    ((m.erase k).map Prod.fst).Nodup := by
  induction m with
  | nil => simp [AMap.erase]
  | cons p m ih =>
    obtain ⟨a, b⟩ := p
    simp only [List.map_cons, List.nodup_cons] at h
    simp only [AMap.erase]
    split
    · exact ih h.2
    · simp only [List.map_cons, List.nodup_cons]
      exact ⟨fun hm => h.1 (keys_erase_sub m k a hm).1, ih h.2⟩

theorem keys_copyMap_nodup [DecidableEq α] (m : AMap α β) : ((copyMap m).map Prod.fst).Nodup := by
  induction m with
  | nil => simp [copyMap]
  | cons p m ih =>
    obtain ⟨a, b⟩ := p
    show ((AMap.set (copyMap m) a b).map Prod.fst).Nodup
    simp only [AMap.set, List.map_cons, List.nodup_cons]
    exact ⟨fun hm => (keys_erase_sub _ a a hm).2 rfl, keys_erase_nodup _ a ih⟩

theorem get?_of_mem_nodup [DecidableEq α] (m : AMap α β) (h : (m.map Prod.fst).Nodup) (k : α) (v : β)
    (hm : (k, v) ∈ m) : m.get? k = some v := by
  induction m with
  | nil => cases hm
  | cons p m ih =>
    obtain ⟨a, b⟩ := p
    simp only [List.map_cons, List.nodup_cons] at h
    simp only [AMap.get?]
    rcases List.mem_cons.mp hm with e | hm'
    · cases e; simp
    · have : a ≠ k := fun e => h.1 (e ▸ List.mem_map.mpr ⟨(k, v), hm', rfl⟩)
      simp [this, ih h.2 hm']

theorem lookup_intMap (d : AMap Nat Label) (i : Nat) :
    lookup (d.map fun p => (Label.int (p.1 : Nat), p.2)) (Label.int (i : Nat)) = d.get? i := by
  induction d with
  | nil => rfl
  | cons p d ih =>
    obtain ⟨a, b⟩ := p
    simp only [List.map_cons, lookup, AMap.get?, ih]
    by_cases e : a = i
    · simp [e]
    · have : Label.int (a : Nat) ≠ Label.int (i : Nat) := by
        intro h; injection h with h; exact e (by omega)
      simp [e, this]

theorem vals_nodup_of_inj : ∀ (d : Dict), (∀ k1 k2 v, (k1, v) ∈ d → (k2, v) ∈ d → k1 = k2) → (keys d).Nodup → (vals d).Nodup
  | [], _, _ => List.nodup_nil
  | (a, b) :: d, hinj, hk => by
    simp only [keys_cons, List.nodup_cons] at hk
    simp only [vals_cons, List.nodup_cons]
    refine ⟨?_, vals_nodup_of_inj d (fun k1 k2 v h1 h2 => hinj k1 k2 v (List.mem_cons_of_mem _ h1) (List.mem_cons_of_mem _ h2)) hk.2⟩
    intro hm
    obtain ⟨k, hkm⟩ := exists_of_mem_vals hm
    have := hinj a k b List.mem_cons_self (List.mem_cons_of_mem _ hkm)
    exact hk.1 (this ▸ mem_keys_of_mem hkm)

/-- `m = v._relabel_as_integers(); v._relabel(m)`: the first call leaves `range(n)`, the returned mapping is
    accepted and restores exactly the labels the object had -/
theorem relabelAsIntegers_restore (s : VState) (h : s.Inv) :
    s.relabelAsIntegers.1.Inv ∧
    s.relabelAsIntegers.1.abs = (List.range s.abs.length).map (fun i => Label.int (i : Nat)) ∧
    ∃ s2, s.relabelAsIntegers.1.relabel (restoreMap s.relabelAsIntegers.2) = some s2 ∧ s2.Inv ∧ s2.abs = s.abs := by
  refine ⟨relabelAsIntegers_inv s, relabelAsIntegers_abs s, ?_⟩
  have hback : s.relabelAsIntegers.2 = s.i2l := rfl
  rw [hback]
  have hcn := keys_copyMap_nodup s.i2l
  have hmem : ∀ k v, (k, v) ∈ copyMap s.i2l → s.i2l.get? k = some v := by
    intro k v hm
    rw [← get?_copyMap]; exact get?_of_mem_nodup _ hcn k v hm
  -- keys of the restore map are distinct
  have hk : (keys (restoreMap s.i2l)).Nodup := by
    have : keys (restoreMap s.i2l) = ((copyMap s.i2l).map Prod.fst).map (fun i : Nat => Label.int (i : Nat)) := by
      simp [keys, restoreMap, List.map_map, Function.comp_def]
    rw [this]
    exact nodup_map_of_injOn _ _ hcn (fun x _ y _ e => by injection e with e; omega)
  have hpair : ∀ k v, (k, v) ∈ restoreMap s.i2l → ∃ i : Nat, k = Label.int (i : Nat) ∧ s.i2l.get? i = some v := by
    intro k v hm
    obtain ⟨p, hp, e⟩ := List.mem_map.mp hm
    cases e
    exact ⟨p.1, rfl, hmem p.1 p.2 hp⟩
  have hstop1 : s.relabelAsIntegers.1.stop = s.stop := rfl
  have habs1 : ∀ x, x ∈ s.relabelAsIntegers.1.abs ↔ ∃ j : Nat, j < s.stop ∧ x = Label.int (j : Nat) := by
    intro x
    rw [relabelAsIntegers_abs, abs_length]
    simp only [List.mem_map, List.mem_range]
    constructor
    · rintro ⟨j, hj, rfl⟩; exact ⟨j, hj, rfl⟩
    · rintro ⟨j, hj, rfl⟩; exact ⟨j, hj, rfl⟩
  have hok : relabelOk (restoreMap s.i2l) s.relabelAsIntegers.1.abs = true := by
    rw [relabelOk_iff _ hk]
    constructor
    · apply vals_nodup_of_inj _ _ hk
      intro k1 k2 v h1 h2
      obtain ⟨i1, rfl, g1⟩ := hpair k1 v h1
      obtain ⟨i2, rfl, g2⟩ := hpair k2 v h2
      have a1 := (h.i2l_ok i1 v g1).2.2
      have a2 := (h.i2l_ok i2 v g2).2.2
      rw [a1] at a2; cases a2; rfl
    · intro v hv hl
      obtain ⟨k, hkm⟩ := exists_of_mem_vals hv
      obtain ⟨i, rfl, gi⟩ := hpair k v hkm
      obtain ⟨j, hj, rfl⟩ := (habs1 v).1 hl
      have hl2i := (h.i2l_ok i _ gi).2.2
      cases hgj : s.i2l.get? j with
      | none => rw [h.ident_ok j hj hgj] at hl2i; cases hl2i
      | some w =>
        have : lookup (restoreMap s.i2l) (Label.int (j : Nat)) = some w := by
          unfold restoreMap; rw [lookup_intMap, get?_copyMap, hgj]
        exact mem_keys_of_mem (lookup_mem this)
  obtain ⟨s2, e, hI, ha⟩ := (relabel_spec _ (relabelAsIntegers_inv s) _ hk).1 hok
  refine ⟨s2, e, hI, ?_⟩
  rw [ha, dictOf_eq_self _ hk, relabelAsIntegers_abs, abs_length]
  unfold subst VState.abs
  rw [List.map_map]
  apply List.map_congr_left
  intro i _
  simp only [Function.comp]
  unfold restoreMap
  rw [lookup_intMap, get?_copyMap]
  rfl

end VState
