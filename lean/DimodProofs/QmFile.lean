import DimodProofs.FileRoundtrip

/-! # QM files: section payloads, round trip, truncation (C09 / C10) -/

namespace FileFmt

open Prog

/-! ## packed records -/

theorem flatten_length_const {rs : Nat} {recs : List Bytes} (h : ∀ r ∈ recs, r.length = rs) :
    recs.flatten.length = rs * recs.length := by
  induction recs with
  | nil => simp
  | cons r t ih =>
    have hr := h r (by simp)
    have ht := ih (fun x hx => h x (by simp [hx]))
    simp [List.flatten_cons, hr, ht, Nat.mul_add]
    omega

theorem chunksN_flatten {rs : Nat} {recs : List Bytes} (h : ∀ r ∈ recs, r.length = rs) (tail : Bytes) :
    chunksN rs recs.length (recs.flatten ++ tail) = recs := by
  induction recs with
  | nil => simp [chunksN]
  | cons r t ih =>
    have hr := h r (by simp)
    simp only [List.length_cons, chunksN, List.flatten_cons, List.append_assoc]
    rw [List.take_append_of_le_length (by omega), List.drop_append_of_le_length (by omega)]
    rw [List.take_of_length_le (by omega), List.drop_eq_nil_of_le (by omega)]
    simp only [List.nil_append]
    rw [ih (fun x hx => h x (by simp [hx]))]

theorem frombuffer_flatten {rs : Nat} (hrs : 0 < rs) {recs : List Bytes} (h : ∀ r ∈ recs, r.length = rs) :
    frombuffer rs recs.flatten = .ok recs := by
  unfold frombuffer
  rw [flatten_length_const h]
  simp only [Nat.mul_mod_right, ne_eq, not_true_eq_false, if_false, Nat.mul_div_cancel_left _ hrs]
  have := chunksN_flatten h []
  simp only [List.append_nil] at this
  rw [this]

/-- `chunksN` looks only at the first `c * rs` bytes -/
theorem chunksN_take (rs c : Nat) (d : Bytes) (j : Nat) (hj : c * rs ≤ j) :
    chunksN rs c (d.take j) = chunksN rs c d := by
  induction c generalizing d j with
  | zero => simp [chunksN]
  | succ c ih =>
    simp only [chunksN]
    have h1 : rs ≤ j := by
      have : (c + 1) * rs = c * rs + rs := Nat.succ_mul c rs
      omega
    rw [List.take_take, Nat.min_eq_left h1, List.drop_take]
    rw [ih _ (j - rs) (by
      have : (c + 1) * rs = c * rs + rs := Nat.succ_mul c rs
      omega)]

theorem leInt_toLE (k n : Nat) (h : 2 * n < 256 ^ k) : leInt (toLE k n) = (n : Int) := by
  unfold leInt
  simp only [toLE_length]
  have hn : n < 256 ^ k := by omega
  rw [leNat_toLE k n hn]
  simp [h]

/-! ## the payload of each QM section: what `loads_data` + the raw loader return on the data
    followed by any padding -/

/-- well-formed variable info: bounds are `dsz`-byte payloads -/
def VarInfoWF (dsz : Nat) (vi : VarInfo) : Prop := ∀ t ∈ vi, t.2.1.length = dsz ∧ t.2.2.length = dsz

theorem encVarInfo_recs {dsz : Nat} {vi : VarInfo} (h : VarInfoWF dsz vi) :
    ∀ r ∈ vi.map (fun t => t.1 :: (t.2.1 ++ t.2.2)), r.length = 1 + 2 * dsz := by
  intro r hr
  simp only [List.mem_map] at hr
  obtain ⟨t, ht, rfl⟩ := hr
  have := h t ht
  simp [this.1, this.2]; omega

theorem ivartypesLoad_full (guard : Bool) (dsz : Nat) (vi : VarInfo) (h : VarInfoWF dsz vi) (tail : Bytes) :
    ivartypesLoad guard dsz (encVarInfo vi ++ tail) vi.length = .ok vi := by
  have hrecs := encVarInfo_recs h
  have hlen : (encVarInfo vi).length = (1 + 2 * dsz) * vi.length := by
    have := flatten_length_const hrecs
    simpa [encVarInfo] using this
  unfold ivartypesLoad rawRecords
  rw [List.take_append_of_le_length (by omega), List.take_of_length_le (by omega)]
  have : frombuffer (1 + 2 * dsz) (encVarInfo vi) = .ok (vi.map fun t => t.1 :: (t.2.1 ++ t.2.2)) :=
    frombuffer_flatten (by omega) hrecs
  rw [this]
  simp only [List.length_map, if_true, Res.map]
  congr 1
  rw [List.map_map]
  conv => rhs; rw [← List.map_id vi]
  apply List.map_congr_left
  intro t ht
  have := h t ht
  obtain ⟨a, b, c⟩ := t
  simp only [Function.comp, List.headD_cons, List.drop_succ_cons, List.drop_zero, id]
  simp only at this
  rw [List.take_append_of_le_length (by omega), List.take_of_length_le (by omega)]
  have hd : List.drop (1 + dsz) (a :: (b ++ c)) = c := by
    rw [Nat.add_comm, List.drop_succ_cons, List.drop_append_of_le_length (by omega), List.drop_eq_nil_of_le (by omega)]
    rfl
  rw [hd]

theorem offsLoads_full (dsz : Nat) (off tail : Bytes) (h : off.length = dsz) (h0 : 0 < dsz) :
    offsLoads dsz (off ++ tail) = .ok off := by
  unfold offsLoads
  rw [List.take_append_of_le_length (by omega), List.take_of_length_le (by omega)]
  have : frombuffer dsz off = .ok [off] := by
    have := frombuffer_flatten (rs := dsz) h0 (recs := [off]) (by simp [h])
    simpa using this
  rw [this]

theorem linbLoads_full (dsz : Nat) (lin : List Bytes) (tail : Bytes) (h : ∀ b ∈ lin, b.length = dsz) (h0 : 0 < dsz) :
    linbLoads dsz lin.length (lin.flatten ++ tail) = .ok lin := by
  unfold linbLoads
  have hl := flatten_length_const h
  rw [List.take_append_of_le_length (by rw [hl, Nat.mul_comm]; exact Nat.le_refl _),
    List.take_of_length_le (by rw [hl, Nat.mul_comm]; exact Nat.le_refl _)]
  exact frombuffer_flatten h0 h

/-- well-formed lower-triangle row: `dsz`-byte payloads, indices that fit the signed index type -/
def RowWF (isz dsz : Nat) (row : List (Nat × Bytes)) : Prop := ∀ p ∈ row, p.2.length = dsz ∧ 2 * p.1 < 256 ^ isz

theorem encNeigh_recs {isz dsz : Nat} {row : List (Nat × Bytes)} (h : RowWF isz dsz row) :
    ∀ r ∈ row.map (encRec isz), r.length = isz + dsz := by
  intro r hr
  simp only [List.mem_map] at hr
  obtain ⟨p, hp, rfl⟩ := hr
  simp [encRec, toLE_length, (h p hp).1]

theorem encNeigh_length {isz dsz : Nat} {row : List (Nat × Bytes)} (h : RowWF isz dsz row) :
    (encNeigh isz row).length = (isz + dsz) * row.length := by
  have := flatten_length_const (encNeigh_recs h)
  simpa [encNeigh] using this

theorem decode_row {isz dsz : Nat} {row : List (Nat × Bytes)} (h : RowWF isz dsz row) :
    (row.map (encRec isz)).map (fun r => ((leInt (r.take isz)).toNat, r.drop isz)) = row := by
  rw [List.map_map]
  conv => rhs; rw [← List.map_id row]
  apply List.map_congr_left
  intro p hp
  obtain ⟨i, b⟩ := p
  have := h _ hp
  simp only [Function.comp, encRec, id]
  rw [List.take_append_of_le_length (by simp [toLE_length]), List.take_of_length_le (by simp [toLE_length]),
    List.drop_append_of_le_length (by simp [toLE_length]), List.drop_eq_nil_of_le (by simp [toLE_length]),
    leInt_toLE _ _ this.2]
  simp

theorem neigData_length {isz dsz : Nat} {row : List (Nat × Bytes)} (h : RowWF isz dsz row) :
    (neigData isz row).length = 8 + (isz + dsz) * row.length := by
  simp [neigData, encInt64, toLE_length, encNeigh_length h]

theorem count_gt_iff (c s L : Nat) : ((c : Int) * ((s : Nat) : Int) > (L : Int)) ↔ L < c * s := by
  rw [← Int.natCast_mul, gt_iff_lt, Int.ofNat_lt]

theorem leInt_encInt64 (n : Nat) (h : 2 * n < 256 ^ 8) : leInt (encInt64 n) = (n : Int) := leInt_toLE 8 n h

theorem neigLoads_split {isz : Nat} {row : List (Nat × Bytes)} (tail : Bytes) (j : Nat) (h8 : 8 ≤ j) (dsz : Nat)
    (hlen : 2 * row.length < 256 ^ 8) :
    neigLoads isz dsz ((neigData isz row ++ tail).take j) =
      if ((encNeigh isz row ++ tail).take (j - 8)).length < row.length * (isz + dsz) then .err .runtime
      else .ok ((chunksN (isz + dsz) row.length ((encNeigh isz row ++ tail).take (j - 8))).map
                 fun r => ((leInt (r.take isz)).toNat, r.drop isz)) := by
  have e8 : (encInt64 row.length).length = 8 := toLE_length _ _
  have hd : (neigData isz row ++ tail).take j = encInt64 row.length ++ (encNeigh isz row ++ tail).take (j - 8) := by
    rw [neigData, List.append_assoc, take_append_ge (by omega), e8]
  have t8 : (encInt64 row.length ++ (encNeigh isz row ++ tail).take (j - 8)).take 8 = encInt64 row.length := by
    rw [List.take_append_of_le_length (by omega), List.take_of_length_le (by omega)]
  have d8 : (encInt64 row.length ++ (encNeigh isz row ++ tail).take (j - 8)).drop 8 = (encNeigh isz row ++ tail).take (j - 8) := by
    rw [List.drop_append_of_le_length (by omega), List.drop_eq_nil_of_le (by omega)]; rfl
  unfold neigLoads
  rw [hd, t8, d8, e8, if_neg (Nat.lt_irrefl 8), leInt_encInt64 _ hlen]
  simp only [count_gt_iff, Int.toNat_natCast]

/-- `loads_data` + `_ilower_triangle_load` on a prefix `d` of (data ++ padding) that still contains
    the data: the row comes back -/
theorem neigLoads_of_prefix {isz dsz : Nat} {row : List (Nat × Bytes)} (h : RowWF isz dsz row)
    (hlen : 2 * row.length < 256 ^ 8) (tail : Bytes) (j : Nat) (hj : (neigData isz row).length ≤ j) :
    neigLoads isz dsz ((neigData isz row ++ tail).take j) = .ok row := by
  have hl := neigData_length h
  have hen := encNeigh_length h
  rw [neigLoads_split tail j (by omega) dsz hlen]
  have hbl : ¬ (((encNeigh isz row ++ tail).take (j - 8)).length < row.length * (isz + dsz)) := by
    rw [List.length_take, List.length_append, Nat.mul_comm row.length]
    omega
  rw [if_neg hbl]
  congr 1
  rw [chunksN_take _ _ _ _ (by rw [Nat.mul_comm] at hl; omega)]
  have := chunksN_flatten (encNeigh_recs h) tail
  simp only [List.length_map] at this
  rw [encNeigh, this]
  exact decode_row h

theorem neigLoads_full {isz dsz : Nat} {row : List (Nat × Bytes)} (h : RowWF isz dsz row)
    (hlen : 2 * row.length < 256 ^ 8) (tail : Bytes) : neigLoads isz dsz (neigData isz row ++ tail) = .ok row := by
  have := neigLoads_of_prefix h hlen tail (neigData isz row ++ tail).length (by simp)
  rwa [List.take_length] at this

/-- … and on a prefix that lost part of the data it raises -/
theorem neigLoads_short {isz dsz : Nat} {row : List (Nat × Bytes)} (h : RowWF isz dsz row)
    (hlen : 2 * row.length < 256 ^ 8) (tail : Bytes) (j : Nat) (hj : j < (neigData isz row).length) :
    ∃ e, neigLoads isz dsz ((neigData isz row ++ tail).take j) = .err e := by
  have hl := neigData_length h
  have hen := encNeigh_length h
  by_cases h8 : j < 8
  · refine ⟨.structErr, ?_⟩
    have : (((neigData isz row ++ tail).take j).take 8).length < 8 := by
      simp only [List.length_take]; omega
    unfold neigLoads
    rw [if_pos this]
  · rw [neigLoads_split tail j (by omega) dsz hlen]
    have hbl : ((encNeigh isz row ++ tail).take (j - 8)).length < row.length * (isz + dsz) := by
      rw [List.length_take, Nat.mul_comm row.length]; omega
    exact ⟨.runtime, by rw [if_pos hbl]⟩

/-! ## the `VARS` section -/

theorem varsLoad_eq (parseVars : Bytes → Option (List J)) : varsLoad parseVars = sectionLoadWith magVARS nlb4 (varsLoads parseVars) := rfl

theorem ascii_spaces {text : Bytes} (h : ∀ b ∈ text, b < 128) (n : Nat) : ∀ b ∈ text ++ spaces n, b < 128 := by
  intro b hb
  simp only [List.mem_append, spaces, List.mem_replicate] at hb
  rcases hb with hb | ⟨_, rfl⟩
  · exact h b hb
  · decide

theorem take_text_spaces (text : Bytes) (n j : Nat) (hj : text.length ≤ j) :
    (text ++ spaces n).take j = text ++ spaces (min (j - text.length) n) := by
  rw [take_append_ge hj]
  simp [spaces, List.take_replicate]

theorem varsLoads_of_prefix (parseVars : Bytes → Option (List J)) (text : Bytes) (l : List J)
    (hj : JsonContract parseVars text l) (hascii : ∀ b ∈ text, b < 128) (n j : Nat) (hle : text.length ≤ j) :
    varsLoads parseVars ((text ++ spaces n).take j) = .ok l := by
  rw [take_text_spaces _ _ _ hle]
  unfold varsLoads
  rw [any_ge128_false (ascii_spaces hascii _)]
  have : parseVars (text ++ spaces (min (j - text.length) n)) = some l := by
    apply hj.full
    intro b hb
    simp only [spaces, List.mem_replicate] at hb
    left; exact hb.2
  simp [this]

theorem varsLoads_short (parseVars : Bytes → Option (List J)) (text : Bytes) (l : List J)
    (hj : JsonContract parseVars text l) (hascii : ∀ b ∈ text, b < 128) (n j : Nat) (hlt : j < text.length) :
    ∃ e, varsLoads parseVars ((text ++ spaces n).take j) = .err e := by
  rw [take_append_lt (Nat.le_of_lt hlt)]
  unfold varsLoads
  have ha : ∀ b ∈ text.take j, b < 128 := fun b hb => hascii b (List.mem_of_mem_take hb)
  rw [any_ge128_false ha, hj.cut j hlt]
  exact ⟨.json, by simp⟩

/-- the `VARS` section as the last thing in a file -/
theorem Comp.vars (parseVars : Bytes → Option (List J)) (text : Bytes) (l : List J)
    (hj : JsonContract parseVars text l) (hascii : ∀ b ∈ text, b < 128) (hsize : text.length + 64 < 256 ^ nlb4) :
    Comp (varsLoad parseVars) (sectionDumps magVARS nlb4 text) l (sectionPad magVARS nlb4 text) := by
  rw [varsLoad_eq]
  refine Comp.section magVARS nlb4 text _ l (by decide) hsize ?_ ?_
  · have := varsLoads_of_prefix parseVars text l hj hascii (sectionPad magVARS nlb4 text) (text ++ spaces (sectionPad magVARS nlb4 text)).length (by simp)
    rwa [List.take_length] at this
  · intro j _
    by_cases hlt : j < text.length
    · exact .inl (varsLoads_short parseVars text l hj hascii _ j hlt)
    · exact .inr ⟨by omega, varsLoads_of_prefix parseVars text l hj hascii _ j (by omega)⟩

/-! ## no undefined behaviour in the guarded raw loaders -/

theorem frombuffer_ne_ub (rs : Nat) (d : Bytes) : frombuffer rs d ≠ .ub := by
  unfold frombuffer; split <;> simp

theorem rawRecords_guard_ne_ub (rs : Nat) (buff : Bytes) (n : Nat) : rawRecords true rs buff n ≠ .ub := by
  unfold rawRecords
  split
  · split <;> simp
  · simp
  · rename_i h; exact absurd h (frombuffer_ne_ub _ _)

theorem ivartypesLoad_guard_ne_ub (dsz : Nat) (buff : Bytes) (n : Nat) : ivartypesLoad true dsz buff n ≠ .ub := by
  unfold ivartypesLoad
  have := rawRecords_guard_ne_ub (1 + 2 * dsz) buff n
  cases h : rawRecords true (1 + 2 * dsz) buff n <;> simp_all [Res.map]

theorem offsLoads_ne_ub (dsz : Nat) (d : Bytes) : offsLoads dsz d ≠ .ub := by
  unfold offsLoads
  split <;> simp
  rename_i h; exact absurd h (frombuffer_ne_ub _ _)

theorem linbLoads_ne_ub (dsz n : Nat) (d : Bytes) : linbLoads dsz n d ≠ .ub := frombuffer_ne_ub _ _

theorem neigLoads_ne_ub (isz dsz : Nat) (d : Bytes) : neigLoads isz dsz d ≠ .ub := by
  unfold neigLoads
  split
  · simp
  · dsimp only
    split <;> simp

theorem varsLoads_ne_ub (parseVars : Bytes → Option (List J)) (d : Bytes) : varsLoads parseVars d ≠ .ub := by
  unfold varsLoads
  split
  · simp
  · split <;> simp

/-! ## the `NEIG` sections -/

def RowOK (isz dsz : Nat) (row : List (Nat × Bytes)) : Prop :=
  RowWF isz dsz row ∧ 2 * row.length < 256 ^ 8 ∧ (neigData isz row).length + 64 < 256 ^ nlb4

theorem Comp.neig {isz dsz : Nat} {row : List (Nat × Bytes)} (h : RowOK isz dsz row) :
    Comp (sectionLoadWith magNEIG nlb4 (neigLoads isz dsz)) (sectionDumps magNEIG nlb4 (neigData isz row)) row
      (sectionPad magNEIG nlb4 (neigData isz row)) := by
  refine Comp.section magNEIG nlb4 _ _ row (by decide) h.2.2 (neigLoads_full h.1 h.2.1 _) ?_
  intro j _
  by_cases hlt : j < (neigData isz row).length
  · exact .inl (neigLoads_short h.1 h.2.1 _ j hlt)
  · exact .inr ⟨by omega, neigLoads_of_prefix h.1 h.2.1 _ j (by omega)⟩

theorem magNEIG_ne : magNEIG ≠ [] := by decide
theorem magVARS_ne : magVARS ≠ [] := by decide
theorem magVTYP_ne : magVTYP ≠ [] := by decide
theorem magOFFS_ne : magOFFS ≠ [] := by decide
theorem magLINB_ne : magLINB ≠ [] := by decide

theorem NoUB.neigLoop (isz dsz : Nat) : ∀ k, NoUB (qmNeigLoop isz dsz k)
  | 0 => by intro s h; simp [qmNeigLoop, run] at h
  | k + 1 => NoUB.bind (NoUB.section _ _ _ (neigLoads_ne_ub isz dsz)) fun _ =>
      NoUB.bind (NoUB.neigLoop isz dsz k) fun _ => by intro s h; simp [run] at h

theorem EofFails.neigLoop (isz dsz k : Nat) : EofFails (qmNeigLoop isz dsz (k + 1)) :=
  EofFails.bind _ (EofFails.section _ _ _ magNEIG_ne)

/-- all `NEIG` sections, the last one being the end of the file -/
theorem Comp.neigLoop {isz dsz : Nat} : ∀ (rows : List (List (Nat × Bytes))), rows ≠ [] → (∀ row ∈ rows, RowOK isz dsz row) →
    ∃ pad, pad < 64 ∧ Comp (qmNeigLoop isz dsz rows.length) (qmNeigSections isz rows) rows pad
  | [], hne, _ => absurd rfl hne
  | [row], _, h => by
    refine ⟨sectionPad magNEIG nlb4 (neigData isz row), padLen_lt _, ?_⟩
    have := Comp.map (Comp.neig (h row (by simp))) (fun r => [r])
    simpa [qmNeigLoop, qmNeigSections, Prog.bind] using this
  | row :: row2 :: rest, _, h => by
    obtain ⟨pad, hp, ih⟩ := Comp.neigLoop (row2 :: rest) (by simp) (fun r hr => h r (by simp [hr]))
    refine ⟨pad, hp, ?_⟩
    have hrow := h row (by simp)
    simp only [qmNeigSections, List.length_cons, qmNeigLoop]
    refine Comp.bind_lenient (fun rest' => (Comp.neig hrow).full rest') (NoUB.section _ _ _ (neigLoads_ne_ub isz dsz))
      (fun _ => EofFails.bind _ (EofFails.neigLoop isz dsz _)) ?_
    exact Comp.map ih (fun r => row :: r)

theorem qmNeigLoop_full {isz dsz : Nat} (rows : List (List (Nat × Bytes))) (h : ∀ row ∈ rows, RowOK isz dsz row) (rest : Bytes) :
    (qmNeigLoop isz dsz rows.length).run (qmNeigSections isz rows ++ rest) = .ok (rows, rest) := by
  by_cases hne : rows = []
  · subst hne; simp [qmNeigLoop, qmNeigSections, run]
  · obtain ⟨_, _, c⟩ := Comp.neigLoop rows hne h
    exact c.full rest

/-! ## the whole QM file -/

/-- what `to_file` may assume of a model: sizes agree with the header, payloads have the dtype's
    width, indices fit the index type, every section fits its length field -/
structure QmWF (h : QHeader J) (vi : VarInfo) (c : QContent) : Prop where
  dpos : 0 < h.dsize
  nvi : vi.length = h.nvars
  nlin : c.linear.length = h.nvars
  nlow : c.lower.length = h.nvars
  viwf : VarInfoWF h.dsize vi
  off : c.offset.length = h.dsize
  lin : ∀ b ∈ c.linear, b.length = h.dsize
  rows : ∀ row ∈ c.lower, RowOK h.isize h.dsize row
  szvi : (encVarInfo vi).length + 64 < 256 ^ nlb4
  szoff : c.offset.length + 64 < 256 ^ nlb4
  szlin : c.linear.flatten.length + 64 < 256 ^ nlb4

/-- the labels `from_file` ends up with -/
def qmResult (h : QHeader J) (vi : VarInfo) (c : QContent) (labels : List J) : QmLoaded J :=
  { hdr := h, varinfo := vi, content := c, labels := if h.vars.truthy then some labels else none }

/-- what the `VARS` section must satisfy when there is one -/
def VarsOK (parseVars : Bytes → Option (List J)) (varsText : Bytes) (labels : List J) : Prop :=
  JsonContract parseVars varsText labels ∧ (∀ b ∈ varsText, b < 128) ∧ varsText.length + 64 < 256 ^ nlb4

theorem padLinear_full (dsz : Nat) (lin : List Bytes) : padLinear dsz lin.length lin = lin := by
  simp [padLinear]

theorem EofFails.qmFinish_labelled (parseVars : Bytes → Option (List J)) (h : QHeader J) (ht : h.vars.truthy = true)
    (vi : VarInfo) (c : QContent) : EofFails (qmFinish parseVars h vi c) := by
  unfold qmFinish; rw [if_pos ht]
  exact EofFails.bind _ (EofFails.section _ _ _ magVARS_ne)

/-- the labels step, as the end of the file -/
theorem Comp.qmFinish_labelled (parseVars : Bytes → Option (List J)) (h : QHeader J) (ht : h.vars.truthy = true)
    (vi : VarInfo) (c : QContent) (varsText : Bytes) (labels : List J) (hv : VarsOK parseVars varsText labels) :
    Comp (qmFinish parseVars h vi c) (sectionDumps magVARS nlb4 varsText) (qmResult h vi c labels)
      (sectionPad magVARS nlb4 varsText) := by
  unfold qmFinish qmResult; rw [if_pos ht, if_pos ht]
  exact Comp.map (Comp.vars parseVars varsText labels hv.1 hv.2.1 hv.2.2) _

theorem qmFinish_unlabelled (parseVars : Bytes → Option (List J)) (h : QHeader J) (ht : h.vars.truthy = false)
    (vi : VarInfo) (c : QContent) (labels : List J) : qmFinish parseVars h vi c = .ret (qmResult h vi c labels) := by
  unfold qmFinish qmResult; simp [ht]

/-- everything after the header -/
theorem Comp.qmBody (parseVars : Bytes → Option (List J)) (h : QHeader J) (vi : VarInfo) (c : QContent)
    (varsText : Bytes) (labels : List J) (wf : QmWF h vi c) (hv : h.vars.truthy = true → VarsOK parseVars varsText labels) :
    ∃ pad, pad < 64 ∧ Comp (qmBody true parseVars h)
      (sectionDumps magVTYP nlb4 (encVarInfo vi) ++ (sectionDumps magOFFS nlb4 c.offset ++
        (sectionDumps magLINB nlb4 c.linear.flatten ++ (qmNeigSections h.isize c.lower ++
          (if h.vars.truthy then sectionDumps magVARS nlb4 varsText else [])))))
      (qmResult h vi c labels) pad := by
  have hvt : ∀ rest, (sectionLoadWith magVTYP nlb4 fun d => ivartypesLoad true h.dsize d h.nvars).run
      (sectionDumps magVTYP nlb4 (encVarInfo vi) ++ rest) = .ok (vi, rest) := fun rest =>
    sectionLoadWith_full _ _ _ _ vi (by decide) wf.szvi (by rw [← wf.nvi]; exact ivartypesLoad_full true _ vi wf.viwf _) rest
  have hof : ∀ rest, (sectionLoadWith magOFFS nlb4 (offsLoads h.dsize)).run
      (sectionDumps magOFFS nlb4 c.offset ++ rest) = .ok (c.offset, rest) := fun rest =>
    sectionLoadWith_full _ _ _ _ c.offset (by decide) wf.szoff (offsLoads_full _ _ _ wf.off wf.dpos) rest
  have hli : ∀ rest, (sectionLoadWith magLINB nlb4 (linbLoads h.dsize h.nvars)).run
      (sectionDumps magLINB nlb4 c.linear.flatten ++ rest) = .ok (c.linear, rest) := fun rest =>
    sectionLoadWith_full _ _ _ _ c.linear (by decide) wf.szlin (by rw [← wf.nlin]; exact linbLoads_full _ _ _ wf.lin wf.dpos) rest
  have nub1 : NoUB (sectionLoadWith magVTYP nlb4 fun d => ivartypesLoad true h.dsize d h.nvars) :=
    NoUB.section _ _ _ fun d => ivartypesLoad_guard_ne_ub _ _ _
  have nub2 : NoUB (sectionLoadWith magOFFS nlb4 (offsLoads h.dsize)) := NoUB.section _ _ _ (offsLoads_ne_ub _)
  have nub3 : NoUB (sectionLoadWith magLINB nlb4 (linbLoads h.dsize h.nvars)) := NoUB.section _ _ _ (linbLoads_ne_ub _ _)
  have hc : ({ offset := c.offset, linear := padLinear h.dsize h.nvars c.linear, lower := c.lower } : QContent) = c := by
    rw [← wf.nlin, padLinear_full]
  -- the three shapes of the end of the file
  by_cases ht : h.vars.truthy = true
  · -- labelled: VARS is last; everything before is lenient and followed by a section
    refine ⟨sectionPad magVARS nlb4 varsText, padLen_lt _, ?_⟩
    rw [if_pos ht]
    unfold FileFmt.qmBody
    refine Comp.bind_lenient hvt nub1 (fun _ => EofFails.bind _ (EofFails.section _ _ _ magOFFS_ne)) ?_
    refine Comp.bind_lenient hof nub2 (fun _ => EofFails.bind _ (EofFails.section _ _ _ magLINB_ne)) ?_
    refine Comp.bind_lenient hli nub3 ?_ ?_
    · intro lin'
      cases hn : h.nvars with
      | zero => simpa [qmNeigLoop, Prog.bind] using EofFails.qmFinish_labelled parseVars h ht _ _
      | succ k => exact EofFails.bind _ (EofFails.neigLoop _ _ _)
    · rw [← wf.nlow]
      refine Comp.bind_lenient (fun rest => qmNeigLoop_full c.lower wf.rows rest) (NoUB.neigLoop _ _ _)
        (fun _ => EofFails.qmFinish_labelled parseVars h ht _ _) ?_
      rw [wf.nlow, hc]
      exact Comp.qmFinish_labelled parseVars h ht vi c varsText labels (hv ht)
  · have htf : h.vars.truthy = false := by simpa using ht
    rw [if_neg ht, List.append_nil]
    by_cases hrows : c.lower = []
    · -- no variables: LINB is last
      have hn : h.nvars = 0 := by rw [← wf.nlow, hrows]; rfl
      have hlin : c.linear = [] := by
        have := wf.nlin; rw [hn] at this; exact List.length_eq_zero_iff.mp this
      refine ⟨sectionPad magLINB nlb4 c.linear.flatten, padLen_lt _, ?_⟩
      unfold FileFmt.qmBody
      refine Comp.bind_lenient hvt nub1 (fun _ => EofFails.bind _ (EofFails.section _ _ _ magOFFS_ne)) ?_
      refine Comp.bind_lenient hof nub2 (fun _ => EofFails.bind _ (EofFails.section _ _ _ magLINB_ne)) ?_
      rw [hrows, qmNeigSections, List.append_nil]
      have hlast : Comp (sectionLoadWith magLINB nlb4 (linbLoads h.dsize h.nvars)) (sectionDumps magLINB nlb4 c.linear.flatten)
          c.linear (sectionPad magLINB nlb4 c.linear.flatten) := by
        refine Comp.section _ _ _ _ c.linear (by decide) wf.szlin ?_ ?_
        · rw [← wf.nlin]; exact linbLoads_full _ _ _ wf.lin wf.dpos
        · intro j _
          right
          rw [hlin, hn]
          exact ⟨by simp, by simp [linbLoads, frombuffer, chunksN]⟩
      have := Comp.map hlast (fun lin => qmResult h vi { offset := c.offset, linear := padLinear h.dsize h.nvars lin, lower := [] } labels)
      rw [hn] at this ⊢
      simp only [qmNeigLoop, Prog.bind, qmFinish_unlabelled parseVars h htf _ _ labels]
      have hc2 : ({ offset := c.offset, linear := padLinear h.dsize 0 c.linear, lower := [] } : QContent) = c := by
        rw [← hrows, ← hn]; exact hc
      rw [hc2] at this
      exact this
    · -- variables, no labels: the last NEIG section is last
      obtain ⟨pad, hp, hloop⟩ := Comp.neigLoop (isz := h.isize) (dsz := h.dsize) c.lower hrows wf.rows
      refine ⟨pad, hp, ?_⟩
      unfold FileFmt.qmBody
      refine Comp.bind_lenient hvt nub1 (fun _ => EofFails.bind _ (EofFails.section _ _ _ magOFFS_ne)) ?_
      refine Comp.bind_lenient hof nub2 (fun _ => EofFails.bind _ (EofFails.section _ _ _ magLINB_ne)) ?_
      have hpos : ∃ k, h.nvars = k + 1 := by
        have : c.lower.length ≠ 0 := fun e => hrows (List.length_eq_zero_iff.mp e)
        rw [wf.nlow] at this
        exact ⟨h.nvars - 1, by omega⟩
      obtain ⟨k, hk⟩ := hpos
      refine Comp.bind_lenient hli nub3 (fun _ => by rw [hk]; exact EofFails.bind _ (EofFails.neigLoop _ _ _)) ?_
      simp only [qmFinish_unlabelled parseVars h htf _ _ labels]
      have := Comp.map hloop (fun low => qmResult h vi { offset := c.offset, linear := padLinear h.dsize h.nvars c.linear, lower := low } labels)
      rw [wf.nlow] at this
      simp only [hc] at this
      exact this

/-- what the header text must satisfy -/
def HeaderOK (parse : Bytes → Option H) (hdrText : Bytes) (h : H) : Prop :=
  JsonContract parse hdrText h ∧ (∀ b ∈ hdrText, b < 128) ∧ hdrText.length + 65 < 2 ^ 32

theorem qmEncode_eq (hdrText : Bytes) (h : QHeader J) (vi : VarInfo) (c : QContent) (varsText : Bytes) :
    qmEncode hdrText h vi c varsText = makeHeader qmPrefix 1 0 hdrText ++
      (sectionDumps magVTYP nlb4 (encVarInfo vi) ++ (sectionDumps magOFFS nlb4 c.offset ++
        (sectionDumps magLINB nlb4 c.linear.flatten ++ (qmNeigSections h.isize c.lower ++
          (if h.vars.truthy then sectionDumps magVARS nlb4 varsText else []))))) := by
  simp [qmEncode]

/-- **the QM file**: `from_file (to_file m)` is `m`, and cutting the file short raises unless only
    trailing padding (fewer than 64 bytes) was lost -/
theorem Comp.qm (parse : Bytes → Option (QHeader J)) (parseVars : Bytes → Option (List J)) (hdrText varsText : Bytes)
    (h : QHeader J) (vi : VarInfo) (c : QContent) (labels : List J)
    (hh : HeaderOK parse hdrText h) (wf : QmWF h vi c) (hv : h.vars.truthy = true → VarsOK parseVars varsText labels) :
    ∃ pad, pad < 64 ∧ Comp (qmDecode true parse parseVars) (qmEncode hdrText h vi c varsText) (qmResult h vi c labels) pad := by
  obtain ⟨pad, hp, hb⟩ := Comp.qmBody parseVars h vi c varsText labels wf hv
  refine ⟨pad, hp, ?_⟩
  rw [qmEncode_eq]
  unfold qmDecode
  refine Comp.bind_lenient (a := ([(1 : UInt8).toNat, (0 : UInt8).toNat], h))
    (fun rest => readHeader_full qmPrefix hdrText 1 0 parse h hh.1 hh.2.1 hh.2.2 rest) (NoUB.header _ _) ?_ ?_
  · intro vh
    by_cases hver : tupleLt [2, 0] vh.1 = true
    · rw [if_pos hver]; exact ⟨.value, rfl⟩
    · rw [if_neg hver]; exact EofFails.bind _ (EofFails.section _ _ _ magVTYP_ne)
  · have : tupleLt [2, 0] [(1 : UInt8).toNat, (0 : UInt8).toNat] = false := by decide
    simp only [this, Bool.false_eq_true, if_false]
    exact hb

end FileFmt
