import DimodProofs.CqmBasic

/-! `Expression::reindex_variables` (property C05): the three loops leave `indices_` the inverse of
    `variables_`; variables keep their local order; coefficients are carried over unchanged. -/

namespace CqmP
open Expr

/-- `indices_` is the inverse of `variables_` -/
def IdxInv (vars : List Nat) (idx : AMap Nat Nat) : Prop :=
  ∀ g i, idx.get? g = some i ↔ vars[i]? = some g

theorem get?_eraseAbove (v : Nat) (vars : List Nat) (m : AMap Nat Nat) (k : Nat) :
    (eraseAbove v vars m).get? k = if k > v ∧ k ∈ vars then none else m.get? k := by
  unfold eraseAbove
  induction vars generalizing m with
  | nil => simp
  | cons u t ih =>
    rw [List.foldl_cons, ih]
    by_cases hk : k > v ∧ k ∈ t
    · have h2 : k > v ∧ k ∈ u :: t := ⟨hk.1, List.mem_cons_of_mem _ hk.2⟩
      rw [if_pos hk, if_pos h2]
    · rw [if_neg hk]
      by_cases huv : u > v
      · rw [if_pos huv, get?_erase]
        by_cases huk : u = k
        · subst huk
          have h2 : u > v ∧ u ∈ u :: t := ⟨huv, List.mem_cons_self⟩
          rw [if_pos rfl, if_pos h2]
        · have h2 : ¬ (k > v ∧ k ∈ u :: t) := by
            intro ⟨h1, h3⟩
            rcases List.mem_cons.mp h3 with h | h
            · exact huk h.symm
            · exact hk ⟨h1, h⟩
          rw [if_neg huk, if_neg h2]
      · rw [if_neg huv]
        have h2 : ¬ (k > v ∧ k ∈ u :: t) := by
          intro ⟨h1, h3⟩
          rcases List.mem_cons.mp h3 with h | h
          · subst h; exact huv h1
          · exact hk ⟨h1, h⟩
        rw [if_neg h2]

theorem get?_setRange_untouched (vars : List Nat) (p : Nat → Bool) (is : List Nat) (m : AMap Nat Nat) (k : Nat)
    (h : ∀ i ∈ is, ¬ (p (vars.getD i 0) = true ∧ vars.getD i 0 = k)) :
    (setRange vars p is m).get? k = m.get? k := by
  unfold setRange
  induction is generalizing m with
  | nil => rfl
  | cons i t ih =>
    rw [List.foldl_cons, ih _ (fun j hj => h j (List.mem_cons_of_mem _ hj))]
    have hi := h i List.mem_cons_self
    by_cases hp : p (vars.getD i 0) = true
    · rw [if_pos hp, get?_set]
      have : ¬ vars.getD i 0 = k := fun hk => hi ⟨hp, hk⟩
      rw [if_neg this]
    · rw [if_neg hp]

theorem get?_setRange_hit (vars : List Nat) (p : Nat → Bool) (is : List Nat) (m : AMap Nat Nat) (k i0 : Nat)
    (hmem : i0 ∈ is) (hp : p (vars.getD i0 0) = true) (hk : vars.getD i0 0 = k)
    (huniq : ∀ i ∈ is, vars.getD i 0 = k → i = i0) :
    (setRange vars p is m).get? k = some i0 := by
  induction is generalizing m with
  | nil => simp at hmem
  | cons i t ih =>
    have step : setRange vars p (i :: t) m
        = setRange vars p t (if p (vars.getD i 0) then m.set (vars.getD i 0) i else m) := by
      unfold setRange; rw [List.foldl_cons]
    rw [step]
    by_cases hin : i0 ∈ t
    · exact ih _ hin (fun j hj => huniq j (List.mem_cons_of_mem _ hj))
    · have hi : i = i0 := by
        rcases List.mem_cons.mp hmem with h | h
        · exact h.symm
        · exact absurd h hin
      subst hi
      rw [get?_setRange_untouched]
      · rw [if_pos hp, get?_set, hk]; simp
      · intro j hj ⟨_, hjk⟩
        have := huniq j (List.mem_cons_of_mem _ hj) hjk
        subst this; exact hin hj

theorem shiftDown_eq (v : Nat) (vars : List Nat) : shiftDown v vars = vars.map (shift v) := rfl

theorem nodup_shiftDown {v : Nat} {vars : List Nat} (hnd : vars.Nodup) (hv : v ∉ vars) :
    (shiftDown v vars).Nodup := by
  rw [shiftDown_eq]
  induction vars with
  | nil => simp
  | cons a t ih =>
    rw [List.nodup_cons] at hnd
    rw [List.map_cons, List.nodup_cons]
    refine ⟨?_, ih hnd.2 (fun h => hv (List.mem_cons_of_mem _ h))⟩
    intro hmem
    obtain ⟨b, hb, hab⟩ := List.mem_map.mp hmem
    have hbv : b ≠ v := fun h => hv (h ▸ List.mem_cons_of_mem _ hb)
    have hav : a ≠ v := fun h => hv (h ▸ List.mem_cons_self)
    have := shift_inj hbv hav hab
    subst this
    exact hnd.1 hb

theorem getElem?_shiftDown (v : Nat) (vars : List Nat) (i : Nat) :
    (shiftDown v vars)[i]? = (vars[i]?).map (shift v) := by
  rw [shiftDown_eq, List.getElem?_map]

theorem getD_of_getElem? {l : List Nat} {i g : Nat} (h : l[i]? = some g) : l.getD i 0 = g := by
  rw [List.getD_eq_getElem?_getD, h]; rfl

theorem lt_of_getElem? {α} {l : List α} {i : Nat} {a : α} (h : l[i]? = some a) : i < l.length := by
  obtain ⟨h', _⟩ := List.getElem?_eq_some_iff.mp h
  exact h'

theorem idx_unique_of_nodup {l : List Nat} (hnd : l.Nodup) {i j g : Nat} (hi : l[i]? = some g) (hj : l[j]? = some g) : i = j := by
  obtain ⟨hil, hi'⟩ := List.getElem?_eq_some_iff.mp hi
  obtain ⟨hjl, hj'⟩ := List.getElem?_eq_some_iff.mp hj
  have hp := List.pairwise_iff_getElem.mp hnd
  rcases Nat.lt_trichotomy i j with h | h | h
  · exact absurd (hi'.trans hj'.symm) (hp i j hil hjl h)
  · exact h
  · exact absurd (hj'.trans hi'.symm) (hp j i hjl hil h)

theorem mem_of_getElem? {α} {l : List α} {i : Nat} {a : α} (h : l[i]? = some a) : a ∈ l := by
  obtain ⟨h', h2⟩ := List.getElem?_eq_some_iff.mp h
  exact h2 ▸ List.getElem_mem h'

/-- the three loops: given that `idx` is right in front of `start` and mentions nothing outside `vars`,
    the result is the inverse of the decremented `vars` -/
theorem idxInv_reindexTail (start : Nat) (e : Expr) (v : Nat)
    (hnd : e.vars.Nodup) (hv : v ∉ e.vars) (hstart : start ≤ e.vars.length)
    (hfront : ∀ g j, j < start → e.vars[j]? = some g → e.idx.get? g = some j)
    (hkeys : ∀ g, e.idx.get? g ≠ none → g ∈ e.vars) :
    IdxInv (reindexTail start e v).vars (reindexTail start e v).idx := by
  have hsdnd := nodup_shiftDown hnd hv
  have hlen : (shiftDown v e.vars).length = e.vars.length := by rw [shiftDown_eq, List.length_map]
  -- a key different from every entry of the new `vars` is not written by loops 2 and 3
  have untouched3 : ∀ (m : AMap Nat Nat) (g : Nat),
      (∀ j, start ≤ j → (shiftDown v e.vars)[j]? ≠ some g) →
      (setRange (shiftDown v e.vars) (fun _ => true)
        (List.range' start ((shiftDown v e.vars).length - start)) m).get? g = m.get? g := by
    intro m g hg
    apply get?_setRange_untouched
    intro j hj ⟨_, hjk⟩
    rw [List.mem_range'] at hj
    obtain ⟨t, ht, rfl⟩ := hj
    have hjl : start + 1 * t < (shiftDown v e.vars).length := by omega
    apply hg (start + 1 * t) (by omega)
    rw [List.getElem?_eq_getElem hjl]
    rw [List.getD_eq_getElem?_getD, List.getElem?_eq_getElem hjl] at hjk
    exact congrArg some hjk
  have untouched2 : ∀ (m : AMap Nat Nat) (g : Nat),
      (∀ j, j < start → (shiftDown v e.vars)[j]? = some g → g < v) →
      (setRange (shiftDown v e.vars) (fun u => decide (u ≥ v)) (List.range start) m).get? g = m.get? g := by
    intro m g hg
    apply get?_setRange_untouched
    intro j hj ⟨hp, hjk⟩
    rw [List.mem_range] at hj
    have hjl : j < (shiftDown v e.vars).length := by omega
    rw [List.getD_eq_getElem?_getD, List.getElem?_eq_getElem hjl] at hjk hp
    have := hg j hj (by rw [List.getElem?_eq_getElem hjl]; exact congrArg some hjk)
    simp only [Option.getD_some, decide_eq_true_eq] at hp hjk
    omega
  -- direction ⇐
  have back : ∀ g i, (shiftDown v e.vars)[i]? = some g → (reindexTail start e v).idx.get? g = some i := by
    intro g i hgi
    have hil : i < (shiftDown v e.vars).length := lt_of_getElem? hgi
    unfold reindexTail
    simp only []
    by_cases his : start ≤ i
    · -- loop 3 writes it
      apply get?_setRange_hit _ _ _ _ _ i
      · rw [List.mem_range']; exact ⟨i - start, by omega, by omega⟩
      · rfl
      · exact getD_of_getElem? hgi
      · intro j hj hjk
        rw [List.mem_range'] at hj
        obtain ⟨t, ht, rfl⟩ := hj
        have hjl : start + 1 * t < (shiftDown v e.vars).length := by omega
        rw [List.getD_eq_getElem?_getD, List.getElem?_eq_getElem hjl] at hjk
        exact idx_unique_of_nodup hsdnd (by rw [List.getElem?_eq_getElem hjl]; exact congrArg some hjk) hgi
    · have his' : i < start := by omega
      rw [untouched3]
      · by_cases hgv : g ≥ v
        · -- loop 2 writes it
          apply get?_setRange_hit _ _ _ _ _ i
          · exact List.mem_range.mpr his'
          · rw [getD_of_getElem? hgi]; exact decide_eq_true hgv
          · exact getD_of_getElem? hgi
          · intro j hj hjk
            rw [List.mem_range] at hj
            have hjl : j < (shiftDown v e.vars).length := by omega
            rw [List.getD_eq_getElem?_getD, List.getElem?_eq_getElem hjl] at hjk
            exact idx_unique_of_nodup hsdnd (by rw [List.getElem?_eq_getElem hjl]; exact congrArg some hjk) hgi
        · -- below `v`: nothing is written, the old entry is still right
          have hgv' : g < v := by omega
          rw [untouched2 _ _ (fun _ _ _ => hgv'), get?_eraseAbove]
          have hng : ¬ (g > v ∧ g ∈ e.vars) := by intro ⟨h, _⟩; omega
          rw [if_neg hng]
          apply hfront g i his'
          rw [getElem?_shiftDown] at hgi
          obtain ⟨g', hg', hs⟩ := Option.map_eq_some_iff.mp hgi
          have hg'v : g' ≠ v := fun h => hv (h ▸ mem_of_getElem? hg')
          have : g' = g := by
            unfold shift at hs
            split at hs <;> omega
          rw [← this]; exact hg'
      · intro j hj hjg
        have := idx_unique_of_nodup hsdnd hjg hgi
        omega
  intro g i
  constructor
  · intro hgi
    -- either `g` occurs in the new `vars` (then at `i`, by ⇐) or it was never written and was erased
    by_cases hmem : g ∈ shiftDown v e.vars
    · obtain ⟨j, hj⟩ := List.getElem?_of_mem hmem
      have := back g j hj
      rw [hgi] at this
      have : i = j := Option.some.inj this
      rw [this]; exact hj
    · exfalso
      have hno : ∀ j, (shiftDown v e.vars)[j]? ≠ some g := fun j hj => hmem (mem_of_getElem? hj)
      unfold reindexTail at hgi
      simp only [] at hgi
      rw [untouched3 _ _ (fun j _ => hno j), untouched2 _ _ (fun j _ hj => absurd hj (hno j)), get?_eraseAbove] at hgi
      by_cases hgv : g > v ∧ g ∈ e.vars
      · rw [if_pos hgv] at hgi; cases hgi
      · rw [if_neg hgv] at hgi
        have hin : g ∈ e.vars := hkeys g (by rw [hgi]; exact Option.some_ne_none _)
        have hgne : g ≠ v := fun h => hv (h ▸ hin)
        have hlt : g < v := by
          rcases Nat.lt_or_ge g v with h | h
          · exact h
          · exfalso; exact hgv ⟨by omega, hin⟩
        apply hmem
        rw [shiftDown_eq]
        refine List.mem_map.mpr ⟨g, hin, ?_⟩
        unfold shift; rw [if_neg (by omega)]
  · exact back g i


/-! ### well-formed expressions and `reindex` -/

structure ExprWF (e : Expr) : Prop where
  nodup : e.vars.Nodup
  idx : IdxInv e.vars e.idx
  lin_len : e.qb.lin.length = e.vars.length
  adj_len : e.qb.adj.length = e.vars.length
  adj_lt : ∀ nb ∈ e.qb.adj, ∀ p ∈ nb, p.1 < e.vars.length

theorem eraseIdx_eq_filter {l : List Nat} (hnd : l.Nodup) {i v : Nat} (hi : l[i]? = some v) :
    Bqm.eraseIdx l i = l.filter (· ≠ v) := by
  induction l generalizing i with
  | nil => simp at hi
  | cons a t ih =>
    rw [List.nodup_cons] at hnd
    cases i with
    | zero =>
      simp only [List.getElem?_cons_zero, Option.some.injEq] at hi
      subst hi
      simp only [Bqm.eraseIdx, List.filter_cons, ne_eq, not_true_eq_false, decide_false, Bool.false_eq_true, if_false]
      symm
      rw [List.filter_eq_self]
      intro b hb
      simp only [ne_eq, decide_eq_true_eq]
      intro h; subst h; exact hnd.1 hb
    | succ i =>
      simp only [List.getElem?_cons_succ] at hi
      have hav : a ≠ v := fun h => hnd.1 (h ▸ mem_of_getElem? hi)
      simp only [Bqm.eraseIdx, List.filter_cons, ne_eq, hav, not_false_eq_true, decide_true, if_true]
      rw [ih hnd.2 hi]

theorem filter_ne_of_not_mem {l : List Nat} {v : Nat} (h : v ∉ l) : l.filter (· ≠ v) = l := by
  rw [List.filter_eq_self]
  intro b hb
  simp only [ne_eq, decide_eq_true_eq]
  intro hbv; subst hbv; exact h hb

theorem not_mem_of_idx_none {e : Expr} (hwf : ExprWF e) {v : Nat} (h : e.idx.get? v = none) : v ∉ e.vars := by
  intro hmem
  obtain ⟨j, hj⟩ := List.getElem?_of_mem hmem
  have := (hwf.idx v j).mpr hj
  rw [h] at this; cases this

/-- variables: the remaining ones keep their local order, each global index `u` becomes `u - [u > v]` -/
theorem reindex_vars {e : Expr} (hwf : ExprWF e) (v : Nat) :
    (e.reindex v).vars = (e.vars.filter (· ≠ v)).map (shift v) := by
  unfold Expr.reindex
  cases h : e.idx.get? v with
  | none =>
    simp only [reindexTail, shiftDown_eq]
    rw [filter_ne_of_not_mem (not_mem_of_idx_none hwf h)]
  | some i =>
    simp only [reindexTail, shiftDown_eq]
    rw [eraseIdx_eq_filter hwf.nodup ((hwf.idx v i).mp h)]

theorem not_mem_eraseIdx {l : List Nat} (hnd : l.Nodup) {i v : Nat} (hi : l[i]? = some v) : v ∉ Bqm.eraseIdx l i := by
  rw [eraseIdx_eq_filter hnd hi, List.mem_filter]
  intro ⟨_, h⟩
  simp at h

theorem nodup_eraseIdx {l : List Nat} (hnd : l.Nodup) (i : Nat) : (Bqm.eraseIdx l i).Nodup := by
  rw [eraseIdx_eq]
  exact List.Nodup.sublist (List.eraseIdx_sublist l i) hnd

/-- after `reindex_variables(v)`, `indices_` is again the inverse of `variables_` -/
theorem reindex_idxInv {e : Expr} (hwf : ExprWF e) (v : Nat) : IdxInv (e.reindex v).vars (e.reindex v).idx := by
  unfold Expr.reindex
  cases h : e.idx.get? v with
  | none =>
    simp only []
    apply idxInv_reindexTail _ _ _ hwf.nodup (not_mem_of_idx_none hwf h) (Nat.le_refl _)
    · intro g j _ hj; exact (hwf.idx g j).mpr hj
    · intro g hg
      cases hgi : e.idx.get? g with
      | none => exact absurd hgi hg
      | some j => exact mem_of_getElem? ((hwf.idx g j).mp hgi)
  | some i =>
    simp only []
    have hvi := (hwf.idx v i).mp h
    have hil : i < e.vars.length := lt_of_getElem? hvi
    apply idxInv_reindexTail
    · exact nodup_eraseIdx hwf.nodup i
    · exact not_mem_eraseIdx hwf.nodup hvi
    · simp only []; rw [length_eraseIdx _ _ hil]; omega
    · intro g j hj hgj
      simp only [] at hgj ⊢
      rw [getElem?_eraseIdx, if_pos hj] at hgj
      rw [get?_erase]
      have hgv : v ≠ g := by
        intro hvg; subst hvg
        have := idx_unique_of_nodup hwf.nodup hgj hvi
        omega
      rw [if_neg hgv]
      exact (hwf.idx g j).mpr hgj
    · intro g hg
      simp only [] at hg ⊢
      rw [get?_erase] at hg
      by_cases hvg : v = g
      · rw [if_pos hvg] at hg; exact absurd rfl hg
      · rw [if_neg hvg] at hg
        cases hgi : e.idx.get? g with
        | none => exact absurd hgi hg
        | some j =>
          have hj := (hwf.idx g j).mp hgi
          rw [eraseIdx_eq_filter hwf.nodup hvi, List.mem_filter]
          exact ⟨mem_of_getElem? hj, by simpa using (Ne.symm hvg)⟩


/-! ### coefficients travel with their variables -/

theorem getElem?_eraseIdx_shift {α} (l : List α) {i j : Nat} (hj : j ≠ i) :
    (Bqm.eraseIdx l i)[shift i j]? = l[j]? := by
  rw [getElem?_eraseIdx]
  unfold shift
  by_cases h : j > i
  · rw [if_pos h, if_neg (by omega)]
    congr 1; omega
  · rw [if_neg h, if_pos (by omega)]

theorem getD_eraseIdx_shift {α} (l : List α) {i j : Nat} (hj : j ≠ i) (d : α) :
    (Bqm.eraseIdx l i).getD (shift i j) d = l.getD j d := by
  simp only [List.getD_eq_getElem?_getD, getElem?_eraseIdx_shift l hj]

theorem nbhCoef_shiftNbh (i : Nat) (nb : List (Nat × Rat)) {k : Nat} (hk : k ≠ i) :
    QB.nbhCoef (QB.shiftNbh i nb) (shift i k) = QB.nbhCoef nb k := by
  unfold QB.shiftNbh
  induction nb with
  | nil => rfl
  | cons p t ih =>
    obtain ⟨w, c⟩ := p
    by_cases hw : w = i
    · subst hw
      have : ¬ w = k := fun h => hk h.symm
      simp only [List.filter_cons, ne_eq, not_true_eq_false, decide_false, Bool.false_eq_true, if_false,
        QB.nbhCoef, this]
      exact ih
    · simp only [List.filter_cons, ne_eq, hw, not_false_eq_true, decide_true, if_true, List.map_cons, QB.nbhCoef]
      have hkey : (if w > i then (w - 1, c) else (w, c)) = (shift i w, c) := by
        unfold shift; split <;> rfl
      rw [hkey]
      simp only [QB.nbhCoef]
      by_cases hwk : w = k
      · subst hwk; simp
      · have : ¬ shift i w = shift i k := fun h => hwk (shift_inj hw hk h)
        rw [if_neg this, if_neg hwk]
        exact ih

/-- the local index a variable has after `reindex_variables(v)` -/
def localShift (e : Expr) (v j : Nat) : Nat :=
  match e.idx.get? v with
  | some i => shift i j
  | none => j

theorem reindex_idx_get {e : Expr} (hwf : ExprWF e) (v g : Nat) (hg : g ≠ v) :
    (e.reindex v).idx.get? (shift v g) = (e.idx.get? g).map (localShift e v) := by
  have hinv := reindex_idxInv hwf v
  have hvars := reindex_vars hwf v
  cases hgj : e.idx.get? g with
  | some j =>
    have hj := (hwf.idx g j).mp hgj
    simp only [Option.map_some]
    apply (hinv _ _).mpr
    unfold localShift Expr.reindex
    cases h : e.idx.get? v with
    | none =>
      simp only [reindexTail]
      rw [getElem?_shiftDown, hj]; rfl
    | some i =>
      simp only [reindexTail]
      have hvi := (hwf.idx v i).mp h
      have hji : j ≠ i := by
        intro hji; subst hji
        rw [hj] at hvi; exact hg (Option.some.inj hvi)
      rw [getElem?_shiftDown, getElem?_eraseIdx_shift _ hji, hj]; rfl
  | none =>
    simp only [Option.map_none]
    cases hres : (e.reindex v).idx.get? (shift v g) with
    | none => rfl
    | some j' =>
      exfalso
      have hmem := mem_of_getElem? ((hinv _ _).mp hres)
      rw [hvars, List.mem_map] at hmem
      obtain ⟨g0, hg0, hs⟩ := hmem
      rw [List.mem_filter] at hg0
      have hg0v : g0 ≠ v := by simpa using hg0.2
      have := shift_inj hg0v hg hs
      subst this
      exact not_mem_of_idx_none hwf hgj hg0.1

theorem reindex_qb {e : Expr} (v : Nat) :
    (e.reindex v).qb = match e.idx.get? v with
      | some i => e.qb.removeVar i
      | none => e.qb := by
  unfold Expr.reindex
  cases e.idx.get? v <;> rfl

/-- no linear term gained or lost: variable `g ≠ v` keeps its bias under its new index -/
theorem reindex_linear {e : Expr} (hwf : ExprWF e) (v g : Nat) (hg : g ≠ v) :
    (e.reindex v).linear (shift v g) = e.linear g := by
  unfold Expr.linear
  rw [reindex_idx_get hwf v g hg, reindex_qb]
  cases hgj : e.idx.get? g with
  | none => rfl
  | some j =>
    simp only [Option.map_some]
    unfold localShift
    cases h : e.idx.get? v with
    | none => rfl
    | some i =>
      simp only [QB.removeVar]
      have hji : j ≠ i := by
        intro hji; subst hji
        have h1 := (hwf.idx g j).mp hgj
        have h2 := (hwf.idx v j).mp h
        rw [h1] at h2; exact hg (Option.some.inj h2)
      exact getD_eraseIdx_shift _ hji 0

/-- no quadratic term gained or lost -/
theorem reindex_quadratic {e : Expr} (hwf : ExprWF e) (v g h : Nat) (hg : g ≠ v) (hh : h ≠ v) :
    (e.reindex v).quadratic (shift v g) (shift v h) = e.quadratic g h := by
  unfold Expr.quadratic
  rw [reindex_idx_get hwf v g hg, reindex_idx_get hwf v h hh, reindex_qb]
  cases hgj : e.idx.get? g with
  | none => rfl
  | some j =>
    cases hhk : e.idx.get? h with
    | none => rfl
    | some k =>
      simp only [Option.map_some]
      unfold localShift
      cases hv : e.idx.get? v with
      | none => rfl
      | some i =>
        simp only [QB.removeVar]
        have ne_of : ∀ {x y : Nat}, x ≠ v → e.idx.get? x = some y → y ≠ i := by
          intro x y hx hxy hyi; subst hyi
          have h1 := (hwf.idx x y).mp hxy
          have h2 := (hwf.idx v y).mp hv
          rw [h1] at h2; exact hx (Option.some.inj h2)
        have hji := ne_of hg hgj
        have hki := ne_of hh hhk
        have : ((Bqm.eraseIdx e.qb.adj i).map (QB.shiftNbh i)).getD (shift i j) []
            = QB.shiftNbh i (e.qb.adj.getD j []) := by
          simp only [List.getD_eq_getElem?_getD, List.getElem?_map, getElem?_eraseIdx_shift _ hji]
          cases e.qb.adj[j]? <;> rfl
        rw [this]
        exact nbhCoef_shiftNbh i _ hki

theorem reindex_hasVar {e : Expr} (hwf : ExprWF e) (v g : Nat) (hg : g ≠ v) :
    (e.reindex v).hasVar (shift v g) = e.hasVar g := by
  unfold Expr.hasVar
  rw [reindex_idx_get hwf v g hg]
  cases e.idx.get? g <;> rfl

theorem reindex_off (e : Expr) (v : Nat) : (e.reindex v).qb.off = e.qb.off := by
  rw [reindex_qb]
  cases e.idx.get? v <;> rfl


/-! ### `reindex` preserves well-formedness -/

theorem mem_shiftNbh {i : Nat} {nb : List (Nat × Rat)} {q : Nat × Rat} (hq : q ∈ QB.shiftNbh i nb) :
    ∃ p ∈ nb, p.1 ≠ i ∧ q.1 = shift i p.1 := by
  unfold QB.shiftNbh at hq
  obtain ⟨p, hp, rfl⟩ := List.mem_map.mp hq
  rw [List.mem_filter] at hp
  refine ⟨p, hp.1, by simpa using hp.2, ?_⟩
  unfold shift
  split <;> rfl

theorem reindex_wf {e : Expr} (hwf : ExprWF e) (v : Nat) : ExprWF (e.reindex v) := by
  have hidx := reindex_idxInv hwf v
  refine ⟨?_, hidx, ?_, ?_, ?_⟩
  · rw [reindex_vars hwf v]
    have : (e.vars.filter (· ≠ v)).Nodup := List.Nodup.sublist List.filter_sublist hwf.nodup
    have hv : v ∉ e.vars.filter (· ≠ v) := by
      rw [List.mem_filter]; intro ⟨_, h⟩; simp at h
    exact nodup_shiftDown this hv
  all_goals
    unfold Expr.reindex
    cases h : e.idx.get? v with
    | none =>
      simp only [reindexTail, shiftDown_eq, List.length_map]
      first
        | exact hwf.lin_len
        | exact hwf.adj_len
        | exact hwf.adj_lt
    | some i =>
      have hvi := (hwf.idx v i).mp h
      have hil : i < e.vars.length := lt_of_getElem? hvi
      simp only [reindexTail, shiftDown_eq, List.length_map, QB.removeVar]
      first
        | (rw [length_eraseIdx _ _ (by rw [hwf.lin_len]; exact hil), length_eraseIdx _ _ hil, hwf.lin_len])
        | (rw [length_eraseIdx _ _ (by rw [hwf.adj_len]; exact hil), length_eraseIdx _ _ hil, hwf.adj_len])
        | (intro nb hnb q hq
           obtain ⟨nb0, hnb0, rfl⟩ := List.mem_map.mp hnb
           obtain ⟨p, hp, hpi, hqp⟩ := mem_shiftNbh hq
           have hnb0' : nb0 ∈ e.qb.adj := by
             rw [eraseIdx_eq] at hnb0
             exact (List.eraseIdx_sublist _ _).subset hnb0
           have := hwf.adj_lt nb0 hnb0' p hp
           rw [length_eraseIdx _ _ hil, hqp]
           unfold shift
           split <;> omega)

end CqmP
