import DimodProofs.C02Convert

/-! # C02 — `pyBQM.change_vartype` (dict algorithm, generated multiplier table) is the C++ `substitute_variables` -/

namespace En

open Generated.Vartype

namespace PyBqm

variable {R : Type}

/-- the dict-of-dicts model read as an index-based model (linear bias = the diagonal entry) -/
def toQMB (m : PyBqm R) : QMB R :=
  { lin := m.rows.map (·.1), adj := some (m.rows.map (·.2)), off := m.off }

variable [Field R]

theorem go_rows (t : PyTable R) (rows : List (R × Nbh R)) (off : R) :
    (changeVartypeWith.go t rows off).1
      = rows.map fun r => (r.2.foldl (fun l p => l + t.linQuadMp * p.2) (t.linMp * r.1), r.2.map fun p => (p.1, t.quadMp * p.2)) := by
  induction rows generalizing off with
  | nil => rfl
  | cons r rest ih =>
    obtain ⟨l, nb⟩ := r
    simp only [changeVartypeWith.go, List.map_cons]
    rw [ih]

theorem go_off (t : PyTable R) (rows : List (R × Nbh R)) (off : R) :
    (changeVartypeWith.go t rows off).2
      = off + t.linOffsetMp * (rows.map (·.1)).sum + t.quadOffsetMp * (rows.map fun r => (r.2.map (·.2)).sum).sum := by
  induction rows generalizing off with
  | nil => simp [changeVartypeWith.go]
  | cons r rest ih =>
    obtain ⟨l, nb⟩ := r
    simp only [changeVartypeWith.go, List.map_cons, List.sum_cons]
    rw [ih, QMB.foldl_add_mul]
    ring

theorem foldl_lin_list (lin : List R) (c o : R) : lin.foldl (fun o l => o + l * c) o = o + c * lin.sum := by
  induction lin generalizing o with
  | nil => simp
  | cons l ls ih => simp only [List.foldl_cons, List.sum_cons]; rw [ih]; ring

theorem foldl_rows_list (a : List (Nbh R)) (k o : R) :
    a.foldl (fun o nb => nb.foldl (fun o p => o + k * p.2) o) o = o + k * (a.map fun nb => (nb.map (·.2)).sum).sum := by
  induction a generalizing o with
  | nil => simp
  | cons nb rest ih =>
    simp only [List.foldl_cons, List.map_cons, List.sum_cons]
    rw [ih, QMB.foldl_add_mul]; ring

/-- **`pybqm_changeVartype_eq_cpp`**: whenever the five multipliers are `(mult, c, mult², mult·c, c²/2)`, one pass of
    the dict algorithm produces exactly the model `substitute_variables(mult, c)` produces: same offset, same linear
    biases, same neighbourhoods -/
theorem changeVartypeWith_eq_substituteVariables (t : PyTable R) (mult c : R)
    (h1 : t.linMp = mult) (h2 : t.linOffsetMp = c) (h3 : t.quadMp = mult * mult)
    (h4 : t.linQuadMp = mult * c) (h5 : t.quadOffsetMp = c * c / two) (m : PyBqm R) :
    (m.changeVartypeWith t).toQMB = m.toQMB.substituteVariables mult c := by
  unfold changeVartypeWith toQMB QMB.substituteVariables
  simp only [go_rows, go_off]
  have hlin : List.map (fun x => x.1)
      (List.map (fun r => (List.foldl (fun l p => l + t.linQuadMp * p.2) (t.linMp * r.1) r.2,
        List.map (fun p => (p.1, t.quadMp * p.2)) r.2)) m.rows)
      = List.zipWith (fun l (nb : Nbh R) => nb.foldl (fun l p => l + mult * c * p.2) l)
          ((m.rows.map (·.1)).map (· * mult)) (m.rows.map (·.2)) := by
    induction m.rows with
    | nil => rfl
    | cons r rest ih =>
      simp only [List.map_cons, List.zipWith_cons_cons]
      rw [ih, h1, h4, mul_comm mult r.1]
  have hadj : List.map (fun x => x.2)
      (List.map (fun r => (List.foldl (fun l p => l + t.linQuadMp * p.2) (t.linMp * r.1) r.2,
        List.map (fun p => (p.1, t.quadMp * p.2)) r.2)) m.rows)
      = (m.rows.map (·.2)).map (·.map fun p => (p.1, p.2 * (mult * mult))) := by
    rw [List.map_map, List.map_map]
    apply List.map_congr_left
    intro r _
    simp only [Function.comp]
    apply List.map_congr_left
    intro p _
    rw [h3, mul_comm]
  have hoff : m.off + t.linOffsetMp * (m.rows.map (·.1)).sum + t.quadOffsetMp * (m.rows.map fun r => (r.2.map (·.2)).sum).sum
      = (m.rows.map (·.2)).foldl (fun o nb => nb.foldl (fun o p => o + c * c / two * p.2) o)
          ((m.rows.map (·.1)).foldl (fun o l => o + l * c) m.off) := by
    rw [foldl_rows_list, foldl_lin_list, h2, h5, List.map_map]
    rfl
  rw [hlin, hadj, hoff]

end PyBqm

/-- the generated `pyBQM` table for target BINARY consists of the multipliers derived from the generated C++ pair `(2, −1)` -/
theorem pyToBinary_matches :
    pyToBinary.linMp = bqmToBinary.1 ∧ pyToBinary.linOffsetMp = bqmToBinary.2 ∧
    pyToBinary.quadMp = bqmToBinary.1 * bqmToBinary.1 ∧ pyToBinary.linQuadMp = bqmToBinary.1 * bqmToBinary.2 ∧
    pyToBinary.quadOffsetMp = bqmToBinary.2 * bqmToBinary.2 / two := by
  simp only [pyToBinary, bqmToBinary, two]; norm_num

/-- … and for target SPIN from `(1/2, 1/2)` -/
theorem pyToSpin_matches :
    pyToSpin.linMp = bqmToSpin.1 ∧ pyToSpin.linOffsetMp = bqmToSpin.2 ∧
    pyToSpin.quadMp = bqmToSpin.1 * bqmToSpin.1 ∧ pyToSpin.linQuadMp = bqmToSpin.1 * bqmToSpin.2 ∧
    pyToSpin.quadOffsetMp = bqmToSpin.2 * bqmToSpin.2 / two := by
  simp only [pyToSpin, bqmToSpin, two]; norm_num

/-- the dict back-end and the array back-ends convert identically, in both directions (generated constants) -/
theorem pybqm_changeVartype_eq_cpp (m : PyBqm Rat) :
    (m.changeVartypeWith pyToBinary).toQMB = m.toQMB.substituteVariables bqmToBinary.1 bqmToBinary.2 ∧
    (m.changeVartypeWith pyToSpin).toQMB = m.toQMB.substituteVariables bqmToSpin.1 bqmToSpin.2 := by
  obtain ⟨a1, a2, a3, a4, a5⟩ := pyToBinary_matches
  obtain ⟨b1, b2, b3, b4, b5⟩ := pyToSpin_matches
  exact ⟨PyBqm.changeVartypeWith_eq_substituteVariables _ _ _ a1 a2 a3 a4 a5 m,
         PyBqm.changeVartypeWith_eq_substituteVariables _ _ _ b1 b2 b3 b4 b5 m⟩

end En
