import DimodModel.PenaltyOpts
import DimodProofs.IneqCoded

/-! Round 7 (C16): the slack count over the extracted rule — which counts `n` give exactly `0..S`, and what an
    overshooting float `log2` does (D65g); the values the `cross_zero` slack variable adds; the `unbalanced`
    penalisation as coded. -/

open Pen Generated.SlackRule

theorem reps_nil_append (cs : List Nat) (t : Nat) : Reps (cs ++ []) t ↔ Reps cs t := by simp

theorem pows_reps_iff (n t : Nat) : Reps (pows n) t ↔ t < 2^n := by
  constructor
  · rintro ⟨bs, _, hd⟩
    have := dot_le_sum bs (pows n)
    have := pows_sum n
    omega
  · exact pows_repr n t

/-- the count is right (`2^n ≤ S < 2^(n+1)`): the coefficient list is the modelled one, exactly `0..S` -/
theorem coeffs_exact (n S : Nat) (h1 : 2^n ≤ S) (h2 : S < 2^(n+1)) : slackCoeffsBy n S = slackLog2 S := by
  have hS : S ≠ 0 := by
    have : 0 < 2^n := Nat.pow_pos (by decide)
    omega
  have hn : Nat.log2 S = n := (Nat.log2_eq_iff hS).2 ⟨h1, h2⟩
  simp [slackCoeffsBy, slackLog2, hn, h1]

theorem coeffs_cover_exact (n S : Nat) (h1 : 2^n ≤ S) (h2 : S < 2^(n+1)) (t : Nat) :
    Reps (slackCoeffsBy n S) t ↔ t ≤ S := by
  rw [coeffs_exact n S h1 h2]
  have : 0 < 2^n := Nat.pow_pos (by decide)
  exact slack_covers S (by omega) t

/-- the count is one too large but `S = 2^n − 1`: no remainder is appended and the powers alone give exactly `0..S` -/
theorem coeffs_cover_pow_pred (n S : Nat) (h : S + 1 = 2^n) (t : Nat) : Reps (slackCoeffsBy n S) t ↔ t ≤ S := by
  have hlt : ¬ 2^n ≤ S := by omega
  simp only [slackCoeffsBy, hlt, if_false, reps_nil_append, pows_reps_iff]
  omega

/-- **the count overshoots and `S < 2^n − 1`**: the value `S + 1` is a slack total — the slack can absorb a
    violation by one (mechanism of D65g: float `floor(log2 S)` returns `k` for `S` just below `2^k`) -/
theorem coeffs_overshoot (n S : Nat) (h : S + 1 < 2^n) : Reps (slackCoeffsBy n S) (S + 1) := by
  have hlt : ¬ 2^n ≤ S := by omega
  simp only [slackCoeffsBy, hlt, if_false, reps_nil_append, pows_reps_iff]
  exact h

/-- over the extracted rule the coefficient lists are the modelled ones -/
theorem slackLog2Bqm_eq (fl : Nat → Nat) (S : Nat) (hS : 1 ≤ S) : slackLog2Bqm fl S = slackLog2 S := by
  have h : bqmNumSlack = .bitLength := by decide
  simp only [slackLog2Bqm, numSlackBy, h]
  exact coeffs_exact _ S (Nat.log2_self_le (by omega)) Nat.lt_log2_self

theorem slackLog2Dqm_eq (fl : Nat → Nat) (S : Nat) (hS : 1 ≤ S) : slackLog2Dqm fl S = slackLog2 S := by
  have h : dqmNumSlack = .bitLength := by decide
  simp only [slackLog2Dqm, numSlackBy, h]
  exact coeffs_exact _ S (Nat.log2_self_le (by omega)) Nat.lt_log2_self

/-- `binary_encoding`: with an overshooting count the most significant coefficient is not positive -/
theorem enc_overshoot_nonpos (n ub : Nat) (h : ub + 1 ≤ 2^n) : ∃ c ∈ encCoeffsBy n ub, c ≤ 0 := by
  refine ⟨(ub : Int) - ((2^n : Nat) : Int) + 1, by simp [encCoeffsBy], ?_⟩
  have : ((ub + 1 : Nat) : Int) ≤ ((2^n : Nat) : Int) := Int.ofNat_le.2 h
  omega

/-- over the extracted rule `binary_encoding`'s coefficients are the modelled ones (all positive, exactly `0..ub`) -/
theorem encCoeffs_eq (fl : Nat → Nat) (v : Label) (ub : Nat) (h2 : 2 ≤ ub) (l : List (Label × Nat))
    (hl : binaryEncoding v ub = some l) : encCoeffs fl ub = l.map (fun p => ((p.2 : Nat) : Int)) := by
  have h : encMaxPow = .bitLength := by decide
  have hlt : ¬ ub < 2 := by omega
  simp only [binaryEncoding, hlt, if_false, Option.some.injEq] at hl
  subst hl
  have hle : 2^(Nat.log2 ub) ≤ ub := Nat.log2_self_le (by omega)
  have hpos : 0 < 2^(Nat.log2 ub) := Nat.pow_pos (by decide)
  simp only [encCoeffs, encCoeffsBy, numSlackBy, h, List.map_append, List.map_map, List.map_cons, List.map_nil]
  congr 1
  · -- the powers
    have : ∀ k, (pows k).map (fun (c : Nat) => (c : Int)) = (List.range k).map (fun e => (((2^e : Nat)) : Int)) := by
      intro k
      induction k with
      | zero => rfl
      | succ k ih => simp [pows, List.range_succ, ih]
    rw [this]
    rfl
  · simp only [List.cons.injEq, and_true]
    omega

/-! ### `cross_zero` -/

theorem reps_snoc (cs : List Nat) (a t : Nat) : Reps (cs ++ [a]) t ↔ Reps cs t ∨ (a ≤ t ∧ Reps cs (t - a)) := by
  constructor
  · rintro ⟨bs, hl, hd⟩
    have hlen : bs.length = cs.length + 1 := by simpa using hl
    have hsplit : bs = bs.take cs.length ++ bs.drop cs.length := (List.take_append_drop _ _).symm
    have htl : (bs.take cs.length).length = cs.length := by simp; omega
    have hdl : (bs.drop cs.length).length = 1 := by simp; omega
    obtain ⟨b, hb⟩ : ∃ b, bs.drop cs.length = [b] := by
      match hdr : bs.drop cs.length, hdl with
      | [b], _ => exact ⟨b, rfl⟩
    rw [hsplit, hb, dot_append _ _ _ _ htl] at hd
    cases b with
    | false =>
      left
      exact ⟨bs.take cs.length, htl, by simpa [dot] using hd⟩
    | true =>
      right
      have : dot (bs.take cs.length) cs + a = t := by simpa [dot] using hd
      exact ⟨by omega, bs.take cs.length, htl, by omega⟩
  · rintro (⟨bs, hl, hd⟩ | ⟨hle, bs, hl, hd⟩)
    · exact ⟨bs ++ [false], by simp [hl], by rw [dot_append _ _ _ _ hl, hd]; simp [dot]⟩
    · exact ⟨bs ++ [true], by simp [hl], by rw [dot_append _ _ _ _ hl, hd]; simp [dot]; omega⟩

/-- the totals the slack terms can take once the extra `cross_zero` variable with coefficient `a` is there:
    `0..S` and `a..S+a` -/
theorem cross_zero_values (S : Nat) (hS : 1 ≤ S) (a t : Nat) :
    Reps (slackLog2 S ++ [a]) t ↔ t ≤ S ∨ (a ≤ t ∧ t ≤ S + a) := by
  rw [reps_snoc, slack_covers S hS, slack_covers S hS]
  omega

namespace Pen

/-- the slack terms of the BQM method with `cross_zero=True`, over the extracted coefficient / guard: the plain
    log2 terms, and — when `lb_c > 0` — one more variable `slack_<label>_<num_slack+1>` with coefficient `ub_c − S` -/
theorem bqmSlack_cross (label : String) (ubc lbc : Int) (S : Nat) :
    bqmSlack label ubc lbc S true =
      bqmSlack label ubc lbc S false ++
        (if zeroConstraintBy bqmZeroNeedsPositive true ubc lbc S then
          [(Label.str s!"slack_{label}_{Nat.log2 S + 1}", zeroCoefBy bqmZeroCoef ubc S)] else []) := by
  have h1 : bqmZeroNeedsPositive = true := by decide
  have h2 : bqmZeroCoef = .ubcMinusS := by decide
  simp only [bqmSlack, zeroConstraintBy, zeroCoefBy, h1, h2, Bool.true_and, Bool.false_and, Bool.not_true, Bool.false_or,
    Bool.false_eq_true, if_false]
  split <;> simp

theorem evalBag_linScale (x : Label → Rat) (l0 : Rat) (terms : List (Label × Int)) :
    evalBag x (terms.map (fun t => PTerm.lin t.1 (l0 * (t.2 : Rat)))) = l0 * lsum x (castTerms terms) := by
  induction terms with
  | nil => simp [evalBag, lsum, castTerms]
  | cons t r ih =>
    simp only [List.map_cons, evalBag, PTerm.eval, ih, castTerms, lsum]
    simp only [castTerms] at ih
    grind

/-- **`penalization_method='unbalanced'` as coded**: the skip / infeasible exits come first; otherwise nothing is returned
    and the energy added at a 0/1 sample is `λ₀·Σaᵢzᵢ − ub_c + λ₁·(Σaᵢzᵢ − ub_c)²` with `ub_c = min(Σ⁺, ub − c)`
    (`lb` only decides skip / infeasible; the offset `−ub_c` is NOT scaled by `λ₀`) -/
theorem unbalanced_as_coded (label : String) (terms : List (Label × Int)) (l0 l1 : Rat) (c lb ub : Int) (cross : Bool) :
    match bqmIneqFull label terms (.pair l0 l1) c lb ub cross .unbalanced with
    | .skipped => ∀ z, Bin01 z → Feasible z terms c lb ub
    | .infeasible => ∀ z, Bin01 z → ¬ Feasible z terms c lb ub
    | .typeError => False
    | .badMethod => False
    | .ok bag sl => sl = [] ∧ ∀ z, Bin01 z →
        evalBag (toRat z) bag =
          l0 * ((isum z terms : Int) : Rat) - ((min (sumPos (terms.map (·.2))) (ub - c) : Int) : Rat)
            + l1 * (((isum z terms - min (sumPos (terms.map (·.2))) (ub - c)) * (isum z terms - min (sumPos (terms.map (·.2))) (ub - c)) : Int) : Rat) := by
  unfold bqmIneqFull
  have hu : ∀ ubc, (ineqPlan (terms.map (·.2)) c lb ub = .equality ubc ∨ ∃ lbc S, ineqPlan (terms.map (·.2)) c lb ub = .slack ubc lbc S) →
      ubc = min (sumPos (terms.map (·.2))) (ub - c) := by
    intro ubc h
    unfold ineqPlan at h
    simp only at h
    rcases h with h | ⟨lbc, S, h⟩ <;> (split at h <;> try split at h <;> try split at h) <;> simp_all
  have key : ∀ ubc z, Bin01 z →
      evalBag (toRat z) (terms.map (fun t => PTerm.lin t.1 (l0 * (t.2 : Rat))) ++ [PTerm.const (((-ubc : Int)) : Rat)]
        ++ eqTermsCy .binary (ratTerms terms) l1 (((-ubc : Int)) : Rat))
      = l0 * ((isum z terms : Int) : Rat) - ((ubc : Int) : Rat)
        + l1 * (((isum z terms - ubc) * (isum z terms - ubc) : Int) : Rat) := by
    intro ubc z hz
    rw [evalBag_append, evalBag_append, evalBag_linScale, lsum_cast, ratTerms_eq, penalty_int z hz]
    simp only [evalBag, PTerm.eval]
    have : isum z terms + -ubc = isum z terms - ubc := by omega
    rw [this]
    simp [Rat.intCast_neg]
    grind
  cases hp : ineqPlan (terms.map (·.2)) c lb ub with
  | skip => exact fun z hz => (ineq_plan_refusal terms c lb ub z hz).2 hp
  | infeasible => exact fun z hz => (ineq_plan_refusal terms c lb ub z hz).1 hp
  | equality ubc =>
    simp only
    refine ⟨trivial, fun z hz => ?_⟩
    rw [← hu ubc (Or.inl hp)]
    exact key ubc z hz
  | slack ubc lbc S =>
    simp only
    refine ⟨trivial, fun z hz => ?_⟩
    rw [← hu ubc (Or.inr ⟨lbc, S, hp⟩)]
    exact key ubc z hz

/-- the method dispatch: the always-satisfied / infeasible exits are taken whatever the method says; an unknown method,
    or a multiplier of the wrong shape, is refused only after them; the slack method with a number is `bqmIneq` -/
theorem method_dispatch (label : String) (terms : List (Label × Int)) (lam : Lagrange) (c lb ub : Int) (cross : Bool) (m : PMethod) :
    (ineqPlan (terms.map (·.2)) c lb ub = .skip → bqmIneqFull label terms lam c lb ub cross m = .skipped) ∧
    (ineqPlan (terms.map (·.2)) c lb ub = .infeasible → bqmIneqFull label terms lam c lb ub cross m = .infeasible) ∧
    (ineqPlan (terms.map (·.2)) c lb ub ≠ .skip → ineqPlan (terms.map (·.2)) c lb ub ≠ .infeasible →
      (∀ name, m = .other name → bqmIneqFull label terms lam c lb ub cross m = .badMethod) ∧
      (∀ l, lam = .scalar l → m = .unbalanced → bqmIneqFull label terms lam c lb ub cross m = .typeError) ∧
      (∀ l bag sl, lam = .scalar l → m = .slack → bqmIneq label terms l c lb ub cross = .ok bag sl →
        bqmIneqFull label terms lam c lb ub cross m = .ok bag sl)) := by
  unfold bqmIneqFull
  refine ⟨fun h => by rw [h], fun h => by rw [h], fun h1 h2 => ?_⟩
  cases hp : ineqPlan (terms.map (·.2)) c lb ub with
  | skip => exact absurd hp h1
  | infeasible => exact absurd hp h2
  | equality ubc =>
    refine ⟨fun _ hm => by subst hm; rfl, fun _ hl hm => by subst hl hm; rfl, fun l bag sl hl hm hb => ?_⟩
    subst hl hm; simp only [hb]
  | slack ubc lbc S =>
    refine ⟨fun _ hm => by subst hm; rfl, fun _ hl hm => by subst hl hm; rfl, fun l bag sl hl hm hb => ?_⟩
    subst hl hm; simp only [hb]

end Pen

namespace Pen

/-- **the energy `BQM.add_linear_inequality_constraint` adds, as coded, for EITHER value of `cross_zero`** (BINARY model,
    integer data): at every 0/1 sample it is `λ·(Σ aᵢzᵢ + Σ bⱼsⱼ − ub_c)²` over the returned slack terms `(sⱼ, bⱼ)` -/
theorem bqmIneq_energy (label : String) (terms : List (Label × Int)) (lam : Rat) (c lb ub : Int) (cross : Bool) :
    match bqmIneq label terms lam c lb ub cross with
    | .ok bag sl => ∀ z, Bin01 z →
        evalBag (toRat z) bag = lam * (((isum z terms + isum z sl - min (sumPos (terms.map (·.2))) (ub - c))
          * (isum z terms + isum z sl - min (sumPos (terms.map (·.2))) (ub - c)) : Int) : Rat)
    | _ => True := by
  unfold bqmIneq
  have hu : ∀ ubc, (ineqPlan (terms.map (·.2)) c lb ub = .equality ubc ∨ ∃ lbc S, ineqPlan (terms.map (·.2)) c lb ub = .slack ubc lbc S) →
      ubc = min (sumPos (terms.map (·.2))) (ub - c) := by
    intro ubc h
    unfold ineqPlan at h
    simp only at h
    rcases h with h | ⟨lbc, S, h⟩ <;> (split at h <;> try split at h <;> try split at h) <;> simp_all
  cases hp : ineqPlan (terms.map (·.2)) c lb ub with
  | skip => trivial
  | infeasible => trivial
  | equality ubc =>
    simp only
    intro z hz
    rw [← hu ubc (Or.inl hp), ratTerms_eq, penalty_int z hz]
    have e : isum z terms + isum z [] - ubc = isum z terms + -ubc := by simp only [isum]; omega
    rw [e]
  | slack ubc lbc S =>
    simp only
    intro z hz
    rw [← hu ubc (Or.inr ⟨lbc, S, hp⟩), evalBag_append, touch_eval, ratTerms_eq, penalty_int z hz, isum_append]
    simp only [Rat.zero_add]
    have e : isum z terms + isum z (bqmSlack label ubc lbc S cross) - ubc = isum z terms + isum z (bqmSlack label ubc lbc S cross) + -ubc := by omega
    rw [e]

end Pen

namespace Pen

/-- the DQM log2 method with `cross_zero=True`, over the extracted coefficient / guard: one more two-case variable whose
    case 1 carries `ub_c` — whenever `lb_c > 0 or ub_c < 0` (no further guard, unlike the BQM method) -/
theorem dqmSlack_cross_labels (label : String) (ubc lbc : Int) (S : Nat) :
    (dqmSlack label "log2" ubc lbc S true).map (fun v => (v.label, v.ncases, v.cases)) =
      (dqmSlack label "log2" ubc lbc S false).map (fun v => (v.label, v.ncases, v.cases)) ++
        (if zeroConstraintBy dqmZeroNeedsPositive true ubc lbc S then
          [(s!"slack_{label}_{Nat.log2 S + 1}", 2, [(1, zeroCoefBy dqmZeroCoef ubc S)])] else []) := by
  have h1 : dqmZeroNeedsPositive = false := by decide
  have h2 : dqmZeroCoef = .ubc := by decide
  simp only [dqmSlack, zeroConstraintBy, zeroCoefBy, h1, h2, Bool.true_and, Bool.false_and, Bool.not_false, Bool.true_or,
    Bool.and_true, Bool.false_eq_true, if_false, if_true]
  split <;> simp

end Pen

namespace Pen

/-- for ANY coefficient list `cs` carried by pairwise distinct fresh slack labels `ls`: the slack bits can be chosen so that
    the equality penalty vanishes iff `ub_c − Σaᵢzᵢ` is a subset sum of `cs` (λ > 0) -/
theorem penalty_zero_iff_reps (terms : List (Label × Int)) (lam : Rat) (hlam : 0 < lam) (ubc : Int) (cs : List Nat)
    (ls : List Label) (hlen : ls.length = cs.length) (hnd : ls.Nodup) (hfresh : ∀ t ∈ terms, t.1 ∉ ls)
    (z : Label → Int) (hz : Bin01 z) :
    (∃ z', Bin01 z' ∧ (∀ v, v ∉ ls → z' v = z v) ∧
      evalBag (toRat z') (eqTermsCy .binary (castTerms (terms ++ ls.zip (cs.map Int.ofNat))) lam (((-ubc : Int)) : Rat)) = 0)
    ↔ ∃ t : Nat, Reps cs t ∧ isum z terms + (t : Int) = ubc := by
  constructor
  · rintro ⟨z', hz', hag, h0⟩
    rw [penalty_int z' hz', isum_append] at h0
    have hk : isum z' terms + isum z' (ls.zip (cs.map Int.ofNat)) + -ubc = 0 := by
      rcases Decidable.em (isum z' terms + isum z' (ls.zip (cs.map Int.ofNat)) + -ubc = 0) with h | hne
      · exact h
      · exfalso
        have := (penalty_gap lam (Rat.le_of_lt hlam) _).2 hne
        rw [h0] at this
        exact absurd hlam (Rat.not_lt.2 this)
    obtain ⟨bs, hbl, hbd⟩ := isum_slack_as_dot z' hz' ls cs hlen
    have h1 : isum z' terms = isum z terms := isum_congr z z' terms (fun t ht => hag t.1 (hfresh t ht))
    refine ⟨dot bs cs, ⟨bs, hbl, rfl⟩, ?_⟩
    rw [hbd, h1] at hk
    omega
  · rintro ⟨t, ⟨bs, hbl, hbd⟩, heq⟩
    refine ⟨override z ls bs, override_bin z hz ls bs, fun v hv => override_off z ls bs v hv, ?_⟩
    rw [penalty_int _ (override_bin z hz ls bs), isum_append]
    apply (penalty_gap lam (Rat.le_of_lt hlam) _).1
    have h1 : isum (override z ls bs) terms = isum z terms :=
      isum_congr z _ terms (fun t ht => override_off z ls bs t.1 (hfresh t ht))
    have h2 : isum (override z ls bs) (ls.zip (cs.map Int.ofNat)) = (dot bs cs : Nat) :=
      isum_override z ls bs cs hnd hbl hlen
    rw [h1, h2, hbd]
    omega

/-- **`cross_zero=True`, the sums with zero penalty, as coded**: slack coefficients `slackLog2 S ++ [a]` (`a` the coefficient of
    the extra variable: `ub_c − S = lb_c` in the BQM method): the penalty can be made 0 iff `Σaᵢzᵢ ∈ [ub_c − S, ub_c]` or
    `Σaᵢzᵢ ∈ [ub_c − S − a, ub_c − a]` — for `a = lb_c` the second interval is `[0, S]`, not `{0}` -/
theorem cross_zero_penalty_zero_iff (terms : List (Label × Int)) (lam : Rat) (hlam : 0 < lam) (ubc : Int) (S a : Nat) (hS : 1 ≤ S)
    (ls : List Label) (hlen : ls.length = (slackLog2 S ++ [a]).length) (hnd : ls.Nodup) (hfresh : ∀ t ∈ terms, t.1 ∉ ls)
    (z : Label → Int) (hz : Bin01 z) :
    (∃ z', Bin01 z' ∧ (∀ v, v ∉ ls → z' v = z v) ∧
      evalBag (toRat z') (eqTermsCy .binary (castTerms (terms ++ ls.zip ((slackLog2 S ++ [a]).map Int.ofNat))) lam (((-ubc : Int)) : Rat)) = 0)
    ↔ (ubc - S ≤ isum z terms ∧ isum z terms ≤ ubc) ∨ (ubc - S - a ≤ isum z terms ∧ isum z terms ≤ ubc - a) := by
  rw [penalty_zero_iff_reps terms lam hlam ubc _ ls hlen hnd hfresh z hz]
  constructor
  · rintro ⟨t, ht, heq⟩
    rcases (cross_zero_values S hS a t).1 ht with h | ⟨h1, h2⟩
    · left; omega
    · right; omega
  · rintro (⟨h1, h2⟩ | ⟨h1, h2⟩)
    · refine ⟨(ubc - isum z terms).toNat, (cross_zero_values S hS a _).2 (Or.inl (by omega)), by omega⟩
    · refine ⟨(ubc - isum z terms).toNat, (cross_zero_values S hS a _).2 (Or.inr ⟨by omega, by omega⟩), by omega⟩

end Pen
