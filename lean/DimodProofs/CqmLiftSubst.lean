import DimodProofs.CqmKeySym

/-! `substitute_variable` on label-keyed polynomials, and with it `fix_variable`, `flip_variable`,
    `change_vartype` of a CQM as operations on the plain list of polynomials (property C05). -/

namespace CqmP
open Expr Cqm

/-- the substitution `x_l ↦ m·x_l + c` on a polynomial with at most quadratic terms -/
def LPoly.substitute (p : LPoly) (l : Label) (m c : Rat) : LPoly :=
  { vars := p.vars,
    off := p.off + p.lin l * c + p.quad l l * c * c,
    lin := fun x => if x = l then p.lin l * m + 2 * p.quad l l * m * c else p.lin x + p.quad l x * c,
    quad := fun x y => if x = l ∧ y = l then p.quad l l * (m * m) else if x = l ∨ y = l then p.quad x y * m else p.quad x y }

theorem linear_eq_linAt {e : Expr} {k j : Nat} (h : e.idx.get? k = some j) : e.linear k = linAt e.qb j := linear_of_idx h
theorem quadratic_eq_qAt {e : Expr} {x y i j : Nat} (hx : e.idx.get? x = some i) (hy : e.idx.get? y = some j) :
    e.quadratic x y = qAt e.qb i j := quadratic_of_idx hx hy

/-- `Expression::substitute_variable(g, m, c)` through the accessors (needs the repaired loop: the generated flag) -/
theorem substitute_accessors {e : Expr} (h : ExprKS e) (hs : ExprSorted e) (g : Nat) (m c : Rat) :
    (e.substitute g m c).vars = e.vars
    ∧ (e.substitute g m c).qb.off = e.qb.off + e.linear g * c + e.quadratic g g * c * c
    ∧ (∀ k, (e.substitute g m c).linear k
        = if k = g then e.linear g * m + 2 * e.quadratic g g * m * c else e.linear k + e.quadratic g k * c)
    ∧ (∀ x y, (e.substitute g m c).quadratic x y
        = if x = g ∧ y = g then e.quadratic g g * (m * m) else if x = g ∨ y = g then e.quadratic x y * m else e.quadratic x y) := by
  cases hg : e.idx.get? g with
  | none =>
    have hsub : e.substitute g m c = e := by unfold Expr.substitute; rw [hg]
    rw [hsub]
    have hl : e.linear g = 0 := linear_of_none hg
    have hq1 : ∀ y, e.quadratic g y = 0 := fun y => quadratic_of_none_left y hg
    have hq2 : ∀ x, e.quadratic x g = 0 := fun x => quadratic_of_none_right x hg
    refine ⟨rfl, by rw [hl, hq1]; ring, ?_, ?_⟩
    · intro k
      by_cases hk : k = g
      · subst hk; rw [if_pos rfl, hl, hq1]; ring
      · rw [if_neg hk, hq1]; ring
    · intro x y
      by_cases hx : x = g
      · subst hx
        by_cases hy : y = x
        · subst hy; rw [if_pos ⟨rfl, rfl⟩, hq1]; ring
        · rw [if_neg (fun h' => hy h'.2), if_pos (Or.inl rfl), hq1]; ring
      · by_cases hy : y = g
        · subst hy; rw [if_neg (fun h' => hx h'.1), if_pos (Or.inr rfl), hq2]; ring
        · rw [if_neg (fun h' => hx h'.1), if_neg (fun h' => h'.elim hx hy)]
  | some i =>
    have hsub : e.substitute g m c = { e with qb := e.qb.substituteWith true i m c } := by
      unfold Expr.substitute; rw [hg]; rfl
    have hil : i < e.vars.length := lt_of_getElem? ((h.1.idx g i).mp hg)
    obtain ⟨C1, C2, C3, C4, C5, C6⟩ := substitute_coeffs (qbOk_of_wf h.1) hs hil m c
    have hlg : e.linear g = linAt e.qb i := linear_eq_linAt hg
    have hqgg : e.quadratic g g = qAt e.qb i i := quadratic_eq_qAt hg hg
    have key_i : ∀ {x j : Nat}, e.idx.get? x = some j → (j = i ↔ x = g) := by
      intro x j hx
      constructor
      · intro hj; subst hj
        have a1 := (h.1.idx x _).mp hx
        have a2 := (h.1.idx g _).mp hg
        rw [a1] at a2; exact Option.some.inj a2
      · intro hxg; subst hxg; rw [hg] at hx; exact (Option.some.inj hx).symm
    rw [hsub]
    refine ⟨rfl, ?_, ?_, ?_⟩
    · show (e.qb.substituteWith true i m c).off = _
      rw [C1, hlg, hqgg]
    · intro k
      cases hk : e.idx.get? k with
      | none =>
        have hkg : k ≠ g := by intro h'; subst h'; rw [hg] at hk; cases hk
        rw [if_neg hkg, linear_of_none hk, quadratic_of_none_right g hk]
        rw [show ({ e with qb := e.qb.substituteWith true i m c } : Expr).linear k = 0 from
          linear_of_none (e := { e with qb := _ }) hk]
        ring
      | some j =>
        rw [show ({ e with qb := e.qb.substituteWith true i m c } : Expr).linear k = linAt (e.qb.substituteWith true i m c) j from
          linear_of_idx (e := { e with qb := _ }) hk]
        by_cases hji : j = i
        · have hkg := (key_i hk).mp hji
          subst hji; rw [if_pos hkg, C2, hlg, hqgg]
        · have hkg : k ≠ g := fun h' => hji ((key_i hk).mpr h')
          rw [if_neg hkg, C3 j hji, linear_eq_linAt hk, quadratic_eq_qAt hg hk]
    · intro x y
      cases hx : e.idx.get? x with
      | none =>
        have hxg : x ≠ g := by intro h'; subst h'; rw [hg] at hx; cases hx
        rw [show ({ e with qb := e.qb.substituteWith true i m c } : Expr).quadratic x y = 0 from
          quadratic_of_none_left (e := { e with qb := _ }) y hx]
        rw [if_neg (fun h' => hxg h'.1), quadratic_of_none_left y hx]
        split_ifs <;> ring
      | some jx =>
        cases hy : e.idx.get? y with
        | none =>
          have hyg : y ≠ g := by intro h'; subst h'; rw [hg] at hy; cases hy
          rw [show ({ e with qb := e.qb.substituteWith true i m c } : Expr).quadratic x y = 0 from
            quadratic_of_none_right (e := { e with qb := _ }) x hy]
          rw [if_neg (fun h' => hyg h'.2), quadratic_of_none_right x hy]
          split_ifs <;> ring
        | some jy =>
          rw [show ({ e with qb := e.qb.substituteWith true i m c } : Expr).quadratic x y
              = qAt (e.qb.substituteWith true i m c) jx jy from quadratic_of_idx (e := { e with qb := _ }) hx hy]
          rw [quadratic_eq_qAt hx hy]
          by_cases hxi : jx = i
          · have hxg := (key_i hx).mp hxi
            subst hxi
            rw [C4 jy]
            by_cases hyi : jy = jx
            · have hyg := (key_i hy).mp hyi
              subst hyi
              rw [if_pos rfl, if_pos ⟨hxg, hyg⟩, hqgg]
            · have hyg : y ≠ g := fun h' => hyi ((key_i hy).mpr h')
              rw [if_neg hyi, if_neg (fun h' => hyg h'.2), if_pos (Or.inl hxg)]
          · have hxg : x ≠ g := fun h' => hxi ((key_i hx).mpr h')
            by_cases hyi : jy = i
            · have hyg := (key_i hy).mp hyi
              subst hyi
              rw [C5 jx hxi, if_neg (show ¬ (x = g ∧ y = g) from fun h' => hxg h'.1),
                if_pos (show x = g ∨ y = g from Or.inr hyg)]
              by_cases hmem : jx ∈ (e.qb.adj.getD jy []).map Prod.fst
              · rw [if_pos hmem]
              · rw [if_neg hmem]
                -- by symmetry `jy` is not a neighbour of `jx` either: the entry is 0
                have : jy ∉ keyAt e.qb.adj jx := fun h' => hmem ((h.2 jx jy).mp h')
                have hz : qAt e.qb jx jy = 0 := nbhCoef_zero_of_not_key this
                rw [hz]; ring
            · have hyg : y ≠ g := fun h' => hyi ((key_i hy).mpr h')
              rw [C6 jx jy hxi hyi, if_neg (fun h' => hxg h'.1), if_neg (fun h' => h'.elim hxg hyg)]


/-- `expression.substitute_variable(lg, m, c)` on the polynomial -/
theorem absExpr_substitute {L : List Label} (hnd : L.Nodup) {e : Expr} (h : ExprKS e) (hs : ExprSorted e) {g : Nat} {lg : Label}
    (hg : L[g]? = some lg) (m c : Rat) : absExpr L (e.substitute g m c) = (absExpr L e).substitute lg m c := by
  obtain ⟨A1, A2, A3, A4⟩ := substitute_accessors h hs g m c
  have hfg := findIdx_of_get hnd hg
  unfold LPoly.substitute absExpr
  simp only [LPoly.mk.injEq, hfg]
  refine ⟨by rw [A1], ?_, ?_, A2⟩
  · funext x
    cases hk : findIdx x L 0 with
    | none =>
      have : x ≠ lg := by intro h'; subst h'; rw [hfg] at hk; cases hk
      simp only [this, if_false]; ring
    | some k =>
      simp only []
      rw [A3 k]
      by_cases hkg : k = g
      · have := (idx_eq_iff_label hnd hg hk).mp hkg
        subst hkg; rw [if_pos rfl, if_pos this]
      · rw [if_neg hkg, if_neg (fun h' => hkg ((idx_eq_iff_label hnd hg hk).mpr h'))]
  · funext x y
    cases hi : findIdx x L 0 with
    | none =>
      have hx : x ≠ lg := by intro h'; subst h'; rw [hfg] at hi; cases hi
      simp only [hx, false_and, if_false, false_or]
      split_ifs <;> ring
    | some i =>
      cases hj : findIdx y L 0 with
      | none =>
        have hy : y ≠ lg := by intro h'; subst h'; rw [hfg] at hj; cases hj
        simp only [hy, and_false, if_false, or_false]
        split_ifs <;> ring
      | some j =>
        simp only []
        rw [A4 i j]
        have e1 := idx_eq_iff_label hnd hg hi
        have e2 := idx_eq_iff_label hnd hg hj
        by_cases hc : i = g ∧ j = g
        · rw [if_pos hc, if_pos (show x = lg ∧ y = lg from ⟨e1.mp hc.1, e2.mp hc.2⟩)]
        · rw [if_neg hc, if_neg (show ¬ (x = lg ∧ y = lg) from fun h' => hc ⟨e1.mpr h'.1, e2.mpr h'.2⟩)]
          by_cases hd : i = g ∨ j = g
          · rw [if_pos hd, if_pos (show x = lg ∨ y = lg from hd.elim (fun a => Or.inl (e1.mp a)) (fun a => Or.inr (e2.mp a)))]
          · rw [if_neg hd, if_neg (show ¬ (x = lg ∨ y = lg) from
              fun h' => hd (h'.elim (fun a => Or.inl (e1.mpr a)) (fun a => Or.inr (e2.mpr a))))]

/-! ### the whole model -/

/-- apply `F` to the objective and to every constraint polynomial -/
def LCqm.mapPolys (s : LCqm) (F : LPoly → LPoly) : LCqm :=
  { s with obj := F s.obj, cons := s.cons.map fun p => (p.1, { p.2 with p := F p.2.p }) }

theorem absCqm_mapExprs {m : Cqm} (f : Expr → Expr) (F : LPoly → LPoly)
    (hfF : ∀ e, (e = m.obj ∨ ∃ c ∈ m.cons, e = c.e) → absExpr m.labels (f e) = F (absExpr m.labels e)) :
    absCqm (m.mapExprs f) = (absCqm m).mapPolys F := by
  unfold absCqm LCqm.mapPolys Cqm.mapExprs
  simp only [LCqm.mk.injEq, true_and]
  refine ⟨hfF m.obj (Or.inl rfl), ?_⟩
  have := map_snd_zip (fun (c : LCons) => ({ c with p := F c.p } : LCons)) m.clabels (m.cons.map (absCons m.labels))
  rw [this]
  congr 1
  rw [List.map_map, List.map_map]
  apply List.map_congr_left
  intro c hc
  simp only [Function.comp, absCons]
  rw [hfF c.e (Or.inr ⟨c, hc, rfl⟩)]

theorem exprs_ks {m : Cqm} (hk : AllExprs ExprKS m) {e : Expr} (he : e = m.obj ∨ ∃ c ∈ m.cons, e = c.e) : ExprKS e := by
  rcases he with rfl | ⟨c, hc, rfl⟩
  · exact hk.1
  · exact hk.2 c hc

theorem absCqm_mapSubstitute {m : Cqm} (hl : CqmLabelsOK m) (hk : AllExprs ExprKS m) (hs : AllExprs ExprSorted m)
    {g : Nat} {v : Label} (hg : m.labels[g]? = some v) (a c : Rat) :
    absCqm (m.mapExprs (·.substitute g a c)) = (absCqm m).mapPolys (·.substitute v a c) :=
  absCqm_mapExprs _ _ (fun _ he => absExpr_substitute hl.labels_nodup (exprs_ks hk he) (exprs_sorted hs he) hg a c)

/-- **`fix_variable(v, a)` in place** on the list of polynomials: substitute `x_v := a` (i.e. `x_v ↦ 0·x_v + a`) in the
    objective and in every constraint, then drop `v`; every other variable, type, bound, sense, rhs, weight, penalty
    and mark is untouched -/
theorem refines_fixVariable {m m' : Cqm} (hwf : CqmWF m) (hl : CqmLabelsOK m) (hk : AllExprs ExprKS m) (hs : AllExprs ExprSorted m)
    (v : Label) (a : Rat) (h : m.step (.fixVariable v a) = (m', none)) :
    absCqm m' = ((absCqm m).mapPolys (·.substitute v 0 a)).removeVariable v := by
  have h' : m.fixVariableR v a = (m', none) := h
  unfold Cqm.fixVariableR at h'
  cases hg : m.idx? v with
  | none => rw [hg] at h'; cases (Prod.mk.inj h').2
  | some g =>
    rw [hg] at h'
    simp only [] at h'
    rw [← (Prod.mk.inj h').1]
    have hgl := idx?_get hg
    rw [absCqm_removeVarAt (m := m.mapExprs (·.substitute g 0 a)) (mapSubstitute_wf hwf g 0 a) hl.labels_nodup hgl,
      absCqm_mapSubstitute hl hk hs hgl]

/-- **`flip_variable(v)`**: `x ↦ -x` for a SPIN, `x ↦ 1 - x` for a BINARY variable, in the objective and every
    constraint; labels, types, bounds, senses, rhs, weights, penalties are untouched (for a BINARY variable the marks of
    the discrete constraints that contain it are cleared: `unmarkDiscreteWith`) -/
theorem refines_flipVariable {m m' : Cqm} (hl : CqmLabelsOK m) (hk : AllExprs ExprKS m) (hs : AllExprs ExprSorted m)
    (v : Label) (h : m.step (.flipVariable v) = (m', none)) :
    ∃ g, m.idx? v = some g ∧
      ((m.vt.getD g .integer = .spin ∧ absCqm m' = (absCqm m).mapPolys (·.substitute v (-1) 0))
       ∨ (m.vt.getD g .integer = .binary ∧ m' = (m.mapExprs (·.substitute g (-1) 1)).unmarkDiscreteWith g
          ∧ absCqm (m.mapExprs (·.substitute g (-1) 1)) = (absCqm m).mapPolys (·.substitute v (-1) 1))) := by
  have h' : m.flipVariableR v = (m', none) := h
  unfold Cqm.flipVariableR at h'
  cases hg : m.idx? v with
  | none => rw [hg] at h'; cases (Prod.mk.inj h').2
  | some g =>
    rw [hg] at h'
    simp only [] at h'
    refine ⟨g, rfl, ?_⟩
    have hgl := idx?_get hg
    cases hvt : m.vt.getD g .integer with
    | spin =>
      rw [hvt] at h'; simp only [] at h'
      left; rw [← (Prod.mk.inj h').1]
      exact ⟨rfl, absCqm_mapSubstitute hl hk hs hgl _ _⟩
    | binary =>
      rw [hvt] at h'; simp only [] at h'
      right
      exact ⟨rfl, ((Prod.mk.inj h').1).symm, absCqm_mapSubstitute hl hk hs hgl _ _⟩
    | integer => rw [hvt] at h'; simp only [] at h'; cases (Prod.mk.inj h').2
    | real => rw [hvt] at h'; simp only [] at h'; cases (Prod.mk.inj h').2


/-! ### `change_vartype` -/

def LCqm.setInfo (s : LCqm) (v : Label) (i : VT4 × Rat × Rat) : LCqm :=
  { s with info := fun x => if x = v then some i else s.info x }

theorem absCqm_setInfo {m : Cqm} (_hwf : CqmWF m) (hl : CqmLabelsOK m) {g : Nat} {v : Label} (hg : m.labels[g]? = some v)
    (vt' : List VT4) (lb' ub' : List Rat) (t : VT4) (lo hi : Rat)
    (hvt : ∀ k, vt'.getD k .binary = if k = g then t else m.vt.getD k .binary)
    (hlb : ∀ k, lb'.getD k 0 = if k = g then lo else m.lb.getD k 0)
    (hub : ∀ k, ub'.getD k 0 = if k = g then hi else m.ub.getD k 0) (m0 : Cqm) (hm0 : m0.labels = m.labels) :
    (absCqm { m0 with vt := vt', lb := lb', ub := ub' }).info = ((absCqm m).setInfo v (t, lo, hi)).info := by
  funext x
  unfold absCqm LCqm.setInfo
  simp only [hm0]
  cases hk : findIdx x m.labels 0 with
  | none =>
    have : x ≠ v := by intro h'; subst h'; rw [findIdx_of_get hl.labels_nodup hg] at hk; cases hk
    simp [this]
  | some k =>
    simp only [Option.map_some]
    rw [hvt k, hlb k, hub k]
    by_cases hkg : k = g
    · have := (idx_eq_iff_label hl.labels_nodup hg hk).mp hkg
      simp [hkg, this]
    · have : x ≠ v := fun h' => hkg ((idx_eq_iff_label hl.labels_nodup hg hk).mpr h')
      simp [hkg, this]

theorem getD_setAt {α} (l : List α) (g k : Nat) (a d : α) (hg : g < l.length) :
    (setAt l g a).getD k d = if k = g then a else l.getD k d := by
  unfold Cqm.setAt
  rw [getD_modifyAt_gen]
  by_cases hk : k = g
  · rw [if_pos ⟨hk, hg⟩, if_pos hk]
  · rw [if_neg (fun h => hk h.1), if_neg hk]

/-- **`change_vartype(vartype, v)`** when it returns: either nothing changes (same type), or SPIN→BINARY / SPIN→INTEGER
    (`s = 2x - 1`, bounds become [0, 1]), BINARY→SPIN (`x = (s + 1)/2`, bounds [-1, 1]) — the substitution applied to
    the objective and every constraint and the variable's type and bounds replaced — or BINARY→INTEGER (type only) -/
theorem refines_changeVartype {m m' : Cqm} (hwf : CqmWF m) (hl : CqmLabelsOK m) (hk : AllExprs ExprKS m) (hs : AllExprs ExprSorted m)
    (vt : VT4) (v : Label) (h : m.step (.changeVartype vt v) = (m', none)) :
    m' = m
    ∨ (∃ a c t lo hi, (absCqm m').obj = ((absCqm m).mapPolys (·.substitute v a c)).obj
        ∧ (absCqm m').cons = ((absCqm m).mapPolys (·.substitute v a c)).cons
        ∧ (absCqm m').labels = (absCqm m).labels
        ∧ (absCqm m').info = ((absCqm m).setInfo v (t, lo, hi)).info
        ∧ ((a, c, t, lo, hi) = (2, -1, VT4.binary, 0, 1) ∨ (a, c, t, lo, hi) = (1/2, 1/2, VT4.spin, -1, 1)
            ∨ (a, c, t, lo, hi) = (2, -1, VT4.integer, 0, 1)))
    ∨ (∃ g, m.idx? v = some g ∧ m' = { m with vt := setAt m.vt g .integer }) := by
  have h' : m.changeVartypeR vt v = (m', none) := h
  unfold Cqm.changeVartypeR at h'
  cases hg : m.idx? v with
  | none => rw [hg] at h'; cases (Prod.mk.inj h').2
  | some g =>
    rw [hg] at h'
    simp only [] at h'
    have hgl := idx?_get hg
    have hglt : g < m.vt.length := idx?_lt hwf hg
    cases hr : m.changeVartypeAt vt g with
    | mk m1 ok =>
      rw [hr] at h'
      cases ok with
      | false => simp only [] at h'; cases (Prod.mk.inj h').2
      | true =>
        simp only [] at h'
        have hm : m1 = m' := (Prod.mk.inj h').1
        subst hm
        unfold Cqm.changeVartypeAt at hr
        simp only [] at hr
        -- the substitution cases share one argument
        have subst_case : ∀ (a c : Rat) (t : VT4) (lo hi : Rat),
            m1 = { m.mapExprs (·.substitute g a c) with vt := setAt m.vt g t, lb := setAt m.lb g lo, ub := setAt m.ub g hi } →
            (absCqm m1).obj = ((absCqm m).mapPolys (·.substitute v a c)).obj
            ∧ (absCqm m1).cons = ((absCqm m).mapPolys (·.substitute v a c)).cons
            ∧ (absCqm m1).labels = (absCqm m).labels
            ∧ (absCqm m1).info = ((absCqm m).setInfo v (t, lo, hi)).info := by
          intro a c t lo hi hm1
          have hms := absCqm_mapSubstitute hl hk hs hgl a c
          subst hm1
          refine ⟨?_, ?_, rfl, ?_⟩
          · have := congrArg LCqm.obj hms; exact this
          · have := congrArg LCqm.cons hms; exact this
          · exact absCqm_setInfo hwf hl hgl _ _ _ t lo hi
              (fun k => getD_setAt _ _ _ _ _ hglt)
              (fun k => getD_setAt _ _ _ _ _ (by rw [hwf.lb_len]; exact hglt))
              (fun k => getD_setAt _ _ _ _ _ (by rw [hwf.ub_len]; exact hglt)) _ rfl
        split_ifs at hr
        · left; exact ((Prod.mk.inj hr).1).symm
        · right; left
          exact ⟨2, -1, .binary, 0, 1, (subst_case 2 (-1) .binary 0 1 ((Prod.mk.inj hr).1).symm).1,
            (subst_case 2 (-1) .binary 0 1 ((Prod.mk.inj hr).1).symm).2.1,
            (subst_case 2 (-1) .binary 0 1 ((Prod.mk.inj hr).1).symm).2.2.1,
            (subst_case 2 (-1) .binary 0 1 ((Prod.mk.inj hr).1).symm).2.2.2, Or.inl rfl⟩
        · right; left
          exact ⟨1/2, 1/2, .spin, -1, 1, (subst_case (1/2) (1/2) .spin (-1) 1 ((Prod.mk.inj hr).1).symm).1,
            (subst_case (1/2) (1/2) .spin (-1) 1 ((Prod.mk.inj hr).1).symm).2.1,
            (subst_case (1/2) (1/2) .spin (-1) 1 ((Prod.mk.inj hr).1).symm).2.2.1,
            (subst_case (1/2) (1/2) .spin (-1) 1 ((Prod.mk.inj hr).1).symm).2.2.2, Or.inr (Or.inl rfl)⟩
        · right; left
          exact ⟨2, -1, .integer, 0, 1, (subst_case 2 (-1) .integer 0 1 ((Prod.mk.inj hr).1).symm).1,
            (subst_case 2 (-1) .integer 0 1 ((Prod.mk.inj hr).1).symm).2.1,
            (subst_case 2 (-1) .integer 0 1 ((Prod.mk.inj hr).1).symm).2.2.1,
            (subst_case 2 (-1) .integer 0 1 ((Prod.mk.inj hr).1).symm).2.2.2, Or.inr (Or.inr rfl)⟩
        · right; right
          exact ⟨g, rfl, ((Prod.mk.inj hr).1).symm⟩
        · cases (Prod.mk.inj hr).2


/-- **`fix_variables(fixed, inplace=True)`** when it returns: the single-variable step ("substitute the value, drop the
    variable" on the list of polynomials) for each entry, in the order given -/
theorem refines_fixVariables (fixed : List (Label × Rat)) : ∀ {m m' : Cqm}, CqmWF m → CqmLabelsOK m → AllExprs ExprKS m →
    AllExprs ExprSorted m → m.step (.fixVariables fixed) = (m', none) →
    absCqm m' = fixed.foldl (fun s p => (s.mapPolys (·.substitute p.1 0 p.2)).removeVariable p.1) (absCqm m) := by
  induction fixed with
  | nil =>
    intro m m' _ _ _ _ h
    have h' : (m, (none : Option ErrC)) = (m', none) := h
    rw [← (Prod.mk.inj h').1]; rfl
  | cons p t ih =>
    intro m m' hwf hl hk hs h
    obtain ⟨v, a⟩ := p
    have h' : m.fixVariablesInplace ((v, a) :: t) = (m', none) := h
    unfold Cqm.fixVariablesInplace at h'
    cases hr : m.fixVariableR v a with
    | mk m1 e1 =>
      cases e1 with
      | some e => rw [hr] at h'; simp only [] at h'; cases (Prod.mk.inj h').2
      | none =>
        rw [hr] at h'
        simp only [] at h'
        have hstep : m.step (.fixVariable v a) = (m1, none) := hr
        have e1 : (m.step (.fixVariable v a)).1 = m1 := by rw [hstep]
        have hwf1 : CqmWF m1 := e1 ▸ step_wf hwf (.fixVariable v a) trivial
        have hl1 : CqmLabelsOK m1 := e1 ▸ step_labels hl (.fixVariable v a)
        have hk1 : AllExprs ExprKS m1 := e1 ▸ step_all exprKS_closed hwf hk (.fixVariable v a) trivial
        have hs1 : AllExprs ExprSorted m1 := e1 ▸ step_all exprSorted_closed hwf hs (.fixVariable v a) trivial
        rw [List.foldl_cons, ← refines_fixVariable hwf hl hk hs v a hstep]
        exact ih hwf1 hl1 hk1 hs1 h'

end CqmP
