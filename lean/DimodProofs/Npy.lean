import DimodProofs.CqmClosed
import DimodModel.Npy

/-! # `.npy` / `.npz`: the modelled reader reads back what the modelled writer wrote  (C09 / C10, round 7) -/

namespace FileFmt

theorem stripPrefix_append : ∀ (p r : List Char), stripPrefix p (p ++ r) = some r
  | [], r => by cases r <;> rfl
  | c :: p, r => by simp [stripPrefix, stripPrefix_append p r]

theorem span_not_quote : ∀ (d rest : List Char), '\'' ∉ d →
    (d ++ '\'' :: rest).takeWhile (· ≠ '\'') = d ∧ (d ++ '\'' :: rest).dropWhile (· ≠ '\'') = '\'' :: rest
  | [], rest, _ => by simp
  | c :: d, rest, h => by
    have hc : c ≠ '\'' := fun e => h (by simp [e])
    have := span_not_quote d rest (fun hm => h (by simp [hm]))
    simpa [List.takeWhile_cons, List.dropWhile_cons, hc] using this

theorem parseShape_text (s : List Nat) (hs : s.length ≤ 1) (r : List Char) : parseShape (shapeText s ++ r) = some (s, r) := by
  match s, hs with
  | [], _ => rfl
  | [n], _ =>
    obtain ⟨c, ds, hcd⟩ := List.exists_cons_of_ne_nil (natDigits_ne_nil n)
    have hdig : ∀ x ∈ natDigits n, isDigit x = true := natDigits_digits n
    have hc : c ≠ ')' := by
      intro e; have := hdig c (by rw [hcd]; simp); rw [e] at this; revert this; decide
    have hsp := span_digits (natDigits n) (',' :: ')' :: r) hdig (by intro x hx; simp at hx; subst hx; decide)
    have hform : shapeText [n] ++ r = '(' :: (natDigits n ++ ',' :: ')' :: r) := by simp [shapeText]
    rw [hform]
    have hne : (natDigits n ++ ',' :: ')' :: r) = c :: (ds ++ ',' :: ')' :: r) := by rw [hcd]; rfl
    unfold parseShape
    rw [hne]
    split
    · rename_i heq; simp at heq; exact absurd heq.1 hc
    · rename_i r' heq
      simp only [List.cons.injEq, true_and] at heq
      subst heq
      rw [← hne, hsp.1, hsp.2]
      simp [natDigits_ne_nil, digitsVal_natDigits]
    · rename_i hno; exact absurd rfl (hno _)

theorem parseNpyDict_text (d : List Char) (s : List Nat) (ws : List Char) (hq : '\'' ∉ d) (hs : s.length ≤ 1)
    (hws : ws.all isWs = true) : parseNpyDict (npyDictText d s ++ ws) = some (d, false, s) := by
  unfold parseNpyDict npyDictText
  have hk2 : npyK2 ++ (npyFalse ++ (npyK3 ++ (shapeText s ++ npyK4))) ++ ws =
      '\'' :: (npyK2.tail ++ (npyFalse ++ (npyK3 ++ (shapeText s ++ npyK4))) ++ ws) := by simp [npyK2]
  have hsp := span_not_quote d (npyK2.tail ++ (npyFalse ++ (npyK3 ++ (shapeText s ++ npyK4))) ++ ws) hq
  simp only [List.append_assoc, stripPrefix_append, Option.bind_some] at hk2 ⊢
  rw [show d ++ (npyK2 ++ (npyFalse ++ (npyK3 ++ (shapeText s ++ (npyK4 ++ ws))))) =
      d ++ '\'' :: (npyK2.tail ++ (npyFalse ++ (npyK3 ++ (shapeText s ++ (npyK4 ++ ws))))) by simp [npyK2]]
  simp only [List.append_assoc] at hsp
  rw [hsp.1, hsp.2]
  rw [show '\'' :: (npyK2.tail ++ (npyFalse ++ (npyK3 ++ (shapeText s ++ (npyK4 ++ ws))))) =
      npyK2 ++ (npyFalse ++ (npyK3 ++ (shapeText s ++ (npyK4 ++ ws)))) by simp [npyK2]]
  simp only [stripPrefix_append, Option.bind_some, parseShape_text s hs, hws, if_true]

theorem asciiChars_spaces_nl (pad : Nat) : (asciiChars (spaces pad ++ [10])).all isWs = true := by
  simp only [asciiChars, spaces, List.map_append, List.map_replicate, List.all_append, List.all_replicate, List.map_cons, List.map_nil,
    List.all_cons, List.all_nil]
  simp
  exact ⟨Or.inr (by decide), by decide⟩

theorem npyDictText_ascii (d : List Char) (s : List Nat) (hd : ∀ c ∈ d, c.toNat < 128) : AllAscii (npyDictText d s) := by
  have hdig : AllAscii (shapeText s) := by
    cases s with
    | nil => decide
    | cons n t =>
      intro c hc
      simp only [shapeText, List.mem_cons, List.mem_append, List.not_mem_nil, or_false] at hc
      rcases hc with rfl | hc | rfl | rfl
      · decide
      · have := natDigits_digits n c hc
        unfold isDigit at this
        simp at this; omega
      · decide
      · decide
  unfold npyDictText
  exact AllAscii.append (by decide) (AllAscii.append hd (AllAscii.append (by decide) (AllAscii.append (by decide)
    (AllAscii.append (by decide) (AllAscii.append hdig (by decide))))))

/-- **one `.npy` member**: `read_array (write_array a) = a` for a one-dimensional (or 0-d) little-endian array -/
theorem parseNpy_npyFile (m : NpyMember) (hm : m.OK) (rest : Bytes) : parseNpy m.name (npyFile m ++ rest) = some m := by
  obtain ⟨⟨k, sz, hds, hlen⟩, hq, hasc, hrank, hsize⟩ := hm
  generalize htd : asciiBytes (npyDictText m.descr m.shape) = t at hsize
  generalize hpd : 64 - ((10 + (t.length + 1)) % 64) = pad
  have hpad : pad ≤ 64 := by omega
  have hfile : npyFile m ++ rest = (npyMagic ++ [1, 0]) ++ (toLE 2 (t.length + pad + 1) ++ ((t ++ (spaces pad ++ [10])) ++ (m.data ++ rest))) := by
    simp only [npyFile, npyHeader, htd, hpd, List.append_assoc]
  have h8 : (npyMagic ++ [1, 0] : Bytes).length = 8 := by decide
  have hm6 : npyMagic.length = 6 := by decide
  have hhl : leNat (toLE 2 (t.length + pad + 1)) = t.length + pad + 1 := leNat_toLE 2 _ (by omega)
  have hhlen : (t ++ (spaces pad ++ [10])).length = t.length + pad + 1 := by simp [spaces_length]; omega
  unfold parseNpy
  rw [hfile]
  simp only [List.take_left' h8, List.drop_left' h8]
  have e1 : (npyMagic ++ [1, 0] : Bytes).take 6 = npyMagic := by decide
  have e2 : (npyMagic ++ [1, 0] : Bytes).drop 6 = [1, 0] := by decide
  simp only [h8, e1, e2, ne_eq, not_true_eq_false, or_self, if_false, if_true, List.take_left' (toLE_length 2 _), toLE_length, hhl]
  have e3 : ((npyMagic ++ [1, 0]) ++ (toLE 2 (t.length + pad + 1) ++ ((t ++ (spaces pad ++ [10])) ++ (m.data ++ rest)))).drop (8 + 2) =
      (t ++ (spaces pad ++ [10])) ++ (m.data ++ rest) := by
    rw [← List.append_assoc, List.drop_left' (by simp [toLE_length, hm6])]
  have e4 : ((npyMagic ++ [1, 0]) ++ (toLE 2 (t.length + pad + 1) ++ ((t ++ (spaces pad ++ [10])) ++ (m.data ++ rest)))).drop (8 + 2 + (t.length + pad + 1)) =
      m.data ++ rest := by
    rw [← List.append_assoc, ← List.append_assoc, List.drop_left' (by simp [toLE_length, spaces_length, hm6]; omega)]
  rw [e3, e4, List.take_left' hhlen]
  simp only [hhlen, ne_eq, not_true_eq_false, if_false]
  have hparse : parseNpyDict (asciiChars (t ++ (spaces pad ++ [10]))) = some (m.descr, false, m.shape) := by
    rw [asciiChars_append, ← htd, asciiChars_asciiBytes _ (npyDictText_ascii _ _ hasc)]
    exact parseNpyDict_text _ _ _ hq hrank (asciiChars_spaces_nl pad)
  rw [hparse]
  simp only [Bool.false_eq_true, if_false, hds, ← hlen, List.take_left' rfl, ne_eq, not_true_eq_false]

theorem npzKey_suffix (n : List Char) : npzKey (n ++ npySuffix) = some n := by
  unfold npzKey
  have h1 : (n ++ npySuffix).length - 4 = n.length := by simp [npySuffix]
  rw [h1, List.drop_left' rfl, List.take_left' rfl]
  simp [npySuffix]

/-- **the whole archive**: every `<name>.npy` member parses back to its array -/
theorem npzMembersOf_archive : ∀ (ms : List NpyMember), (∀ m ∈ ms, m.OK) → npzMembersOf (npzArchive ms) = some ms
  | [], _ => rfl
  | m :: ms, h => by
    have hp := parseNpy_npyFile m (h m (by simp)) []
    rw [List.append_nil] at hp
    simp only [npzArchive, List.map_cons, npzMembersOf, npzKey_suffix, hp]
    have := npzMembersOf_archive ms (fun x hx => h x (by simp [hx]))
    simp only [npzArchive] at this
    rw [this]

end FileFmt
