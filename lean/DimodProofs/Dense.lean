import Mathlib.Algebra.BigOperators.Fin
import Mathlib.Algebra.BigOperators.Ring.Finset
import Mathlib.Tactic.Ring
import Mathlib.Tactic.Linarith

/-! Feasibility prototype (scratch): the algebraic layer on a dense coefficient view.
    `T u v` is the lower-triangle storage (what `iter_quadratic` reports), possibly with `T u u ≠ 0`
    for INTEGER/REAL variables. -/

open Finset

variable {R : Type} [CommRing R]

def evalD {n : Nat} (off : R) (L : Fin n → R) (T : Fin n → Fin n → R) (x : Fin n → R) : R :=
  off + ∑ u, L u * x u + ∑ u, ∑ v, T u v * x u * x v

/-- C03 `fix_eval` at the coefficient level: fixing variable `p` to `a`.
    `x` is any assignment of the n+1 variables that extends `x'` with `x p = a`. -/
theorem fix_eval {n : Nat} (off : R) (L : Fin (n+1) → R) (T : Fin (n+1) → Fin (n+1) → R)
    (p : Fin (n+1)) (a : R) (x' : Fin n → R) (x : Fin (n+1) → R)
    (hp : x p = a) (hs : ∀ i, x (p.succAbove i) = x' i) :
    evalD (off + a * L p + a * a * T p p)
          (fun i => L (p.succAbove i) + a * (T (p.succAbove i) p + T p (p.succAbove i)))
          (fun i j => T (p.succAbove i) (p.succAbove j)) x'
      = evalD off L T x := by
  unfold evalD
  have h1 : ∑ u, L u * x u = L p * a + ∑ i, L (p.succAbove i) * x' i := by
    rw [Fin.sum_univ_succAbove _ p]; simp [hp, hs]
  have h2 : ∀ u : Fin (n+1), ∑ v, T u v * x u * x v
      = T u p * x u * a + ∑ j, T u (p.succAbove j) * x u * x' j := by
    intro u; rw [Fin.sum_univ_succAbove _ p]; simp [hp, hs]
  have h3 : ∑ u, ∑ v, T u v * x u * x v
      = (T p p * a * a + ∑ j, T p (p.succAbove j) * a * x' j)
        + ∑ i, (T (p.succAbove i) p * x' i * a + ∑ j, T (p.succAbove i) (p.succAbove j) * x' i * x' j) := by
    simp only [h2]
    rw [Fin.sum_univ_succAbove _ p]; simp [hp, hs]
  rw [h1, h3]
  simp only [sum_add_distrib, add_mul, mul_add, mul_sum]
  ring_nf

/-- C02 `substVars_eval` at the coefficient level, no self-loops needed: x = m*y + c everywhere. -/
theorem subst_eval {n : Nat} (off : R) (L : Fin n → R) (T : Fin n → Fin n → R) (m c : R) (y : Fin n → R) :
    evalD (off + c * ∑ u, L u + c * c * ∑ u, ∑ v, T u v)
          (fun u => m * L u + m * c * (∑ v, T u v + ∑ v, T v u))
          (fun u v => m * m * T u v) y
      = evalD off L T (fun u => m * y u + c) := by
  unfold evalD
  simp only [mul_add, add_mul, sum_add_distrib, mul_sum, sum_mul]
  ring_nf
  rw [show (∑ x, ∑ x_1, c * m * T x_1 x * y x) = ∑ x, ∑ x_1, c * m * T x x_1 * y x_1 from sum_comm]
  ring

#print axioms fix_eval
#print axioms subst_eval

/-! ## the same dense view with `Nat`-indexed coefficient functions (sums over `range n`) -/

def evalR (n : Nat) (off : R) (L : Nat → R) (T : Nat → Nat → R) (x : Nat → R) : R :=
  off + ∑ u ∈ range n, L u * x u + ∑ u ∈ range n, ∑ v ∈ range n, T u v * x u * x v

theorem evalR_eq_evalD (n : Nat) (off : R) (L : Nat → R) (T : Nat → Nat → R) (x : Nat → R) :
    evalR n off L T x = evalD off (fun i : Fin n => L i) (fun i j : Fin n => T i j) (fun i : Fin n => x i) := by
  unfold evalR evalD
  rw [Fin.sum_univ_eq_sum_range (fun u => L u * x u) n,
      Fin.sum_univ_eq_sum_range (fun u => ∑ v : Fin n, T u v * x u * x v) n]
  congr 1
  apply sum_congr rfl
  intro u _
  rw [Fin.sum_univ_eq_sum_range (fun v => T u v * x u * x v) n]

/-! ## fixing / substituting one variable, `range`-indexed -/


/-- index of the `i`-th remaining variable after variable `p` is removed -/
def skip (p i : Nat) : Nat := if i < p then i else i + 1

theorem succAbove_val {n : Nat} (p : Fin (n+1)) (i : Fin n) : ((p.succAbove i : Fin (n+1)) : Nat) = skip p i := by
  unfold skip Fin.succAbove
  by_cases h : i.castSucc < p
  · have : (i : Nat) < p := h
    simp [h, this]
  · have : ¬ (i : Nat) < p := h
    simp [h, this]

/-- `fix_eval` over `range`-indexed sums: fixing variable `p ≤ n` of an `(n+1)`-variable model to `a` -/
theorem fix_evalR (n : Nat) (off : R) (L : Nat → R) (T : Nat → Nat → R) (p : Nat) (hp : p ≤ n) (a : R)
    (x' x : Nat → R) (hxp : x p = a) (hxs : ∀ i, i < n → x (skip p i) = x' i) :
    evalR n (off + a * L p + a * a * T p p)
          (fun i => L (skip p i) + a * (T (skip p i) p + T p (skip p i)))
          (fun i j => T (skip p i) (skip p j)) x'
      = evalR (n+1) off L T x := by
  rw [evalR_eq_evalD, evalR_eq_evalD]
  have := fix_eval off (fun i : Fin (n+1) => L i) (fun i j : Fin (n+1) => T i j) ⟨p, by omega⟩ a
    (fun i : Fin n => x' i) (fun i : Fin (n+1) => x i) (by simpa using hxp)
    (by intro i; simp only [succAbove_val]; exact hxs i i.2)
  simp only [succAbove_val] at this
  exact this


/-- substituting `m * y p + c` for the single variable `p < n` in the dense view (`T` lower-triangle storage,
    any values allowed) -/
theorem subst1_evalR (n : Nat) (off : R) (L : Nat → R) (T : Nat → Nat → R) (p : Nat) (hp : p < n) (m c : R)
    (y : Nat → R) :
    evalR n (off + c * L p + c * c * T p p)
          (fun u => if u = p then m * L p + (1 + 1) * m * c * T p p else L u + c * (T u p + T p u))
          (fun u v => T u v * (if u = p then m else 1) * (if v = p then m else 1)) y
      = evalR n off L T (fun u => if u = p then m * y p + c else y u) := by
  unfold evalR
  have hpm : p ∈ range n := mem_range.mpr hp
  -- abbreviations for the sums that appear
  set A := ∑ v ∈ range n, T p v * y v with hA
  set B := ∑ u ∈ range n, T u p * y u with hB
  -- rewrite every `if` as an additive correction with an indicator
  have e1 : ∀ u, (if u = p then m * y p + c else y u) = y u + (if u = p then (m - 1) * y p + c else 0) := by
    intro u; by_cases h : u = p <;> simp [h]; ring
  have eL : ∀ u, (if u = p then m * L p + (1 + 1) * m * c * T p p else L u + c * (T u p + T p u)) * y u
      = L u * y u + c * (T u p * y u) + c * (T p u * y u)
        + (if u = p then ((m - 1) * L p + (1 + 1) * (m - 1) * c * T p p) * y p else 0) := by
    intro u; by_cases h : u = p
    · subst h; simp; ring
    · simp [h]; ring
  have eT : ∀ u v, T u v * (if u = p then m else 1) * (if v = p then m else 1) * y u * y v
      = T u v * y u * y v + (if u = p then (m - 1) * y p * (T p v * y v) else 0)
        + (if v = p then (m - 1) * y p * (T u p * y u) else 0)
        + (if u = p then (if v = p then (m - 1) * (m - 1) * T p p * y p * y p else 0) else 0) := by
    intro u v
    by_cases hu : u = p <;> by_cases hv : v = p <;> simp [hu, hv] <;> ring
  have eX : ∀ u v, T u v * (y u + (if u = p then (m - 1) * y p + c else 0)) * (y v + (if v = p then (m - 1) * y p + c else 0))
      = T u v * y u * y v + (if u = p then ((m - 1) * y p + c) * (T p v * y v) else 0)
        + (if v = p then ((m - 1) * y p + c) * (T u p * y u) else 0)
        + (if u = p then (if v = p then ((m - 1) * y p + c) * ((m - 1) * y p + c) * T p p else 0) else 0) := by
    intro u v
    by_cases hu : u = p <;> by_cases hv : v = p <;> simp [hu, hv] <;> ring
  have eLx : ∀ u, L u * (y u + (if u = p then (m - 1) * y p + c else 0))
      = L u * y u + (if u = p then L p * ((m - 1) * y p + c) else 0) := by
    intro u; by_cases h : u = p <;> simp [h]; ring
  simp only [e1, eL, eT, eX, eLx, sum_add_distrib, sum_ite_eq', hpm, if_true, ← mul_sum, sum_const_zero]
  simp only [sum_ite_irrel, sum_const_zero, sum_ite_eq', hpm, if_true, ← mul_sum, ← hA, ← hB]
  ring

/-- `subst_eval` over `range`-indexed sums: `x = m*y + c` for every variable -/
theorem substAll_evalR (n : Nat) (off : R) (L : Nat → R) (T : Nat → Nat → R) (m c : R) (y : Nat → R) :
    evalR n (off + c * ∑ u ∈ range n, L u + c * c * ∑ u ∈ range n, ∑ v ∈ range n, T u v)
          (fun u => m * L u + m * c * (∑ v ∈ range n, T u v + ∑ v ∈ range n, T v u))
          (fun u v => m * m * T u v) y
      = evalR n off L T (fun u => m * y u + c) := by
  rw [evalR_eq_evalD, evalR_eq_evalD]
  have := subst_eval off (fun i : Fin n => L i) (fun i j : Fin n => T i j) m c (fun i : Fin n => y i)
  rw [← this]
  congr 1
  · rw [Fin.sum_univ_eq_sum_range (fun u => L u) n,
        Fin.sum_univ_eq_sum_range (fun u => ∑ v : Fin n, T u v) n]
    congr 2
    apply sum_congr rfl
    intro u _
    rw [Fin.sum_univ_eq_sum_range (fun v => T u v) n]
  · funext u
    rw [Fin.sum_univ_eq_sum_range (fun v => T u v) n, Fin.sum_univ_eq_sum_range (fun v => T v u) n]

theorem evalR_congr (n : Nat) (off off' : R) (L L' : Nat → R) (T T' : Nat → Nat → R) (x x' : Nat → R)
    (ho : off = off') (hL : ∀ u, u < n → L u = L' u) (hT : ∀ u v, u < n → v < n → T u v = T' u v)
    (hx : ∀ u, u < n → x u = x' u) :
    evalR n off L T x = evalR n off' L' T' x' := by
  unfold evalR
  rw [ho]
  congr 1
  · congr 1
    apply sum_congr rfl
    intro u hu
    rw [hL u (mem_range.mp hu), hx u (mem_range.mp hu)]
  · apply sum_congr rfl
    intro u hu
    apply sum_congr rfl
    intro v hv
    rw [hT u v (mem_range.mp hu) (mem_range.mp hv), hx u (mem_range.mp hu), hx v (mem_range.mp hv)]
