import Mathlib.Algebra.BigOperators.Fin
import Mathlib.Algebra.BigOperators.Ring.Finset
import Mathlib.Tactic.Ring

/-! Feasibility prototype (scratch): the algebraic layer on a dense coefficient view.
    `T u v` is the lower-triangle storage (what `iter_quadratic` reports), possibly with `T u u ≠ 0`
    for INTEGER/REAL variables. -/

open Finset

variable {R : Type} [CommRing R]

def evalD {n : Nat} (off : R) (L : Fin n → R) (T : Fin n → Fin n → R) (x : Fin n → R) : R :=
  off + ∑ u, L u * x u + ∑ u, ∑ v, T u v * x u * x v

/-- C03 `fix_eval` at the coefficient level: fixing variable `p` to `a`.
    `x` is any assignment of the n+1 variables that extends `x'` with `x p = a`. -/
theorem fix_eval {n : Nat} (off : R) (L : Fin (n+1) → R) (T : Fin (n+1) → Fin (n+1) → R)
    (p : Fin (n+1)) (a : R) (x' : Fin n → R) (x : Fin (n+1) → R)
    (hp : x p = a) (hs : ∀ i, x (p.succAbove i) = x' i) :
    evalD (off + a * L p + a * a * T p p)
          (fun i => L (p.succAbove i) + a * (T (p.succAbove i) p + T p (p.succAbove i)))
          (fun i j => T (p.succAbove i) (p.succAbove j)) x'
      = evalD off L T x := by
  unfold evalD
  have h1 : ∑ u, L u * x u = L p * a + ∑ i, L (p.succAbove i) * x' i := by
    rw [Fin.sum_univ_succAbove _ p]; simp [hp, hs]
  have h2 : ∀ u : Fin (n+1), ∑ v, T u v * x u * x v
      = T u p * x u * a + ∑ j, T u (p.succAbove j) * x u * x' j := by
    intro u; rw [Fin.sum_univ_succAbove _ p]; simp [hp, hs]
  have h3 : ∑ u, ∑ v, T u v * x u * x v
      = (T p p * a * a + ∑ j, T p (p.succAbove j) * a * x' j)
        + ∑ i, (T (p.succAbove i) p * x' i * a + ∑ j, T (p.succAbove i) (p.succAbove j) * x' i * x' j) := by
    simp only [h2]
    rw [Fin.sum_univ_succAbove _ p]; simp [hp, hs]
  rw [h1, h3]
  simp only [sum_add_distrib, add_mul, mul_add, mul_sum]
  ring_nf

/-- C02 `substVars_eval` at the coefficient level, no self-loops needed: x = m*y + c everywhere. -/
theorem subst_eval {n : Nat} (off : R) (L : Fin n → R) (T : Fin n → Fin n → R) (m c : R) (y : Fin n → R) :
    evalD (off + c * ∑ u, L u + c * c * ∑ u, ∑ v, T u v)
          (fun u => m * L u + m * c * (∑ v, T u v + ∑ v, T v u))
          (fun u v => m * m * T u v) y
      = evalD off L T (fun u => m * y u + c) := by
  unfold evalD
  simp only [mul_add, add_mul, sum_add_distrib, mul_sum, sum_mul]
  ring_nf
  rw [show (∑ x, ∑ x_1, c * m * T x_1 x * y x) = ∑ x, ∑ x_1, c * m * T x x_1 * y x_1 from sum_comm]
  ring

#print axioms fix_eval
#print axioms subst_eval
