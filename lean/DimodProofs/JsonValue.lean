import DimodModel.JsonValue
import DimodProofs.JsonString

/-! # `json.loads (json.dumps v) = v` at text level for the values dimod writes as labels:
    integers, floats (as text), strings, nested arrays — with and without the D11 escape of `/` -/

namespace FileFmt

/-! ## decimal digits -/

theorem digitChar_toNat : ∀ k, k < 10 → (Char.ofNat (48 + k)).toNat = 48 + k := by decide

theorem digitChar_isDigit (k : Nat) (h : k < 10) : isDigit (Char.ofNat (48 + k)) = true := by
  unfold isDigit; rw [digitChar_toNat k h]; simp; omega

theorem digitChar_ne_zero : ∀ k, k < 10 → 0 < k → Char.ofNat (48 + k) ≠ '0' := by decide

theorem natDigits_small (n : Nat) (h : n < 10) : natDigits n = [Char.ofNat (48 + n)] := by
  rw [natDigits]; simp [h]

theorem natDigits_big (n : Nat) (h : ¬ n < 10) : natDigits n = natDigits (n / 10) ++ [Char.ofNat (48 + n % 10)] := by
  rw [natDigits]; simp [h]

theorem natDigits_digits (n : Nat) : ∀ c ∈ natDigits n, isDigit c = true := by
  induction n using natDigits.induct with
  | case1 n h => intro c hc; rw [natDigits_small n h] at hc; simp at hc; subst hc; exact digitChar_isDigit n h
  | case2 n h ih =>
    intro c hc
    rw [natDigits_big n h] at hc
    rcases List.mem_append.mp hc with hc | hc
    · exact ih c hc
    · simp at hc; subst hc; exact digitChar_isDigit _ (Nat.mod_lt _ (by decide))

theorem natDigits_ne_nil (n : Nat) : natDigits n ≠ [] := by
  by_cases h : n < 10
  · rw [natDigits_small n h]; simp
  · rw [natDigits_big n h]; simp

theorem digitsVal_append (a : List Char) (c : Char) : digitsVal (a ++ [c]) = digitsVal a * 10 + (c.toNat - 48) := by
  simp [digitsVal, List.foldl_append]

theorem digitsVal_natDigits (n : Nat) : digitsVal (natDigits n) = n := by
  induction n using natDigits.induct with
  | case1 n h => rw [natDigits_small n h]; simp [digitsVal, digitChar_toNat n h]
  | case2 n h ih =>
    rw [natDigits_big n h, digitsVal_append, ih, digitChar_toNat _ (Nat.mod_lt _ (by decide))]
    omega

/-- a positive number's digits start with a non-zero digit -/
theorem natDigits_head (n : Nat) (hn : 0 < n) : ∃ c ds, natDigits n = c :: ds ∧ c ≠ '0' ∧ isDigit c = true := by
  induction n using natDigits.induct with
  | case1 n h => exact ⟨_, [], natDigits_small n h, digitChar_ne_zero n h hn, digitChar_isDigit n h⟩
  | case2 n h ih =>
    obtain ⟨c, ds, e, hc, hd⟩ := ih (by omega)
    exact ⟨c, ds ++ [Char.ofNat (48 + n % 10)], by rw [natDigits_big n h, e]; rfl, hc, hd⟩

/-! ## runs of digits -/

/-- the next character does not continue a number -/
def Delim (rest : List Char) : Prop :=
  ∀ c, rest.head? = some c → isDigit c = false ∧ c ≠ '.' ∧ c ≠ 'e' ∧ c ≠ 'E'

def NoDigitHead (rest : List Char) : Prop := ∀ c, rest.head? = some c → isDigit c = false

theorem span_digits (ds rest : List Char) (hd : ∀ c ∈ ds, isDigit c = true) (hr : NoDigitHead rest) :
    (ds ++ rest).takeWhile isDigit = ds ∧ (ds ++ rest).dropWhile isDigit = rest := by
  induction ds with
  | nil =>
    cases rest with
    | nil => simp
    | cons c t => have := hr c rfl; simp [List.takeWhile_cons, List.dropWhile_cons, this]
  | cons d t ih =>
    have := ih (fun c hc => hd c (by simp [hc]))
    simp [List.takeWhile_cons, List.dropWhile_cons, hd d (by simp), this.1, this.2]

theorem scanFrac_none (cs : List Char) (h : ∀ c, cs.head? = some c → c ≠ '.') : scanFrac cs = ([], cs) := by
  match cs with
  | [] => rfl
  | [c] => rfl
  | c :: d :: t => have := h c rfl; simp [scanFrac, this]

theorem scanExp_none (cs : List Char) (h : ∀ c, cs.head? = some c → c ≠ 'e' ∧ c ≠ 'E') : scanExp cs = ([], cs) := by
  match cs with
  | [] => rfl
  | [c] => rfl
  | [c, d] => have := h c rfl; simp [scanExp, this.1, this.2]
  | c :: d :: e :: t => have := h c rfl; simp [scanExp, this.1, this.2]

/-! ## integers -/

theorem scanIntPart_natDigits (n : Nat) (rest : List Char) (hr : NoDigitHead rest) :
    scanIntPart (natDigits n ++ rest) = some (natDigits n, rest) := by
  by_cases hn : n = 0
  · subst hn; rw [natDigits_small 0 (by decide)]; simp [scanIntPart]
  · obtain ⟨c, ds, e, hc, hd⟩ := natDigits_head n (by omega)
    have hds : ∀ x ∈ ds, isDigit x = true := fun x hx => natDigits_digits n x (by rw [e]; simp [hx])
    have := span_digits ds rest hds hr
    rw [e]
    simp [scanIntPart, hc, hd, this.1, this.2]

theorem delim_noDigit {rest : List Char} (h : Delim rest) : NoDigitHead rest := fun c hc => (h c hc).1

theorem natDigits_head_ne_minus (n : Nat) : (natDigits n).head? ≠ some '-' := by
  intro h
  cases hl : natDigits n with
  | nil => exact natDigits_ne_nil n hl
  | cons c t =>
    rw [hl] at h; simp at h; subst h
    have := natDigits_digits n '-' (by rw [hl]; simp)
    revert this; decide

theorem scanNumber_nat (n : Nat) (rest : List Char) (hr : Delim rest) :
    scanNumber (natDigits n ++ rest) = some (.int (n : Int), rest) := by
  have hneg : ¬ ((natDigits n ++ rest).head? = some '-') := by
    cases hl : natDigits n with
    | nil => exact absurd hl (natDigits_ne_nil n)
    | cons c t => have := natDigits_head_ne_minus n; rw [hl] at this; simpa using this
  unfold scanNumber
  simp only [hneg, decide_false, Bool.false_eq_true, if_false]
  rw [scanIntPart_natDigits n rest (delim_noDigit hr)]
  simp only
  rw [scanFrac_none rest (fun c hc => (hr c hc).2.1)]
  simp only
  rw [scanExp_none rest (fun c hc => (hr c hc).2.2)]
  simp [digitsVal_natDigits]

theorem scanNumber_int (z : Int) (rest : List Char) (hr : Delim rest) :
    scanNumber (intDigits z ++ rest) = some (.int z, rest) := by
  unfold intDigits
  by_cases hz : z < 0
  · rw [if_pos hz]
    unfold scanNumber
    simp only [List.cons_append, List.head?_cons, decide_true, if_true, List.drop_succ_cons, List.drop_zero]
    rw [scanIntPart_natDigits _ rest (delim_noDigit hr)]
    simp only
    rw [scanFrac_none rest (fun c hc => (hr c hc).2.1)]
    simp only
    rw [scanExp_none rest (fun c hc => (hr c hc).2.2)]
    have e : -((z.natAbs : Nat) : Int) = z := by omega
    simp only [List.isEmpty_nil, Bool.and_self, if_true, digitsVal_natDigits, e]
  · have e : ((z.natAbs : Nat) : Int) = z := by omega
    rw [if_neg hz, scanNumber_nat _ rest hr, e]

/-! ## floats: the forms `float.__repr__` produces -/

/-- sign, integer part, optional fraction digits, optional exponent (sign characters, digits) -/
structure FloatParts where
  neg : Bool
  ip : Nat
  frac : List Char
  exp : Option (List Char × List Char)

def fracText : List Char → List Char
  | [] => []
  | d :: t => '.' :: d :: t

def expText : Option (List Char × List Char) → List Char
  | none => []
  | some (s, ds) => 'e' :: (s ++ ds)

def FloatParts.body (p : FloatParts) : List Char := natDigits p.ip ++ (fracText p.frac ++ expText p.exp)

def FloatParts.text (p : FloatParts) : List Char := (if p.neg then ['-'] else []) ++ p.body

structure FloatParts.OK (p : FloatParts) : Prop where
  frac : ∀ c ∈ p.frac, isDigit c = true
  exp : ∀ s ds, p.exp = some (s, ds) → (s = [] ∨ s = ['-'] ∨ s = ['+']) ∧ ds ≠ [] ∧ ∀ c ∈ ds, isDigit c = true
  isFloat : p.frac ≠ [] ∨ p.exp ≠ none

theorem scanFrac_some (d : Char) (t rest : List Char) (hd : ∀ c ∈ d :: t, isDigit c = true) (hr : NoDigitHead rest) :
    scanFrac ('.' :: d :: t ++ rest) = ('.' :: d :: t, rest) := by
  have := span_digits t rest (fun c hc => hd c (by simp [hc])) hr
  simp [scanFrac, hd d (by simp), this.1, this.2]

theorem digit_not_sign (c : Char) (h : isDigit c = true) : c ≠ '-' ∧ c ≠ '+' ∧ c ≠ '.' ∧ c ≠ 'e' ∧ c ≠ 'E' := by
  unfold isDigit at h
  simp at h
  refine ⟨?_, ?_, ?_, ?_, ?_⟩ <;> (intro e; subst e; revert h; decide)

theorem scanExp_some (s ds rest : List Char) (hs : s = [] ∨ s = ['-'] ∨ s = ['+']) (hne : ds ≠ [])
    (hd : ∀ c ∈ ds, isDigit c = true) (hr : NoDigitHead rest) :
    scanExp ('e' :: (s ++ ds) ++ rest) = ('e' :: (s ++ ds), rest) := by
  obtain ⟨d, t, rfl⟩ := List.exists_cons_of_ne_nil hne
  have hdd := hd d (by simp)
  have ht : ∀ c ∈ t, isDigit c = true := fun c hc => hd c (by simp [hc])
  have sp := span_digits t rest ht hr
  rcases hs with rfl | rfl | rfl
  · -- no sign: e d t… rest
    obtain ⟨n1, n2, _, _, _⟩ := digit_not_sign d hdd
    cases t with
    | nil =>
      cases rest with
      | nil => simp [scanExp, hdd]
      | cons c r =>
        have hc := hr c rfl
        simp [scanExp, hdd, n1, n2, List.takeWhile_cons, List.dropWhile_cons, hc]
    | cons d2 t2 =>
      have sp2 := span_digits (d2 :: t2) rest ht hr
      simp only [List.nil_append, List.cons_append] at sp2 ⊢
      simp [scanExp, hdd, n1, n2, sp2.1, sp2.2]
  · simp [scanExp, hdd, sp.1, sp.2]
  · simp [scanExp, hdd, sp.1, sp.2]

theorem expText_head (e : Option (List Char × List Char)) : ∀ c, (expText e).head? = some c → c = 'e' := by
  intro c h; cases e with
  | none => simp [expText] at h
  | some sd => obtain ⟨s, ds⟩ := sd; simp [expText] at h; exact h.symm

theorem fracText_head (f : List Char) : ∀ c, (fracText f).head? = some c → c = '.' := by
  intro c h; cases f with
  | nil => simp [fracText] at h
  | cons d t => simp [fracText] at h; exact h.symm

theorem head_append_of {a b : List Char} {c : Char} (h : (a ++ b).head? = some c) : a.head? = some c ∨ (a = [] ∧ b.head? = some c) := by
  cases a with
  | nil => right; exact ⟨rfl, by simpa using h⟩
  | cons x t => left; simpa using h

/-- a float text scans to itself -/
theorem scanNumber_body (p : FloatParts) (hp : p.OK) (rest : List Char) (hr : Delim rest) :
    (let fr := scanFrac ((fracText p.frac ++ expText p.exp) ++ rest)
     let ex := scanExp fr.2
     (fr.1 ++ ex.1, ex.2, fr.1.isEmpty && ex.1.isEmpty)) = (fracText p.frac ++ expText p.exp, rest, false) := by
  have hnd := delim_noDigit hr
  -- the exponent part
  have hexp : scanExp (expText p.exp ++ rest) = (expText p.exp, rest) := by
    cases he : p.exp with
    | none => simp only [expText, List.nil_append]; exact scanExp_none rest (fun c hc => (hr c hc).2.2)
    | some sd =>
      obtain ⟨s, ds⟩ := sd
      obtain ⟨h1, h2, h3⟩ := hp.exp s ds he
      simp only [expText]
      exact scanExp_some s ds rest h1 h2 h3 hnd
  cases hf : p.frac with
  | nil =>
    have hne : p.exp ≠ none := by rcases hp.isFloat with h | h; exact absurd hf h; exact h
    simp only [fracText, List.nil_append]
    have hfr : scanFrac (expText p.exp ++ rest) = ([], expText p.exp ++ rest) := by
      apply scanFrac_none
      intro c hc
      rcases head_append_of hc with h | ⟨_, h⟩
      · rw [expText_head _ c h]; decide
      · exact (hr c h).2.1
    rw [hfr]
    simp only [hexp, List.nil_append, List.isEmpty_nil, Bool.true_and]
    cases he : p.exp with
    | none => exact absurd he hne
    | some sd => obtain ⟨s, ds⟩ := sd; simp [expText]
  | cons d t =>
    have hd : ∀ c ∈ d :: t, isDigit c = true := fun c hc => hp.frac c (by rw [hf]; exact hc)
    have hnd2 : NoDigitHead (expText p.exp ++ rest) := by
      intro c hc
      rcases head_append_of hc with h | ⟨_, h⟩
      · rw [expText_head _ c h]; decide
      · exact hnd c h
    have hfr := scanFrac_some d t (expText p.exp ++ rest) hd hnd2
    simp only [fracText, List.cons_append, List.append_assoc] at hfr ⊢
    rw [hfr]
    simp only [hexp]
    simp

theorem tail_noDigit (p : FloatParts) (rest : List Char) (hr : Delim rest) :
    NoDigitHead ((fracText p.frac ++ expText p.exp) ++ rest) := by
  intro c hc
  rcases head_append_of hc with h | ⟨_, h⟩
  · rcases head_append_of h with h2 | ⟨_, h2⟩
    · rw [fracText_head _ c h2]; decide
    · rw [expText_head _ c h2]; decide
  · exact (hr c h).1

theorem scanNumber_float (p : FloatParts) (hp : p.OK) (rest : List Char) (hr : Delim rest) :
    scanNumber (p.text ++ rest) = some (.flt (String.ofList p.text), rest) := by
  have hb := scanNumber_body p hp rest hr
  simp only [Prod.mk.injEq] at hb
  obtain ⟨h1, h2, h3⟩ := hb
  have hint := scanIntPart_natDigits p.ip ((fracText p.frac ++ expText p.exp) ++ rest) (tail_noDigit p rest hr)
  simp only [List.append_assoc] at hint h1 h2 h3
  unfold scanNumber FloatParts.text FloatParts.body
  cases hn : p.neg with
  | true =>
    simp only [if_true, List.cons_append, List.nil_append, List.head?_cons, decide_true, List.drop_succ_cons, List.drop_zero,
      List.append_assoc]
    rw [hint]
    simp only [h3, Bool.false_eq_true, if_false, h2, h1]
  | false =>
    have hneg : ¬ ((natDigits p.ip ++ (fracText p.frac ++ (expText p.exp ++ rest))).head? = some '-') := by
      cases hl : natDigits p.ip with
      | nil => exact absurd hl (natDigits_ne_nil _)
      | cons c t => have := natDigits_head_ne_minus p.ip; rw [hl] at this; simpa using this
    simp only [Bool.false_eq_true, if_false, List.nil_append, List.append_assoc, hneg, decide_false]
    rw [hint]
    simp only [h3, Bool.false_eq_true, if_false, h2, h1]

/-! ## values -/

mutual
def sizeJ : JVal → Nat
  | .arr l => 1 + sizeL l
  | _ => 1
def sizeL : List JVal → Nat
  | [] => 0
  | v :: t => 1 + sizeJ v + sizeL t
end

mutual
/-- `json.dumps`, with the D11 escape applied inside string literals when `esc` -/
def dumpsE (esc : Bool) : JVal → List Char
  | .int z => intDigits z
  | .flt r => r.toList
  | .str s => '"' :: ((if esc then escapeSlash (s.toList.flatMap escapeChar) else s.toList.flatMap escapeChar) ++ ['"'])
  | .arr l => '[' :: (dumpsEs esc l ++ [']'])
def dumpsEs (esc : Bool) : List JVal → List Char
  | [] => []
  | [x] => dumpsE esc x
  | x :: y :: t => dumpsE esc x ++ ([',', ' '] ++ dumpsEs esc (y :: t))
end

mutual
/-- floats inside a value have one of the `repr` forms -/
def JOK : JVal → Prop
  | .flt r => ∃ p : FloatParts, p.OK ∧ r.toList = p.text
  | .arr l => JOKs l
  | _ => True
def JOKs : List JVal → Prop
  | [] => True
  | v :: t => JOK v ∧ JOKs t
end

/-- first character of a dumped value: not a blank, not a closing bracket or comma -/
def GoodHead (cs : List Char) : Prop := ∃ c t, cs = c :: t ∧ isWs c = false ∧ c ≠ ']' ∧ c ≠ ','

theorem digit_goodhead (c : Char) (h : isDigit c = true) : isWs c = false ∧ c ≠ ']' ∧ c ≠ ',' ∧ c ≠ '"' ∧ c ≠ '[' := by
  unfold isDigit at h
  simp at h
  refine ⟨?_, ?_, ?_, ?_, ?_⟩
  · unfold isWs
    have h1 : c ≠ ' ' := by intro e; subst e; revert h; decide
    have h2 : c ≠ '\n' := by intro e; subst e; revert h; decide
    have h3 : c ≠ '\r' := by intro e; subst e; revert h; decide
    have h4 : c ≠ '\t' := by intro e; subst e; revert h; decide
    simp [h1, h2, h3, h4]
  all_goals (intro e; subst e; revert h; decide)

theorem natDigits_cons (n : Nat) : ∃ c t, natDigits n = c :: t ∧ isDigit c = true := by
  cases hl : natDigits n with
  | nil => exact absurd hl (natDigits_ne_nil n)
  | cons c t => exact ⟨c, t, rfl, natDigits_digits n c (by rw [hl]; simp)⟩

/-- first character of a number text: a digit or `-` -/
def NumHead (cs : List Char) : Prop := ∃ c t, cs = c :: t ∧ (isDigit c = true ∨ c = '-')

theorem numHead_int (z : Int) : NumHead (intDigits z) := by
  unfold intDigits
  split
  · exact ⟨'-', _, rfl, .inr rfl⟩
  · obtain ⟨c, t, e, h⟩ := natDigits_cons z.natAbs; exact ⟨c, t, e, .inl h⟩

theorem numHead_float (p : FloatParts) : NumHead p.text := by
  unfold FloatParts.text FloatParts.body
  cases p.neg with
  | true => exact ⟨'-', _, rfl, .inr rfl⟩
  | false =>
    obtain ⟨c, t, e, h⟩ := natDigits_cons p.ip
    exact ⟨c, t ++ (fracText p.frac ++ expText p.exp), by simp [e], .inl h⟩

theorem numHead_good {cs : List Char} (h : NumHead cs) : ∃ c t, cs = c :: t ∧ isWs c = false ∧ c ≠ ']' ∧ c ≠ ',' ∧ c ≠ '"' ∧ c ≠ '[' := by
  obtain ⟨c, t, e, hc⟩ := h
  refine ⟨c, t, e, ?_⟩
  rcases hc with hc | rfl
  · exact digit_goodhead c hc
  · decide

theorem skipWs_good {cs : List Char} (h : ∃ c t, cs = c :: t ∧ isWs c = false) : skipWs cs = cs := by
  obtain ⟨c, t, rfl, hc⟩ := h
  simp [skipWs, List.dropWhile_cons, hc]

theorem dumpsE_head (esc : Bool) (v : JVal) (hv : JOK v) :
    ∃ c t, dumpsE esc v = c :: t ∧ isWs c = false ∧ c ≠ ']' ∧ c ≠ ',' := by
  cases v with
  | int z => obtain ⟨c, t, e, h1, h2, h3, _, _⟩ := numHead_good (numHead_int z); exact ⟨c, t, by simp [dumpsE, e], h1, h2, h3⟩
  | flt r =>
    obtain ⟨p, _, hr⟩ := hv
    obtain ⟨c, t, e, h1, h2, h3, _, _⟩ := numHead_good (numHead_float p)
    exact ⟨c, t, by simp [dumpsE, hr, e], h1, h2, h3⟩
  | str s => exact ⟨'"', _, rfl, by decide, by decide, by decide⟩
  | arr l => exact ⟨'[', _, rfl, by decide, by decide, by decide⟩

theorem dumpsEs_head (esc : Bool) (x : JVal) (t : List JVal) (hx : JOK x) :
    ∃ c r, dumpsEs esc (x :: t) = c :: r ∧ isWs c = false ∧ c ≠ ']' ∧ c ≠ ',' := by
  obtain ⟨c, r, e, h⟩ := dumpsE_head esc x hx
  cases t with
  | nil => exact ⟨c, r, by simp [dumpsEs, e], h⟩
  | cons y t' => exact ⟨c, r ++ ([',', ' '] ++ dumpsEs esc (y :: t')), by simp [dumpsEs, e], h⟩

theorem delim_bracket (rest : List Char) : Delim (']' :: rest) := by
  intro c hc; simp at hc; subst hc; decide

theorem delim_comma (rest : List Char) : Delim (',' :: rest) := by
  intro c hc; simp at hc; subst hc; decide

theorem sizeJ_pos (v : JVal) : 1 ≤ sizeJ v := by cases v <;> simp [sizeJ]

mutual
/-- **one value**: scanning the text `json.dumps` wrote (strings optionally with the `/` escape)
    returns the value and stops right after it -/
theorem scan_value (esc : Bool) : ∀ (v : JVal), JOK v → ∀ (fuel : Nat) (rest : List Char), sizeJ v ≤ fuel → Delim rest →
    scanOnce fuel (dumpsE esc v ++ rest) = some (v, rest)
  | .int z, _, fuel, rest, hf, hr => by
    obtain ⟨f, rfl⟩ : ∃ f, fuel = f + 1 := ⟨fuel - 1, by simp [sizeJ] at hf; omega⟩
    obtain ⟨c, t, e, _, _, _, h4, h5⟩ := numHead_good (numHead_int z)
    have hs := scanNumber_int z rest hr
    simp only [dumpsE, e, List.cons_append] at hs ⊢
    simp only [scanOnce, h4, h5, if_false]
    exact hs
  | .flt r, hv, fuel, rest, hf, hr => by
    obtain ⟨f, rfl⟩ : ∃ f, fuel = f + 1 := ⟨fuel - 1, by simp [sizeJ] at hf; omega⟩
    obtain ⟨p, hp, hr'⟩ := hv
    obtain ⟨c, t, e, _, _, _, h4, h5⟩ := numHead_good (numHead_float p)
    have hs := scanNumber_float p hp rest hr
    have hstr : String.ofList p.text = r := by rw [← hr']; exact String.ofList_toList
    rw [hstr] at hs
    simp only [dumpsE, hr', e, List.cons_append] at hs ⊢
    simp only [scanOnce, h4, h5, if_false]
    exact hs
  | .str s, _, fuel, rest, hf, _ => by
    obtain ⟨f, rfl⟩ : ∃ f, fuel = f + 1 := ⟨fuel - 1, by simp [sizeJ] at hf; omega⟩
    simp only [dumpsE, List.cons_append, List.append_assoc, List.singleton_append, scanOnce, if_true]
    cases esc with
    | true => simp only [if_true, scan_dumps, String.ofList_toList, List.nil_append]
    | false => simp only [Bool.false_eq_true, if_false, scan_dumps_plain, String.ofList_toList, List.nil_append]
  | .arr [], _, fuel, rest, hf, _ => by
    obtain ⟨f, rfl⟩ : ∃ f, fuel = f + 1 := ⟨fuel - 1, by simp [sizeJ] at hf; omega⟩
    simp [dumpsE, dumpsEs, scanOnce, skipWs, isWs]
  | .arr (x :: t), hv, fuel, rest, hf, _ => by
    obtain ⟨f, rfl⟩ : ∃ f, fuel = f + 1 := ⟨fuel - 1, by simp [sizeJ] at hf; omega⟩
    have hx : JOK x := by simp only [JOK, JOKs] at hv; exact hv.1
    obtain ⟨c, r, e, h1, h2, h3⟩ := dumpsEs_head esc x t hx
    have hel := scan_elems esc (x :: t) (by simp) hv f rest (by simp only [sizeJ] at hf; omega)
    simp only [dumpsE, List.cons_append, List.append_assoc, List.singleton_append, List.nil_append, scanOnce,
      show ('[' : Char) ≠ '"' by decide, if_false, if_true]
    rw [skipWs_good ⟨c, r ++ ']' :: rest, by rw [e]; rfl, h1⟩]
    rw [e] at hel ⊢
    simp only [List.cons_append, h2, if_false] at hel ⊢
    rw [hel]
/-- the elements of a non-empty array up to and including the closing bracket -/
theorem scan_elems (esc : Bool) : ∀ (l : List JVal), l ≠ [] → JOKs l → ∀ (fuel : Nat) (rest : List Char), sizeL l ≤ fuel →
    scanElems fuel (dumpsEs esc l ++ ']' :: rest) = some (l, rest)
  | [], hne, _, _, _, _ => absurd rfl hne
  | [x], _, hv, fuel, rest, hf => by
    obtain ⟨f, rfl⟩ : ∃ f, fuel = f + 1 := ⟨fuel - 1, by simp only [sizeL] at hf; omega⟩
    have hx := scan_value esc x hv.1 f (']' :: rest) (by simp only [sizeL] at hf; omega) (delim_bracket rest)
    simp only [dumpsEs, scanElems, hx]
    simp [skipWs, isWs]
  | x :: y :: t, _, hv, fuel, rest, hf => by
    obtain ⟨f, rfl⟩ : ∃ f, fuel = f + 1 := ⟨fuel - 1, by simp only [sizeL] at hf; omega⟩
    have hx := scan_value esc x hv.1 f (',' :: ' ' :: (dumpsEs esc (y :: t) ++ ']' :: rest))
      (by simp only [sizeL] at hf; omega) (delim_comma _)
    have ht := scan_elems esc (y :: t) (by simp) hv.2 f rest (by simp only [sizeL] at hf ⊢; omega)
    obtain ⟨c, r, e, h1, _, _⟩ := dumpsEs_head esc y t hv.2.1
    have hsk : skipWs (' ' :: (dumpsEs esc (y :: t) ++ ']' :: rest)) = dumpsEs esc (y :: t) ++ ']' :: rest := by
      rw [e]
      show List.dropWhile isWs (' ' :: (c :: r ++ ']' :: rest)) = _
      rw [List.dropWhile_cons]
      simp only [show isWs ' ' = true by decide, if_true]
      rw [List.cons_append, List.dropWhile_cons]
      simp only [h1, Bool.false_eq_true, if_false]
    simp only [dumpsEs, List.append_assoc, List.cons_append, List.nil_append, scanElems, hx]
    have hsk2 : skipWs (',' :: ' ' :: (dumpsEs esc (y :: t) ++ ']' :: rest)) = ',' :: ' ' :: (dumpsEs esc (y :: t) ++ ']' :: rest) := by
      simp [skipWs, List.dropWhile_cons, isWs]
    rw [hsk2]
    simp only [if_true, hsk, ht]
end

/-! ## `json.loads` of a whole text -/

mutual
theorem sizeJ_le_length (esc : Bool) : ∀ (v : JVal), JOK v → sizeJ v ≤ (dumpsE esc v).length
  | .int z, _ => by
    obtain ⟨c, t, e, _⟩ := numHead_int z
    simp [sizeJ, dumpsE, e]
  | .flt r, hv => by
    obtain ⟨p, _, hr⟩ := hv
    obtain ⟨c, t, e, _⟩ := numHead_float p
    simp [sizeJ, dumpsE, hr, e]
  | .str s, _ => by simp [sizeJ, dumpsE]
  | .arr l, hv => by
    have := sizeL_le_length esc l hv
    simp only [sizeJ, dumpsE, List.length_cons, List.length_append, List.length_nil]
    omega
theorem sizeL_le_length (esc : Bool) : ∀ (l : List JVal), JOKs l → sizeL l ≤ (dumpsEs esc l).length + 1
  | [], _ => by simp [sizeL]
  | [x], hv => by
    have := sizeJ_le_length esc x hv.1
    simp only [sizeL, dumpsEs]; omega
  | x :: y :: t, hv => by
    have h1 := sizeJ_le_length esc x hv.1
    have h2 := sizeL_le_length esc (y :: t) hv.2
    simp only [sizeL, dumpsEs, List.length_append, List.length_cons, List.length_nil] at h2 ⊢
    omega
end

/-- blanks only -/
def Blank (ws : List Char) : Prop := ∀ c ∈ ws, isWs c = true

theorem skipWs_blank (ws : List Char) (h : Blank ws) : skipWs ws = [] := by
  unfold skipWs
  induction ws with
  | nil => rfl
  | cons c t ih =>
    rw [List.dropWhile_cons, h c (by simp)]
    exact ih (fun x hx => h x (by simp [hx]))

theorem blank_delim (ws : List Char) (h : Blank ws) : Delim ws := by
  intro c hc
  cases ws with
  | nil => simp at hc
  | cons d t =>
    simp at hc; subst hc
    have := h d (by simp)
    unfold isWs at this
    simp at this
    rcases this with ((rfl | rfl) | rfl) | rfl <;> decide

/-- **`json.loads(json.dumps(v) + blanks) = v`** (strings optionally with the `/` escape) -/
theorem loadsJ_dumpsE (esc : Bool) (v : JVal) (hv : JOK v) (ws : List Char) (hws : Blank ws) :
    loadsJ (dumpsE esc v ++ ws) = some v := by
  obtain ⟨c, t, e, h1, _, _⟩ := dumpsE_head esc v hv
  unfold loadsJ
  rw [skipWs_good ⟨c, t ++ ws, by rw [e]; rfl, h1⟩,
    scan_value esc v hv _ ws (by have := sizeJ_le_length esc v hv; simp only [List.length_append]; omega) (blank_delim ws hws)]
  simp [skipWs_blank ws hws]

/-! ## the printers agree -/

theorem natDigits_no_slash (n : Nat) : pathSafe (natDigits n) := by
  intro h
  have := natDigits_digits n '/' h
  revert this; decide

theorem pathSafe_append {a b : List Char} (ha : pathSafe a) (hb : pathSafe b) : pathSafe (a ++ b) := by
  unfold pathSafe at *
  intro h
  rcases List.mem_append.mp h with h | h
  · exact ha h
  · exact hb h

theorem digits_no_slash (ds : List Char) (h : ∀ c ∈ ds, isDigit c = true) : pathSafe ds := by
  intro hm
  have := h '/' hm
  revert this; decide

theorem floatText_no_slash (p : FloatParts) (hp : p.OK) : pathSafe p.text := by
  unfold FloatParts.text FloatParts.body
  refine pathSafe_append (by cases p.neg <;> (unfold pathSafe; decide)) (pathSafe_append (natDigits_no_slash _) (pathSafe_append ?_ ?_))
  · cases hf : p.frac with
    | nil => unfold pathSafe fracText; simp
    | cons d t =>
      have := digits_no_slash (d :: t) (fun c hc => hp.frac c (by rw [hf]; exact hc))
      unfold pathSafe fracText at *
      intro hm
      simp only [List.mem_cons] at hm this
      rcases hm with hm | hm
      · revert hm; decide
      · exact this hm
  · cases he : p.exp with
    | none => unfold pathSafe expText; simp
    | some sd =>
      obtain ⟨s, ds⟩ := sd
      obtain ⟨h1, _, h3⟩ := hp.exp s ds he
      have hds := digits_no_slash ds h3
      unfold expText
      refine pathSafe_append (a := ['e']) (by unfold pathSafe; decide) (pathSafe_append ?_ hds)
      rcases h1 with rfl | rfl | rfl <;> (unfold pathSafe; decide)

mutual
theorem dumpsE_false : ∀ v : JVal, dumpsE false v = dumpsJ v
  | .int _ => rfl
  | .flt _ => rfl
  | .str _ => by simp [dumpsE, dumpsJ, dumpsStr]
  | .arr l => by simp [dumpsE, dumpsJ, dumpsEs_false l]
theorem dumpsEs_false : ∀ l : List JVal, dumpsEs false l = dumpsJs l
  | [] => rfl
  | [x] => by simp [dumpsEs, dumpsJs, dumpsE_false x]
  | x :: y :: t => by simp [dumpsEs, dumpsJs, dumpsE_false x, dumpsEs_false (y :: t)]
end

mutual
/-- the D11 `str.replace` on the whole text touches only the inside of string literals -/
theorem escapeSlash_dumpsJ : ∀ v : JVal, JOK v → escapeSlash (dumpsJ v) = dumpsE true v
  | .int z, _ => by
    apply escapeSlash_id
    unfold dumpsJ intDigits
    split
    · exact pathSafe_append (a := ['-']) (by unfold pathSafe; decide) (natDigits_no_slash _)
    · exact natDigits_no_slash _
  | .flt r, hv => by
    obtain ⟨p, hp, hr⟩ := hv
    apply escapeSlash_id
    simp only [dumpsJ, hr]
    exact floatText_no_slash p hp
  | .str s, _ => by
    simp only [dumpsJ, dumpsStr, dumpsE, if_true]
    rw [show ('"' :: s.toList.flatMap escapeChar ++ ['"']) = ['"'] ++ (s.toList.flatMap escapeChar ++ ['"']) from rfl,
      escapeSlash_append, escapeSlash_append]
    have : escapeSlash ['"'] = ['"'] := by decide
    rw [this]; rfl
  | .arr l, hv => by
    simp only [dumpsJ, dumpsE]
    rw [show ('[' :: dumpsJs l ++ [']']) = ['['] ++ (dumpsJs l ++ [']']) from rfl, escapeSlash_append, escapeSlash_append,
      escapeSlash_dumpsJs l hv]
    have h1 : escapeSlash ['['] = ['['] := by decide
    have h2 : escapeSlash [']'] = [']'] := by decide
    rw [h1, h2]; rfl
theorem escapeSlash_dumpsJs : ∀ l : List JVal, JOKs l → escapeSlash (dumpsJs l) = dumpsEs true l
  | [], _ => rfl
  | [x], hv => by simp only [dumpsJs, dumpsEs]; exact escapeSlash_dumpsJ x hv.1
  | x :: y :: t, hv => by
    simp only [dumpsJs, dumpsEs]
    rw [escapeSlash_append, escapeSlash_append, escapeSlash_dumpsJ x hv.1, escapeSlash_dumpsJs (y :: t) hv.2]
    have : escapeSlash [',', ' '] = [',', ' '] := by decide
    rw [this, List.append_assoc]
end

/-- **labels at text level**: for every label kind (integers, floats in any `repr` form, strings,
    nested tuples) `deserialize_variable(json.loads(text))` is the label, where `text` is what
    `to_file` writes — `json.dumps(serialize_variable(label))`, with the `/` escape when `fixed` -/
theorem loads_labelText (fixed : Bool) (l : FLabel) (hl : JOK (serializeLabel l)) (ws : List Char) (hws : Blank ws) :
    (loadsJ (labelText fixed l ++ ws)).map deserializeLabel = some l := by
  unfold labelText
  cases fixed with
  | true =>
    simp only [if_true]
    rw [escapeSlash_dumpsJ _ hl, loadsJ_dumpsE true _ hl ws hws]
    simp [deserialize_serialize]
  | false =>
    simp only [Bool.false_eq_true, if_false]
    rw [← dumpsE_false, loadsJ_dumpsE false _ hl ws hws]
    simp [deserialize_serialize]

/-- the `VARS` section / `variable_labels.json` / v1 header list: a JSON array of labels followed by
    padding blanks parses back to the labels -/
theorem loads_labelList (ls : List FLabel) (hl : JOKs (serializeLabels ls)) (ws : List Char) (hws : Blank ws) :
    (loadsJ (dumpsJ (.arr (serializeLabels ls)) ++ ws)).map deserializeLabel = some (.tup ls) := by
  rw [← dumpsE_false, loadsJ_dumpsE false _ (by simpa [JOK] using hl) ws hws]
  simp [deserializeLabel, deserialize_serialize_list]

end FileFmt
