import DimodModel.Enumerate

/-! C07: `exact_solver._graycode` visits every n-bit vector exactly once.
    `Enum.ctz`, `Enum.gray` (masks) and `Enum.graycode` (rows, as coded) are in `DimodModel/Enumerate.lean`. -/

namespace Enum

theorem ctz_lt (m i : Nat) (h0 : 0 < i) (h : i < 2^m) : ctz i < m := by
  induction m generalizing i with
  | zero => simp at h; omega
  | succ m ih =>
    rw [ctz]
    split
    · omega
    · split
      · omega
      · rename_i h1 h2
        have : ctz (i/2) < m := ih (i/2) (by omega) (by rw [Nat.pow_succ] at h; omega)
        omega

theorem ctz_add_pow (m j : Nat) (h0 : 0 < j) (h : j < 2^m) : ctz (2^m + j) = ctz j := by
  induction m generalizing j with
  | zero => simp at h; omega
  | succ m ih =>
    rw [ctz, ctz.eq_def j]
    have hp : 2^(m+1) = 2 * 2^m := by rw [Nat.pow_succ]; omega
    have hpos : 0 < 2^m := Nat.two_pow_pos _
    split
    · omega
    · rw [dif_neg (by omega)]
      have hmod : (2^(m+1) + j) % 2 = j % 2 := by omega
      rw [hmod]
      split
      · rfl
      · rename_i h2
        have hdiv : (2^(m+1) + j) / 2 = 2^m + j/2 := by omega
        rw [hdiv, ih (j/2) (by omega) (by omega)]

theorem gray_lt (m i : Nat) (h : i < 2^m) : gray i < 2^m := by
  induction i with
  | zero => exact Nat.two_pow_pos _
  | succ i ih =>
    simp only [gray]
    apply Nat.xor_lt_two_pow (ih (by omega))
    exact Nat.pow_lt_pow_right (by decide) (ctz_lt m (i+1) (by omega) h)

/-- second block = first block xor-ed with a constant that has bit m set -/
theorem gray_block (m j : Nat) (h : j < 2^m) :
    gray (2^m + j) = gray (2^m - 1) ^^^ 2^m ^^^ gray j := by
  have hpos : 0 < 2^m := Nat.two_pow_pos _
  induction j with
  | zero =>
    simp only [Nat.add_zero, gray, Nat.xor_zero]
    have hk : 2^m = (2^m - 1) + 1 := by omega
    have hc : ctz (2^m) = m := by
      clear hk h hpos
      induction m with
      | zero => rw [ctz]; simp
      | succ m ih =>
        rw [ctz]
        have hpos : 0 < 2^m := Nat.two_pow_pos _
        have hp : 2^(m+1) = 2 * 2^m := by rw [Nat.pow_succ]; omega
        rw [dif_neg (by omega), if_neg (by omega)]
        have : 2^(m+1)/2 = 2^m := by omega
        rw [this, ih]
    calc gray (2^m) = gray ((2^m - 1) + 1) := by rw [← hk]
      _ = gray (2^m - 1) ^^^ 2^(ctz ((2^m - 1) + 1)) := rfl
      _ = gray (2^m - 1) ^^^ 2^m := by rw [← hk, hc]
  | succ j ih =>
    have := ih (by omega)
    rw [← Nat.add_assoc, gray, this, gray, Nat.add_assoc, ctz_add_pow m (j+1) (by omega) h]
    simp [Nat.xor_assoc]

/-- C07 `graycode_enumerates` (surjectivity half): every mask below 2^m is visited in the first
    2^m rows.  Injectivity then follows by counting (both sides have 2^m elements). -/
theorem gray_surj (m t : Nat) (h : t < 2^m) : ∃ i, i < 2^m ∧ gray i = t := by
  induction m generalizing t with
  | zero => exact ⟨0, by simp, by simp at h; simp [gray]; omega⟩
  | succ m ih =>
    have hpos : 0 < 2^m := Nat.two_pow_pos _
    have hp : 2^(m+1) = 2^m + 2^m := by rw [Nat.pow_succ]; omega
    by_cases hlt : t < 2^m
    · obtain ⟨i, hi, hg⟩ := ih t hlt
      exact ⟨i, by omega, hg⟩
    · -- t has bit m set; clear it and undo the block constant
      let c := gray (2^m - 1)
      have hc : c < 2^m := gray_lt m _ (by omega)
      have hclear : t ^^^ 2^m < 2^m := by
        apply Nat.lt_pow_two_of_testBit
        intro i hi
        rw [Nat.testBit_xor, Nat.testBit_two_pow]
        by_cases him : m = i
        · subst him
          have : t.testBit m = true := by
            rw [Nat.testBit_eq_decide_div_mod_eq]
            have : t / 2^m = 1 := by
              apply Nat.div_eq_of_lt_le <;> omega
            simp [this]
          simp [this]
        · have : t.testBit i = false := by
            apply Nat.testBit_lt_two_pow
            calc t < 2^(m+1) := h
              _ ≤ 2^i := Nat.pow_le_pow_right (by decide) (by omega)
          simp [this, him]
      have ht' : t ^^^ 2^m ^^^ c < 2^m := Nat.xor_lt_two_pow hclear hc
      obtain ⟨j, hj, hg⟩ := ih _ ht'
      refine ⟨2^m + j, by omega, ?_⟩
      rw [gray_block m j hj, hg]
      show c ^^^ 2^m ^^^ (t ^^^ 2^m ^^^ c) = t
      have e : c ^^^ 2^m ^^^ (t ^^^ 2^m ^^^ c) = (c ^^^ c) ^^^ ((2^m ^^^ 2^m) ^^^ t) := by ac_rfl
      rw [e, Nat.xor_self, Nat.xor_self]; simp

end Enum
