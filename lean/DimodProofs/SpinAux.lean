import DimodProofs.ReduceBK

/-! # `make_quadratic`, SPIN: minimising over the auxiliaries (core Lean only) -/

namespace Red
open Pen GateTable Generated.Gates

def spinRelProd (v : List Rat) : Bool := v.getD 2 0 == v.getD 0 0 * v.getD 1 0

theorem spin_table : GateSpec spinProduct [-1, 1] 3 1 spinRelProd := by decide +kernel

/-- ±1-valued sample -/
def Spin01 (x : Label → Rat) : Prop := ∀ l, x l ∈ [(-1 : Rat), 1]

theorem aux_vals (a : List Rat) (ha : a ∈ assignments [(-1 : Rat), 1] 1) : ∃ α, α ∈ [(-1 : Rat), 1] ∧ a = [α] := by
  simp only [assignments, List.flatMap_cons, List.flatMap_nil, List.map_cons, List.map_nil, List.append_nil,
    List.cons_append, List.nil_append, List.mem_cons, List.mem_nil_iff, or_false] at ha
  rcases ha with rfl | rfl
  · exact ⟨-1, by simp, rfl⟩
  · exact ⟨1, by simp, rfl⟩

/-- one `_spin_product` penalty at ±1 values: never negative; ≥ 1 for every auxiliary value when `p ≠ u·v`;
    0 for a suitable auxiliary value when `p = u·v` -/
theorem spinPen_spec (x : Label → Rat) (hx : Spin01 x) (c : Pair × Label) (a : Label) :
    0 ≤ spinPen x c a
    ∧ (x c.2 ≠ x c.1.1 * x c.1.2 → 1 ≤ spinPen x c a)
    ∧ (x c.2 = x c.1.1 * x c.1.2 → ∃ α ∈ [(-1 : Rat), 1], spinProduct.energy (ofList [x c.1.1, x c.1.2, x c.2, α]) = 0) := by
  have hmem : [x c.1.1, x c.1.2, x c.2] ∈ assignments [(-1 : Rat), 1] 3 :=
    mem_assignments [-1, 1] [x c.1.1, x c.1.2, x c.2] (by
      intro b hb; simp only [List.mem_cons, List.mem_nil_iff, or_false] at hb
      rcases hb with rfl | rfl | rfl <;> exact hx _)
  have hamem : [x a] ∈ assignments [(-1 : Rat), 1] 1 := mem_assignments [-1, 1] [x a] (by
      intro b hb; simp only [List.mem_cons, List.mem_nil_iff, or_false] at hb; subst hb; exact hx _)
  obtain ⟨h0, h1, h2⟩ := spin_table _ hmem
  have e0 : spinPen x c a = spinProduct.energy (ofList ([x c.1.1, x c.1.2, x c.2] ++ [x a])) := rfl
  refine ⟨by rw [e0]; exact h0 _ hamem, ?_, ?_⟩
  · intro hne
    have hr : spinRelProd [x c.1.1, x c.1.2, x c.2] = false := by
      simp only [spinRelProd, List.getD_cons_zero, List.getD_cons_succ, beq_eq_false_iff_ne, ne_eq]; exact hne
    rw [e0]; exact h2 hr _ hamem
  · intro heq
    have hr : spinRelProd [x c.1.1, x c.1.2, x c.2] = true := by
      simp only [spinRelProd, List.getD_cons_zero, List.getD_cons_succ, beq_iff_eq]; exact heq
    obtain ⟨av, hav, hz⟩ := h1 hr
    obtain ⟨α, hα, rfl⟩ := aux_vals av hav
    exact ⟨α, hα, hz⟩

/-- the sum of the spin penalties is never negative, and at least 1 when some product is inconsistent —
    whatever the auxiliaries -/
theorem penSumS_bounds (x : Label → Rat) (hx : Spin01 x) (cs : List (Pair × Label)) (auxs : List Label) (hl : auxs.length = cs.length) :
    0 ≤ penSumS x cs auxs ∧ ((∃ c ∈ cs, x c.2 ≠ x c.1.1 * x c.1.2) → 1 ≤ penSumS x cs auxs) := by
  induction cs generalizing auxs with
  | nil => cases auxs <;> simp [penSumS]
  | cons c r ih =>
    cases auxs with
    | nil => simp at hl
    | cons a as =>
      have hc := spinPen_spec x hx c a
      have hr := ih as (by simpa using hl)
      simp only [penSumS, List.mem_cons, exists_eq_or_imp]
      refine ⟨by have := hc.1; have := hr.1; grind, ?_⟩
      rintro (h | h)
      · have := hc.2.1 h; have := hr.1; grind
      · have := hr.2 h; have := hc.1; grind

/-- set one label -/
def upd (x : Label → Rat) (a : Label) (α : Rat) : Label → Rat := fun l => if l = a then α else x l

theorem upd_spin (x : Label → Rat) (hx : Spin01 x) (a : Label) (α : Rat) (hα : α ∈ [(-1 : Rat), 1]) : Spin01 (upd x a α) := by
  intro l; unfold upd; split
  · exact hα
  · exact hx l

/-- **minimum over the auxiliaries is 0 on consistent assignments**: if every product variable equals its
    product, the auxiliaries (pairwise distinct, different from every variable of the constraints) can be
    set so that all `_spin_product` penalties vanish, without touching any other variable -/
theorem penSumS_zero_of_consistent (cs : List (Pair × Label)) (auxs : List Label) (hl : auxs.length = cs.length)
    (hnd : auxs.Nodup) (hfresh : ∀ c ∈ cs, c.1.1 ∉ auxs ∧ c.1.2 ∉ auxs ∧ c.2 ∉ auxs)
    (x : Label → Rat) (hx : Spin01 x) (hc : ∀ c ∈ cs, x c.2 = x c.1.1 * x c.1.2) :
    ∃ x', Spin01 x' ∧ (∀ l, l ∉ auxs → x' l = x l) ∧ penSumS x' cs auxs = 0 := by
  induction cs generalizing auxs x with
  | nil => exact ⟨x, hx, fun _ _ => rfl, by cases auxs <;> rfl⟩
  | cons c r ih =>
    cases auxs with
    | nil => simp at hl
    | cons a as =>
      simp only [List.nodup_cons] at hnd
      have hfc := hfresh c (by simp)
      simp only [List.mem_cons, not_or] at hfc
      obtain ⟨α, hα, hz⟩ := (spinPen_spec x hx c a).2.2 (hc c (by simp))
      -- set the head auxiliary
      let x1 := upd x a α
      have hx1 : Spin01 x1 := upd_spin x hx a α hα
      have hsame : ∀ l, l ≠ a → x1 l = x l := fun l hl' => by simp [x1, upd, hl']
      have hc1 : ∀ c' ∈ r, x1 c'.2 = x1 c'.1.1 * x1 c'.1.2 := by
        intro c' hc'
        have hf := hfresh c' (by simp [hc'])
        simp only [List.mem_cons, not_or] at hf
        rw [hsame _ hf.2.2.1, hsame _ hf.1.1, hsame _ hf.2.1.1]
        exact hc c' (by simp [hc'])
      obtain ⟨x', hx', hoff, hzero⟩ := ih as (by simpa using hl) hnd.2
        (fun c' hc' => by
          have hf := hfresh c' (by simp [hc'])
          simp only [List.mem_cons, not_or] at hf
          exact ⟨hf.1.2, hf.2.1.2, hf.2.2.2⟩) x1 hx1 hc1
      refine ⟨x', hx', ?_, ?_⟩
      · intro l hl'
        simp only [List.mem_cons, not_or] at hl'
        rw [hoff l hl'.2, hsame l hl'.1]
      · simp only [penSumS, hzero]
        have h1 : x' c.1.1 = x c.1.1 := by rw [hoff _ hfc.1.2, hsame _ hfc.1.1]
        have h2 : x' c.1.2 = x c.1.2 := by rw [hoff _ hfc.2.1.2, hsame _ hfc.2.1.1]
        have h3 : x' c.2 = x c.2 := by rw [hoff _ hfc.2.2.2, hsame _ hfc.2.2.1]
        have h4 : x' a = α := by rw [hoff a hnd.1]; simp [x1, upd]
        unfold spinPen
        rw [h1, h2, h3, h4, hz]; grind

/-- the auxiliaries `make_quadratic` creates are pairwise distinct and not in `variables` -/
theorem penaltyBags_aux_fresh (s : Rat) (vars : List Label) (cs : List (Pair × Label)) :
    (penaltyBags .spin s vars cs).2.Nodup ∧ ∀ a ∈ (penaltyBags .spin s vars cs).2, a ∉ vars := by
  induction cs generalizing vars with
  | nil => simp [penaltyBags]
  | cons c r ih =>
    simp only [penaltyBags]
    have hr := ih (vars ++ [newAux vars c.1.1 c.1.2])
    have hfr := newAux_fresh vars c.1.1 c.1.2
    refine ⟨?_, ?_⟩
    · simp only [List.nodup_cons]
      refine ⟨?_, hr.1⟩
      intro hmem
      have := hr.2 _ hmem
      simp at this
    · intro a ha
      simp only [List.mem_cons] at ha
      rcases ha with rfl | ha
      · exact hfr
      · have := hr.2 a ha
        simp only [List.mem_append, List.mem_singleton, not_or] at this
        exact this.1

end Red
