import DimodProofs.SortPerm

/-! Python slice semantics of `sliceIndices`, and the sorted-selection lemmas behind `slice`,
    `truncate`, `lowest`, `first`. -/

namespace SSM

theorem sliceBounds_spec (s : PySlice) (n : Nat) (a b c : Int) (h : sliceBounds s n = some (a, b, c)) :
    c ≠ 0 ∧ (0 < c → 0 ≤ a ∧ a ≤ n ∧ 0 ≤ b ∧ b ≤ n) ∧ (c < 0 → -1 ≤ a ∧ a ≤ (n : Int) - 1 ∧ -1 ≤ b ∧ b ≤ (n : Int) - 1) := by
  unfold sliceBounds at h
  split at h
  · cases h
  · rename_i hc
    simp only [Option.some.injEq, Prod.mk.injEq] at h
    obtain ⟨ha, hb, hc'⟩ := h
    subst hc'
    refine ⟨hc, ?_, ?_⟩
    · intro hpos
      have hneg : ¬ (s.step.getD 1 < 0) := by omega
      subst ha hb
      simp only [hpos, hneg, if_true, if_false]
      refine ⟨?_, ?_, ?_, ?_⟩ <;> (split <;> first | omega | (split <;> omega))
    · intro hneg
      have hpos : ¬ (s.step.getD 1 > 0) := by omega
      subst ha hb
      simp only [hpos, hneg, if_true, if_false]
      refine ⟨?_, ?_, ?_, ?_⟩ <;> (split <;> first | omega | (split <;> omega))

theorem rangeInt_mem (start stop step : Int) (i : Nat) (h : i ∈ rangeInt start stop step) :
    ∃ k : Nat, i = (start + (k : Int) * step).toNat ∧
      (0 < step → start + k * step < stop) ∧ (step < 0 → stop < start + k * step) := by
  unfold rangeInt at h
  obtain ⟨k, hk, rfl⟩ := List.mem_map.mp h
  refine ⟨k, rfl, ?_, ?_⟩
  · intro hpos
    simp only [List.mem_range, hpos, if_true] at hk
    have hk' : (k : Int) + 1 ≤ (stop - start + step - 1) / step := by omega
    have h1 : ((k : Int) + 1) * step ≤ (stop - start + step - 1) / step * step :=
      Int.mul_le_mul_of_nonneg_right hk' (by omega)
    have h2 := Int.ediv_mul_le (stop - start + step - 1) (b := step) (by omega)
    have h3 : ((k : Int) + 1) * step = k * step + step := by rw [Int.add_mul, Int.one_mul]
    omega
  · intro hneg
    have hnp : ¬ (step > 0) := by omega
    simp only [List.mem_range, hnp, if_false] at hk
    have hk' : (k : Int) + 1 ≤ (start - stop - step - 1) / (-step) := by omega
    have h1 : ((k : Int) + 1) * (-step) ≤ (start - stop - step - 1) / (-step) * (-step) :=
      Int.mul_le_mul_of_nonneg_right hk' (by omega)
    have h2 := Int.ediv_mul_le (start - stop - step - 1) (b := -step) (by omega)
    have h3 : ((k : Int) + 1) * (-step) = -(k * step) - step := by
      rw [Int.add_mul, Int.one_mul, Int.mul_neg]; omega
    omega

/-- a basic slice only selects existing positions -/
theorem sliceIndices_lt (s : PySlice) (n : Nat) (idx : List Nat) (h : sliceIndices s n = some idx) :
    ∀ i ∈ idx, i < n := by
  unfold sliceIndices at h
  cases hb : sliceBounds s n with
  | none => simp [hb] at h
  | some t =>
    obtain ⟨a, b, c⟩ := t
    simp only [hb, Option.map_some, Option.some.injEq] at h
    subst h
    obtain ⟨hc, hp, hn⟩ := sliceBounds_spec s n a b c hb
    intro i hi
    obtain ⟨k, rfl, h1, h2⟩ := rangeInt_mem a b c i hi
    by_cases hpos : 0 < c
    · have := hp hpos; have := h1 hpos
      have hk : 0 ≤ (k : Int) * c := Int.mul_nonneg (by omega) (by omega)
      omega
    · have hneg : c < 0 := by omega
      have := hn hneg; have := h2 hneg
      have hk : (k : Int) * c ≤ 0 := Int.mul_nonpos_of_nonneg_of_nonpos (by omega) (by omega)
      omega

end SSM

namespace SSM

theorem gather_map (f : α → β) (l : List α) (idx : List Nat) : gather (l.map f) idx = (gather l idx).map f := by
  induction idx with
  | nil => rfl
  | cons i idx ih =>
    rw [gather_cons, gather_cons, List.getElem?_map]
    cases l[i]? <;> simp [ih]

theorem gather_range_take (l : List α) (m : Nat) (h : m ≤ l.length) : gather l (List.range m) = l.take m := by
  apply List.ext_getElem?
  intro k
  rw [getElem?_gather l _ (fun i hi => by simp at hi; omega)]
  by_cases hk : k < m
  · simp [List.getElem?_range hk, List.getElem?_take, hk]
  · simp [hk, List.getElem?_take]

theorem rangeInt_zero_one (b : Int) : rangeInt 0 b 1 = List.range b.toNat := by
  unfold rangeInt
  simp only [show (1 : Int) > 0 by omega, if_true]
  have : (b - 0 + 1 - 1) / 1 = b := by simp
  rw [this]
  conv => rhs; rw [← List.map_id (List.range b.toNat)]
  apply List.map_congr_left
  intro k _
  simp

/-- `truncate(n)` = `slice(n)` keeps the first `n` positions (`n ≥ 0`) -/
theorem sliceIndices_truncate (n : Int) (len : Nat) (hn : 0 ≤ n) :
    sliceIndices ⟨none, some n, none⟩ len = some (List.range (min n.toNat len)) := by
  unfold sliceIndices sliceBounds
  simp only [Option.getD_none, show ¬ ((1 : Int) = 0) by omega, if_false, show ¬ ((1 : Int) < 0) by omega,
    show (1 : Int) > 0 by omega, if_true, Option.map_some, show ¬ (n < 0) by omega]
  rw [rangeInt_zero_one]
  congr 2
  omega

/-! ### minimum of the energies -/

theorem foldl_min_spec (l : List Rat) (init : Rat) :
    (l.foldl (fun m x => if x < m then x else m) init ≤ init ∧
     ∀ x ∈ l, l.foldl (fun m x => if x < m then x else m) init ≤ x) ∧
    (l.foldl (fun m x => if x < m then x else m) init = init ∨
     l.foldl (fun m x => if x < m then x else m) init ∈ l) := by
  induction l generalizing init with
  | nil => simp
  | cons a l ih =>
    simp only [List.foldl_cons, List.mem_cons]
    obtain ⟨⟨h1, h2⟩, h3⟩ := ih (if a < init then a else init)
    refine ⟨⟨?_, ?_⟩, ?_⟩
    · split at h1 <;> grind
    · intro x hx
      rcases hx with rfl | hx
      · split at h1 <;> grind
      · exact h2 x hx
    · rcases h3 with h3 | h3
      · by_cases hc : a < init
        · simp only [hc, if_true] at h3 ⊢; exact Or.inr (Or.inl h3)
        · simp only [hc, if_false] at h3 ⊢; exact Or.inl h3
      · exact Or.inr (Or.inr h3)

theorem minList_le (l : List Rat) : ∀ x ∈ l, minList l ≤ x := by
  cases l with
  | nil => simp
  | cons a l =>
    intro x hx
    obtain ⟨⟨h1, h2⟩, _⟩ := foldl_min_spec l a
    rcases List.mem_cons.mp hx with rfl | hx
    · exact h1
    · exact h2 x hx

theorem minList_mem (l : List Rat) (h : l ≠ []) : minList l ∈ l := by
  cases l with
  | nil => exact absurd rfl h
  | cons a l =>
    obtain ⟨_, h3⟩ := foldl_min_spec l a
    rcases h3 with h3 | h3
    · simp [minList, h3]
    · simp [minList, h3]

end SSM

namespace SSM

/-- a row is in `lowest(rtol, atol)` iff it is a row whose energy lies within `atol + rtol·|m|` of the least
    energy `m` — the tolerance is scaled by the *minimum*, not by the row's own energy -/
theorem mem_lowestRows (rows : List Row) (rtol atol : Rat) (r : Row) :
    r ∈ lowestRows rows rtol atol ↔
      r ∈ rows ∧ rabs (r.energy - minList (rows.map (·.energy))) ≤ atol + rtol * rabs (minList (rows.map (·.energy))) := by
  unfold lowestRows
  split
  · rename_i h
    simp only [List.isEmpty_iff] at h
    subst h
    simp
  · rw [maskSelect_map, List.mem_filter]
    simp [isclose]

theorem filterTruthy_spec (rows : List Row) (val : Row → Rat) :
    filterTruthy rows val = rows.filter (fun r => decide (val r ≠ 0)) :=
  maskSelect_map rows _

end SSM
