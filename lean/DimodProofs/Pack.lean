import DimodModel.Pack

/-! Helper lemmas for C11: bit packing, value trees, arrays. Core Lean only. -/

namespace Pack

/-! ### chunks -/

theorem chunksN_flatten (k m : Nat) (l : List α) (h : l.length = k * m) : (chunksN k m l).flatten = l := by
  induction m generalizing l with
  | zero =>
    have : l = [] := List.eq_nil_of_length_eq_zero (by simpa using h)
    simp [chunksN, this]
  | succ m ih =>
    simp only [chunksN, List.flatten_cons]
    rw [ih (l.drop k) (by rw [List.length_drop, h, Nat.mul_succ]; omega)]
    exact List.take_append_drop k l

theorem chunksN_length (k m : Nat) (l : List α) (h : l.length = k * m) : ∀ c ∈ chunksN k m l, c.length = k := by
  induction m generalizing l with
  | zero => simp [chunksN]
  | succ m ih =>
    intro c hc
    simp only [chunksN, List.mem_cons] at hc
    rcases hc with rfl | hc
    · rw [List.length_take, h, Nat.mul_succ]; omega
    · exact ih (l.drop k) (by rw [List.length_drop, h, Nat.mul_succ]; omega) c hc

theorem length_chunksN (k m : Nat) (l : List α) : (chunksN k m l).length = m := by
  induction m generalizing l with
  | zero => rfl
  | succ m ih => simp [chunksN, ih]

/-! ### one byte, one word -/

theorem unpack_pack_byte8 : ∀ (a b c d e f g h : Bool),
    unpackbits8 (packbits8 [a, b, c, d, e, f, g, h]) = [a, b, c, d, e, f, g, h] := by decide

theorem packbits8_lt8 : ∀ (a b c d e f g h : Bool), packbits8 [a, b, c, d, e, f, g, h] < 256 := by decide

theorem list8 (c : List Bool) (h : c.length = 8) : ∃ a b d e f g i j, c = [a, b, d, e, f, g, i, j] := by
  match c, h with
  | [a, b, d, e, f, g, i, j], _ => exact ⟨a, b, d, e, f, g, i, j, rfl⟩

theorem unpack_pack_byte (c : List Bool) (h : c.length = 8) : unpackbits8 (packbits8 c) = c := by
  obtain ⟨a, b, d, e, f, g, i, j, rfl⟩ := list8 c h
  exact unpack_pack_byte8 _ _ _ _ _ _ _ _

theorem packbits8_lt (c : List Bool) (h : c.length = 8) : packbits8 c < 256 := by
  obtain ⟨a, b, d, e, f, g, i, j, rfl⟩ := list8 c h
  exact packbits8_lt8 _ _ _ _ _ _ _ _

theorem bytesLE_wordLE (a b c d : Nat) (ha : a < 256) (hb : b < 256) (hc : c < 256) (hd : d < 256) :
    bytesLE (wordLE [a, b, c, d]) = [a, b, c, d] := by
  simp only [wordLE, List.foldr_cons, List.foldr_nil, bytesLE]
  refine List.cons_eq_cons.mpr ⟨by omega, List.cons_eq_cons.mpr ⟨by omega, List.cons_eq_cons.mpr ⟨by omega, List.cons_eq_cons.mpr ⟨by omega, rfl⟩⟩⟩⟩

theorem list4 (c : List α) (h : c.length = 4) : ∃ a b d e, c = [a, b, d, e] := by
  match c, h with
  | [a, b, d, e], _ => exact ⟨a, b, d, e, rfl⟩

/-- one 32-bit group: bytes of the packed word, unpacked and un-reversed, are the group -/
theorem unpack_pack_word (w : List Bool) (h : w.length = 32) :
    ((bytesLE (wordLE ((chunksN 8 4 w).map fun byte => packbits8 byte.reverse))).flatMap fun b => (unpackbits8 b).reverse) = w := by
  have hlen := chunksN_length 8 4 w (by omega)
  have hflat := chunksN_flatten 8 4 w (by omega)
  obtain ⟨c0, c1, c2, c3, hc⟩ := list4 (chunksN 8 4 w) (length_chunksN 8 4 w)
  rw [hc] at hlen hflat ⊢
  have h0 := hlen c0 (by simp); have h1 := hlen c1 (by simp); have h2 := hlen c2 (by simp); have h3 := hlen c3 (by simp)
  simp only [List.map_cons, List.map_nil]
  rw [bytesLE_wordLE _ _ _ _ (packbits8_lt _ (by simpa using h0)) (packbits8_lt _ (by simpa using h1))
    (packbits8_lt _ (by simpa using h2)) (packbits8_lt _ (by simpa using h3))]
  simp only [List.flatMap_cons, List.flatMap_nil, List.append_nil]
  rw [unpack_pack_byte _ (by simpa using h0), unpack_pack_byte _ (by simpa using h1),
    unpack_pack_byte _ (by simpa using h2), unpack_pack_byte _ (by simpa using h3)]
  simp only [List.reverse_reverse]
  simpa using hflat

theorem flatMap_congr' {f g : α → List β} (l : List α) (h : ∀ a ∈ l, f a = g a) : l.flatMap f = l.flatMap g := by
  induction l with
  | nil => rfl
  | cons a l ih =>
    simp only [List.flatMap_cons]
    rw [h a (by simp), ih (fun b hb => h b (by simp [hb]))]

theorem padLen_spec (n : Nat) : (n + padLen n) % 32 = 0 ∧ padLen n < 32 := by
  unfold padLen; omega

/-- one row: unpacking the packed row and cutting to the width gives the row back, for every width -/
theorem unpack_pack_row (bits : List Bool) : unpackRow (packRow bits) bits.length = bits := by
  unfold unpackRow packRow
  have hp := padLen_spec bits.length
  generalize hpad : bits ++ List.replicate (padLen bits.length) false = padded
  have hplen : padded.length = 32 * ((bits.length + padLen bits.length) / 32) := by
    rw [← hpad, List.length_append, List.length_replicate]; omega
  have hlen := chunksN_length 32 _ padded hplen
  rw [List.flatMap_map]
  have : ((chunksN 32 ((bits.length + padLen bits.length) / 32) padded).flatMap fun w =>
      (bytesLE (wordLE ((chunksN 8 4 w).map fun byte => packbits8 byte.reverse))).flatMap fun b => (unpackbits8 b).reverse)
      = (chunksN 32 ((bits.length + padLen bits.length) / 32) padded).flatMap id := by
    apply flatMap_congr'
    intro w hw
    exact unpack_pack_word w (hlen w hw)
  rw [this, List.flatMap_id, chunksN_flatten 32 _ padded hplen, ← hpad]
  simp

end Pack

namespace Pack

/-- `unpack_samples(pack_samples(x), n) = x` for every width `n` and every number of rows, including the
    empty shapes `(0, n)` and `(m, 0)` -/
theorem unpack_pack_samples (rows : List (List Bool)) (n : Nat) (h : ∀ r ∈ rows, r.length = n) :
    unpackSamples (packSamples rows n) n = rows := by
  unfold packSamples
  by_cases he : rows.isEmpty || n = 0
  · simp only [he, if_true, unpackSamples]
    simp only [Bool.or_eq_true, List.isEmpty_iff, decide_eq_true_eq] at he
    rcases he with he | he
    · subst he; simp
    · subst he
      have : ∀ r ∈ rows, r = [] := fun r hr => List.eq_nil_of_length_eq_zero (h r hr)
      simp only [decide_true, Bool.or_true, if_true, List.replicate_zero]
      apply List.ext_getElem
      · simp
      · intro i h1 h2
        simp only [List.getElem_replicate]
        exact (this _ (List.getElem_mem h2)).symm
  · simp only [he, if_false, unpackSamples]
    simp only [Bool.or_eq_true, List.isEmpty_iff, decide_eq_true_eq, not_or] at he
    have hr : rows.length ≠ 0 := fun e => he.1 (List.eq_nil_of_length_eq_zero e)
    have hc : (n + padLen n) / 32 ≠ 0 := by
      have := padLen_spec n
      omega
    simp only [hr, hc, decide_false, Bool.or_false, Bool.false_eq_true, if_false, List.map_map]
    conv => rhs; rw [← List.map_id rows]
    apply List.map_congr_left
    intro r hrm
    simp only [Function.comp, id]
    rw [← h r hrm]
    exact unpack_pack_row r

/-! ### labels -/

mutual
theorem label_roundtrip : ∀ (v : PV), isLabel v = true → deserVar (jsonRT (serVar v)) = v
  | .none, h => by simp [isLabel] at h
  | .bool _, h => by simp [isLabel] at h
  | .int _, _ => rfl
  | .float _, _ => rfl
  | .str _, _ => rfl
  | .list _, h => by simp [isLabel] at h
  | .tup l, h => by
    simp only [isLabel] at h
    simp only [serVar, jsonRT, deserVar, labelList_roundtrip l h]
theorem labelList_roundtrip : ∀ (l : List PV), isLabelList l = true → deserVarList (jsonRTList (serVarList l)) = l
  | [], _ => rfl
  | v :: t, h => by
    simp only [isLabelList, Bool.and_eq_true] at h
    simp only [serVarList, jsonRTList, deserVarList, label_roundtrip v h.1, labelList_roundtrip t h.2]
end

/-! ### arrays -/

mutual
def isScalar : PV → Bool
  | .tup _ => false
  | .list _ => false
  | _ => true
end

mutual
theorem flat_jsonRT : ∀ (v : PV), flat (jsonRT v) = flat v
  | .none => rfl
  | .bool _ => rfl
  | .int _ => rfl
  | .float _ => rfl
  | .str _ => rfl
  | .tup l => by simp only [jsonRT, flat, flatList_jsonRT l]
  | .list l => by simp only [jsonRT, flat, flatList_jsonRT l]
theorem flatList_jsonRT : ∀ (l : List PV), flatList (jsonRTList l) = flatList l
  | [] => rfl
  | v :: t => by simp only [jsonRTList, flatList, flat_jsonRT v, flatList_jsonRT t]
end

theorem flat_scalar (v : PV) (h : isScalar v = true) : flat v = [v] := by
  cases v <;> simp [isScalar] at h <;> rfl

theorem flatList_eq_flatMap (l : List PV) : flatList l = l.flatMap flat := by
  induction l with
  | nil => rfl
  | cons v t ih => simp [flatList, ih]

theorem flatList_scalars (l : List PV) (h : ∀ v ∈ l, isScalar v = true) : flatList l = l := by
  induction l with
  | nil => rfl
  | cons v t ih =>
    simp only [flatList, flat_scalar v (h v (by simp)), ih (fun w hw => h w (by simp [hw]))]
    rfl

/-- flattening the nested list of `tolist()` gives the C-order data back -/
theorem flat_nest (shape : List Nat) (xs : List PV) (hs : ∀ v ∈ xs, isScalar v = true) (hl : xs.length = prod shape) :
    flat (nest shape xs) = xs := by
  induction shape generalizing xs with
  | nil =>
    simp only [prod] at hl
    match xs, hl with
    | [x], _ => simp [nest, flat_scalar x (hs x (by simp))]
  | cons d rest ih =>
    simp only [nest, flat, flatList_eq_flatMap, List.flatMap_map]
    simp only [prod] at hl
    have hl' : xs.length = prod rest * d := by rw [hl, Nat.mul_comm]
    have hlen := chunksN_length (prod rest) d xs hl'
    have : ((chunksN (prod rest) d xs).flatMap fun c => flat (nest rest c)) = (chunksN (prod rest) d xs).flatMap id := by
      apply flatMap_congr'
      intro c hc
      refine ih c ?_ (hlen c hc)
      intro v hv
      have hsub : ∀ (m : Nat) (l : List PV), ∀ c ∈ chunksN (prod rest) m l, ∀ v ∈ c, v ∈ l := by
        intro m
        induction m with
        | zero => intro l c hc; simp [chunksN] at hc
        | succ m ihm =>
          intro l c hc v hv
          simp only [chunksN, List.mem_cons] at hc
          rcases hc with rfl | hc
          · exact List.mem_of_mem_take hv
          · exact List.mem_of_mem_drop (ihm _ c hc v hv)
      exact hs v (hsub d xs c hc v hv)
    rw [this, List.flatMap_id, chunksN_flatten _ _ _ hl']

/-- what an array of a dtype class may hold -/
def validElem : DKind → Rat → Prop
  | .bool, q => q = 0 ∨ q = 1
  | .int, q => q = (q.floor : Rat)
  | .float, _ => True

theorem elemOut_scalar (k : DKind) (q : Rat) : isScalar (elemOut k q) = true := by
  cases k <;> simp only [elemOut] <;> (try split) <;> rfl

theorem elemIn_elemOut (k : DKind) (q : Rat) (h : validElem k q) : elemIn (elemOut k q) = q := by
  cases k with
  | bool =>
    rcases h with rfl | rfl <;> simp [elemOut, elemIn]
  | int => simp only [elemOut, elemIn]; exact h.symm
  | float =>
    simp only [elemOut]
    split
    · rename_i e; simp only [elemIn]; exact e.symm
    · rfl

/-- `deserialize_ndarray(json.loads(json.dumps(serialize_ndarray(a))))` is `a`: dtype class, shape and
    every element -/
theorem ndarray_roundtrip (a : NDArr) (hl : a.data.length = prod a.shape) (hv : ∀ q ∈ a.data, validElem a.kind q) :
    deserializeNd a.kind a.shape (jsonRT (serializeData a)) = a := by
  cases a with | mk kind shape data =>
  simp only [deserializeNd, serializeData, NDArr.mk.injEq, true_and]
  rw [flat_jsonRT, flat_nest shape _ (by
      intro v hv'
      obtain ⟨q, _, rfl⟩ := List.mem_map.mp hv'
      exact elemOut_scalar kind q) (by simpa using hl), List.map_map]
  conv => rhs; rw [← List.map_id data]
  apply List.map_congr_left
  intro q hq
  exact elemIn_elemOut kind q (hv q hq)

end Pack

namespace Pack
open SSM

/-! ### the sample matrix through `to_serializable` / json / `from_serializable` -/

theorem chunksN_of_flatten (k : Nat) (rows : List (List α)) (h : ∀ r ∈ rows, r.length = k) :
    chunksN k rows.length rows.flatten = rows := by
  induction rows with
  | nil => rfl
  | cons r t ih =>
    have hr := h r (by simp)
    simp only [List.length_cons, chunksN, List.flatten_cons]
    rw [List.take_left' hr, List.drop_left' hr, ih (fun x hx => h x (by simp [hx]))]

theorem length_flatten_of (k : Nat) (rows : List (List α)) (h : ∀ r ∈ rows, r.length = k) :
    rows.flatten.length = rows.length * k := by
  induction rows with
  | nil => simp
  | cons r t ih =>
    simp only [List.flatten_cons, List.length_append, List.length_cons, h r (by simp), ih (fun x hx => h x (by simp [hx]))]
    rw [Nat.succ_mul]; omega

theorem packSamples_wf (bits : List (List Bool)) (n : Nat) (h : ∀ r ∈ bits, r.length = n) :
    (packSamples bits n).rows.length = (packSamples bits n).shape.1 ∧
    (∀ r ∈ (packSamples bits n).rows, r.length = (packSamples bits n).shape.2) ∨
    ((packSamples bits n).rows = [] ∧ (packSamples bits n).shape.1 = 0) := by
  unfold packSamples
  by_cases he : bits.isEmpty || n = 0
  · simp only [he, if_true]
    simp only [Bool.or_eq_true, List.isEmpty_iff, decide_eq_true_eq] at he
    rcases he with he | he
    · subst he; right; simp
    · subst he; left
      refine ⟨by simp, ?_⟩
      intro r hr
      obtain ⟨_, _, rfl⟩ := List.mem_map.mp hr
      rfl
  · rw [if_neg he]
    left
    refine ⟨by simp, ?_⟩
    intro r hr
    obtain ⟨b, hb, rfl⟩ := List.mem_map.mp hr
    simp only [packRow, List.length_map, length_chunksN, h b hb]

theorem words_decode (ws : List Nat) :
    ((ws.map fun (w : Nat) => PV.int (w : Int)).map elemIn).map (fun q => q.floor.toNat) = ws := by
  induction ws with
  | nil => rfl
  | cons w ws ihw =>
    simp only [List.map_cons, ihw, elemIn, Rat.floor_intCast, Int.toNat_natCast]

theorem wordsPV_decode (rows : List (List Nat)) :
    ((wordsPV rows).map elemIn).map (fun q => q.floor.toNat) = rows.flatten := by
  induction rows with
  | nil => rfl
  | cons r t ih =>
    simp only [wordsPV, List.flatMap_cons, List.map_append, List.flatten_cons] at ih ⊢
    rw [ih, words_decode]

theorem wordsPV_scalar (rows : List (List Nat)) : ∀ v ∈ wordsPV rows, isScalar v = true := by
  intro v hv
  simp only [wordsPV, List.mem_flatMap, List.mem_map] at hv
  obtain ⟨_, _, _, _, rfl⟩ := hv
  rfl

theorem length_wordsPV (rows : List (List Nat)) : (wordsPV rows).length = rows.flatten.length := by
  induction rows with
  | nil => rfl
  | cons r t ih => simp only [wordsPV, List.flatMap_cons, List.length_append, List.length_map, List.flatten_cons] at ih ⊢; omega

theorem chunksN_map (f : α → β) (k m : Nat) (l : List α) : chunksN k m (l.map f) = (chunksN k m l).map (·.map f) := by
  induction m generalizing l with
  | zero => rfl
  | succ m ih =>
    simp only [chunksN, List.map_cons]
    rw [← List.map_drop, ih, List.map_take]

/-- a packed matrix survives nesting, JSON and re-chunking -/
theorem packed_matrix_roundtrip (p : Packed) (h1 : p.rows.length = p.shape.1) (h2 : ∀ r ∈ p.rows, r.length = p.shape.2) :
    (chunksN p.shape.2 p.shape.1 ((flat (jsonRT (nest [p.shape.1, p.shape.2] (wordsPV p.rows)))).map elemIn)).map
      (·.map fun q => q.floor.toNat) = p.rows := by
  have hl : (wordsPV p.rows).length = prod [p.shape.1, p.shape.2] := by
    rw [length_wordsPV, length_flatten_of _ _ h2, h1]; simp [prod]
  rw [flat_jsonRT, flat_nest _ _ (wordsPV_scalar _) hl, ← chunksN_map, wordsPV_decode, ← h1]
  exact chunksN_of_flatten _ _ h2

/-- the sample matrix comes back exactly — packed (SPIN / BINARY values) or not (any values of the
    dtype), for every shape including the empty ones -/
theorem samples_roundtrip (vt : VT) (kind : DKind) (packFlag : Bool) (rows : List (List Rat)) (n : Nat)
    (hlen : ∀ r ∈ rows, r.length = n)
    (hvalid : ∀ r ∈ rows, ∀ q ∈ r, validElem kind q)
    (hspin : vt = .spin → ∀ r ∈ rows, ∀ q ∈ r, q = 1 ∨ q = -1)
    (hbin : vt = .binary → ∀ r ∈ rows, ∀ q ∈ r, q = 0 ∨ q = 1) :
    decodeSamples vt n (encodeSamples true vt kind packFlag rows n).json = rows := by
  unfold encodeSamples
  by_cases hp : packs true vt packFlag = true
  · simp only [hp, if_true, SampleDoc.json, decodeSamples, List.headD_cons, List.drop_one, List.tail_cons]
    generalize hbits : (if vt = .binary ∧ kind ≠ .float then rows.map (·.map fun x => decide (x ≠ 0))
      else rows.map (·.map fun x => decide (0 < x))) = bits
    have hbl : ∀ r ∈ bits, r.length = n := by
      intro r hr
      rw [← hbits] at hr
      split at hr <;> (obtain ⟨r0, h0, rfl⟩ := List.mem_map.mp hr; simpa using hlen r0 h0)
    have hwf := packSamples_wf bits n hbl
    have hpk : (chunksN (packSamples bits n).shape.2 (packSamples bits n).shape.1
        ((flat (jsonRT (nest [(packSamples bits n).shape.1, (packSamples bits n).shape.2] (wordsPV (packSamples bits n).rows)))).map elemIn)).map
        (·.map fun q => q.floor.toNat) = (packSamples bits n).rows := by
      rcases hwf with ⟨h1, h2⟩ | ⟨h1, h2⟩
      · exact packed_matrix_roundtrip _ h1 h2
      · rw [h1, h2]; simp [chunksN]
    rw [hpk]
    have hun : unpackSamples ⟨((packSamples bits n).shape.1, (packSamples bits n).shape.2), (packSamples bits n).rows⟩ n = bits :=
      unpack_pack_samples bits n hbl
    rw [hun, ← hbits]
    -- decode the bits
    have hvt : vt = .spin ∨ vt = .binary := by
      simp only [packs, if_true, Bool.and_eq_true, Bool.or_eq_true, beq_iff_eq] at hp
      exact hp.2
    conv => rhs; rw [← List.map_id rows]
    rcases hvt with rfl | rfl
    · simp only [show ¬ (VT.spin = VT.binary ∧ kind ≠ DKind.float) by simp, if_false, if_true, List.map_map]
      apply List.map_congr_left
      intro r hr
      simp only [Function.comp, List.map_map, id]
      conv => rhs; rw [← List.map_id r]
      apply List.map_congr_left
      intro q hq
      rcases hspin rfl r hr q hq with rfl | rfl <;> decide +kernel
    · have hne : ¬ (VT.binary = VT.spin) := by decide
      by_cases hk : kind ≠ DKind.float
      · rw [if_pos ⟨rfl, hk⟩]
        simp only [hne, if_false, List.map_map]
        apply List.map_congr_left
        intro r hr
        simp only [Function.comp, List.map_map, id]
        conv => rhs; rw [← List.map_id r]
        apply List.map_congr_left
        intro q hq
        rcases hbin rfl r hr q hq with rfl | rfl <;> decide +kernel
      · rw [if_neg (fun h => hk h.2)]
        simp only [hne, if_false, List.map_map]
        apply List.map_congr_left
        intro r hr
        simp only [Function.comp, List.map_map, id]
        conv => rhs; rw [← List.map_id r]
        apply List.map_congr_left
        intro q hq
        rcases hbin rfl r hr q hq with rfl | rfl <;> decide +kernel
  · simp only [hp, SampleDoc.json, decodeSamples, List.headD_cons, List.drop_one, List.tail_cons, Bool.false_eq_true, if_false]
    have hl : (rows.flatten.map (elemOut kind)).length = prod [rows.length, n] := by
      rw [List.length_map, length_flatten_of _ _ hlen]; simp [prod]
    rw [flat_jsonRT, flat_nest _ _ (by
      intro v hv
      obtain ⟨q, _, rfl⟩ := List.mem_map.mp hv
      exact elemOut_scalar kind q) hl, List.map_map]
    have : rows.flatten.map (elemIn ∘ elemOut kind) = rows.flatten := by
      conv => rhs; rw [← List.map_id rows.flatten]
      apply List.map_congr_left
      intro q hq
      obtain ⟨r, hr, hqr⟩ := List.mem_flatten.mp hq
      exact elemIn_elemOut kind q (hvalid r hr q hqr)
    rw [this]
    exact chunksN_of_flatten n rows hlen

end Pack

namespace Pack

/-! ### info -/

theorem validElem_of_match (k : DKind) (q : Rat)
    (h : match k with | .bool => q = 0 ∨ q = 1 | .int => q = (q.floor : Rat) | .float => True) : validElem k q := by
  cases k <;> exact h

mutual
theorem info_rt : ∀ (i : Info), goodInfo i → deserInfo (jsonDoc (serInfo i)) = i
  | .leaf v, h => by
    simp only [goodInfo] at h
    rcases h with rfl | ⟨z, rfl⟩ | ⟨q, rfl⟩ | ⟨s, rfl⟩ <;> rfl
  | .arr a, h => by
    simp only [goodInfo] at h
    simp only [serInfo, jsonDoc, deserInfo]
    rw [ndarray_roundtrip a h.1 (fun q hq => validElem_of_match a.kind q (h.2 q hq))]
  | .list l, h => by
    simp only [goodInfo] at h
    simp only [serInfo, jsonDoc, deserInfo, infoList_rt l h]
  | .dict kv, h => by
    simp only [goodInfo] at h
    simp only [serInfo, jsonDoc, deserInfo, infoKV_rt kv h]
theorem infoList_rt : ∀ (l : List Info), goodInfoList l → deserInfoList (jsonDocList (serInfoList l)) = l
  | [], _ => rfl
  | i :: t, h => by
    simp only [goodInfoList] at h
    simp only [serInfoList, jsonDocList, deserInfoList, info_rt i h.1, infoList_rt t h.2]
theorem infoKV_rt : ∀ (kv : List (String × Info)), goodInfoKV kv → deserInfoKV (jsonDocKV (serInfoKV kv)) = kv
  | [], _ => rfl
  | (k, i) :: t, h => by
    simp only [goodInfoKV] at h
    simp only [serInfoKV, jsonDocKV, deserInfoKV, info_rt i h.1, infoKV_rt t h.2]
end

end Pack

namespace Pack

/-! ### bytes payload -/

theorem length_toBytesLE (n v : Nat) : (toBytesLE n v).length = n := by
  induction n generalizing v with
  | zero => rfl
  | succ n ih => simp [toBytesLE, ih]

theorem fromBytesLE_toBytesLE (n v : Nat) : fromBytesLE (toBytesLE n v) = v % 256 ^ n := by
  induction n generalizing v with
  | zero => simp [toBytesLE, fromBytesLE, Nat.mod_one]
  | succ n ih =>
    have := ih (v / 256)
    simp only [fromBytesLE] at this
    simp only [toBytesLE, fromBytesLE, List.foldr_cons, this]
    rw [Nat.pow_succ, Nat.mul_comm (256 ^ n) 256, Nat.mod_mul]

theorem pow8 (n : Nat) : ((256 ^ n : Nat) : Int) = (2 : Int) ^ (8 * n) := by
  have : (256 : Nat) = 2 ^ 8 := by decide
  rw [this, ← Nat.pow_mul]
  simp

/-- one item: reading back what was stored gives the value, for every value the dtype holds -/
theorem decode_encode_int (t : IntType) (z : Int) (h : t.holds z) : decodeInt t (encodeInt t z) = z := by
  have hM : (0 : Int) < (2 : Int) ^ (8 * t.size) := Int.pow_pos (by decide)
  generalize hMd : (2 : Int) ^ (8 * t.size) = M at *
  have hu : ((fromBytesLE (toBytesLE t.size (z % M).toNat) : Nat) : Int) = z % M := by
    rw [fromBytesLE_toBytesLE]
    have hnn : 0 ≤ z % M := Int.emod_nonneg z (by omega)
    have hlt : z % M < M := Int.emod_lt_of_pos z hM
    have hlt' : (z % M).toNat < 256 ^ t.size := by
      have := pow8 t.size
      rw [hMd] at this
      omega
    rw [Nat.mod_eq_of_lt hlt']
    omega
  simp only [decodeInt, encodeInt, hMd, hu]
  unfold IntType.holds at h
  rw [hMd] at h
  cases hs : t.signed
  · simp only [hs, Bool.false_eq_true, if_false, false_and] at h ⊢
    exact Int.emod_eq_of_lt h.1 h.2
  · simp only [hs, if_true, true_and] at h ⊢
    by_cases hz : 0 ≤ z
    · have e : z % M = z := Int.emod_eq_of_lt hz (by omega)
      rw [e]
      have : ¬ (M ≤ 2 * z) := by omega
      simp [this]
    · have e : z % M = z + M := by
        have h1 : (z + M) % M = z % M := Eq.symm Int.emod_eq_add_self_emod
        rw [← h1]
        exact Int.emod_eq_of_lt (by omega) (by omega)
      rw [e]
      have : M ≤ 2 * (z + M) := by omega
      simp only [this, if_true]
      omega

theorem chunks_flatMap_roundtrip (size : Nat) (enc : α → List β) (dec : List β → α) (l : List α)
    (hlen : ∀ a, (enc a).length = size) (hrt : ∀ a ∈ l, dec (enc a) = a) :
    (chunksN size l.length (l.flatMap enc)).map dec = l := by
  induction l with
  | nil => rfl
  | cons a t ih =>
    simp only [List.flatMap_cons, List.length_cons, chunksN, List.map_cons]
    rw [List.take_left' (hlen a), List.drop_left' (hlen a), hrt a (by simp), ih (fun b hb => hrt b (by simp [hb]))]

/-- `np.frombuffer(arr.tobytes(), dtype)` gives the array back: integer-like dtypes (bool, signed and unsigned
    of any item size, two's complement, little endian) -/
theorem bytes_roundtrip_int (t : IntType) (data : List Int) (h : ∀ z ∈ data, t.holds z) :
    frombufferInt t (tobytesInt t data) data.length = data :=
  chunks_flatMap_roundtrip t.size (encodeInt t) (decodeInt t) data (fun z => length_toBytesLE _ _)
    (fun z hz => decode_encode_int t z (h z hz))

/-- … and floating dtypes, given that IEEE decoding inverts encoding on representable values -/
theorem bytes_roundtrip_float (c : FloatCodec) (data : List Rat) (h : ∀ q ∈ data, c.representable q) :
    frombufferFloat c (tobytesFloat c data) data.length = data :=
  chunks_flatMap_roundtrip c.size c.enc c.dec data c.len (fun q hq => c.rt q (h q hq))

end Pack
