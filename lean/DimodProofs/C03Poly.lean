import DimodProofs.C02Poly

/-! # C03 — polynomial fixing (`higherordercomposites.fix_variables`, used by `PolyFixedVariableComposite`) -/

namespace En

variable {R : Type} [CommRing R]

/-- the assignment `x'` of the remaining variables extended by the fixed values (first match in `fixed`) -/
def extend (x' : Nat → R) (fixed : List (Nat × R)) : Nat → R :=
  fun v => match fixed.find? (fun f => f.1 == v) with
    | some f => f.2
    | none => x' v

theorem termProd_congr (x y : Nat → R) (t : List Nat) (h : ∀ v ∈ t, x v = y v) : termProd x t = termProd y t := by
  induction t with
  | nil => rfl
  | cons v rest ih =>
    simp only [termProd]
    rw [h v (by simp), ih (fun w hw => h w (List.mem_cons_of_mem _ hw))]

theorem termProd_filter (x : Nat → R) (t : List Nat) (hnd : t.Nodup) (f : Nat) (hf : f ∈ t) :
    termProd x t = x f * termProd x (t.filter (· ≠ f)) := by
  induction t with
  | nil => cases hf
  | cons v rest ih =>
    have hnd' := (List.nodup_cons.mp hnd).2
    have hv := (List.nodup_cons.mp hnd).1
    simp only [termProd, List.filter_cons]
    by_cases hvf : v = f
    · subst hvf
      have : rest.filter (fun w => decide (w ≠ v)) = rest := by
        apply List.filter_eq_self.mpr
        intro w hw
        simp only [ne_eq, decide_not, Bool.not_eq_eq_eq_not, Bool.not_true, decide_eq_false_iff_not]
        intro e; exact hv (e ▸ hw)
      simp only [ne_eq, not_true_eq_false, decide_false, Bool.false_eq_true, if_false]
      rw [this]
    · have hf' : f ∈ rest := by
        rcases List.mem_cons.mp hf with h | h
        · exact absurd h.symm hvf
        · exact h
      simp only [ne_eq, hvf, not_false_eq_true, decide_true, if_true, termProd]
      rw [ih hnd' hf']; ring

theorem extend_cons_ne (x' : Nat → R) (f : Nat) (a : R) (rest : List (Nat × R)) (v : Nat) (h : v ≠ f) :
    extend x' ((f, a) :: rest) v = extend x' rest v := by
  unfold extend
  have : ((f, a).1 == v) = false := by simp; exact fun e => h e.symm
  simp [List.find?_cons, this]

theorem extend_cons_eq (x' : Nat → R) (f : Nat) (a : R) (rest : List (Nat × R)) :
    extend x' ((f, a) :: rest) f = a := by
  unfold extend; simp [List.find?_cons]

/-- removing the fixed variables from a term and multiplying their values into the bias keeps the term's value -/
theorem fixTerm_value (x' : Nat → R) (fixed : List (Nat × R)) (hfd : (fixed.map (·.1)).Nodup)
    (t : List Nat) (hnd : t.Nodup) (b : R) :
    (fixTerm fixed t b).2 * termProd x' (fixTerm fixed t b).1 = b * termProd (extend x' fixed) t
      ∧ ∀ f ∈ fixed, f.1 ∉ (fixTerm fixed t b).1 := by
  induction fixed generalizing t b with
  | nil =>
    refine ⟨?_, by simp⟩
    simp only [fixTerm, List.foldl_nil]
    congr 1
  | cons fa rest ih =>
    obtain ⟨f, a⟩ := fa
    have hfd' : (rest.map (·.1)).Nodup := (List.nodup_cons.mp hfd).2
    have hf_notin : f ∉ rest.map (·.1) := (List.nodup_cons.mp hfd).1
    simp only [fixTerm, List.foldl_cons]
    by_cases hft : f ∈ t
    · have hc : t.contains f = true := by simpa using hft
      simp only [hc, if_true]
      have hnd' : (t.filter (· ≠ f)).Nodup := List.Nodup.filter _ hnd
      obtain ⟨h1, h2⟩ := ih hfd' (t.filter (· ≠ f)) hnd' (b * a)
      unfold fixTerm at h1 h2
      refine ⟨?_, ?_⟩
      · rw [h1, termProd_filter (extend x' ((f, a) :: rest)) t hnd f hft, extend_cons_eq]
        have : termProd (extend x' rest) (t.filter (· ≠ f)) = termProd (extend x' ((f, a) :: rest)) (t.filter (· ≠ f)) := by
          apply termProd_congr
          intro v hv
          have : v ≠ f := by simpa using (List.mem_filter.mp hv).2
          rw [extend_cons_ne x' f a rest v this]
        rw [this]; ring
      · intro g hg
        rcases List.mem_cons.mp hg with rfl | hg
        · -- `f` was filtered out and later steps only remove elements
          intro hmem
          have hsub : ∀ (fx : List (Nat × R)) (tb : List Nat × R),
              ∀ w ∈ (fx.foldl (fun (tb : List Nat × R) (f : Nat × R) =>
                if tb.1.contains f.1 then (tb.1.filter (· ≠ f.1), tb.2 * f.2) else tb) tb).1, w ∈ tb.1 := by
            intro fx
            induction fx with
            | nil => intro tb w hw; exact hw
            | cons g' gs ihg =>
              intro tb w hw
              simp only [List.foldl_cons] at hw
              have := ihg _ w hw
              split at this
              · exact (List.mem_filter.mp this).1
              · exact this
          have := hsub rest (t.filter (· ≠ f), b * a) _ hmem
          simpa using (List.mem_filter.mp this).2
        · exact h2 g hg
    · have hc : t.contains f = false := by simpa using hft
      simp only [hc, Bool.false_eq_true, if_false]
      obtain ⟨h1, h2⟩ := ih hfd' t hnd b
      unfold fixTerm at h1 h2
      refine ⟨?_, ?_⟩
      · rw [h1]
        congr 1
        apply termProd_congr
        intro v hv
        have : v ≠ f := fun e => hft (e ▸ hv)
        rw [extend_cons_ne x' f a rest v this]
      · intro g hg
        rcases List.mem_cons.mp hg with rfl | hg
        · intro hmem
          have hsub : ∀ (fx : List (Nat × R)) (tb : List Nat × R),
              ∀ w ∈ (fx.foldl (fun (tb : List Nat × R) (f : Nat × R) =>
                if tb.1.contains f.1 then (tb.1.filter (· ≠ f.1), tb.2 * f.2) else tb) tb).1, w ∈ tb.1 := by
            intro fx
            induction fx with
            | nil => intro tb w hw; exact hw
            | cons g' gs ihg =>
              intro tb w hw
              simp only [List.foldl_cons] at hw
              have := ihg _ w hw
              split at this
              · exact (List.mem_filter.mp this).1
              · exact this
          exact hft (hsub rest (t, b) _ hmem)
        · exact h2 g hg

/-- Σ of the constant terms of a dict polynomial whose keys are distinct = the entry under `()` -/
theorem const_terms (p : Poly R) (hk : (p.map (·.1)).Nodup) :
    ((p.filter fun tb => tb.1.isEmpty).map (·.2)).sum = (ODict.get? p []).getD 0 := by
  induction p with
  | nil => simp [ODict.get?]
  | cons tb rest ih =>
    obtain ⟨t, b⟩ := tb
    have hk' : (rest.map (·.1)).Nodup := (List.nodup_cons.mp hk).2
    have ht : t ∉ rest.map (·.1) := (List.nodup_cons.mp hk).1
    simp only [List.filter_cons, ODict.get?]
    by_cases hte : t = []
    · subst hte
      have hnone : ∀ tb ∈ rest, tb.1.isEmpty = false := by
        intro tb htb
        cases h : tb.1 with
        | nil => exact absurd (List.mem_map.mpr ⟨tb, htb, h⟩) ht
        | cons _ _ => rfl
      have : rest.filter (fun tb => tb.1.isEmpty) = [] := by
        apply List.filter_eq_nil_iff.mpr
        intro tb htb; simp [hnone tb htb]
      simp [this]
    · have : t.isEmpty = false := by cases t <;> simp_all
      simp only [this, Bool.false_eq_true, if_false, hte]
      exact ih hk'

/-- **`poly_fix_eval`** (repaired, D5): the polynomial returned by `fix_variables(poly, fixed)` at an assignment `x'` of the
    remaining variables has the energy of `poly` at `x'` extended by the fixed values; the constant term is counted once -/
theorem polyFixVariables_energy (p : Poly R) (hk : (p.map (·.1)).Nodup) (hterms : ∀ tb ∈ p, tb.1.Nodup)
    (fixed : List (Nat × R)) (hfd : (fixed.map (·.1)).Nodup) (x' : Nat → R) :
    polySpec x' (polyFixVariables p fixed) = polySpec (extend x' fixed) p := by
  unfold polyFixVariables
  -- the fold, with the running polynomial and offset made explicit
  have key : ∀ (q : Poly R) (hq : ∀ tb ∈ q, tb.1.Nodup) (st : Poly R × R),
      let st' := q.foldl (fun (st : Poly R × R) (tb : List Nat × R) =>
        if tb.1.isEmpty then st else
        let (k, v) := fixTerm fixed tb.1 tb.2
        if k.length > 0 then (st.1.accum k v, st.2) else (st.1, st.2 + v)) st
      polySpec x' st'.1 + st'.2
        = polySpec x' st.1 + st.2 + (polySpec (extend x' fixed) q - ((q.filter fun tb => tb.1.isEmpty).map (·.2)).sum) := by
    intro q
    induction q with
    | nil => intro _ st; simp [polySpec]
    | cons tb rest ih =>
      intro hq st
      obtain ⟨t, b⟩ := tb
      have hq' : ∀ tb ∈ rest, tb.1.Nodup := fun tb h => hq tb (List.mem_cons_of_mem _ h)
      have htn : t.Nodup := hq (t, b) (by simp)
      simp only [List.foldl_cons, List.filter_cons, polySpec]
      by_cases hte : t.isEmpty
      · simp only [hte, if_true, List.map_cons, List.sum_cons]
        rw [ih hq']
        have : t = [] := List.isEmpty_iff.mp hte
        subst this
        simp [termProd]
      · simp only [hte, Bool.false_eq_true, if_false]
        obtain ⟨hv, _⟩ := fixTerm_value x' fixed hfd t htn b
        rw [ih hq']
        by_cases hlen : (fixTerm fixed t b).1.length > 0
        · simp only [hlen, if_true]
          rw [polySpec_accum, ← hv]; ring
        · simp only [hlen, if_false]
          have : (fixTerm fixed t b).1 = [] := by
            apply List.length_eq_zero_iff.mp; omega
          rw [this] at hv
          simp only [termProd, mul_one] at hv
          rw [← hv]; ring
  have := key p hterms ([], (ODict.get? p []).getD 0)
  simp only [] at this
  rw [polySpec_append]
  simp only [polySpec, termProd, mul_one, add_zero]
  rw [this, const_terms p hk]
  simp [polySpec]

end En
