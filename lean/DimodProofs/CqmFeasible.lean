import DimodProofs.CqmFold

/-! # `cqm_to_bqm`: at a feasible CQM sample the slack bits can be set so that every penalty vanishes (core Lean only) -/

namespace Pen

/-! ## labels a bag mentions; evaluation depends only on them -/

def PTerm.labels : PTerm Label → List Label
  | .const _ => []
  | .lin v _ => [v]
  | .quad u v _ => [u, v]

def bagLabels (bag : List (PTerm Label)) : List Label := bag.flatMap PTerm.labels

theorem evalBag_congr (x y : Label → Rat) (bag : List (PTerm Label)) (h : ∀ l ∈ bagLabels bag, x l = y l) :
    evalBag x bag = evalBag y bag := by
  induction bag with
  | nil => rfl
  | cons t r ih =>
    have hr : ∀ l ∈ bagLabels r, x l = y l := fun l hl => h l (by simp only [bagLabels, List.flatMap_cons, List.mem_append]; exact Or.inr hl)
    have ht : ∀ l ∈ t.labels, x l = y l := fun l hl => h l (by simp only [bagLabels, List.flatMap_cons, List.mem_append]; exact Or.inl hl)
    simp only [evalBag, ih hr]
    congr 1
    cases t with
    | const c => rfl
    | lin v c => simp only [PTerm.eval]; rw [ht v (by simp [PTerm.labels])]
    | quad u v c => simp only [PTerm.eval]; rw [ht u (by simp [PTerm.labels]), ht v (by simp [PTerm.labels])]

theorem mem_bagLabels (bag : List (PTerm Label)) (l : Label) : l ∈ bagLabels bag ↔ ∃ t ∈ bag, l ∈ t.labels := by
  simp [bagLabels]

theorem mem_pairsLt' {β : Type} (l : List β) (p : β × β) (h : p ∈ pairsLt l) : p.1 ∈ l ∧ p.2 ∈ l := by
  induction l with
  | nil => simp [pairsLt] at h
  | cons a r ih =>
    simp only [pairsLt, List.mem_append, List.mem_map] at h
    rcases h with ⟨b, hb, rfl⟩ | h
    · exact ⟨by simp, by simp [hb]⟩
    · have := ih h; exact ⟨by simp [this.1], by simp [this.2]⟩

/-- the Cython equality bag only mentions the labels of its terms -/
theorem labels_eqTermsCy (vt : VT) (terms : List (Label × Rat)) (lam C : Rat) :
    ∀ l ∈ bagLabels (eqTermsCy vt terms lam C), l ∈ terms.map (·.1) := by
  intro l hl
  rw [mem_bagLabels] at hl
  obtain ⟨t, ht, hlt⟩ := hl
  unfold eqTermsCy at ht
  simp only [List.mem_append, List.mem_map, List.mem_singleton] at ht
  rcases ht with ((⟨e, he, rfl⟩ | rfl) | ht) | ⟨p, hp, rfl⟩
  · simp only [PTerm.labels, List.mem_singleton] at hlt; subst hlt; exact List.mem_map.2 ⟨e, he, rfl⟩
  · simp [PTerm.labels] at hlt
  · cases vt with
    | binary =>
      simp only [List.mem_map] at ht
      obtain ⟨e, he, rfl⟩ := ht
      simp only [PTerm.labels, List.mem_singleton] at hlt; subst hlt; exact List.mem_map.2 ⟨e, he, rfl⟩
    | spin =>
      simp only [List.mem_flatMap, List.mem_cons, List.mem_nil_iff, or_false] at ht
      obtain ⟨e, he, rfl | rfl⟩ := ht
      · simp only [PTerm.labels, List.mem_singleton] at hlt; subst hlt; exact List.mem_map.2 ⟨e, he, rfl⟩
      · simp [PTerm.labels] at hlt
  · have hm := mem_pairsLt' terms p hp
    simp only [PTerm.labels, List.mem_cons, List.mem_nil_iff, or_false] at hlt
    rcases hlt with rfl | rfl
    · exact List.mem_map.2 ⟨p.1, hm.1, rfl⟩
    · exact List.mem_map.2 ⟨p.2, hm.2, rfl⟩

/-! ## integer data of a constraint, its slack labels -/

def intTerms (vars : List (Label × VKind)) (c : Cons) : List (Label × Int) :=
  (consLinear vars c.lhs).1.map (fun t => (t.1, t.2.floor))
def intOff (vars : List (Label × VKind)) (c : Cons) : Int := (consLinear vars c.lhs).2.floor
def intRhs (c : Cons) : Int := c.rhs.floor
def consLb (c : Cons) : Int := if c.sense = Sense.ge then intRhs c else INT64_MIN
def consUb (c : Cons) : Int := if c.sense = Sense.ge then INT64_MAX else intRhs c

/-- the constraint's BINARY model has integer coefficients/offset, its right-hand side is an integer, and
    the term bounds lie inside the int64 sentinels -/
def IntCons' (vars : List (Label × VKind)) (c : Cons) : Prop :=
  c.lhs.quad = []
  ∧ (consLinear vars c.lhs).1 = castTerms (intTerms vars c)
  ∧ (consLinear vars c.lhs).2 = ((intOff vars c : Int) : Rat)
  ∧ c.rhs = ((intRhs c : Int) : Rat)
  ∧ INT64_MIN ≤ sumNeg ((intTerms vars c).map (·.2)) + intOff vars c
  ∧ sumPos ((intTerms vars c).map (·.2)) + intOff vars c ≤ INT64_MAX

theorem IntCons'.toIntCons {vars : List (Label × VKind)} {c : Cons} (h : IntCons' vars c) : IntCons vars c :=
  ⟨h.1, intTerms vars c, intOff vars c, intRhs c, h.2.1, h.2.2.1, h.2.2.2.1, h.2.2.2.2.1, h.2.2.2.2.2⟩

/-- the slack labels `cqm_to_bqm` creates for constraint number `i` (none unless the planning step asks for slack) -/
def consSlack (vars : List (Label × VKind)) (i : Nat) (c : Cons) : List Label :=
  if c.sense = Sense.eq then [] else
  match ineqPlan ((intTerms vars c).map (·.2)) (intOff vars c) (consLb c) (consUb c) with
  | .slack _ _ S => slackLabels s!"c{i}" S
  | _ => []

/-- the constraint at the decoded sample, in integers -/
theorem holdsAt_int (vars : List (Label × VKind)) (c : Cons) (hint : IntCons' vars c) (z : Label → Int) (hz : Bin01 z) :
    c.holdsAt (decode vars (toRat z)) ↔
      (match c.sense with
       | .le => isum z (intTerms vars c) + intOff vars c ≤ intRhs c
       | .ge => intRhs c ≤ isum z (intTerms vars c) + intOff vars c
       | .eq => isum z (intTerms vars c) + intOff vars c = intRhs c) := by
  obtain ⟨hq, hT, hk, hr, _, _⟩ := hint
  have hval := cqm_constraint_value vars c hq _ _ hT hk z hz
  unfold Cons.holdsAt
  rw [← hval, hr]
  cases c.sense with
  | le => simp only; rw [Rat.intCast_le_intCast]
  | ge => simp only; rw [Rat.intCast_le_intCast]
  | eq => simp only; rw [Rat.intCast_inj]

theorem holdsAt_congr (vars : List (Label × VKind)) (c : Cons) (hint : IntCons' vars c) (z z' : Label → Int)
    (hz : Bin01 z) (hz' : Bin01 z') (h : ∀ t ∈ intTerms vars c, z' t.1 = z t.1) :
    c.holdsAt (decode vars (toRat z')) ↔ c.holdsAt (decode vars (toRat z)) := by
  rw [holdsAt_int vars c hint z' hz', holdsAt_int vars c hint z hz, isum_congr z z' _ h]

/-- **one constraint, satisfied**: slack bits (and nothing else) can be set so that its bag is 0; the bag
    mentions only the constraint's bits and its own slack labels -/
theorem consBag_zero (vars : List (Label × VKind)) (lam : Rat) (hlam : 0 ≤ lam) (i : Nat) (c : Cons) (hint : IntCons' vars c)
    (bag : List (PTerm Label)) (h : consBag vars lam i c = .ok bag)
    (hnd : (consSlack vars i c).Nodup) (hfresh : ∀ t ∈ intTerms vars c, t.1 ∉ consSlack vars i c)
    (z : Label → Int) (hz : Bin01 z) (hsat : c.holdsAt (decode vars (toRat z))) :
    (∃ z', Bin01 z' ∧ (∀ v, v ∉ consSlack vars i c → z' v = z v) ∧ evalBag (toRat z') bag = 0)
    ∧ (∀ l ∈ bagLabels bag, l ∈ (intTerms vars c).map (·.1) ∨ l ∈ consSlack vars i c) := by
  have hint0 := hint
  obtain ⟨hq, hT, hk, hr, hb1, hb2⟩ := hint
  have hcast : ∀ T : List (Label × Int), (castTerms T).map (·.1) = T.map (·.1) := by
    intro T; simp [castTerms, Function.comp]
  by_cases hs : c.sense = .eq
  · have he := consBag_eq_eval vars lam i c hs bag h (toRat z) (dom_toRat z hz)
    have hz0 : evalBag (toRat z) bag = 0 := by
      rw [he]
      unfold Cons.holdsAt at hsat
      rw [hs] at hsat
      simp only at hsat
      rw [hsat]; grind
    refine ⟨⟨z, hz, fun _ _ => rfl, hz0⟩, ?_⟩
    intro l hl
    left
    unfold consBag at h
    have hq' : (!c.lhs.quad.isEmpty) = false := by rw [hq]; rfl
    rw [hq'] at h
    simp only [Bool.false_eq_true, if_false, hs, Except.ok.injEq] at h
    subst h
    have := labels_eqTermsCy .binary _ lam _ l hl
    rw [hT, hcast] at this; exact this
  · have hshape := consBag_ineq vars lam i c hs hq _ _ _ hT hk hr
    simp only at hshape
    have hsl : consSlack vars i c = (match ineqPlan ((intTerms vars c).map (·.2)) (intOff vars c) (consLb c) (consUb c) with
        | .slack _ _ S => slackLabels s!"c{i}" S | _ => []) := by unfold consSlack; rw [if_neg hs]
    have hfeas : Feasible z (intTerms vars c) (intOff vars c) (consLb c) (consUb c) := by
      have hb := isum_bounds z hz (intTerms vars c)
      have := (holdsAt_int vars c hint0 z hz).1 hsat
      unfold Feasible consLb consUb
      cases hsense : c.sense with
      | eq => exact absurd hsense hs
      | ge => rw [hsense] at this; simp only at this; simp only [if_true]; exact ⟨this, by omega⟩
      | le => rw [hsense] at this; simp only at this; simp only [reduceCtorEq, if_false]; exact ⟨by omega, this⟩
    have hplanEq : ineqPlan ((intTerms vars c).map (·.2)) (intOff vars c) (if c.sense = Sense.ge then intRhs c else INT64_MIN) (if c.sense = Sense.ge then INT64_MAX else intRhs c)
        = ineqPlan ((intTerms vars c).map (·.2)) (intOff vars c) (consLb c) (consUb c) := rfl
    cases hp : ineqPlan ((intTerms vars c).map (·.2)) (intOff vars c) (consLb c) (consUb c) with
    | skip =>
      rw [hplanEq, hp] at hshape
      simp only at hshape
      rw [hshape] at h
      simp only [Except.ok.injEq] at h
      subst h
      exact ⟨⟨z, hz, fun _ _ => rfl, rfl⟩, by intro l hl; simp [bagLabels] at hl⟩
    | infeasible =>
      rw [hplanEq, hp] at hshape
      simp only at hshape
      rw [hshape] at h; cases h
    | equality ubc =>
      rw [hplanEq, hp] at hshape
      simp only at hshape
      rw [hshape] at h
      simp only [Except.ok.injEq] at h
      subst h
      have := ineq_bqm_equality (intTerms vars c) (intOff vars c) _ _ lam hlam ubc hp z hz
      simp only at this
      refine ⟨⟨z, hz, fun _ _ => rfl, this.1 hfeas⟩, ?_⟩
      intro l hl
      left
      have := labels_eqTermsCy .binary _ lam _ l hl
      rw [hcast] at this; exact this
    | slack ubc lbc S =>
      rw [hp] at hsl
      simp only at hsl
      rw [hplanEq, hp] at hshape
      simp only at hshape
      obtain ⟨touch, hbag, htouch, htl⟩ := hshape
      rw [hsl] at hnd hfresh
      have hmain := ineq_bqm_slack (intTerms vars c) (intOff vars c) _ _ lam hlam ubc lbc S hp (slackLabels s!"c{i}" S)
        (slackLabels_length _ S) hnd hfresh z hz
      obtain ⟨z', h1, h2, h3⟩ := hmain.2.2 hfeas
      -- the bag, with the touch part made explicit
      have hshape2 := consBag_ineq vars lam i c hs hq _ _ _ hT hk hr
      simp only at hshape2
      rw [hplanEq, hp] at hshape2
      simp only at hshape2
      rw [hbag] at h
      simp only [Except.ok.injEq] at h
      subst h
      refine ⟨⟨z', h1, by rw [hsl]; exact h2, ?_⟩, ?_⟩
      · rw [evalBag_append, htouch]
        unfold slackPenalty at h3
        rw [h3]; grind
      · intro l hl
        rw [hsl]
        simp only [bagLabels, List.flatMap_append, List.mem_append] at hl
        rcases hl with hl | hl
        · right
          have hl' : l ∈ bagLabels touch := by simpa [bagLabels] using hl
          rw [mem_bagLabels] at hl'
          obtain ⟨t, ht, hlt⟩ := hl'
          obtain ⟨l', hl'mem, rfl⟩ := htl t ht
          simp only [PTerm.labels, List.mem_singleton] at hlt
          subst hlt; exact hl'mem
        · have := labels_eqTermsCy .binary _ lam _ l (by simpa [bagLabels] using hl)
          rw [hcast] at this
          simp only [List.map_append, List.mem_append] at this
          rcases this with h' | h'
          · exact Or.inl h'
          · right
            unfold slackTerms at h'
            simp only [List.mem_map] at h'
            obtain ⟨e, he, rfl⟩ := h'
            exact (List.of_mem_zip he).1

/-! ## all constraints of a feasible sample -/

/-- the slack labels of constraints `i, i+1, …` -/
def slackAll (vars : List (Label × VKind)) : Nat → List Cons → List Label
  | _, [] => []
  | i, c :: r => consSlack vars i c ++ slackAll vars (i + 1) r

/-- separation of the slack labels: each constraint's own slack labels are pairwise distinct, none of them is a
    protected label (`P`: the bits of the CQM's variables), none is a slack label of a later constraint -/
def Sep (vars : List (Label × VKind)) (P : List Label) : Nat → List Cons → Prop
  | _, [] => True
  | i, c :: r =>
    (consSlack vars i c).Nodup
    ∧ (∀ l ∈ consSlack vars i c, l ∉ P ∧ l ∉ slackAll vars (i + 1) r)
    ∧ Sep vars P (i + 1) r

theorem slackAll_notin (vars : List (Label × VKind)) (P : List Label) (i : Nat) (cons : List Cons) (h : Sep vars P i cons) :
    ∀ l ∈ slackAll vars i cons, l ∉ P := by
  induction cons generalizing i with
  | nil => intro l hl; simp [slackAll] at hl
  | cons c r ih =>
    intro l hl
    simp only [slackAll, List.mem_append] at hl
    rcases hl with hl | hl
    · exact (h.2.1 l hl).1
    · exact ih (i + 1) h.2.2 l hl

theorem consBags_zero (vars : List (Label × VKind)) (lam : Rat) (hlam : 0 ≤ lam) (P : List Label) (cons : List Cons) (i : Nat)
    (hint : ∀ c ∈ cons, IntCons' vars c) (hP : ∀ c ∈ cons, ∀ t ∈ intTerms vars c, t.1 ∈ P) (hsep : Sep vars P i cons)
    (bags : List (PTerm Label)) (h : consBags vars lam i cons = .ok bags)
    (z : Label → Int) (hz : Bin01 z) (hsat : ∀ c ∈ cons, c.holdsAt (decode vars (toRat z))) :
    (∃ z', Bin01 z' ∧ (∀ v, v ∉ slackAll vars i cons → z' v = z v) ∧ evalBag (toRat z') bags = 0)
    ∧ (∀ l ∈ bagLabels bags, l ∈ P ∨ l ∈ slackAll vars i cons) := by
  induction cons generalizing i bags with
  | nil =>
    simp only [consBags, Except.ok.injEq] at h
    subst h
    exact ⟨⟨z, hz, fun _ _ => rfl, rfl⟩, by intro l hl; simp [bagLabels] at hl⟩
  | cons c r ih =>
    simp only [consBags] at h
    split at h
    · simp at h
    · rename_i bag hbag
      split at h
      · simp at h
      · rename_i rest hrest
        simp only [Except.ok.injEq] at h
        subst h
        obtain ⟨hnd, hdis, hsepr⟩ := hsep
        have hintc := hint c (by simp)
        have hPc := hP c (by simp)
        obtain ⟨⟨z1, hz1, hoff1, hzero1⟩, hlab1⟩ := ih (i + 1) (fun c' hc' => hint c' (by simp [hc']))
          (fun c' hc' => hP c' (by simp [hc'])) hsepr rest hrest (fun c' hc' => hsat c' (by simp [hc']))
        have hnotP := slackAll_notin vars P (i + 1) r hsepr
        -- the head constraint still holds at z1: its bits are protected
        have hagree1 : ∀ t ∈ intTerms vars c, z1 t.1 = z t.1 := fun t ht => hoff1 t.1 (fun hm => hnotP _ hm (hPc t ht))
        have hsat1 : c.holdsAt (decode vars (toRat z1)) := (holdsAt_congr vars c hintc z z1 hz hz1 hagree1).2 (hsat c (by simp))
        have hfresh : ∀ t ∈ intTerms vars c, t.1 ∉ consSlack vars i c := fun t ht hm => (hdis _ hm).1 (hPc t ht)
        obtain ⟨⟨z2, hz2, hoff2, hzero2⟩, hlab2⟩ := consBag_zero vars lam hlam i c hintc bag hbag hnd hfresh z1 hz1 hsat1
        refine ⟨⟨z2, hz2, ?_, ?_⟩, ?_⟩
        · intro v hv
          simp only [slackAll, List.mem_append, not_or] at hv
          rw [hoff2 v hv.1, hoff1 v hv.2]
        · rw [evalBag_append, hzero2]
          have : evalBag (toRat z2) rest = evalBag (toRat z1) rest := by
            apply evalBag_congr
            intro l hl
            have hne : l ∉ consSlack vars i c := by
              intro hm
              rcases hlab1 l hl with h' | h'
              · exact (hdis l hm).1 h'
              · exact (hdis l hm).2 h'
            simp only [toRat]; rw [hoff2 l hne]
          rw [this, hzero1]; grind
        · intro l hl
          simp only [bagLabels, List.flatMap_append, List.mem_append] at hl
          simp only [slackAll, List.mem_append]
          rcases hl with hl | hl
          · rcases hlab2 l (by simpa [bagLabels] using hl) with h' | h'
            · left
              simp only [List.mem_map] at h'
              obtain ⟨t, ht, rfl⟩ := h'
              exact hPc t ht
            · exact Or.inr (Or.inl h')
          · rcases hlab1 l (by simpa [bagLabels] using hl) with h' | h'
            · exact Or.inl h'
            · exact Or.inr (Or.inr h')

/-- **`cqm_to_bqm_sound`, feasible samples**: for an accepted CQM with integer-coefficient linear constraints,
    `λ ≥ 0`, and slack labels separated from the variables' bits and from each other (`Sep`; the real slack
    labels carry a fresh uuid per constraint): at every 0/1 sample whose decoded CQM sample satisfies all
    constraints, the slack bits — and only they — can be set so that the BQM's energy is exactly the objective
    at the decoded sample.  With `cqmToBqm_lower` this is "energy minimised over the slack bits = objective" -/
theorem cqmToBqm_feasible (q : CQM) (lam : Rat) (hlam : 0 ≤ lam) (b : Bq Label) (h : cqmToBqm q (some lam) = .ok (b, lam))
    (hint : ∀ c ∈ q.cons, IntCons' q.vars c) (P : List Label)
    (hP : ∀ c ∈ q.cons, ∀ t ∈ intTerms q.vars c, t.1 ∈ P) (hPobj : ∀ l ∈ bagLabels (qmToBag q.vars q.obj), l ∈ P)
    (hsep : Sep q.vars P 0 q.cons)
    (z : Label → Int) (hz : Bin01 z) (hsat : ∀ c ∈ q.cons, c.holdsAt (decode q.vars (toRat z))) :
    ∃ z', Bin01 z' ∧ (∀ v, v ∉ slackAll q.vars 0 q.cons → z' v = z v)
      ∧ b.energy (toRat z') = qmEnergy (decode q.vars (toRat z)) q.obj := by
  obtain ⟨bags0, hbags0, _⟩ := cqmToBqm_energy q (some lam) b lam h (toRat z) (dom_toRat z hz)
  obtain ⟨⟨z', hz', hoff, hzero⟩, _⟩ := consBags_zero q.vars lam hlam P q.cons 0 hint hP hsep bags0 hbags0 z hz hsat
  refine ⟨z', hz', hoff, ?_⟩
  obtain ⟨bags, hbags, he⟩ := cqmToBqm_energy q (some lam) b lam h (toRat z') (dom_toRat z' hz')
  have hb : bags = bags0 := by rw [hbags0] at hbags; injection hbags with hb; exact hb.symm
  rw [he, hb, hzero, ← qmToBag_eval, ← qmToBag_eval]
  have hnotP := slackAll_notin q.vars P 0 q.cons hsep
  have : evalBag (toRat z') (qmToBag q.vars q.obj) = evalBag (toRat z) (qmToBag q.vars q.obj) := by
    apply evalBag_congr
    intro l hl
    simp only [toRat]; rw [hoff l (fun hm => hnotP l hm (hPobj l hl))]
  rw [this]; grind

end Pen
