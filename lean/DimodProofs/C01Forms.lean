import DimodProofs.C01Samples
import DimodModel.AsSamplesForms

/-! # C01 — `as_samples`: the general iterator path, the one-shot iterator state, `(Mapping, labels)`, the dtype choice -/

namespace En

open Generated.EnergyLoops

section Forms
variable {R : Type} [Zero R]

/-- `(rows, labels)` carries the values `s` assigns: one output row per input row and, under every delivered label, the
    value the input assigns to that label in that row -/
def Delivers (s : SL R) (rows : List (List R)) (labels : List Label) : Prop :=
  rows.length = s.numRows ∧
  ∀ r, r < s.numRows → ∀ j v, labels[j]? = some v → s.value r v = some ((rows.getD r []).getD j 0)

theorem reindexRow_getD (F L : List Label) (row : List R) (j : Nat) (v : Label) (hv : F[j]? = some v) :
    (reindexRow F L row).getD j 0 = row.getD ((indexOf? L v).getD 0) 0 := by
  unfold reindexRow
  have hj : j < F.length := by
    rcases Nat.lt_or_ge j F.length with h | h
    · exact h
    · simp [List.getElem?_eq_none h] at hv
  simp only [List.getD_eq_getElem?_getD, List.getElem?_map, hv, Option.map_some, Option.getD_some]

theorem getD_append_left (a b : List (List R)) (r : Nat) (h : r < a.length) : (a ++ b).getD r [] = a.getD r [] := by
  simp [List.getD_eq_getElem?_getD, List.getElem?_append_left h]

theorem getD_append_right (a b : List (List R)) (k : Nat) : (a ++ b).getD (a.length + k) [] = b.getD k [] := by
  simp [List.getD_eq_getElem?_getD, List.getElem?_append_right]

theorem rowOffset_cons_succ (s : SL R) (t : List (SL R)) (i : Nat) : rowOffset (s :: t) (i + 1) = s.numRows + rowOffset t i := by
  simp [rowOffset]

theorem rowOffset_zero (l : List (SL R)) : rowOffset l 0 = 0 := by simp [rowOffset]

/-- the loop of `_as_samples_iterator` over elements of ANY form: every element's rows arrive, in order, under the first
    element's labels, carrying the values that element assigns -/
theorem stackRest_values (F : List Label) (l : List (SL R)) (out : List (List R))
    (hel : ∀ s ∈ l, ∀ rs ls, asSamples s = .ok (rs, ls) → Delivers s rs ls)
    (h : stackRest F l = .ok out) :
    out.length = (l.map SL.numRows).sum ∧
    ∀ i (hi : i < l.length) r, r < l[i].numRows → ∀ j v, F[j]? = some v →
      l[i].value r v = some ((out.getD (rowOffset l i + r) []).getD j 0) := by
  induction l generalizing out with
  | nil =>
    simp only [stackRest] at h
    cases h
    simp
  | cons s t ih =>
    have helt : ∀ s' ∈ t, ∀ rs ls, asSamples s' = .ok (rs, ls) → Delivers s' rs ls :=
      fun s' hs' => hel s' (List.mem_cons_of_mem _ hs')
    simp only [stackRest] at h
    cases hs : asSamples s with
    | error e => rw [hs] at h; cases h
    | ok p =>
      obtain ⟨rows, labels⟩ := p
      rw [hs] at h
      simp only [] at h
      obtain ⟨hlen, hval⟩ := hel s (by simp) rows labels hs
      by_cases heq : labels = F
      · simp only [heq, if_true] at h
        cases ht : stackRest F t with
        | error e => rw [ht] at h; cases h
        | ok out' =>
          rw [ht] at h; simp only [] at h
          cases h
          obtain ⟨ihl, ihv⟩ := ih out' helt ht
          refine ⟨by simp [ihl, hlen], ?_⟩
          intro i hi r hr j v hv
          cases i with
          | zero =>
            simp only [List.getElem_cons_zero] at hr ⊢
            rw [rowOffset_zero, Nat.zero_add, getD_append_left _ _ _ (by omega)]
            exact hval r hr j v (by rw [heq]; exact hv)
          | succ i =>
            simp only [List.getElem_cons_succ] at hr ⊢
            rw [rowOffset_cons_succ, ← hlen, Nat.add_assoc, getD_append_right]
            exact ihv i (by simpa using hi) r hr j v hv
      · simp only [heq, if_false] at h
        cases hss : sameSet labels F with
        | false => simp [hss] at h
        | true =>
          simp only [hss, Bool.not_true, Bool.false_eq_true, if_false] at h
          cases ht : stackRest F t with
          | error e => rw [ht] at h; cases h
          | ok out' =>
            rw [ht] at h; simp only [] at h
            cases h
            obtain ⟨ihl, ihv⟩ := ih out' helt ht
            refine ⟨by simp [ihl, hlen], ?_⟩
            intro i hi r hr j v hv
            cases i with
            | zero =>
              simp only [List.getElem_cons_zero] at hr ⊢
              rw [rowOffset_zero, Nat.zero_add, getD_append_left _ _ _ (by simp; omega)]
              have hvF : v ∈ F := List.mem_of_getElem? hv
              have hvL : v ∈ labels := mem_of_sameSet_left labels F hss v hvF
              obtain ⟨k, hk⟩ := indexOf?_of_mem labels v hvL
              have hLk := (indexOf?_spec labels v k hk).1
              have hrow : (rows.map (reindexRow F labels)).getD r [] = reindexRow F labels (rows.getD r []) := by
                have : r < rows.length := by omega
                simp [List.getD_eq_getElem?_getD, List.getElem?_eq_getElem this]
              rw [hrow, reindexRow_getD F labels _ j v hv, hk]
              exact hval r hr k v hLk
            | succ i =>
              simp only [List.getElem_cons_succ] at hr ⊢
              have hl' : (rows.map (reindexRow F labels)).length = s.numRows := by simp [hlen]
              rw [rowOffset_cons_succ, ← hl', Nat.add_assoc, getD_append_right]
              exact ihv i (by simpa using hi) r hr j v hv

/-- **`as_samples` of any iterator / generator / `map` object / sequence containing a mapping**, elements of any form: the result has
    the first element's labels, the rows of all elements in order, and row `r` of element `i` carries under every label the value
    that element assigns -/
theorem asSamplesIter_values (l : List (SL R)) (rows : List (List R)) (labels : List Label)
    (hel : ∀ s ∈ l, ∀ rs ls, asSamples s = .ok (rs, ls) → Delivers s rs ls)
    (h : asSamplesIter l = .ok (rows, labels)) :
    rows.length = (l.map SL.numRows).sum ∧
    (∀ s t, l = s :: t → ∃ rs, asSamples s = .ok (rs, labels)) ∧
    ∀ i (hi : i < l.length) r, r < l[i].numRows → ∀ j v, labels[j]? = some v →
      l[i].value r v = some ((rows.getD (rowOffset l i + r) []).getD j 0) := by
  cases l with
  | nil =>
    simp only [asSamplesIter] at h
    cases h
    simp
  | cons s t =>
    simp only [asSamplesIter] at h
    cases hs : asSamples s with
    | error e => rw [hs] at h; cases h
    | ok p =>
      obtain ⟨rows0, labels0⟩ := p
      rw [hs] at h
      simp only [] at h
      cases ht : stackRest labels0 t with
      | error e => rw [ht] at h; cases h
      | ok out =>
        rw [ht] at h; simp only [] at h
        cases h
        obtain ⟨hlen, hval⟩ := hel s (by simp) rows0 labels hs
        obtain ⟨ihl, ihv⟩ := stackRest_values labels t out (fun s' hs' => hel s' (List.mem_cons_of_mem _ hs')) ht
        refine ⟨by simp [ihl, hlen], ?_, ?_⟩
        · intro s' t' hst
          cases hst
          exact ⟨rows0, hs⟩
        · intro i hi r hr j v hv
          cases i with
          | zero =>
            simp only [List.getElem_cons_zero] at hr ⊢
            rw [rowOffset_zero, Nat.zero_add, getD_append_left _ _ _ (by omega)]
            exact hval r hr j v hv
          | succ i =>
            simp only [List.getElem_cons_succ] at hr ⊢
            rw [rowOffset_cons_succ, ← hlen, Nat.add_assoc, getD_append_right]
            exact ihv i (by simpa using hi) r hr j v hv

/-- a later element whose label SET differs from the first element's is rejected with `ValueError` -/
theorem stackRest_mismatch (F : List Label) (s : SL R) (t : List (SL R)) (rs : List (List R)) (ls : List Label)
    (hs : asSamples s = .ok (rs, ls)) (hne : ls ≠ F) (hset : sameSet ls F = false) :
    stackRest F (s :: t) = .error .value := by
  simp [stackRest, hs, hne, hset]

theorem stackRestLeft_nil_of_ok (F : List Label) (l : List (SL R)) (out : List (List R)) (h : stackRest F l = .ok out) :
    stackRestLeft F l = [] := by
  induction l generalizing out with
  | nil => rfl
  | cons s t ih =>
    simp only [stackRest] at h
    simp only [stackRestLeft]
    cases hs : asSamples s with
    | error e => rw [hs] at h; cases h
    | ok p =>
      obtain ⟨rows, labels⟩ := p
      rw [hs] at h
      simp only [] at h ⊢
      by_cases heq : labels = F
      · simp only [heq, if_true] at h ⊢
        cases ht : stackRest F t with
        | error e => rw [ht] at h; cases h
        | ok out' => exact ih out' ht
      · simp only [heq, if_false] at h ⊢
        cases hss : sameSet labels F with
        | false => simp [hss] at h
        | true =>
          simp only [hss, Bool.not_true, Bool.false_eq_true, if_false] at h ⊢
          cases ht : stackRest F t with
          | error e => rw [ht] at h; cases h
          | ok out' => exact ih out' ht

/-- **one-shot**: a successful `as_samples(it)` leaves the iterator exhausted, so a second `as_samples(it)` on the same
    iterator object returns zero samples and no labels — the samples are gone -/
theorem asSamplesIter_one_shot (it : List (SL R)) (res : List (List R) × List Label)
    (h : (asSamplesIterState it).1 = .ok res) :
    (asSamplesIterState it).2 = [] ∧ asSamplesIter (asSamplesIterState it).2 = .ok ([], []) := by
  have hleft : (asSamplesIterState it).2 = [] := by
    unfold asSamplesIterState at h ⊢
    simp only [] at h ⊢
    cases it with
    | nil => rfl
    | cons s t =>
      simp only [asSamplesIter] at h
      simp only []
      cases hs : asSamples s with
      | error e => rw [hs] at h; cases h
      | ok p =>
        obtain ⟨rows0, labels0⟩ := p
        rw [hs] at h
        simp only [] at h ⊢
        cases ht : stackRest labels0 t with
        | error e => rw [ht] at h; cases h
        | ok out => exact stackRestLeft_nil_of_ok labels0 t out ht
  rw [hleft]
  exact ⟨rfl, rfl⟩


/-! ### the per-element hypothesis of `asSamplesIter_values` is met by the modelled forms -/

theorem delivers_dict (items : List (Label × R)) (hnd : (items.map (·.1)).Nodup) (rs : List (List R)) (ls : List Label)
    (h : asSamples (.dict items) = .ok (rs, ls)) : Delivers (.dict items) rs ls := by
  obtain ⟨rows, labels, h', hl, hlab, hv⟩ := asSamples_dict_values items hnd
  rw [h] at h'
  simp only [Except.ok.injEq, Prod.mk.injEq] at h'
  obtain ⟨rfl, rfl⟩ := h'
  refine ⟨by simp [SL.numRows, hl], ?_⟩
  intro r hr j v hjv
  have hr0 : r = 0 := by simp [SL.numRows] at hr; omega
  subst hr0
  have hj : j < ls.length := by
    rcases Nat.lt_or_ge j ls.length with h | h
    · exact h
    · simp [List.getElem?_eq_none h] at hjv
  have hv' := hv j hj
  have : ls[j] = v := by simpa [List.getElem?_eq_getElem hj] using hjv
  rw [this] at hv'
  simpa [SL.value] using hv'

theorem delivers_sampleset (rows : List (List R)) (labels : List Label) (hnd : labels.Nodup)
    (hrect : ∀ row ∈ rows, row.length = labels.length) (rs : List (List R)) (ls : List Label)
    (h : asSamples (.sampleset rows labels) = .ok (rs, ls)) : Delivers (.sampleset rows labels) rs ls := by
  obtain ⟨h', hv⟩ := asSamples_sampleset_values rows labels hnd
  rw [h] at h'
  simp only [Except.ok.injEq, Prod.mk.injEq] at h'
  obtain ⟨rfl, rfl⟩ := h'
  refine ⟨by simp [SL.numRows], ?_⟩
  intro r hr j v hjv
  have hr' : r < rs.length := by simpa [SL.numRows] using hr
  have hj : j < ls.length := by
    rcases Nat.lt_or_ge j ls.length with h | h
    · exact h
    · simp [List.getElem?_eq_none h] at hjv
  have hv' := hv r hr' j hj (by rw [hrect _ (List.getElem_mem hr')]; exact hj)
  have : ls[j] = v := by simpa [List.getElem?_eq_getElem hj] using hjv
  rw [this] at hv'
  exact hv'

theorem delivers_labelled (rows : List (List R)) (labels : List Label) (hnd : labels.Nodup)
    (hne : rows.length * widthOf rows ≠ 0) (hrect : ∀ row ∈ rows, row.length = labels.length) (rs : List (List R)) (ls : List Label)
    (h : asSamples (.labelled rows labels) = .ok (rs, ls)) : Delivers (.labelled rows labels) rs ls := by
  obtain ⟨rfl, rfl, _, hv⟩ := asSamples_labelled_values rows labels hnd rs ls hne h
  refine ⟨by simp [SL.numRows], ?_⟩
  intro r hr j v hjv
  have hr' : r < rs.length := by simpa [SL.numRows] using hr
  have hj : j < ls.length := by
    rcases Nat.lt_or_ge j ls.length with h | h
    · exact h
    · simp [List.getElem?_eq_none h] at hjv
  have hv' := hv r hr' j hj (by rw [hrect _ (List.getElem_mem hr')]; exact hj)
  have : ls[j] = v := by simpa [List.getElem?_eq_getElem hj] using hjv
  rw [this] at hv'
  exact hv'

theorem delivers_dicts (l : List (List (Label × R))) (hnd : ∀ d ∈ l, (d.map (·.1)).Nodup) (rs : List (List R)) (ls : List Label)
    (h : asSamples (.dicts l) = .ok (rs, ls)) : Delivers (.dicts l) rs ls := by
  obtain ⟨hlen, _, hv⟩ := asSamples_dicts_values l rs ls hnd h
  refine ⟨by simp [SL.numRows, hlen], ?_⟩
  intro r hr j v hjv
  have hr' : r < l.length := by simpa [SL.numRows] using hr
  have hj : j < ls.length := by
    rcases Nat.lt_or_ge j ls.length with h | h
    · exact h
    · simp [List.getElem?_eq_none h] at hjv
  have hv' := hv r hr' j hj
  have : ls[j] = v := by simpa [List.getElem?_eq_getElem hj] using hjv
  rw [this] at hv'
  exact hv'

theorem dictKeys_of_nodup (labels : List Label) (hnd : labels.Nodup) : dictKeys labels = labels := by
  induction labels with
  | nil => rfl
  | cons v t ih =>
    simp only [List.nodup_cons] at hnd
    simp only [dictKeys, ih hnd.2]
    congr 1
    apply List.filter_eq_self.mpr
    intro a ha
    simp only [decide_eq_true_eq]
    intro heq
    exact hnd.1 (heq ▸ ha)

/-- the deprecated **`(Mapping, labels)`** form: with distinct labels that the mapping all has, one row in the order of `labels`,
    carrying the mapping's values; a label the mapping lacks is a `ValueError` -/
theorem asSamplesMappingLabels_values (items : List (Label × R)) (labels : List Label) (hnd : labels.Nodup) :
    (∀ rows labels', asSamplesMappingLabels items labels = .ok (rows, labels') →
      labels' = labels ∧ rows.length = 1 ∧
      ∀ j v, labels[j]? = some v → lookupLabel items v = some ((rows.getD 0 []).getD j 0)) ∧
    ((∃ v ∈ labels, lookupLabel items v = none) → asSamplesMappingLabels items labels = .error .value) := by
  refine ⟨?_, ?_⟩
  · intro rows labels' h
    unfold asSamplesMappingLabels at h
    by_cases hall : (labels.all fun v => (lookupLabel items v).isSome) = true
    · simp only [hall, if_true, dictKeys_of_nodup labels hnd] at h
      have hsome : ∀ v ∈ labels, (lookupLabel items v).isSome = true := by simpa [List.all_eq_true] using hall
      unfold tupleCheck at h
      by_cases h0 : labels.length = 0
      · have : labels = [] := List.length_eq_zero_iff.mp h0
        subst this
        simp at h
        obtain ⟨rfl, rfl⟩ := h
        simp
      · simp [h0] at h
        obtain ⟨rfl, rfl⟩ := h
        refine ⟨rfl, by simp, ?_⟩
        intro j v hjv
        have hj : j < labels.length := by
          rcases Nat.lt_or_ge j labels.length with h | h
          · exact h
          · simp [List.getElem?_eq_none h] at hjv
        have hvj : labels[j] = v := by simpa [List.getElem?_eq_getElem hj] using hjv
        have hs := hsome v (hvj ▸ List.getElem_mem hj)
        obtain ⟨a, ha⟩ := Option.isSome_iff_exists.mp hs
        simp [List.getD_eq_getElem?_getD, List.getElem?_map, hjv, ha]
    · simp only [hall] at h
      simp at h
  · intro ⟨v, hv, hnone⟩
    unfold asSamplesMappingLabels
    have : (labels.all fun v => (lookupLabel items v).isSome) = false := by
      apply Bool.eq_false_iff.mpr
      intro hall
      have := (List.all_eq_true.mp hall) v hv
      simp [hnone] at this
    simp [this]

end Forms

/-! ## dtype choice -/

theorem foldl_min_le (l : List Int) (i : Int) : l.foldl min i ≤ i ∧ ∀ z ∈ l, l.foldl min i ≤ z := by
  induction l generalizing i with
  | nil => simp
  | cons a t ih =>
    obtain ⟨h1, h2⟩ := ih (min i a)
    simp only [List.foldl_cons]
    refine ⟨by omega, ?_⟩
    intro z hz
    rcases List.mem_cons.mp hz with rfl | hz
    · omega
    · exact h2 z hz

theorem le_foldl_max (l : List Int) (i : Int) : i ≤ l.foldl max i ∧ ∀ z ∈ l, z ≤ l.foldl max i := by
  induction l generalizing i with
  | nil => simp
  | cons a t ih =>
    obtain ⟨h1, h2⟩ := ih (max i a)
    simp only [List.foldl_cons]
    refine ⟨by omega, ?_⟩
    intro z hz
    rcases List.mem_cons.mp hz with rfl | hz
    · omega
    · exact h2 z hz

/-- every entry lies within `±max_` -/
theorem sampleMax_bound (rows : List (List Int)) (row : List Int) (hrow : row ∈ rows) (z : Int) (hz : z ∈ row) :
    -sampleMax rows ≤ z ∧ z ≤ sampleMax rows ∧ 0 ≤ sampleMax rows := by
  have hmem : z ∈ rows.flatten := List.mem_flatten.mpr ⟨row, hrow, hz⟩
  have h1 := (foldl_min_le rows.flatten 0).2 z hmem
  have h2 := (le_foldl_max rows.flatten 0).2 z hmem
  have h3 := (le_foldl_max rows.flatten 0).1
  unfold sampleMax
  simp only []
  omega

/-- the cast to the chosen type changes no entry: for each candidate type of the regenerated list, a value within `±max_` with
    `max_` passing the regenerated fit test survives the cast -/
theorem wrapTo_of_fits (mx : Int) (w : Nat) (hw : w ∈ sampleWidths) (hfit : sampleFits mx w = true)
    (z : Int) (h1 : -mx ≤ z) (h2 : z ≤ mx) : wrapTo w z = z := by
  simp only [sampleWidths, List.mem_cons, List.not_mem_nil, or_false] at hw
  rcases hw with rfl | rfl | rfl | rfl <;>
  · simp only [sampleFits, decide_eq_true_eq] at hfit
    unfold wrapTo
    norm_num at hfit ⊢
    omega

/-- **`_sample_array` without a dtype delivers the values it was given**: whenever a type is chosen, every entry is unchanged -/
theorem sampleArrayInt_values (rows : List (List Int)) (w : Nat) (out : List (List Int))
    (h : sampleArrayInt rows = .ok (w, out)) :
    out = rows ∧ w ∈ sampleWidths := by
  unfold sampleArrayInt at h
  cases hp : pickWidth (sampleMax rows) with
  | none =>
    rw [hp] at h
    simp only [] at h
    split at h
    · simp only [Except.ok.injEq, Prod.mk.injEq] at h
      obtain ⟨rfl, rfl⟩ := h
      exact ⟨rfl, by decide⟩
    · cases h
  | some w' =>
    rw [hp] at h
    simp only [Except.ok.injEq, Prod.mk.injEq] at h
    obtain ⟨rfl, rfl⟩ := h
    have hmem : w' ∈ sampleWidths := List.mem_of_find?_eq_some hp
    have hfit : sampleFits (sampleMax rows) w' = true := List.find?_some hp
    refine ⟨?_, hmem⟩
    have : ∀ row ∈ rows, row.map (wrapTo w') = row := by
      intro row hrow
      have : ∀ z ∈ row, wrapTo w' z = z := by
        intro z hz
        obtain ⟨b1, b2, _⟩ := sampleMax_bound rows row hrow z hz
        exact wrapTo_of_fits _ w' hmem hfit z b1 b2
      exact (List.map_congr_left this).trans (List.map_id _)
    exact (List.map_congr_left this).trans (List.map_id _)

/-- a type is found exactly when `max_` fits the widest candidate or (where the source keeps int64 arrays as they are) every entry
    is an int64 — i.e. the extreme is `-2^63`; `ValueError` otherwise -/
theorem sampleArrayInt_ok_iff (rows : List (List Int)) :
    (∃ r, sampleArrayInt rows = .ok r) ↔
      (sampleMax rows ≤ 2 ^ 63 - 1 ∨ (sampleKeepsInt64 = true ∧ inInt64 rows = true)) := by
  unfold sampleArrayInt pickWidth
  simp only [sampleWidths, sampleFits, List.find?_cons, List.find?_nil]
  norm_num
  by_cases h1 : sampleMax rows ≤ 127
  · simp [h1]; omega
  by_cases h2 : sampleMax rows ≤ 32767
  · simp [h1, h2]; omega
  by_cases h3 : sampleMax rows ≤ 2147483647
  · simp [h1, h2, h3]; omega
  by_cases h4 : sampleMax rows ≤ 9223372036854775807
  · simp [h1, h2, h3, h4]
  · by_cases hk : (sampleKeepsInt64 && inInt64 rows) = true
    · have hk' := hk
      simp only [Bool.and_eq_true] at hk'
      simp [h1, h2, h3, h4, hk, hk'.1, hk'.2]
    · have hk' : ¬ (sampleKeepsInt64 = true ∧ inInt64 rows = true) := by
        simpa only [Bool.and_eq_true] using hk
      simp [h1, h2, h3, h4, hk, hk']

end En
