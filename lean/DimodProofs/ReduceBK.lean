import DimodProofs.Reduce

/-! # C15: the coded bookkeeping — what is proved about it (core Lean only)

* `freshen_fresh`, `newProduct_fresh`, `newAux_fresh`: the `while p in variables: p = '_' + p` loop
  returns a label that is not in `variables`;
* `bkStep_spec`: one iteration of `while idx:` appends to `reduced_terms` exactly the rewritten terms of
  degree ≤ 2 among `idx[pair]`, appends `(pair, product)` to `constraints`, adds the product to `variables`;
* `bkStep_refines_step`: if `idx[pair]` lists (up to order) the current higher-degree terms containing the
  pair, the iteration is the semantic `Red.step` on the reduced terms.

Not proved (gap of `bookkeeping_refines_semantic_partial`): that the in-place updates of `idx`/`que`
(`_decrement_count`, `_remove_old`) maintain "`idx[pair]` = current terms of degree > 2 containing `pair`"
and "`que` = inverse image of `len ∘ idx`".  The driver compares both layers on every run. -/

namespace Red
open Pen

/-! ## fresh names -/

theorem length_le_maxLen (vars : List Label) (s : String) (h : Label.str s ∈ vars) : s.length ≤ maxLen vars := by
  induction vars with
  | nil => simp at h
  | cons a r ih =>
    simp only [List.mem_cons] at h
    cases a with
    | str t =>
      simp only [maxLen]
      rcases h with h | h
      · injection h with h; subst h; omega
      · have := ih h; omega
    | int z =>
      simp only [maxLen]
      rcases h with h | h
      · cases h
      · exact ih h
    | tup l =>
      simp only [maxLen]
      rcases h with h | h
      · cases h
      · exact ih h

theorem freshen_fresh (vars : List Label) (p : String) : Label.str (freshen vars p) ∉ vars := by
  fun_induction freshen vars p with
  | case1 p h ih => exact ih
  | case2 p h =>
    intro hmem
    exact h ⟨hmem, length_le_maxLen vars p hmem⟩

/-- `_new_product` returns a variable that is not yet in `variables` -/
theorem newProduct_fresh (vars : List Label) (u v : Label) : newProduct vars u v ∉ vars := freshen_fresh vars _

/-- `_new_aux` returns a variable that is not yet in `variables` -/
theorem newAux_fresh (vars : List Label) (u v : Label) : newAux vars u v ∉ vars := freshen_fresh vars _

/-! ## what an iteration does to `reduced_terms`, `constraints`, `variables` -/

/-- the part of the state the result is read from -/
def BK.out (s : BK) : List (LTerm × Rat) × List (Pair × Label) × List Label := (s.reduced, s.constraints, s.vars)

theorem foldlM_preserve {σ α β : Type} (f : σ → α → Option σ) (π : σ → β)
    (h : ∀ s a s', f s a = some s' → π s' = π s) :
    ∀ (l : List α) (s s' : σ), l.foldlM f s = some s' → π s' = π s := by
  intro l
  induction l with
  | nil => intro s s' hs; simp only [List.foldlM_nil, pure, Option.some.injEq] at hs; rw [hs]
  | cons a r ih =>
    intro s s' hs
    simp only [List.foldlM_cons, bind, Option.bind] at hs
    cases hf : f s a with
    | none => rw [hf] at hs; simp at hs
    | some s1 =>
      rw [hf] at hs
      rw [ih s1 s' hs, h s a s1 hf]

theorem decrementCount_out (s : BK) (p : Pair) (s' : BK) (h : decrementCount s p = some s') : s'.out = s.out := by
  unfold decrementCount at h
  cases hi : idxGet s.idx p with
  | none => rw [hi] at h; simp at h
  | some m =>
    rw [hi] at h
    simp only at h
    cases hq : queRemove s.que m.length p with
    | none => rw [hq] at h; simp at h
    | some q => rw [hq] at h; simp only [Option.some.injEq] at h; subst h; rfl

theorem removeOld_out (s : BK) (t : LTerm) (p : Pair) (s' : BK) (h : removeOld s t p = some s') : s'.out = s.out := by
  unfold removeOld at h
  cases hi : idxGet s.idx p with
  | none => rw [hi] at h; simp at h
  | some m =>
    rw [hi] at h
    simp only at h
    split at h
    · simp only [Option.some.injEq] at h; subst h; rfl
    · simp at h

theorem decRem_out (t : LTerm) (s : BK) (p : Pair) (s' : BK) (h : decRem t s p = some s') : s'.out = s.out := by
  unfold decRem at h
  cases hd : decrementCount s p with
  | none => rw [hd] at h; simp at h
  | some s1 =>
    rw [hd] at h
    simp only [Option.bind] at h
    rw [removeOld_out s1 t p s' h, decrementCount_out s p s1 hd]

theorem setRem_out (nt : LTerm) (b : Rat) (t : LTerm) (s : BK) (p : Pair) (s' : BK) (h : setRem nt b t s p = some s') : s'.out = s.out := by
  unfold setRem at h
  rw [removeOld_out _ t p s' h]; rfl

theorem addNew_out (nt : LTerm) (b : Rat) (prod : Label) (l : List Label) (acc : BK × List Pair) :
    (l.foldl (addNew nt b prod) acc).1.out = acc.1.out := by
  induction l generalizing acc with
  | nil => rfl
  | cons c r ih => simp only [List.foldl_cons]; rw [ih]; rfl

/-- the rewritten term, kept only when its degree is ≤ 2 (what goes to `reduced_terms`) -/
def lowNew (u v prod : Label) (tb : LTerm × Rat) : List (LTerm × Rat) :=
  if (substTerm u v prod tb.1).length > 2 then [] else [(substTerm u v prod tb.1, tb.2)]

theorem bkTerm_spec (u v prod : Label) (acc : BK × List Pair) (tb : LTerm × Rat) (acc' : BK × List Pair)
    (h : bkTerm u v prod acc tb = some acc') :
    acc'.1.reduced = acc.1.reduced ++ lowNew u v prod tb ∧ acc'.1.constraints = acc.1.constraints ∧ acc'.1.vars = acc.1.vars := by
  unfold bkTerm at h
  simp only at h
  split at h
  · simp at h
  · rename_i s1 h1
    split at h
    · simp at h
    · rename_i s2 h2
      have o1 : s1.out = acc.1.out := foldlM_preserve (decRem tb.1) BK.out (decRem_out tb.1) _ _ _ h1
      have o2 : s2.out = s1.out := foldlM_preserve (setRem _ tb.2 tb.1) BK.out (setRem_out _ tb.2 tb.1) _ _ _ h2
      have o : s2.out = acc.1.out := o2.trans o1
      simp only [BK.out, Prod.mk.injEq] at o
      split at h
      · rename_i hlen
        simp only [Option.some.injEq] at h
        subst h
        have o3 := addNew_out (tb.1.filter (fun w => w ≠ u ∧ w ≠ v) ++ [prod]) tb.2 prod (tb.1.filter (fun w => w ≠ u ∧ w ≠ v)) (s2, acc.2)
        simp only [BK.out, Prod.mk.injEq] at o3
        have hl : lowNew u v prod tb = [] := by unfold lowNew substTerm; rw [if_pos hlen]
        rw [hl, List.append_nil]
        exact ⟨o3.1.trans o.1, o3.2.1.trans o.2.1, o3.2.2.trans o.2.2⟩
      · rename_i hlen
        simp only [Option.some.injEq] at h
        subst h
        have hl : lowNew u v prod tb = [(substTerm u v prod tb.1, tb.2)] := by unfold lowNew substTerm; rw [if_neg hlen]
        rw [hl]
        simp only
        exact ⟨by rw [o.1]; rfl, o.2.1, o.2.2⟩

theorem bkTerms_spec (u v prod : Label) (terms : List (LTerm × Rat)) (acc acc' : BK × List Pair)
    (h : terms.foldlM (bkTerm u v prod) acc = some acc') :
    acc'.1.reduced = acc.1.reduced ++ terms.flatMap (lowNew u v prod) ∧ acc'.1.constraints = acc.1.constraints ∧ acc'.1.vars = acc.1.vars := by
  induction terms generalizing acc with
  | nil =>
    simp only [List.foldlM_nil, pure, Option.some.injEq] at h
    subst h; simp
  | cons tb r ih =>
    simp only [List.foldlM_cons, bind, Option.bind] at h
    cases hf : bkTerm u v prod acc tb with
    | none => rw [hf] at h; simp at h
    | some a1 =>
      rw [hf] at h
      have h1 := bkTerm_spec u v prod acc tb a1 hf
      have h2 := ih a1 h
      refine ⟨?_, h2.2.1.trans h1.2.1, h2.2.2.trans h1.2.2⟩
      rw [h2.1, h1.1, List.flatMap_cons, List.append_assoc]

theorem flatMap_lowNew (u v prod : Label) (terms : List (LTerm × Rat)) :
    terms.flatMap (lowNew u v prod)
      = (terms.map (fun tb => (substTerm u v prod tb.1, tb.2))).filter (fun tb => decide (tb.1.length ≤ 2)) := by
  induction terms with
  | nil => rfl
  | cons tb r ih =>
    simp only [List.flatMap_cons, List.map_cons, List.filter_cons, ih, lowNew]
    by_cases hl : (substTerm u v prod tb.1).length > 2
    · have : ¬ (substTerm u v prod tb.1).length ≤ 2 := by omega
      simp [hl, this]
    · have : (substTerm u v prod tb.1).length ≤ 2 := by omega
      simp [hl, this]

/-- **one iteration of the coded loop**, observable part: with `terms = idx[pair]`,
    `reduced_terms += [rewritten t | t ∈ terms, degree ≤ 2]`, `constraints += [(pair, product)]`,
    `variables += [product]`, the product name being `_new_product(variables, *pair)` -/
theorem bkStep_spec (s : BK) (choice : Pair) (s' : BK) (h : bkStep s choice = some s') :
    ∃ terms, idxGet s.idx choice = some terms
      ∧ s'.reduced = s.reduced ++ (terms.map (fun tb => (substTerm choice.1 choice.2 (newProduct s.vars choice.1 choice.2) tb.1, tb.2))).filter
                                    (fun tb => decide (tb.1.length ≤ 2))
      ∧ s'.constraints = s.constraints ++ [(choice, newProduct s.vars choice.1 choice.2)]
      ∧ s'.vars = s.vars ++ [newProduct s.vars choice.1 choice.2] := by
  unfold bkStep at h
  simp only at h
  split at h
  · simp at h
  · split at h
    · simp at h
    · split at h
      · rename_i que terms hq hi
        split at h
        · simp at h
        · rename_i s1 newPairs hfold
          simp only [Option.some.injEq] at h
          subst h
          have := bkTerms_spec choice.1 choice.2 (newProduct s.vars choice.1 choice.2) terms _ _ hfold
          refine ⟨terms, hi, ?_, this.2.1, this.2.2⟩
          simp only
          rw [this.1, flatMap_lowNew]
      · simp at h

/-- **refinement of one iteration**: if the index entry of the chosen pair lists, up to order, the
    current terms of degree > 2 containing the pair, the iteration acts on `reduced_terms` as the
    semantic step `Red.step` (up to order) -/
theorem bkStep_refines_step (s : BK) (choice : Pair) (s' : BK) (h : bkStep s choice = some s') (hl : HiLo Label)
    (hsim : s.reduced.Perm hl.lo)
    (hidx : ∀ terms, idxGet s.idx choice = some terms → terms.Perm (hl.hi.filter (fun tb => hasPair choice.1 choice.2 tb.1))) :
    s'.reduced.Perm (step choice.1 choice.2 (newProduct s.vars choice.1 choice.2) hl).lo := by
  obtain ⟨terms, hi, hr, _, _⟩ := bkStep_spec s choice s' h
  rw [hr]
  unfold step
  simp only
  apply List.Perm.append hsim
  apply List.Perm.filter
  apply List.Perm.map
  exact hidx terms hi

/-! ## `make_quadratic`: objective + penalties -/

open GateTable Generated.Gates

theorem termCall_eval (x : Label → Rat) (tb : LTerm × Rat) (t : PTerm Label) (h : termCall tb = some t) :
    t.eval x = tb.2 * termVal x tb.1 := by
  unfold termCall at h
  split at h
  · rename_i h0; simp only [Option.some.injEq] at h; subst h; rw [h0]; simp [PTerm.eval, termVal]
  · rename_i v h1; simp only [Option.some.injEq] at h; subst h; rw [h1]; simp [PTerm.eval, termVal]
  · rename_i u v h2; simp only [Option.some.injEq] at h; subst h; rw [h2]; simp only [PTerm.eval, termVal]; grind
  · simp at h

theorem termCall_some_iff (tb : LTerm × Rat) : (∃ t, termCall tb = some t) ↔ tb.1.length ≤ 2 := by
  unfold termCall
  match tb.1 with
  | [] => simp
  | [v] => simp
  | [u, v] => simp
  | _ :: _ :: _ :: _ => simp

theorem objectiveBag_eval (x : Label → Rat) (reduced : List (LTerm × Rat)) (bag : List (PTerm Label))
    (h : objectiveBag reduced = some bag) : evalBag x bag = polyEnergy x reduced := by
  induction reduced generalizing bag with
  | nil => simp only [objectiveBag, Option.some.injEq] at h; subst h; rfl
  | cons tb r ih =>
    simp only [objectiveBag] at h
    split at h
    · rename_i t rest ht hrest
      simp only [Option.some.injEq] at h; subst h
      simp only [evalBag, polyEnergy, ih rest hrest, termCall_eval x tb t ht]
    · simp at h

/-- `make_quadratic` refuses (`RuntimeError`) exactly when a term of degree > 2 is left -/
theorem objectiveBag_some_iff (reduced : List (LTerm × Rat)) :
    (∃ bag, objectiveBag reduced = some bag) ↔ ∀ tb ∈ reduced, tb.1.length ≤ 2 := by
  induction reduced with
  | nil => simp [objectiveBag]
  | cons tb r ih =>
    simp only [objectiveBag, List.mem_cons, forall_eq_or_imp]
    constructor
    · rintro ⟨bag, h⟩
      split at h
      · rename_i t rest ht hrest
        exact ⟨(termCall_some_iff tb).1 ⟨t, ht⟩, ih.1 ⟨rest, hrest⟩⟩
      · simp at h
    · rintro ⟨h1, h2⟩
      obtain ⟨t, ht⟩ := (termCall_some_iff tb).2 h1
      obtain ⟨rest, hrest⟩ := ih.2 h2
      rw [ht, hrest]; exact ⟨_, rfl⟩

/-- penalty of one product constraint at a sample (BINARY: the generated AND table) -/
def andPen (x : Label → Rat) (c : Pair × Label) : Rat := andBinary.energy (ofList [x c.1.1, x c.1.2, x c.2])

/-- SPIN: the generated `_spin_product` table with the auxiliary the code created for the constraint -/
def spinPen (x : Label → Rat) (c : Pair × Label) (aux : Label) : Rat := spinProduct.energy (ofList [x c.1.1, x c.1.2, x c.2, x aux])

def penSumB (x : Label → Rat) : List (Pair × Label) → Rat
  | [] => 0
  | c :: r => andPen x c + penSumB x r

def penSumS (x : Label → Rat) : List (Pair × Label) → List Label → Rat
  | c :: r, a :: as => spinPen x c a + penSumS x r as
  | _, _ => 0

theorem penaltyBags_binary_eval (x : Label → Rat) (s : Rat) (vars : List Label) (cs : List (Pair × Label)) :
    evalBag x (penaltyBags .binary s vars cs).1 = s * penSumB x cs := by
  induction cs generalizing vars with
  | nil => simp only [penaltyBags, evalBag, penSumB]; grind
  | cons c r ih =>
    simp only [penaltyBags, evalBag_append, ih, penSumB, andPen]
    rw [tableBag_eval_list andBinary (by decide +kernel) _ (by rfl)]
    simp only [List.map_cons, List.map_nil]
    grind

theorem penaltyBags_spin_eval (x : Label → Rat) (s : Rat) (vars : List Label) (cs : List (Pair × Label)) :
    evalBag x (penaltyBags .spin s vars cs).1 = s * penSumS x cs (penaltyBags .spin s vars cs).2 := by
  induction cs generalizing vars with
  | nil => simp only [penaltyBags, evalBag, penSumS]; grind
  | cons c r ih =>
    simp only [penaltyBags, evalBag_append, ih, penSumS, spinPen]
    rw [tableBag_eval_list spinProduct (by decide +kernel) _ (by rfl)]
    simp only [List.map_cons, List.map_nil]
    grind

theorem penaltyBags_aux_length (s : Rat) (vars : List Label) (cs : List (Pair × Label)) :
    (penaltyBags .spin s vars cs).2.length = cs.length := by
  induction cs generalizing vars with
  | nil => rfl
  | cons c r ih => simp only [penaltyBags, List.length_cons, ih]

/-! ## `polymorph_response` -/

theorem mem_dedup {V : Type} [DecidableEq V] (l : List V) (v : V) : v ∈ dedup l ↔ v ∈ l := by
  induction l with
  | nil => simp [dedup]
  | cons a r ih =>
    simp only [dedup]
    split
    · rename_i h
      simp only [List.contains_iff_mem] at h
      rw [ih]; simp only [List.mem_cons]
      constructor
      · intro hm; exact Or.inr hm
      · rintro (rfl | hm)
        · exact h
        · exact hm
    · simp only [List.mem_cons, ih]

theorem termVal_congr {V : Type} (x y : V → Rat) (t : Term V) (h : ∀ v ∈ t, x v = y v) : termVal x t = termVal y t := by
  induction t with
  | nil => rfl
  | cons a r ih => simp only [termVal]; rw [h a (by simp), ih (fun v hv => h v (by simp [hv]))]

/-- the polynomial's energy depends only on the values of the polynomial's own variables -/
theorem polyEnergy_congr (x y : Label → Rat) (poly : List (LTerm × Rat)) (h : ∀ v ∈ polyVars poly, x v = y v) :
    polyEnergy x poly = polyEnergy y poly := by
  induction poly with
  | nil => rfl
  | cons tb r ih =>
    have hv : ∀ v, v ∈ polyVars (tb :: r) ↔ (v ∈ tb.1 ∨ v ∈ polyVars r) := by
      intro v; simp only [polyVars, mem_dedup, List.flatMap_cons, List.mem_append]
    simp only [polyEnergy]
    rw [termVal_congr x y tb.1 (fun v hv' => h v ((hv v).2 (Or.inl hv'))), ih (fun v hv' => h v ((hv v).2 (Or.inr hv')))]

end Red
