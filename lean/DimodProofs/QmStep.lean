import DimodProofs.QmFlip

/-! `QuadraticModel`: one call = one step on the label-keyed polynomial with vartypes and bounds (`absQ`), for the
    single-term edits, `add_variable` with bounds, `remove_variable`, `remove_interaction`, `scale`, the offset setter,
    `change_vartype`, `flip_variable` and the bounds setters.  Core Lean only. -/

namespace Qm
open Bqm (modifyAt nbhDrop coefAt)

def QPoly.autoLabel (p : QPoly) : Label := ({ vt := .spin, labels := p.vars, lin := [], adj := [], off := 0 } : Bqm).autoLabel

/-- bounds a new variable gets (`none` = the call raises), as `cyQM.add_variable` computes them -/
def newBounds (imax rmax : Rat) (t : QVT) (lb ub : Option Rat) : Option (Rat × Rat) :=
  let q := Qm.empty imax rmax
  if isBin t then some (q.dmin t, q.dmax t) else
  let l := lb.getD (q.dmin t)
  let u := ub.getD (q.dmax t)
  if optAny lb (fun x => x < q.vmin t) then none else
  if optAny ub (fun x => x > q.vmax t) then none else
  if l > u then none else
  if t = .integer ∧ l.ceil > u.floor then none else some (l, u)

def QPoly.addVariable (p : QPoly) (t : QVT) (v : Option Label) (lb ub : Option Rat) : QPoly :=
  let lbl := match v with | some x => x | none => p.autoLabel
  if lbl ∈ p.vars then p else
  match newBounds p.imax p.rmax t lb ub with
  | some (l, u) => p.push lbl t l u
  | none => p

def QPoly.addLinear (p : QPoly) (v : Label) (b : Rat) (dflt : Option (QVT × Option Rat × Option Rat)) : QPoly :=
  if v ∈ p.vars then p.withLin v (· + b) else
  match dflt with
  | some (t, lb, ub) => (p.addVariable t (some v) lb ub).withLin v (· + b)
  | none => p

/-- the operations covered -/
inductive QEdit : Op → Prop
  | addVariable (t v lb ub) : QEdit (.addVariable t v lb ub)
  | addLinear (v b d) : QEdit (.addLinear (some v) b d)
  | setLinear (v b) : QEdit (.setLinear (some v) b)
  | addQuadratic (u v b) : QEdit (.addQuadratic (some u) (some v) b)
  | setQuadratic (u v b) : QEdit (.setQuadratic (some u) (some v) b)
  | removeInteraction (u v) : QEdit (.removeInteraction u v)
  | removeVariable (v) : QEdit (.removeVariable (some v))
  | scale (s) : QEdit (.scale s)
  | setOffset (b) : QEdit (.setOffset b)
  | changeVartype (t v) : QEdit (.changeVartype t v)
  | flip (v) : QEdit (.flip v)
  | setLowerBound (v x) : QEdit (.setLowerBound v x)
  | setUpperBound (v x) : QEdit (.setUpperBound v x)

/-- the call on the polynomial (meaningful when the call returns) -/
def QPoly.apply (p : QPoly) : Op → QPoly
  | .addVariable t v lb ub => p.addVariable t v lb ub
  | .addLinear (some v) b d => p.addLinear v b d
  | .setLinear (some v) b => p.withLin v (fun _ => b)
  | .addQuadratic (some u) (some v) b => p.quadOp u v b false
  | .setQuadratic (some u) (some v) b => p.quadOp u v b true
  | .removeInteraction u v => p.removeInteraction u v
  | .removeVariable (some v) => p.remove v
  | .scale s => p.scale s
  | .setOffset b => { p with off := b }
  | .changeVartype t v => p.changeVartype t v
  | .flip v => p.flip v
  | .setLowerBound v x => p.setLb v x
  | .setUpperBound v x => p.setUb v x
  | _ => p

theorem newBounds_eq (m : Qm) (t : QVT) (lb ub : Option Rat) :
    (if isBin t then some (m.dmin t, m.dmax t) else
      if optAny lb (fun x => x < m.vmin t) then none else
      if optAny ub (fun x => x > m.vmax t) then none else
      if lb.getD (m.dmin t) > ub.getD (m.dmax t) then none else
      if t = .integer ∧ (lb.getD (m.dmin t)).ceil > (ub.getD (m.dmax t)).floor then none
      else some (lb.getD (m.dmin t), ub.getD (m.dmax t))) = newBounds m.imax m.rmax t lb ub := by
  unfold newBounds
  cases t <;> rfl

theorem addVariable_refines {m : Qm} (i : Inv m) (t : QVT) (v : Option Label) (lb ub : Option Rat)
    (hok : (m.addVariable t v lb ub).2 = none) :
    absQ (m.addVariable t v lb ub).1 = (absQ m).addVariable t v lb ub ∧ Inv (m.addVariable t v lb ub).1 := by
  have hauto : m.indexOf? m.autoLabel = none :=
    Bqm.autoLabel_indexOf ({ vt := .spin, labels := m.labels, lin := [], adj := [], off := 0 } : Bqm)
  unfold Qm.addVariable QPoly.addVariable at *
  dsimp only at hok ⊢
  rw [newBounds_eq] at hok ⊢
  have e1 : (absQ m).imax = m.imax := rfl
  have e2 : (absQ m).rmax = m.rmax := rfl
  have e3 : (absQ m).autoLabel = m.autoLabel := rfl
  have e4 : (absQ m).vars = m.labels := rfl
  rw [e1, e2, e3, e4]
  cases v with
  | some x =>
    simp only []
    cases hx : m.indexOf? x with
    | some vi =>
      have hmem : x ∈ m.labels := (mem_vars_iff m x).mpr ⟨vi, hx⟩
      rw [if_pos hmem]
      simp only [hx] at hok ⊢
      refine ⟨?_, ?_⟩ <;> (repeat' split) <;> first | rfl | exact i
    | none =>
      have hmem : x ∉ m.labels := (idx_none_iff m x).mp hx
      rw [if_neg hmem]
      simp only [hx] at hok ⊢
      cases hb : newBounds m.imax m.rmax t lb ub with
      | none => rw [hb] at hok; cases hok
      | some lu =>
        obtain ⟨l, u⟩ := lu
        exact ⟨push_refines i.wf x hx t l u, i.push x hx t l u⟩
  | none =>
    have hmem : m.autoLabel ∉ m.labels := (idx_none_iff m _).mp hauto
    simp only [] at hok ⊢
    rw [if_neg hmem]
    cases hb : newBounds m.imax m.rmax t lb ub with
    | none => rw [hb] at hok; cases hok
    | some lu =>
      obtain ⟨l, u⟩ := lu
      exact ⟨push_refines i.wf _ hauto t l u, i.push _ hauto t l u⟩

theorem not_mem_of_none {m : Qm} {v : Label} (h : m.indexOf? v = none) : v ∉ (absQ m).vars := (idx_none_iff m v).mp h
theorem mem_of_some {m : Qm} {v : Label} {i : Nat} (h : m.indexOf? v = some i) : v ∈ (absQ m).vars := (mem_vars_iff m v).mpr ⟨i, h⟩

theorem addLinear_refines {m : Qm} (i : Inv m) (v : Label) (b : Rat) (d : Option (QVT × Option Rat × Option Rat))
    (hok : (m.addLinear v b d).2 = none) :
    absQ (m.addLinear v b d).1 = (absQ m).addLinear v b d ∧ Inv (m.addLinear v b d).1 := by
  unfold Qm.addLinear QPoly.addLinear at *
  cases hv : m.indexOf? v with
  | some vi =>
    rw [if_pos (mem_of_some hv)]
    exact ⟨absQ_withLin i.wf hv _, i.withLin _ _⟩
  | none =>
    rw [if_neg (not_mem_of_none hv)]
    rw [hv] at hok
    cases d with
    | none => simp at hok
    | some tlu =>
      obtain ⟨t, lb, ub⟩ := tlu
      simp only [] at hok ⊢
      cases hav : m.addVariable t (some v) lb ub with
      | mk m' e =>
        rw [hav] at hok
        cases e with
        | some e => simp at hok
        | none =>
          simp only []
          have r := addVariable_refines i t (some v) lb ub (by rw [hav])
          rw [hav] at r
          -- the new variable sits at index `m.n`
          have hidx : m'.indexOf? v = some m.n := by
            have hav2 := hav
            unfold Qm.addVariable at hav2
            simp only [hv] at hav2
            rw [newBounds_eq] at hav2
            cases hb : newBounds m.imax m.rmax t lb ub with
            | none => rw [hb] at hav2; simp at hav2
            | some lu =>
              rw [hb] at hav2
              simp only [] at hav2
              have h2 := (Prod.mk.inj hav2).1
              rw [← h2]
              have := idx_push m v v hv (m.labels ++ [v]) rfl
              simp only [if_true] at this
              show Bqm.indexOfGo v (m.labels ++ [v]) 0 = some m.lin.length
              rw [this, i.wf.labels_len]
          rw [absQ_withLin r.2.wf hidx, r.1]
          exact ⟨rfl, r.2.withLin _ _⟩

theorem Inv.withOff {m : Qm} (i : Inv m) (x : Rat) : Inv { m with off := x } := ⟨i.wf.withOff x, i.nodup⟩

theorem step_refinesQ {m : Qm} (i : Inv m) {op : Op} (he : QEdit op) (hok : (m.step op).2 = none) :
    absQ (m.step op).1 = (absQ m).apply op ∧ Inv (m.step op).1 := by
  cases he with
  | addVariable t v lb ub => exact addVariable_refines i t v lb ub hok
  | addLinear v b d => exact addLinear_refines i v b d hok
  | setLinear v b =>
    simp only [Qm.step, QPoly.apply] at hok ⊢
    unfold Qm.setLinear at hok ⊢
    cases hv : m.indexOf? v with
    | none => rw [hv] at hok; simp at hok
    | some vi => exact ⟨absQ_withLin i.wf hv _, i.withLin _ _⟩
  | addQuadratic u v b =>
    simp only [Qm.step, QPoly.apply] at hok ⊢
    unfold Qm.quadOp at hok ⊢
    cases hu : m.indexOf? u with
    | none => rw [hu] at hok; simp at hok
    | some ui =>
      cases hv : m.indexOf? v with
      | none => rw [hu, hv] at hok; simp at hok
      | some vi =>
        rw [hu, hv] at hok
        simp only [] at hok ⊢
        by_cases hq : m.quadAllowed ui vi = true
        · simp only [hq, if_true]
          refine ⟨addQ_refines i.wf hu hv b false, i.addQ ui vi b false (indexOf?_lt i.wf hu) (indexOf?_lt i.wf hv) ?_⟩
          intro e; subst e
          unfold Qm.quadAllowed at hq; unfold Qm.loopOK
          simp at hq
          cases hb : isBin (m.vtAt ui) with
          | true => simp [hb] at hq
          | false => rfl
        · simp [hq] at hok
  | setQuadratic u v b =>
    simp only [Qm.step, QPoly.apply] at hok ⊢
    unfold Qm.quadOp at hok ⊢
    cases hu : m.indexOf? u with
    | none => rw [hu] at hok; simp at hok
    | some ui =>
      cases hv : m.indexOf? v with
      | none => rw [hu, hv] at hok; simp at hok
      | some vi =>
        rw [hu, hv] at hok
        simp only [] at hok ⊢
        by_cases hq : m.quadAllowed ui vi = true
        · simp only [hq, if_true]
          refine ⟨addQ_refines i.wf hu hv b true, i.addQ ui vi b true (indexOf?_lt i.wf hu) (indexOf?_lt i.wf hv) ?_⟩
          intro e; subst e
          unfold Qm.quadAllowed at hq; unfold Qm.loopOK
          simp at hq
          cases hb : isBin (m.vtAt ui) with
          | true => simp [hb] at hq
          | false => rfl
        · simp [hq] at hok
  | removeInteraction u v =>
    have hwf := i.wf.removeInteraction u v
    simp only [Qm.step, QPoly.apply] at hok ⊢
    unfold Qm.removeInteraction at hok hwf ⊢
    cases hu : m.indexOf? u with
    | none => rw [hu] at hok; simp at hok
    | some ui =>
      cases hv : m.indexOf? v with
      | none => rw [hu, hv] at hok; simp at hok
      | some vi =>
        rw [hu, hv] at hok hwf
        simp only [] at hok hwf ⊢
        cases hq : m.quadAt ui vi with
        | none => rw [hq] at hok; simp at hok
        | some c =>
          rw [hq] at hwf
          simp only [] at hwf ⊢
          have r := removeInteraction_refines i.wf hu hv
          by_cases huv : ui = vi
          · simp only [huv, if_true] at r hwf ⊢
            exact ⟨r, ⟨hwf, i.nodup⟩⟩
          · simp only [huv, if_false] at r hwf ⊢
            exact ⟨r, ⟨hwf, i.nodup⟩⟩
  | removeVariable v =>
    simp only [Qm.step, QPoly.apply] at hok ⊢
    unfold Qm.removeVariable at hok ⊢
    simp only [] at hok ⊢
    cases hv : m.indexOf? v with
    | none => rw [hv] at hok; simp at hok
    | some vi => exact ⟨removeAt_refines i.wf i.nodup hv, i.removeAt vi (indexOf?_lt i.wf hv)⟩
  | scale s => exact ⟨scale_refines m s, ⟨i.wf.scale s, i.nodup⟩⟩
  | setOffset b => exact ⟨rfl, i.withOff b⟩
  | changeVartype t v => exact changeVartype_refines i t v
  | flip v => exact flip_refines i v
  | setLowerBound v x =>
    have hwf := i.wf.setBound v x true
    simp only [Qm.step, QPoly.apply] at hok ⊢
    unfold Qm.setBound at hok hwf ⊢
    cases hv : m.indexOf? v with
    | none => rw [hv] at hok; simp at hok
    | some vi =>
      rw [hv] at hok hwf
      simp only [] at hok hwf ⊢
      by_cases c0 : isBin (m.vtAt vi) = true
      · simp only [c0, if_true] at hok; exact absurd hok (by simp)
      by_cases c1 : x < m.vmin (m.vtAt vi)
      · simp only [c0, c1, if_true, if_false, Bool.false_eq_true] at hok; exact absurd hok (by simp)
      by_cases c2 : x > m.ub.getD vi 0
      · simp only [c0, c1, c2, if_true, if_false, Bool.false_eq_true] at hok; exact absurd hok (by simp)
      by_cases c3 : m.vtAt vi = .integer ∧ x.ceil > (m.ub.getD vi 0).floor
      · simp only [c0, c1, c2, c3, if_true, if_false, Bool.false_eq_true] at hok; exact absurd hok (by simp)
      simp only [c0, c1, c2, c3, if_false, if_true, Bool.false_eq_true] at hwf ⊢
      exact ⟨setLb_refines i.wf hv x, ⟨hwf, i.nodup⟩⟩
  | setUpperBound v x =>
    have hwf := i.wf.setBound v x false
    simp only [Qm.step, QPoly.apply] at hok ⊢
    unfold Qm.setBound at hok hwf ⊢
    cases hv : m.indexOf? v with
    | none => rw [hv] at hok; simp at hok
    | some vi =>
      rw [hv] at hok hwf
      simp only [] at hok hwf ⊢
      by_cases c0 : isBin (m.vtAt vi) = true
      · simp only [c0, if_true] at hok; exact absurd hok (by simp)
      by_cases c1 : x > m.vmax (m.vtAt vi)
      · simp only [c0, c1, if_true, if_false, Bool.false_eq_true] at hok; exact absurd hok (by simp)
      by_cases c2 : x < m.lb.getD vi 0
      · simp only [c0, c1, c2, if_true, if_false, Bool.false_eq_true] at hok; exact absurd hok (by simp)
      by_cases c3 : m.vtAt vi = .integer ∧ (m.lb.getD vi 0).ceil > x.floor
      · simp only [c0, c1, c2, c3, if_true, if_false, Bool.false_eq_true] at hok; exact absurd hok (by simp)
      simp only [c0, c1, c2, c3, if_false, if_true, Bool.false_eq_true] at hwf ⊢
      exact ⟨setUb_refines i.wf hv x, ⟨hwf, i.nodup⟩⟩

end Qm
