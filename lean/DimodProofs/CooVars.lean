import DimodProofs.CooText

/-! The variables of the model `coo.loads` builds from a written text: exactly the variables with a written line. -/

namespace CooText
open SSM Pack

theorem mem_rows {lin : Nat → Rat} {quad : Nat → Nat → Option Rat} {L : List Nat} {t : Nat × Nat × Rat} (h : t ∈ rows lin quad L) :
    t.1 ∈ L ∧ t.2.1 ∈ L ∧ entry lin quad t.1 t.2.1 = some t := by
  induction L with
  | nil => simp [rows] at h
  | cons u rest ih =>
    simp only [rows, List.mem_append, List.mem_filterMap] at h
    rcases h with ⟨v, hv, he⟩ | h
    · have e := he
      unfold entry at he
      have h1 : t.1 = u ∧ t.2.1 = v := by
        split at he
        · split at he
          · simp only [Option.some.injEq] at he; subst he; rename_i huv _; exact ⟨rfl, huv.symm ▸ rfl⟩
          · cases he
        · simp only [Option.map_eq_some_iff] at he
          obtain ⟨b, _, rfl⟩ := he; exact ⟨rfl, rfl⟩
      rw [h1.1, h1.2]
      exact ⟨by simp, hv, e⟩
    · obtain ⟨a, b, c⟩ := ih h
      exact ⟨by simp [a], by simp [b], c⟩

theorem rows_diag {lin : Nat → Rat} {quad : Nat → Nat → Option Rat} {L : List Nat} {u : Nat} (hu : u ∈ L) (hl : lin u ≠ 0) :
    (u, u, lin u) ∈ rows lin quad L := by
  induction L with
  | nil => cases hu
  | cons a rest ih =>
    simp only [rows, List.mem_append, List.mem_filterMap]
    by_cases h : a = u
    · subst h
      exact Or.inl ⟨a, by simp, by simp [entry, hl]⟩
    · exact Or.inr (ih (by simpa [Ne.symm h] using hu))

theorem rows_pair {lin : Nat → Rat} {quad : Nat → Nat → Option Rat} (hsym : ∀ a b, quad a b = quad b a) {L : List Nat} {u v : Nat} {b : Rat}
    (hu : u ∈ L) (hv : v ∈ L) (huv : u ≠ v) (hq : quad u v = some b) : (u, v, b) ∈ rows lin quad L ∨ (v, u, b) ∈ rows lin quad L := by
  induction L with
  | nil => cases hu
  | cons a rest ih =>
    simp only [rows, List.mem_append, List.mem_filterMap]
    by_cases h1 : a = u
    · subst h1
      exact Or.inl (Or.inl ⟨v, hv, by simp [entry, huv, hq]⟩)
    · by_cases h2 : a = v
      · subst h2
        exact Or.inr (Or.inl ⟨u, hu, by simp [entry, Ne.symm huv, hsym a u ▸ hq]⟩)
      · have hu' : u ∈ rest := by simpa [Ne.symm h1] using hu
        have hv' : v ∈ rest := by simpa [Ne.symm h2] using hv
        rcases ih hu' hv' with h | h
        · exact Or.inl (Or.inr h)
        · exact Or.inr (Or.inr h)

/-- **the variables of the loaded model**: a label is a variable of `loads(dumps(bqm))` iff it is a variable of the written
    model with a non-zero linear bias or with an interaction — a variable all of whose biases are zero / absent has no line and
    is not in the format -/
theorem varsOf_loaded (labels : List Nat) (lin : Nat → Rat) (quad : Nat → Nat → Option Rat) (hsym : ∀ a b, quad a b = quad b a) (u : Nat) :
    u ∈ varsOf ((triples labels lin quad).map loaded) ↔
      u ∈ labels ∧ (lin u ≠ 0 ∨ ∃ v ∈ labels, v ≠ u ∧ (quad u v).isSome) := by
  have hp := List.mergeSort_perm labels (fun a b => decide (a ≤ b))
  simp only [varsOf, List.mem_eraseDups, List.mem_flatMap, List.mem_map, triples]
  constructor
  · rintro ⟨c, ⟨t, ht, rfl⟩, hc⟩
    obtain ⟨h1, h2, h3⟩ := mem_rows ht
    rw [hp.mem_iff] at h1 h2
    simp only [loaded, List.mem_cons, List.not_mem_nil, or_false] at hc
    unfold entry at h3
    split at h3
    · rename_i heq
      split at h3
      · rename_i hl
        have hu : u = t.1 := by rcases hc with h | h; exact h; exact h.trans heq.symm
        exact ⟨hu ▸ h1, Or.inl (hu ▸ hl)⟩
      · cases h3
    · rename_i hne
      simp only [Option.map_eq_some_iff] at h3
      obtain ⟨b, hb, _⟩ := h3
      rcases hc with h | h
      · exact ⟨h ▸ h1, Or.inr ⟨t.2.1, h2, fun e => hne (h ▸ e.symm), by rw [h, hb]; rfl⟩⟩
      · exact ⟨h ▸ h2, Or.inr ⟨t.1, h1, fun e => hne (h ▸ e), by rw [h, hsym, hb]; rfl⟩⟩
  · rintro ⟨hu, hl | ⟨v, hv, hvu, hq⟩⟩
    · exact ⟨_, ⟨_, rows_diag (hp.mem_iff.mpr hu) hl, rfl⟩, by simp [loaded]⟩
    · obtain ⟨b, hb⟩ := Option.isSome_iff_exists.mp hq
      rcases rows_pair (lin := lin) hsym (hp.mem_iff.mpr hu) (hp.mem_iff.mpr hv) (Ne.symm hvu) hb with h | h
      · exact ⟨_, ⟨_, h, rfl⟩, by simp [loaded]⟩
      · exact ⟨_, ⟨_, h, rfl⟩, by simp [loaded]⟩

end CooText
