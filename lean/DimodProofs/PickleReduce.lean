import DimodModel.PickleReduce
import DimodProofs.Vectors
import DimodProofs.VarsMore

/-! pickle at `__reduce__` level: the rebuilt cy BQM reads, label by label, what the original reads. -/

namespace Pack
open SSM

def CyBQM.quadratic (b : CyBQM) (u v : Label) : Rat := coef b.body.quad (b.labels.idxOf u) (b.labels.idxOf v)

theorem range_map_getD (l : List Label) (d : Label) : (List.range l.length).map (fun i => l.getD i d) = l := by
  apply List.ext_getElem
  · simp
  · intro i h1 h2
    simp at h1
    simp [List.getD, List.getElem?_eq_getElem h1]

theorem idxOf_map_inj (f : Nat → Label) (order : List Nat) (u n : Nat) (hu : u < n) (ho : ∀ i ∈ order, i < n)
    (hinj : ∀ i j, i < n → j < n → f i = f j → i = j) : (order.map f).idxOf (f u) = order.idxOf u := by
  induction order with
  | nil => rfl
  | cons a t ih =>
    have ha : a < n := ho a (by simp)
    simp only [List.map_cons, List.idxOf_cons]
    by_cases h : a = u
    · subst h; simp
    · have h' : f a ≠ f u := fun e => h (hinj a u ha hu e)
      have e1 : (f a == f u) = false := by simpa using h'
      have e2 : (a == u) = false := by simpa using h
      rw [e1, e2]
      simp only [cond_false]
      rw [ih fun i hi => ho i (by simp [hi])]

theorem getD_inj (l : List Label) (d : Label) (hnd : l.Nodup) (i j : Nat) (hi : i < l.length) (hj : j < l.length)
    (h : l.getD i d = l.getD j d) : i = j := by
  simp only [List.getD, List.getElem?_eq_getElem hi, List.getElem?_eq_getElem hj, Option.getD_some] at h
  exact (List.getElem_inj hnd).mp h

/-- `from_numpy_vectors(to_numpy_vectors(...))` with unsorted indices keeps every coefficient -/
theorem vectors_roundtrip_raw (b : BQMIdx) (order : List Nat)
    (hperm : order.Perm (List.range b.lin.length)) (hq : ∀ t ∈ b.quad, t.1 < b.lin.length ∧ t.2.1 < b.lin.length) :
    (fromVectors (toVectorsRaw b order)).offset = b.offset ∧
    (∀ u, u < b.lin.length → (fromVectors (toVectorsRaw b order)).lin.getD (order.idxOf u) 0 = b.lin.getD u 0) ∧
    (∀ u v, u < b.lin.length → v < b.lin.length →
      coef (fromVectors (toVectorsRaw b order)).quad (order.idxOf u) (order.idxOf v) = coef b.quad u v) := by
  have hmem : ∀ u, u < b.lin.length → u ∈ order := fun u hu => hperm.mem_iff.mpr (by simpa using hu)
  refine ⟨rfl, ?_, ?_⟩
  · intro u hu
    have hk : order.idxOf u < order.length := List.idxOf_lt_length_iff.mpr (hmem u hu)
    simp only [fromVectors, toVectorsRaw, List.getD, List.getElem?_map, List.getElem?_eq_getElem hk, Option.map_some,
      Option.getD_some, List.getElem_idxOf hk]
  · intro u v hu hv
    simp only [fromVectors, toVectorsRaw]
    rw [coef_map_swap _ fromVectors_swap]
    refine coef_reindex (order.idxOf ·) b.quad (· ∈ order) ?_ (fun t ht => ⟨hmem _ (hq t ht).1, hmem _ (hq t ht).2⟩) u v (hmem u hu) (hmem v hv)
    intro a c ha hc e
    have h1 := List.getElem_idxOf (List.idxOf_lt_length_iff.mpr ha)
    have h2 := List.getElem_idxOf (List.idxOf_lt_length_iff.mpr hc)
    rw [← h1, ← h2]
    simp [e]

/-- the position of a label in the rebuilt object is the position of its old index in the order the writer chose -/
theorem rebuilt_idxOf (b : CyBQM) (order : List Nat) (hnd : b.labels.Nodup)
    (hperm : order.Perm (List.range b.labels.length)) (v : Label) (hv : v ∈ b.labels) :
    (b.pickleRoundTrip order).labels.idxOf v = order.idxOf (b.labels.idxOf v) := by
  have hu : b.labels.idxOf v < b.labels.length := List.idxOf_lt_length_iff.mpr hv
  have hfv : b.labels.getD (b.labels.idxOf v) (.int 0) = v := by
    simp [List.getD, List.getElem?_eq_getElem hu]
  have := idxOf_map_inj (fun i => b.labels.getD i (.int 0)) order (b.labels.idxOf v) b.labels.length hu
    (fun i hi => by simpa using hperm.mem_iff.mp hi) (fun i j hi hj => getD_inj b.labels _ hnd i j hi hj)
  simp only [hfv] at this
  exact this

theorem pickle_cybqm (b : CyBQM) (order : List Nat) (hnd : b.labels.Nodup)
    (hlen : b.labels.length = b.body.lin.length) (hperm : order.Perm (List.range b.labels.length))
    (hq : ∀ t ∈ b.body.quad, t.1 < b.body.lin.length ∧ t.2.1 < b.body.lin.length) :
    (b.pickleRoundTrip order).vt = b.vt ∧ (b.pickleRoundTrip order).body.offset = b.body.offset ∧
    (b.pickleRoundTrip order).labels.Perm b.labels ∧
    (∀ v ∈ b.labels, (b.pickleRoundTrip order).linear v = b.linear v) ∧
    (∀ u ∈ b.labels, ∀ v ∈ b.labels, (b.pickleRoundTrip order).quadratic u v = b.quadratic u v) := by
  have hperm' : order.Perm (List.range b.body.lin.length) := by rw [← hlen]; exact hperm
  obtain ⟨h1, h2, h3⟩ := vectors_roundtrip_raw b.body order hperm' hq
  have hbody : (b.pickleRoundTrip order).body = fromVectors (toVectorsRaw b.body order) := rfl
  refine ⟨rfl, by rw [hbody]; exact h1, ?_, ?_, ?_⟩
  · have := hperm.map (fun i => b.labels.getD i (.int 0))
    rw [range_map_getD] at this
    exact this
  · intro v hv
    have hu : b.labels.idxOf v < b.body.lin.length := by rw [← hlen]; exact List.idxOf_lt_length_iff.mpr hv
    simp only [CyBQM.linear, rebuilt_idxOf b order hnd hperm v hv, hbody]
    exact h2 _ hu
  · intro u hu v hv
    have hu' : b.labels.idxOf u < b.body.lin.length := by rw [← hlen]; exact List.idxOf_lt_length_iff.mpr hu
    have hv' : b.labels.idxOf v < b.body.lin.length := by rw [← hlen]; exact List.idxOf_lt_length_iff.mpr hv
    simp only [CyBQM.quadratic, rebuilt_idxOf b order hnd hperm u hu, rebuilt_idxOf b order hnd hperm v hv, hbody]
    exact h3 _ _ hu' hv'

end Pack
