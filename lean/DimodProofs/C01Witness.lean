import DimodModel.Energy

/-! # C01 — the three defects of the unrepaired tree, refuted on the mirrored pre-repair functions

Each statement is about the `…Old` function of `DimodModel/Energy.lean`, which mirrors the code as it was;
next to it the repaired function on the same input.  (`decide +kernel`: evaluation by the kernel, no axioms
beyond the usual three.) -/

namespace C01Witness
open En

def a : Label := .str "a"
def b : Label := .str "b"
def c : Label := .str "c"

/-- D1: two dicts whose key orders differ by a 3-cycle -/
def twoDicts : SL Rat := .dicts [[(a, 3), (b, 1), (c, 2)], [(b, 1), (c, 2), (a, 3)]]

/-- the pre-repair `_as_samples_iterator` (inverse permutation) delivers `[2, 3, 1]` for the second dict … -/
theorem d1_old_rows : (asSamplesOld twoDicts).toOption = some ([[3, 1, 2], [2, 3, 1]], [a, b, c]) := by decide +kernel

/-- … so under label `a` it delivers 2 where the input assigns 3 -/
theorem d1_old_misplaces :
    ((asSamplesOld twoDicts).toOption.map fun p => (p.1.getD 1 []).getD 0 0) ≠ twoDicts.value 1 a := by decide +kernel

theorem d1_new_rows : (asSamples twoDicts).toOption = some ([[3, 1, 2], [3, 1, 2]], [a, b, c]) := by decide +kernel

/-- D2: the constraint left-hand side `3` (no variables) of a CQM over one variable -/
def constExpr : Expr Rat := { vars := [], qb := { lin := [], adj := none, off := 3 } }

theorem d2_old_zero : (exprEnergiesOld constExpr [a] [[1]] [a]).toOption = some [0] := by decide +kernel
theorem d2_old_wrong : (exprEnergiesOld constExpr [a] [[1]] [a]).toOption ≠ some [constExpr.qb.off] := by decide +kernel
theorem d2_new_value : (exprEnergies constExpr [a] [[1]] [a]).toOption = some [3] := by decide +kernel

/-- D3: two variables with 2 cases each, linear biases 1,2 | 4,8; the sample names case −1 of the second -/
def dqm2 : Dqm Rat :=
  { bqm := { lin := [1, 2, 4, 8], adj := none, off := 0 }, starts := [0, 2, 4], adj := [[], []], off := 0 }

/-- the pre-repair loop evaluates the sample (reading the *first* variable's last case) instead of rejecting it -/
theorem d3_old_accepts : dqm2.rowLoopOld [0, -1] 0 dqm2.adj dqm2.off = some 3 := by decide +kernel
theorem d3_new_rejects : dqm2.rowLoop [0, -1] 0 dqm2.adj dqm2.off = none := by decide +kernel

end C01Witness
