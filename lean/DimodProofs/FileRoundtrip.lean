import DimodProofs.Reader
import DimodModel.BqmFile

/-! # Headers and sections: round trip, alignment, truncation behaviour (C09 / C10) -/

namespace FileFmt

open Prog

/-! ## headers -/

theorem makeHeader_length_mod (pre : Bytes) (maj min : UInt8) (text : Bytes) :
    (makeHeader pre maj min text).length % 64 = 0 := by
  simp only [makeHeader, List.length_append, List.length_cons, List.length_nil, toLE_length, spaces_length]
  have := padLen_mod (pre.length + 2 + 4 + text.length + 1)
  omega

theorem any_ge128_false {l : Bytes} (h : ∀ b ∈ l, b < 128) : l.any (fun b => b ≥ 128) = false := by
  rw [List.any_eq_false]
  intro b hb
  have := h b hb
  simp only [ge_iff_le, decide_eq_true_eq]
  exact UInt8.not_le.mpr this

theorem ascii_text_pad {text : Bytes} (h : ∀ b ∈ text, b < 128) (n : Nat) :
    ∀ b ∈ text ++ 10 :: spaces n, b < 128 := by
  intro b hb
  simp only [List.mem_append, List.mem_cons, spaces, List.mem_replicate] at hb
  rcases hb with hb | rfl | ⟨_, rfl⟩
  · exact h b hb
  · decide
  · decide

theorem readN_full (xs rest : Bytes) : (Prog.readN xs.length).run (xs ++ rest) = .ok (xs, rest) := by
  rw [Prog.readN, run_read_append _ _ _ _ rfl]; rfl

theorem readN_full' {n : Nat} (xs rest : Bytes) (h : xs.length = n) : (Prog.readN n).run (xs ++ rest) = .ok (xs, rest) := by
  subst h; exact readN_full xs rest

theorem readExact_full' {n : Nat} (e : FErr) (xs rest : Bytes) (h : xs.length = n) :
    (Prog.readExact n e).run (xs ++ rest) = .ok (xs, rest) := by
  subst h; exact (Comp.readExact xs e).full rest

theorem expect_full (m rest : Bytes) : (Prog.expect m).run (m ++ rest) = .ok ((), rest) := (Comp.expect m).full rest

theorem readLen_full (nlb n : Nat) (rest : Bytes) (hn : n < 256 ^ nlb) (h0 : 0 < nlb) :
    (Prog.readLen nlb).run (toLE nlb n ++ rest) = .ok (n, rest) := by
  rw [Prog.readLen, run_read_append _ _ _ _ (toLE_length _ _)]
  have : ¬ nlb = 0 := by omega
  simp [toLE_length, this, leNat_toLE _ _ hn, run]

theorem header_pad_mem {n : Nat} : ∀ b ∈ (10 : UInt8) :: spaces n, b = 32 ∨ b = 10 := by
  intro b hb
  simp only [List.mem_cons, spaces, List.mem_replicate] at hb
  rcases hb with rfl | ⟨_, rfl⟩
  · right; rfl
  · left; rfl

/-- `read_header (make_header …)`: the version and the parsed dictionary come back, the position
    is at the first byte after the header -/
theorem readHeader_full (pre text : Bytes) (maj min : UInt8) (parse : Bytes → Option H) (h : H)
    (hj : JsonContract parse text h) (hascii : ∀ b ∈ text, b < 128) (hlen : text.length + 65 < 2 ^ 32) (rest : Bytes) :
    (readHeader pre parse).run (makeHeader pre maj min text ++ rest) = .ok (([maj.toNat, min.toNat], h), rest) := by
  have hpad := padLen_lt (pre.length + 2 + 4 + text.length + 1)
  generalize hp : padLen (pre.length + 2 + 4 + text.length + 1) = pad at hpad
  have e : makeHeader pre maj min text ++ rest =
      pre ++ ([maj, min] ++ (toLE 4 (text.length + 1 + pad) ++ ((text ++ 10 :: spaces pad) ++ rest))) := by
    simp [makeHeader, hp]
  rw [e, readHeader, run_bind_ok (expect_full _ _), run_bind_ok (readN_full' (n := 2) [maj, min] _ rfl),
    run_bind_ok (readExact_full' (n := 4) _ (toLE 4 (text.length + 1 + pad)) _ (toLE_length _ _)), leNat_toLE _ _ (by omega),
    run_bind_ok (readN_full' (n := text.length + 1 + pad) (text ++ 10 :: spaces pad) _ (by simp [spaces_length]; omega)), run_ofRes, headerValue,
    any_ge128_false (ascii_text_pad hascii pad), hj.full _ header_pad_mem]
  rfl


/-! ## sections -/

theorem sectionDumps_length_mod (magic : Bytes) (nlb : Nat) (data : Bytes) :
    (sectionDumps magic nlb data).length % 64 = 0 := by
  simp only [sectionDumps, List.length_append, toLE_length, spaces_length]
  have := padLen_mod (data.length + magic.length + nlb)
  omega

/-- the padding a section carries -/
def sectionPad (magic : Bytes) (nlb : Nat) (data : Bytes) : Nat := padLen (data.length + magic.length + nlb)

theorem sectionDumps_eq (magic : Bytes) (nlb : Nat) (data : Bytes) :
    sectionDumps magic nlb data =
      magic ++ (toLE nlb (data.length + sectionPad magic nlb data) ++ (data ++ spaces (sectionPad magic nlb data))) := by
  simp [sectionDumps, sectionPad]

theorem Comp.readLen (nlb n : Nat) (hn : n < 256 ^ nlb) (h0 : 0 < nlb) : Comp (Prog.readLen nlb) (toLE nlb n) n 0 := by
  constructor
  · intro rest; exact readLen_full nlb n rest hn h0
  · intro k hk
    rw [toLE_length] at hk
    left
    have hl : ((toLE nlb n).take k).length = k := by simp [List.length_take, toLE_length]; omega
    rw [Prog.readLen, run_read_short _ _ _ (by omega)]
    by_cases hk0 : k = 0
    · exact ⟨.index, by simp [hl, hk0, run]⟩
    · exact ⟨.value, by simp [hl, hk0, hk, run]⟩

/-- reading `xs.length` bytes leniently and handing them to a pure `loads` that tolerates losing
    at most the last `pad` bytes -/
theorem Comp.readLoads (xs : Bytes) (loads : Bytes → Res α) (a : α) (pad : Nat)
    (hfull : loads xs = .ok a)
    (hcut : ∀ j, j < xs.length → (∃ e, loads (xs.take j) = .err e) ∨ (xs.length ≤ j + pad ∧ loads (xs.take j) = .ok a)) :
    Comp ((Prog.readN xs.length).bind fun d => Prog.ofRes (loads d)) xs a pad := by
  constructor
  · intro rest
    rw [run_bind_ok (readN_full xs rest), run_ofRes, hfull]
  · intro k hk
    have hl : (xs.take k).length ≤ xs.length := by simp [List.length_take]; omega
    have hr : (Prog.readN xs.length).run (xs.take k) = .ok (xs.take k, []) := by
      rw [Prog.readN, run_read_short _ _ _ hl]; rfl
    rw [run_bind_ok hr, run_ofRes]
    rcases hcut k hk with ⟨e, he⟩ | ⟨hle, hok⟩
    · left; exact ⟨e, by rw [he]⟩
    · right; exact ⟨hle, by rw [hok]⟩

/-- **a section**: `Section.load(Section.dumps(data))` hands `loads` the data with its padding; a
    truncated section raises unless `loads` itself accepts the shortened data -/
theorem Comp.section (magic : Bytes) (nlb : Nat) (data : Bytes) (loads : Bytes → Res α) (a : α)
    (h0 : 0 < nlb) (hsize : data.length + 64 < 256 ^ nlb)
    (hfull : loads (data ++ spaces (sectionPad magic nlb data)) = .ok a)
    (hcut : ∀ j, j < data.length + sectionPad magic nlb data →
      (∃ e, loads ((data ++ spaces (sectionPad magic nlb data)).take j) = .err e) ∨
      (data.length ≤ j ∧ loads ((data ++ spaces (sectionPad magic nlb data)).take j) = .ok a)) :
    Comp (sectionLoadWith magic nlb loads) (sectionDumps magic nlb data) a (sectionPad magic nlb data) := by
  have hp : sectionPad magic nlb data < 64 := padLen_lt _
  rw [sectionDumps_eq, sectionLoadWith]
  refine Comp.bind_strict (Comp.expect magic) ?_
  refine Comp.bind_strict (Comp.readLen nlb _ (by omega) h0) ?_
  have hl : (data ++ spaces (sectionPad magic nlb data)).length = data.length + sectionPad magic nlb data := by
    simp [spaces_length]
  rw [← hl]
  refine Comp.readLoads _ loads a _ hfull ?_
  intro j hj
  rw [hl] at hj
  rcases hcut j hj with he | ⟨hle, hok⟩
  · exact .inl he
  · exact .inr ⟨by rw [hl]; omega, hok⟩

/-- only the round-trip half (what a section in the middle of a file needs) -/
theorem sectionLoadWith_full (magic : Bytes) (nlb : Nat) (data : Bytes) (loads : Bytes → Res α) (a : α)
    (h0 : 0 < nlb) (hsize : data.length + 64 < 256 ^ nlb)
    (hfull : loads (data ++ spaces (sectionPad magic nlb data)) = .ok a) (rest : Bytes) :
    (sectionLoadWith magic nlb loads).run (sectionDumps magic nlb data ++ rest) = .ok (a, rest) := by
  have hp : sectionPad magic nlb data < 64 := padLen_lt _
  rw [sectionDumps_eq, sectionLoadWith]
  simp only [List.append_assoc]
  rw [run_bind_ok (expect_full _ _), run_bind_ok (readLen_full nlb _ _ (by omega) h0)]
  have hl : (data ++ spaces (sectionPad magic nlb data)).length = data.length + sectionPad magic nlb data := by
    simp [spaces_length]
  rw [← List.append_assoc data, run_bind_ok (readN_full' _ _ hl), run_ofRes, hfull]

theorem EofFails.expect (m : Bytes) (h : m ≠ []) : EofFails (Prog.expect m) := by
  refine ⟨.value, ?_⟩
  have : ¬ ([] = m) := fun e => h e.symm
  simp [Prog.expect, run, this]

theorem EofFails.section (magic : Bytes) (nlb : Nat) (loads : Bytes → Res α) (h : magic ≠ []) :
    EofFails (sectionLoadWith magic nlb loads) := EofFails.bind _ (EofFails.expect magic h)

theorem NoUB.expect (m : Bytes) : NoUB (Prog.expect m) := by
  intro s h; simp only [Prog.expect, run] at h; split at h <;> simp [run] at h

theorem NoUB.readN (n : Nat) : NoUB (Prog.readN n) := by
  intro s h; simp [Prog.readN, run] at h

theorem NoUB.readExact (n : Nat) (e : FErr) : NoUB (Prog.readExact n e) := by
  intro s h; simp only [Prog.readExact, run] at h; split at h <;> simp [run] at h

theorem NoUB.readLen (n : Nat) : NoUB (Prog.readLen n) := by
  intro s h; simp only [Prog.readLen, run] at h
  split at h
  · simp [run] at h
  · split at h <;> simp [run] at h

theorem NoUB.section (magic : Bytes) (nlb : Nat) (loads : Bytes → Res α) (h : ∀ d, loads d ≠ .ub) :
    NoUB (sectionLoadWith magic nlb loads) :=
  NoUB.bind (NoUB.expect _) fun _ => NoUB.bind (NoUB.readLen _) fun _ => NoUB.bind (NoUB.readN _) fun d => NoUB.ofRes (h d)

theorem NoUB.header (pre : Bytes) (parse : Bytes → Option H) : NoUB (readHeader pre parse) := by
  refine NoUB.bind (NoUB.expect _) fun _ => NoUB.bind (NoUB.readN _) fun v => NoUB.bind (NoUB.readExact _ _) fun lb =>
    NoUB.bind (NoUB.readN _) fun js => NoUB.ofRes ?_
  unfold headerValue
  split
  · simp
  · split <;> simp

end FileFmt
