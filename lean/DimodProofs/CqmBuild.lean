import DimodProofs.CqmSorted

/-! `add_constraint_from_model` / `set_objective`: the expression built by the *copy* path
    (`add_linear` per variable, `add_quadratic` per term, `add_offset`) is, field by field, the one the *move*
    path installs (the model's own base object + `relabel_variables(mapping)`) — property C05,
    "constraints from models, copied or moved". -/

namespace CqmP
open Expr Cqm

theorem modifyAt_append_last {α} (l : List α) (a : α) (f : α → α) : Bqm.modifyAt (l ++ [a]) l.length f = l ++ [f a] := by
  induction l with
  | nil => rfl
  | cons x t ih => simp [Bqm.modifyAt, ih]

/-- the state of the copy path after the first `k` variables: exactly the first `k` columns -/
structure CopyPrefix (gs : List Nat) (lin : List Rat) (k : Nat) (e : Expr) : Prop where
  vars : e.vars = gs.take k
  lin : e.qb.lin = lin.take k
  adj : e.qb.adj = List.replicate k []
  off : e.qb.off = 0
  idx : IdxInv e.vars e.idx

theorem copyPrefix_step {gs : List Nat} (hnd : gs.Nodup) {lin : List Rat} (hlen : lin.length = gs.length) {k : Nat} (hk : k < gs.length)
    {e : Expr} (h : CopyPrefix gs lin k e) :
    CopyPrefix gs lin (k + 1) (e.addLinear (gs.getD k 0) (lin.getD k 0)) := by
  have hg : gs[k]? = some (gs.getD k 0) := by
    rw [List.getD_eq_getElem?_getD, List.getElem?_eq_getElem hk]; rfl
  -- the variable is new
  have hnone : e.idx.get? (gs.getD k 0) = none := by
    cases hi : e.idx.get? (gs.getD k 0) with
    | none => rfl
    | some i =>
      exfalso
      have := (h.idx _ i).mp hi
      rw [h.vars, List.getElem?_take] at this
      split_ifs at this with hik
      have := idx_unique_of_nodup hnd this hg
      omega
  have hwf : ExprWF e := by
    refine ⟨?_, h.idx, by rw [h.lin, h.vars]; simp [hlen], by rw [h.adj, h.vars]; simp; omega, ?_⟩
    · rw [h.vars]; exact List.Nodup.sublist (List.take_sublist _ _) hnd
    · intro nb hnb; rw [h.adj] at hnb; have := List.eq_of_mem_replicate hnb; subst this; intro p hp; cases hp
  have hvl : e.vars.length = k := by rw [h.vars]; simp; omega
  unfold Expr.addLinear
  rw [enforce_of_none hnone]
  refine ⟨?_, ?_, ?_, ?_, ?_⟩
  · show e.vars ++ [gs.getD k 0] = gs.take (k + 1)
    rw [h.vars, List.take_add_one, hg]; rfl
  · show Bqm.modifyAt (e.qb.lin ++ [0]) e.vars.length (· + lin.getD k 0) = lin.take (k + 1)
    have hkl : k < lin.length := by omega
    have hl : e.qb.lin.length = e.vars.length := by rw [h.lin, hvl]; simp; omega
    rw [← hl, modifyAt_append_last, h.lin, List.take_add_one, List.getElem?_eq_getElem hkl]
    simp [List.getD_eq_getElem?_getD, List.getElem?_eq_getElem hkl]
  · show e.qb.adj ++ [[]] = List.replicate (k + 1) []
    rw [h.adj, List.replicate_succ']
  · exact h.off
  · have := (enforce_wf hwf (gs.getD k 0)).idx
    rw [enforce_of_none hnone] at this
    exact this

theorem copyPrefix_all {gs : List Nat} (hnd : gs.Nodup) {lin : List Rat} (hlen : lin.length = gs.length) :
    ∀ k, k ≤ gs.length →
      CopyPrefix gs lin k (((gs.zip lin).take k).foldl (fun e p => e.addLinear p.1 p.2) ({} : Expr)) := by
  intro k
  induction k with
  | zero => intro _; exact ⟨rfl, rfl, rfl, rfl, by intro g i; simp [AMap.get?]⟩
  | succ k ih =>
    intro hk
    have hkz : k < (gs.zip lin).length := by simp [hlen]; omega
    rw [List.take_add_one, List.getElem?_eq_getElem hkz, List.foldl_append]
    have hz : (gs.zip lin)[k] = (gs.getD k 0, lin.getD k 0) := by
      rw [List.getElem_zip]
      simp [List.getD_eq_getElem?_getD, List.getElem?_eq_getElem (show k < gs.length by omega),
        List.getElem?_eq_getElem (show k < lin.length by omega)]
    simp only [Option.toList_some, List.foldl_cons, List.foldl_nil, hz]
    exact copyPrefix_step hnd hlen (by omega) (ih (by omega))

/-- one term of the quadratic loop on an expression whose private order is `gs` does what the model's own
    `add_quadratic` did on local indices -/
theorem addQuadratic_on_full {e : Expr} {gs : List Nat} (hvars : e.vars = gs) (hidx : IdxInv e.vars e.idx) (vt : List VT4)
    {i j : Nat} (hi : i < gs.length) (hj : j < gs.length) (b : Rat) :
    e.addQuadratic vt (gs.getD i 0) (gs.getD j 0) b
      = { e with qb := e.qb.addQuadratic (vt.getD (gs.getD i 0) .binary) i j b } := by
  have hgi : e.idx.get? (gs.getD i 0) = some i := by
    apply (hidx _ _).mpr; rw [hvars, List.getD_eq_getElem?_getD, List.getElem?_eq_getElem hi]; rfl
  have hgj : e.idx.get? (gs.getD j 0) = some j := by
    apply (hidx _ _).mpr; rw [hvars, List.getD_eq_getElem?_getD, List.getElem?_eq_getElem hj]; rfl
  unfold Expr.addQuadratic
  rw [enforce_of_some hgj]
  simp only []
  rw [enforce_of_some hgi]

/-- no self-loop on a BINARY / SPIN variable (a QM / BQM cannot hold one) -/
def NoBinarySelfLoops (vt : List VT4) (gs : List Nat) (mi : ModelIn) : Prop :=
  ∀ t ∈ mi.quad, t.1 = t.2.1 → vt.getD (gs.getD t.1 0) .binary ≠ .binary ∧ vt.getD (gs.getD t.1 0) .binary ≠ .spin

/-- **copied = moved**: the copy path builds exactly the variables, base model and (extensionally) index map
    that the move path installs. -/
theorem buildCopy_eq_move (vt : List VT4) {gs : List Nat} (hnd : gs.Nodup) {mi : ModelIn} (hmi : ModelInOK mi)
    (hlen : gs.length = mi.vars.length) (hself : NoBinarySelfLoops vt gs mi) :
    (buildCopy vt gs mi).vars = (buildMove gs mi).vars
    ∧ (buildCopy vt gs mi).qb = (buildMove gs mi).qb
    ∧ (∀ g, (buildCopy vt gs mi).idx.get? g = (buildMove gs mi).idx.get? g) := by
  have hll : mi.lin.length = gs.length := by rw [hmi.lin_len, hlen]
  -- after the linear loop
  have hP := copyPrefix_all hnd hll gs.length (Nat.le_refl _)
  have htake : (gs.zip mi.lin).take gs.length = gs.zip mi.lin := by
    apply List.take_of_length_le; simp [hll]
  rw [htake] at hP
  generalize hE : (gs.zip mi.lin).foldl (fun e p => e.addLinear p.1 p.2) ({} : Expr) = E at hP
  have hv : E.vars = gs := by rw [hP.vars]; exact List.take_length
  -- the quadratic loop keeps `vars`, `idx` and mirrors the model's own loop on `qb`
  have loop : ∀ (l : List (Nat × Nat × Rat)), (∀ t ∈ l, t.1 < gs.length ∧ t.2.1 < gs.length) →
      (∀ t ∈ l, t.1 = t.2.1 → vt.getD (gs.getD t.1 0) .binary ≠ .binary ∧ vt.getD (gs.getD t.1 0) .binary ≠ .spin) →
      ∀ (e : Expr), e.vars = gs → IdxInv e.vars e.idx →
        (l.foldl (fun e t => e.addQuadratic vt (gs.getD t.1 0) (gs.getD t.2.1 0) t.2.2) e).vars = gs
        ∧ (l.foldl (fun e t => e.addQuadratic vt (gs.getD t.1 0) (gs.getD t.2.1 0) t.2.2) e).idx = e.idx
        ∧ (l.foldl (fun e t => e.addQuadratic vt (gs.getD t.1 0) (gs.getD t.2.1 0) t.2.2) e).qb
            = l.foldl (fun q t => if t.1 = t.2.1 then q.asym t.1 t.1 t.2.2 false
                else (q.asym t.1 t.2.1 t.2.2 false).asym t.2.1 t.1 t.2.2 false) e.qb := by
    intro l
    induction l with
    | nil => intro _ _ e hv _; exact ⟨hv, rfl, rfl⟩
    | cons t ts ih =>
      intro hlt hsl e hv hidx
      rw [List.foldl_cons, List.foldl_cons]
      have ht := hlt t List.mem_cons_self
      rw [addQuadratic_on_full hv hidx vt ht.1 ht.2]
      have := ih (fun q hq => hlt q (List.mem_cons_of_mem _ hq)) (fun q hq => hsl q (List.mem_cons_of_mem _ hq))
        { e with qb := e.qb.addQuadratic (vt.getD (gs.getD t.1 0) .binary) t.1 t.2.1 t.2.2 } hv hidx
      refine ⟨this.1, this.2.1, ?_⟩
      rw [this.2.2]
      congr 1
      unfold QB.addQuadratic
      by_cases hd : t.1 = t.2.1
      · rw [if_pos hd, if_pos hd]
        have := hsl t List.mem_cons_self hd
        cases hvt : vt.getD (gs.getD t.1 0) .binary with
        | binary => exact absurd hvt this.1
        | spin => exact absurd hvt this.2
        | integer => rfl
        | real => rfl
      · rw [if_neg hd, if_neg hd]
  have hq := loop mi.quad (by rw [hlen]; exact hmi.quad_lt) hself E hv hP.idx
  unfold Cqm.buildCopy Cqm.buildMove Expr.relabel
  rw [hE]
  refine ⟨hq.1, ?_, ?_⟩
  · show (Expr.addOffset _ mi.off).qb = mi.toQB
    unfold Expr.addOffset Cqm.ModelIn.toQB
    simp only []
    rw [hq.2.2]
    -- the two folds start from the same base model except for the offset, which no step touches
    have hbase : E.qb = { lin := mi.lin, adj := mi.lin.map fun _ => [], off := 0 } := by
      have h1 : E.qb.lin = mi.lin := by rw [hP.lin]; apply List.take_of_length_le; omega
      have h2 : E.qb.adj = mi.lin.map fun _ => [] := by
        rw [hP.adj]
        apply List.ext_getElem
        · simp [hll]
        · intro n h1 h2; simp
      cases hEq : E.qb with
      | mk l a o =>
        rw [hEq] at h1 h2
        have h3 : o = 0 := by have := hP.off; rw [hEq] at this; exact this
        simp only [] at h1 h2
        subst h1 h2 h3; rfl
    rw [hbase]
    have offfold : ∀ (l : List (Nat × Nat × Rat)) (q : QB) (o : Rat),
        (let r := l.foldl (fun q t => if t.1 = t.2.1 then q.asym t.1 t.1 t.2.2 false
            else (q.asym t.1 t.2.1 t.2.2 false).asym t.2.1 t.1 t.2.2 false) q
         ({ lin := r.lin, adj := r.adj, off := r.off + o } : QB))
        = l.foldl (fun q t => if t.1 = t.2.1 then q.asym t.1 t.1 t.2.2 false
            else (q.asym t.1 t.2.1 t.2.2 false).asym t.2.1 t.1 t.2.2 false) { q with off := q.off + o } := by
      intro l
      induction l with
      | nil => intro q o; rfl
      | cons t ts ih =>
        intro q o
        simp only [List.foldl_cons]
        rw [ih]
        congr 1
        split_ifs <;> rfl
    have := offfold mi.quad { lin := mi.lin, adj := mi.lin.map fun _ => [], off := 0 } mi.off
    simp only [] at this
    rw [this]
    congr 2
    simp
  · intro g
    show (Expr.addOffset _ mi.off).idx.get? g = (rebuildIdx gs).get? g
    have h1 : (Expr.addOffset (mi.quad.foldl (fun e t => e.addQuadratic vt (gs.getD t.1 0) (gs.getD t.2.1 0) t.2.2) E) mi.off).idx
        = E.idx := hq.2.1
    rw [h1]
    have hinvE : IdxInv gs E.idx := by rw [← hv]; exact hP.idx
    have hinvM : IdxInv gs (rebuildIdx gs) := idxInv_rebuildIdx hnd
    cases hg : E.idx.get? g with
    | some i => exact ((hinvM g i).mpr ((hinvE g i).mp hg)).symm
    | none =>
      cases hm : (rebuildIdx gs).get? g with
      | none => rfl
      | some i =>
        have := (hinvE g i).mpr ((hinvM g i).mp hm)
        rw [hg] at this; cases this


theorem toQB_lin_off (mi : ModelIn) : mi.toQB.lin = mi.lin ∧ mi.toQB.off = mi.off := by
  unfold Cqm.ModelIn.toQB
  have : ∀ (l : List (Nat × Nat × Rat)) (q : QB),
      (l.foldl (fun q t => if t.1 = t.2.1 then q.asym t.1 t.1 t.2.2 false
        else (q.asym t.1 t.2.1 t.2.2 false).asym t.2.1 t.1 t.2.2 false) q).lin = q.lin
      ∧ (l.foldl (fun q t => if t.1 = t.2.1 then q.asym t.1 t.1 t.2.2 false
        else (q.asym t.1 t.2.1 t.2.2 false).asym t.2.1 t.1 t.2.2 false) q).off = q.off := by
    intro l
    induction l with
    | nil => intro q; exact ⟨rfl, rfl⟩
    | cons t ts ih =>
      intro q
      rw [List.foldl_cons]
      have := ih (if t.1 = t.2.1 then q.asym t.1 t.1 t.2.2 false else (q.asym t.1 t.2.1 t.2.2 false).asym t.2.1 t.1 t.2.2 false)
      refine ⟨this.1.trans ?_, this.2.trans ?_⟩ <;> (split_ifs <;> rfl)
  exact this mi.quad _

/-- the expression installed for a model carries the model's variables (as mapped), linear biases and offset -/
theorem buildMove_terms {gs : List Nat} (hnd : gs.Nodup) (mi : ModelIn) {i : Nat} (hi : i < gs.length) :
    (buildMove gs mi).vars = gs ∧ (buildMove gs mi).qb.off = mi.off
    ∧ (buildMove gs mi).linear (gs.getD i 0) = mi.lin.getD i 0 := by
  refine ⟨rfl, (toQB_lin_off mi).2, ?_⟩
  have hidx : (buildMove gs mi).idx.get? (gs.getD i 0) = some i := by
    apply (idxInv_rebuildIdx hnd _ _).mpr
    rw [List.getD_eq_getElem?_getD, List.getElem?_eq_getElem hi]; rfl
  rw [linear_of_idx hidx]
  show mi.toQB.lin.getD i 0 = _
  rw [(toQB_lin_off mi).1]

end CqmP
