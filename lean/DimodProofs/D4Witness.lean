import DimodModel.Cqm

/-! D4 on the mirrored model: objective 3·i² + 2·i + 1 over one INTEGER variable `i`;
    fixing i := 2 in place must leave the constant 3·4 + 2·2 + 1 = 17. -/

def cqm0 : Cqm :=
  ({} : Cqm).addVariable .integer (.int 7) 0 5 |>.1

def mi : Cqm.ModelIn :=
  { vars := [.int 7], info := [(.integer, 0, 5)], lin := [2], quad := [(0, 0, 3)], off := 1 }

def fixedOffset : Option Rat := do
  let m ← cqm0.setObjective mi
  let m ← m.fixVariable (.int 7) 2
  pure m.obj.qb.off

/-- what the code (and therefore the model) computes today -/
example : fixedOffset = some 5 := by decide +kernel
/-- hence the property statement is refuted on the model by a concrete witness -/
theorem fix_inplace_wrong_on_selfloop : fixedOffset ≠ some 17 := by decide +kernel

#print axioms fix_inplace_wrong_on_selfloop
