import DimodModel.Fix

/-! D4 on the mirrored model (`CqmC.fixVariableOld` = the in-place path with `substitute_variable` as it was
    before the repair): objective 3·i² + 2·i + 1 over one INTEGER variable `i`; fixing i := 2 in place must
    leave the constant 3·4 + 2·2 + 1 = 17.  The pre-repair code computes 5; the repaired code 17. -/

namespace D4Witness
open En

def obj : Expr Rat := { vars := [0], qb := { lin := [2], adj := some [[(0, 3)]], off := 1 } }

def cqm0 : CqmC Rat := { obj := obj, cons := [], info := [{ vt := .integer, lb := 0, ub := 5 }] }

/-- what the code computed before the repair -/
theorem fix_inplace_old_value : (cqm0.fixVariableOld 0 2).obj.qb.off = 5 := by decide +kernel

/-- hence the property statement is refuted on the pre-repair model by a concrete witness -/
theorem fix_inplace_wrong_on_selfloop : (cqm0.fixVariableOld 0 2).obj.qb.off ≠ 17 := by decide +kernel

/-- the copying path on the same input -/
theorem fix_copy_value : (cqm0.fixVariables [(0, 2)]).obj.qb.off = 17 := by decide +kernel

/-- after the repair the in-place path agrees -/
theorem fix_inplace_new_value : (cqm0.fixVariable 0 2).obj.qb.off = 17 := by decide +kernel

end D4Witness
