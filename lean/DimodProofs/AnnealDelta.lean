import DimodProofs.Anneal

/-! C07: the energy difference the simulated-annealing model uses in its acceptance test
    (`energy_diff_h[v] + energy_diff_J[v]`) is the true change of `ising_energy` when the spin of `v` is flipped. -/

namespace Enum

/-- `ising_energy(spins, h, J)` -/
def isingE (h : List (Label × Rat)) (J : List (Label × Label × Rat)) (s : Label → Rat) : Rat := linE s h + quadE s J

/-- the assignment with the spin of `v` flipped -/
def flipSpin (s : Label → Rat) (v : Label) : Label → Rat := fun l => if l = v then - s l else s l

/-- `J` as `bqm.to_ising()` delivers it: no self-loops, every unordered pair at most once -/
def SimpleJ (J : List (Label × Label × Rat)) : Prop :=
  (∀ t ∈ J, t.1 ≠ t.2.1) ∧
  J.Pairwise (fun t t' => ¬ ((t.1 = t'.1 ∧ t.2.1 = t'.2.1) ∨ (t.1 = t'.2.1 ∧ t.2.1 = t'.1)))

/-! ### sums -/

theorem sumL_append (l₁ l₂ : List Rat) : sumL (l₁ ++ l₂) = sumL l₁ + sumL l₂ := by
  induction l₁ with
  | nil => simp [sumL]
  | cons a t ih =>
    simp only [List.cons_append, sumL, ih]
    ring

theorem sumL_map_congr {α : Type} (l : List α) (f g : α → Rat) (hfg : ∀ x ∈ l, f x = g x) :
    sumL (l.map f) = sumL (l.map g) := by
  induction l with
  | nil => rfl
  | cons a t ih =>
    simp only [List.map_cons, sumL]
    rw [hfg a (List.mem_cons_self ..), ih (fun x hx => hfg x (List.mem_cons_of_mem _ hx))]

theorem sumL_flatMap_map {α β : Type} (l : List α) (g : α → List β) (f : β → Rat) :
    sumL ((l.flatMap g).map f) = sumL (l.map fun t => sumL ((g t).map f)) := by
  induction l with
  | nil => rfl
  | cons a t ih =>
    simp only [List.flatMap_cons, List.map_append, sumL_append, List.map_cons, sumL, ih]

/-! ### `dedupL` on a duplicate-free list -/

theorem dedup_fold (l : List Label) : ∀ acc : List Label, (acc ++ l).Nodup →
    l.foldl (fun acc x => if acc.contains x then acc else acc ++ [x]) acc = acc ++ l := by
  induction l with
  | nil => intro acc _; simp
  | cons x t ih =>
    intro acc hn
    simp only [List.foldl_cons]
    have hx : x ∉ acc := by
      intro hm
      rw [List.nodup_append] at hn
      exact hn.2.2 x hm x (List.mem_cons_self ..) rfl
    have hc : acc.contains x = false := by simp [hx]
    rw [hc]
    simp only [Bool.false_eq_true, if_false]
    have h2 := ih (acc ++ [x]) (by simpa [List.append_assoc] using hn)
    rw [h2]
    simp [List.append_assoc]

theorem dedupL_of_nodup (l : List Label) (hn : l.Nodup) : dedupL l = l := by
  unfold dedupL
  have h := dedup_fold l [] (by simpa using hn)
  simpa using h

/-! ### the linear part -/

theorem flipSpin_self (s : Label → Rat) (v : Label) : flipSpin s v v = - s v := by simp [flipSpin]

theorem flipSpin_ne (s : Label → Rat) (v l : Label) (h : l ≠ v) : flipSpin s v l = s l := by simp [flipSpin, h]

theorem dictGet_cons (k : Label) (b : Rat) (t : List (Label × Rat)) (v : Label) :
    dictGet ((k, b) :: t) v = if k = v then b else dictGet t v := by
  unfold dictGet
  by_cases hk : k = v
  · simp [hk]
  · simp [hk]

theorem linE_flip_absent (s : Label → Rat) (v : Label) (t : List (Label × Rat)) (hv : v ∉ t.map (·.1)) :
    linE (flipSpin s v) t = linE s t := by
  induction t with
  | nil => rfl
  | cons p t ih =>
    obtain ⟨k, b⟩ := p
    simp only [List.map_cons, List.mem_cons, not_or] at hv
    simp only [linE]
    rw [flipSpin_ne s v k (fun h => hv.1 h.symm), ih hv.2]

/-- the linear part: for a dict `h` (keys without duplicates) the linear energy changes by `-2·s(v)·h[v]` -/
theorem delta_linear_part (s : Label → Rat) (v : Label) (h : List (Label × Rat)) (hh : (h.map (·.1)).Nodup) :
    linE (flipSpin s v) h - linE s h = -2 * s v * dictGet h v := by
  induction h with
  | nil => simp [linE, dictGet]
  | cons p t ih =>
    obtain ⟨k, b⟩ := p
    simp only [List.map_cons, List.nodup_cons] at hh
    rw [dictGet_cons]
    simp only [linE]
    by_cases hk : k = v
    · subst hk
      rw [if_pos rfl, flipSpin_self, linE_flip_absent s k t hh.1]
      ring
    · rw [if_neg hk, flipSpin_ne s v k hk]
      have := ih hh.2
      linarith

/-! ### the quadratic part -/

/-- what one interaction `(a, b, j)` contributes to `-ΔE/2` when `v` is flipped -/
def entryD (s : Label → Rat) (v : Label) (t : Label × Label × Rat) : Rat :=
  (if t.1 = v then t.2.2 * s v * s t.2.1 else 0) + (if t.2.1 = v then t.2.2 * s t.1 * s v else 0)

/-- one interaction without self-loop: the change of its term -/
theorem delta_entry (s : Label → Rat) (v a b : Label) (j : Rat) (hab : a ≠ b) :
    j * flipSpin s v a * flipSpin s v b - j * s a * s b =
      (if a = v then -2 * j * s v * s b else 0) + (if b = v then -2 * j * s a * s v else 0) := by
  by_cases h1 : a = v
  · subst h1
    have h2 : b ≠ a := fun h => hab h.symm
    rw [flipSpin_self, flipSpin_ne s a b h2, if_pos rfl, if_neg h2]
    ring
  · by_cases h2 : b = v
    · subst h2
      rw [flipSpin_self, flipSpin_ne s b a h1, if_neg h1, if_pos rfl]
      ring
    · rw [flipSpin_ne s v a h1, flipSpin_ne s v b h2, if_neg h1, if_neg h2]
      ring

theorem delta_quad_part (s : Label → Rat) (v : Label) (J : List (Label × Label × Rat)) (hs : ∀ t ∈ J, t.1 ≠ t.2.1) :
    quadE (flipSpin s v) J - quadE s J = -2 * sumL (J.map (entryD s v)) := by
  induction J with
  | nil => simp [quadE, sumL]
  | cons t J ih =>
    obtain ⟨a, b, j⟩ := t
    have hab : a ≠ b := hs (a, b, j) (List.mem_cons_self ..)
    have ih' := ih (fun t ht => hs t (List.mem_cons_of_mem _ ht))
    have he := delta_entry s v a b j hab
    simp only [quadE, List.map_cons, sumL, entryD]
    by_cases h1 : a = v <;> by_cases h2 : b = v <;> simp only [h1, h2, if_true, if_false] at he ⊢ <;> linarith

/-! ### the lookups `J[(u, w)]` under `SimpleJ` -/

theorem jGet_cons (x : Label × Label × Rat) (J : List (Label × Label × Rat)) (u w : Label) :
    jGet (x :: J) u w = if x.1 = u ∧ x.2.1 = w then x.2.2 else jGet J u w := by
  unfold jGet
  by_cases hk : x.1 = u ∧ x.2.1 = w
  · simp [hk]
  · rw [if_neg hk, List.find?_cons_of_neg (by simpa using hk)]

theorem jGet_absent (J : List (Label × Label × Rat)) (u w : Label) (hno : ∀ t ∈ J, ¬ (t.1 = u ∧ t.2.1 = w)) :
    jGet J u w = 0 := by
  induction J with
  | nil => rfl
  | cons x J ih =>
    rw [jGet_cons, if_neg (hno x (List.mem_cons_self ..))]
    exact ih (fun t ht => hno t (List.mem_cons_of_mem _ ht))

theorem jGet_self (J : List (Label × Label × Rat))
    (hp : J.Pairwise (fun t t' => ¬ ((t.1 = t'.1 ∧ t.2.1 = t'.2.1) ∨ (t.1 = t'.2.1 ∧ t.2.1 = t'.1)))) :
    ∀ t ∈ J, jGet J t.1 t.2.1 = t.2.2 := by
  induction J with
  | nil => intro t ht; cases ht
  | cons x J ih =>
    rw [List.pairwise_cons] at hp
    obtain ⟨hx, hp'⟩ := hp
    intro t ht
    rw [jGet_cons]
    rcases List.mem_cons.mp ht with rfl | ht'
    · rw [if_pos ⟨rfl, rfl⟩]
    · have hne : ¬ (x.1 = t.1 ∧ x.2.1 = t.2.1) := fun h => hx t ht' (Or.inl h)
      rw [if_neg hne]
      exact ih hp' t ht'

theorem no_reverse (J : List (Label × Label × Rat)) (hs : ∀ t ∈ J, t.1 ≠ t.2.1)
    (hp : J.Pairwise (fun t t' => ¬ ((t.1 = t'.1 ∧ t.2.1 = t'.2.1) ∨ (t.1 = t'.2.1 ∧ t.2.1 = t'.1)))) :
    ∀ t ∈ J, ∀ t' ∈ J, ¬ (t'.1 = t.2.1 ∧ t'.2.1 = t.1) := by
  induction J with
  | nil => intro t ht; cases ht
  | cons x J ih =>
    rw [List.pairwise_cons] at hp
    obtain ⟨hx, hp'⟩ := hp
    have ih' := ih (fun t ht => hs t (List.mem_cons_of_mem _ ht)) hp'
    intro t ht t' ht' hr
    rcases List.mem_cons.mp ht with e | htJ
    · rcases List.mem_cons.mp ht' with e' | htJ'
      · rw [e, e'] at hr
        exact hs x (List.mem_cons_self ..) hr.1
      · rw [e] at hr
        exact hx t' htJ' (Or.inr ⟨hr.2.symm, hr.1.symm⟩)
    · rcases List.mem_cons.mp ht' with e' | htJ'
      · rw [e'] at hr
        exact hx t htJ (Or.inr hr)
      · exact ih' t htJ t' htJ' hr

theorem jGet_reverse (J : List (Label × Label × Rat)) (hJ : SimpleJ J) :
    ∀ t ∈ J, jGet J t.2.1 t.1 = 0 := by
  intro t ht
  exact jGet_absent J t.2.1 t.1 (fun t' ht' => no_reverse J hJ.1 hJ.2 t ht t' ht')

/-! ### the neighbours of `v` -/

/-- the other ends of the interactions `v` takes part in, in `J`'s order, before deduplication -/
def partners (J : List (Label × Label × Rat)) (v : Label) : List Label :=
  J.flatMap fun t => (if t.1 = v then [t.2.1] else []) ++ (if t.2.1 = v then [t.1] else [])

theorem nbrs_eq (J : List (Label × Label × Rat)) (v : Label) : nbrs J v = dedupL (partners J v) := rfl

theorem mem_entry_partners (x : Label × Label × Rat) (v w : Label) :
    w ∈ (if x.1 = v then [x.2.1] else []) ++ (if x.2.1 = v then [x.1] else []) ↔
      (x.1 = v ∧ w = x.2.1) ∨ (x.2.1 = v ∧ w = x.1) := by
  by_cases h1 : x.1 = v <;> by_cases h2 : x.2.1 = v <;> simp [h1, h2]

theorem mem_partners (J : List (Label × Label × Rat)) (v w : Label) :
    w ∈ partners J v ↔ ∃ t ∈ J, (t.1 = v ∧ w = t.2.1) ∨ (t.2.1 = v ∧ w = t.1) := by
  unfold partners
  rw [List.mem_flatMap]
  constructor
  · rintro ⟨t, ht, hw⟩
    exact ⟨t, ht, (mem_entry_partners t v w).mp hw⟩
  · rintro ⟨t, ht, hw⟩
    exact ⟨t, ht, (mem_entry_partners t v w).mpr hw⟩

theorem partners_nodup (J : List (Label × Label × Rat)) (v : Label) (hs : ∀ t ∈ J, t.1 ≠ t.2.1)
    (hp : J.Pairwise (fun t t' => ¬ ((t.1 = t'.1 ∧ t.2.1 = t'.2.1) ∨ (t.1 = t'.2.1 ∧ t.2.1 = t'.1)))) :
    (partners J v).Nodup := by
  induction J with
  | nil => simp [partners]
  | cons x J ih =>
    rw [List.pairwise_cons] at hp
    obtain ⟨hx, hp'⟩ := hp
    have hxs := hs x (List.mem_cons_self ..)
    have ih' := ih (fun t ht => hs t (List.mem_cons_of_mem _ ht)) hp'
    have hcons : partners (x :: J) v =
        ((if x.1 = v then [x.2.1] else []) ++ (if x.2.1 = v then [x.1] else [])) ++ partners J v := by
      simp only [partners, List.flatMap_cons]
    rw [hcons, List.nodup_append]
    refine ⟨?_, ih', ?_⟩
    · by_cases h1 : x.1 = v
      · have h2 : ¬ x.2.1 = v := fun h2 => hxs (h1.trans h2.symm)
        simp [h1, h2]
      · by_cases h2 : x.2.1 = v <;> simp [h1, h2]
    · intro a ha b hb hab
      subst hab
      obtain ⟨t, ht, hw⟩ := (mem_partners J v a).mp hb
      have hR := hx t ht
      rcases (mem_entry_partners x v a).mp ha with ⟨hx1, hxa⟩ | ⟨hx2, hxa⟩
      · rcases hw with ⟨t1, ta⟩ | ⟨t2, ta⟩
        · exact hR (Or.inl ⟨hx1.trans t1.symm, hxa.symm.trans ta⟩)
        · exact hR (Or.inr ⟨hx1.trans t2.symm, hxa.symm.trans ta⟩)
      · rcases hw with ⟨t1, ta⟩ | ⟨t2, ta⟩
        · exact hR (Or.inr ⟨hxa.symm.trans ta, hx2.trans t1.symm⟩)
        · exact hR (Or.inl ⟨hxa.symm.trans ta, hx2.trans t2.symm⟩)

/-- under `SimpleJ`, `adj[v]` is the list of partners itself: nothing is deduplicated away -/
theorem nbrs_simple (J : List (Label × Label × Rat)) (v : Label) (hJ : SimpleJ J) : nbrs J v = partners J v := by
  rw [nbrs_eq]
  exact dedupL_of_nodup _ (partners_nodup J v hJ.1 hJ.2)

/-- `energy_diff_J[v]` as coded is `-2` times the sum of the interaction contributions -/
theorem diffJ_eq (J : List (Label × Label × Rat)) (spins : List (Label × Rat)) (v : Label) (hJ : SimpleJ J) :
    diffJ J spins v = -2 * sumL (J.map (entryD (dictGet spins) v)) := by
  unfold diffJ
  rw [nbrs_simple J v hJ]
  unfold partners
  rw [sumL_flatMap_map]
  congr 1
  apply sumL_map_congr
  intro t ht
  have g1 := jGet_self J hJ.2 t ht
  have g2 := jGet_reverse J hJ t ht
  have hne := hJ.1 t ht
  by_cases h1 : t.1 = v
  · have h2 : ¬ t.2.1 = v := fun h2 => hne (h1.trans h2.symm)
    rw [h1] at g1 g2
    simp only [entryD, h1, h2, if_true, if_false, List.append_nil, List.map_cons, List.map_nil, sumL, g1, g2]
    ring
  · by_cases h2 : t.2.1 = v
    · rw [h2] at g1 g2
      simp only [entryD, h1, h2, if_true, if_false, List.nil_append, List.map_cons, List.map_nil, sumL, g1, g2]
      ring
    · simp only [entryD, h1, h2, if_false, List.append_nil, List.map_nil, sumL]
      ring

/-- **the bookkeeping equals recomputation**: `energy_diff_h[v] + energy_diff_J[v]` as coded is the change of
    `ising_energy` when the spin of `v` is flipped and every other spin is kept -/
theorem delta_is_energy_change (h : List (Label × Rat)) (J : List (Label × Label × Rat)) (spins : List (Label × Rat)) (v : Label)
    (hh : (h.map (·.1)).Nodup) (hJ : SimpleJ J) :
    diffH h spins v + diffJ J spins v = isingE h J (flipSpin (dictGet spins) v) - isingE h J (dictGet spins) := by
  have e1 := delta_linear_part (dictGet spins) v h hh
  have e2 := delta_quad_part (dictGet spins) v J hJ.1
  rw [diffJ_eq J spins v hJ]
  unfold diffH isingE
  linarith

end Enum
