import DimodProofs.PyBqm

/-! `remove_variable`, `add_variable()`, `resize` of the dict back-end, and the agreement of the two back-ends on the
    data-level primitives.  Core Lean only. -/

namespace PyB
open Bqm (LPoly)

/-! ### removing a variable -/

theorem dropFold (l : Label) (es : List (Label × Rat)) :
    ∀ (acc : PyB), (∀ e ∈ es, e.1 ≠ l → e.1 ∈ keys acc.adj) →
    keys (es.foldl (dropFrom l) acc).adj = keys acc.adj ∧
    (∀ c d, (es.foldl (dropFrom l) acc).get2 c d = if d = l ∧ c ≠ l ∧ c ∈ keys es then none else acc.get2 c d) ∧
    (es.foldl (dropFrom l) acc).off = acc.off ∧ (es.foldl (dropFrom l) acc).vt = acc.vt := by
  induction es with
  | nil => intro acc _; exact ⟨rfl, fun c d => by simp [keys], rfl, rfl⟩
  | cons e t ih =>
    intro acc hin
    simp only [List.foldl]
    have hk : ∀ c, c ∈ keys (e :: t) ↔ c = e.1 ∨ c ∈ keys t := by intro c; simp [keys]
    by_cases hel : e.1 = l
    · have e1 : dropFrom l acc e = acc := by unfold dropFrom; rw [if_pos hel]
      rw [e1]
      have r := ih acc (fun x hx => hin x (List.mem_cons_of_mem _ hx))
      refine ⟨r.1, ?_, r.2.2⟩
      intro c d
      rw [r.2.1 c d]
      simp only [hk]
      by_cases hc : c = e.1
      · have : ¬ c ≠ l := by rw [hc, hel]; simp
        simp [this]
      · simp [hc]
    · have e1 : dropFrom l acc e = acc.del2 e.1 l := by unfold dropFrom; rw [if_neg hel]
      rw [e1]
      have he : e.1 ∈ keys acc.adj := hin e (by simp) hel
      have hk1 := keys_del2 acc e.1 l he
      have r := ih (acc.del2 e.1 l) (fun x hx hxl => by rw [hk1]; exact hin x (List.mem_cons_of_mem _ hx) hxl)
      refine ⟨r.1.trans hk1, ?_, r.2.2.1, r.2.2.2⟩
      intro c d
      rw [r.2.1 c d, get2_del2]
      simp only [hk]
      have hle : ¬ l = e.1 := fun h => hel h.symm
      by_cases hd : d = l
      · by_cases hc : c = e.1
        · have hcl : c ≠ l := by rw [hc]; exact hel
          simp [hd, hc, hel]
        · by_cases hcl : c = l
          · simp [hd, hcl, hle]
          · simp [hd, hc, hcl]
      · by_cases hc : c = e.1
        · simp [hd, hc]
        · simp [hd, hc]

theorem removeKey_refines {p : PyB} (i : PInv p) (l : Label) (hl : l ∈ keys p.adj) :
    absP ((p.row l).foldl (dropFrom l) { p with adj := ddel p.adj l }) = (absP p).removeVariable l ∧
    PInv ((p.row l).foldl (dropFrom l) { p with adj := ddel p.adj l }) := by
  have hq2 : ∀ c d, ({ p with adj := ddel p.adj l } : PyB).get2 c d = if c = l then none else p.get2 c d := by
    intro c d
    unfold PyB.get2
    simp only []
    rw [dget_ddel]
    by_cases hc : c = l
    · simp [hc]
    · simp [hc]
  have hkq : keys ({ p with adj := ddel p.adj l } : PyB).adj = (keys p.adj).erase l := by
    show keys (ddel p.adj l) = _
    rw [keys_ddel, filter_ne_eq_erase _ _ i.nodup]
  have hrow : ∀ e ∈ p.row l, e.1 ≠ l → e.1 ∈ keys ({ p with adj := ddel p.adj l } : PyB).adj := by
    intro e he hne
    rw [hkq]
    have hs : (p.get2 l e.1).isSome := by
      rw [← row_get, dget_isSome_iff]; exact List.mem_map.mpr ⟨e, he, rfl⟩
    exact (List.mem_erase_of_ne hne).mpr (i.closed l e.1 hs)
  have f := dropFold l (p.row l) _ hrow
  -- the entries after the loop
  have hget : ∀ c d, ((p.row l).foldl (dropFrom l) { p with adj := ddel p.adj l }).get2 c d =
      if c = l ∨ d = l then none else p.get2 c d := by
    intro c d
    rw [f.2.1 c d, hq2]
    by_cases hc : c = l
    · simp [hc]
    · by_cases hd : d = l
      · simp only [hc, hd, false_or, if_true, true_and, ne_eq, not_false_eq_true, if_false]
        by_cases hm : c ∈ keys (p.row l)
        · simp [hm]
        · simp only [hm, if_false]
          have : p.get2 l c = none := by
            rw [← row_get]; exact (dget_none_iff _ _).mpr hm
          rw [i.symm c l, this]
      · simp [hc, hd]
  refine ⟨?_, ⟨?_, ?_, ?_⟩⟩
  · apply LPoly.ext'
    rotate_left 3
    · exact f.2.2.1
    · exact f.2.2.2
    · show keys _ = (keys p.adj).erase l
      rw [f.1, hkq]
    · intro x
      show (((p.row l).foldl (dropFrom l) { p with adj := ddel p.adj l }).get2 x x).getD 0 = if x = l then 0 else (p.get2 x x).getD 0
      rw [hget]
      by_cases hx : x = l
      · simp [hx]
      · simp [hx]
    · intro a b
      show (if a = b then none else ((p.row l).foldl (dropFrom l) { p with adj := ddel p.adj l }).get2 a b) =
        if a = l ∨ b = l then none else if a = b then none else p.get2 a b
      rw [hget]
      by_cases hab : a = b
      · simp [hab]
      · simp [hab]
  · rw [f.1, hkq]; exact i.nodup.erase l
  · intro a b hs
    rw [f.1, hkq]
    rw [hget] at hs
    by_cases hc : a = l ∨ b = l
    · rw [if_pos hc] at hs; cases hs
    · rw [if_neg hc] at hs
      exact (List.mem_erase_of_ne (fun e => hc (Or.inr e))).mpr (i.closed a b hs)
  · intro a b
    rw [hget, hget]
    by_cases hc : a = l ∨ b = l
    · have hc' : b = l ∨ a = l := hc.symm
      simp [hc, hc']
    · have hc' : ¬ (b = l ∨ a = l) := fun h => hc h.symm
      simp only [hc, hc', if_false]; exact i.symm a b

theorem removeVariable_some_refines {p : PyB} (i : PInv p) (v : Label) :
    absP (p.removeVariable (some v)).1 = (if v ∈ (absP p).vars then (absP p).removeVariable v else absP p) ∧
    ((p.removeVariable (some v)).2 = none ↔ v ∈ (absP p).vars) ∧ PInv (p.removeVariable (some v)).1 := by
  unfold PyB.removeVariable
  simp only []
  by_cases hv : v ∈ keys p.adj
  · have hh : p.has v = true := (has_iff p v).mpr hv
    simp only [hh, if_true]
    have r := removeKey_refines i v hv
    have hv' : v ∈ (absP p).vars := hv
    exact ⟨by rw [if_pos hv']; exact r.1, by simp [hv'], r.2⟩
  · have hh : p.has v = false := by
      cases h : p.has v with
      | true => exact absurd ((has_iff p v).mp h) hv
      | false => rfl
    simp only [hh, Bool.false_eq_true, if_false]
    have hv' : v ∉ (absP p).vars := hv
    exact ⟨by rw [if_neg hv'], by simp [hv'], i⟩

theorem removeVariable_none_refines {p : PyB} (i : PInv p) :
    absP (p.removeVariable none).1 = (if (absP p).vars = [] then absP p else (absP p).dropLast) ∧
    ((p.removeVariable none).2 = none ↔ ¬ (absP p).vars = []) ∧ PInv (p.removeVariable none).1 := by
  unfold PyB.removeVariable LPoly.dropLast
  simp only []
  show _ = (if keys p.adj = [] then _ else match (keys p.adj).getLast? with | some l => _ | none => _) ∧ (_ ↔ ¬ keys p.adj = []) ∧ _
  cases hl : (keys p.adj).getLast? with
  | none =>
    have : keys p.adj = [] := List.getLast?_eq_none_iff.mp hl
    simp only [this, if_true]
    exact ⟨(by first | rfl | trivial), by simp, i⟩
  | some l =>
    have hne : ¬ keys p.adj = [] := by intro e; rw [e] at hl; cases hl
    have hmem : l ∈ keys p.adj := List.mem_of_getLast? hl
    simp only [hne, if_false]
    have r := removeKey_refines i l hmem
    exact ⟨r.1, by simp, r.2⟩

/-! ### generated labels, resize -/

theorem autoLabel_absP (p : PyB) : p.autoLabel = (absP p).autoLabel := rfl

theorem addVariable_none_refines {p : PyB} (i : PInv p) (b : Rat) :
    absP (p.addVariable none b) = (absP p).addLinear (absP p).autoLabel b ∧ PInv (p.addVariable none b) := by
  unfold PyB.addVariable
  exact ⟨by rw [addLinear_refines]; rfl, i.addLinear _ _⟩

theorem autoLabel_fresh (q : LPoly) : q.autoLabel ∉ q.vars :=
  Bqm.autoLabel_fresh ({ vt := .spin, labels := q.vars, lin := [], adj := [], off := 0 } : Bqm)

theorem addVariable_none_zero {p : PyB} (i : PInv p) : absP (p.addVariable none 0) = (absP p).ensure (absP p).autoLabel := by
  rw [(addVariable_none_refines i 0).1]
  apply LPoly.ext' <;> try (first | rfl | (intro _ _; rfl))
  intro l
  show (if l = (absP p).autoLabel then (absP p).lin l + 0 else (absP p).lin l) = ((absP p).ensure _).lin l
  rw [Bqm.ensure_lin]
  split
  · exact Rat.add_zero _
  · rfl

theorem len_keys (p : PyB) : p.adj.length = (absP p).vars.length := by show _ = (keys p.adj).length; simp [keys]

theorem growTo_refines (k fuel : Nat) {p : PyB} (i : PInv p) :
    absP (PyB.growTo k fuel p) = LPoly.growTo k fuel (absP p) ∧ PInv (PyB.growTo k fuel p) := by
  induction fuel generalizing p with
  | zero => exact ⟨rfl, i⟩
  | succ f ih =>
    simp only [PyB.growTo, LPoly.growTo]
    rw [len_keys]
    split
    · have := ih (i.addLinear p.autoLabel 0)
      have e : p.addLinear p.autoLabel 0 = p.addVariable none 0 := rfl
      rw [e, addVariable_none_zero i] at this
      exact this
    · exact ⟨rfl, i⟩

theorem shrinkTo_refines (k fuel : Nat) {p : PyB} (i : PInv p) :
    absP (PyB.shrinkTo k fuel p) = LPoly.shrinkTo k fuel (absP p) ∧ PInv (PyB.shrinkTo k fuel p) := by
  induction fuel generalizing p with
  | zero => exact ⟨rfl, i⟩
  | succ f ih =>
    simp only [PyB.shrinkTo, LPoly.shrinkTo]
    rw [len_keys]
    split
    · rename_i hgt
      have r := removeVariable_none_refines i
      have hne : ¬ (absP p).vars = [] := by intro e; rw [e] at hgt; simp at hgt
      rw [if_neg hne] at r
      have := ih r.2.2
      rw [r.1] at this
      exact this
    · exact ⟨rfl, i⟩

theorem resize_refines {p : PyB} (i : PInv p) (k : Nat) :
    absP (p.resize k).1 = (absP p).resize k ∧ (p.resize k).2 = none ∧ PInv (p.resize k).1 := by
  unfold PyB.resize LPoly.resize
  have hk : ¬ ((k : Int) < 0) := by omega
  simp only [hk, if_false, Int.toNat_natCast]
  have g := growTo_refines k k i
  have s := shrinkTo_refines k p.adj.length g.2
  rw [g.1, len_keys] at s
  rw [len_keys]
  exact ⟨s.1, trivial, s.2⟩

/-! ### one primitive = the same algebraic step as on the array back-end -/

/-- the operations `pyBQM` implements itself and this model covers (not: `change_vartype`, `relabel_variables`) -/
def Prim : Bqm.Op → Prop
  | .malformed => True
  | .addLinear _ _ => True
  | .setLinear _ _ => True
  | .addQuadratic _ _ _ => True
  | .setQuadratic _ _ _ => True
  | .removeInteraction _ _ => True
  | .removeVariable _ => True
  | .addVariable _ _ => True
  | .resize _ => True
  | .setOffset _ => True
  | .clear => True
  | _ => False

theorem clear_refines (p : PyB) : absP p.clear = (absP p).clear ∧ PInv p.clear := by
  refine ⟨?_, ⟨List.nodup_nil, fun a b h => (by cases h), fun _ _ => rfl⟩⟩
  apply LPoly.ext' <;> try (first | rfl | (intro _; rfl))
  intro a b
  show (if a = b then none else none) = none
  split <;> rfl

theorem PInv.withOff {p : PyB} (i : PInv p) (x : Rat) : PInv { p with off := x } := ⟨i.nodup, i.closed, i.symm⟩

theorem step_refinesP {p : PyB} (i : PInv p) {op : Bqm.Op} (hp : Prim op) :
    ∃ r, p.step op = some r ∧ absP r.1 = ((absP p).stepD op).1 ∧
      (r.2 = none ↔ ((absP p).stepD op).2 = true) ∧ PInv r.1 := by
  cases op with
  | malformed => exact ⟨_, rfl, rfl, by simp [LPoly.stepD, LPoly.stepG, LPoly.stepF, LPoly.stepE, LPoly.step], i⟩
  | addLinear v b =>
    cases v with
    | none => exact ⟨_, rfl, rfl, by simp [LPoly.stepD, LPoly.stepG, LPoly.stepF, LPoly.stepE, LPoly.step], i⟩
    | some v => exact ⟨_, rfl, addLinear_refines p v b, by simp [LPoly.stepD, LPoly.stepG, LPoly.stepF, LPoly.stepE, LPoly.step], i.addLinear v b⟩
  | setLinear v b =>
    cases v with
    | none => exact ⟨_, rfl, rfl, by simp [LPoly.stepD, LPoly.stepG, LPoly.stepF, LPoly.stepE, LPoly.step], i⟩
    | some v => exact ⟨_, rfl, setLinear_refines p v b, by simp [LPoly.stepD, LPoly.stepG, LPoly.stepF, LPoly.stepE, LPoly.step], i.setLinear v b⟩
  | addQuadratic u v b =>
    cases u with
    | none => cases v <;> exact ⟨_, rfl, rfl, by simp [LPoly.stepD, LPoly.stepG, LPoly.stepF, LPoly.stepE, LPoly.step], i⟩
    | some u =>
      cases v with
      | none => exact ⟨_, rfl, rfl, by simp [LPoly.stepD, LPoly.stepG, LPoly.stepF, LPoly.stepE, LPoly.step], i⟩
      | some v =>
        refine ⟨_, rfl, ?_⟩
        show absP (p.addQuadratic u v b).1 = (if u = v then (absP p, false) else ((absP p).quadOp u v b false, true)).1 ∧
          ((p.addQuadratic u v b).2 = none ↔ (if u = v then (absP p, false) else ((absP p).quadOp u v b false, true)).2 = true) ∧ _
        by_cases huv : u = v
        · have e : p.addQuadratic u v b = (p, some .value) := by unfold PyB.addQuadratic; rw [if_pos huv]
          rw [e, if_pos huv]; exact ⟨rfl, by simp, i⟩
        · have r := addQuadratic_refines i u v b huv
          rw [if_neg huv]; exact ⟨r.1, by simp [r.2.1], r.2.2⟩
  | setQuadratic u v b =>
    cases u with
    | none => cases v <;> exact ⟨_, rfl, rfl, by simp [LPoly.stepD, LPoly.stepG, LPoly.stepF, LPoly.stepE, LPoly.step], i⟩
    | some u =>
      cases v with
      | none => exact ⟨_, rfl, rfl, by simp [LPoly.stepD, LPoly.stepG, LPoly.stepF, LPoly.stepE, LPoly.step], i⟩
      | some v =>
        refine ⟨_, rfl, ?_⟩
        show absP (p.setQuadratic u v b).1 = (if u = v then (absP p, false) else ((absP p).quadOp u v b true, true)).1 ∧
          ((p.setQuadratic u v b).2 = none ↔ (if u = v then (absP p, false) else ((absP p).quadOp u v b true, true)).2 = true) ∧ _
        by_cases huv : u = v
        · have e : p.setQuadratic u v b = (p, some .value) := by unfold PyB.setQuadratic; rw [if_pos huv]
          rw [e, if_pos huv]; exact ⟨rfl, by simp, i⟩
        · have r := setQuadratic_refines i u v b huv
          rw [if_neg huv]; exact ⟨r.1, by simp [r.2.1], r.2.2⟩
  | removeInteraction u v =>
    refine ⟨_, rfl, ?_⟩
    have r := removeInteraction_refines i u v
    show absP (p.removeInteraction u v).1 = (if ((absP p).quad u v).isSome then ((absP p).removeInteraction u v, true) else (absP p, false)).1 ∧
      ((p.removeInteraction u v).2 = none ↔ (if ((absP p).quad u v).isSome then ((absP p).removeInteraction u v, true) else (absP p, false)).2 = true) ∧ _
    by_cases hq : ((absP p).quad u v).isSome = true
    · rw [if_pos hq] at r ⊢; exact ⟨r.1, by simp [r.2.1, hq], r.2.2⟩
    · rw [if_neg hq] at r ⊢; exact ⟨r.1, by simp [r.2.1, hq], r.2.2⟩
  | removeVariable v =>
    cases v with
    | some v =>
      refine ⟨_, rfl, ?_⟩
      have r := removeVariable_some_refines i v
      show absP (p.removeVariable (some v)).1 = (if v ∈ (absP p).vars then ((absP p).removeVariable v, true) else (absP p, false)).1 ∧
        ((p.removeVariable (some v)).2 = none ↔ (if v ∈ (absP p).vars then ((absP p).removeVariable v, true) else (absP p, false)).2 = true) ∧ _
      by_cases hv : v ∈ (absP p).vars
      · rw [if_pos hv] at r ⊢; exact ⟨r.1, by simp [r.2.1, hv], r.2.2⟩
      · rw [if_neg hv] at r ⊢; exact ⟨r.1, by simp [r.2.1, hv], r.2.2⟩
    | none =>
      refine ⟨_, rfl, ?_⟩
      have r := removeVariable_none_refines i
      show absP (p.removeVariable none).1 = (if (absP p).vars = [] then (absP p, false) else ((absP p).dropLast, true)).1 ∧
        ((p.removeVariable none).2 = none ↔ (if (absP p).vars = [] then (absP p, false) else ((absP p).dropLast, true)).2 = true) ∧ _
      by_cases hv : (absP p).vars = []
      · rw [if_pos hv] at r ⊢; exact ⟨r.1, by simp [r.2.1, hv], r.2.2⟩
      · rw [if_neg hv] at r ⊢; exact ⟨r.1, by simp [r.2.1, hv], r.2.2⟩
  | addVariable v b =>
    cases v with
    | some v => exact ⟨_, rfl, addLinear_refines p v b, by simp [LPoly.stepD, LPoly.stepG, LPoly.stepF, LPoly.stepE, LPoly.step], i.addLinear v b⟩
    | none =>
      have r := addVariable_none_refines i b
      exact ⟨_, rfl, r.1, by simp [LPoly.stepD, LPoly.stepG, LPoly.stepF, LPoly.stepE], r.2⟩
  | resize k =>
    refine ⟨_, rfl, ?_⟩
    show absP (p.resize k).1 = (if k < 0 then (absP p, false) else ((absP p).resize k.toNat, true)).1 ∧
      ((p.resize k).2 = none ↔ (if k < 0 then (absP p, false) else ((absP p).resize k.toNat, true)).2 = true) ∧ _
    by_cases hk : k < 0
    · have e : p.resize k = (p, some .value) := by unfold PyB.resize; rw [if_pos hk]
      rw [e, if_pos hk]; exact ⟨rfl, by simp, i⟩
    · have hk' : k = ((k.toNat : Nat) : Int) := by omega
      have r := resize_refines i k.toNat
      rw [← hk'] at r
      rw [if_neg hk]; exact ⟨r.1, by simp [r.2.1], r.2.2⟩
  | setOffset b => exact ⟨_, rfl, rfl, by simp [LPoly.stepD, LPoly.stepG, LPoly.stepF, LPoly.stepE, LPoly.step], i.withOff b⟩
  | clear => exact ⟨_, rfl, (clear_refines p).1, by simp [LPoly.stepD, LPoly.stepG], (clear_refines p).2⟩
  | scale _ => exact absurd hp id
  | changeVartype _ => exact absurd hp id
  | fixVariable _ _ => exact absurd hp id
  | contract _ _ => exact absurd hp id
  | flip _ => exact absurd hp id
  | relabel _ => exact absurd hp id
  | relabelInts => exact absurd hp id
  | update _ => exact absurd hp id
  | addLinearFrom _ => exact absurd hp id
  | addQuadraticFrom _ => exact absurd hp id
  | addLinearFromArray _ => exact absurd hp id
  | addQuadraticFromDense _ _ => exact absurd hp id

theorem prim_direct {op : Bqm.Op} (hp : Prim op) : Bqm.Direct op := by
  cases op <;> first | trivial | exact absurd hp id

/-- **the two back-ends agree**: from states holding the same polynomial (same variable order), a data-level
    primitive leaves both holding the same polynomial, in the same variable order, and raises on both or on neither -/
theorem backends_agree {m : Bqm} {p : PyB} (im : Bqm.Inv m) (ip : PInv p) (h : absP p = Bqm.absL m) {op : Bqm.Op} (hp : Prim op) :
    ∃ r, p.step op = some r ∧ absP r.1 = Bqm.absL (m.step .direct op).1 ∧
      (r.2 = none ↔ (m.step .direct op).2 = none) ∧ PInv r.1 ∧ Bqm.Inv (m.step .direct op).1 := by
  obtain ⟨r, hr, ha, he, hi⟩ := step_refinesP ip hp
  have s := Bqm.step_refinesD im (prim_direct hp)
  refine ⟨r, hr, ?_, ?_, hi, s.2.2⟩
  · rw [ha, s.1, h]
  · rw [he, s.2.1, h]

/-- a history of primitives on the dict back-end -/
def run (p : PyB) : List Bqm.Op → Option PyB
  | [] => some p
  | op :: t => match p.step op with
    | some r => run r.1 t
    | none => none

theorem backends_agree_run {m : Bqm} {p : PyB} (im : Bqm.Inv m) (ip : PInv p) (h : absP p = Bqm.absL m) (ops : List Bqm.Op)
    (hp : ∀ op ∈ ops, Prim op) :
    ∃ q, p.run ops = some q ∧ absP q = Bqm.absL (m.run (ops.map fun op => (Bqm.Via.direct, op))) ∧ PInv q := by
  induction ops generalizing m p with
  | nil => exact ⟨p, rfl, h, ip⟩
  | cons op t ih =>
    obtain ⟨r, hr, ha, _, hi, him⟩ := backends_agree im ip h (hp op (by simp))
    simp only [PyB.run, hr, List.map_cons, Bqm.run]
    exact ih him hi ha (fun o ho => hp o (List.mem_cons_of_mem _ ho))

theorem absP_empty (vt : VT) : absP (PyB.empty vt) = Bqm.absL (Bqm.empty vt) := by
  apply LPoly.ext' <;> try (first | rfl | (intro _; rfl))
  intro a b
  show (if a = b then none else none) = none
  split <;> rfl

end PyB
