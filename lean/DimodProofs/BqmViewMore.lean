import DimodProofs.BqmViewQuad

/-! More writes through a `VartypeView`: the bulk adders (folds of the single-term view methods) and
    `remove_interaction` (set the bias to zero through the view, then drop the zero entry).  Core Lean only. -/

namespace Bqm

/-! ### bulk adders through a view -/

theorem view_addLinearFrom (tv : VT) (l : List (Option Label × Rat)) : ∀ {m : Bqm}, Inv m →
    (absL (m.vAddLinearFrom tv l).1).viewP tv = (((absL m).viewP tv).addLinearFrom l).1 ∧
    ((m.vAddLinearFrom tv l).2 = none ↔ (((absL m).viewP tv).addLinearFrom l).2 = true) ∧
    Inv (m.vAddLinearFrom tv l).1 := by
  induction l with
  | nil => intro m i; exact ⟨rfl, by simp [Bqm.vAddLinearFrom, LPoly.addLinearFrom], i⟩
  | cons x t ih =>
    intro m i
    obtain ⟨v, b⟩ := x
    cases v with
    | none => exact ⟨rfl, by simp [Bqm.vAddLinearFrom, LPoly.addLinearFrom], i⟩
    | some v =>
      simp only [Bqm.vAddLinearFrom, LPoly.addLinearFrom]
      have r := view_addLinear i tv v b
      rw [← r.1]
      exact ih r.2

theorem view_addQuadraticFrom (tv : VT) (l : List (Option Label × Option Label × Rat)) : ∀ {m : Bqm}, Inv m →
    (absL (m.vAddQuadraticFrom tv l).1).viewP tv = (((absL m).viewP tv).addQuadraticFrom l).1 ∧
    ((m.vAddQuadraticFrom tv l).2 = none ↔ (((absL m).viewP tv).addQuadraticFrom l).2 = true) ∧
    Inv (m.vAddQuadraticFrom tv l).1 := by
  induction l with
  | nil => intro m i; exact ⟨rfl, by simp [Bqm.vAddQuadraticFrom, LPoly.addQuadraticFrom], i⟩
  | cons x t ih =>
    intro m i
    obtain ⟨u, v, b⟩ := x
    cases u with
    | none => exact ⟨rfl, by simp [Bqm.vAddQuadraticFrom, LPoly.addQuadraticFrom], i⟩
    | some u =>
      cases v with
      | none => exact ⟨rfl, by simp [Bqm.vAddQuadraticFrom, LPoly.addQuadraticFrom], i⟩
      | some v =>
        simp only [Bqm.vAddQuadraticFrom, LPoly.addQuadraticFrom]
        by_cases huv : u = v
        · simp only [huv, if_true]; exact ⟨trivial, by simp, i⟩
        · simp only [huv, if_false]
          have r := view_addQuadratic i tv u v b huv
          rw [← r.1]
          exact ih r.2

/-! ### dropping an interaction whose bias is zero changes nothing a view reads -/

theorem g_removeZero {q : LPoly} (w : LWF q) (u v : Label) (h0 : q.quad u v = some 0) (a b : Label) :
    (q.removeInteraction u v).g a b = q.g a b := by
  unfold LPoly.g LPoly.removeInteraction
  simp only []
  by_cases hc : (a = u ∧ b = v) ∨ (a = v ∧ b = u)
  · rw [if_pos hc]
    rcases hc with ⟨h1, h2⟩ | ⟨h1, h2⟩
    · rw [h1, h2, h0]; rfl
    · rw [h1, h2, w.symm v u, h0]; rfl
  · rw [if_neg hc]

theorem viewP_removeZero {q : LPoly} (w : LWF q) (tv : VT) (u v : Label) (h0 : q.quad u v = some 0) :
    (q.removeInteraction u v).viewP tv = (q.viewP tv).removeInteraction u v := by
  have hg := g_removeZero w u v h0
  have hnb : ∀ l, (q.removeInteraction u v).sumNb l = q.sumNb l := by
    intro l
    rw [sumNb_eq, sumNb_eq]
    apply foldl_congr_mem
    intro acc x _
    show acc + (q.removeInteraction u v).g l x = _
    rw [hg]
  have hsq : (q.removeInteraction u v).sumQuad = q.sumQuad := by
    rw [sumQuad_eq, sumQuad_eq]
    apply foldl_congr_mem
    intro acc a _
    congr 1
    apply foldl_congr_mem
    intro acc2 x _
    unfold LPoly.low
    show acc2 + (if q.pos x < q.pos a then (q.removeInteraction u v).g a x else 0) = _
    rw [hg]
  apply LPoly.ext' <;> try rfl
  · intro l
    show (q.removeInteraction u v).viewLin tv l = q.viewLin tv l
    unfold LPoly.viewLin
    rw [hnb l]; rfl
  · intro a b
    show ((q.removeInteraction u v).quad a b).map ((q.removeInteraction u v).viewFactor tv * ·) =
      if (a = u ∧ b = v) ∨ (a = v ∧ b = u) then none else (q.quad a b).map (q.viewFactor tv * ·)
    show (if (a = u ∧ b = v) ∨ (a = v ∧ b = u) then none else q.quad a b).map (q.viewFactor tv * ·) = _
    split <;> rfl
  · show (q.removeInteraction u v).viewOff tv = q.viewOff tv
    unfold LPoly.viewOff
    rw [hsq]; rfl

/-- a view shows bias `0` exactly when the data holds `0` (the factor is `1`, `4` or `1/4`) -/
theorem data_zero_of_view_zero (q : LPoly) (tv : VT) (u v : Label) (h : (q.viewP tv).quad u v = some 0) : q.quad u v = some 0 := by
  have h' : (q.quad u v).map (q.viewFactor tv * ·) = some 0 := h
  cases hq : q.quad u v with
  | none => rw [hq] at h'; cases h'
  | some c =>
    rw [hq] at h'
    simp only [Option.map_some, Option.some.injEq] at h'
    have hf : q.viewFactor tv = 1 ∨ q.viewFactor tv = 4 ∨ q.viewFactor tv = 1 / 4 := by
      unfold LPoly.viewFactor
      split
      · exact Or.inl rfl
      · cases tv
        · exact Or.inr (Or.inr rfl)
        · exact Or.inr (Or.inl rfl)
    congr 1
    rcases hf with e | e | e <;> (rw [e] at h'; grind)

/-- **`remove_interaction(u, v)` through a view of the other vartype** -/
theorem view_removeInteraction {m : Bqm} (i : Inv m) (tv : VT) (u v : Label) (htv : tv ≠ m.vt) :
    (absL (m.vRemoveInteraction tv u v).1).viewP tv =
      (if (((absL m).viewP tv).quad u v).isSome then ((absL m).viewP tv).removeInteraction u v else (absL m).viewP tv) ∧
    ((m.vRemoveInteraction tv u v).2 = none ↔ (((absL m).viewP tv).quad u v).isSome = true) ∧
    Inv (m.vRemoveInteraction tv u v).1 := by
  have hvq : ((absL m).viewP tv).quad u v = ((absL m).quad u v).map ((absL m).viewFactor tv * ·) := rfl
  unfold Bqm.vRemoveInteraction
  rw [if_neg htv]
  by_cases huv : u = v
  · rw [if_pos huv, hvq, huv, quad_self_none i v]
    exact ⟨rfl, by simp, i⟩
  · rw [if_neg huv]
    cases hu : m.indexOf? u with
    | none =>
      have : (absL m).quad u v = none := by show m.quadL u v = none; unfold quadL; rw [hu]
      rw [hvq, this]; exact ⟨rfl, by simp, i⟩
    | some ui =>
      cases hv : m.indexOf? v with
      | none =>
        have : (absL m).quad u v = none := by show m.quadL u v = none; unfold quadL; rw [hu, hv]
        rw [hvq, this]; exact ⟨rfl, by simp, i⟩
      | some vi =>
        simp only []
        have hq : (absL m).quad u v = m.quadAt ui vi := quad_absL hu hv
        cases hc : m.quadAt ui vi with
        | none =>
          rw [hvq, hq, hc]; exact ⟨rfl, by simp, i⟩
        | some c =>
          simp only []
          have r := view_setQuadratic i tv u v 0 huv
          generalize hm1 : (m.vSetQuadratic tv u v 0).1 = m1 at r
          -- the view now shows 0 for the pair, so the data holds 0
          have hpair : (u = u ∧ v = v) ∨ (u = v ∧ v = u) := Or.inl ⟨rfl, rfl⟩
          have hview0 : ((absL m1).viewP tv).quad u v = some 0 := by
            rw [r.1, quad_quadOp, if_pos hpair]; rfl
          have hdata0 := data_zero_of_view_zero (absL m1) tv u v hview0
          have hsome : ((absL m1).quad u v).isSome := by rw [hdata0]; rfl
          have rr := removeInteraction_refines r.2.2.wf u v hsome
          have hinv := r.2.2.removeInteraction u v
          have hok : (m1.removeInteraction u v).2 = none := rr.2
          have hvs : (((absL m).viewP tv).quad u v).isSome = true := by rw [hvq, hq, hc]; rfl
          rw [if_pos hvs]
          refine ⟨?_, by simp [hok, hvs], hinv⟩
          rw [rr.1, viewP_removeZero (LWF.absL r.2.2) tv u v hdata0, r.1]
          -- setting to 0 and dropping = dropping
          apply LPoly.ext'
          · have hmem := (LWF.absL i).closed u v (by rw [hq, hc]; rfl)
            show ((((absL m).viewP tv).ensure u).ensure v).vars = ((absL m).viewP tv).vars
            exact ensure2_idem _ u v hmem.1 hmem.2
          · intro l
            show ((((absL m).viewP tv).quadOp u v 0 true).removeInteraction u v).lin l = _
            show (((absL m).viewP tv).quadOp u v 0 true).lin l = _
            rw [lin_quadOp]; rfl
          · intro a b
            show (if (a = u ∧ b = v) ∨ (a = v ∧ b = u) then none else (((absL m).viewP tv).quadOp u v 0 true).quad a b) =
              if (a = u ∧ b = v) ∨ (a = v ∧ b = u) then none else ((absL m).viewP tv).quad a b
            by_cases hcc : (a = u ∧ b = v) ∨ (a = v ∧ b = u)
            · rw [if_pos hcc, if_pos hcc]
            · rw [if_neg hcc, if_neg hcc, quad_quadOp, if_neg hcc]
          · show (((absL m).viewP tv).quadOp u v 0 true).off = _
            rw [off_quadOp]; rfl
          · show (((absL m).viewP tv).quadOp u v 0 true).vt = _
            rw [vt_quadOp']; rfl

/-! ### `update(other)` through a view -/

theorem fold_view {α} (tv : VT) (xs : List α) (stepM : Bqm → α → Bqm) (stepS : LPoly → α → LPoly) (good : α → Prop)
    (hgood : ∀ x ∈ xs, good x)
    (href : ∀ acc, Inv acc → ∀ x, good x → (absL (stepM acc x)).viewP tv = stepS ((absL acc).viewP tv) x ∧ Inv (stepM acc x)) :
    ∀ acc, Inv acc → (absL (xs.foldl stepM acc)).viewP tv = xs.foldl stepS ((absL acc).viewP tv) ∧ Inv (xs.foldl stepM acc) := by
  induction xs with
  | nil => intro acc ia; exact ⟨rfl, ia⟩
  | cons x t ih =>
    intro acc ia
    have r := href acc ia x (hgood x (by simp))
    simp only [List.foldl]
    rw [← r.1]
    exact ih (fun y hy => hgood y (List.mem_cons_of_mem _ hy)) _ r.2

/-- **`update(other)` through a view**: the view shows `LPoly.update` of what it showed and `other`, read in the
    view's vartype -/
theorem view_update {m o : Bqm} (i : Inv m) (io : Inv o) (tv : VT) :
    (absL (m.vUpdate tv o)).viewP tv = ((absL m).viewP tv).update (absL o) ∧ Inv (m.vUpdate tv o) := by
  unfold Bqm.vUpdate LPoly.update
  dsimp only
  have hvt : ((absL m).viewP tv).vt = tv := rfl
  rw [hvt]
  have hlins : ((List.range o.labels.length).filterMap fun j => (o.labels[j]?).map fun l => (l, o.vGetLinear tv j))
      = o.labels.map fun l => (l, (absL o).viewLin tv l) := by
    conv => rhs; rw [list_eq_map_range o.labels (.int 0)]
    rw [List.map_map]
    apply filterMap_eq_map_of
    intro j hj
    have hj' : j < o.labels.length := List.mem_range.mp hj
    rw [getD_label hj']
    simp only [Option.map_some, Function.comp, viewLin_absL io tv hj']
  rw [hlins, List.foldl_map]
  have f1 := fold_view tv o.labels (fun acc l => acc.vAddLinear tv l ((absL o).viewLin tv l))
    (fun acc l => acc.addLinear l ((absL o).viewLin tv l)) (fun _ => True) (fun _ _ => trivial)
    (by intro acc ia l _; exact view_addLinear ia tv l _) m i
  have hquads : o.lowerTriples.filterMap (o.labelTriple (o.vQuadFactor tv))
      = (absL o).lower.map fun t => (t.1, t.2.1, (absL o).viewFactor tv * t.2.2) := by
    rw [lower_absL io, List.map_map]
    apply filterMap_eq_map_of
    intro t ht
    have hb := lowerTriples_bound io t ht
    unfold Bqm.labelTriple
    rw [getD_label hb.1, getD_label (show t.2.1 < o.labels.length by omega)]
    rfl
  rw [hquads, List.foldl_map]
  have hgood : ∀ t ∈ (absL o).lower, t.1 ≠ t.2.1 := by
    intro t ht
    rw [lower_absL io] at ht
    obtain ⟨s, hs, hst⟩ := List.mem_map.mp ht
    have hb := lowerTriples_bound io s hs
    rw [← hst]
    exact nodup_getD_ne io.nodup hb.1 (by omega) (by omega)
  have f2 := fold_view tv (absL o).lower
    (fun acc t => acc.vAddQuadratic tv t.1 t.2.1 ((absL o).viewFactor tv * t.2.2))
    (fun acc t => acc.quadOp t.1 t.2.1 ((absL o).viewFactor tv * t.2.2) false)
    (fun t => t.1 ≠ t.2.1) hgood
    (by intro acc ia t ht; exact view_addQuadratic ia tv t.1 t.2.1 _ ht)
    _ f1.2
  rw [f1.1] at f2
  generalize hm2 : List.foldl (fun acc t => acc.vAddQuadratic tv t.1 t.2.1 ((absL o).viewFactor tv * t.2.2))
    (List.foldl (fun acc l => acc.vAddLinear tv l ((absL o).viewLin tv l)) m o.labels) (absL o).lower = m2 at f2 ⊢
  have r := view_setOffset f2.2 tv (m2.vOffset tv + o.vOffset tv)
  refine ⟨?_, r.2⟩
  rw [r.1, f2.1]
  have e1 : m2.vOffset tv = ((absL m2).viewP tv).off := (viewOff_absL f2.2 tv).symm
  rw [e1, f2.1, ← viewOff_absL io]
  rfl

end Bqm
