import DimodModel.Vars

/-! Lemmas about the `Variables` model: the sparse maps refine a duplicate-free list. -/

theorem AMap.get?_erase [DecidableEq α] (m : AMap α β) (k k' : α) :
    (m.erase k).get? k' = if k = k' then none else m.get? k' := by
  induction m with
  | nil => simp [AMap.erase, AMap.get?]
  | cons p m ih =>
    obtain ⟨a, b⟩ := p
    simp only [AMap.erase, AMap.get?]
    by_cases h1 : a = k <;> by_cases h2 : a = k' <;> simp_all [AMap.get?, eq_comm]

theorem AMap.get?_set [DecidableEq α] (m : AMap α β) (k k' : α) (v : β) :
    (m.set k v).get? k' = if k = k' then some v else m.get? k' := by
  simp only [AMap.set, AMap.get?]
  split
  · rfl
  · rename_i h; rw [AMap.get?_erase]; simp [h]

theorem VState.mem_abs (s : VState) (v : Label) : v ∈ s.abs ↔ ∃ i, i < s.stop ∧ s.labelAt i = v := by
  simp [VState.abs, List.mem_map, List.mem_range]

theorem VState.count_iff (s : VState) (h : s.Inv) (v : Label) : s.count v = true ↔ v ∈ s.abs := by
  rw [VState.mem_abs]
  constructor
  · intro hc
    cases v with
    | int z =>
      simp only [VState.count, Bool.or_eq_true, Bool.and_eq_true, decide_eq_true_eq, Option.isNone_iff_eq_none, Option.isSome_iff_exists] at hc
      rcases hc with ⟨⟨h0, h1⟩, h2⟩ | ⟨i, hi⟩
      · refine ⟨z.toNat, h1, ?_⟩
        simp [VState.labelAt, h2]; omega
      · have := h.l2i_ok _ _ hi
        have ⟨hlt, _, _⟩ := h.i2l_ok _ _ this
        exact ⟨i, hlt, by simp [VState.labelAt, this]⟩
    | str x =>
      simp only [VState.count, Option.isSome_iff_exists] at hc
      obtain ⟨i, hi⟩ := hc
      have := h.l2i_ok _ _ hi
      have ⟨hlt, _, _⟩ := h.i2l_ok _ _ this
      exact ⟨i, hlt, by simp [VState.labelAt, this]⟩
    | tup x =>
      simp only [VState.count, Option.isSome_iff_exists] at hc
      obtain ⟨i, hi⟩ := hc
      have := h.l2i_ok _ _ hi
      have ⟨hlt, _, _⟩ := h.i2l_ok _ _ this
      exact ⟨i, hlt, by simp [VState.labelAt, this]⟩
  · rintro ⟨i, hlt, rfl⟩
    unfold VState.labelAt
    cases hg : s.i2l.get? i with
    | none =>
      simp [VState.count, hg, hlt]
    | some l =>
      have ⟨_, _, h3⟩ := h.i2l_ok _ _ hg
      cases l <;> simp [VState.count, h3]

theorem VState.abs_append (s : VState) (h : s.Inv) (v : Label) (hv : v ∉ s.abs) :
    (s.append v).abs = s.abs ++ [v] := by
  have hnone : s.i2l.get? s.stop = none := by
    cases hg : s.i2l.get? s.stop with
    | none => rfl
    | some l => exact absurd (h.i2l_ok _ _ hg).1 (Nat.lt_irrefl _)
  unfold VState.append
  split
  · rename_i heq
    simp only [VState.abs, List.range_succ, List.map_append, List.map_cons, List.map_nil]
    congr 1
    simp [VState.labelAt, hnone, heq]
  · rename_i hne
    simp only [VState.abs, List.range_succ, List.map_append, List.map_cons, List.map_nil]
    congr 1
    · apply List.map_congr_left
      intro i hi
      have : i < s.stop := List.mem_range.mp hi
      simp only [VState.labelAt, AMap.get?_set]
      have : s.stop ≠ i := by omega
      simp [this]
    · simp [VState.labelAt, AMap.get?_set]

/-- under Inv, a label sits at exactly one position, the one `idxOf` returns -/
theorem VState.labelAt_eq_iff (s : VState) (h : s.Inv) (i : Nat) (hi : i < s.stop) (v : Label) :
    s.labelAt i = v ↔ (v ∈ s.abs ∧ s.idxOf v = i) := by
  constructor
  · intro hv
    refine ⟨(s.mem_abs v).2 ⟨i, hi, hv⟩, ?_⟩
    unfold VState.labelAt at hv
    cases hg : s.i2l.get? i with
    | some l =>
      simp [hg] at hv; subst hv
      have := (h.i2l_ok _ _ hg).2.2
      simp [VState.idxOf, this]
    | none =>
      simp [hg] at hv; subst hv
      have := h.ident_ok i hi hg
      simp [VState.idxOf, this]
  · rintro ⟨hmem, hidx⟩
    obtain ⟨j, hj, hjv⟩ := (s.mem_abs v).1 hmem
    -- show j = i
    have : s.idxOf v = j := by
      unfold VState.labelAt at hjv
      cases hg : s.i2l.get? j with
      | some l =>
        simp [hg] at hjv; subst hjv
        have := (h.i2l_ok _ _ hg).2.2
        simp [VState.idxOf, this]
      | none =>
        simp [hg] at hjv; subst hjv
        have := h.ident_ok j hj hg
        simp [VState.idxOf, this]
    rw [← hidx, this]; exact hjv

theorem VState.abs_relabelOne (s : VState) (h : s.Inv) (old new : Label)
    (hold : old ∈ s.abs) (hne : new ≠ old) :
    (s.relabelOne old new).abs = s.abs.map (fun l => if l = old then new else l) := by
  have hidx : s.idxOf old < s.stop ∧ s.labelAt (s.idxOf old) = old := by
    obtain ⟨j, hj, hjv⟩ := (s.mem_abs old).1 hold
    have := ((s.labelAt_eq_iff h j hj old).1 hjv).2
    rw [this]; exact ⟨hj, hjv⟩
  simp only [VState.abs, List.map_map]
  have hstop : (s.relabelOne old new).stop = s.stop := by
    unfold VState.relabelOne; split <;> rfl
  rw [hstop]
  apply List.map_congr_left
  intro i hi
  have hi' : i < s.stop := List.mem_range.mp hi
  simp only [Function.comp]
  by_cases hio : i = s.idxOf old
  · subst hio
    rw [hidx.2]; simp only [if_true]
    unfold VState.relabelOne
    split
    · rename_i hnew
      simp [VState.labelAt, AMap.get?_erase, hnew]
    · simp [VState.labelAt, AMap.get?_set]
  · have hlab : s.labelAt i ≠ old := by
      intro hc
      exact hio ((s.labelAt_eq_iff h i hi' old).1 hc).2.symm
    simp only [hlab, if_false]
    unfold VState.relabelOne
    split
    · simp [VState.labelAt, AMap.get?_erase, Ne.symm hio]
    · simp [VState.labelAt, AMap.get?_set, Ne.symm hio]

