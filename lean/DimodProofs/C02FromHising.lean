import DimodProofs.C02PolyH

/-! # C02 — `BinaryPolynomial.from_hising(h, J, offset)` in full (round 7)

`poly = {(k,): v for k, v in h.items()}; poly.update(J); if offset is not None: poly[frozenset([])] = offset`.
`update` and the item assignment *overwrite* equal keys.  The guard the code needs for the energy statement is therefore
exactly: no key of `J` equals a `(k,)` coming from `h`, and (when an offset is given) no key of `J` is the empty term.
(`Poly` keys are the canonical terms, i.e. the `frozenset` keys the constructor aggregates under.) -/

namespace En

variable {R : Type} [CommRing R]

theorem fh_get?_set_ne (q : Poly R) (k k' : List Nat) (v : R) (h : k ≠ k') :
    ODict.get? (ODict.set q k v) k' = ODict.get? q k' := by
  induction q with
  | nil => simp [ODict.set, ODict.get?, h]
  | cons e rest ih =>
    obtain ⟨k0, b⟩ := e
    simp only [ODict.set]
    by_cases h0 : k0 = k
    · subst h0; simp [ODict.get?, h]
    · simp only [h0, if_false, ODict.get?]
      by_cases h1 : k0 = k' <;> simp [h1, ih]

/-- `poly.update(J)` for a dict `J` none of whose keys is in `poly`: the polynomials add, and keys outside both stay absent -/
theorem polySpec_update (x : Nat → R) (J p : Poly R)
    (hnd : (J.map (·.1)).Nodup) (hdis : ∀ tb ∈ J, ODict.get? p tb.1 = none) :
    polySpec x (J.foldl (fun p tb => ODict.set p tb.1 tb.2) p) = polySpec x p + polySpec x J ∧
    ∀ t, ODict.get? p t = none → (∀ tb ∈ J, tb.1 ≠ t) →
      ODict.get? (J.foldl (fun p tb => ODict.set p tb.1 tb.2) p) t = none := by
  induction J generalizing p with
  | nil => simp [polySpec]
  | cons e rest ih =>
    obtain ⟨t0, b0⟩ := e
    simp only [List.map_cons, List.nodup_cons] at hnd
    have h0 : ODict.get? p t0 = none := hdis (t0, b0) (by simp)
    have hrest : ∀ tb ∈ rest, ODict.get? (ODict.set p t0 b0) tb.1 = none := by
      intro tb htb
      have hne : t0 ≠ tb.1 := by
        intro heq
        exact hnd.1 (by rw [heq]; exact List.mem_map_of_mem htb)
      rw [fh_get?_set_ne p t0 tb.1 b0 hne]
      exact hdis tb (by simp [htb])
    obtain ⟨ih1, ih2⟩ := ih (ODict.set p t0 b0) hnd.2 hrest
    refine ⟨?_, ?_⟩
    · simp only [List.foldl_cons]
      rw [ih1, polySpec_set, h0]
      simp [polySpec]; ring
    · intro t ht hall
      simp only [List.foldl_cons]
      apply ih2 t
      · rw [fh_get?_set_ne p t0 t b0 (hall (t0, b0) (by simp))]; exact ht
      · intro tb htb; exact hall tb (by simp [htb])

/-- the `{(k,): v}` part is `Σ h_v·s_v`; its keys are singletons -/
theorem polySpec_hpart (s : Nat → R) (h : ODict Nat R) :
    polySpec s (h.map fun e => ([e.1], e.2)) = hSum s h ∧
    ∀ t, (∀ e ∈ h, t ≠ [e.1]) → ODict.get? (h.map fun e => (([e.1] : List Nat), e.2)) t = none := by
  induction h with
  | nil => simp [polySpec, hSum, ODict.get?]
  | cons e rest ih =>
    obtain ⟨ih1, ih2⟩ := ih
    refine ⟨?_, ?_⟩
    · simp only [List.map_cons, polySpec, termProd, hSum, List.sum_cons] at ih1 ⊢
      rw [ih1]; simp [hSum]
    · intro t ht
      simp only [List.map_cons, ODict.get?]
      have : [e.1] ≠ t := fun heq => ht e (by simp) heq.symm
      simp only [this, if_false]
      exact ih2 t (fun e' he' => ht e' (by simp [he']))

/-- **`from_hising(h, J, offset)`** carries the energies `Σ h·s + Σ J·Πs + offset` for every dict `J` (distinct keys) none of whose
    keys is a `(k,)` of `h` and — when an offset is given — none of whose keys is the empty term. -/
theorem polyFromHising_energy (h : ODict Nat R) (J : Poly R) (o : Option R) (s : Nat → R)
    (hJ : (J.map (·.1)).Nodup)
    (hlin : ∀ tb ∈ J, ∀ e ∈ h, tb.1 ≠ [e.1])
    (hconst : o.isSome → ∀ tb ∈ J, tb.1 ≠ []) :
    polySpec s (polyFromHising h J o) = hSum s h + polySpec s J + o.getD 0 := by
  obtain ⟨hp1, hp2⟩ := polySpec_hpart s h
  have hdis : ∀ tb ∈ J, ODict.get? (h.map fun e => (([e.1] : List Nat), e.2)) tb.1 = none :=
    fun tb htb => hp2 tb.1 (hlin tb htb)
  obtain ⟨hu1, hu2⟩ := polySpec_update s J (h.map fun e => ([e.1], e.2)) hJ hdis
  unfold polyFromHising
  cases o with
  | none => simp only [Option.getD_none]; rw [hu1, hp1]; ring
  | some ov =>
    simp only [Option.getD_some]
    rw [polySpec_set, hu1, hp1]
    have hnone := hu2 [] (hp2 [] (by intro e _; simp)) (hconst (by simp))
    rw [hnone]
    simp [termProd]

end En
