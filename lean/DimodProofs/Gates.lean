import DimodProofs.Penalty
import DimodModel.GateBag
import Generated.Gates

/-! # Gate tables: truth-table specification, scaling and relabelling (core Lean only)

`GateSpec t dom nvis naux rel` is a *finite* statement about a generated coefficient table, closed by
`decide +kernel`; `tableBag_eval` lifts it to every labelling and every strength. -/

open Pen GateTable

namespace GateTable

/-- the table's energy is 0 for some auxiliary value on the rows of the relation, at least 1 for every
    auxiliary value off them, and never negative -/
def GateSpec (t : GateTable) (dom : List Rat) (nvis naux : Nat) (rel : List Rat → Bool) : Prop :=
  ∀ v ∈ assignments dom nvis,
    (∀ a ∈ assignments dom naux, 0 ≤ t.energy (ofList (v ++ a)))
    ∧ (rel v = true → ∃ a ∈ assignments dom naux, t.energy (ofList (v ++ a)) = 0)
    ∧ (rel v = false → ∀ a ∈ assignments dom naux, 1 ≤ t.energy (ofList (v ++ a)))

instance (t : GateTable) (dom : List Rat) (nvis naux : Nat) (rel : List Rat → Bool) : Decidable (GateSpec t dom nvis naux rel) := by
  unfold GateSpec; exact inferInstance

theorem mem_assignments (dom : List Rat) (l : List Rat) (h : ∀ a ∈ l, a ∈ dom) : l ∈ assignments dom l.length := by
  induction l with
  | nil => simp [assignments]
  | cons a r ih =>
    simp only [List.length_cons, assignments, List.mem_flatMap, List.mem_map]
    exact ⟨a, h a (by simp), r, ih (fun b hb => h b (by simp [hb])), rfl⟩

theorem length_of_mem_assignments (dom : List Rat) (n : Nat) (l : List Rat) (h : l ∈ assignments dom n) : l.length = n := by
  induction n generalizing l with
  | zero => simp [assignments] at h; simp [h]
  | succ n ih =>
    simp only [assignments, List.mem_flatMap, List.mem_map] at h
    obtain ⟨d, _, r, hr, rfl⟩ := h
    simp [ih r hr]

/-! ## energy depends only on the table's own variables -/

theorem linSum_congr (f g : Nat → Rat) (l : List Rat) (i : Nat) (h : ∀ j, i ≤ j → j < i + l.length → f j = g j) :
    linSum f i l = linSum g i l := by
  induction l generalizing i with
  | nil => rfl
  | cons c t ih =>
    simp only [linSum]
    rw [h i (Nat.le_refl _) (by simp), ih (i + 1) (fun j h1 h2 => h j (by omega) (by simp only [List.length_cons]; omega))]

theorem quadSum_congr (f g : Nat → Rat) (n : Nat) (q : List (Nat × Nat × Rat)) (hq : ∀ e ∈ q, e.1 < n ∧ e.2.1 < n)
    (h : ∀ j, j < n → f j = g j) : quadSum f q = quadSum g q := by
  induction q with
  | nil => rfl
  | cons e t ih =>
    obtain ⟨a, b, c⟩ := e
    have := hq (a, b, c) (by simp)
    simp only [quadSum]
    rw [h a this.1, h b this.2, ih (fun e he => hq e (by simp [he]))]

theorem energy_congr (t : GateTable) (hwf : t.WF = true) (f g : Nat → Rat) (h : ∀ j, j < t.n → f j = g j) : t.energy f = t.energy g := by
  simp only [WF, Bool.and_eq_true, beq_iff_eq, List.all_eq_true, decide_eq_true_eq] at hwf
  unfold energy
  rw [linSum_congr f g t.lin 0 (fun j _ hj => h j (by omega)), quadSum_congr f g t.n t.quad (fun e he => hwf.2 e he) h]

end GateTable

namespace Pen

/-! ## `scale_energy` + `relabel_eval`: the instantiated table -/

theorem linBag_eval (x : Label → Rat) (lab : Nat → Label) (s : Rat) (i : Nat) (l : List Rat) :
    evalBag x (linBag lab s i l) = s * GateTable.linSum (fun j => x (lab j)) i l := by
  induction l generalizing i with
  | nil => simp only [linBag, evalBag, GateTable.linSum]; grind
  | cons c t ih => simp only [linBag, evalBag, PTerm.eval, GateTable.linSum, ih]; grind

theorem quadBag_eval (x : Label → Rat) (lab : Nat → Label) (s : Rat) (q : List (Nat × Nat × Rat)) :
    evalBag x (q.map (fun e => PTerm.quad (lab e.1) (lab e.2.1) (s * e.2.2))) = s * GateTable.quadSum (fun j => x (lab j)) q := by
  induction q with
  | nil => simp only [List.map_nil, evalBag, GateTable.quadSum]; grind
  | cons e t ih => obtain ⟨a, b, c⟩ := e; simp only [List.map_cons, evalBag, PTerm.eval, GateTable.quadSum, ih]; grind

/-- **any labels, any strength**: the calls of a gate generator evaluate to `strength ×` the table's
    energy at the values of the labelled variables (labels need not even be distinct here) -/
theorem tableBag_eval (t : GateTable) (labels : List Label) (s : Rat) (x : Label → Rat) :
    evalBag x (tableBag t labels s) = s * t.energy (fun j => x (labels.getD j (.int 0))) := by
  unfold tableBag GateTable.energy
  have hq := quadBag_eval x (fun i => labels.getD i (.int 0)) s t.quad
  have hl := linBag_eval x (fun i => labels.getD i (.int 0)) s 0 t.lin
  simp only [evalBag_append, evalBag, PTerm.eval]
  rw [hl, hq]
  grind

theorem getD_map_ofList (labels : List Label) (x : Label → Rat) (j : Nat) (hj : j < labels.length) :
    x (labels.getD j (.int 0)) = GateTable.ofList (labels.map x) j := by
  simp [GateTable.ofList, List.getD, hj]

theorem tableBag_eval_list (t : GateTable) (hwf : t.WF = true) (labels : List Label) (hlen : labels.length = t.n) (s : Rat) (x : Label → Rat) :
    evalBag x (tableBag t labels s) = s * t.energy (GateTable.ofList (labels.map x)) := by
  rw [tableBag_eval]
  congr 1
  exact GateTable.energy_congr t hwf _ _ (fun j hj => getD_map_ofList labels x j (by omega))

/-- lifting a table specification to the generated model: for labels `vis ++ aux`, strength `s > 0`
    and a sample with values in `dom` -/
theorem gate_lift (t : GateTable) (dom : List Rat) (nvis naux : Nat) (rel : List Rat → Bool)
    (hspec : GateTable.GateSpec t dom nvis naux rel) (hwf : t.WF = true) (hn : t.n = nvis + naux)
    (labels : List Label) (hlen : labels.length = nvis + naux) (s : Rat) (hs : 0 < s)
    (x : Label → Rat) (hx : ∀ l ∈ labels, x l ∈ dom) :
    let e := evalBag x (tableBag t labels s)
    let vis := (labels.take nvis).map x
    0 ≤ e
    ∧ (rel vis = false → s ≤ e)
    ∧ (rel vis = true → ∃ a ∈ GateTable.assignments dom naux, s * t.energy (GateTable.ofList (vis ++ a)) = 0)
    ∧ (e = 0 → rel vis = true) := by
  intro e vis
  have he : e = s * t.energy (GateTable.ofList (labels.map x)) := tableBag_eval_list t hwf labels (by omega) s x
  have hsplit : labels.map x = vis ++ (labels.drop nvis).map x := by
    simp only [vis, ← List.map_append, List.take_append_drop]
  have hvis : vis ∈ GateTable.assignments dom nvis := by
    have := GateTable.mem_assignments dom vis (by
      intro a ha
      simp only [vis, List.mem_map] at ha
      obtain ⟨l, hl, rfl⟩ := ha
      exact hx l (List.mem_of_mem_take hl))
    have hl : vis.length = nvis := by simp [vis]; omega
    rwa [hl] at this
  have haux : (labels.drop nvis).map x ∈ GateTable.assignments dom naux := by
    have := GateTable.mem_assignments dom ((labels.drop nvis).map x) (by
      intro a ha
      simp only [List.mem_map] at ha
      obtain ⟨l, hl, rfl⟩ := ha
      exact hx l (List.mem_of_mem_drop hl))
    have hl : ((labels.drop nvis).map x).length = naux := by simp; omega
    rwa [hl] at this
  obtain ⟨h0, h1, h2⟩ := hspec vis hvis
  have hE0 : 0 ≤ t.energy (GateTable.ofList (labels.map x)) := by rw [hsplit]; exact h0 _ haux
  refine ⟨?_, ?_, ?_, ?_⟩
  · rw [he]; exact Rat.mul_nonneg (Rat.le_of_lt hs) hE0
  · intro hr
    have := h2 hr _ haux
    rw [← hsplit] at this
    rw [he]
    have h3 := Rat.mul_le_mul_of_nonneg_left this (Rat.le_of_lt hs)
    simpa using h3
  · intro hr
    obtain ⟨a, ha, hz⟩ := h1 hr
    exact ⟨a, ha, by rw [hz]; simp⟩
  · intro hz
    cases hr : rel vis with
    | true => rfl
    | false =>
      have := h2 hr _ haux
      rw [← hsplit] at this
      rw [he] at hz
      have h3 := Rat.mul_le_mul_of_nonneg_left this (Rat.le_of_lt hs)
      rw [hz] at h3
      have : s ≤ 0 := by simpa using h3
      exact absurd hs (Rat.not_lt.2 this)

end Pen
