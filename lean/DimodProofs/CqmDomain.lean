import DimodProofs.DqmClosed

/-! # The domain of the closed round-trip theorems as a decidable check  (C09, round 7)

`CqmSrc.domainB` is a Boolean function: every conjunct of `CqmSrc.InDomain` is evaluated (`ExprWF`, `VarInfoWF`, the size
bounds, pairwise different directory names); for labels it accepts integers, strings and nested tuples of them — float
labels are in the domain of the theorem (`JOK`: `repr` form) but this checker does not parse float texts, so it rejects
them (sound, not complete). -/

namespace FileFmt

instance (h : QHeader J) (e : ExprContent) : Decidable (ExprWF h e) :=
  decidable_of_iff (0 < h.dsize ∧ 0 < h.isize ∧ e.indices.length = h.nvars ∧ e.linear.length = h.nvars ∧ e.quad.length = h.ninter ∧
      countDistinct e.indices = h.nvars ∧ (∀ i ∈ e.indices, 2 * i < 256 ^ h.isize) ∧ e.offset.length = h.dsize ∧
      (∀ b ∈ e.linear, b.length = h.dsize) ∧
      (∀ t ∈ e.quad, 2 * t.1 < 256 ^ h.isize ∧ 2 * t.2.1 < 256 ^ h.isize ∧ t.2.2.length = h.dsize) ∧
      (e.indices.map (toLE h.isize)).flatten.length + 64 < 256 ^ nlb4 ∧ e.offset.length + 64 < 256 ^ nlb4 ∧
      e.linear.flatten.length + 64 < 256 ^ nlb4 ∧ (e.quad.map (encQuadRec h.isize)).flatten.length + 64 < 256 ^ nlb8)
    ⟨fun ⟨a, b, c, d, e1, f, g, h1, i, j, k, l, m, n⟩ => ⟨a, b, c, d, e1, f, g, h1, i, j, k, l, m, n⟩,
     fun w => ⟨w.dpos, w.ipos, w.nidx, w.nlin, w.nquad, w.distinct, w.idx, w.off, w.lin, w.quad, w.szidx, w.szoff, w.szlin, w.szquad⟩⟩

instance (dsz : Nat) (vi : VarInfo) : Decidable (VarInfoWF dsz vi) :=
  inferInstanceAs (Decidable (∀ t ∈ vi, t.2.1.length = dsz ∧ t.2.2.length = dsz))

mutual
def FLabel.floatFree : FLabel → Bool
  | .int _ => true
  | .flt _ => false
  | .str _ => true
  | .tup l => floatFreeL l
def floatFreeL : List FLabel → Bool
  | [] => true
  | x :: t => x.floatFree && floatFreeL t
end

mutual
theorem floatFree_JOK : ∀ l : FLabel, l.floatFree = true → JOK (serializeLabel l)
  | .int _, _ => by simp [serializeLabel, JOK]
  | .flt _, h => by simp [FLabel.floatFree] at h
  | .str _, _ => by simp [serializeLabel, JOK]
  | .tup l, h => by
    simp only [FLabel.floatFree] at h
    simpa [serializeLabel, JOK] using floatFreeL_JOKs l h
theorem floatFreeL_JOKs : ∀ l : List FLabel, floatFreeL l = true → JOKs (serializeLabels l)
  | [], _ => by simp [serializeLabels, JOKs]
  | x :: t, h => by
    simp only [floatFreeL, Bool.and_eq_true] at h
    simp only [serializeLabels, JOKs]
    exact ⟨floatFree_JOK x h.1, floatFreeL_JOKs t h.2⟩
end

def softOKb : Option (Bytes × Bytes) → Bool
  | none => true
  | some (w, _) => w.length = 8

/-- **the decidable domain check** -/
def CqmSrc.domainB (s : CqmSrc) : Bool :=
  decide (ExprWF (exprHeaderOf 8 4 s.objective) s.objective) &&
  decide ((dumpsDict (exprDict (exprHeaderDict tObjective 8 4 s.objective))).length + 65 < 2 ^ 32) &&
  s.constraints.all (fun c => decide (ExprWF (exprHeaderOf 8 4 c.lhs) c.lhs) &&
    decide ((dumpsDict (exprDict (exprHeaderDict tConstraint 8 4 c.lhs))).length + 65 < 2 ^ 32) && decide (c.rhs.length = 8) &&
    softOKb c.soft && c.label.floatFree) &&
  decide ((s.constraints.map fun c => labelText true c.label).Nodup) &&
  decide (VarInfoWF 8 s.varinfo) && decide ((encVarInfo s.varinfo).length + 64 < 256 ^ nlb4) &&
  (match s.labels with | none => true | some ls => floatFreeL ls) &&
  decide ((dumpsDict (cqmCountsDict (cqmCounts s.content.erase))).length + 65 < 2 ^ 32)

theorem CqmSrc.domainB_sound (s : CqmSrc) (h : s.domainB = true) : s.InDomain := by
  simp only [CqmSrc.domainB, Bool.and_eq_true, decide_eq_true_eq, List.all_eq_true] at h
  obtain ⟨⟨⟨⟨⟨⟨⟨h1, h2⟩, h3⟩, h4⟩, h5⟩, h6⟩, h7⟩, h8⟩ := h
  refine ⟨h1, h2, fun c hc => ?_, h4, h5, h6, fun ls hls => ?_, h8⟩
  · obtain ⟨⟨⟨⟨c1, c2⟩, c3⟩, c4⟩, c5⟩ := h3 c hc
    refine ⟨c1, c2, c3, fun w p hs => ?_, floatFree_JOK _ c5⟩
    rw [hs] at c4; simpa [softOKb] using c4
  · rw [hls] at h7; exact floatFreeL_JOKs ls h7

/-! ## a concrete model for the non-vacuity examples -/

def exF8 (hi lo : UInt8) : Bytes := [0, 0, 0, 0, 0, 0, lo, hi]

/-- `x + 2.0` over one variable -/
def exExpr : ExprContent := { indices := [0], offset := exF8 64 0, linear := [exF8 63 240], quad := [] }

/-- one BINARY variable labelled `0`; objective `x + 2`; one constraint `"c0": x + 2 <= 1`, one soft constraint `("a", 1)` -/
def exCqm : CqmSrc :=
  { varinfo := [(0, exF8 0 0, exF8 63 240)], labels := none, objective := exExpr,
    constraints := [{ label := .str "c0", lhs := exExpr, rhs := exF8 63 240, sense := [60, 61], discrete := false, soft := none },
                    { label := .tup [.str "a", .int 1], lhs := exExpr, rhs := exF8 0 0, sense := [61, 61], discrete := true,
                      soft := some (exF8 64 0, [108, 105, 110, 101, 97, 114]) }] }

/-- what `zipfile` writes for the ignored fields of a `writestr` member -/
def exMeta : Nat → ZMeta := fun _ =>
  { lver := 20, cver := 788, flags := 0, time := 8640, date := 23870, lcsize := 0, lusize := 0, lextra := [], cextra := [], iattr := 0, eattr := 25165824 }

/-- any function below `2^32` may stand for CRC-32 in the theorems; the driver uses the real one -/
def exCrc : Bytes → Nat := fun b => b.length % 65521

theorem exMeta_ok (i : Nat) : (exMeta i).OK := by simp [exMeta, ZMeta.OK]

theorem memberFits_none (m : List Char × Bytes) (h1 : m.1.length < 256 ^ 2) (h2 : m.2.length < 256 ^ 4 - 1) : MemberFits none m :=
  ⟨h1, h2, fun d hd => by simp at hd⟩

theorem hocc_of_bounded (w : Bytes) (h : ∀ i, i < w.length → SigAt w i → w.length ≤ i + 22) : ∀ i, SigAt w i → w.length ≤ i + 22 := by
  intro i hs
  by_cases hi : i < w.length
  · exact h i hi hs
  · exfalso
    unfold SigAt at hs
    rw [List.drop_eq_nil_of_le (by omega)] at hs
    have := List.IsPrefix.length_le hs
    simp [sigEOCD] at this

instance (w : Bytes) (i : Nat) : Decidable (SigAt w i) := inferInstanceAs (Decidable (sigEOCD <+: w.drop i))

/-! ## the `.npy` side condition as a Boolean check; a concrete DQM -/

def NpyMember.okB (m : NpyMember) : Bool :=
  (match descrSize m.descr with
   | some (_, sz) => decide (m.data.length = shapeCount m.shape * sz)
   | none => false) &&
  decide ('\'' ∉ m.descr) && decide (∀ c ∈ m.descr, c.toNat < 128) && decide (m.shape.length ≤ 1) &&
  decide ((asciiBytes (npyDictText m.descr m.shape)).length + 65 < 256 ^ 2)

theorem NpyMember.okB_sound (m : NpyMember) (h : m.okB = true) : m.OK := by
  simp only [NpyMember.okB, Bool.and_eq_true, decide_eq_true_eq] at h
  obtain ⟨⟨⟨⟨h1, h2⟩, h3⟩, h4⟩, h5⟩ := h
  refine ⟨?_, h2, h3, h4, h5⟩
  cases hd : descrSize m.descr with
  | none => rw [hd] at h1; simp at h1
  | some p => obtain ⟨k, sz⟩ := p; rw [hd] at h1; exact ⟨k, sz, rfl, by simpa using h1⟩

/-- one variable with two cases, linear biases `1.0, 2.0`, one interaction-free model, offset `2.0` -/
def exDqm : DqmContent := { caseStarts := [0], linear := [exF8 63 240, exF8 64 0], lower := [[], []], offset := exF8 64 0 }

/-- the side condition of the truncation theorems as a Boolean check: no signature before the last 22 bytes -/
def sigOnlyAtEnd (w : Bytes) : Bool := (List.range (w.length - 22)).all fun i => !(sigEOCD.isPrefixOf (w.drop i))

theorem sigOnlyAtEnd_sound (w : Bytes) (h : sigOnlyAtEnd w = true) : ∀ i, SigAt w i → w.length ≤ i + 22 := by
  intro i hs
  by_cases hi : i < w.length - 22
  · exfalso
    simp only [sigOnlyAtEnd, List.all_eq_true, List.mem_range, Bool.not_eq_true'] at h
    have := h i hi
    unfold SigAt at hs
    rw [List.isPrefixOf_iff_prefix.mpr hs] at this
    exact Bool.noConfusion this
  · omega

end FileFmt
