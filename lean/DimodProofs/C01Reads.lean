import DimodProofs.CqmSorted
import DimodProofs.C01Energy
import DimodProofs.C01Loops
import DimodModel.ExprReads

/-! Label-based and positional readings of a CQM expression coincide on well-formed, sorted states (C01, round 8). -/

namespace ExprReads
open En CqmP

theorem reindexGen_eq (e : _root_.Expr) (v : Nat) : reindexGen e v = e.reindex v := by
  unfold reindexGen _root_.Expr.reindex reindexTailGen _root_.Expr.reindexTail _root_.Expr.eraseAbove
  simp only [Generated.ExprReindex.startDefault, Generated.ExprReindex.eraseGuard, Generated.ExprReindex.beforeGuard,
    decide_eq_true_eq]
  cases e.idx.get? v <;> rfl

/-- `indices_.find(variables_[i]) = i` -/
theorem idx_at {e : _root_.Expr} (hwf : ExprWF e) {i : Nat} (hi : i < e.vars.length) :
    e.idx.get? (e.vars.getD i 0) = some i := by
  have h : e.vars[i]? = some (e.vars.getD i 0) := by
    rw [List.getD_eq_getElem?_getD, List.getElem?_eq_getElem hi]; rfl
  exact (hwf.idx _ _).mpr h

theorem labelLin_eq {e : _root_.Expr} (hwf : ExprWF e) : labelLin e = e.qb.lin := by
  unfold labelLin
  apply List.ext_getElem
  · rw [List.length_map, hwf.lin_len]
  · intro i h1 h2
    rw [List.length_map] at h1
    rw [List.getElem_map]
    have hg : e.vars[i] = e.vars.getD i 0 := by
      rw [List.getD_eq_getElem?_getD, List.getElem?_eq_getElem h1]; rfl
    rw [hg]
    unfold _root_.Expr.linear
    rw [idx_at hwf h1]
    simp only []
    rw [List.getD_eq_getElem?_getD, List.getElem?_eq_getElem h2]; rfl

/-- in a neighbourhood with strictly increasing keys the lookup finds the entry that is there -/
theorem nbhCoef_of_mem {nb : List (Nat × Rat)} (hs : (nb.map Prod.fst).Pairwise (· < ·)) {v : Nat} {b : Rat}
    (h : (v, b) ∈ nb) : QB.nbhCoef nb v = b := by
  induction nb with
  | nil => cases h
  | cons p t ih =>
    obtain ⟨w, c⟩ := p
    rw [List.map_cons, List.pairwise_cons] at hs
    unfold QB.nbhCoef
    rcases List.mem_cons.mp h with heq | hmem
    · have hw : w = v := (Prod.mk.inj heq).1.symm
      have hc : c = b := (Prod.mk.inj heq).2.symm
      rw [if_pos hw, hc]
    · have hlt : w < v := hs.1 v (List.mem_map.mpr ⟨(v, b), hmem, rfl⟩)
      have hne : ¬ w = v := by omega
      rw [if_neg hne]
      exact ih hs.2 hmem

theorem mem_lowerTerms {u : Nat} {nb : Nbh Rat} {t : Nat × Nat × Rat} (h : t ∈ QMB.lowerTerms u nb) :
    t.1 = u ∧ (t.2.1, t.2.2) ∈ nb := by
  induction nb with
  | nil => cases h
  | cons p rest ih =>
    obtain ⟨v, b⟩ := p
    unfold QMB.lowerTerms at h
    by_cases hv : v ≤ u
    · rw [if_pos hv] at h
      rcases List.mem_cons.mp h with heq | hmem
      · subst heq; exact ⟨rfl, List.mem_cons_self⟩
      · exact ⟨(ih hmem).1, List.mem_cons_of_mem _ (ih hmem).2⟩
    · rw [if_neg hv] at h; cases h

theorem mem_iterQuadraticFrom {k : Nat} {as : List (Nbh Rat)} {t : Nat × Nat × Rat}
    (h : t ∈ QMB.iterQuadraticFrom k as) : ∃ i, i < as.length ∧ t.1 = k + i ∧ (t.2.1, t.2.2) ∈ as.getD i [] := by
  induction as generalizing k with
  | nil => cases h
  | cons nb rest ih =>
    unfold QMB.iterQuadraticFrom at h
    rcases List.mem_append.mp h with h1 | h2
    · have := mem_lowerTerms h1
      exact ⟨0, by simp, by simpa using this.1, by simpa using this.2⟩
    · obtain ⟨i, hi, h3, h4⟩ := ih h2
      exact ⟨i + 1, by simpa using hi, by omega, by simpa using h4⟩

theorem labelQuad_eq {e : _root_.Expr} (hwf : ExprWF e) (hs : ExprSorted e) : labelQuad e = (toEn e).qb.iterQuadratic := by
  unfold labelQuad
  conv => rhs; rw [← List.map_id (toEn e).qb.iterQuadratic]
  apply List.map_congr_left
  intro t ht
  have ht' : t ∈ QMB.iterQuadraticFrom 0 e.qb.adj := ht
  obtain ⟨i, hi, h1, h2⟩ := mem_iterQuadraticFrom ht'
  rw [Nat.zero_add] at h1
  have hiv : i < e.vars.length := by rw [← hwf.adj_len]; exact hi
  have hnb : e.qb.adj.getD i [] ∈ e.qb.adj := by
    rw [List.getD_eq_getElem?_getD, List.getElem?_eq_getElem hi]; exact List.getElem_mem hi
  have hjv : t.2.1 < e.vars.length := hwf.adj_lt _ hnb _ h2
  have hsorted := (adjSorted_iff.mp hs) _ hnb
  obtain ⟨u, v, b⟩ := t
  simp only [id] at *
  subst h1
  unfold _root_.Expr.quadratic
  rw [idx_at hwf hiv, idx_at hwf hjv]
  simp only []
  rw [nbhCoef_of_mem hsorted h2]

/-- **label readings = positional readings** -/
theorem labelPoly_eq_positionPoly {e : _root_.Expr} (hwf : ExprWF e) (hs : ExprSorted e) (x : Nat → Rat) :
    labelPoly e x = positionPoly e x := by
  unfold labelPoly positionPoly
  rw [labelLin_eq hwf, labelQuad_eq hwf hs]

/-- **the energy loop = the polynomial of the label readings** -/
theorem energy_eq_labelPoly {e : _root_.Expr} (hwf : ExprWF e) (hs : ExprSorted e) (x : Nat → Rat) :
    (toEn e).energyCpp x = labelPoly e x := by
  rw [labelPoly_eq_positionPoly hwf hs]
  unfold positionPoly
  have h := En.Expr.energyCpp_eq (toEn e) (by
    intro a ha
    have : a = e.qb.adj := by
      have h2 : (toEn e).qb.adj = some e.qb.adj := rfl
      rw [h2] at ha; exact (Option.some.inj ha).symm
    rw [this]; show e.qb.adj.length = e.qb.lin.length
    rw [hwf.adj_len, hwf.lin_len]) x
  exact h

/-- `degree(g)` by label = length of the neighbourhood at the position of `g` -/
theorem degree_at {e : _root_.Expr} (hwf : ExprWF e) {i : Nat} (hi : i < e.vars.length) :
    degree e (e.vars.getD i 0) = (e.qb.adj.getD i []).length := by
  unfold degree; rw [idx_at hwf hi]

end ExprReads
