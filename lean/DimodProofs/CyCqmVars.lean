import DimodModel.CyCqmVars

/-! Labels and native records of a constrained model stay in lock-step through `add_variables`, whatever the argument and
    whether or not the call raises; records of existing variables are not touched.  Core Lean only. -/

namespace CyCqm

/-- the loop invariant: as many native records as labels, and `count` is that number -/
def Step (s : Loop) : Prop := s.m.labels.length = s.m.info.length ∧ s.count = s.m.labels.length

/-- the state after a turn extends the state before by labels `news` with the record `(vt, lb, ub)` each -/
def Ext (vt : QVT) (lb ub : Rat) (a b : Vars) : Prop :=
  ∃ news : List Label, b.labels = a.labels ++ news ∧ b.info = a.info ++ news.map (fun _ => (vt, lb, ub))

theorem Ext.refl (vt : QVT) (lb ub : Rat) (a : Vars) : Ext vt lb ub a a := ⟨[], by simp, by simp⟩

theorem Ext.trans {vt : QVT} {lb ub : Rat} {a b c : Vars} (h1 : Ext vt lb ub a b) (h2 : Ext vt lb ub b c) : Ext vt lb ub a c := by
  obtain ⟨n1, l1, i1⟩ := h1
  obtain ⟨n2, l2, i2⟩ := h2
  exact ⟨n1 ++ n2, by rw [l2, l1, List.append_assoc], by rw [i2, i1, List.map_append, List.append_assoc]⟩

theorem turn_spec (vt : QVT) (lb ub : Rat) (g1 g2 : Bool) (s : Loop) (v : Option Label) (h : Step s) :
    Step (turn vt lb ub g1 g2 s v).1 ∧ Ext vt lb ub s.m (turn vt lb ub g1 g2 s v).1.m ∧
    (turn vt lb ub g1 g2 s v).2 ≠ some .runtime := by
  obtain ⟨hl, hc⟩ := h
  cases v with
  | none => exact ⟨⟨hl, hc⟩, Ext.refl _ _ _ _, by simp [turn]⟩
  | some v =>
    by_cases hv : v ∈ s.m.labels
    · -- existing label: nothing is added, whatever the checks say
      have e : (if v ∈ s.m.labels then s.m.labels else s.m.labels ++ [v]) = s.m.labels := if_pos hv
      simp only [turn, e]
      rw [if_pos hc]
      split
      · exact ⟨⟨hl, hc⟩, Ext.refl _ _ _ _, by simp⟩
      · split
        · exact ⟨⟨hl, hc⟩, Ext.refl _ _ _ _, by simp⟩
        · split
          · exact ⟨⟨hl, hc⟩, Ext.refl _ _ _ _, by simp⟩
          · exact ⟨⟨hl, hc⟩, Ext.refl _ _ _ _, by simp⟩
    · have e : (if v ∈ s.m.labels then s.m.labels else s.m.labels ++ [v]) = s.m.labels ++ [v] := if_neg hv
      have c1 : ¬ (s.count = (s.m.labels ++ [v]).length) := by simp [hc]
      have c2 : s.count = (s.m.labels ++ [v]).length - 1 := by simp [hc]
      simp only [turn, e, c1, if_false]
      rw [if_pos c2]
      refine ⟨⟨by simp [hl], by simp [hc]⟩, ⟨[v], rfl, by simp⟩, by simp⟩

theorem run_spec (vt : QVT) (lb ub : Rat) (g1 g2 : Bool) (vs : List (Option Label)) (s : Loop) (h : Step s) :
    Step (run vt lb ub g1 g2 s vs).1 ∧ Ext vt lb ub s.m (run vt lb ub g1 g2 s vs).1.m ∧
    (run vt lb ub g1 g2 s vs).2 ≠ some .runtime := by
  induction vs generalizing s with
  | nil => exact ⟨h, Ext.refl _ _ _ _, by simp [run]⟩
  | cons v vs ih =>
    have t := turn_spec vt lb ub g1 g2 s v h
    simp only [run]
    split
    · rename_i s' heq
      rw [heq] at t
      have r := ih s' t.1
      exact ⟨r.1, t.2.1.trans r.2.1, r.2.2⟩
    · rename_i s' e heq
      rw [heq] at t
      exact ⟨t.1, t.2.1, t.2.2⟩

/-- **`add_variables`**: from a model whose labels and native records are in step, for every vartype, bounds and argument list
    (labels that are new, repeated, existing with the same or another vartype / bounds, unhashable objects) and WHETHER OR NOT
    THE CALL RAISES: labels and native records are in step afterwards, the model is the model before extended by new labels that
    all carry the record `(vt, lb, ub)` (so no existing label or record is touched), and the internal `RuntimeError` branch is
    unreachable -/
theorem addVariables_spec (m : Vars) (h : m.labels.length = m.info.length) (vt : QVT) (lb ub : Rat) (g1 g2 : Bool)
    (vs : List (Option Label)) :
    (m.addVariables vt lb ub g1 g2 vs).1.labels.length = (m.addVariables vt lb ub g1 g2 vs).1.info.length ∧
    Ext vt lb ub m (m.addVariables vt lb ub g1 g2 vs).1 ∧ (m.addVariables vt lb ub g1 g2 vs).2 ≠ some .runtime := by
  have r := run_spec vt lb ub g1 g2 vs { m := m, count := m.labels.length } ⟨h, rfl⟩
  exact ⟨r.1.1, r.2.1, r.2.2⟩

end CyCqm
