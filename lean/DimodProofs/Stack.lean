import DimodProofs.Columns

/-! `concatenate`, `as_samples` stacking and deferred sample sets. -/

namespace SSM

theorem allSome_spec {l : List (Option α)} {rs : List α} (h : allSome l = some rs) : l = rs.map some := by
  induction l generalizing rs with
  | nil => simp [allSome] at h; subst h; rfl
  | cons a t ih =>
    cases a with
    | none => simp [allSome] at h
    | some a =>
      simp only [allSome, Option.map_eq_some_iff] at h
      obtain ⟨rs', h1, rfl⟩ := h
      simp [ih h1]

theorem allSome_map_spec (f : α → Option β) (l : List α) (rs : List β) (h : allSome (l.map f) = some rs) :
    rs.length = l.length ∧ ∀ (j : Nat) (a : α), l[j]? = some a → ∃ b, rs[j]? = some b ∧ f a = some b := by
  have e := allSome_spec h
  have hl : l.length = rs.length := by simpa using congrArg List.length e
  refine ⟨hl.symm, ?_⟩
  intro j a ha
  have := congrArg (·[j]?) e
  simp only [List.getElem?_map, ha, Option.map_some] at this
  cases hb : rs[j]? with
  | none => simp [hb] at this
  | some b => exact ⟨b, rfl, by simpa [hb] using this⟩

/-! ### as_samples -/

/-- `alignTo` (repaired code): every label of the first row finds its own value -/
theorem alignTo_spec (fl : List Label) (s : SampleLike) (row : List Rat) (hnd : s.labels.Nodup)
    (h : alignTo true fl s = some row) : ∀ v ∈ fl, cell fl row v = cell s.labels s.vals v := by
  have hlen : s.vals.length = s.labels.length := by cases s <;> simp [SampleLike.vals, SampleLike.labels]
  unfold alignTo at h
  split at h
  · rename_i e
    simp only [Option.some.injEq] at h
    subst h; intro v _; rw [e]
  · split at h
    · rename_i hc
      simp only [Bool.and_eq_true, List.all_eq_true, decide_eq_true_eq] at hc
      simp only [if_true, Option.some.injEq] at h
      subst h
      intro v hv
      have hidx : ∀ i ∈ fl.map (s.labels.idxOf ·), i < s.labels.length := by
        intro i hi
        obtain ⟨w, hw, rfl⟩ := List.mem_map.mp hi
        exact List.idxOf_lt_length_iff.mpr (hc.2 w hw)
      have hg := gather_idxOf s.labels fl hc.2
      have := cell_gather s.labels s.vals (fl.map (s.labels.idxOf ·)) v hnd hlen hidx (by rw [hg]; exact hv)
      rwa [hg] at this
    · cases h

theorem asSamplesIter_spec (f : SampleLike) (rest : List SampleLike) (labels : List Label) (rows : List (List Rat))
    (hnd : ∀ s ∈ f :: rest, s.labels.Nodup)
    (h : asSamplesIter true (f :: rest) = some (labels, rows)) :
    labels = f.labels ∧ rows.length = (f :: rest).length ∧
    ∀ (j : Nat) (s : SampleLike), (f :: rest)[j]? = some s →
      ∃ row, rows[j]? = some row ∧ ∀ v ∈ labels, cell labels row v = cell s.labels s.vals v := by
  simp only [asSamplesIter, Option.map_eq_some_iff, Prod.mk.injEq] at h
  obtain ⟨rs, hrs, rfl, rfl⟩ := h
  obtain ⟨hl, hget⟩ := allSome_map_spec _ _ _ hrs
  refine ⟨rfl, by simp [hl], ?_⟩
  intro j s hs
  cases j with
  | zero =>
    simp only [List.getElem?_cons_zero, Option.some.injEq] at hs
    subst hs
    exact ⟨f.vals, rfl, fun v _ => rfl⟩
  | succ j =>
    simp only [List.getElem?_cons_succ] at hs
    obtain ⟨row, h1, h2⟩ := hget j s hs
    refine ⟨row, by simpa using h1, ?_⟩
    exact alignTo_spec _ s row (hnd s (List.mem_cons_of_mem _ (List.mem_of_getElem? hs))) h2

/-- the code before the repair of D1 sends a value to the wrong label (the reproduction of
    DESIGN.md: `[{'a':3,'b':1,'c':2}, {'b':1,'c':2,'a':3}]`) -/
theorem asSamplesIter_unrepaired_witness :
    let a := Label.str "a"; let b := Label.str "b"; let c := Label.str "c"
    asSamplesIter false [.dict [(a, 3), (b, 1), (c, 2)], .dict [(b, 1), (c, 2), (a, 3)]]
      = some ([a, b, c], [[3, 1, 2], [2, 3, 1]]) := by
  decide +kernel

/-! ### concatenate -/

theorem changeVartype_wf (s : SS) (hwf : s.WF) (vt : VT) (off : Rat) : (s.changeVartype vt off).1.WF := by
  have hm : ∀ (t : SS) (f : Rat → Rat), t.WF → (t.mapSamples f).WF := by
    intro t f ht
    refine ⟨ht.1, ?_⟩
    intro r hr
    simp only [SS.mapSamples, List.mem_map] at hr
    obtain ⟨r0, hr0, rfl⟩ := hr
    have := ht.2 r0 hr0
    simpa [SS.mapSamples] using this
  have hs : (s.shiftEnergy off).WF := by
    refine ⟨hwf.1, ?_⟩
    intro r hr
    simp only [SS.shiftEnergy, List.mem_map] at hr
    obtain ⟨r0, hr0, rfl⟩ := hr
    exact hwf.2 r0 hr0
  unfold SS.changeVartype
  simp only [shift_or]
  split
  · exact hs
  · split
    · exact hm _ _ hs
    · split
      · exact hm _ _ hs
      · exact hs

/-- one further sample set of `concatenate`: after the vartype coercion its rows are re-ordered
    column-wise so that every label of the first set finds its own value -/
theorem coerceTo_spec (vt : VT) (labels : List Label) (s : SS) (hwf : s.WF) (rows' : List Row)
    (h : coerceTo vt labels s = some rows') :
    ∃ s1 : SS, (s1 = s ∨ s1 = (s.changeVartype vt 0).1) ∧ s1.WF ∧
      RowsCarry labels s1.labels s1.rows labels rows' := by
  unfold coerceTo at h
  simp only [] at h
  split at h
  · cases h
  · rename_i s1 hs1
    have h1 : (s1 = s ∨ s1 = (s.changeVartype vt 0).1) := by
      split at hs1
      · simp only [Option.some.injEq] at hs1; exact Or.inl hs1.symm
      · split at hs1
        · rename_i s' hcv; simp only [Option.some.injEq] at hs1; subst hs1; right; rw [hcv]
        · cases hs1
    have hwf1 : s1.WF := by
      rcases h1 with rfl | rfl
      · exact hwf
      · exact changeVartype_wf s hwf vt 0
    refine ⟨s1, h1, hwf1, ?_⟩
    split at h
    · rename_i e
      simp only [Option.some.injEq] at h
      subst h
      refine ⟨id, by simp, ?_⟩
      intro r hr
      refine ⟨rfl, rfl, rfl, ?_, fun v _ => by rw [e]; rfl⟩
      rw [← e]; exact hwf1.2 r hr
    · split at h
      · rename_i hc
        simp only [Bool.and_eq_true, List.all_eq_true, decide_eq_true_eq] at hc
        simp only [Option.some.injEq] at h
        subst h
        have hidx : ∀ i ∈ labels.map (s1.labels.idxOf ·), i < s1.labels.length := by
          intro i hi
          obtain ⟨w, hw, rfl⟩ := List.mem_map.mp hi
          exact List.idxOf_lt_length_iff.mpr (hc.1 w hw)
        have hg := gather_idxOf s1.labels labels hc.1
        refine ⟨fun r => { r with sample := gather r.sample (labels.map (s1.labels.idxOf ·)) }, rfl, ?_⟩
        intro r hr
        refine ⟨rfl, rfl, rfl, ?_, ?_⟩
        · show (gather r.sample _).length = _
          rw [length_gather _ _ (by intro i hi; rw [hwf1.2 r hr]; exact hidx i hi), List.length_map]
        · intro v hv
          have := cell_gather s1.labels r.sample _ v hwf1.1 (hwf1.2 r hr) hidx (by rw [hg]; exact hv)
          rwa [hg] at this
      · cases h

theorem concatenate_spec (first : SS) (rest : List SS) (s' : SS) (h : concatenate (first :: rest) = some s') :
    s'.labels = first.labels ∧ s'.vt = first.vt ∧ s'.fields = first.fields ∧
    ∃ blocks : List (List Row), blocks.length = rest.length ∧ s'.rows = first.rows ++ blocks.flatten ∧
      ∀ (j : Nat) (s : SS), rest[j]? = some s → ∃ b, blocks[j]? = some b ∧ coerceTo first.vt first.labels s = some b := by
  simp only [concatenate] at h
  split at h
  · simp only [Option.map_eq_some_iff] at h
    obtain ⟨rs, hrs, rfl⟩ := h
    obtain ⟨hl, hget⟩ := allSome_map_spec _ _ _ hrs
    exact ⟨rfl, rfl, rfl, rs, hl, rfl, hget⟩
  · cases h

/-! ### deferred sample sets -/

theorem runHooks_append (a b : List Hook) (s : Option SS) : runHooks (a ++ b) s = runHooks b (runHooks a s) := by
  simp [runHooks, List.foldl_append]

theorem runHooks_single (h : Hook) (s : Option SS) : runHooks [h] s = s.bind h.run := rfl

theorem Hook.run_relabel (m : List (Label × Label)) : (Hook.relabel m).run = fun s => s.relabel m := by
  funext s; rfl

/-- resolving what `relabel_variables` returned for a not-yet-resolved sample set gives what
    `relabel_variables` returns for the resolved one — for both values of `inplace`, whether or not
    the future has completed -/
theorem lazy_relabel (x : LSS) (m : List (Label × Label)) (inplace : Bool) :
    (x.relabelOp m inplace).bind LSS.resolve = x.resolve.bind (·.relabel m) := by
  unfold LSS.relabelOp
  split
  · cases h : x.resolve.bind (·.relabel m) <;> simp [LSS.resolve]
  · split
    · cases x with
      | res s => simp [LSS.done] at *
      | fut d r hooks => simp [LSS.resolve, runHooks_append, runHooks_single, Hook.run_relabel]
      | wrap inner hooks => simp [LSS.resolve, runHooks_append, runHooks_single, Hook.run_relabel]
    · simp [LSS.resolve, runHooks_single, Hook.run_relabel]

theorem lazy_changeVt (x : LSS) (vt : VT) (off : Rat) (inplace : Bool) :
    (x.changeVtOp vt off inplace).bind LSS.resolve = x.resolve.bind (Hook.changeVt vt off).run := by
  unfold LSS.changeVtOp
  split
  · cases h : x.resolve.bind (Hook.changeVt vt off).run <;> simp [LSS.resolve]
  · split
    · simp [LSS.resolve, runHooks_single]
    · cases h : x.resolve.bind (Hook.changeVt vt off).run <;> simp [LSS.resolve]

end SSM
