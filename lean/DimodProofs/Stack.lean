import DimodProofs.Columns
import DimodProofs.Slice

/-! `concatenate`, `as_samples` stacking and deferred sample sets. -/

namespace SSM

theorem allSome_spec {l : List (Option α)} {rs : List α} (h : allSome l = some rs) : l = rs.map some := by
  induction l generalizing rs with
  | nil => simp [allSome] at h; subst h; rfl
  | cons a t ih =>
    cases a with
    | none => simp [allSome] at h
    | some a =>
      simp only [allSome, Option.map_eq_some_iff] at h
      obtain ⟨rs', h1, rfl⟩ := h
      simp [ih h1]

theorem allSome_map_spec (f : α → Option β) (l : List α) (rs : List β) (h : allSome (l.map f) = some rs) :
    rs.length = l.length ∧ ∀ (j : Nat) (a : α), l[j]? = some a → ∃ b, rs[j]? = some b ∧ f a = some b := by
  have e := allSome_spec h
  have hl : l.length = rs.length := by simpa using congrArg List.length e
  refine ⟨hl.symm, ?_⟩
  intro j a ha
  have := congrArg (·[j]?) e
  simp only [List.getElem?_map, ha, Option.map_some] at this
  cases hb : rs[j]? with
  | none => simp [hb] at this
  | some b => exact ⟨b, rfl, by simpa [hb] using this⟩

/-! ### as_samples -/

/-- `alignTo` (repaired code): every label of the first row finds its own value -/
theorem alignTo_spec (fl : List Label) (s : SampleLike) (row : List Rat) (hnd : s.labels.Nodup)
    (h : alignTo true fl s = some row) : ∀ v ∈ fl, cell fl row v = cell s.labels s.vals v := by
  have hlen : s.vals.length = s.labels.length := by cases s <;> simp [SampleLike.vals, SampleLike.labels]
  unfold alignTo at h
  split at h
  · rename_i e
    simp only [Option.some.injEq] at h
    subst h; intro v _; rw [e]
  · split at h
    · rename_i hc
      simp only [Bool.and_eq_true, List.all_eq_true, decide_eq_true_eq] at hc
      simp only [if_true, Option.some.injEq] at h
      subst h
      intro v hv
      have hidx : ∀ i ∈ fl.map (s.labels.idxOf ·), i < s.labels.length := by
        intro i hi
        obtain ⟨w, hw, rfl⟩ := List.mem_map.mp hi
        exact List.idxOf_lt_length_iff.mpr (hc.2 w hw)
      have hg := gather_idxOf s.labels fl hc.2
      have := cell_gather s.labels s.vals (fl.map (s.labels.idxOf ·)) v hnd hlen hidx (by rw [hg]; exact hv)
      rwa [hg] at this
    · cases h

theorem asSamplesIter_spec (f : SampleLike) (rest : List SampleLike) (labels : List Label) (rows : List (List Rat))
    (hnd : ∀ s ∈ f :: rest, s.labels.Nodup)
    (h : asSamplesIter true (f :: rest) = some (labels, rows)) :
    labels = f.labels ∧ rows.length = (f :: rest).length ∧
    ∀ (j : Nat) (s : SampleLike), (f :: rest)[j]? = some s →
      ∃ row, rows[j]? = some row ∧ ∀ v ∈ labels, cell labels row v = cell s.labels s.vals v := by
  simp only [asSamplesIter, Option.map_eq_some_iff, Prod.mk.injEq] at h
  obtain ⟨rs, hrs, rfl, rfl⟩ := h
  obtain ⟨hl, hget⟩ := allSome_map_spec _ _ _ hrs
  refine ⟨rfl, by simp [hl], ?_⟩
  intro j s hs
  cases j with
  | zero =>
    simp only [List.getElem?_cons_zero, Option.some.injEq] at hs
    subst hs
    exact ⟨f.vals, rfl, fun v _ => rfl⟩
  | succ j =>
    simp only [List.getElem?_cons_succ] at hs
    obtain ⟨row, h1, h2⟩ := hget j s hs
    refine ⟨row, by simpa using h1, ?_⟩
    exact alignTo_spec _ s row (hnd s (List.mem_cons_of_mem _ (List.mem_of_getElem? hs))) h2

/-- the code before the repair of D1 sends a value to the wrong label (the reproduction of
    DESIGN.md: `[{'a':3,'b':1,'c':2}, {'b':1,'c':2,'a':3}]`) -/
theorem asSamplesIter_unrepaired_witness :
    let a := Label.str "a"; let b := Label.str "b"; let c := Label.str "c"
    asSamplesIter false [.dict [(a, 3), (b, 1), (c, 2)], .dict [(b, 1), (c, 2), (a, 3)]]
      = some ([a, b, c], [[3, 1, 2], [2, 3, 1]]) := by
  decide +kernel

/-! ### concatenate -/

theorem changeVartype_wf (s : SS) (hwf : s.WF) (vt : VT) (off : Rat) : (s.changeVartype vt off).1.WF := by
  have hm : ∀ (t : SS) (f : Rat → Rat), t.WF → (t.mapSamples f).WF := by
    intro t f ht
    refine ⟨ht.1, ?_⟩
    intro r hr
    simp only [SS.mapSamples, List.mem_map] at hr
    obtain ⟨r0, hr0, rfl⟩ := hr
    have := ht.2 r0 hr0
    simpa [SS.mapSamples] using this
  have hs : (s.shiftEnergy off).WF := by
    refine ⟨hwf.1, ?_⟩
    intro r hr
    simp only [SS.shiftEnergy, List.mem_map] at hr
    obtain ⟨r0, hr0, rfl⟩ := hr
    exact hwf.2 r0 hr0
  unfold SS.changeVartype
  simp only [shift_or]
  split
  · exact hs
  · split
    · exact hm _ _ hs
    · split
      · exact hm _ _ hs
      · exact hs

/-- one further sample set of `concatenate`: after the vartype coercion its rows are re-ordered
    column-wise so that every label of the first set finds its own value -/
theorem coerceTo_spec (vt : VT) (labels : List Label) (s : SS) (hwf : s.WF) (rows' : List Row)
    (h : coerceTo vt labels s = some rows') :
    ∃ s1 : SS, (s1 = s ∨ s1 = (s.changeVartype vt 0).1) ∧ s1.WF ∧
      RowsCarry labels s1.labels s1.rows labels rows' := by
  unfold coerceTo at h
  simp only [] at h
  split at h
  · cases h
  · rename_i s1 hs1
    have h1 : (s1 = s ∨ s1 = (s.changeVartype vt 0).1) := by
      split at hs1
      · simp only [Option.some.injEq] at hs1; exact Or.inl hs1.symm
      · split at hs1
        · rename_i s' hcv; simp only [Option.some.injEq] at hs1; subst hs1; right; rw [hcv]
        · cases hs1
    have hwf1 : s1.WF := by
      rcases h1 with rfl | rfl
      · exact hwf
      · exact changeVartype_wf s hwf vt 0
    refine ⟨s1, h1, hwf1, ?_⟩
    split at h
    · rename_i e
      simp only [Option.some.injEq] at h
      subst h
      refine ⟨id, by simp, ?_⟩
      intro r hr
      refine ⟨rfl, rfl, rfl, ?_, fun v _ => by rw [e]; rfl⟩
      rw [← e]; exact hwf1.2 r hr
    · split at h
      · rename_i hc
        simp only [Bool.and_eq_true, List.all_eq_true, decide_eq_true_eq] at hc
        simp only [Option.some.injEq] at h
        subst h
        have hidx : ∀ i ∈ labels.map (s1.labels.idxOf ·), i < s1.labels.length := by
          intro i hi
          obtain ⟨w, hw, rfl⟩ := List.mem_map.mp hi
          exact List.idxOf_lt_length_iff.mpr (hc.1 w hw)
        have hg := gather_idxOf s1.labels labels hc.1
        refine ⟨fun r => { r with sample := gather r.sample (labels.map (s1.labels.idxOf ·)) }, rfl, ?_⟩
        intro r hr
        refine ⟨rfl, rfl, rfl, ?_, ?_⟩
        · show (gather r.sample _).length = _
          rw [length_gather _ _ (by intro i hi; rw [hwf1.2 r hr]; exact hidx i hi), List.length_map]
        · intro v hv
          have := cell_gather s1.labels r.sample _ v hwf1.1 (hwf1.2 r hr) hidx (by rw [hg]; exact hv)
          rwa [hg] at this
      · cases h

theorem concatenate_spec (first : SS) (rest : List SS) (s' : SS) (h : concatenate (first :: rest) = some s') :
    s'.labels = first.labels ∧ s'.vt = first.vt ∧ s'.fields = first.fields ∧
    ∃ blocks : List (List Row), blocks.length = rest.length ∧ s'.rows = first.rows ++ blocks.flatten ∧
      ∀ (j : Nat) (s : SS), rest[j]? = some s → ∃ b, blocks[j]? = some b ∧ coerceTo first.vt first.labels s = some b := by
  simp only [concatenate] at h
  split at h
  · simp only [Option.map_eq_some_iff] at h
    obtain ⟨rs, hrs, rfl⟩ := h
    obtain ⟨hl, hget⟩ := allSome_map_spec _ _ _ hrs
    exact ⟨rfl, rfl, rfl, rs, hl, rfl, hget⟩
  · cases h

/-! ### deferred sample sets -/

theorem runHooks_append (a b : List Hook) (s : Option SS) : runHooks (a ++ b) s = runHooks b (runHooks a s) := by
  simp [runHooks, List.foldl_append]

theorem runHooks_single (h : Hook) (s : Option SS) : runHooks [h] s = s.bind h.run := rfl

theorem Hook.run_relabel (m : List (Label × Label)) : (Hook.relabel m).run = fun s => s.relabel m := by
  funext s; rfl

/-- resolving what `relabel_variables` returned for a not-yet-resolved sample set gives what
    `relabel_variables` returns for the resolved one — for both values of `inplace`, whether or not
    the future has completed -/
theorem lazy_relabel (x : LSS) (m : List (Label × Label)) (inplace : Bool) :
    (x.relabelOp m inplace).bind LSS.resolve = x.resolve.bind (·.relabel m) := by
  unfold LSS.relabelOp
  split
  · cases h : x.resolve.bind (·.relabel m) <;> simp [LSS.resolve]
  · split
    · cases x with
      | res s => simp [LSS.done] at *
      | fut d r hooks => simp [LSS.resolve, runHooks_append, runHooks_single, Hook.run_relabel]
      | wrap inner hooks => simp [LSS.resolve, runHooks_append, runHooks_single, Hook.run_relabel]
    · simp [LSS.resolve, runHooks_single, Hook.run_relabel]

theorem lazy_changeVt (x : LSS) (vt : VT) (off : Rat) (inplace : Bool) :
    (x.changeVtOp vt off inplace).bind LSS.resolve = x.resolve.bind (Hook.changeVt vt off).run := by
  unfold LSS.changeVtOp
  split
  · cases h : x.resolve.bind (Hook.changeVt vt off).run <;> simp [LSS.resolve]
  · split
    · simp [LSS.resolve, runHooks_single]
    · cases h : x.resolve.bind (Hook.changeVt vt off).run <;> simp [LSS.resolve]

end SSM

namespace SSM

def Row.zero' : Row := ⟨[], 0, 0, []⟩

/-! ### data() / samples() -/

theorem dataOrder_perm (rows : List Row) (by_ : Option Key) (rev : Bool) :
    (dataOrder rows by_ rev).Perm (List.range rows.length) := by
  cases by_ with
  | none => cases rev <;> simp [dataOrder, List.reverse_perm]
  | some k =>
    have h : (argsort (rows.map (fun r : Row => r.key k))).Perm (List.range rows.length) := by
      simpa using (argsort_isSortingPerm (rows.map (fun r : Row => r.key k))).1
    cases rev
    · simpa [dataOrder] using h
    · simpa [dataOrder] using (List.reverse_perm _).trans h

/-- every datum yielded by `data(index=True)` is the row at the index it reports -/
theorem data_index (s : SS) (by_ : Option Key) (rev : Bool) (r : Row) (i : Nat) (h : (r, i) ∈ s.data by_ rev) :
    s.rows[i]? = some r := by
  simp only [SS.data, List.mem_filterMap] at h
  obtain ⟨j, _, hj⟩ := h
  cases hr : s.rows[j]? with
  | none => simp [hr] at hj
  | some r' =>
    simp only [hr, Option.map_some, Option.some.injEq, Prod.mk.injEq] at hj
    obtain ⟨rfl, rfl⟩ := hj
    exact hr

/-- `data()` yields every row exactly once -/
theorem data_rows_perm (s : SS) (by_ : Option Key) (rev : Bool) : ((s.data by_ rev).map (·.1)).Perm s.rows := by
  have hp := dataOrder_perm s.rows by_ rev
  have hlt : ∀ i ∈ dataOrder s.rows by_ rev, i < s.rows.length := fun i hi => by simpa using hp.mem_iff.mp hi
  have : (s.data by_ rev).map (·.1) = gather s.rows (dataOrder s.rows by_ rev) := by
    simp only [SS.data, gather, List.map_filterMap]
    congr 1
    funext i
    cases s.rows[i]? <;> rfl
  rw [this]
  exact gather_perm _ _ hp

/-- sorted ascending, or descending with `reverse=True` -/
theorem data_sorted (s : SS) (k : Key) :
    ((gather s.rows (dataOrder s.rows (some k) false)).Pairwise fun a b => a.key k ≤ b.key k) ∧
    ((gather s.rows (dataOrder s.rows (some k) true)).Pairwise fun a b => b.key k ≤ a.key k) := by
  have hs := (argsort_isSortingPerm (s.rows.map (·.key k))).2
  rw [gather_map, List.pairwise_map] at hs
  have hlt : ∀ i ∈ argsort (s.rows.map (·.key k)), i < s.rows.length := fun i hi => by
    have := argsort_lt _ i hi; simpa using this
  constructor
  · simpa [dataOrder] using hs
  · simp only [dataOrder, if_true]
    rw [gather_eq_map _ _ (by intro i hi; exact hlt i (List.mem_reverse.mp hi)) Row.zero', List.map_reverse, List.pairwise_reverse,
      ← gather_eq_map _ _ hlt Row.zero']
    exact hs

/-! ### concatenate with different data vectors -/

theorem getElem?_map_idxOf [BEq α] [LawfulBEq α] (l : List α) (g : α → β) (f : α) (hf : f ∈ l) :
    (l.map g)[l.idxOf f]? = some (g f) := by
  have hk : l.idxOf f < l.length := List.idxOf_lt_length_iff.mpr hf
  rw [List.getElem?_map, List.getElem?_eq_getElem hk, List.getElem_idxOf hk]
  rfl

/-- laying a row out over the union of the fields keeps sample, energy and occurrences, keeps every field the
    set has, and fills exactly the missing ones -/
theorem relayExtra_spec (U : List String) (fill : String → List Rat) (s : SS) (r : Row) :
    (relayExtra U fill s r).sample = r.sample ∧ (relayExtra U fill s r).energy = r.energy ∧ (relayExtra U fill s r).occ = r.occ ∧
    ∀ f ∈ U, (relayExtra U fill s r).extra[U.idxOf f]? =
      some (if f ∈ s.fields then r.extra.getD (s.fields.idxOf f) [] else fill f) := by
  refine ⟨rfl, rfl, rfl, ?_⟩
  intro f hf
  exact getElem?_map_idxOf U _ f hf

theorem concatenateD_spec (fill : String → List Rat) (first : SS) (rest : List SS) (s' : SS)
    (h : concatenateD fill (first :: rest) = some s') :
    s'.labels = first.labels ∧ s'.vt = first.vt ∧ s'.fields = unionFields (first :: rest) ∧
    ∃ blocks : List (List Row), blocks.length = rest.length ∧
      s'.rows = first.rows.map (relayExtra (unionFields (first :: rest)) fill first) ++ blocks.flatten ∧
      ∀ (j : Nat) (s : SS), rest[j]? = some s → ∃ b rows, blocks[j]? = some b ∧ coerceTo first.vt first.labels s = some rows ∧
        b = rows.map (relayExtra (unionFields (first :: rest)) fill s) := by
  simp only [concatenateD, Option.map_eq_some_iff] at h
  obtain ⟨rs, hrs, rfl⟩ := h
  obtain ⟨hl, hget⟩ := allSome_map_spec _ _ _ hrs
  refine ⟨rfl, rfl, rfl, rs, hl, rfl, ?_⟩
  intro j s hs
  obtain ⟨b, hb, he⟩ := hget j s hs
  simp only [Option.map_eq_some_iff] at he
  obtain ⟨rows, hr, rfl⟩ := he
  exact ⟨_, rows, hb, hr, rfl⟩

end SSM
