import DimodProofs.QmSubst

/-! `QuadraticModel`: `change_vartype` (through `substitute_variable` as coded) and `flip_variable` refine closed-form
    steps on the label-keyed polynomial `absQ`.  Core Lean only. -/

namespace Qm
open Bqm (modifyAt nbhCoef coefAt AdjWF NbSorted)

/-! ### substitute_variable on the polynomial -/

def QPoly.substitute (p : QPoly) (v : Label) (mult c : Rat) : QPoly :=
  { p with
    lin := fun l => if l = v then p.lin v * mult + ((p.quad v v).map fun b => 2 * b * mult * c).getD 0
                    else p.lin l + ((p.quad v l).map fun b => b * c).getD 0,
    quad := fun a b => if a = v ∧ b = v then (p.quad a b).map (· * (mult * mult))
                       else if a = v ∨ b = v then (p.quad a b).map (· * mult) else p.quad a b,
    off := p.off + p.lin v * c + ((p.quad v v).map fun b => b * c * c).getD 0 }

def QPoly.setInfo (p : QPoly) (v : Label) (t : QVT) (l u : Rat) : QPoly :=
  { p with info := fun x => if x = v then (p.info x).map (fun _ => (t, l, u)) else p.info x }

def QPoly.setVt (p : QPoly) (v : Label) (t : QVT) : QPoly :=
  { p with info := fun x => if x = v then (p.info x).map (fun i => (t, i.2.1, i.2.2)) else p.info x }

theorem substStep_same (v : Nat) (mult c : Rat) (acc : Qm) (p : Nat × Rat) :
    (substStep v mult c acc p).labels = acc.labels ∧ (substStep v mult c acc p).vt = acc.vt ∧
    (substStep v mult c acc p).lb = acc.lb ∧ (substStep v mult c acc p).ub = acc.ub ∧
    (substStep v mult c acc p).imax = acc.imax ∧ (substStep v mult c acc p).rmax = acc.rmax := by
  unfold substStep; split <;> exact ⟨rfl, rfl, rfl, rfl, rfl, rfl⟩

theorem substituteVariable_same (m : Qm) (v : Nat) (mult c : Rat) :
    (m.substituteVariable v mult c).labels = m.labels ∧ (m.substituteVariable v mult c).vt = m.vt ∧
    (m.substituteVariable v mult c).lb = m.lb ∧ (m.substituteVariable v mult c).ub = m.ub ∧
    (m.substituteVariable v mult c).imax = m.imax ∧ (m.substituteVariable v mult c).rmax = m.rmax := by
  unfold Qm.substituteVariable
  dsimp only
  generalize ({ m with off := m.off + m.linAt v * c, lin := modifyAt m.lin v (· * mult) } : Qm).nbhAt v = ps
  have : ∀ (acc : Qm), (ps.foldl (substStep v mult c) acc).labels = acc.labels ∧ (ps.foldl (substStep v mult c) acc).vt = acc.vt ∧
      (ps.foldl (substStep v mult c) acc).lb = acc.lb ∧ (ps.foldl (substStep v mult c) acc).ub = acc.ub ∧
      (ps.foldl (substStep v mult c) acc).imax = acc.imax ∧ (ps.foldl (substStep v mult c) acc).rmax = acc.rmax := by
    induction ps with
    | nil => intro acc; exact ⟨rfl, rfl, rfl, rfl, rfl, rfl⟩
    | cons p t ih =>
      intro acc
      simp only [List.foldl]
      have s := substStep_same v mult c acc p
      have r := ih (substStep v mult c acc p)
      exact ⟨r.1.trans s.1, r.2.1.trans s.2.1, r.2.2.1.trans s.2.2.1, r.2.2.2.1.trans s.2.2.2.1,
        r.2.2.2.2.1.trans s.2.2.2.2.1, r.2.2.2.2.2.trans s.2.2.2.2.2⟩
  exact this _

theorem substituteVariable_refines {m : Qm} (i : Inv m) {v : Label} {vi : Nat} (hv : m.indexOf? v = some vi) (mult c : Rat) :
    absQ (m.substituteVariable vi mult c) = (absQ m).substitute v mult c := by
  have hvl := indexOf?_lt i.wf hv
  have sp := substituteVariable_spec i.wf vi mult c hvl
  have sm := substituteVariable_same m vi mult c
  have hidx : ∀ l, (m.substituteVariable vi mult c).indexOf? l = m.indexOf? l := by
    intro l; unfold Qm.indexOf?; rw [sm.1]
  have hvv : m.quadL v v = coefAt m.adj vi vi := by unfold quadL; rw [hv]
  have hlv : m.linL v = m.lin.getD vi 0 := by unfold linL; rw [hv]
  apply QPoly.ext'
  · exact sm.2.2.2.2.1
  · exact sm.2.2.2.2.2
  · exact sm.1
  · intro l
    show infoL _ l = m.infoL l
    unfold infoL Qm.vtAt
    rw [hidx, sm.2.1, sm.2.2.1, sm.2.2.2.1]
  · intro l
    show linL _ l = if l = v then m.linL v * mult + ((m.quadL v v).map fun b => 2 * b * mult * c).getD 0
                    else m.linL l + ((m.quadL v l).map fun b => b * c).getD 0
    rw [hvv, hlv]
    unfold linL
    rw [hidx]
    by_cases hl : l = v
    · rw [hl, hv]; simp only [if_true]
      rw [sp.2.1 vi]; simp
    · simp only [hl, if_false]
      cases hj : m.indexOf? l with
      | none =>
        have : m.quadL v l = none := by unfold quadL; rw [hv, hj]
        rw [this]; simp [Rat.add_zero]
      | some j =>
        have hne : j ≠ vi := fun e => hl ((idx_eq_iff hj hv).mp e)
        have : m.quadL v l = coefAt m.adj vi j := by unfold quadL; rw [hv, hj]
        rw [this]
        simp only []
        rw [sp.2.1 j]; simp [hne]
  · intro a b
    show quadL _ a b = if a = v ∧ b = v then (m.quadL a b).map (· * (mult * mult))
                       else if a = v ∨ b = v then (m.quadL a b).map (· * mult) else m.quadL a b
    unfold quadL
    rw [hidx, hidx]
    cases ha : m.indexOf? a with
    | none => simp
    | some x =>
      cases hb : m.indexOf? b with
      | none => simp
      | some y =>
        simp only []
        rw [sp.1 x y]
        simp only [idx_eq_iff ha hv, idx_eq_iff hb hv]
  · show (m.substituteVariable vi mult c).off = m.off + m.linL v * c + ((m.quadL v v).map fun b => b * c * c).getD 0
    rw [hvv, hlv, sp.2.2.1]

theorem Inv.of_same {m m' : Qm} (i : Inv m) (w : WF m') (h : m'.labels = m.labels) : Inv m' := ⟨w, by rw [h]; exact i.nodup⟩

theorem setInfo_refines {m : Qm} (h : WF m) {v : Label} {vi : Nat} (hv : m.indexOf? v = some vi) (t : QVT) (l u : Rat) :
    absQ (m.setInfo vi t l u) = (absQ m).setInfo v t l u := by
  have hlt := indexOf?_lt h hv
  apply QPoly.ext' <;> try (first | rfl | (intro _; rfl) | (intro _ _; rfl))
  intro x
  show (m.indexOf? x).map (fun i => ((modifyAt m.vt vi (fun _ => t)).getD i .binary, (modifyAt m.lb vi (fun _ => l)).getD i 0,
      (modifyAt m.ub vi (fun _ => u)).getD i 0)) = if x = v then (m.infoL x).map (fun _ => (t, l, u)) else m.infoL x
  unfold infoL
  by_cases hx : x = v
  · rw [hx, hv]; simp only [if_true, Option.map_some]
    rw [Bqm.getD_modifyAt_self _ _ _ _ (by rw [h.vt_len]; exact hlt), Bqm.getD_modifyAt_self _ _ _ _ (by rw [h.lb_len]; exact hlt),
      Bqm.getD_modifyAt_self _ _ _ _ (by rw [h.ub_len]; exact hlt)]
  · simp only [hx, if_false]
    cases hj : m.indexOf? x with
    | none => rfl
    | some j =>
      have : vi ≠ j := fun e => hx ((idx_eq_iff hj hv).mp e.symm)
      simp only [Option.map_some]
      rw [Bqm.getD_modifyAt_ne _ _ _ _ _ this, Bqm.getD_modifyAt_ne _ _ _ _ _ this, Bqm.getD_modifyAt_ne _ _ _ _ _ this]
      rfl

theorem setVt_refines {m : Qm} (h : WF m) {v : Label} {vi : Nat} (hv : m.indexOf? v = some vi) (t : QVT) :
    absQ { m with vt := modifyAt m.vt vi (fun _ => t) } = (absQ m).setVt v t := by
  have hlt := indexOf?_lt h hv
  apply QPoly.ext' <;> try (first | rfl | (intro _; rfl) | (intro _ _; rfl))
  intro x
  show (m.indexOf? x).map (fun i => ((modifyAt m.vt vi (fun _ => t)).getD i .binary, m.lb.getD i 0, m.ub.getD i 0)) =
    if x = v then (m.infoL x).map (fun i => (t, i.2.1, i.2.2)) else m.infoL x
  unfold infoL
  by_cases hx : x = v
  · rw [hx, hv]; simp only [if_true, Option.map_some]
    rw [Bqm.getD_modifyAt_self _ _ _ _ (by rw [h.vt_len]; exact hlt)]
  · simp only [hx, if_false]
    cases hj : m.indexOf? x with
    | none => rfl
    | some j =>
      have : vi ≠ j := fun e => hx ((idx_eq_iff hj hv).mp e.symm)
      simp only [Option.map_some]
      rw [Bqm.getD_modifyAt_ne _ _ _ _ _ this]
      rfl

/-- `change_vartype(vartype, v)` on the polynomial: SPIN ↔ BINARY by substitution `s = 2x − 1` / `x = (s + 1)/2`,
    SPIN → INTEGER through BINARY, BINARY → INTEGER only retags; anything else is rejected -/
def QPoly.changeVartype (p : QPoly) (t : QVT) (v : Label) : QPoly :=
  match p.info v with
  | none => p
  | some i =>
    match i.1, t with
    | .spin, .binary => (p.substitute v 2 (-1)).setInfo v .binary 0 1
    | .binary, .spin => (p.substitute v (1/2) (1/2)).setInfo v .spin (-1) 1
    | .spin, .integer => ((p.substitute v 2 (-1)).setInfo v .binary 0 1).setVt v .integer
    | .binary, .integer => p.setVt v .integer
    | _, _ => p

theorem changeVartype_refines {m : Qm} (i : Inv m) (t : QVT) (v : Label) :
    absQ (m.changeVartype t v).1 = (absQ m).changeVartype t v ∧ Inv (m.changeVartype t v).1 := by
  have hwf := i.wf.changeVartype t v
  unfold Qm.changeVartype QPoly.changeVartype at *
  show _ = (match m.infoL v with | none => absQ m | some i => _) ∧ _
  unfold infoL
  cases hv : m.indexOf? v with
  | none => exact ⟨rfl, i⟩
  | some vi =>
    rw [hv] at hwf
    simp only [Option.map_some] at hwf ⊢
    have hvl := indexOf?_lt i.wf hv
    have sub : ∀ mult c, absQ (m.substituteVariable vi mult c) = (absQ m).substitute v mult c ∧
        (m.substituteVariable vi mult c).indexOf? v = some vi ∧
        ((m.substituteVariable vi mult c).labels = m.labels) := by
      intro mult c
      have sm := substituteVariable_same m vi mult c
      exact ⟨substituteVariable_refines i hv mult c, by unfold Qm.indexOf?; rw [sm.1]; exact hv, sm.1⟩
    have noself : isBin (m.vtAt vi) = true → coefAt m.adj vi vi = none := fun hb => i.wf.adj.noself vi (loopOK_false_of_bin hb)
    unfold Qm.changeVartypeAt at hwf ⊢
    cases hs : m.vtAt vi <;> cases t <;> simp only [hs] at hwf ⊢
    all_goals (try exact ⟨rfl, i⟩)
    all_goals (try exact ⟨trivial, i⟩)
    · -- spin → binary
      have s := sub 2 (-1)
      have w := (i.wf.substituteVariable vi 2 (-1) hvl (noself (by rw [hs]; rfl))).1
      rw [setInfo_refines w s.2.1, s.1]
      exact ⟨rfl, i.of_same hwf s.2.2⟩
    · -- spin → integer
      have s := sub 2 (-1)
      have w := (i.wf.substituteVariable vi 2 (-1) hvl (noself (by rw [hs]; rfl)))
      have hns2 : coefAt (m.substituteVariable vi 2 (-1)).adj vi vi = none :=
        w.1.adj.noself vi (by unfold Qm.loopOK Qm.vtAt; rw [w.2.1]; show (!isBin (m.vtAt vi)) = false; rw [hs]; rfl)
      have w2 := w.1.setInfo vi .binary 0 1 hns2
      have hv2 : ((m.substituteVariable vi 2 (-1)).setInfo vi .binary 0 1).indexOf? v = some vi := s.2.1
      rw [setVt_refines w2 hv2, setInfo_refines w.1 s.2.1, s.1]
      exact ⟨rfl, i.of_same hwf s.2.2⟩
    · -- binary → spin
      have s := sub (1/2) (1/2)
      have w := (i.wf.substituteVariable vi (1/2) (1/2) hvl (noself (by rw [hs]; rfl))).1
      rw [setInfo_refines w s.2.1, s.1]
      exact ⟨rfl, i.of_same hwf s.2.2⟩
    · -- binary → integer
      rw [setVt_refines i.wf hv]
      exact ⟨rfl, i.of_same hwf rfl⟩

end Qm
