import DimodModel.Fix

/-! D5 (polynomial `fix_variables` counted the constant term twice) and D7 (`VartypeView.offset` setter compared
    with a bound method) on the mirrored pre-repair functions, next to the repaired ones. -/

namespace C03Witness
open En

/-- the polynomial `5 + a` (variable `a` at position 0), `a` fixed to 1: the value must be 6 -/
def p : Poly Rat := [([], 5), ([0], 1)]

theorem d5_old_value : polySpec (fun _ => 0) (polyFixVariablesOld p [(0, 1)]) = 11 := by decide +kernel
theorem d5_old_wrong : polySpec (fun _ => 0) (polyFixVariablesOld p [(0, 1)]) ≠ polySpec (fun _ => (1 : Rat)) p := by decide +kernel
theorem d5_new_value : polySpec (fun _ => 0) (polyFixVariables p [(0, 1)]) = 6 := by decide +kernel

/-- a BINARY dict BQM seen through a view object of vartype BINARY (held from before an in-place change_vartype) -/
def d : LBqm Rat := { vt := .binary, adj := [(.str "a", [(.str "a", 1)])], off := 0 }

theorem d7_old_raises : (View.setOffsetOld viewTables .binary d 3).toOption = none := by decide +kernel
theorem d7_new_sets : ((View.setOffset viewTables .binary d 3).toOption.map (·.off)) = some 3 := by decide +kernel

end C03Witness
