import DimodProofs.ExprFile

/-! # BQM files (format v1 and v2): round trip and truncation (C09 / C10) -/

namespace FileFmt

open Prog

/-! ## the header as a component with padding -/

/-- a padded component followed by a continuation that raises at end of input -/
theorem Comp.bind_padded {p : Prog α} {f : α → Prog β} {xs1 xs2 : Bytes} {a : α} {b : β} {pad1 pad2 : Nat}
    (h1 : Comp p xs1 a pad1) (eof : EofFails (f a)) (h2 : Comp (f a) xs2 b pad2) :
    Comp (p.bind f) (xs1 ++ xs2) b pad2 := by
  constructor
  · intro rest
    rw [List.append_assoc, run_bind_ok (h1.full _)]
    exact h2.full rest
  · intro k hk
    by_cases hlt : k < xs1.length
    · rw [take_append_lt (Nat.le_of_lt hlt)]
      rcases h1.cut k hlt with ⟨e, he⟩ | ⟨_, hok⟩
      · exact .inl ⟨e, run_bind_err he⟩
      · obtain ⟨e, he⟩ := eof
        exact .inl ⟨e, by rw [run_bind_ok hok]; exact he⟩
    · have hge : xs1.length ≤ k := Nat.le_of_not_lt hlt
      rw [take_append_ge hge]
      have hk2 : k - xs1.length < xs2.length := by simp at hk; omega
      have hf := h1.full (xs2.take (k - xs1.length))
      rcases h2.cut _ hk2 with ⟨e, he⟩ | ⟨hle, hok⟩
      · exact .inl ⟨e, by rw [run_bind_ok hf]; exact he⟩
      · refine .inr ⟨by simp; omega, ?_⟩
        rw [run_bind_ok hf]; exact hok

theorem take_text_nl_spaces (text : Bytes) (n j : Nat) (hj : text.length ≤ j) :
    ∃ ws : Bytes, (text ++ 10 :: spaces n).take j = text ++ ws ∧ ∀ b ∈ ws, b = 32 ∨ b = 10 := by
  refine ⟨((10 : UInt8) :: spaces n).take (j - text.length), ?_, ?_⟩
  · rw [take_append_ge hj]
  · intro b hb
    exact header_pad_mem b (List.mem_of_mem_take hb)

/-- `read_header` on `make_header`: a cut header raises unless only the newline / blanks after
    the JSON text were lost -/
theorem Comp.header (pre text : Bytes) (maj min : UInt8) (parse : Bytes → Option H) (h : H)
    (hj : JsonContract parse text h) (hascii : ∀ b ∈ text, b < 128) (hlen : text.length + 65 < 2 ^ 32) :
    Comp (readHeader pre parse) (makeHeader pre maj min text) ([maj.toNat, min.toNat], h)
      (1 + padLen (pre.length + 2 + 4 + text.length + 1)) := by
  have hpad := padLen_lt (pre.length + 2 + 4 + text.length + 1)
  generalize hp : padLen (pre.length + 2 + 4 + text.length + 1) = pad at hpad
  have e : makeHeader pre maj min text =
      pre ++ ([maj, min] ++ (toLE 4 (text.length + 1 + pad) ++ (text ++ 10 :: spaces pad))) := by
    simp [makeHeader, hp]
  rw [e, readHeader]
  refine Comp.bind_strict (Comp.expect pre) ?_
  refine Comp.bind_lenient (a := [maj, min]) (fun rest => readN_full' (n := 2) [maj, min] rest rfl) (NoUB.readN 2)
    (fun _ => EofFails.bind _ (EofFails.readExact 4 _ (by decide))) ?_
  have h4 := Comp.readExact (toLE 4 (text.length + 1 + pad)) .structErr
  rw [toLE_length] at h4
  refine Comp.bind_strict h4 ?_
  rw [leNat_toLE _ _ (by omega)]
  have hl : (text ++ 10 :: spaces pad).length = text.length + 1 + pad := by simp [spaces_length]; omega
  rw [← hl]
  refine Comp.readLoads _ _ _ _ ?_ ?_
  · unfold headerValue
    rw [any_ge128_false (ascii_text_pad hascii pad), hj.full _ header_pad_mem]
    rfl
  · intro j hjl
    unfold headerValue
    by_cases hlt : j < text.length
    · left
      rw [take_append_lt (Nat.le_of_lt hlt)]
      have ha : ∀ b ∈ text.take j, b < 128 := fun b hb => hascii b (List.mem_of_mem_take hb)
      rw [any_ge128_false ha, hj.cut j hlt]
      exact ⟨.json, by simp⟩
    · right
      obtain ⟨ws, hw, hws⟩ := take_text_nl_spaces text pad j (by omega)
      refine ⟨by rw [hl]; omega, ?_⟩
      rw [hw]
      have ha : ∀ b ∈ text ++ ws, b < 128 := by
        intro b hb
        rcases List.mem_append.mp hb with hb | hb
        · exact hascii b hb
        · rcases hws b hb with rfl | rfl <;> decide
      rw [any_ge128_false ha, hj.full ws hws]
      rfl

/-! ## the neighbourhood loop of `BinaryQuadraticModel.from_file` -/

/-- the lower-triangle part `from_file` keeps of each neighbourhood, for variables `v, v+1, …` -/
def lowParts : Nat → List (List (Nat × Bytes)) → List (List (Nat × Bytes))
  | _, [] => []
  | v, nb :: t => nb.takeWhile (fun p => p.1 ≤ v) :: lowParts (v + 1) t

/-- neighbourhoods of variables `v, v+1, …`: well-formed records and no self-loop -/
def NbrsOK (isz dsz : Nat) : Nat → List (List (Nat × Bytes)) → Prop
  | _, [] => True
  | v, nb :: t => (RowWF isz dsz nb ∧ ∀ p ∈ nb, p.1 ≠ v) ∧ NbrsOK isz dsz (v + 1) t

theorem decRec_enc {isz dsz : Nat} {nb : List (Nat × Bytes)} (h : RowWF isz dsz nb) :
    (nb.map (encRec isz)).map (decRec isz) = nb.map fun p => ((p.1 : Int), p.2) := by
  rw [List.map_map]
  apply List.map_congr_left
  intro p hp
  obtain ⟨i, b⟩ := p
  have := h _ hp
  simp only [Function.comp, encRec, decRec]
  rw [List.take_append_of_le_length (by simp [toLE_length]), List.take_of_length_le (by simp [toLE_length]),
    List.drop_append_of_le_length (by simp [toLE_length]), List.drop_eq_nil_of_le (by simp [toLE_length]),
    leInt_toLE _ _ this.2]
  simp

theorem takeWhile_int (nb : List (Nat × Bytes)) (v : Nat) :
    ((nb.map fun p => ((p.1 : Int), p.2)).takeWhile fun p => p.1 ≤ (v : Int)) =
      (nb.takeWhile fun p => p.1 ≤ v).map fun p => ((p.1 : Int), p.2) := by
  induction nb with
  | nil => rfl
  | cons p t ih =>
    simp only [List.map_cons, List.takeWhile_cons]
    by_cases hp : p.1 ≤ v
    · have : ((p.1 : Int) ≤ (v : Int)) := by exact_mod_cast hp
      simp [hp, this, ih]
    · have : ¬ ((p.1 : Int) ≤ (v : Int)) := by intro h; exact hp (by exact_mod_cast h)
      simp [hp, this]

theorem Comp.bqmNeighLoop {isz dsz : Nat} : ∀ (nbrs : List (List (Nat × Bytes))) (v : Nat), NbrsOK isz dsz v nbrs →
    Comp (bqmNeighLoop isz dsz v (nbrs.map fun nb => (nb.length : Int))) ((nbrs.map (encNeigh isz)).flatten) (lowParts v nbrs) 0
  | [], v, _ => by simpa [FileFmt.bqmNeighLoop, lowParts] using (Comp.ret (α := List (List (Nat × Bytes))) [])
  | nb :: t, v, hok => by
    have ih := Comp.bqmNeighLoop t (v + 1) hok.2
    simp only [List.map_cons, List.flatten_cons, lowParts, FileFmt.bqmNeighLoop]
    by_cases hz : nb = []
    · subst hz
      simp only [List.length_nil, Int.natCast_zero, if_true, encNeigh, List.map_nil, List.flatten_nil, List.nil_append,
        List.takeWhile_nil]
      exact Comp.map ih (fun rest => [] :: rest)
    · have hpos : 0 < nb.length := List.length_pos_iff.mpr hz
      have h0 : ¬ ((nb.length : Int) = 0) := by omega
      have hneg : ¬ ((nb.length : Int) < 0) := by omega
      rw [if_neg h0, if_neg hneg, Int.toNat_natCast]
      have hl := encNeigh_length hok.1.1
      have hre := Comp.readExact (encNeigh isz nb) .value
      rw [hl, Nat.mul_comm] at hre
      refine Comp.bind_strict hre ?_
      -- with the complete record block the body of the loop is the recursive call
      have hrecs : (chunksN (isz + dsz) nb.length (encNeigh isz nb)).map (decRec isz) = nb.map fun p => ((p.1 : Int), p.2) := by
        have := chunksN_flatten (encNeigh_recs hok.1.1) []
        simp only [List.length_map, List.append_nil] at this
        rw [encNeigh, this]
        exact decRec_enc hok.1.1
      simp only [hrecs, takeWhile_int]
      have hany : ((nb.takeWhile fun p => p.1 ≤ v).map fun p => ((p.1 : Int), p.2)).any
          (fun p => p.1 = (v : Int) || p.1 < 0) = false := by
        rw [List.any_eq_false]
        intro q hq
        simp only [List.mem_map] at hq
        obtain ⟨p, hp, rfl⟩ := hq
        have hne := hok.1.2 p ((List.takeWhile_sublist _).subset hp)
        have h1 : ¬ ((p.1 : Int) = (v : Int)) := by intro e; exact hne (by exact_mod_cast e)
        have h2 : ¬ ((p.1 : Int) < 0) := by omega
        simp [h1, h2]
      rw [hany]
      simp only [Bool.false_eq_true, if_false, List.map_map]
      have hid : ((nb.takeWhile fun p => p.1 ≤ v).map ((fun p : Int × Bytes => (p.1.toNat, p.2)) ∘ fun p => ((p.1 : Int), p.2))) =
          nb.takeWhile fun p => p.1 ≤ v := by
        conv => rhs; rw [← List.map_id (nb.takeWhile fun p => p.1 ≤ v)]
        apply List.map_congr_left
        intro p _
        simp
      rw [hid]
      exact Comp.map ih (fun rest => (nb.takeWhile fun p => p.1 ≤ v) :: rest)

/-! ## linear records with neighbourhood starts; degrees -/

def accsFrom : Nat → List (List (Nat × Bytes)) → List Int
  | _, [] => []
  | acc, nb :: t => (acc : Int) :: accsFrom (acc + nb.length) t

def totalDeg : List (List (Nat × Bytes)) → Nat
  | [] => 0
  | nb :: t => nb.length + totalDeg t

theorem linDeg_spec {nsz dsz : Nat} : ∀ (nbrs : List (List (Nat × Bytes))) (lin : List Bytes) (acc : Nat),
    nbrs.length = lin.length → (∀ b ∈ lin, b.length = dsz) → 2 * (acc + totalDeg nbrs) < 256 ^ nsz →
    (∀ r ∈ linDeg nsz acc nbrs lin, r.length = nsz + dsz) ∧
    (linDeg nsz acc nbrs lin).length = lin.length ∧
    (linDeg nsz acc nbrs lin).map (fun r => leInt (r.take nsz)) = accsFrom acc nbrs ∧
    (linDeg nsz acc nbrs lin).map (fun r => r.drop nsz) = lin
  | [], [], acc, _, _, _ => by simp [linDeg, accsFrom]
  | [], _ :: _, _, hl, _, _ => by simp at hl
  | _ :: _, [], _, hl, _, _ => by simp at hl
  | nb :: t, b :: bs, acc, hl, hb, hacc => by
    have hl' : t.length = bs.length := by simpa using hl
    have hacc' : 2 * (acc + nb.length + totalDeg t) < 256 ^ nsz := by simp only [totalDeg] at hacc; omega
    obtain ⟨i1, i2, i3, i4⟩ := linDeg_spec (nsz := nsz) (dsz := dsz) t bs (acc + nb.length) hl' (fun x hx => hb x (by simp [hx])) hacc'
    have hbl := hb b (by simp)
    have hfit : 2 * acc < 256 ^ nsz := by simp only [totalDeg] at hacc; omega
    refine ⟨?_, ?_, ?_, ?_⟩
    · intro r hr
      simp only [linDeg, List.mem_cons] at hr
      rcases hr with rfl | hr
      · simp [toLE_length, hbl]
      · exact i1 r hr
    · simp [linDeg, i2]
    · simp only [linDeg, List.map_cons, accsFrom, i3]
      rw [List.take_append_of_le_length (by simp [toLE_length]), List.take_of_length_le (by simp [toLE_length]),
        leInt_toLE _ _ hfit]
    · simp only [linDeg, List.map_cons, i4]
      rw [List.drop_append_of_le_length (by simp [toLE_length]), List.drop_eq_nil_of_le (by simp [toLE_length])]
      rfl

theorem degrees_accs (ninter : Nat) : ∀ (nbrs : List (List (Nat × Bytes))) (acc : Nat), nbrs ≠ [] →
    2 * ninter = acc + totalDeg nbrs → degrees ninter (accsFrom acc nbrs) = nbrs.map fun nb => (nb.length : Int)
  | [], _, hne, _ => absurd rfl hne
  | [nb], acc, _, h => by
    simp only [totalDeg] at h
    simp only [accsFrom, degrees, List.map_cons, List.map_nil, List.cons.injEq, and_true]
    omega
  | nb :: nb2 :: t, acc, _, h => by
    have ih := degrees_accs ninter (nb2 :: t) (acc + nb.length) (by simp) (by simp only [totalDeg] at h ⊢; omega)
    simp only [accsFrom] at ih ⊢
    simp only [degrees, List.map_cons, ih]
    congr 1
    omega

/-- linear data and all neighbourhoods -/
theorem Comp.bqmLinQuad (h : QHeader J) (lin : List Bytes) (nbrs : List (List (Nat × Bytes)))
    (hn : lin.length = h.nvars) (hnb : nbrs.length = h.nvars) (hb : ∀ b ∈ lin, b.length = h.dsize)
    (hok : NbrsOK h.isize h.dsize 0 nbrs) (hand : 2 * h.ninter = totalDeg nbrs) (hfit : 2 * (2 * h.ninter) < 256 ^ h.nsize) :
    Comp (bqmLinQuad h) ((linDeg h.nsize 0 nbrs lin).flatten ++ (nbrs.map (encNeigh h.isize)).flatten)
      (lin, lowParts 0 nbrs) 0 := by
  unfold FileFmt.bqmLinQuad
  by_cases h0 : h.nvars = 0
  · rw [if_pos h0]
    have e1 : lin = [] := List.length_eq_zero_iff.mp (by omega)
    have e2 : nbrs = [] := List.length_eq_zero_iff.mp (by omega)
    subst e1 e2
    simpa [linDeg, lowParts] using (Comp.ret (α := List Bytes × List (List (Nat × Bytes))) ([], []))
  · rw [if_neg h0]
    obtain ⟨s1, s2, s3, s4⟩ := linDeg_spec (nsz := h.nsize) (dsz := h.dsize) nbrs lin 0 (by omega) hb (by omega)
    have hfl := flatten_length_const s1
    have hre := Comp.readExact (linDeg h.nsize 0 nbrs lin).flatten .value
    rw [hfl, s2, hn, Nat.mul_comm] at hre
    refine Comp.bind_strict hre ?_
    have hch : chunksN (h.nsize + h.dsize) h.nvars (linDeg h.nsize 0 nbrs lin).flatten = linDeg h.nsize 0 nbrs lin := by
      have := chunksN_flatten s1 []
      rwa [List.append_nil, s2, hn] at this
    rw [hch, s3, s4, degrees_accs h.ninter nbrs 0 (by intro e; rw [e] at hnb; simp at hnb; omega) (by omega)]
    exact Comp.map (Comp.bqmNeighLoop nbrs 0 hok) (fun low => (lin, low))

/-! ## the neighbourhoods `to_file` writes, from the lower triangles -/

/-- lower-triangle rows of variables `w, w+1, …`: indices strictly below the row's variable -/
def LowerOK (dsz : Nat) : Nat → List (List (Nat × Bytes)) → Prop
  | _, [] => True
  | w, row :: rows => (∀ p ∈ row, p.1 < w ∧ p.2.length = dsz) ∧ LowerOK dsz (w + 1) rows

theorem upperFrom_mem {dsz : Nat} (v : Nat) : ∀ (rows : List (List (Nat × Bytes))) (w : Nat), LowerOK dsz w rows →
    ∀ x ∈ upperFrom v w rows, v < x.1 ∧ x.1 < w + rows.length ∧ x.2.length = dsz
  | [], _, _, x, hx => by simp [upperFrom] at hx
  | row :: rows, w, hok, x, hx => by
    simp only [upperFrom, List.mem_append, List.mem_map, List.mem_filter, decide_eq_true_eq] at hx
    rcases hx with ⟨p, ⟨hp, hpv⟩, rfl⟩ | hx
    · have := hok.1 p hp
      simp only [List.length_cons]
      exact ⟨by omega, by omega, this.2⟩
    · have := upperFrom_mem v rows (w + 1) hok.2 x hx
      simp only [List.length_cons]
      exact ⟨this.1, by omega, this.2.2⟩

theorem takeWhile_append_stop {α : Type} (p : α → Bool) (l u : List α) (hl : ∀ x ∈ l, p x = true) (hu : ∀ x ∈ u, p x = false) :
    (l ++ u).takeWhile p = l := by
  induction l with
  | nil =>
    cases u with
    | nil => rfl
    | cons y t => simp [List.takeWhile_cons, hu y (by simp)]
  | cons x t ih =>
    simp only [List.cons_append, List.takeWhile_cons, hl x (by simp), if_true]
    rw [ih (fun y hy => hl y (by simp [hy]))]

theorem allNeighFrom_spec {isz dsz : Nat} (lower : List (List (Nat × Bytes))) (hl : LowerOK dsz 0 lower)
    (hfit : 2 * lower.length < 256 ^ isz) : ∀ (rows : List (List (Nat × Bytes))) (v : Nat), LowerOK dsz v rows →
    v + rows.length = lower.length →
    NbrsOK isz dsz v (allNeighFrom lower v rows) ∧ lowParts v (allNeighFrom lower v rows) = rows ∧
    (allNeighFrom lower v rows).length = rows.length
  | [], _, _, _ => by simp [allNeighFrom, NbrsOK, lowParts]
  | row :: rows, v, hok, hlen => by
    obtain ⟨i1, i2, i3⟩ := allNeighFrom_spec lower hl hfit rows (v + 1) hok.2 (by simp at hlen; omega)
    have hup : ∀ x ∈ upperOf lower v, v < x.1 ∧ x.1 < lower.length ∧ x.2.length = dsz := by
      intro x hx
      have := upperFrom_mem (dsz := dsz) v lower 0 hl x hx
      exact ⟨this.1, by omega, this.2.2⟩
    simp only [List.length_cons] at hlen
    refine ⟨⟨⟨?_, ?_⟩, i1⟩, ?_, by simp [allNeighFrom, i3]⟩
    · intro p hp
      rcases List.mem_append.mp hp with hp | hp
      · have := hok.1 p hp; exact ⟨this.2, by omega⟩
      · have := hup p hp; exact ⟨this.2.2, by omega⟩
    · intro p hp
      rcases List.mem_append.mp hp with hp | hp
      · have := hok.1 p hp; omega
      · have := hup p hp; omega
    · simp only [allNeighFrom, lowParts, i2]
      congr 1
      apply takeWhile_append_stop
      · intro p hp; have := hok.1 p hp; simp; omega
      · intro p hp; have := hup p hp; simp; omega

/-! ## the handshake count: the neighbourhoods hold every interaction twice -/

def sumFrom : Nat → Nat → (Nat → Nat) → Nat
  | _, 0, _ => 0
  | v, k + 1, f => f v + sumFrom (v + 1) k f

theorem sumFrom_add (f g : Nat → Nat) : ∀ k v, sumFrom v k (fun i => f i + g i) = sumFrom v k f + sumFrom v k g
  | 0, _ => rfl
  | k + 1, v => by simp only [sumFrom, sumFrom_add f g k (v + 1)]; omega

theorem sumFrom_congr {f g : Nat → Nat} (h : ∀ i, f i = g i) : ∀ k v, sumFrom v k f = sumFrom v k g
  | 0, _ => rfl
  | k + 1, v => by simp only [sumFrom, h v, sumFrom_congr h k (v + 1)]

theorem sumFrom_indicator (a : Nat) : ∀ k v, sumFrom v k (fun i => if a = i then 1 else 0) = if v ≤ a ∧ a < v + k then 1 else 0
  | 0, v => by simp [sumFrom]
  | k + 1, v => by
    simp only [sumFrom, sumFrom_indicator a k (v + 1)]
    by_cases h1 : a = v
    · subst h1
      have : ¬ (a + 1 ≤ a ∧ a < a + 1 + k) := by omega
      simp [this]
    · by_cases h2 : v + 1 ≤ a ∧ a < v + 1 + k
      · have : v ≤ a ∧ a < v + (k + 1) := by omega
        simp [h1, h2, this]
      · have : ¬ (v ≤ a ∧ a < v + (k + 1)) := by omega
        simp [h1, h2, this]

theorem sumFrom_count (n : Nat) : ∀ (row : List (Nat × Bytes)), (∀ p ∈ row, p.1 < n) →
    sumFrom 0 n (fun i => (row.filter fun p => p.1 = i).length) = row.length
  | [], _ => by
    have : ∀ k v, sumFrom v k (fun _ => 0) = 0 := by
      intro k; induction k with
      | zero => intro v; rfl
      | succ k ih => intro v; simp [sumFrom, ih]
    simpa using this n 0
  | p :: t, h => by
    have ih := sumFrom_count n t (fun q hq => h q (by simp [hq]))
    have hp := h p (by simp)
    have e : ∀ i, ((p :: t).filter fun q => q.1 = i).length = (if p.1 = i then 1 else 0) + (t.filter fun q => q.1 = i).length := by
      intro i
      by_cases hi : p.1 = i
      · simp [List.filter_cons, hi]; omega
      · simp [List.filter_cons, hi]
    rw [sumFrom_congr e, sumFrom_add, ih, sumFrom_indicator]
    have : 0 ≤ p.1 ∧ p.1 < 0 + n := by omega
    rw [if_pos this, List.length_cons]; omega

theorem sumFrom_upper {dsz : Nat} (n : Nat) : ∀ (rows : List (List (Nat × Bytes))) (w : Nat), LowerOK dsz w rows → w + rows.length ≤ n →
    sumFrom 0 n (fun i => (upperFrom i w rows).length) = totalDeg rows
  | [], _, _, _ => by
    have : ∀ k v, sumFrom v k (fun _ => 0) = 0 := by
      intro k; induction k with
      | zero => intro v; rfl
      | succ k ih => intro v; simp [sumFrom, ih]
    simpa [upperFrom, totalDeg] using this n 0
  | row :: rows, w, hok, hle => by
    simp only [List.length_cons] at hle
    have ih := sumFrom_upper n rows (w + 1) hok.2 (by omega)
    have e : ∀ i, (upperFrom i w (row :: rows)).length = (row.filter fun p => p.1 = i).length + (upperFrom i (w + 1) rows).length := by
      intro i; simp [upperFrom]
    rw [sumFrom_congr e, sumFrom_add, ih, sumFrom_count n row (fun p hp => by have := hok.1 p hp; omega)]
    rfl

theorem totalDeg_allNeighFrom (lower : List (List (Nat × Bytes))) : ∀ (rows : List (List (Nat × Bytes))) (v : Nat),
    totalDeg (allNeighFrom lower v rows) = totalDeg rows + sumFrom v rows.length (fun i => (upperOf lower i).length)
  | [], _ => rfl
  | row :: rows, v => by
    simp only [allNeighFrom, totalDeg, List.length_append, List.length_cons, sumFrom, totalDeg_allNeighFrom lower rows (v + 1)]
    omega

/-- every interaction appears in exactly two neighbourhoods -/
theorem handshake {dsz : Nat} (lower : List (List (Nat × Bytes))) (hl : LowerOK dsz 0 lower) :
    totalDeg (allNeigh lower) = 2 * totalDeg lower := by
  rw [allNeigh, totalDeg_allNeighFrom]
  have := sumFrom_upper (dsz := dsz) lower.length lower 0 hl (by omega)
  simp only [upperOf]
  omega

/-! ## the whole BQM file -/

/-- what `to_file` may assume of a BQM -/
structure BqmWF (h : QHeader J) (c : QContent) : Prop where
  dpos : 0 < h.dsize
  nlin : c.linear.length = h.nvars
  nlow : c.lower.length = h.nvars
  off : c.offset.length = h.dsize
  lin : ∀ b ∈ c.linear, b.length = h.dsize
  lower : LowerOK h.dsize 0 c.lower
  ninter : h.ninter = totalDeg c.lower
  ifit : 2 * h.nvars < 256 ^ h.isize
  nfit : 2 * (2 * h.ninter) < 256 ^ h.nsize

/-- the labels `from_file` ends up with: none for an index-labelled file, the header's list in
    format 1, the `VARS` section's list in format 2 -/
def bqmLabels (maj : UInt8) (h : QHeader J) (labels : List J) : Option (List J) :=
  if h.vars.truthy then
    if maj.toNat < 2 then (match h.vars with | .labels l => some l | .flag _ => none) else some labels
  else none

def bqmResult (maj : UInt8) (h : QHeader J) (c : QContent) (labels : List J) : QLoaded J :=
  { hdr := h, content := c, labels := bqmLabels maj h labels }

theorem tupleLt_maj (maj : UInt8) (k : Nat) : tupleLt [maj.toNat, 0] [k, 0] = decide (maj.toNat < k) := by
  simp only [tupleLt]
  by_cases h1 : maj.toNat < k
  · simp [h1]
  · by_cases h2 : k < maj.toNat
    · simp [h1, h2]
    · simp [h1, h2]

/-- the labels step: nothing to read (index labels, or format 1), or the `VARS` section -/
theorem Comp.bqmFinish (parseVars : Bytes → Option (List J)) (maj : UInt8) (h : QHeader J) (c : QContent)
    (varsText : Bytes) (labels : List J)
    (hv1 : maj.toNat < 2 → ∃ l, h.vars = .labels l)
    (hv2 : 2 ≤ maj.toNat → h.vars.truthy = true → VarsOK parseVars varsText labels) :
    ∃ pad, pad < 64 ∧ Comp (bqmFinish parseVars [maj.toNat, 0] h c)
      (if maj ≥ 2 && h.vars.truthy then sectionDumps magVARS nlb4 varsText else []) (bqmResult maj h c labels) pad := by
  unfold FileFmt.bqmFinish bqmResult bqmLabels
  rw [tupleLt_maj]
  by_cases ht : h.vars.truthy = true
  · by_cases hm : maj.toNat < 2
    · obtain ⟨l, hl⟩ := hv1 hm
      have hge : ¬ (maj ≥ 2) := by
        intro hc; have := UInt8.le_iff_toNat_le.mp hc; simp at this; omega
      refine ⟨0, by omega, ?_⟩
      have ht' : (VarsField.labels l).truthy = true := hl ▸ ht
      simp only [hm, hl, ht', hge, if_true, decide_true, decide_false, Bool.false_and, Bool.false_eq_true, if_false]
      exact Comp.ret _
    · have hge : maj ≥ 2 := by
        apply UInt8.le_iff_toNat_le.mpr; simp; omega
      refine ⟨sectionPad magVARS nlb4 varsText, padLen_lt _, ?_⟩
      simp only [ht, hm, hge, if_true, decide_true, decide_false, Bool.true_and, Bool.false_eq_true, if_false, Bool.and_self]
      exact Comp.map (Comp.vars parseVars varsText labels (hv2 (by omega) ht).1 (hv2 (by omega) ht).2.1 (hv2 (by omega) ht).2.2) _
  · refine ⟨0, by omega, ?_⟩
    have htf : h.vars.truthy = false := by simpa using ht
    simp only [htf, Bool.and_false, Bool.false_eq_true, if_false]
    exact Comp.ret _

theorem bqmEncode_eq (maj : UInt8) (hdrText : Bytes) (h : QHeader J) (c : QContent) (varsText : Bytes) :
    bqmEncode maj hdrText h c varsText = makeHeader bqmPrefix maj 0 hdrText ++
      (c.offset ++ ((linDeg h.nsize 0 (allNeigh c.lower) c.linear).flatten ++ ((allNeigh c.lower).map (encNeigh h.isize)).flatten ++
        (if maj ≥ 2 && h.vars.truthy then sectionDumps magVARS nlb4 varsText else []))) := by
  simp [bqmEncode, bqmBodyBytes]

/-- **the BQM file**, format 1 and 2: `from_file (to_file m)` is `m`; a file cut short raises,
    unless only padding at the end of the `VARS` section was lost -/
theorem Comp.bqm (parse : Bytes → Option (QHeader J)) (parseVars : Bytes → Option (List J)) (maj : UInt8)
    (hdrText varsText : Bytes) (h : QHeader J) (c : QContent) (labels : List J)
    (hmaj : maj.toNat < 3) (hh : HeaderOK parse hdrText h) (wf : BqmWF h c)
    (hv1 : maj.toNat < 2 → ∃ l, h.vars = .labels l)
    (hv2 : 2 ≤ maj.toNat → h.vars.truthy = true → VarsOK parseVars varsText labels) :
    ∃ pad, pad < 64 ∧ Comp (bqmDecode parse parseVars) (bqmEncode maj hdrText h c varsText) (bqmResult maj h c labels) pad := by
  obtain ⟨pad, hp, hfin⟩ := Comp.bqmFinish parseVars maj h c varsText labels hv1 hv2
  refine ⟨pad, hp, ?_⟩
  rw [bqmEncode_eq]
  unfold bqmDecode
  have hver : (!tupleLt [maj.toNat, (0 : UInt8).toNat] [3, 0]) = false := by
    have : (0 : UInt8).toNat = 0 := rfl
    rw [this, tupleLt_maj]; simp [hmaj]
  have hbody : Comp (bqmBody parseVars [maj.toNat, 0] h)
      (c.offset ++ ((linDeg h.nsize 0 (allNeigh c.lower) c.linear).flatten ++ ((allNeigh c.lower).map (encNeigh h.isize)).flatten ++
        (if maj ≥ 2 && h.vars.truthy then sectionDumps magVARS nlb4 varsText else []))) (bqmResult maj h c labels) pad := by
    unfold bqmBody
    have hoff := Comp.readExact c.offset .value
    rw [wf.off] at hoff
    refine Comp.bind_strict hoff ?_
    obtain ⟨n1, n2, n3⟩ := allNeighFrom_spec (isz := h.isize) c.lower wf.lower (by rw [wf.nlow]; exact wf.ifit) c.lower 0 wf.lower (by omega)
    have hlq := Comp.bqmLinQuad h c.linear (allNeigh c.lower) wf.nlin (by rw [allNeigh, n3, wf.nlow]) wf.lin n1
      (by rw [handshake c.lower wf.lower, wf.ninter]) wf.nfit
    rw [allNeigh] at hlq
    rw [n2] at hlq
    refine Comp.bind_strict hlq ?_
    exact hfin
  refine Comp.bind_padded (Comp.header bqmPrefix hdrText maj 0 parse h hh.1 hh.2.1 hh.2.2) ?_ ?_
  · simp only [hver, Bool.false_eq_true, if_false]
    exact EofFails.bind _ (EofFails.readExact _ _ wf.dpos)
  · simp only [hver, Bool.false_eq_true, if_false]
    exact hbody

theorem NoUB.bqmNeighLoop (isz dsz : Nat) : ∀ (ds : List Int) (v : Nat), NoUB (bqmNeighLoop isz dsz v ds)
  | [], _ => NoUB.ret _
  | d :: ds, v => by
    unfold FileFmt.bqmNeighLoop
    split
    · exact NoUB.bind (NoUB.bqmNeighLoop isz dsz ds (v + 1)) fun _ => NoUB.ret _
    · split
      · exact NoUB.fail _
      · refine NoUB.bind (NoUB.readExact _ _) fun raw => ?_
        dsimp only
        split
        · exact NoUB.fail _
        · exact NoUB.bind (NoUB.bqmNeighLoop isz dsz ds (v + 1)) fun _ => NoUB.ret _

theorem NoUB.bqmDecode (parse : Bytes → Option (QHeader J)) (parseVars : Bytes → Option (List J)) :
    NoUB (bqmDecode parse parseVars) := by
  unfold FileFmt.bqmDecode
  refine NoUB.bind (NoUB.header _ _) fun vh => ?_
  split
  · exact NoUB.fail _
  · unfold FileFmt.bqmBody
    refine NoUB.bind (NoUB.readExact _ _) fun off => NoUB.bind ?_ fun ll => ?_
    · unfold FileFmt.bqmLinQuad
      split
      · exact NoUB.ret _
      · exact NoUB.bind (NoUB.readExact _ _) fun _ => NoUB.bind (NoUB.bqmNeighLoop _ _ _ _) fun _ => NoUB.ret _
    · unfold FileFmt.bqmFinish
      split
      · split
        · split
          · exact NoUB.ret _
          · exact NoUB.fail _
        · exact NoUB.bind (NoUB.varsLoad _) fun _ => NoUB.ret _
      · exact NoUB.ret _

end FileFmt
