import DimodProofs.AnnealColor

/-! C07: inside a sweep, the acceptance test of every variable uses the true energy change of its flip in the state
    the annealer is in when the variable's colour class is processed. -/

namespace Enum

/-- a colour class leaves the spins of the variables outside it alone -/
theorem classStep_other (J : List (Label × Label × Rat)) (beta : Option Rat) (dh draw : Label → Rat) (nodes : List Label)
    (v : Label) (hv : v ∉ nodes) :
    ∀ spins : List (Label × Rat), dictGet (classStep J beta dh draw spins nodes) v = dictGet spins v := by
  intro spins
  -- the step maps every entry to an entry with the same key, and the entries with key `v` to themselves
  have key : ∀ (f : Label × Rat → Label × Rat), (∀ p, (f p).1 = p.1) → (∀ p, p.1 = v → f p = p) →
      ∀ l : List (Label × Rat), dictGet (l.map f) v = dictGet l v := by
    intro f hk hf l
    induction l with
    | nil => rfl
    | cons p t ih =>
      obtain ⟨k, b⟩ := p
      by_cases hkv : k = v
      · have hfk := hf (k, b) hkv
        rw [List.map_cons, hfk, dictGet_cons, dictGet_cons, if_pos hkv, if_pos hkv]
      · have h1 : (f (k, b)).1 = k := hk (k, b)
        rw [List.map_cons]
        have : f (k, b) = ((f (k, b)).1, (f (k, b)).2) := rfl
        rw [this, dictGet_cons, dictGet_cons, h1, if_neg hkv, if_neg hkv, ih]
  unfold classStep
  apply key
  · intro p
    obtain ⟨l, s⟩ := p
    simp only
    split <;> rfl
  · intro p hp
    obtain ⟨l, s⟩ := p
    simp only at hp ⊢
    subst hp
    have hc : ¬ (nodes.contains l = true ∧ accept beta (draw l) (dh l + diffJ J spins l) = true) := by
      intro hcon
      exact hv (by simpa using hcon.1)
    rw [if_neg hc]

/-- … hence so do all the classes processed before the variable's own -/
theorem classFold_other (J : List (Label × Label × Rat)) (beta : Option Rat) (dh draw : Label → Rat) (v : Label)
    (pre : List (Nat × List Label)) (hv : ∀ c ∈ pre, v ∉ c.2) :
    ∀ spins : List (Label × Rat),
      dictGet (pre.foldl (fun sp c => classStep J beta dh draw sp c.2) spins) v = dictGet spins v := by
  induction pre with
  | nil => intro spins; rfl
  | cons c t ih =>
    intro spins
    simp only [List.foldl_cons]
    rw [ih (fun c' hc' => hv c' (List.mem_cons_of_mem _ hc')), classStep_other J beta dh draw c.2 v (hv c List.mem_cons_self)]

/-- a variable of one colour class is in no earlier class -/
theorem not_in_earlier_class (h : List (Label × Rat)) (J : List (Label × Label × Rat)) (hh : (h.map (·.1)).Nodup)
    (hJ : ∀ t ∈ J, t.1 ≠ t.2.1) (pre post : List (Nat × List Label)) (c : Nat × List Label)
    (hc : colorClasses h J = pre ++ c :: post) (v : Label) (hv : v ∈ c.2) : ∀ c' ∈ pre, v ∉ c'.2 := by
  have hnd : ((colouring (colorClasses h J)).map (·.1)).Nodup := (colorClasses_total h J hh hJ).nodup_iff.mpr hh
  rw [hc, colouring_append, colouring_cons, List.map_append, List.map_append] at hnd
  have hdis := (List.nodup_append.mp hnd).2.2
  intro c' hc' hv'
  have h1 : v ∈ (colouring pre).map (·.1) := by
    simp only [colouring, List.map_flatMap, List.mem_flatMap, List.map_map]
    exact ⟨c', hc', by simpa using hv'⟩
  have h2 : v ∈ (c.2.map fun w => (w, c.1)).map (·.1) ++ (colouring post).map (·.1) := by
    apply List.mem_append_left
    simpa using hv
  exact hdis v h1 v h2 rfl

/-- **the acceptance test uses the true energy change**: in any sweep, when the colour class of `v` is reached (state
    `sp`, after the earlier classes have been processed from the sweep's initial state `sp0`), the quantity compared
    with the draw — `energy_diff_h[v]`, computed at the start of the sweep, plus `energy_diff_J[v]`, computed from `sp` —
    is exactly `ising_energy(sp with v flipped) − ising_energy(sp)` -/
theorem sweep_test_is_true_delta (h : List (Label × Rat)) (J : List (Label × Label × Rat)) (hh : (h.map (·.1)).Nodup)
    (hJ : SimpleJ J) (pre post : List (Nat × List Label)) (c : Nat × List Label)
    (hc : colorClasses h J = pre ++ c :: post) (beta : Option Rat) (draw : Label → Rat) (sp0 : List (Label × Rat))
    (v : Label) (hv : v ∈ c.2) :
    let sp := pre.foldl (fun sp c => classStep J beta (diffH h sp0) draw sp c.2) sp0
    diffH h sp0 v + diffJ J sp v = isingE h J (flipSpin (dictGet sp) v) - isingE h J (dictGet sp) := by
  intro sp
  have hsame : dictGet sp v = dictGet sp0 v :=
    classFold_other J beta (diffH h sp0) draw v pre (not_in_earlier_class h J hh hJ.1 pre post c hc v hv) sp0
  have hd : diffH h sp0 v = diffH h sp v := by unfold diffH; rw [hsame]
  rw [hd]
  exact delta_is_energy_change h J sp v hh hJ

end Enum
