import DimodModel.RandomCycle
import Mathlib.Data.List.Chain
import Mathlib.Data.List.Nodup

/-! # C17: `_random_cycle` returns a simple cycle of the graph (helper lemmas) -/

namespace Gen

theorem rcCut_prefix (u : Label) (l : List Label) : rcCut u l <+: l := by
  induction l with
  | nil => exact List.prefix_refl _
  | cons a r ih =>
    simp only [rcCut]
    split
    · exact ⟨r, rfl⟩
    · exact (List.prefix_cons_inj a).2 ih

theorem rcCut_getLast (u : Label) (l : List Label) (h : u ∈ l) : (rcCut u l).getLast? = some u := by
  induction l with
  | nil => simp at h
  | cons a r ih =>
    simp only [rcCut]
    split
    · rename_i hau; simp [hau]
    · rename_i hau
      have hr : u ∈ r := by
        simp only [List.mem_cons] at h
        rcases h with h | h
        · exact absurd h.symm hau
        · exact h
      have := ih hr
      cases hc : rcCut u r with
      | nil => rw [hc] at this; simp at this
      | cons b t => rw [hc] at this; simpa [List.getLast?_cons_cons] using this

theorem rcCut_head (u a : Label) (r : List Label) : (rcCut u (a :: r)).head? = some a := by
  simp only [rcCut]; split <;> rfl

theorem rcCut_length (u a : Label) (r : List Label) (hua : a ≠ u) (hb : ∀ b t, r = b :: t → b ≠ u) (h : u ∈ a :: r) :
    3 ≤ (rcCut u (a :: r)).length := by
  have hr : u ∈ r := by
    simp only [List.mem_cons] at h
    rcases h with h | h
    · exact absurd h.symm hua
    · exact h
  cases r with
  | nil => simp at hr
  | cons b t =>
    have hbu := hb b t rfl
    have ht : u ∈ t := by
      simp only [List.mem_cons] at hr
      rcases hr with h | h
      · exact absurd h.symm hbu
      · exact h
    cases t with
    | nil => simp at ht
    | cons c t' =>
      simp only [rcCut, hua, hbu, if_false]
      split <;> simp

/-- the candidate neighbours of one step -/
def rcNb (adj : List (Label × List Label)) (last : Label) : List Label → List Label
  | [] => rcNeighbors adj last
  | prev :: _ => (rcNeighbors adj last).filter (fun u => u != prev)

theorem rcLoop_cons (adj : List (Label × List Label)) (last : Label) (before : List Label) (d : Nat) (ds : List Nat) :
    rcLoop adj (last :: before) (d :: ds)
      = if (rcNb adj last before).isEmpty then some none
        else match (rcNb adj last before)[d]? with
          | none => none
          | some u => if (last :: before).contains u then some (some (rcCut u (last :: before)).reverse)
                      else rcLoop adj (u :: last :: before) ds := by
  cases before <;> simp only [rcLoop, rcNb] <;> rfl

theorem rcLoop_nil_draws (adj : List (Label × List Label)) (rev c : List Label) : rcLoop adj rev [] ≠ some (some c) := by
  cases rev with
  | nil => simp [rcLoop]
  | cons last before =>
    cases before <;> simp only [rcLoop] <;> split <;> simp

/-- the loop, from any reversed walk that is a path without repeated nodes -/
theorem rcLoop_spec (adj : List (Label × List Label)) (hns : ∀ v, v ∉ rcNeighbors adj v) :
    ∀ (draws : List Nat) (rev c : List Label),
      rev.IsChain (fun a b => a ∈ rcNeighbors adj b) → rev.Nodup → rcLoop adj rev draws = some (some c) →
      c.Nodup ∧ c.IsChain (fun a b => b ∈ rcNeighbors adj a) ∧ 3 ≤ c.length
        ∧ ∃ f l, c.head? = some f ∧ c.getLast? = some l ∧ f ∈ rcNeighbors adj l := by
  intro draws
  induction draws with
  | nil => intro rev c _ _ h; exact absurd h (rcLoop_nil_draws adj rev c)
  | cons d ds ih =>
    intro rev c hch hnd h
    cases rev with
    | nil => simp [rcLoop] at h
    | cons last before =>
      rw [rcLoop_cons] at h
      split at h
      · simp at h
      · split at h
        · simp at h
        · rename_i u hu
          have humem : u ∈ rcNb adj last before := List.mem_of_getElem? hu
          have hadj : u ∈ rcNeighbors adj last := by
            cases before with
            | nil => exact humem
            | cons prev t => exact (List.mem_filter.1 humem).1
          have hprev : ∀ b t, before = b :: t → b ≠ u := by
            intro b t hbt
            subst hbt
            have := (List.mem_filter.1 humem).2
            intro hbu; subst hbu; simp at this
          have hlast : last ≠ u := by
            intro hlu; subst hlu; exact hns _ hadj
          split at h
          · rename_i hcont
            simp only [Option.some.injEq] at h
            subst h
            have hin : u ∈ last :: before := by simpa using hcont
            have hpre := rcCut_prefix u (last :: before)
            refine ⟨?_, ?_, ?_, ?_⟩
            · rw [List.nodup_reverse]; exact hnd.sublist hpre.sublist
            · rw [List.isChain_reverse]; exact hch.prefix hpre
            · rw [List.length_reverse]; exact rcCut_length u last before hlast hprev hin
            · refine ⟨u, last, ?_, ?_, hadj⟩
              · rw [List.head?_reverse]; exact rcCut_getLast u _ hin
              · rw [List.getLast?_reverse]; exact rcCut_head u last before
          · rename_i hcont
            have hnin : u ∉ last :: before := by simpa using hcont
            exact ih (u :: last :: before) c (List.isChain_cons_cons.2 ⟨hadj, hch⟩) (List.nodup_cons.2 ⟨hnin, hnd⟩) h

end Gen
