import DimodProofs.C02Ising

/-! # C02 — `BQM.from_ising` / `BQM.from_qubo` (`_init_components`) on the dict back-end: energies incl. offsets

`evalL` is the polynomial of a dict-of-dicts model: offset + Σ diagonal·x + ½ Σ over both stored copies of every
interaction (`half` with `2·half = 1`).  `add_linear` and `add_quadratic` change it by exactly their monomial. -/

namespace En

variable {R : Type} [CommRing R]

/-! ## sums over ordered dicts -/

theorem odict_sum_set {α β : Type} [DecidableEq α] (f : α → β → R) (m : ODict α β) (k : α) (v : β) :
    ((ODict.set m k v).map fun p => f p.1 p.2).sum
      = (m.map fun p => f p.1 p.2).sum + f k v - (match ODict.get? m k with | some w => f k w | none => 0) := by
  induction m with
  | nil => simp [ODict.set, ODict.get?]
  | cons e rest ih =>
    obtain ⟨k', w⟩ := e
    simp only [ODict.set, ODict.get?]
    by_cases hk : k' = k
    · subst hk; simp; ring
    · simp only [hk, if_false, List.map_cons, List.sum_cons]; rw [ih]; ring

theorem get?_set_eq {α β : Type} [DecidableEq α] (m : ODict α β) (k : α) (v : β) : ODict.get? (ODict.set m k v) k = some v := by
  induction m with
  | nil => simp [ODict.set, ODict.get?]
  | cons e rest ih =>
    obtain ⟨k', w⟩ := e
    simp only [ODict.set]
    by_cases hk : k' = k
    · subst hk; simp [ODict.get?]
    · simp [hk, ODict.get?, ih]

namespace LBqm

/-- value of one row: the diagonal entry is the linear bias, every other entry is one of the two copies of an interaction -/
def rowVal (half : R) (x : Label → R) (u : Label) (nu : ODict Label R) : R :=
  (nu.map fun q => if q.1 = u then q.2 * x u else half * q.2 * x u * x q.1).sum

/-- the polynomial of the dict model -/
def evalL (half : R) (m : LBqm R) (x : Label → R) : R :=
  m.off + (m.adj.map fun p => rowVal half x p.1 p.2).sum

/-- stored entry `_adj[a][b]`, 0 when absent -/
def entry (m : LBqm R) (a b : Label) : R := ((m.adj.get? a).bind (·.get? b)).getD 0

/-- both copies of every interaction carry the same bias -/
def Sym (m : LBqm R) : Prop := ∀ a b, m.entry a b = m.entry b a

theorem rowVal_set (half : R) (x : Label → R) (u : Label) (nu : ODict Label R) (w : Label) (c : R) :
    rowVal half x u (ODict.set nu w c)
      = rowVal half x u nu + (c - (ODict.get? nu w).getD 0) * (if w = u then x u else half * x u * x w) := by
  unfold rowVal
  rw [odict_sum_set (fun k b => if k = u then b * x u else half * b * x u * x k) nu w c]
  cases h : ODict.get? nu w with
  | none => by_cases hw : w = u <;> simp [hw] <;> ring
  | some y => by_cases hw : w = u <;> simp [hw] <;> ring

/-- replacing (or creating) the row of `v` -/
theorem evalL_setRow (half : R) (m : LBqm R) (v : Label) (row : ODict Label R) (x : Label → R) :
    evalL half { m with adj := m.adj.set v row } x
      = evalL half m x + rowVal half x v row - rowVal half x v ((m.adj.get? v).getD []) := by
  unfold evalL
  simp only []
  rw [odict_sum_set (fun k r => rowVal half x k r) m.adj v row]
  cases h : ODict.get? m.adj v with
  | none => simp [rowVal]; ring
  | some r => simp; ring

/-- **`add_linear(v, b)` adds `b·x_v`** -/
theorem evalL_addLinear (half : R) (m : LBqm R) (v : Label) (b : R) (x : Label → R) :
    evalL half (m.addLinear v b) x = evalL half m x + b * x v := by
  unfold addLinear
  rw [evalL_setRow, rowVal_set]
  simp; ring

theorem entry_setRow (m : LBqm R) (v : Label) (row : ODict Label R) (a b : Label) :
    entry { m with adj := m.adj.set v row } a b = if a = v then (row.get? b).getD 0 else m.entry a b := by
  unfold entry
  simp only []
  by_cases ha : a = v
  · subst ha; rw [get?_set_eq]; simp
  · rw [get?_set_ne _ _ _ _ (fun e => ha e.symm)]; simp [ha]

theorem get?_set_cases {α β : Type} [DecidableEq α] (m : ODict α β) (k k' : α) (v : β) :
    ODict.get? (ODict.set m k v) k' = if k = k' then some v else ODict.get? m k' := by
  by_cases h : k = k'
  · subst h; rw [get?_set_eq]; simp
  · rw [get?_set_ne _ _ _ _ h]; simp [h]

theorem entry_addLinear (m : LBqm R) (v : Label) (c : R) (a b : Label) :
    (m.addLinear v c).entry a b = m.entry a b + (if a = v ∧ b = v then c else 0) := by
  unfold addLinear
  rw [entry_setRow]
  by_cases ha : a = v
  · subst ha
    rw [get?_set_cases]
    by_cases hb : a = b
    · subst hb; simp [entry]
      cases h : ODict.get? m.adj a with
      | none => simp [ODict.get?]
      | some r => simp
    · have hb' : ¬ b = a := fun e => hb e.symm
      simp only [hb, if_false, true_and, hb']
      unfold entry
      cases h : ODict.get? m.adj a with
      | none => simp [ODict.get?]
      | some r => simp
  · simp [ha]

theorem Sym_addLinear (m : LBqm R) (hs : m.Sym) (v : Label) (c : R) : (m.addLinear v c).Sym := by
  intro a b
  rw [entry_addLinear, entry_addLinear, hs a b]
  by_cases h1 : a = v <;> by_cases h2 : b = v <;> simp [h1, h2]

theorem entry_setLinear_absent (m : LBqm R) (u : Label) (hu : m.adj.contains u = false) (a b : Label) :
    (m.setLinear u 0).entry a b = m.entry a b := by
  have hnone : ODict.get? m.adj u = none := by
    unfold ODict.contains at hu
    cases h : ODict.get? m.adj u with
    | none => rfl
    | some r => rw [h] at hu; simp at hu
  unfold setLinear
  rw [entry_setRow]
  by_cases ha : a = u
  · subst ha
    simp only [if_true, hnone, Option.getD_none]
    unfold entry
    rw [hnone]
    by_cases hb : a = b
    · subst hb; simp [ODict.set, ODict.get?]
    · simp [ODict.set, ODict.get?, hb]
  · simp [ha]

theorem evalL_setLinear_absent (half : R) (m : LBqm R) (u : Label) (hu : m.adj.contains u = false) (x : Label → R) :
    evalL half (m.setLinear u 0) x = evalL half m x := by
  have hnone : ODict.get? m.adj u = none := by
    unfold ODict.contains at hu
    cases h : ODict.get? m.adj u with
    | none => rfl
    | some r => rw [h] at hu; simp at hu
  unfold setLinear
  rw [evalL_setRow, hnone]
  simp [rowVal, ODict.set]

/-- make sure `u` is a variable (`set_linear(u, 0)` when it is not) -/
def ensureVar (m : LBqm R) (u : Label) : LBqm R := if m.adj.contains u then m else m.setLinear u 0

theorem ensureVar_spec (half : R) (m : LBqm R) (u : Label) (x : Label → R) :
    evalL half (m.ensureVar u) x = evalL half m x ∧ (∀ a b, (m.ensureVar u).entry a b = m.entry a b) := by
  unfold ensureVar
  by_cases h : m.adj.contains u = true
  · simp [h]
  · have h' : m.adj.contains u = false := by simpa using h
    simp only [h, Bool.false_eq_true, if_false]
    exact ⟨evalL_setLinear_absent half m u h' x, entry_setLinear_absent m u h'⟩

/-- `adj[u][v] = adj[v][u] = z` -/
def quadSet (m2 : LBqm R) (u v : Label) (z : R) : LBqm R :=
  let adj1 := m2.adj.set u (((m2.adj.get? u).getD []).set v z)
  let rowV := ((adj1.get? v).getD ((m2.adj.get? v).getD [])).set u z
  { m2 with adj := adj1.set v rowV }

theorem entry_eq_getD (m : LBqm R) (a b : Label) : (ODict.get? ((m.adj.get? a).getD []) b).getD 0 = m.entry a b := by
  unfold entry; cases m.adj.get? a <;> simp [ODict.get?]

theorem addQuadratic_shape (m : LBqm R) (u v : Label) (b : R) (huv : u ≠ v) :
    ∃ m2 : LBqm R, (∀ half x, evalL half m2 x = evalL half m x) ∧ (∀ a c, m2.entry a c = m.entry a c) ∧
      m2.off = m.off ∧ m2.vt = m.vt ∧
      m.addQuadratic u v b = .ok (m2.quadSet u v (m2.entry v u + b)) := by
  refine ⟨(m.ensureVar u).ensureVar v, ?_, ?_, ?_, ?_, ?_⟩
  · intro half x
    rw [(ensureVar_spec half _ v x).1, (ensureVar_spec half _ u x).1]
  · intro a c
    rw [(ensureVar_spec (0 : R) _ v (fun _ => 0)).2, (ensureVar_spec (0 : R) _ u (fun _ => 0)).2]
  · unfold ensureVar setLinear; split <;> split <;> rfl
  · unfold ensureVar setLinear; split <;> split <;> rfl
  · unfold addQuadratic
    simp only [huv, if_false]
    rw [← entry_eq_getD]
    rfl

/-- **`add_quadratic(u, v, b)` (`u ≠ v`) adds `b·x_u·x_v`** on a model whose two copies agree, and keeps them in agreement -/
theorem addQuadratic_spec (half : R) (hh : two * half = 1) (m : LBqm R) (hs : m.Sym) (u v : Label) (b : R) (huv : u ≠ v) :
    ∃ m', m.addQuadratic u v b = .ok m' ∧ m'.Sym ∧ m'.off = m.off ∧ m'.vt = m.vt ∧
      ∀ x, evalL half m' x = evalL half m x + b * x u * x v := by
  obtain ⟨m2, he, hent, hoff, hvt, hshape⟩ := addQuadratic_shape m u v b huv
  have hvu : v ≠ u := fun e => huv e.symm
  have hs2 : m2.Sym := by intro a c; rw [hent, hent]; exact hs a c
  set z := m2.entry v u + b with hz
  set rowU := ((m2.adj.get? u).getD []).set v z with hrowU
  set adj1 := m2.adj.set u rowU with hadj1
  have hgetv : (adj1.get? v).getD ((m2.adj.get? v).getD []) = (m2.adj.get? v).getD [] := by
    rw [hadj1, get?_set_ne _ _ _ _ huv]
    cases m2.adj.get? v <;> rfl
  have hq : m2.quadSet u v z = { m2 with adj := adj1.set v (((adj1.get? v).getD ((m2.adj.get? v).getD [])).set u z) } := rfl
  rw [hq] at hshape
  refine ⟨_, hshape, ?_, hoff, hvt, ?_⟩
  · -- symmetry of the result
    intro a c
    have e1 : ∀ a c, entry { m2 with adj := adj1.set v (((adj1.get? v).getD ((m2.adj.get? v).getD [])).set u z) } a c
        = if a = v then (if c = u then z else m2.entry v c) else if a = u then (if c = v then z else m2.entry u c) else m2.entry a c := by
      intro a c
      refine Eq.trans (entry_setRow { m2 with adj := adj1 } v (((adj1.get? v).getD ((m2.adj.get? v).getD [])).set u z) a c) ?_
      by_cases hav : a = v
      · subst hav
        simp only [if_true, hgetv, get?_set_cases]
        by_cases hcu : u = c
        · subst hcu; simp
        · have : ¬ c = u := fun e => hcu e.symm
          simp only [hcu, if_false, this]
          exact entry_eq_getD m2 a c
      · simp only [hav, if_false]
        refine Eq.trans (entry_setRow m2 u rowU a c) ?_
        by_cases hau : a = u
        · subst hau
          simp only [if_true, hrowU, get?_set_cases]
          by_cases hcv : v = c
          · subst hcv; simp
          · have : ¬ c = v := fun e => hcv e.symm
            simp only [hcv, if_false, this]
            exact entry_eq_getD m2 a c
        · simp [hau]
    rw [e1 a c, e1 c a]
    by_cases h1 : a = v <;> by_cases h2 : a = u <;> by_cases h3 : c = v <;> by_cases h4 : c = u <;>
      simp_all [hs2 _ _]
    all_goals first | exact hs2 _ _ | exact (hs2 _ _).symm | skip
  · intro x
    have step2 := evalL_setRow half { m2 with adj := adj1 } v (((adj1.get? v).getD ((m2.adj.get? v).getD [])).set u z) x
    have step1 := evalL_setRow half m2 u rowU x
    refine Eq.trans step2 ?_
    rw [show evalL half { m2 with adj := adj1 } x = _ from step1, hgetv, hrowU, rowVal_set, rowVal_set, ← he half x]
    have hgv : ODict.get? adj1 v = ODict.get? m2.adj v := by rw [hadj1, get?_set_ne _ _ _ _ huv]
    rw [hgv]
    have e_uv := entry_eq_getD m2 u v
    have e_vu := entry_eq_getD m2 v u
    rw [e_uv, e_vu, hs2 u v]
    simp only [huv, hvu, if_false]
    unfold two at hh
    linear_combination (b * x u * x v) * hh

end LBqm

end En

/-! ## the constructors -/

namespace En

variable {R : Type} [CommRing R]

namespace LBqm

/-- the domain of a vartype, as the identity the construction relies on for diagonal entries -/
def InDomain (vt : VT) (x : Label → R) : Prop :=
  match vt with
  | .binary => ∀ v, x v * x v = x v
  | .spin => ∀ v, x v * x v = 1

theorem evalL_withOff (half : R) (m : LBqm R) (c : R) (x : Label → R) :
    evalL half { m with off := m.off + c } x = evalL half m x + c := by
  unfold evalL; simp only []; ring

theorem initQuadStep_spec (half : R) (hh : two * half = 1) (vt : VT) (x : Label → R) (hx : InDomain vt x)
    (m : LBqm R) (hs : m.Sym) (e : (Label × Label) × R) :
    (initQuadStep vt m e).Sym ∧ evalL half (initQuadStep vt m e) x = evalL half m x + e.2 * x e.1.1 * x e.1.2 := by
  unfold initQuadStep
  by_cases hd : e.1.1 = e.1.2
  · simp only [hd, if_true]
    cases vt with
    | binary =>
      simp only []
      refine ⟨Sym_addLinear m hs _ _, ?_⟩
      rw [evalL_addLinear, mul_assoc, hx e.1.2]
    | spin =>
      simp only []
      refine ⟨fun a b => hs a b, ?_⟩
      rw [evalL_withOff, mul_assoc, hx e.1.2]; ring
  · simp only [hd, if_false]
    obtain ⟨m', h1, h2, _, _, h5⟩ := addQuadratic_spec half hh m hs e.1.1 e.1.2 e.2 hd
    rw [h1]
    exact ⟨h2, h5 x⟩

theorem foldl_initQuadStep (half : R) (hh : two * half = 1) (vt : VT) (x : Label → R) (hx : InDomain vt x)
    (q : PairMap R) (m : LBqm R) (hs : m.Sym) :
    (q.foldl (initQuadStep vt) m).Sym ∧ evalL half (q.foldl (initQuadStep vt) m) x = evalL half m x + pairSum x q := by
  induction q generalizing m with
  | nil => simp [hs, pairSum]
  | cons e rest ih =>
    obtain ⟨s1, s2⟩ := initQuadStep_spec half hh vt x hx m hs e
    obtain ⟨r1, r2⟩ := ih _ s1
    simp only [List.foldl_cons]
    refine ⟨r1, ?_⟩
    rw [r2, s2]; unfold pairSum; simp only [List.map_cons, List.sum_cons]; ring

theorem foldl_addLinear (half : R) (x : Label → R) (lin : ODict Label R) (m : LBqm R) :
    evalL half (lin.foldl (fun m p => m.addLinear p.1 p.2) m) x = evalL half m x + labelSum x lin := by
  induction lin generalizing m with
  | nil => simp [labelSum]
  | cons p rest ih =>
    simp only [List.foldl_cons]
    rw [ih, evalL_addLinear]; unfold labelSum; simp only [List.map_cons, List.sum_cons]; ring

/-- **`_init_components`**: the model built from mappings `linear`, `quadratic` (diagonal entries, repeated and reversed keys
    allowed) and `offset` has, at every assignment of its vartype's domain, the energy
    `offset + Σ quadratic[(u,v)]·x_u·x_v + Σ linear[v]·x_v` -/
theorem initComponents_energy (half : R) (hh : two * half = 1) (vt : VT) (linear : ODict Label R) (quadratic : PairMap R)
    (offset : R) (x : Label → R) (hx : InDomain vt x) :
    evalL half (initComponents vt linear quadratic offset) x = offset + pairSum x quadratic + labelSum x linear := by
  unfold initComponents
  simp only []
  have h0 : (({ vt := vt, adj := [], off := offset } : LBqm R)).Sym := fun a b => rfl
  obtain ⟨_, r2⟩ := foldl_initQuadStep half hh vt x hx quadratic _ h0
  rw [foldl_addLinear, r2]
  simp [evalL]

end LBqm

/-- **`from_ising_energy`**: `BQM.from_ising(h, J, offset)` at every spin assignment -/
theorem fromIsing_energy (half : R) (hh : two * half = 1) (h : ODict Label R) (J : PairMap R) (offset : R)
    (s : Label → R) (hs : ∀ v, s v * s v = 1) :
    LBqm.evalL half (LBqm.fromIsing h J offset) s = offset + pairSum s J + labelSum s h :=
  LBqm.initComponents_energy half hh .spin h J offset s hs

/-- **`from_qubo_energy`**: `BQM.from_qubo(Q, offset)` at every binary assignment: `offset + Σ Q[(u,v)]·x_u·x_v`, diagonal entries included -/
theorem fromQubo_energy (half : R) (hh : two * half = 1) (Q : PairMap R) (offset : R)
    (x : Label → R) (hx : ∀ v, x v * x v = x v) :
    LBqm.evalL half (LBqm.fromQubo Q offset) x = offset + pairSum x Q := by
  have := LBqm.initComponents_energy half hh .binary [] Q offset x hx
  unfold LBqm.fromQubo
  rw [this]; simp [labelSum]

end En
