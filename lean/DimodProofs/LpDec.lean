import DimodProofs.LpNum
import Mathlib.Tactic.Linarith
import Mathlib.Tactic.Ring
import Mathlib.Tactic.FieldSimp

/-! C12, lexical layer: the decimal text the LP writer prints for a terminating decimal is read back
exactly by the specification reader's number parser (`parseDec`). -/

namespace Lp

/-- `q` has a terminating decimal expansion with at most 60 places -/
def Dec60 (q : Rat) : Prop := ∃ k, k ≤ 60 ∧ (q * (10 : Rat) ^ k).den = 1

/-! ## `decPlaces` finds an index at which the scaled value is integral -/

theorem decPlaces_spec (q : Rat) : ∀ (fuel start : Nat),
    (∃ k', start ≤ k' ∧ k' ≤ start + fuel ∧ (q * (10 : Rat) ^ k').den = 1) →
    (q * (10 : Rat) ^ (decPlaces q fuel start)).den = 1
  | 0, start, ⟨k', h1, h2, h3⟩ => by
    have : k' = start := by omega
    subst this
    simpa [decPlaces] using h3
  | fuel + 1, start, ⟨k', h1, h2, h3⟩ => by
    rw [decPlaces]
    by_cases h : (q * (10 : Rat) ^ start).den = 1
    · simp only [h, if_true]
    · simp only [h, if_false]
      have hne : k' ≠ start := by
        rintro rfl
        exact h h3
      exact decPlaces_spec q fuel (start + 1) ⟨k', by omega, by omega, h3⟩

/-! ## digits of the fractional part -/

theorem natDigits_length_le (m : Nat) : ∀ k, 1 ≤ k → m < 10 ^ k → (natDigits m).length ≤ k := by
  induction m using Nat.strong_induction_on with
  | _ m ih =>
    intro k hk hm
    rw [natDigits_unfold]
    by_cases h : m < 10
    · simp only [h, if_true, List.length_singleton]
      exact hk
    · simp only [h, if_false, List.length_append, List.length_singleton]
      have hk2 : 2 ≤ k := by
        by_contra hc
        have : k = 1 := by omega
        subst this
        simp at hm
        omega
      have hpow : 10 ^ k = 10 * 10 ^ (k - 1) := by
        rw [← Nat.pow_succ']
        congr 1
        omega
      have hlt : m / 10 < 10 ^ (k - 1) := by
        apply Nat.div_lt_of_lt_mul
        rw [← hpow]
        exact hm
      have := ih (m / 10) (by omega) (k - 1) (by omega) hlt
      omega

theorem foldl_zeros (j : Nat) (ds : List Char) :
    (List.replicate j '0' ++ ds).foldl (fun a c => 10 * a + (c.toNat - 48)) 0 =
      ds.foldl (fun a c => 10 * a + (c.toNat - 48)) 0 := by
  induction j with
  | zero => simp
  | succ j ih =>
    rw [List.replicate_succ, List.cons_append, List.foldl_cons]
    have : 10 * 0 + ('0'.toNat - 48) = 0 := by decide
    rw [this]
    exact ih

theorem padLeft_spec (k m : Nat) (hk : 1 ≤ k) (hm : m < 10 ^ k) :
    (padLeft k (natDigits m)).length = k ∧ (padLeft k (natDigits m)).all Char.isDigit = true ∧
    parseDigits (padLeft k (natDigits m)) = some m := by
  obtain ⟨h1, h2, h3⟩ := natDigits_spec m
  have hlen := natDigits_length_le m k hk hm
  have hall : (padLeft k (natDigits m)).all Char.isDigit = true := by
    unfold padLeft
    rw [List.all_append, h2, Bool.and_true, List.all_eq_true]
    intro c hc
    rw [List.mem_replicate] at hc
    rw [hc.2]
    decide
  have hl : (padLeft k (natDigits m)).length = k := by
    unfold padLeft
    rw [List.length_append, List.length_replicate]
    omega
  refine ⟨hl, hall, ?_⟩
  unfold parseDigits
  have hne : (padLeft k (natDigits m)).isEmpty = false := by
    cases hp : padLeft k (natDigits m) with
    | nil => rw [hp] at hl; simp at hl; omega
    | cons a t => rfl
  rw [hne, hall]
  simp only [Bool.not_true, Bool.or_self, Bool.false_eq_true, if_false]
  unfold padLeft
  rw [foldl_zeros, h3]

/-! ## the parser on `[-]ddd.ddd` -/

theorem takeWhile_append_stop {α} (p : α → Bool) (l : List α) (a : α) (r : List α)
    (hl : ∀ x ∈ l, p x = true) (ha : p a = false) : (l ++ a :: r).takeWhile p = l := by
  induction l with
  | nil => simp [ha]
  | cons b t ih =>
    simp [hl b List.mem_cons_self, ih (fun x hx => hl x (List.mem_cons_of_mem _ hx))]

theorem dropWhile_append_stop {α} (p : α → Bool) (l : List α) (a : α) (r : List α)
    (hl : ∀ x ∈ l, p x = true) (ha : p a = false) : (l ++ a :: r).dropWhile p = a :: r := by
  induction l with
  | nil => simp [ha]
  | cons b t ih =>
    simp [hl b List.mem_cons_self, ih (fun x hx => hl x (List.mem_cons_of_mem _ hx))]

/-- the pieces `parseDec` cuts `ddd.ddd` into -/
theorem parse_body (ip : Nat) (fd : List Char) :
    (natDigits ip ++ '.' :: fd).takeWhile (fun c => decide (c ≠ '.')) = natDigits ip ∧
    ((natDigits ip ++ '.' :: fd).dropWhile (fun c => decide (c ≠ '.'))).drop 1 = fd ∧
    (natDigits ip ++ '.' :: fd).contains '.' = true := by
  obtain ⟨h1, h2, _⟩ := natDigits_spec ip
  have hne : ∀ c, c.isDigit = false → c ∉ natDigits ip := fun c hc => digits_no_special _ h2 c hc
  have hp : ∀ x ∈ natDigits ip, (fun c : Char => decide (c ≠ '.')) x = true := by
    intro x hx
    simp only [ne_eq, decide_not, Bool.not_eq_eq_eq_not, Bool.not_true, decide_eq_false_iff_not]
    rintro rfl
    exact hne '.' (by decide) hx
  have hdotp : (fun c : Char => decide (c ≠ '.')) '.' = false := by decide
  refine ⟨takeWhile_append_stop _ _ _ _ hp hdotp, ?_, by simp⟩
  rw [dropWhile_append_stop _ _ _ _ hp hdotp]
  rfl

theorem natDigits_head_ne_minus (ip : Nat) (r : List Char) : ((natDigits ip ++ r).head? = some '-') = False := by
  obtain ⟨h1, h2, _⟩ := natDigits_spec ip
  apply eq_false
  intro hh
  cases hd : natDigits ip with
  | nil => exact h1 hd
  | cons c t =>
    rw [hd] at hh
    simp only [List.cons_append, List.head?_cons, Option.some.injEq] at hh
    have : c ∈ natDigits ip := by rw [hd]; exact List.mem_cons_self
    exact digits_no_special _ h2 '-' (by decide) (by rw [← hh]; exact this)

theorem ne_of_mem_e (w : String) (cs : List Char) (hw : w.toList = cs) (he : 'e' ∉ cs) :
    w ≠ "1e+30" ∧ w ≠ "-1e+30" := by
  constructor
  · intro h
    apply he
    rw [← hw, h]
    decide
  · intro h
    apply he
    rw [← hw, h]
    decide

theorem parseDec_pos (w : String) (ip fp : Nat) (fd : List Char)
    (hw : w.toList = natDigits ip ++ '.' :: fd) (hfd : fd.all Char.isDigit = true)
    (hfp : parseDigits fd = some fp) :
    parseDec w = some ((ip : Rat) + (fp : Rat) / (10 : Rat) ^ fd.length) := by
  obtain ⟨h1, h2, _⟩ := natDigits_spec ip
  have he : 'e' ∉ natDigits ip ++ '.' :: fd := by
    intro hm
    rw [List.mem_append, List.mem_cons] at hm
    rcases hm with hm | hm | hm
    · exact digits_no_special _ h2 'e' (by decide) hm
    · revert hm; decide
    · exact digits_no_special _ hfd 'e' (by decide) hm
  obtain ⟨hn1, hn2⟩ := ne_of_mem_e w _ hw he
  unfold parseDec
  rw [if_neg hn1, if_neg hn2, hw]
  have hhead := natDigits_head_ne_minus ip ('.' :: fd)
  obtain ⟨htw, hdw, hdot⟩ := parse_body ip fd
  simp only [hhead, decide_false, Bool.false_eq_true, if_false, htw, hdw, hdot, parseDigits_natDigits, hfp, if_true]

theorem parseDec_neg (w : String) (ip fp : Nat) (fd : List Char)
    (hw : w.toList = '-' :: (natDigits ip ++ '.' :: fd)) (hfd : fd.all Char.isDigit = true)
    (hfp : parseDigits fd = some fp) :
    parseDec w = some (-((ip : Rat) + (fp : Rat) / (10 : Rat) ^ fd.length)) := by
  obtain ⟨h1, h2, _⟩ := natDigits_spec ip
  have he : 'e' ∉ '-' :: (natDigits ip ++ '.' :: fd) := by
    intro hm
    rw [List.mem_cons, List.mem_append, List.mem_cons] at hm
    rcases hm with hm | hm | hm | hm
    · revert hm; decide
    · exact digits_no_special _ h2 'e' (by decide) hm
    · revert hm; decide
    · exact digits_no_special _ hfd 'e' (by decide) hm
  obtain ⟨hn1, hn2⟩ := ne_of_mem_e w _ hw he
  unfold parseDec
  rw [if_neg hn1, if_neg hn2, hw]
  simp only [List.head?_cons, decide_true, if_true, List.drop_succ_cons, List.drop_zero]
  obtain ⟨htw, hdw, hdot⟩ := parse_body ip fd
  simp only [htw, hdw, hdot, parseDigits_natDigits, hfp, if_true]

/-! ## the form of the writer's decimal text -/

theorem natCast_of_den_one (a : Rat) (ha : a.den = 1) (h0 : 0 ≤ a) : ((a.num.toNat : Nat) : Rat) = a := by
  have hn : 0 ≤ a.num := Rat.num_nonneg.mpr h0
  have : ((a.num.toNat : Nat) : Int) = a.num := Int.toNat_of_nonneg hn
  have h2 : (a.num : Rat) = a := Rat.coe_int_num_of_den_eq_one ha
  calc ((a.num.toNat : Nat) : Rat) = (((a.num.toNat : Nat) : Int) : Rat) := by norm_cast
    _ = (a.num : Rat) := by rw [this]
    _ = a := h2

theorem showPosDecimal_form (q : Rat) (h0 : 0 ≤ q) (hd : Dec60 q) :
    ∃ (ip fp : Nat) (fd : List Char), (showPosDecimal q).toList = natDigits ip ++ '.' :: fd ∧
      fd.all Char.isDigit = true ∧ parseDigits fd = some fp ∧
      (ip : Rat) + (fp : Rat) / (10 : Rat) ^ fd.length = q := by
  obtain ⟨k', hk', hden'⟩ := hd
  have hden : (q * (10 : Rat) ^ (decPlaces q 60 0)).den = 1 :=
    decPlaces_spec q 60 0 ⟨k', Nat.zero_le _, by omega, hden'⟩
  have hpos : (0 : Rat) < (10 : Rat) ^ (decPlaces q 60 0) := by positivity
  have hn : (((q * (10 : Rat) ^ (decPlaces q 60 0)).num.toNat : Nat) : Rat) = q * (10 : Rat) ^ (decPlaces q 60 0) :=
    natCast_of_den_one _ hden (by positivity)
  unfold showPosDecimal
  dsimp only
  generalize decPlaces q 60 0 = k at *
  generalize (q * (10 : Rat) ^ k).num.toNat = n at *
  have hsplit : (n : Rat) = ((n / 10 ^ k : Nat) : Rat) * (10 : Rat) ^ k + ((n % 10 ^ k : Nat) : Rat) := by
    have := Nat.div_add_mod n (10 ^ k)
    have h2 : ((10 ^ k * (n / 10 ^ k) + n % 10 ^ k : Nat) : Rat) = (n : Rat) := by rw [this]
    rw [← h2]
    push_cast
    ring
  have hval : ((n / 10 ^ k : Nat) : Rat) + ((n % 10 ^ k : Nat) : Rat) / (10 : Rat) ^ k = q := by
    have hq : q = (n : Rat) / (10 : Rat) ^ k := by
      rw [hn]; field_simp
    rw [hq, hsplit]
    field_simp
  by_cases hk : k = 0
  · subst hk
    refine ⟨n / 10 ^ 0, 0, ['0'], ?_, by decide, by decide, ?_⟩
    · simp [showNat]
    · simp [Nat.mod_one] at hval ⊢
      exact hval
  · have hk1 : 1 ≤ k := by omega
    have hlt : n % 10 ^ k < 10 ^ k := Nat.mod_lt _ (by positivity)
    obtain ⟨hl, hall, hpd⟩ := padLeft_spec k (n % 10 ^ k) hk1 hlt
    refine ⟨n / 10 ^ k, n % 10 ^ k, padLeft k (natDigits (n % 10 ^ k)), ?_, hall, hpd, ?_⟩
    · simp [hk, showNat]
    · rw [hl]; exact hval

theorem parseDec_showPosDecimal (q : Rat) (h0 : 0 ≤ q) (hd : Dec60 q) :
    Word (showPosDecimal q) ∧ parseDec (showPosDecimal q) = some q := by
  obtain ⟨ip, fp, fd, hw, hfd, hfp, hval⟩ := showPosDecimal_form q h0 hd
  obtain ⟨h1, h2, _⟩ := natDigits_spec ip
  refine ⟨⟨by rw [hw]; simp, ?_⟩, by rw [parseDec_pos _ ip fp fd hw hfd hfp, hval]⟩
  intro c hc
  rw [hw, List.mem_append, List.mem_cons] at hc
  have hdig : ∀ c : Char, c.isDigit = true → isWs c = false := by
    intro c hd
    by_contra hws
    have : isWs c = true := by simpa using hws
    simp only [isWs, Bool.or_eq_true, decide_eq_true_eq] at this
    rcases this with rfl | rfl <;> revert hd <;> decide
  rcases hc with hc | hc | hc
  · exact hdig c (List.all_eq_true.mp h2 c hc)
  · rw [hc]; decide
  · exact hdig c (List.all_eq_true.mp hfd c hc)

theorem dec60_neg (q : Rat) (hd : Dec60 q) : Dec60 (-q) := by
  obtain ⟨k, hk, h⟩ := hd
  refine ⟨k, hk, ?_⟩
  rw [neg_mul, Rat.neg_den]
  exact h

theorem parseDec_showFloat (q : Rat) (hd : Dec60 q) : Word (showFloat q) ∧ parseDec (showFloat q) = some q := by
  unfold showFloat
  by_cases h1 : q = realMax
  · rw [if_pos h1, h1]
    refine ⟨⟨by decide, by decide⟩, ?_⟩
    unfold parseDec
    rw [if_pos rfl]
  · rw [if_neg h1]
    by_cases h2 : q = -realMax
    · rw [if_pos h2, h2]
      refine ⟨⟨by decide, by decide⟩, ?_⟩
      unfold parseDec
      rw [if_neg (by decide), if_pos rfl]
    · rw [if_neg h2]
      by_cases h3 : q < 0
      · rw [if_pos h3]
        have h0 : 0 ≤ -q := by linarith
        obtain ⟨ip, fp, fd, hw, hfd, hfp, hval⟩ := showPosDecimal_form (-q) h0 (dec60_neg q hd)
        obtain ⟨⟨_, hws⟩, _⟩ := parseDec_showPosDecimal (-q) h0 (dec60_neg q hd)
        have hw' : ("-" ++ showPosDecimal (-q)).toList = '-' :: (natDigits ip ++ '.' :: fd) := by
          rw [String.toList_append, hw]
          rfl
        refine ⟨⟨by rw [hw']; simp, ?_⟩, ?_⟩
        · intro c hc
          rw [String.toList_append, List.mem_append] at hc
          rcases hc with hc | hc
          · have : c = '-' := by simpa using hc
            rw [this]; decide
          · exact hws c hc
        · rw [parseDec_neg _ ip fp fd hw' hfd hfp, hval, neg_neg]
      · rw [if_neg h3]
        exact parseDec_showPosDecimal q (by linarith) hd

theorem parseDec_showAbs (b : Rat) (hd : Dec60 b) : Word (showAbs b) ∧ parseDec (showAbs b) = some (absQ b) := by
  by_cases hi : b.den = 1
  · exact numText_int b hi
  · unfold showAbs absQ
    by_cases hb : b < 0
    · simp only [hb, if_true]
      have hden : ¬ (-b).den = 1 := by rw [Rat.neg_den]; exact hi
      simp only [hden, if_false]
      exact parseDec_showPosDecimal (-b) (by linarith) (dec60_neg b hd)
    · simp only [hb, if_false, hi]
      exact parseDec_showPosDecimal b (by linarith) hd

/-- every dyadic rational with denominator 2^j, j ≤ 60, is Dec60 -/
theorem dec60_of_dyadic (q : Rat) (j : Nat) (hj : j ≤ 60) (h : (q * (2 : Rat) ^ j).den = 1) : Dec60 q := by
  refine ⟨j, hj, ?_⟩
  have h2 : ((q * (2 : Rat) ^ j).num : Rat) = q * (2 : Rat) ^ j := Rat.coe_int_num_of_den_eq_one h
  have h10 : q * (10 : Rat) ^ j = (((q * (2 : Rat) ^ j).num * 5 ^ j : Int) : Rat) := by
    push_cast
    rw [h2]
    have : (10 : Rat) = 2 * 5 := by norm_num
    rw [this, mul_pow]
    ring
  rw [h10]
  exact Rat.den_intCast _

end Lp
