import DimodModel.JsonObject
import DimodProofs.JsonPrefix

/-! # Header dictionaries: `json.loads (json.dumps d) = d` at text level, and rejection of every
    proper prefix -/

namespace FileFmt

def FOK : HField → Prop
  | .val v => JOK v
  | .bool _ => True

def fieldSize : HField → Nat
  | .val v => sizeJ v
  | .bool _ => 1

/-- first character of a dumped value is not `t` / `f` (so it is not taken for `true` / `false`) -/
theorem dumpsJ_head_tf (v : JVal) (hv : JOK v) : ∃ c t, dumpsJ v = c :: t ∧ c ≠ 't' ∧ c ≠ 'f' ∧ isWs c = false := by
  rw [← dumpsE_false]
  cases v with
  | int z =>
    obtain ⟨c, t, e, hc⟩ := numHead_int z
    refine ⟨c, t, by simp [dumpsE, e], ?_⟩
    rcases hc with hc | rfl
    · have := digit_goodhead c hc
      unfold isDigit at hc; simp at hc
      exact ⟨by intro e; subst e; revert hc; decide, by intro e; subst e; revert hc; decide, this.1⟩
    · decide
  | flt r =>
    obtain ⟨p, _, hr⟩ := hv
    obtain ⟨c, t, e, hc⟩ := numHead_float p
    refine ⟨c, t, by simp [dumpsE, hr, e], ?_⟩
    rcases hc with hc | rfl
    · have := digit_goodhead c hc
      unfold isDigit at hc; simp at hc
      exact ⟨by intro e; subst e; revert hc; decide, by intro e; subst e; revert hc; decide, this.1⟩
    · decide
  | str s => exact ⟨'"', _, rfl, by decide, by decide, by decide⟩
  | arr l => exact ⟨'[', _, rfl, by decide, by decide, by decide⟩

theorem isPrefixOf_cons_ne (p : List Char) (a c : Char) (t : List Char) (h : a ≠ c) : (a :: p).isPrefixOf (c :: t) = false := by
  simp [List.isPrefixOf, h]

theorem scanField_dumps (f : HField) (hf : FOK f) (cap : Nat) (hcap : fieldSize f ≤ cap) (rest : List Char) (hr : Delim rest) :
    scanField cap (dumpsField f ++ rest) = some (f, rest) := by
  cases f with
  | bool b =>
    cases b
    · simp [scanField, dumpsField, cTrue, cFalse, List.isPrefixOf]
    · simp [scanField, dumpsField, cTrue, cFalse, List.isPrefixOf]
  | val v =>
    obtain ⟨c, t, e, h1, h2, _⟩ := dumpsJ_head_tf v hf
    have hs := scan_value false v hf cap rest hcap hr
    rw [dumpsE_false] at hs
    have hdf : dumpsField (.val v) = dumpsJ v := rfl
    unfold scanField
    rw [hdf]
    rw [e] at hs ⊢
    simp only [List.cons_append, cTrue, cFalse, isPrefixOf_cons_ne _ _ _ _ (Ne.symm h1), isPrefixOf_cons_ne _ _ _ _ (Ne.symm h2),
      Bool.false_eq_true, if_false] at hs ⊢
    rw [hs]

theorem delim_of_head (c : Char) (t : List Char) (h : isDigit c = false ∧ c ≠ '.' ∧ c ≠ 'e' ∧ c ≠ 'E') : Delim (c :: t) := by
  intro x hx; simp at hx; subst hx; exact h

theorem skipWs_cons_good (c : Char) (t : List Char) (h : isWs c = false) : skipWs (c :: t) = c :: t := by
  simp [skipWs, List.dropWhile_cons, h]

theorem skipWs_space (cs : List Char) (h : ∃ c t, cs = c :: t ∧ isWs c = false) : skipWs (' ' :: cs) = cs := by
  obtain ⟨c, t, rfl, hc⟩ := h
  show List.dropWhile isWs (' ' :: c :: t) = _
  rw [List.dropWhile_cons]
  simp only [show isWs ' ' = true by decide, if_true]
  rw [List.dropWhile_cons]; simp [hc]

theorem dumpsField_head (f : HField) (hf : FOK f) : ∃ c t, dumpsField f = c :: t ∧ isWs c = false := by
  cases f with
  | bool b => cases b <;> exact ⟨_, _, rfl, by decide⟩
  | val v => obtain ⟨c, t, e, _, _, h⟩ := dumpsJ_head_tf v hf; exact ⟨c, t, e, h⟩

theorem dumpsItems_head : ∀ (d : HDict), d ≠ [] → ∀ rest, ∃ t2, dumpsItems d ++ rest = '"' :: t2
  | [], h, _ => absurd rfl h
  | [kv], _, rest => ⟨_, rfl⟩
  | kv :: kv2 :: t, _, rest => ⟨_, rfl⟩

/-- the items of an object up to and including the closing brace -/
theorem scanItems_dumps (cap : Nat) : ∀ (d : HDict), d ≠ [] → (∀ kv ∈ d, FOK kv.2 ∧ fieldSize kv.2 ≤ cap) → ∀ (f : Nat) (rest : List Char),
    d.length ≤ f → scanItems cap f (dumpsItems d ++ '}' :: rest) = some (d, rest)
  | [], hne, _, _, _, _ => absurd rfl hne
  | [kv], _, hd, f, rest, hf => by
    obtain ⟨g, rfl⟩ : ∃ g, f = g + 1 := ⟨f - 1, by simp at hf; omega⟩
    obtain ⟨hok, hsz⟩ := hd kv (by simp)
    obtain ⟨c, t, e, hc⟩ := dumpsField_head kv.2 hok
    have hfld := scanField_dumps kv.2 hok cap hsz ('}' :: rest) (delim_of_head _ _ (by decide))
    simp only [dumpsItems, dumpsStr, List.cons_append, List.append_assoc, List.nil_append, scanItems, ne_eq, not_true_eq_false, if_false,
      scan_dumps_plain]
    rw [skipWs_cons_good ':' _ (by decide)]
    simp only [ne_eq, not_true_eq_false, if_false]
    rw [skipWs_space _ ⟨c, t ++ '}' :: rest, by rw [e]; rfl, hc⟩, hfld]
    simp only
    rw [skipWs_cons_good '}' _ (by decide)]
    simp [String.ofList_toList]
  | kv :: kv2 :: t, _, hd, f, rest, hf => by
    obtain ⟨g, rfl⟩ : ∃ g, f = g + 1 := ⟨f - 1, by simp at hf; omega⟩
    obtain ⟨hok, hsz⟩ := hd kv (by simp)
    obtain ⟨c, t', e, hc⟩ := dumpsField_head kv.2 hok
    have ih := scanItems_dumps cap (kv2 :: t) (by simp) (fun x hx => hd x (by simp [hx])) g rest (by simp at hf ⊢; omega)
    have hfld := scanField_dumps kv.2 hok cap hsz (',' :: ' ' :: (dumpsItems (kv2 :: t) ++ '}' :: rest)) (delim_of_head _ _ (by decide))
    have hnext : ∃ c2 t2, dumpsItems (kv2 :: t) ++ '}' :: rest = c2 :: t2 ∧ isWs c2 = false := by
      obtain ⟨t2, e2⟩ := dumpsItems_head (kv2 :: t) (by simp) ('}' :: rest)
      exact ⟨'"', t2, e2, by decide⟩
    simp only [dumpsItems, dumpsStr, List.cons_append, List.append_assoc, List.nil_append, scanItems, ne_eq, not_true_eq_false, if_false,
      scan_dumps_plain]
    rw [skipWs_cons_good ':' _ (by decide)]
    simp only [ne_eq, not_true_eq_false, if_false]
    rw [skipWs_space _ ⟨c, t' ++ ',' :: ' ' :: (dumpsItems (kv2 :: t) ++ '}' :: rest), by rw [e]; simp, hc⟩]
    rw [hfld]
    simp only
    rw [skipWs_cons_good ',' _ (by decide)]
    simp only [if_true]
    rw [skipWs_space _ hnext, ih]
    simp [String.ofList_toList]

theorem scanDict_dumps (d : HDict) (fuel : Nat) (hd : ∀ kv ∈ d, FOK kv.2 ∧ fieldSize kv.2 ≤ fuel) (hf : d.length ≤ fuel) (rest : List Char) :
    scanDict fuel (dumpsDict d ++ rest) = some (d, rest) := by
  cases d with
  | nil => simp [dumpsDict, dumpsItems, scanDict, skipWs, List.dropWhile_cons, isWs]
  | cons kv t =>
    have := scanItems_dumps fuel (kv :: t) (by simp) hd fuel rest hf
    obtain ⟨t2, e⟩ := dumpsItems_head (kv :: t) (by simp) ('}' :: rest)
    simp only [dumpsDict, List.cons_append, List.append_assoc, List.singleton_append, List.nil_append, scanDict, ne_eq, not_true_eq_false,
      if_false]
    rw [e] at this ⊢
    rw [skipWs_cons_good '"' _ (by decide)]
    simp only [show ('"' : Char) ≠ '}' by decide, if_false]
    exact this

/-! ## extension stability and prefix rejection for objects -/

theorem stop_of_skipWs_obj (r : List Char) (d : Char) (r2 : List Char) (h : skipWs r = d :: r2) (hd : d = ',' ∨ d = '}') : Stop r := by
  cases r with
  | nil => simp [skipWs] at h
  | cons c t =>
    by_cases hc : isWs c = true
    · exact ws_stop c t hc
    · have : skipWs (c :: t) = c :: t := by simp [skipWs, List.dropWhile_cons, hc]
      rw [this] at h
      simp only [List.cons.injEq] at h
      obtain ⟨rfl, _⟩ := h
      refine ⟨c, t, rfl, ?_⟩
      rcases hd with rfl | rfl <;> decide

theorem scanOnce_head_not_tf (f : Nat) (c : Char) (t : List Char) (v : JVal) (r : List Char) (h : scanOnce f (c :: t) = some (v, r)) :
    c ≠ 't' ∧ c ≠ 'f' := by
  cases f with
  | zero => simp [scanOnce] at h
  | succ f =>
    constructor <;> intro e <;> subst e <;>
      simp [scanOnce, scanNumber, scanIntPart, isDigit, cNaN, cInf, List.isPrefixOf] at h

theorem scanField_stable (cap : Nat) (cs : List Char) (f : HField) (r : List Char) (h : scanField cap cs = some (f, r)) (hs : Stop r)
    (cap' : Nat) (hcap : cap ≤ cap') (ys : List Char) : scanField cap' (cs ++ ys) = some (f, r ++ ys) := by
  unfold scanField at h ⊢
  by_cases h1 : cTrue.isPrefixOf cs = true
  · simp only [h1, if_true, Option.some.injEq, Prod.mk.injEq] at h
    simp only [isPrefixOf_append _ _ ys h1, if_true, Option.some.injEq, Prod.mk.injEq]
    have := drop_append_prefix cTrue cs ys h1
    simp only [cTrue, List.length_cons, List.length_nil] at this
    exact ⟨h.1, by rw [← h.2]; simpa using this⟩
  · simp only [h1, Bool.false_eq_true, if_false] at h
    by_cases h2 : cFalse.isPrefixOf cs = true
    · simp only [h2, if_true, Option.some.injEq, Prod.mk.injEq] at h
      have h1' : cTrue.isPrefixOf (cs ++ ys) = false := by
        cases cs with
        | nil => simp [cFalse, List.isPrefixOf] at h2
        | cons c t =>
          simp only [cFalse, List.isPrefixOf, Bool.and_eq_true, beq_iff_eq] at h2
          have : c = 'f' := h2.1.symm
          subst this; simp [cTrue, List.isPrefixOf]
      simp only [h1', Bool.false_eq_true, if_false, isPrefixOf_append _ _ ys h2, if_true, Option.some.injEq, Prod.mk.injEq]
      have := drop_append_prefix cFalse cs ys h2
      simp only [cFalse, List.length_cons, List.length_nil] at this
      exact ⟨h.1, by rw [← h.2]; simpa using this⟩
    · simp only [h2, Bool.false_eq_true, if_false] at h
      cases hso : scanOnce cap cs with
      | none => simp [hso] at h
      | some p =>
        obtain ⟨v, r'⟩ := p
        simp only [hso, Option.some.injEq, Prod.mk.injEq] at h
        obtain ⟨rfl, rfl⟩ := h
        cases cs with
        | nil => cases cap <;> simp [scanOnce] at hso
        | cons c t =>
          obtain ⟨n1, n2⟩ := scanOnce_head_not_tf cap c t v r' hso
          have e1 : cTrue.isPrefixOf (c :: t ++ ys) = false := by simp [cTrue, List.isPrefixOf, Ne.symm n1]
          have e2 : cFalse.isPrefixOf (c :: t ++ ys) = false := by simp [cFalse, List.isPrefixOf, Ne.symm n2]
          simp only [e1, e2, Bool.false_eq_true, if_false]
          rw [(scan_stable cap).1 (c :: t) v r' hso (.inr hs) cap' hcap ys]

theorem scanItems_stable (cap : Nat) : ∀ (f : Nat) (cs : List Char) (d : HDict) (r : List Char), scanItems cap f cs = some (d, r) →
    ∀ cap' f', cap ≤ cap' → f ≤ f' → ∀ ys, scanItems cap' f' (cs ++ ys) = some (d, r ++ ys)
  | 0, _, _, _, h => by simp [scanItems] at h
  | f + 1, [], _, _, h => by simp [scanItems] at h
  | f + 1, c :: t, d, r, h => by
    intro cap' f' hcap hf ys
    obtain ⟨g, rfl⟩ : ∃ g, f' = g + 1 := ⟨f' - 1, by omega⟩
    simp only [scanItems, List.cons_append] at h ⊢
    by_cases hq : c ≠ '"'
    · simp [hq] at h
    · simp only [hq, if_false] at h ⊢
      cases hs : scanString t with
      | none => simp [hs] at h
      | some p =>
        obtain ⟨k, r1⟩ := p
        simp only [hs] at h
        rw [scanString_stable t k r1 hs ys]
        simp only
        cases hw : skipWs r1 with
        | nil => simp [hw] at h
        | cons d1 r2 =>
          simp only [hw] at h
          rw [skipWs_ext r1 ys (by rw [hw]; simp), hw]
          simp only [List.cons_append]
          by_cases hc : d1 ≠ ':'
          · simp [hc] at h
          · simp only [hc, if_false] at h ⊢
            cases hfld : scanField cap (skipWs r2) with
            | none => simp [hfld] at h
            | some p2 =>
              obtain ⟨v, r3⟩ := p2
              simp only [hfld] at h
              cases hw3 : skipWs r3 with
              | nil => simp [hw3] at h
              | cons e r4 =>
                simp only [hw3] at h
                have hne2 : skipWs r2 ≠ [] := by
                  intro e0; rw [e0] at hfld; simp [scanField, cTrue, cFalse, List.isPrefixOf] at hfld
                  cases cap <;> simp [scanOnce] at hfld
                have hstop : Stop r3 := by
                  by_cases he : e = ','
                  · exact stop_of_skipWs_obj r3 e r4 hw3 (.inl he)
                  · by_cases he2 : e = '}'
                    · exact stop_of_skipWs_obj r3 e r4 hw3 (.inr he2)
                    · simp [he, he2] at h
                rw [skipWs_ext r2 ys hne2, scanField_stable cap (skipWs r2) v r3 hfld hstop cap' hcap ys]
                simp only
                rw [skipWs_ext r3 ys (by rw [hw3]; simp), hw3]
                simp only [List.cons_append]
                by_cases he : e = ','
                · simp only [he, if_true] at h ⊢
                  cases hrec : scanItems cap f (skipWs r4) with
                  | none => simp [hrec] at h
                  | some p3 =>
                    obtain ⟨kvs, r5⟩ := p3
                    simp only [hrec, Option.some.injEq, Prod.mk.injEq] at h
                    obtain ⟨rfl, rfl⟩ := h
                    have hne4 : skipWs r4 ≠ [] := by
                      intro e0; rw [e0] at hrec; cases f <;> simp [scanItems] at hrec
                    rw [skipWs_ext r4 ys hne4, scanItems_stable cap f (skipWs r4) kvs r5 hrec cap' g hcap (by omega) ys]
                · simp only [he, if_false] at h ⊢
                  by_cases he2 : e = '}'
                  · simp only [he2, if_true, Option.some.injEq, Prod.mk.injEq] at h ⊢
                    obtain ⟨rfl, rfl⟩ := h; simp
                  · simp [he2] at h

theorem scanDict_stable (fuel : Nat) (cs : List Char) (d : HDict) (r : List Char) (h : scanDict fuel cs = some (d, r))
    (fuel' : Nat) (hf : fuel ≤ fuel') (ys : List Char) : scanDict fuel' (cs ++ ys) = some (d, r ++ ys) := by
  cases cs with
  | nil => simp [scanDict] at h
  | cons c t =>
    simp only [scanDict, List.cons_append] at h ⊢
    by_cases hc : c ≠ '{'
    · simp [hc] at h
    · simp only [hc, if_false] at h ⊢
      cases hw : skipWs t with
      | nil => simp [hw] at h
      | cons d1 t2 =>
        simp only [hw] at h
        rw [skipWs_ext t ys (by rw [hw]; simp), hw]
        simp only [List.cons_append]
        by_cases hb : d1 = '}'
        · simp only [hb, if_true, Option.some.injEq, Prod.mk.injEq] at h ⊢
          obtain ⟨rfl, rfl⟩ := h; simp
        · simp only [hb, if_false] at h ⊢
          have := scanItems_stable fuel fuel (d1 :: t2) d r h fuel' fuel' hf hf ys
          simpa using this

/-- `json.loads` rejects every proper prefix of a dumped header dictionary -/
theorem loadsDict_prefix_none (d : HDict) (hd : ∀ kv ∈ d, FOK kv.2) (hsz : ∀ kv ∈ d, fieldSize kv.2 ≤ (dumpsDict d).length + 1)
    (hlen : d.length ≤ (dumpsDict d).length + 1) (k : Nat) (hk : k < (dumpsDict d).length) :
    loadsDict ((dumpsDict d).take k) = none := by
  have hfull := scanDict_dumps d ((dumpsDict d).length + 1) (fun kv hkv => ⟨hd kv hkv, hsz kv hkv⟩) hlen []
  rw [List.append_nil] at hfull
  unfold loadsDict
  cases k with
  | zero => simp [skipWs, scanDict]
  | succ k =>
    have hT : dumpsDict d = '{' :: (dumpsItems d ++ ['}']) := rfl
    have hsk : skipWs ((dumpsDict d).take (k + 1)) = (dumpsDict d).take (k + 1) := by
      rw [hT]; simp [skipWs, List.dropWhile_cons, isWs]
    rw [hsk]
    cases hs : scanDict (((dumpsDict d).take (k + 1)).length + 1) ((dumpsDict d).take (k + 1)) with
    | none => rfl
    | some p =>
      exfalso
      obtain ⟨d', r⟩ := p
      have hlen2 : ((dumpsDict d).take (k + 1)).length + 1 ≤ (dumpsDict d).length + 1 := by
        simp only [List.length_take]; omega
      have := scanDict_stable _ _ d' r hs ((dumpsDict d).length + 1) hlen2 ((dumpsDict d).drop (k + 1))
      rw [List.take_append_drop, hfull] at this
      simp only [Option.some.injEq, Prod.mk.injEq] at this
      have h2 : r ++ (dumpsDict d).drop (k + 1) = [] := this.2.symm
      have h3 := (List.append_eq_nil_iff.mp h2).2
      have := List.drop_eq_nil_iff.mp h3
      omega

/-- `json.loads(json.dumps(d) + "\n" + blanks) = d` -/
theorem loadsDict_dumps (d : HDict) (hd : ∀ kv ∈ d, FOK kv.2) (hsz : ∀ kv ∈ d, fieldSize kv.2 ≤ (dumpsDict d).length + 1)
    (hlen : d.length ≤ (dumpsDict d).length + 1) (ws : List Char) (hws : Blank ws) : loadsDict (dumpsDict d ++ ws) = some d := by
  unfold loadsDict
  have hT : dumpsDict d ++ ws = '{' :: (dumpsItems d ++ ['}'] ++ ws) := rfl
  have hsk : skipWs (dumpsDict d ++ ws) = dumpsDict d ++ ws := by rw [hT]; simp [skipWs, List.dropWhile_cons, isWs]
  rw [hsk, scanDict_dumps d _ (fun kv hkv => ⟨hd kv hkv, by have := hsz kv hkv; simp only [List.length_append]; omega⟩)
    (by simp only [List.length_append]; omega) ws]
  simp [skipWs_blank ws hws]

end FileFmt
