import DimodProofs.BqmView

/-! `add_quadratic` through a `VartypeView` of the other vartype: the view sees exactly the edit.  The sums the view
    reads (`sumNb`, `sumQuad`) as folds over the variable list, and how they move when one pair changes.
    Core Lean only. -/

namespace Bqm

/-- the bias of `{a, w}`, `0` when absent -/
def LPoly.g (q : LPoly) (a w : Label) : Rat := (q.quad a w).getD 0

/-! ### sums as folds over the variable list -/

theorem foldl_filterMap_add {α β} (l : List α) (f : α → Option β) (val : β → Rat) (z : Rat) :
    (l.filterMap f).foldl (fun a y => a + val y) z = l.foldl (fun a x => a + ((f x).map val).getD 0) z := by
  induction l generalizing z with
  | nil => rfl
  | cons x t ih =>
    simp only [List.filterMap_cons, List.foldl]
    cases hf : f x with
    | none =>
      show _ = t.foldl _ (z + 0)
      rw [Rat.add_zero]; exact ih z
    | some y => simp only [List.foldl]; exact ih _

theorem foldl_zero (t : List Label) (y : Rat) : t.foldl (fun a (_ : Label) => a + (0 : Rat)) y = y := by
  induction t generalizing y with
  | nil => rfl
  | cons _ t ih =>
    show t.foldl _ (y + 0) = y
    rw [Rat.add_zero]; exact ih y

theorem sumNb_eq (q : LPoly) (l : Label) : q.sumNb l = q.vars.foldl (fun a w => a + q.g l w) 0 := by
  unfold LPoly.sumNb LPoly.nbrs
  rw [foldl_filterMap_add q.vars (fun w => (q.quad l w).map fun c => (w, c)) (fun lc => lc.2) 0]
  apply foldl_congr_mem
  intro acc w _
  unfold LPoly.g
  cases q.quad l w <;> rfl

/-- the entry the lower triangle holds for the ordered pair `(a, w)` -/
def LPoly.low (q : LPoly) (a w : Label) : Rat := if q.pos w < q.pos a then q.g a w else 0

theorem sumQuad_eq (q : LPoly) :
    q.sumQuad = q.vars.foldl (fun acc a => acc + q.vars.foldl (fun a2 w => a2 + q.low a w) 0) 0 := by
  unfold LPoly.sumQuad LPoly.lower
  rw [List.foldl_flatMap]
  apply foldl_congr_mem
  intro acc a _
  rw [List.foldl_map]
  have h1 : ∀ (l : List (Label × Rat)) (z : Rat),
      (l.filter fun lc => decide (q.pos lc.1 < q.pos a)).foldl (fun x y => x + y.2) z =
      l.foldl (fun x y => x + (if q.pos y.1 < q.pos a then y.2 else 0)) z := by
    intro l
    induction l with
    | nil => intro z; rfl
    | cons y t ih =>
      intro z
      simp only [List.filter_cons, List.foldl]
      by_cases hp : q.pos y.1 < q.pos a
      · simp only [hp, decide_true, if_true, List.foldl]; exact ih _
      · simp only [hp, decide_false, Bool.false_eq_true, if_false]; rw [Rat.add_zero]; exact ih z
  have e : ((q.nbrs a).filter fun lc => decide (q.pos lc.1 < q.pos a)).foldl (fun x y => x + (a, y.1, y.2).2.2) acc =
      (q.nbrs a).foldl (fun x y => x + (if q.pos y.1 < q.pos a then y.2 else 0)) acc := h1 _ acc
  rw [e]
  unfold LPoly.nbrs
  rw [foldl_filterMap_add q.vars (fun w => (q.quad a w).map fun c => (w, c)) (fun y => if q.pos y.1 < q.pos a then y.2 else 0) acc]
  have e2 : q.vars.foldl (fun x w => x + (((q.quad a w).map (fun c => (w, c))).map
        (fun y => if q.pos y.1 < q.pos a then y.2 else 0)).getD 0) acc =
      q.vars.foldl (fun x w => x + q.low a w) acc := by
    apply foldl_congr_mem
    intro x w _
    unfold LPoly.low LPoly.g
    cases q.quad a w with
    | none => simp
    | some c => rfl
  rw [e2]
  -- move the start value out
  have := foldl_add_shift q.vars (fun w => q.low a w) 0 acc
  rw [Rat.zero_add] at this
  rw [this, Rat.add_comm]

/-! ### additivity -/

theorem foldl_add_add {α} (l : List α) (f d : α → Rat) (z : Rat) :
    l.foldl (fun a x => a + (f x + d x)) z = l.foldl (fun a x => a + f x) z + l.foldl (fun a x => a + d x) 0 := by
  induction l generalizing z with
  | nil => simp [Rat.add_zero]
  | cons x t ih =>
    simp only [List.foldl]
    rw [ih, Rat.zero_add]
    have h2 := foldl_add_shift t d 0 (d x)
    rw [Rat.zero_add] at h2
    rw [h2]
    have h3 := foldl_add_shift t f (z + f x) (d x)
    have e : z + (f x + d x) = z + f x + d x := by grind
    rw [e, h3]
    grind

/-- a function that is `c` at `v` and `0` elsewhere sums to `c` over a duplicate-free list containing `v` -/
theorem foldl_single (l : List Label) (hn : l.Nodup) (v : Label) (c : Rat) (hv : v ∈ l) :
    l.foldl (fun a x => a + (if x = v then c else 0)) 0 = c := by
  have := foldl_add_update l hn (fun _ => 0) (fun x => if x = v then c else 0) v c (by simp [Rat.zero_add])
    (fun x hx => by simp [hx]) 0
  rw [this]
  rw [foldl_zero l 0, Rat.zero_add]; simp [hv]

theorem pos_inj {q : LPoly} (hn : q.vars.Nodup) {a b : Label} (ha : a ∈ q.vars) (hb : b ∈ q.vars) (h : q.pos a = q.pos b) : a = b := by
  unfold LPoly.pos at h
  cases hia : indexOfGo a q.vars 0 with
  | none => exact absurd ha ((indexOfGo_none a q.vars 0).mp hia)
  | some i =>
    cases hib : indexOfGo b q.vars 0 with
    | none => exact absurd hb ((indexOfGo_none b q.vars 0).mp hib)
    | some j =>
      rw [hia, hib] at h
      simp only [Option.getD_some] at h
      have h1 := (indexOfGo_some a q.vars 0 i hia).2.2
      have h2 := (indexOfGo_some b q.vars 0 j hib).2.2
      rw [h] at h1
      simp only [Nat.sub_zero] at h1 h2
      rw [h1] at h2
      exact Option.some.inj h2

/-! ### changing the bias of one pair of existing variables -/

/-- `quad u v = quad v u = x` -/
def LPoly.setPair (q : LPoly) (u v : Label) (x : Rat) : LPoly :=
  { q with quad := fun a b => if (a = u ∧ b = v) ∨ (a = v ∧ b = u) then some x else q.quad a b }

theorem g_setPair (q : LPoly) (u v : Label) (d : Rat) (hs : q.quad u v = q.quad v u) (a w : Label) :
    (q.setPair u v (q.g u v + d)).g a w = q.g a w + (if (a = u ∧ w = v) ∨ (a = v ∧ w = u) then d else 0) := by
  unfold LPoly.g LPoly.setPair
  simp only []
  by_cases hc : (a = u ∧ w = v) ∨ (a = v ∧ w = u)
  · simp only [hc, if_true, Option.getD_some]
    rcases hc with ⟨h1, h2⟩ | ⟨h1, h2⟩
    · rw [h1, h2]
    · rw [h1, h2, hs]
  · simp only [hc, if_false, Rat.add_zero]

theorem sumNb_setPair {q : LPoly} (w : LWF q) (u v : Label) (d : Rat) (hu : u ∈ q.vars) (hv : v ∈ q.vars) (hne : u ≠ v) (l : Label) :
    (q.setPair u v (q.g u v + d)).sumNb l = q.sumNb l + (if l = u ∨ l = v then d else 0) := by
  rw [sumNb_eq, sumNb_eq]
  show q.vars.foldl (fun a x => a + (q.setPair u v (q.g u v + d)).g l x) 0 = _
  have e : q.vars.foldl (fun a x => a + (q.setPair u v (q.g u v + d)).g l x) 0 =
      q.vars.foldl (fun a x => a + (q.g l x + (if (l = u ∧ x = v) ∨ (l = v ∧ x = u) then d else 0))) 0 := by
    apply foldl_congr_mem
    intro acc x _
    rw [g_setPair q u v d (w.symm u v)]
  rw [e, foldl_add_add]
  congr 1
  by_cases hlu : l = u
  · have hlv : ¬ l = v := fun e => hne (hlu.symm.trans e)
    simp only [hlu, true_and, hne, false_and, or_false, true_or, if_true]
    exact foldl_single q.vars w.nodup v d hv
  · by_cases hlv : l = v
    · have hvu : ¬ v = u := fun e => hne e.symm
      simp only [hlv, hvu, false_and, true_and, false_or, or_true, if_true]
      exact foldl_single q.vars w.nodup u d hu
    · simp only [hlu, hlv, false_and, or_self, if_false]
      exact foldl_zero _ 0

theorem pos_setPair (q : LPoly) (u v : Label) (x : Rat) (l : Label) : (q.setPair u v x).pos l = q.pos l := rfl

theorem sumQuad_setPair {q : LPoly} (w : LWF q) (u v : Label) (d : Rat) (hu : u ∈ q.vars) (hv : v ∈ q.vars) (hne : u ≠ v) :
    (q.setPair u v (q.g u v + d)).sumQuad = q.sumQuad + d := by
  rw [sumQuad_eq, sumQuad_eq]
  show q.vars.foldl (fun acc a => acc + q.vars.foldl (fun a2 x => a2 + (q.setPair u v (q.g u v + d)).low a x) 0) 0 = _
  -- the inner sums
  have inner : ∀ a, q.vars.foldl (fun a2 x => a2 + (q.setPair u v (q.g u v + d)).low a x) 0 =
      q.vars.foldl (fun a2 x => a2 + q.low a x) 0 +
        (if a = u then (if q.pos v < q.pos u then d else 0) else if a = v then (if q.pos u < q.pos v then d else 0) else 0) := by
    intro a
    have e : q.vars.foldl (fun a2 x => a2 + (q.setPair u v (q.g u v + d)).low a x) 0 =
        q.vars.foldl (fun a2 x => a2 + (q.low a x + (if (a = u ∧ x = v) ∨ (a = v ∧ x = u) then (if q.pos x < q.pos a then d else 0) else 0))) 0 := by
      apply foldl_congr_mem
      intro acc x _
      unfold LPoly.low
      rw [pos_setPair, pos_setPair, g_setPair q u v d (w.symm u v)]
      by_cases hp : q.pos x < q.pos a
      · simp only [hp, if_true]
      · simp only [hp, if_false, Rat.add_zero]
        split <;> simp [Rat.add_zero]
    rw [e, foldl_add_add]
    congr 1
    by_cases hau : a = u
    · have hav : ¬ a = v := fun e => hne (hau.symm.trans e)
      simp only [hau, true_and, hne, false_and, or_false, if_true]
      have e2 : q.vars.foldl (fun a2 x => a2 + (if x = v then (if q.pos x < q.pos u then d else 0) else 0)) 0 =
          q.vars.foldl (fun a2 x => a2 + (if x = v then (if q.pos v < q.pos u then d else 0) else 0)) 0 := by
        apply foldl_congr_mem
        intro acc x _
        by_cases hx : x = v
        · rw [hx]
        · simp [hx]
      rw [e2]
      exact foldl_single q.vars w.nodup v _ hv
    · by_cases hav : a = v
      · have hvu : ¬ v = u := fun e => hne e.symm
        simp only [hav, hvu, false_and, true_and, false_or, if_false, if_true]
        have e2 : q.vars.foldl (fun a2 x => a2 + (if x = u then (if q.pos x < q.pos v then d else 0) else 0)) 0 =
            q.vars.foldl (fun a2 x => a2 + (if x = u then (if q.pos u < q.pos v then d else 0) else 0)) 0 := by
          apply foldl_congr_mem
          intro acc x _
          by_cases hx : x = u
          · rw [hx]
          · simp [hx]
        rw [e2]
        exact foldl_single q.vars w.nodup u _ hu
      · simp only [hau, hav, false_and, or_self, if_false]
        exact foldl_zero _ 0
  have e : q.vars.foldl (fun acc a => acc + q.vars.foldl (fun a2 x => a2 + (q.setPair u v (q.g u v + d)).low a x) 0) 0 =
      q.vars.foldl (fun acc a => acc + (q.vars.foldl (fun a2 x => a2 + q.low a x) 0 +
        (if a = u then (if q.pos v < q.pos u then d else 0) else if a = v then (if q.pos u < q.pos v then d else 0) else 0))) 0 := by
    apply foldl_congr_mem
    intro acc a _
    rw [inner a]
  rw [e, foldl_add_add]
  congr 1
  -- the two corrections: exactly one of the two orders holds
  have split2 : q.vars.foldl (fun a x => a + (if x = u then (if q.pos v < q.pos u then d else 0) else if x = v then (if q.pos u < q.pos v then d else 0) else 0)) 0 =
      q.vars.foldl (fun a x => a + ((if x = u then (if q.pos v < q.pos u then d else 0) else 0) + (if x = v then (if q.pos u < q.pos v then d else 0) else 0))) 0 := by
    apply foldl_congr_mem
    intro acc x _
    by_cases hxu : x = u
    · have hxv : ¬ x = v := fun e => hne (hxu.symm.trans e)
      simp only [hxu, if_true, hne, if_false, Rat.add_zero]
    · simp only [hxu, if_false, Rat.zero_add]
  rw [split2, foldl_add_add, foldl_single q.vars w.nodup u _ hu, foldl_single q.vars w.nodup v _ hv]
  have hpos : q.pos u ≠ q.pos v := fun e => hne (pos_inj w.nodup hu hv e)
  by_cases h1 : q.pos v < q.pos u
  · have h2 : ¬ q.pos u < q.pos v := by omega
    simp only [h1, h2, if_true, if_false, Rat.add_zero]
  · have h2 : q.pos u < q.pos v := by omega
    simp only [h1, h2, if_true, if_false, Rat.zero_add]

/-! ### well-formedness is kept by the steps used -/

theorem mem_ensure (q : LPoly) (v : Label) : v ∈ (q.ensure v).vars := by
  rw [ensure_vars']; split
  · assumption
  · simp

theorem mem_ensure_of_mem (q : LPoly) (v x : Label) (h : x ∈ q.vars) : x ∈ (q.ensure v).vars := by
  rw [ensure_vars']; split
  · exact h
  · exact List.mem_append_left _ h

theorem LWF.addLinear {q : LPoly} (w : LWF q) (v : Label) (d : Rat) : LWF (q.addLinear v d) := by
  have hv : (q.addLinear v d).vars = (q.ensure v).vars := rfl
  have hq : (q.addLinear v d).quad = q.quad := by unfold LPoly.addLinear; exact ensure_quad q v
  refine ⟨?_, ?_, ?_, ?_, ?_⟩
  · rw [hv, ensure_vars']
    split
    · exact w.nodup
    · rename_i hm
      rw [List.nodup_append]
      refine ⟨w.nodup, by simp, ?_⟩
      intro a ha b hb
      simp only [List.mem_singleton] at hb
      subst hb; intro e; subst e; exact hm ha
  · intro l hl
    rw [hv] at hl
    have hlv : l ≠ v := fun e => hl (e ▸ mem_ensure q v)
    have hlq : l ∉ q.vars := fun e => hl (mem_ensure_of_mem q v l e)
    show (if l = v then q.lin l + d else q.lin l) = 0
    rw [if_neg hlv]; exact w.lin0 l hlq
  · intro a b hs
    rw [hq] at hs
    have := w.closed a b hs
    rw [hv]; exact ⟨mem_ensure_of_mem q v a this.1, mem_ensure_of_mem q v b this.2⟩
  · intro a b; rw [hq]; exact w.symm a b
  · intro a; rw [hq]; exact w.noself a

theorem addLinear_zero (q : LPoly) (v : Label) : q.addLinear v 0 = q.ensure v := by
  apply LPoly.ext' <;> try (first | rfl | (intro _ _; rfl))
  intro l
  show (if l = v then q.lin l + 0 else q.lin l) = (q.ensure v).lin l
  rw [ensure_lin]
  split
  · exact Rat.add_zero _
  · rfl

theorem LWF.ensure {q : LPoly} (w : LWF q) (v : Label) : LWF (q.ensure v) := by
  rw [← addLinear_zero]; exact w.addLinear v 0

theorem LWF.withOff {q : LPoly} (w : LWF q) (x : Rat) : LWF { q with off := x } := ⟨w.nodup, w.lin0, w.closed, w.symm, w.noself⟩

theorem LWF.setPair {q : LPoly} (w : LWF q) (u v : Label) (x : Rat) (hu : u ∈ q.vars) (hv : v ∈ q.vars) (hne : u ≠ v) :
    LWF (q.setPair u v x) := by
  refine ⟨w.nodup, w.lin0, ?_, ?_, ?_⟩
  · intro a b hs
    show a ∈ q.vars ∧ b ∈ q.vars
    have hs' : (if (a = u ∧ b = v) ∨ (a = v ∧ b = u) then some x else q.quad a b).isSome := hs
    by_cases hc : (a = u ∧ b = v) ∨ (a = v ∧ b = u)
    · rcases hc with ⟨h1, h2⟩ | ⟨h1, h2⟩
      · rw [h1, h2]; exact ⟨hu, hv⟩
      · rw [h1, h2]; exact ⟨hv, hu⟩
    · rw [if_neg hc] at hs'; exact w.closed a b hs'
  · intro a b
    show (if (a = u ∧ b = v) ∨ (a = v ∧ b = u) then some x else q.quad a b) = (if (b = u ∧ a = v) ∨ (b = v ∧ a = u) then some x else q.quad b a)
    by_cases hc : (a = u ∧ b = v) ∨ (a = v ∧ b = u)
    · have hc' : (b = u ∧ a = v) ∨ (b = v ∧ a = u) := by
        rcases hc with ⟨x1, x2⟩ | ⟨x1, x2⟩
        · exact Or.inr ⟨x2, x1⟩
        · exact Or.inl ⟨x2, x1⟩
      rw [if_pos hc, if_pos hc']
    · have hc' : ¬ ((b = u ∧ a = v) ∨ (b = v ∧ a = u)) := by
        intro h; apply hc
        rcases h with ⟨x1, x2⟩ | ⟨x1, x2⟩
        · exact Or.inr ⟨x2, x1⟩
        · exact Or.inl ⟨x2, x1⟩
      rw [if_neg hc, if_neg hc']; exact w.symm a b
  · intro a
    show (if (a = u ∧ a = v) ∨ (a = v ∧ a = u) then some x else q.quad a a) = none
    have : ¬ ((a = u ∧ a = v) ∨ (a = v ∧ a = u)) := by
      intro h; rcases h with ⟨x1, x2⟩ | ⟨x1, x2⟩
      · exact hne (x1.symm.trans x2)
      · exact hne (x2.symm.trans x1)
    rw [if_neg this]; exact w.noself a

/-! ### sums are unchanged by making sure a variable exists -/

theorem sums_ensure {q : LPoly} (w : LWF q) (v : Label) :
    (∀ l, (q.ensure v).sumNb l = q.sumNb l) ∧ (q.ensure v).sumLin = q.sumLin ∧ (q.ensure v).sumQuad = q.sumQuad ∧
    (∀ a b, (q.ensure v).g a b = q.g a b) := by
  rw [← addLinear_zero]
  refine ⟨fun l => sumNb_addLinear w v 0 l, ?_, sumQuad_addLinear w v 0, ?_⟩
  · rw [sumLin_addLinear w v 0, Rat.add_zero]
  · intro a b; unfold LPoly.g
    have : (q.addLinear v 0).quad = q.quad := by unfold LPoly.addLinear; exact ensure_quad q v
    rw [this]

/-- `add_quadratic(u, v, d)` = make sure both variables exist, then change the pair -/
theorem quadOp_eq_setPair (q : LPoly) (u v : Label) (d : Rat) :
    q.quadOp u v d false = ((q.ensure u).ensure v).setPair u v (q.g u v + d) := by
  apply LPoly.ext' <;> try (first | rfl | (intro _; rfl))
  intro x y
  show (if (x = u ∧ y = v) ∨ (x = v ∧ y = u) then some (if false = true then d else (q.quad u v).getD 0 + d) else q.quad x y) =
    if (x = u ∧ y = v) ∨ (x = v ∧ y = u) then some (q.g u v + d) else ((q.ensure u).ensure v).quad x y
  rw [ensure_quad, ensure_quad]
  simp only [Bool.false_eq_true, if_false]
  rfl

/-! ### the data edit behind a quadratic write through a view -/

/-- pair bias `+dq`, linear biases of both ends `+dl`, offset `+doff` -/
def LPoly.pairEdit (q : LPoly) (u v : Label) (dq dl doff : Rat) : LPoly :=
  let r3 := ((q.quadOp u v dq false).addLinear u dl).addLinear v dl
  { r3 with off := r3.off + doff }

theorem pairEdit_facts {q : LPoly} (w : LWF q) (u v : Label) (dq dl doff : Rat) (hne : u ≠ v) :
    (q.pairEdit u v dq dl doff).vars = ((q.ensure u).ensure v).vars ∧
    (∀ l, (q.pairEdit u v dq dl doff).lin l = q.lin l + (if l = u then dl else 0) + (if l = v then dl else 0)) ∧
    (∀ x y, (q.pairEdit u v dq dl doff).quad x y = if (x = u ∧ y = v) ∨ (x = v ∧ y = u) then some (q.g u v + dq) else q.quad x y) ∧
    (q.pairEdit u v dq dl doff).off = q.off + doff ∧ (q.pairEdit u v dq dl doff).vt = q.vt ∧
    (∀ l, (q.pairEdit u v dq dl doff).sumNb l = q.sumNb l + (if l = u ∨ l = v then dq else 0)) ∧
    (q.pairEdit u v dq dl doff).sumLin = q.sumLin + dl + dl ∧
    (q.pairEdit u v dq dl doff).sumQuad = q.sumQuad + dq := by
  -- the three stages
  have wE1 := w.ensure u
  have wE := wE1.ensure v
  have huE : u ∈ ((q.ensure u).ensure v).vars := mem_ensure_of_mem _ v u (mem_ensure q u)
  have hvE : v ∈ ((q.ensure u).ensure v).vars := mem_ensure _ v
  have s1 := sums_ensure w u
  have s2 := sums_ensure wE1 v
  have gE : ((q.ensure u).ensure v).g u v = q.g u v := by rw [s2.2.2.2, s1.2.2.2]
  have hr1 : q.quadOp u v dq false = ((q.ensure u).ensure v).setPair u v (((q.ensure u).ensure v).g u v + dq) := by
    rw [gE]; exact quadOp_eq_setPair q u v dq
  have w1 : LWF (q.quadOp u v dq false) := by rw [hr1]; exact wE.setPair u v _ huE hvE hne
  have w2 := w1.addLinear u dl
  have hu1 : u ∈ (q.quadOp u v dq false).vars := huE
  have hv1 : v ∈ (q.quadOp u v dq false).vars := hvE
  -- variables: both are present after the first stage
  have vars2 : ((q.quadOp u v dq false).addLinear u dl).vars = (q.quadOp u v dq false).vars := by
    show ((q.quadOp u v dq false).ensure u).vars = _
    rw [ensure_vars']; simp [hu1]
  have vars3 : (((q.quadOp u v dq false).addLinear u dl).addLinear v dl).vars = (q.quadOp u v dq false).vars := by
    show (((q.quadOp u v dq false).addLinear u dl).ensure v).vars = _
    rw [ensure_vars', vars2]; simp [hv1]
  have quad_al : ∀ (r : LPoly) (x : Label) (d : Rat), (r.addLinear x d).quad = r.quad := by
    intro r x d; unfold LPoly.addLinear; exact ensure_quad r x
  have off_al : ∀ (r : LPoly) (x : Label) (d : Rat), (r.addLinear x d).off = r.off := by
    intro r x d; unfold LPoly.addLinear; exact ensure_off r x
  have vt_al : ∀ (r : LPoly) (x : Label) (d : Rat), (r.addLinear x d).vt = r.vt := by
    intro r x d; unfold LPoly.addLinear; exact ensure_vt r x
  refine ⟨vars3, ?_, ?_, ?_, ?_, ?_, ?_, ?_⟩
  · intro l
    show (if l = v then (if l = u then (q.quadOp u v dq false).lin l + dl else (q.quadOp u v dq false).lin l) + dl
          else (if l = u then (q.quadOp u v dq false).lin l + dl else (q.quadOp u v dq false).lin l)) = _
    have : (q.quadOp u v dq false).lin l = q.lin l := by
      show ((q.ensure u).ensure v).lin l = q.lin l
      rw [ensure_lin, ensure_lin]
    rw [this]
    by_cases hlu : l = u
    · have hlv : ¬ l = v := fun e => hne (hlu.symm.trans e)
      simp only [hlu, hne, if_true, if_false, Rat.add_zero]
    · by_cases hlv : l = v
      · simp only [hlv, if_true]
        have : ¬ v = u := fun e => hne e.symm
        simp only [this, if_false, Rat.add_zero]
      · simp only [hlu, hlv, if_false, Rat.add_zero]
  · intro x y
    show (((q.quadOp u v dq false).addLinear u dl).addLinear v dl).quad x y = _
    rw [quad_al, quad_al]
    show (if (x = u ∧ y = v) ∨ (x = v ∧ y = u) then some (if false = true then dq else (q.quad u v).getD 0 + dq) else q.quad x y) = _
    simp only [Bool.false_eq_true, if_false]; rfl
  · show (((q.quadOp u v dq false).addLinear u dl).addLinear v dl).off + doff = _
    rw [off_al, off_al]
    show ((q.ensure u).ensure v).off + doff = _
    rw [ensure_off, ensure_off]
  · show (((q.quadOp u v dq false).addLinear u dl).addLinear v dl).vt = _
    rw [vt_al, vt_al]
    show ((q.ensure u).ensure v).vt = _
    rw [ensure_vt, ensure_vt]
  · intro l
    show (((q.quadOp u v dq false).addLinear u dl).addLinear v dl).sumNb l = _
    rw [sumNb_addLinear w2, sumNb_addLinear w1, hr1, sumNb_setPair wE u v dq huE hvE hne l, s2.1, s1.1]
  · show (((q.quadOp u v dq false).addLinear u dl).addLinear v dl).sumLin = _
    rw [sumLin_addLinear w2, sumLin_addLinear w1]
    have : (q.quadOp u v dq false).sumLin = q.sumLin := by
      rw [hr1]
      show ((q.ensure u).ensure v).sumLin = _
      rw [s2.2.1, s1.2.1]
    rw [this]
  · show (((q.quadOp u v dq false).addLinear u dl).addLinear v dl).sumQuad = _
    rw [sumQuad_addLinear w2, sumQuad_addLinear w1, hr1, sumQuad_setPair wE u v dq huE hvE hne, s2.2.2.1, s1.2.2.1]

/-! ### `add_quadratic` through a view -/

def LPoly.viewAddQuadratic (q : LPoly) (tv : VT) (u v : Label) (b : Rat) : LPoly :=
  if tv = q.vt then q.quadOp u v b false else
  match tv with
  | .binary => q.pairEdit u v (b / 4) (b / 4) (b / 4)
  | .spin => q.pairEdit u v (4 * b) (-2 * b) b

theorem vAddQuadratic_refines {m : Bqm} (i : Inv m) (tv : VT) (u v : Label) (b : Rat) (hne : u ≠ v) :
    absL (m.vAddQuadratic tv u v b) = (absL m).viewAddQuadratic tv u v b ∧ Inv (m.vAddQuadratic tv u v b) := by
  unfold Bqm.vAddQuadratic LPoly.viewAddQuadratic LPoly.pairEdit
  rw [absL_vt]
  split
  · exact ⟨quadOp_refines i.wf u v b false hne, i.quadOp u v b false⟩
  · have stage : ∀ dq dl doff : Rat,
        absL { ((m.quadOp u v dq false).1.addLinear u dl).addLinear v dl with
                off := (((m.quadOp u v dq false).1.addLinear u dl).addLinear v dl).off + doff } =
          ({ (((absL m).quadOp u v dq false).addLinear u dl).addLinear v dl with
              off := ((((absL m).quadOp u v dq false).addLinear u dl).addLinear v dl).off + doff } : LPoly) ∧
        Inv { ((m.quadOp u v dq false).1.addLinear u dl).addLinear v dl with
                off := (((m.quadOp u v dq false).1.addLinear u dl).addLinear v dl).off + doff } := by
      intro dq dl doff
      have i1 := i.quadOp u v dq false
      have i2 := i1.addLinear u dl
      have i3 := i2.addLinear v dl
      have hoff : (((m.quadOp u v dq false).1.addLinear u dl).addLinear v dl).off =
          (absL (((m.quadOp u v dq false).1.addLinear u dl).addLinear v dl)).off := rfl
      rw [absL_withOff, hoff, addLinear_refines i2.wf, addLinear_refines i1.wf, quadOp_refines i.wf u v dq false hne]
      exact ⟨rfl, i3.withOff _⟩
    cases tv with
    | binary => exact stage (b / 4) (b / 4) (b / 4)
    | spin => exact stage (4 * b) (-2 * b) b

theorem vars_ensure2 (p p' : LPoly) (h : p.vars = p'.vars) (u v : Label) :
    ((p.ensure u).ensure v).vars = ((p'.ensure u).ensure v).vars := by
  rw [ensure_vars', ensure_vars', ensure_vars', ensure_vars', h]

theorem viewQuad_getD (q : LPoly) (f : Rat) (u v : Label) : ((q.quad u v).map (f * ·)).getD 0 = f * q.g u v := by
  unfold LPoly.g
  cases q.quad u v with
  | none => simp [Rat.mul_zero]
  | some c => rfl

/-- **the view sees `add_quadratic(u, v, b)`** -/
theorem viewP_addQuadratic {q : LPoly} (w : LWF q) (tv : VT) (u v : Label) (b : Rat) (hne : u ≠ v) :
    (q.viewAddQuadratic tv u v b).viewP tv = (q.viewP tv).quadOp u v b false := by
  unfold LPoly.viewAddQuadratic
  by_cases h : tv = q.vt
  · rw [if_pos h, h]
    have e : (q.quadOp u v b false).vt = q.vt := by
      show ((q.ensure u).ensure v).vt = q.vt
      rw [ensure_vt, ensure_vt]
    have e1 : (q.quadOp u v b false).viewP q.vt = q.quadOp u v b false := by
      have := viewP_self (q.quadOp u v b false); rw [e] at this; exact this
    rw [e1, viewP_self]
  · rw [if_neg h]
    cases tv with
    | binary =>
      have hvt : q.vt = .spin := by cases hq : q.vt with | spin => rfl | binary => rw [hq] at h; exact absurd rfl h
      simp only []
      have f := pairEdit_facts w u v (b / 4) (b / 4) (b / 4) hne
      generalize q.pairEdit u v (b / 4) (b / 4) (b / 4) = pe at f
      apply LPoly.ext'
      · show pe.vars = (((q.viewP .binary).ensure u).ensure v).vars
        rw [f.1]; exact vars_ensure2 q (q.viewP .binary) rfl u v
      · intro l
        show pe.viewLin .binary l = (((q.viewP .binary).ensure u).ensure v).lin l
        rw [ensure_lin, ensure_lin]
        show _ = q.viewLin .binary l
        unfold LPoly.viewLin
        rw [f.2.2.2.2.1, hvt, f.2.1 l, f.2.2.2.2.2.1 l]
        simp only [ne_bs, if_false]
        by_cases hlu : l = u
        · have hlv : ¬ l = v := fun e => hne (hlu.symm.trans e)
          simp only [hlu, hne, if_true, if_false, true_or]; grind
        · by_cases hlv : l = v
          · have hvu : ¬ v = u := fun e => hne e.symm
            simp only [hlv, hvu, if_true, if_false, or_true]; grind
          · simp only [hlu, hlv, if_false, or_self]; grind
      · intro x y
        show (pe.quad x y).map (pe.viewFactor .binary * ·) =
          if (x = u ∧ y = v) ∨ (x = v ∧ y = u) then some (if false = true then b else ((q.viewP .binary).quad u v).getD 0 + b)
          else (q.viewP .binary).quad x y
        have hf : pe.viewFactor .binary = 4 := by unfold LPoly.viewFactor; rw [f.2.2.2.2.1, hvt]; simp [ne_bs]
        have hfq : q.viewFactor .binary = 4 := by unfold LPoly.viewFactor; rw [hvt]; simp [ne_bs]
        rw [f.2.2.1 x y, hf]
        show _ = if (x = u ∧ y = v) ∨ (x = v ∧ y = u) then some (if false = true then b else ((q.quad u v).map (q.viewFactor .binary * ·)).getD 0 + b)
          else (q.quad x y).map (q.viewFactor .binary * ·)
        rw [hfq, viewQuad_getD]
        by_cases hc : (x = u ∧ y = v) ∨ (x = v ∧ y = u)
        · simp only [hc, if_true, Option.map_some, Bool.false_eq_true, if_false]
          congr 1; grind
        · simp only [hc, if_false]
      · show pe.viewOff .binary = (((q.viewP .binary).ensure u).ensure v).off
        rw [ensure_off, ensure_off]
        show _ = q.viewOff .binary
        unfold LPoly.viewOff
        rw [f.2.2.2.2.1, hvt, f.2.2.2.1, f.2.2.2.2.2.2.1, f.2.2.2.2.2.2.2]
        simp only [ne_bs, if_false]
        grind
      · show VT.binary = (((q.viewP .binary).ensure u).ensure v).vt
        rw [ensure_vt, ensure_vt]; rfl
    | spin =>
      have hvt : q.vt = .binary := by cases hq : q.vt with | binary => rfl | spin => rw [hq] at h; exact absurd rfl h
      simp only []
      have f := pairEdit_facts w u v (4 * b) (-2 * b) b hne
      generalize q.pairEdit u v (4 * b) (-2 * b) b = pe at f
      apply LPoly.ext'
      · show pe.vars = (((q.viewP .spin).ensure u).ensure v).vars
        rw [f.1]; exact vars_ensure2 q (q.viewP .spin) rfl u v
      · intro l
        show pe.viewLin .spin l = (((q.viewP .spin).ensure u).ensure v).lin l
        rw [ensure_lin, ensure_lin]
        show _ = q.viewLin .spin l
        unfold LPoly.viewLin
        rw [f.2.2.2.2.1, hvt, f.2.1 l, f.2.2.2.2.2.1 l]
        simp only [ne_sb, if_false]
        by_cases hlu : l = u
        · have hlv : ¬ l = v := fun e => hne (hlu.symm.trans e)
          simp only [hlu, hne, if_true, if_false, true_or]; grind
        · by_cases hlv : l = v
          · have hvu : ¬ v = u := fun e => hne e.symm
            simp only [hlv, hvu, if_true, if_false, or_true]; grind
          · simp only [hlu, hlv, if_false, or_self]; grind
      · intro x y
        show (pe.quad x y).map (pe.viewFactor .spin * ·) =
          if (x = u ∧ y = v) ∨ (x = v ∧ y = u) then some (if false = true then b else ((q.viewP .spin).quad u v).getD 0 + b)
          else (q.viewP .spin).quad x y
        have hf : pe.viewFactor .spin = 1 / 4 := by unfold LPoly.viewFactor; rw [f.2.2.2.2.1, hvt]; simp [ne_sb]
        have hfq : q.viewFactor .spin = 1 / 4 := by unfold LPoly.viewFactor; rw [hvt]; simp [ne_sb]
        rw [f.2.2.1 x y, hf]
        show _ = if (x = u ∧ y = v) ∨ (x = v ∧ y = u) then some (if false = true then b else ((q.quad u v).map (q.viewFactor .spin * ·)).getD 0 + b)
          else (q.quad x y).map (q.viewFactor .spin * ·)
        rw [hfq, viewQuad_getD]
        by_cases hc : (x = u ∧ y = v) ∨ (x = v ∧ y = u)
        · simp only [hc, if_true, Option.map_some, Bool.false_eq_true, if_false]
          congr 1; grind
        · simp only [hc, if_false]
      · show pe.viewOff .spin = (((q.viewP .spin).ensure u).ensure v).off
        rw [ensure_off, ensure_off]
        show _ = q.viewOff .spin
        unfold LPoly.viewOff
        rw [f.2.2.2.2.1, hvt, f.2.2.2.1, f.2.2.2.2.2.2.1, f.2.2.2.2.2.2.2]
        simp only [ne_sb, if_false]
        grind
      · show VT.spin = (((q.viewP .spin).ensure u).ensure v).vt
        rw [ensure_vt, ensure_vt]; rfl

theorem view_addQuadratic {m : Bqm} (i : Inv m) (tv : VT) (u v : Label) (b : Rat) (hne : u ≠ v) :
    (absL (m.vAddQuadratic tv u v b)).viewP tv = ((absL m).viewP tv).quadOp u v b false ∧ Inv (m.vAddQuadratic tv u v b) := by
  have r := vAddQuadratic_refines i tv u v b hne
  rw [r.1, viewP_addQuadratic (LWF.absL i) tv u v b hne]
  exact ⟨rfl, r.2⟩

/-! ### `add_variable` and `set_quadratic` through a view -/

theorem viewP_ensure {q : LPoly} (w : LWF q) (tv : VT) (v : Label) : (q.ensure v).viewP tv = (q.viewP tv).ensure v := by
  have s := sums_ensure w v
  apply LPoly.ext'
  · show (q.ensure v).vars = ((q.viewP tv).ensure v).vars
    rw [ensure_vars', ensure_vars']; rfl
  · intro l
    show (q.ensure v).viewLin tv l = ((q.viewP tv).ensure v).lin l
    rw [ensure_lin]
    show _ = q.viewLin tv l
    unfold LPoly.viewLin
    rw [ensure_vt, ensure_lin, s.1 l]
  · intro a b
    show ((q.ensure v).quad a b).map ((q.ensure v).viewFactor tv * ·) = ((q.viewP tv).ensure v).quad a b
    rw [ensure_quad, ensure_quad]
    show _ = (q.quad a b).map (q.viewFactor tv * ·)
    unfold LPoly.viewFactor
    rw [ensure_vt]
  · show (q.ensure v).viewOff tv = ((q.viewP tv).ensure v).off
    rw [ensure_off]
    show _ = q.viewOff tv
    unfold LPoly.viewOff
    rw [ensure_vt, ensure_off, s.2.1, s.2.2.1]
  · show tv = ((q.viewP tv).ensure v).vt
    rw [ensure_vt]; rfl

theorem ensure_addLinear (p : LPoly) (l : Label) (b : Rat) : (p.ensure l).addLinear l b = p.addLinear l b := by
  apply LPoly.ext'
  · show ((p.ensure l).ensure l).vars = (p.ensure l).vars
    rw [ensure_vars' (p.ensure l)]; simp [mem_ensure p l]
  · intro x
    show (if x = l then (p.ensure l).lin x + b else (p.ensure l).lin x) = if x = l then p.lin x + b else p.lin x
    rw [ensure_lin]
  · intro a c
    show ((p.ensure l).ensure l).quad a c = (p.ensure l).quad a c
    rw [ensure_quad]
  · show ((p.ensure l).ensure l).off = (p.ensure l).off
    rw [ensure_off]
  · show ((p.ensure l).ensure l).vt = (p.ensure l).vt
    rw [ensure_vt]

/-- `add_variable(v, b)` through a view (`lbl` = the given or the generated label) -/
theorem view_addVariable {m : Bqm} (i : Inv m) (tv : VT) (v : Option Label) (b : Rat) :
    (absL (m.vAddVariable tv v b)).viewP tv =
      ((absL m).viewP tv).addLinear (match v with | some l => l | none => m.autoLabel) b ∧ Inv (m.vAddVariable tv v b) := by
  have key : ∀ lbl : Label, (absL ((m.addLinear lbl 0).vAddLinear tv lbl b)).viewP tv = ((absL m).viewP tv).addLinear lbl b ∧
      Inv ((m.addLinear lbl 0).vAddLinear tv lbl b) := by
    intro lbl
    have i1 := i.addLinear lbl 0
    have r := view_addLinear i1 tv lbl b
    refine ⟨?_, r.2⟩
    rw [r.1, addLinear_refines i.wf, addLinear_zero, viewP_ensure (LWF.absL i), ensure_addLinear]
  unfold Bqm.vAddVariable
  cases v with
  | some l => exact key l
  | none => exact key m.autoLabel

theorem vars_quadOp (r : LPoly) (u v : Label) (x : Rat) (s : Bool) : (r.quadOp u v x s).vars = ((r.ensure u).ensure v).vars := rfl
theorem lin_quadOp (r : LPoly) (u v : Label) (x : Rat) (s : Bool) : (r.quadOp u v x s).lin = r.lin := by
  show ((r.ensure u).ensure v).lin = r.lin; rw [ensure_lin, ensure_lin]
theorem off_quadOp (r : LPoly) (u v : Label) (x : Rat) (s : Bool) : (r.quadOp u v x s).off = r.off := by
  show ((r.ensure u).ensure v).off = r.off; rw [ensure_off, ensure_off]
theorem vt_quadOp' (r : LPoly) (u v : Label) (x : Rat) (s : Bool) : (r.quadOp u v x s).vt = r.vt := by
  show ((r.ensure u).ensure v).vt = r.vt; rw [ensure_vt, ensure_vt]
theorem quad_quadOp (r : LPoly) (u v : Label) (d : Rat) (s : Bool) (x y : Label) :
    (r.quadOp u v d s).quad x y = if (x = u ∧ y = v) ∨ (x = v ∧ y = u) then some (if s then d else (r.quad u v).getD 0 + d) else r.quad x y := rfl

theorem ensure2_idem (r : LPoly) (u v : Label) (h1 : u ∈ r.vars) (h2 : v ∈ r.vars) : ((r.ensure u).ensure v).vars = r.vars := by
  rw [ensure_vars', ensure_vars']; simp [h1, h2]

theorem quadOp_set_by_delta (p : LPoly) (u v : Label) (b : Rat) :
    ((((p.ensure u).ensure v).quadOp u v 0 false).quadOp u v
      (b - ((((p.ensure u).ensure v).quadOp u v 0 false).quad u v).getD 0) false) = p.quadOp u v b true := by
  have hpair : (u = u ∧ v = v) ∨ (u = v ∧ v = u) := Or.inl ⟨rfl, rfl⟩
  generalize hE : (p.ensure u).ensure v = E
  have hEq : E.quad = p.quad := by rw [← hE, ensure_quad, ensure_quad]
  have hu : u ∈ E.vars := by rw [← hE]; exact mem_ensure_of_mem _ v u (mem_ensure p u)
  have hv : v ∈ E.vars := by rw [← hE]; exact mem_ensure _ v
  generalize hQ : E.quadOp u v 0 false = Q1
  have hQq : ∀ x y, Q1.quad x y = if (x = u ∧ y = v) ∨ (x = v ∧ y = u) then some ((p.quad u v).getD 0 + 0) else p.quad x y := by
    intro x y; rw [← hQ, quad_quadOp, hEq]; simp
  have hQv : Q1.vars = E.vars := by rw [← hQ, vars_quadOp, ensure2_idem E u v hu hv]
  apply LPoly.ext'
  · rw [vars_quadOp, ensure2_idem Q1 u v (by rw [hQv]; exact hu) (by rw [hQv]; exact hv), hQv, vars_quadOp, hE]
  · intro l
    rw [lin_quadOp, ← hQ, lin_quadOp, lin_quadOp, ← hE, ensure_lin, ensure_lin]
  · intro x y
    rw [quad_quadOp, quad_quadOp, hQq u v, if_pos hpair, hQq x y]
    by_cases hc : (x = u ∧ y = v) ∨ (x = v ∧ y = u)
    · simp only [hc, if_true, Bool.false_eq_true, if_false, Option.getD_some]
      congr 1; grind
    · simp only [hc, if_false]
  · rw [off_quadOp, ← hQ, off_quadOp, off_quadOp, ← hE, ensure_off, ensure_off]
  · rw [vt_quadOp', ← hQ, vt_quadOp', vt_quadOp', ← hE, ensure_vt, ensure_vt]

/-- **`set_quadratic(u, v, b)` through a view** (the delta code of `VartypeView.set_quadratic`; also what a stale view runs) -/
theorem view_setQuadratic {m : Bqm} (i : Inv m) (tv : VT) (u v : Label) (b : Rat) (hne : u ≠ v) :
    (absL (m.vSetQuadratic tv u v b).1).viewP tv = ((absL m).viewP tv).quadOp u v b true ∧
    (m.vSetQuadratic tv u v b).2 = none ∧ Inv (m.vSetQuadratic tv u v b).1 := by
  unfold Bqm.vSetQuadratic
  simp only [hne, if_false]
  have r1 := view_addVariable i tv (some u) 0
  have r2 := view_addVariable r1.2 tv (some v) 0
  have r3 := view_addQuadratic r2.2 tv u v 0 hne
  simp only [] at r1 r2
  generalize hm3 : ((m.vAddVariable tv (some u) 0).vAddVariable tv (some v) 0).vAddQuadratic tv u v 0 = m3 at r3
  -- what the view shows before the final call
  have e3 : (absL m3).viewP tv = ((((absL m).viewP tv).ensure u).ensure v).quadOp u v 0 false := by
    rw [r3.1, r2.1, r1.1, addLinear_zero, addLinear_zero]
  -- both labels are variables of `m3`
  have hmem : u ∈ (absL m3).vars ∧ v ∈ (absL m3).vars := by
    have hv : ((absL m3).viewP tv).vars = (absL m3).vars := rfl
    rw [← hv, e3]
    show u ∈ ((((((absL m).viewP tv).ensure u).ensure v).ensure u).ensure v).vars ∧ v ∈ _
    exact ⟨mem_ensure_of_mem _ v u (mem_ensure _ u), mem_ensure _ v⟩
  obtain ⟨ui, hui⟩ := (mem_labels_iff m3 u).mp hmem.1
  obtain ⟨vi, hvi⟩ := (mem_labels_iff m3 v).mp hmem.2
  simp only [hui, hvi]
  have r4 := view_addQuadratic r3.2 tv u v (b - ((m3.vGetQuadratic tv ui vi).getD 0)) hne
  refine ⟨?_, trivial, r4.2⟩
  rw [r4.1, e3]
  have hread : (m3.vGetQuadratic tv ui vi).getD 0 =
      ((((((absL m).viewP tv).ensure u).ensure v).quadOp u v 0 false).quad u v).getD 0 := by
    rw [← e3]
    show ((m3.quadAt ui vi).map (m3.vQuadFactor tv * ·)).getD 0 = (((absL m3).quad u v).map ((absL m3).viewFactor tv * ·)).getD 0
    rw [quad_absL hui hvi]; rfl
  rw [hread]
  exact quadOp_set_by_delta _ u v b

end Bqm
