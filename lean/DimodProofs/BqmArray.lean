import DimodProofs.BqmMore

/-! The array adders of the array back-end (`add_linear_from_array`, `add_quadratic_from_dense`) refine loops of
    single-term steps with integer labels, after the resize the code does when the labels are `0 … n-1`.
    Core Lean only. -/

namespace Bqm

def ints (n : Nat) : List Label := (List.range n).map fun (i : Nat) => Label.int (i : Int)

theorem ints_succ (n : Nat) : ints (n + 1) = ints n ++ [Label.int (n : Int)] := by
  unfold ints; rw [List.range_succ, List.map_append]; rfl

theorem ints_get {n j : Nat} (hj : j < n) : (ints n)[j]? = some (Label.int (j : Int)) := by
  unfold ints; simp [hj]

theorem not_mem_ints (n : Nat) : Label.int (n : Int) ∉ ints n := by
  unfold ints
  intro h
  obtain ⟨j, hj, he⟩ := List.mem_map.mp h
  have := List.mem_range.mp hj
  injection he with he; omega

theorem isRange_iff (m : Bqm) : m.isRange = true ↔ m.labels = ints m.labels.length := by
  unfold Bqm.isRange ints; exact beq_iff_eq

def LPoly.isRange (p : LPoly) : Bool := p.vars == ints p.vars.length

theorem isRange_absL (m : Bqm) : (absL m).isRange = m.isRange := rfl

theorem autoLabel_range {m : Bqm} (hr : m.labels = ints m.labels.length) : m.autoLabel = Label.int (m.labels.length : Int) := by
  unfold Bqm.autoLabel
  have : Label.int (m.labels.length : Int) ∉ m.labels := by rw [hr]; simp only [ints, List.length_map, List.length_range]; exact not_mem_ints _
  simp only [this, if_false]

theorem growTo_range (k fuel : Nat) (m : Bqm) (hl : m.labels.length = m.n) (hr : m.labels = ints m.n) (hk : m.n ≤ k) :
    (Bqm.growTo k fuel m).labels = ints (Bqm.growTo k fuel m).n ∧ (Bqm.growTo k fuel m).n ≤ k := by
  induction fuel generalizing m with
  | zero => exact ⟨hr, hk⟩
  | succ f ih =>
    simp only [Bqm.growTo]
    split
    · rename_i hlt
      have ha : m.autoLabel = Label.int (m.n : Int) := by rw [← hl]; exact autoLabel_range (by rw [hl]; exact hr)
      apply ih
      · show (m.labels ++ [m.autoLabel]).length = (m.lin ++ [0]).length
        simp only [List.length_append, List.length_cons, List.length_nil]; rw [hl]; rfl
      · show m.labels ++ [m.autoLabel] = ints (m.lin ++ [0]).length
        rw [ha, hr]
        have : (m.lin ++ [0]).length = m.n + 1 := by simp [Bqm.n]
        rw [this, ints_succ]
      · rw [n_pushVar]; omega
    · exact ⟨hr, hk⟩

theorem shrinkTo_id (k fuel : Nat) (m : Bqm) (h : m.n ≤ k) : Bqm.shrinkTo k fuel m = m := by
  cases fuel with
  | zero => rfl
  | succ f => simp only [Bqm.shrinkTo]; rw [if_neg (by omega)]

/-- `resize(k)`, `k > n`, of a model with labels `0 … n-1`: labels `0 … k-1` -/
theorem resize_range {m : Bqm} (h : WF m) (hr : m.labels = ints m.labels.length) (k : Nat) (hk : m.n ≤ k) :
    (m.resize k).1.labels = ints (m.resize k).1.labels.length ∧ k ≤ (m.resize k).1.labels.length := by
  have hge := n_resize_ge m k
  have hwf := h.resize (k : Int)
  unfold Bqm.resize at hge hwf ⊢
  have hneg : ¬ ((k : Int) < 0) := by omega
  simp only [hneg, if_false, Int.toNat_natCast] at hge hwf ⊢
  have g := growTo_range k k m h.labels_len (by have := h.labels_len; unfold Bqm.n; rw [← this]; exact hr) hk
  rw [shrinkTo_id _ _ _ g.2] at hge hwf ⊢
  rw [hwf.labels_len]
  exact ⟨g.1, hge⟩

theorem indexOf?_int {m : Bqm} (hn : m.labels.Nodup) (hr : m.labels = ints m.labels.length) {j : Nat} (hj : j < m.labels.length) :
    m.indexOf? (Label.int (j : Int)) = some j := by
  apply indexOf?_of_get hn
  rw [hr]; exact ints_get (by simpa [ints] using hj)

theorem addLinear_at {m : Bqm} {l : Label} {j : Nat} (h : m.indexOf? l = some j) (x : Rat) :
    m.addLinear l x = { m with lin := modifyAt m.lin j (· + x) } := by
  unfold Bqm.addLinear Bqm.indexP; rw [h]

theorem quadOp_at {m : Bqm} {a b : Label} {u v : Nat} (ha : m.indexOf? a = some u) (hb : m.indexOf? b = some v) (hne : a ≠ b)
    (x : Rat) : (m.quadOp a b x false).1 = m.addQ u v x := by
  unfold Bqm.quadOp Bqm.indexP Bqm.addQ
  simp only [hne, if_false]
  rw [ha]; simp only []; rw [hb]

theorem linFold_eq (xs : List Rat) (js : List Nat) : ∀ (m : Bqm), m.labels.Nodup → m.labels = ints m.labels.length →
    (∀ j ∈ js, j < m.labels.length) →
    js.foldl (fun acc (i : Nat) => acc.addLinear (.int (i : Int)) (xs.getD i 0)) m =
      { m with lin := js.foldl (fun l i => modifyAt l i (· + xs.getD i 0)) m.lin } := by
  induction js with
  | nil => intro m _ _ _; rfl
  | cons j t ih =>
    intro m hn hr hj
    simp only [List.foldl]
    rw [addLinear_at (indexOf?_int hn hr (hj j (by simp)))]
    exact ih _ hn hr (fun x hx => hj x (List.mem_cons_of_mem _ hx))

/-- `add_linear_from_array(xs)` on the polynomial: when the labels are `0 … n-1` and the array is longer, `resize`
    first; then `add_linear(i, xs[i])` for every position -/
def LPoly.addLinearFromArray (p : LPoly) (xs : List Rat) : LPoly :=
  let q := if p.isRange ∧ xs.length > p.vars.length then p.resize xs.length else p
  (List.range xs.length).foldl (fun acc (i : Nat) => acc.addLinear (.int (i : Int)) (xs.getD i 0)) q

theorem intFold_refines (xs : List Rat) (js : List Nat) {m : Bqm} (i : Inv m) :
    absL (js.foldl (fun acc (j : Nat) => acc.addLinear (.int (j : Int)) (xs.getD j 0)) m) =
      js.foldl (fun acc (j : Nat) => acc.addLinear (.int (j : Int)) (xs.getD j 0)) (absL m) ∧
    Inv (js.foldl (fun acc (j : Nat) => acc.addLinear (.int (j : Int)) (xs.getD j 0)) m) := by
  have f := fold_refines js (fun acc (j : Nat) => acc.addLinear (.int (j : Int)) (xs.getD j 0))
    (fun acc (j : Nat) => acc.addLinear (.int (j : Int)) (xs.getD j 0)) (fun _ => True) (fun _ => True) (fun _ _ => trivial)
    (by intro acc ia _ j _; exact ⟨addLinear_refines ia.wf _ _, ia.addLinear _ _, trivial⟩) m i trivial
  exact ⟨f.1, f.2.1⟩

theorem addLinearFromArray_refines {m : Bqm} (i : Inv m) (xs : List Rat) :
    absL (m.addLinearFromArray xs) = (absL m).addLinearFromArray xs ∧ Inv (m.addLinearFromArray xs) := by
  have hlen : (absL m).vars.length = m.n := i.wf.labels_len
  unfold Bqm.addLinearFromArray LPoly.addLinearFromArray
  rw [isRange_absL, hlen]
  cases hr : m.isRange with
  | false =>
    simp only [Bool.false_eq_true, false_and, if_false]
    exact intFold_refines xs _ i
  | true =>
    have hr' := (isRange_iff m).mp hr
    simp only [true_and, if_true]
    by_cases hgt : xs.length > m.n
    · simp only [hgt, if_true]
      have rz := resize_refines i xs.length
      have rr := resize_range i.wf hr' xs.length (by omega)
      have e := linFold_eq xs (List.range xs.length) (m.resize xs.length).1 rz.2.2.nodup rr.1
        (fun j hj => by have := List.mem_range.mp hj; omega)
      rw [← e, ← rz.1]
      exact intFold_refines xs _ rz.2.2
    · simp only [hgt, if_false]
      have e := linFold_eq xs (List.range xs.length) m i.nodup hr'
        (fun j hj => by have := List.mem_range.mp hj; have hn : m.n = m.lin.length := rfl; rw [i.wf.labels_len]; omega)
      rw [← e]
      exact intFold_refines xs _ i

/-! ### dense -/

def densePairs (k : Nat) : List (Nat × Nat) :=
  (List.range k).flatMap fun u => ((List.range k).filter (u < ·)).map fun v => (u, v)

/-- `add_quadratic_from_dense(d)` (`d` a `k × k` array, row-major) on the polynomial -/
def LPoly.addQuadraticFromDense (p : LPoly) (k : Nat) (dense : List Rat) : LPoly × Bool :=
  if (List.range k).any (fun u => dense.getD (u * (k + 1)) 0 ≠ 0) then (p, false) else
  if !p.isRange then (p, false) else
  let q := if k > p.vars.length then p.resize k else p
  ((densePairs k).foldl (fun acc pr =>
    let c := dense.getD (pr.1 * k + pr.2) 0 + dense.getD (pr.2 * k + pr.1) 0
    if c ≠ 0 then acc.quadOp (.int (pr.1 : Int)) (.int (pr.2 : Int)) c false else acc) q, true)

theorem labels_addQ (m : Bqm) (u v : Nat) (b : Rat) : (m.addQ u v b).labels = m.labels := rfl

def denseStepM (k : Nat) (dense : List Rat) (acc : Bqm) (p : Nat × Nat) : Bqm :=
  let q := dense.getD (p.1 * k + p.2) 0 + dense.getD (p.2 * k + p.1) 0
  if q ≠ 0 then acc.addQ p.1 p.2 q else acc

def denseStepS (k : Nat) (dense : List Rat) (acc : LPoly) (pr : Nat × Nat) : LPoly :=
  let c := dense.getD (pr.1 * k + pr.2) 0 + dense.getD (pr.2 * k + pr.1) 0
  if c ≠ 0 then acc.quadOp (.int (pr.1 : Int)) (.int (pr.2 : Int)) c false else acc

theorem denseFold_refines (k : Nat) (dense : List Rat) (ps : List (Nat × Nat)) :
    ∀ (m : Bqm), Inv m → m.labels = ints m.labels.length → (∀ p ∈ ps, p.1 < p.2 ∧ p.2 < m.labels.length) →
    absL (ps.foldl (denseStepM k dense) m) = ps.foldl (denseStepS k dense) (absL m) ∧
    Inv (ps.foldl (denseStepM k dense) m) := by
  induction ps with
  | nil => intro m i _ _; exact ⟨rfl, i⟩
  | cons p t ih =>
    intro m i hr hp
    have hp0 := hp p (by simp)
    simp only [List.foldl]
    by_cases hc : dense.getD (p.1 * k + p.2) 0 + dense.getD (p.2 * k + p.1) 0 ≠ 0
    · have hu := indexOf?_int i.nodup hr (show p.1 < m.labels.length by omega)
      have hv := indexOf?_int i.nodup hr hp0.2
      have hne : Label.int (p.1 : Int) ≠ Label.int (p.2 : Int) := by
        intro e; injection e with e; omega
      have eM : denseStepM k dense m p = (m.quadOp (Label.int (p.1 : Int)) (Label.int (p.2 : Int))
          (dense.getD (p.1 * k + p.2) 0 + dense.getD (p.2 * k + p.1) 0) false).1 := by
        rw [quadOp_at hu hv hne]
        show (if _ ≠ 0 then _ else _) = _
        rw [if_pos hc]
      have eS : denseStepS k dense (absL m) p = (absL m).quadOp (Label.int (p.1 : Int)) (Label.int (p.2 : Int))
          (dense.getD (p.1 * k + p.2) 0 + dense.getD (p.2 * k + p.1) 0) false := by
        show (if _ ≠ 0 then _ else _) = _
        rw [if_pos hc]
      rw [eM, eS, ← quadOp_refines i.wf _ _ _ _ hne]
      have hlab : (m.quadOp (Label.int (p.1 : Int)) (Label.int (p.2 : Int))
          (dense.getD (p.1 * k + p.2) 0 + dense.getD (p.2 * k + p.1) 0) false).1.labels = m.labels := by
        rw [quadOp_at hu hv hne]; rfl
      apply ih _ (i.quadOp _ _ _ _)
      · rw [hlab]; exact hr
      · rw [hlab]; exact fun q hq => hp q (List.mem_cons_of_mem _ hq)
    · have eM : denseStepM k dense m p = m := by
        show (if _ ≠ 0 then _ else _) = _
        rw [if_neg hc]
      have eS : denseStepS k dense (absL m) p = absL m := by
        show (if _ ≠ 0 then _ else _) = _
        rw [if_neg hc]
      rw [eM, eS]
      exact ih m i hr (fun q hq => hp q (List.mem_cons_of_mem _ hq))

theorem densePairs_bound (k : Nat) : ∀ p ∈ densePairs k, p.1 < p.2 ∧ p.2 < k := by
  intro p hp
  unfold densePairs at hp
  obtain ⟨u, _, hu⟩ := List.mem_flatMap.mp hp
  obtain ⟨v, hv, hpv⟩ := List.mem_map.mp hu
  have h1 := List.mem_filter.mp hv
  have h2 := List.mem_range.mp h1.1
  have h3 : u < v := by simpa using h1.2
  rw [← hpv]; exact ⟨h3, h2⟩

theorem addQuadraticFromDense_refines {m : Bqm} (i : Inv m) (k : Nat) (dense : List Rat) :
    absL (m.addQuadraticFromDense k dense).1 = ((absL m).addQuadraticFromDense k dense).1 ∧
    ((m.addQuadraticFromDense k dense).2 = none ↔ ((absL m).addQuadraticFromDense k dense).2 = true) ∧
    Inv (m.addQuadraticFromDense k dense).1 := by
  have hlen : (absL m).vars.length = m.n := i.wf.labels_len
  unfold Bqm.addQuadraticFromDense LPoly.addQuadraticFromDense
  rw [isRange_absL, hlen]
  by_cases hd : (List.range k).any (fun u => dense.getD (u * (k + 1)) 0 ≠ 0) = true
  · simp only [hd, if_true]; exact ⟨trivial, by simp, i⟩
  · simp only [hd, if_false]
    cases hr : m.isRange with
    | false => refine ⟨?_, ?_, ?_⟩ <;> simp [i]
    | true =>
      have hr' := (isRange_iff m).mp hr
      simp only [Bool.not_true, Bool.false_eq_true, if_false]
      show absL ((densePairs k).foldl (denseStepM k dense) _) = (densePairs k).foldl (denseStepS k dense) _ ∧ _ ∧
        Inv ((densePairs k).foldl (denseStepM k dense) _)
      by_cases hgt : k > m.n
      · simp only [hgt, if_true]
        have rz := resize_refines i k
        have rr := resize_range i.wf hr' k (by omega)
        have f := denseFold_refines k dense (densePairs k) (m.resize k).1 rz.2.2 rr.1
          (fun p hp => by have := densePairs_bound k p hp; omega)
        rw [rz.1] at f
        exact ⟨f.1, by simp, f.2⟩
      · simp only [hgt, if_false]
        have f := denseFold_refines k dense (densePairs k) m i hr'
          (fun p hp => by have := densePairs_bound k p hp; have hn : m.n = m.lin.length := rfl; rw [i.wf.labels_len]; omega)
        exact ⟨f.1, by simp, f.2⟩

/-! ### every operation issued on the model itself -/

/-- the only side condition: the argument of `update` is a well-formed model -/
def Direct : Op → Prop
  | .update o => Inv o
  | _ => True

def LPoly.stepD (p : LPoly) (op : Op) : LPoly × Bool :=
  match op with
  | .addLinearFromArray xs => (p.addLinearFromArray xs, true)
  | .addQuadraticFromDense k d => p.addQuadraticFromDense k d
  | op => p.stepG op

def LPoly.runD (p : LPoly) : List Op → LPoly
  | [] => p
  | op :: t => LPoly.runD (p.stepD op).1 t

theorem step_refinesD {m : Bqm} (i : Inv m) {op : Op} (he : Direct op) :
    absL (m.step .direct op).1 = ((absL m).stepD op).1 ∧
    ((m.step .direct op).2 = none ↔ ((absL m).stepD op).2 = true) ∧
    Inv (m.step .direct op).1 := by
  by_cases ha : ∃ xs, op = .addLinearFromArray xs
  · obtain ⟨xs, rfl⟩ := ha
    have r := addLinearFromArray_refines i xs
    exact ⟨r.1, by simp [Bqm.step, Bqm.lift, LPoly.stepD], r.2⟩
  · by_cases hd : ∃ k d, op = .addQuadraticFromDense k d
    · obtain ⟨k, d, rfl⟩ := hd
      exact addQuadraticFromDense_refines i k d
    · have hg : EditG op := by
        cases op <;> first | trivial | exact he | exact absurd ⟨_, rfl⟩ ha | exact absurd ⟨_, _, rfl⟩ hd
      have e : (absL m).stepD op = (absL m).stepG op := by
        cases op <;> first | rfl | exact absurd ⟨_, rfl⟩ ha | exact absurd ⟨_, _, rfl⟩ hd
      rw [e]; exact step_refinesG i hg

theorem history_refinesD {m : Bqm} (i : Inv m) (ops : List Op) (he : ∀ op ∈ ops, Direct op) :
    absL (m.run (ops.map fun op => (Via.direct, op))) = (absL m).runD ops ∧
    Inv (m.run (ops.map fun op => (Via.direct, op))) := by
  induction ops generalizing m with
  | nil => exact ⟨rfl, i⟩
  | cons op t ih =>
    have s := step_refinesD i (he op (by simp))
    simp only [List.map_cons, Bqm.run, LPoly.runD]
    rw [← s.1]
    exact ih s.2.2 (fun o ho => he o (List.mem_cons_of_mem _ ho))

end Bqm
