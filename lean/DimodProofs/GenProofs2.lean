import DimodProofs.GenProofs
import DimodModel.Generators2

/-! # Generators, part 2: quadratic knapsacks, kMC-SAT clause energies, magic square (core Lean only) -/

namespace Gen
open Pen

/-! ## index pairs -/

theorem upperPairs_mem (n : Nat) (p : Nat × Nat) : p ∈ upperPairs n ↔ (p.1 < p.2 ∧ p.2 < n) := by
  unfold upperPairs
  simp only [List.mem_flatMap, List.mem_range, List.mem_map, List.mem_filter, decide_eq_true_eq]
  constructor
  · rintro ⟨i, _, j, ⟨hj, hij⟩, rfl⟩; exact ⟨hij, hj⟩
  · rintro ⟨h1, h2⟩; exact ⟨p.1, by omega, p.2, ⟨h2, h1⟩, rfl⟩

/-- `Σ_{(i,j) ∈ pairs} c(i,j)·x(f i)·x(f j)` -/
def pairSumBy (x : Label → Rat) (f : Nat → Label) (c : Nat → Nat → Rat) : List (Nat × Nat) → Rat
  | [] => 0
  | p :: r => c p.1 p.2 * (x (f p.1) * x (f p.2)) + pairSumBy x f c r

theorem evalBag_pairBy_neg (x : Label → Rat) (f : Nat → Label) (c : Nat → Nat → Rat) (l : List (Nat × Nat)) :
    evalBag x (l.map (fun p => PTerm.quad (f p.1) (f p.2) (-(c p.1 p.2)))) = - pairSumBy x f c l := by
  induction l with
  | nil => simp only [List.map_nil, evalBag, pairSumBy]; grind
  | cons p r ih => simp only [List.map_cons, evalBag, PTerm.eval, pairSumBy, ih]; grind

theorem evalBag_flatMap_zero {β : Type} (x : Label → Rat) (l : List β) (g : β → List (PTerm Label))
    (h : ∀ b ∈ l, evalBag x (g b) = 0) : evalBag x (l.flatMap g) = 0 := by
  induction l with
  | nil => rfl
  | cons b r ih =>
    simp only [List.flatMap_cons, evalBag_append]
    rw [h b (by simp), ih (fun b' hb' => h b' (by simp [hb']))]; grind

theorem evalBag_zerosBy {β : Type} (x : Label → Rat) (f : β → Label) (l : List β) :
    evalBag x (l.map (fun b => PTerm.lin (f b) 0)) = 0 := by
  induction l with
  | nil => rfl
  | cons b r ih => simp only [List.map_cons, evalBag, PTerm.eval, ih]; grind

/-- sum over a list of bags -/
def bagSum {β : Type} (x : Label → Rat) (g : β → List (PTerm Label)) : List β → Rat
  | [] => 0
  | b :: r => evalBag x (g b) + bagSum x g r

theorem evalBag_flatMap {β : Type} (x : Label → Rat) (l : List β) (g : β → List (PTerm Label)) :
    evalBag x (l.flatMap g) = bagSum x g l := by
  induction l with
  | nil => rfl
  | cons b r ih => simp only [List.flatMap_cons, evalBag_append, bagSum, ih]

theorem bagSum_congr {β : Type} (x : Label → Rat) (g : β → List (PTerm Label)) (v : β → Rat) (l : List β)
    (h : ∀ b ∈ l, evalBag x (g b) = v b) : bagSum x g l = (l.map v).foldr (· + ·) 0 := by
  induction l with
  | nil => rfl
  | cons b r ih =>
    simp only [bagSum, List.map_cons, List.foldr_cons]
    rw [h b (by simp), ih (fun b' hb' => h b' (by simp [hb']))]

/-! ## `quadratic_knapsack` -/

theorem quadraticKnapsack_obj (values weights : List Rat) (profits : List (List Rat)) (cap : Rat) (q : GCqm)
    (h : quadraticKnapsack values weights profits cap = some q) (x : Label → Rat) :
    evalBag x q.obj = - isumBy x xI (enumFrom values) - pairSumBy x xI (matGet profits) (upperPairs values.length) := by
  unfold quadraticKnapsack at h
  split at h
  · simp at h
  · split at h
    · simp at h
    · split at h
      · simp at h
      · rename_i h3
        simp only [Option.some.injEq] at h; subst h
        have h3' : values.length = profits.length := by simpa using h3
        simp only [evalBag_append]
        rw [evalBag_zerosBy x xI]
        rw [evalBag_linBy_neg x xI, h3', evalBag_pairBy_neg x xI (matGet profits)]
        grind

theorem quadraticKnapsack_feasible (values weights : List Rat) (profits : List (List Rat)) (cap : Rat) (q : GCqm)
    (h : quadraticKnapsack values weights profits cap = some q) (x : Label → Rat) :
    q.feasible x ↔ isumBy x xI (enumFrom weights) ≤ cap := by
  unfold quadraticKnapsack at h
  split at h
  · simp at h
  · split at h
    · simp at h
    · split at h
      · simp at h
      · simp only [Option.some.injEq] at h; subst h
        simp only [GCqm.feasible, List.mem_singleton, forall_eq, GCons.holds, evalBag_append, evalBag_linBy, evalBag, PTerm.eval]
        constructor <;> intro h <;> grind

theorem quadraticKnapsack_refuses (values weights : List Rat) (profits : List (List Rat)) (cap : Rat) :
    quadraticKnapsack values weights profits cap = none ↔
      (values.length ≠ weights.length ∨ isSymmetric profits = false ∨ values.length ≠ profits.length) := by
  unfold quadraticKnapsack
  split
  · simp_all
  · split
    · simp_all
    · split <;> simp_all

/-! ## `quadratic_multi_knapsack` -/

theorem quadraticMultiKnapsack_obj (values weights : List Rat) (profits : List (List Rat)) (caps : List Rat) (q : GCqm)
    (h : quadraticMultiKnapsack values weights profits caps = some q) (x : Label → Rat) :
    evalBag x q.obj
      = - (((List.range caps.length).map (fun j => isumBy x (fun i => xIJ i j) (enumFrom values))).foldr (· + ·) 0)
        - (((List.range caps.length).map (fun j => pairSumBy x (fun i => xIJ i j) (matGet profits) (upperPairs values.length))).foldr (· + ·) 0) := by
  unfold quadraticMultiKnapsack at h
  split at h
  · simp at h
  · split at h
    · simp at h
    · split at h
      · simp at h
      · simp only [Option.some.injEq] at h; subst h
        simp only [evalBag_append]
        have hz : evalBag x ((List.range values.length).flatMap (fun i => (List.range caps.length).map (fun j => PTerm.lin (xIJ i j) 0))) = 0 := by
          apply evalBag_flatMap_zero
          intro i _
          exact evalBag_zerosBy x (fun j => xIJ i j) _
        rw [hz]
        -- linear part: swap the order of summation (items × bins → bins × items)
        have hlin : ∀ (vs : List (Nat × Rat)) (js : List Nat),
            evalBag x (vs.flatMap (fun p => js.map (fun j => PTerm.lin (xIJ p.1 j) (-p.2))))
              = - ((js.map (fun j => isumBy x (fun i => xIJ i j) vs)).foldr (· + ·) 0) := by
          intro vs js
          induction vs with
          | nil =>
            simp only [List.flatMap_nil, evalBag, isumBy]
            induction js with
            | nil => simp
            | cons j r ih => simp only [List.map_cons, List.foldr_cons]; grind
          | cons p r ih =>
            simp only [List.flatMap_cons, evalBag_append, ih]
            have : ∀ js : List Nat, evalBag x (js.map (fun j => PTerm.lin (xIJ p.1 j) (-p.2)))
                - ((js.map (fun j => isumBy x (fun i => xIJ i j) r)).foldr (· + ·) 0)
                = - ((js.map (fun j => isumBy x (fun i => xIJ i j) (p :: r))).foldr (· + ·) 0) := by
              intro js
              induction js with
              | nil => simp only [List.map_nil, evalBag, List.foldr_nil]; grind
              | cons j t iht =>
                simp only [List.map_cons, evalBag, PTerm.eval, List.foldr_cons, isumBy] at iht ⊢
                grind
            have := this js
            grind
        have hquad : ∀ (ps : List (Nat × Nat)) (js : List Nat),
            evalBag x (ps.flatMap (fun p => js.map (fun j => PTerm.quad (xIJ p.1 j) (xIJ p.2 j) (-(matGet profits p.1 p.2)))))
              = - ((js.map (fun j => pairSumBy x (fun i => xIJ i j) (matGet profits) ps)).foldr (· + ·) 0) := by
          intro ps js
          induction ps with
          | nil =>
            simp only [List.flatMap_nil, evalBag, pairSumBy]
            induction js with
            | nil => simp
            | cons j r ih => simp only [List.map_cons, List.foldr_cons]; grind
          | cons p r ih =>
            simp only [List.flatMap_cons, evalBag_append, ih]
            have : ∀ js : List Nat, evalBag x (js.map (fun j => PTerm.quad (xIJ p.1 j) (xIJ p.2 j) (-(matGet profits p.1 p.2))))
                - ((js.map (fun j => pairSumBy x (fun i => xIJ i j) (matGet profits) r)).foldr (· + ·) 0)
                = - ((js.map (fun j => pairSumBy x (fun i => xIJ i j) (matGet profits) (p :: r))).foldr (· + ·) 0) := by
              intro js
              induction js with
              | nil => simp only [List.map_nil, evalBag, List.foldr_nil]; grind
              | cons j t iht =>
                simp only [List.map_cons, evalBag, PTerm.eval, List.foldr_cons, pairSumBy] at iht ⊢
                grind
            have := this js
            grind
        rw [hlin, hquad]
        grind

theorem quadraticMultiKnapsack_cons (values weights : List Rat) (profits : List (List Rat)) (caps : List Rat) (q : GCqm)
    (h : quadraticMultiKnapsack values weights profits caps = some q) :
    ∃ q', multiKnapsack values weights caps = some q' ∧ q.cons = q'.cons ∧ q.vars = q'.vars := by
  unfold quadraticMultiKnapsack at h
  split at h
  · simp at h
  · rename_i h1
    split at h
    · simp at h
    · split at h
      · simp at h
      · simp only [Option.some.injEq] at h; subst h
        unfold multiKnapsack
        rw [if_neg h1]
        exact ⟨_, rfl, rfl, rfl⟩


/-! ## `quadratic_assignment` -/

/-- `Σ_{a ∈ l} g a` -/
def nsum (g : Nat → Rat) : List Nat → Rat
  | [] => 0
  | a :: r => g a + nsum g r

theorem nsum_congr (g h : Nat → Rat) (l : List Nat) (hh : ∀ a ∈ l, g a = h a) : nsum g l = nsum h l := by
  induction l with
  | nil => rfl
  | cons a r ih => simp only [nsum]; rw [hh a (by simp), ih (fun b hb => hh b (by simp [hb]))]

theorem nsum_zero (l : List Nat) : nsum (fun _ => 0) l = 0 := by
  induction l with
  | nil => rfl
  | cons a r ih => simp only [nsum, ih]; grind

theorem bagSum_eq_nsum (x : Label → Rat) (g : Nat → List (PTerm Label)) (l : List Nat) :
    bagSum x g l = nsum (fun a => evalBag x (g a)) l := by
  induction l with
  | nil => rfl
  | cons a r ih => simp only [bagSum, nsum, ih]

theorem nsum_filter (g : Nat → Rat) (p : Nat → Bool) (l : List Nat) :
    nsum g (l.filter p) = nsum (fun a => if p a then g a else 0) l := by
  induction l with
  | nil => rfl
  | cons a r ih =>
    simp only [List.filter_cons, nsum]
    split
    · simp only [nsum, ih]
    · rw [ih]; grind

theorem evalBag_mapNat (x : Label → Rat) (f : Nat → PTerm Label) (l : List Nat) :
    evalBag x (l.map f) = nsum (fun a => (f a).eval x) l := by
  induction l with
  | nil => rfl
  | cons a r ih => simp only [List.map_cons, evalBag, nsum, ih]

/-- the indicator picks one summand: `Σ_{j<n} (if a = j then g j else 0) = g a` for `a < n` -/
theorem nsum_indicator (g : Nat → Rat) (a n : Nat) (ha : a < n) :
    nsum (fun j => if a = j then g j else 0) (List.range n) = g a := by
  induction n with
  | zero => omega
  | succ n ih =>
    rw [List.range_succ]
    have happ : ∀ (h : Nat → Rat) (l₁ l₂ : List Nat), nsum h (l₁ ++ l₂) = nsum h l₁ + nsum h l₂ := by
      intro h l₁ l₂
      induction l₁ with
      | nil => simp only [List.nil_append, nsum]; grind
      | cons b r ihr => simp only [List.cons_append, nsum, ihr]; grind
    rw [happ]
    by_cases hn : a = n
    · subst hn
      have : nsum (fun j => if a = j then g j else 0) (List.range a) = 0 := by
        rw [nsum_congr _ (fun _ => 0) _ (fun j hj => by
          have : j < a := List.mem_range.1 hj
          have : ¬ a = j := by omega
          simp [this]), nsum_zero]
      rw [this]; simp only [nsum, if_pos rfl]; grind
    · rw [ih (by omega)]
      simp only [nsum, if_neg hn]; grind

/-- a 0/1 sample that places facility `i` at location `π i` -/
def assignSample (π : Nat → Nat) (x : Label → Rat) (n : Nat) : Prop :=
  ∀ i j, i < n → j < n → x (xIJ i j) = if π i = j then 1 else 0

/-- the terms behind cell `(i, j)` at an assignment: facility `i` contributes, with every *later* facility `k`,
    both directed flows times the directed distances between their locations -/
theorem qapRow_eval (n : Nat) (D F : List (List Rat)) (π : Nat → Nat) (hπ : ∀ i, i < n → π i < n) (x : Label → Rat)
    (hx : assignSample π x n) (i j : Nat) (hi : i < n) (hj : j < n) :
    evalBag x (qapRow n D F i j)
      = if π i = j then nsum (fun k => if i < k then qapCoef D F i (π i) k (π k) else 0) (List.range n) else 0 := by
  unfold qapRow
  rw [evalBag_flatMap, bagSum_eq_nsum]
  have inner : ∀ k ∈ List.range n,
      evalBag x (((List.range n).filter (fun l => decide (i < k ∨ (i = k ∧ j < l)))).map fun l =>
          PTerm.quad (xIJ i j) (xIJ k l) (qapCoef D F i j k l))
        = if π i = j then (if i < k then qapCoef D F i j k (π k) else 0) else 0 := by
    intro k hk
    have hk' : k < n := List.mem_range.1 hk
    rw [evalBag_mapNat, nsum_filter]
    by_cases hij : π i = j
    · rw [if_pos hij]
      have : nsum (fun l => if decide (i < k ∨ (i = k ∧ j < l)) = true then (PTerm.quad (xIJ i j) (xIJ k l) (qapCoef D F i j k l)).eval x else 0) (List.range n)
          = nsum (fun l => if π k = l then (if i < k then qapCoef D F i j k l else 0) else 0) (List.range n) := by
        apply nsum_congr
        intro l hl
        have hl' : l < n := List.mem_range.1 hl
        simp only [PTerm.eval, hx i j hi hj, hx k l hk' hl', if_pos hij, decide_eq_true_eq]
        by_cases hkl : π k = l
        · simp only [if_pos hkl]
          by_cases hik : i < k
          · simp only [hik, true_or, if_true]; grind
          · simp only [hik, false_or, if_false]
            by_cases hik2 : i = k
            · subst hik2
              have : ¬ j < l := by omega
              simp [this]
            · simp [hik2]
        · simp only [if_neg hkl]; split <;> grind
      rw [this, nsum_indicator _ (π k) n (hπ k hk')]
    · rw [if_neg hij]
      rw [nsum_congr _ (fun _ => 0) _ (fun l hl => by
        have hl' : l < n := List.mem_range.1 hl
        simp only [PTerm.eval, hx i j hi hj, if_neg hij]
        split <;> grind), nsum_zero]
  rw [nsum_congr _ _ _ inner]
  by_cases hij : π i = j
  · simp only [if_pos hij]
    apply nsum_congr
    intro k _
    rw [hij]
  · simp only [if_neg hij]; exact nsum_zero _

/-- **objective at an assignment** = `Σ_{i<k} (F[i][k]·D[π i][π k] + F[k][i]·D[π k][π i])` — the quadratic-assignment
    cost `Σ_{i≠k} F[i][k]·D[π i][π k]` written over unordered pairs of facilities -/
theorem quadraticAssignment_obj (D F : List (List Rat)) (q : GCqm) (h : quadraticAssignment D F = some q)
    (π : Nat → Nat) (hπ : ∀ i, i < D.length → π i < D.length) (x : Label → Rat) (hx : assignSample π x D.length) :
    evalBag x q.obj
      = nsum (fun i => nsum (fun k => if i < k then
            matGet F i k * matGet D (π i) (π k) + matGet F k i * matGet D (π k) (π i) else 0) (List.range D.length)) (List.range D.length) := by
  unfold quadraticAssignment at h
  simp only at h
  split at h
  · simp at h
  · simp only [Option.some.injEq] at h; subst h
    simp only [evalBag_append]
    have hz : evalBag x ((List.range D.length).flatMap (fun i => (List.range D.length).map (fun j => PTerm.lin (xIJ i j) 0))) = 0 := by
      apply evalBag_flatMap_zero
      intro i _
      exact evalBag_zerosBy x (fun j => xIJ i j) _
    rw [hz, evalBag_flatMap, bagSum_eq_nsum]
    have : ∀ i ∈ List.range D.length,
        evalBag x ((List.range D.length).flatMap (fun j => qapRow D.length D F i j))
          = nsum (fun k => if i < k then qapCoef D F i (π i) k (π k) else 0) (List.range D.length) := by
      intro i hi
      have hi' : i < D.length := List.mem_range.1 hi
      rw [evalBag_flatMap, bagSum_eq_nsum]
      rw [nsum_congr _ _ _ (fun j hj => qapRow_eval D.length D F π hπ x hx i j hi' (List.mem_range.1 hj))]
      exact nsum_indicator _ (π i) D.length (hπ i hi')
    rw [nsum_congr _ _ _ this]
    have e0 : ∀ r : Rat, 0 + r = r := by intro r; grind
    rw [e0]
    rfl

theorem quadraticAssignment_feasible (D F : List (List Rat)) (q : GCqm) (h : quadraticAssignment D F = some q) (x : Label → Rat) :
    q.feasible x ↔
      (∀ i ∈ List.range D.length, rangeSum x (xIJ i) (List.range D.length) = 1)
      ∧ (∀ j ∈ List.range D.length, rangeSum x (fun i => xIJ i j) (List.range D.length) = 1) := by
  unfold quadraticAssignment at h
  simp only at h
  split at h
  · simp at h
  · simp only [Option.some.injEq] at h; subst h
    simp only [GCqm.feasible, List.mem_append, List.mem_map]
    constructor
    · intro hf
      constructor
      · intro i hi
        have := hf _ (Or.inl ⟨i, hi, rfl⟩)
        simp only [GCons.holds, evalBag_ones] at this
        exact this
      · intro j hj
        have := hf _ (Or.inr ⟨j, hj, rfl⟩)
        simp only [GCons.holds, evalBag_append, evalBag_ones (f := fun i => xIJ i j), evalBag, PTerm.eval] at this
        grind
    · rintro ⟨h1, h2⟩ c hc
      rcases hc with ⟨i, hi, rfl⟩ | ⟨j, hj, rfl⟩
      · simp only [GCons.holds, evalBag_ones]; exact h1 i hi
      · have := h2 j hj
        simp only [GCons.holds, evalBag_append, evalBag_ones (f := fun i => xIJ i j), evalBag, PTerm.eval]
        grind

/-! ## kMC-SAT clause energies -/

/-- the value of a literal: `sign · x(variable)` -/
def litVal (x : Label → Rat) (lab : Nat → Label) (l : Nat × Int) : Rat := ((l.2 : Int) : Rat) * x (lab l.1)

def litSum (x : Label → Rat) (lab : Nat → Label) : Clause → Rat
  | [] => 0
  | l :: r => litVal x lab l + litSum x lab r

def litSqSum (x : Label → Rat) (lab : Nat → Label) : Clause → Rat
  | [] => 0
  | l :: r => litVal x lab l * litVal x lab l + litSqSum x lab r

theorem clause_cross (x : Label → Rat) (lab : Nat → Label) (a : Nat × Int) (r : Clause) :
    evalBag x ((r.map (fun b => (a, b))).map (fun p => PTerm.quad (lab p.1.1) (lab p.2.1) (((p.1.2 * p.2.2 : Int)) : Rat)))
      = litVal x lab a * litSum x lab r := by
  induction r with
  | nil => simp only [List.map_nil, evalBag, litSum]; grind
  | cons b r ih =>
    simp only [List.map_cons, evalBag, PTerm.eval, litSum]
    rw [ih]; simp only [litVal, Rat.intCast_mul]; grind

/-- `Σ_{i<j} lᵢ·lⱼ = ((Σ lᵢ)² − Σ lᵢ²) / 2` for the literals of a clause -/
theorem clauseBag_eval (x : Label → Rat) (lab : Nat → Label) (c : Clause) :
    2 * evalBag x (clauseBag lab c) = litSum x lab c * litSum x lab c - litSqSum x lab c := by
  unfold clauseBag
  induction c with
  | nil => simp only [pairsLt, List.map_nil, evalBag, litSum, litSqSum]; grind
  | cons a r ih =>
    simp only [pairsLt, List.map_append, evalBag_append, clause_cross, litSum, litSqSum]
    grind

/-- literals are `±1` at a spin sample with `±1` signs -/
def ClauseOK (c : Clause) : Prop := ∀ l ∈ c, l.2 = 1 ∨ l.2 = -1

theorem litVal_pm (x : Label → Rat) (hx : ∀ v, x v = 1 ∨ x v = -1) (lab : Nat → Label) (l : Nat × Int) (hl : l.2 = 1 ∨ l.2 = -1) :
    litVal x lab l = 1 ∨ litVal x lab l = -1 := by
  unfold litVal
  rcases hl with h | h <;> rcases hx (lab l.1) with h' | h' <;> rw [h, h'] <;> simp <;> grind

theorem litSqSum_spin (x : Label → Rat) (hx : ∀ v, x v = 1 ∨ x v = -1) (lab : Nat → Label) (c : Clause) (hc : ClauseOK c) :
    litSqSum x lab c = ((c.length : Nat) : Rat) := by
  induction c with
  | nil => simp [litSqSum]
  | cons l r ih =>
    have hl := litVal_pm x hx lab l (hc l (by simp))
    simp only [litSqSum, List.length_cons]
    rw [ih (fun l' hl' => hc l' (by simp [hl']))]
    rcases hl with h | h <;> rw [h] <;> simp [Rat.natCast_add] <;> grind

/-- **clause energy at a spin sample**: `(S² − k)/2` with `S` the sum of the literals -/
theorem clause_energy_spin (x : Label → Rat) (hx : ∀ v, x v = 1 ∨ x v = -1) (lab : Nat → Label) (c : Clause) (hc : ClauseOK c) :
    2 * evalBag x (clauseBag lab c) = litSum x lab c * litSum x lab c - ((c.length : Nat) : Rat) := by
  rw [clauseBag_eval, litSqSum_spin x hx lab c hc]

/-- number of literals with value `+1` -/
def litTrue (x : Label → Rat) (lab : Nat → Label) : Clause → Nat
  | [] => 0
  | l :: r => (if litVal x lab l = 1 then 1 else 0) + litTrue x lab r

theorem litSum_count (x : Label → Rat) (hx : ∀ v, x v = 1 ∨ x v = -1) (lab : Nat → Label) (c : Clause) (hc : ClauseOK c) :
    litSum x lab c = 2 * ((litTrue x lab c : Nat) : Rat) - ((c.length : Nat) : Rat) := by
  induction c with
  | nil => simp only [litSum, litTrue, List.length_nil]; simp; grind
  | cons l r ih =>
    have hl := litVal_pm x hx lab l (hc l (by simp))
    simp only [litSum, litTrue, List.length_cons]
    rw [ih (fun l' hl' => hc l' (by simp [hl']))]
    rcases hl with h | h
    · rw [h]; simp [Rat.natCast_add]; grind
    · rw [h]
      have : ¬ ((-1 : Rat) = 1) := by decide
      simp [this, Rat.natCast_add]; grind

theorem litTrue_le (x : Label → Rat) (lab : Nat → Label) (c : Clause) : litTrue x lab c ≤ c.length := by
  induction c with
  | nil => simp [litTrue]
  | cons l r ih => simp only [litTrue, List.length_cons]; split <;> omega

/-- clause energy as a function of the number `t` of true literals: `2·E = (2t − k)² − k` -/
theorem clause_energy_count (x : Label → Rat) (hx : ∀ v, x v = 1 ∨ x v = -1) (lab : Nat → Label) (c : Clause) (hc : ClauseOK c) :
    2 * evalBag x (clauseBag lab c)
      = ((((2 * (litTrue x lab c : Int) - (c.length : Int)) * (2 * (litTrue x lab c : Int) - (c.length : Int)) - (c.length : Int) : Int)) : Rat) := by
  rw [clause_energy_spin x hx lab c hc, litSum_count x hx lab c hc]
  simp [Rat.intCast_sub, Rat.intCast_mul, Rat.intCast_natCast]


/-- NAE-3-SAT clause (`k = 3`): energy `−1` when the literals are not all equal, `+3` when they are -/
theorem nae3_clause (x : Label → Rat) (hx : ∀ v, x v = 1 ∨ x v = -1) (lab : Nat → Label) (c : Clause) (hc : ClauseOK c) (hk : c.length = 3) :
    ((0 < litTrue x lab c ∧ litTrue x lab c < 3) → evalBag x (clauseBag lab c) = -1)
    ∧ ((litTrue x lab c = 0 ∨ litTrue x lab c = 3) → evalBag x (clauseBag lab c) = 3) := by
  have h := clause_energy_count x hx lab c hc
  have hle := litTrue_le x lab c
  rw [hk] at h hle
  have : litTrue x lab c = 0 ∨ litTrue x lab c = 1 ∨ litTrue x lab c = 2 ∨ litTrue x lab c = 3 := by omega
  rcases this with ht | ht | ht | ht <;> rw [ht] at h <;> simp at h <;> refine ⟨fun h' => ?_, fun h' => ?_⟩ <;> first | omega | grind

/-- 2-in-4-SAT clause (`k = 4`): energy `−2` when exactly two literals are true, `0` when one or three are, `6` when none or all -/
theorem twoin4_clause (x : Label → Rat) (hx : ∀ v, x v = 1 ∨ x v = -1) (lab : Nat → Label) (c : Clause) (hc : ClauseOK c) (hk : c.length = 4) :
    (litTrue x lab c = 2 → evalBag x (clauseBag lab c) = -2)
    ∧ (litTrue x lab c ≠ 2 → 0 ≤ evalBag x (clauseBag lab c)) := by
  have h := clause_energy_count x hx lab c hc
  have hle := litTrue_le x lab c
  rw [hk] at h hle
  have : litTrue x lab c = 0 ∨ litTrue x lab c = 1 ∨ litTrue x lab c = 2 ∨ litTrue x lab c = 3 ∨ litTrue x lab c = 4 := by omega
  rcases this with ht | ht | ht | ht | ht <;> rw [ht] at h <;> simp at h <;> refine ⟨fun h' => ?_, fun h' => ?_⟩ <;> first | omega | grind

theorem int_sq_ge_parity (t k : Nat) :
    ((k % 2 : Nat) : Int) ≤ (2 * (t : Int) - (k : Int)) * (2 * (t : Int) - (k : Int))
    ∧ ((2 * (t : Int) - (k : Int)) * (2 * (t : Int) - (k : Int)) = ((k % 2 : Nat) : Int) ↔ (k ≤ 2 * t + 1 ∧ 2 * t ≤ k + 1)) := by
  by_cases h0 : 2 * t = k
  · subst h0
    have : (2 * t) % 2 = 0 := by omega
    rw [this]; simp
  · rcases Nat.lt_or_gt_of_ne h0 with hlt | hgt
    · -- d = 2t - k < 0
      have hd : (k : Int) - 2 * (t : Int) ≥ 1 := by omega
      have hsq : (2 * (t : Int) - (k : Int)) * (2 * (t : Int) - (k : Int)) = ((k : Int) - 2 * t) * ((k : Int) - 2 * t) := by grind
      rw [hsq]
      have hmono : ((k : Int) - 2 * t) * 1 ≤ ((k : Int) - 2 * t) * ((k : Int) - 2 * t) := Int.mul_le_mul_of_nonneg_left hd (by omega)
      refine ⟨by omega, ?_⟩
      constructor
      · intro he; omega
      · rintro ⟨h1, h2⟩
        have : (k : Int) - 2 * t = 1 := by omega
        rw [this]; omega
    · have hd : 2 * (t : Int) - (k : Int) ≥ 1 := by omega
      have hmono : (2 * (t : Int) - (k : Int)) * 1 ≤ (2 * (t : Int) - (k : Int)) * (2 * (t : Int) - (k : Int)) := Int.mul_le_mul_of_nonneg_left hd (by omega)
      refine ⟨by omega, ?_⟩
      constructor
      · intro he; omega
      · rintro ⟨h1, h2⟩
        have : 2 * (t : Int) - (k : Int) = 1 := by omega
        rw [this]; omega

/-- **every `k`**: a clause contributes at least `−⌊k/2⌋`, with equality exactly when the numbers of true and false
    literals differ by at most one (the clause is a maximum cut of its literals: "satisfied") -/
theorem kmc_clause_bound (x : Label → Rat) (hx : ∀ v, x v = 1 ∨ x v = -1) (lab : Nat → Label) (c : Clause) (hc : ClauseOK c) :
    -(((c.length / 2 : Nat)) : Rat) ≤ evalBag x (clauseBag lab c)
    ∧ (evalBag x (clauseBag lab c) = -(((c.length / 2 : Nat)) : Rat)
        ↔ (c.length ≤ 2 * litTrue x lab c + 1 ∧ 2 * litTrue x lab c ≤ c.length + 1)) := by
  have h := clause_energy_count x hx lab c hc
  obtain ⟨h1, h2⟩ := int_sq_ge_parity (litTrue x lab c) c.length
  have hk : ((c.length : Nat) : Int) = 2 * ((c.length / 2 : Nat) : Int) + ((c.length % 2 : Nat) : Int) := by omega
  -- 2E + 2⌊k/2⌋ = d² − k%2
  have key : 2 * evalBag x (clauseBag lab c) + 2 * (((c.length / 2 : Nat)) : Rat)
      = ((((2 * (litTrue x lab c : Int) - (c.length : Int)) * (2 * (litTrue x lab c : Int) - (c.length : Int)) - ((c.length % 2 : Nat) : Int) : Int)) : Rat) := by
    rw [h]
    have : (((c.length / 2 : Nat)) : Rat) = ((((c.length / 2 : Nat) : Int)) : Rat) := (Rat.intCast_natCast _).symm
    rw [this]
    have e2 : (2 : Rat) = (((2 : Int)) : Rat) := by simp
    rw [e2, ← Rat.intCast_mul, ← Rat.intCast_add]
    congr 1
    omega
  have hnn : (0 : Rat) ≤ ((((2 * (litTrue x lab c : Int) - (c.length : Int)) * (2 * (litTrue x lab c : Int) - (c.length : Int)) - ((c.length % 2 : Nat) : Int) : Int)) : Rat) := by
    have : (0 : Int) ≤ (2 * (litTrue x lab c : Int) - (c.length : Int)) * (2 * (litTrue x lab c : Int) - (c.length : Int)) - ((c.length % 2 : Nat) : Int) := by omega
    exact_mod_cast this
  constructor
  · grind
  · rw [← h2]
    constructor
    · intro he
      have : ((((2 * (litTrue x lab c : Int) - (c.length : Int)) * (2 * (litTrue x lab c : Int) - (c.length : Int)) - ((c.length % 2 : Nat) : Int) : Int)) : Rat) = 0 := by
        rw [← key, he]; grind
      have : (2 * (litTrue x lab c : Int) - (c.length : Int)) * (2 * (litTrue x lab c : Int) - (c.length : Int)) - ((c.length % 2 : Nat) : Int) = 0 := by
        exact_mod_cast this
      omega
    · intro he
      rw [he] at key
      simp at key
      grind

theorem kmcsat_eval (labels : List Label) (k : Nat) (clauses : List Clause) (bag : List (PTerm Label))
    (h : kmcsat labels k clauses = some bag) (x : Label → Rat) :
    evalBag x bag = bagSum x (clauseBag (fun i => labels.getD i (.int 0))) clauses := by
  unfold kmcsat at h
  split at h
  · simp at h
  · simp only [Option.some.injEq] at h; subst h
    rw [evalBag_append, evalBag_zeros, evalBag_flatMap]; grind

/-! ## magic square -/

def cellSum (x : Label → Rat) (power : Nat) : List (Nat × Nat) → Rat
  | [] => 0
  | c :: r => (if power = 1 then x (msVar c.1 c.2) else x (msVar c.1 c.2) * x (msVar c.1 c.2)) + cellSum x power r

theorem msLine_eval (x : Label → Rat) (power : Nat) (cells : List (Nat × Nat)) :
    evalBag x (msLine power cells) = cellSum x power cells - x msSum := by
  unfold msLine
  rw [evalBag_append]
  have : evalBag x (cells.map (fun c => if power = 1 then PTerm.lin (msVar c.1 c.2) 1 else PTerm.quad (msVar c.1 c.2) (msVar c.1 c.2) 1))
      = cellSum x power cells := by
    induction cells with
    | nil => rfl
    | cons c r ih =>
      simp only [List.map_cons, evalBag, cellSum, ih]
      split <;> simp only [PTerm.eval] <;> grind
  rw [this]; simp only [evalBag, PTerm.eval]; grind

/-- `Σ (a − b)²` over the listed cell pairs -/
def sqDiffSum (x : Label → Rat) : List ((Nat × Nat) × (Nat × Nat)) → Rat
  | [] => 0
  | p :: r => (x (msVar p.1.1 p.1.2) - x (msVar p.2.1 p.2.2)) * (x (msVar p.1.1 p.1.2) - x (msVar p.2.1 p.2.2)) + sqDiffSum x r

theorem msUnique_eval (x : Label → Rat) (ps : List ((Nat × Nat) × (Nat × Nat))) :
    evalBag x (ps.flatMap (fun p =>
        [PTerm.quad (msVar p.1.1 p.1.2) (msVar p.1.1 p.1.2) 1, PTerm.quad (msVar p.2.1 p.2.2) (msVar p.2.1 p.2.2) 1,
         PTerm.quad (msVar p.1.1 p.1.2) (msVar p.2.1 p.2.2) (-2)])) = sqDiffSum x ps := by
  induction ps with
  | nil => rfl
  | cons p r ih =>
    simp only [List.flatMap_cons, evalBag_append, ih, sqDiffSum, evalBag, PTerm.eval]; grind

/-- the pairs of the uniqueness constraint are exactly the pairs of cells `(i,j)`, `(k,l)` inside the square
    with `(j, i) < (l, k)` lexicographically: every unordered pair of different cells once -/
theorem msPairs_mem (n : Nat) (p : (Nat × Nat) × (Nat × Nat)) :
    p ∈ msPairs n ↔ (p.1.1 < n ∧ p.1.2 < n ∧ p.2.1 < n ∧ p.2.2 < n ∧ ((p.2.1 > p.1.1 ∧ p.2.2 = p.1.2) ∨ p.2.2 > p.1.2)) := by
  unfold msPairs
  simp only [List.mem_flatMap, List.mem_range, List.mem_map, List.mem_filter, decide_eq_true_eq]
  constructor
  · rintro ⟨i, hi, j, hj, k, hk, l, ⟨hl, hc⟩, rfl⟩; exact ⟨hi, hj, hk, hl, hc⟩
  · rintro ⟨hi, hj, hk, hl, hc⟩; exact ⟨p.1.1, hi, p.1.2, hj, p.2.1, hk, p.2.2, ⟨hl, hc⟩, rfl⟩

end Gen

namespace Gen
open Pen

/-! ## binary paint shop: the Ising energy counts the colour changes -/

/-- colour sign of a car at a position: the second occurrence is painted with the other colour
    (`sample_to_coloring`: `sample[car]` on the first visit, `-sample[car]` afterwards) -/
def colAt (x : Label → Rat) (seen : List Label) (c : Label) : Rat := (if c ∈ seen then -1 else 1) * x c

/-- twice the number of colour changes along the sequence: `Σ_t (1 − col_t·col_{t+1})` (colours `±1`) -/
def twiceChanges (x : Label → Rat) : List Label → List Label → Rat
  | seen, c1 :: c2 :: rest => (1 - colAt x seen c1 * colAt x (c1 :: seen) c2) + twiceChanges x (c1 :: seen) (c2 :: rest)
  | _, _ => 0

/-- number of positions where a car is directly followed by itself -/
def sameAdj : List Label → Nat
  | c1 :: c2 :: rest => (if c1 = c2 then 1 else 0) + sameAdj (c2 :: rest)
  | _ => 0

theorem countL_cons (c d : Label) (l : List Label) : countL c (d :: l) = (if d = c then 1 else 0) + countL c l := by
  unfold countL
  simp only [List.filter_cons]
  split <;> simp_all <;> omega

theorem countL_pos_of_mem (c : Label) (l : List Label) (h : c ∈ l) : 1 ≤ countL c l := by
  induction l with
  | nil => simp at h
  | cons d r ih =>
    rw [countL_cons]
    rcases List.mem_cons.1 h with h | h
    · subst h; simp
    · have := ih h; omega

theorem countL_zero_of_not_mem (c : Label) (l : List Label) (h : c ∉ l) : countL c l = 0 := by
  induction l with
  | nil => rfl
  | cons d r ih =>
    rw [countL_cons]
    simp only [List.mem_cons, not_or] at h
    rw [ih h.2, if_neg (fun e => h.1 e.symm)]

/-- **`2 × (colour changes) = (L − 1) + E(s) + #(car directly followed by itself)`** for every sequence in which no
    car occurs more than twice, at every spin sample — the Ising energy is the paint-shop objective up to a constant -/
theorem bpspGo_changes (x : Label → Rat) (hx : ∀ v, x v * x v = 1) (seq seen : List Label)
    (H : ∀ c, countL c seen + countL c seq ≤ 2) :
    twiceChanges x seen seq = (((seq.length - 1 : Nat)) : Rat) + evalBag x (bpspGo seen seq) + ((sameAdj seq : Nat) : Rat) := by
  induction seq generalizing seen with
  | nil => simp [twiceChanges, bpspGo, sameAdj, evalBag]; grind
  | cons c1 t ih =>
    cases t with
    | nil => simp [twiceChanges, bpspGo, sameAdj, evalBag]; grind
    | cons c2 rest =>
      have H' : ∀ c, countL c (c1 :: seen) + countL c (c2 :: rest) ≤ 2 := by
        intro c
        have := H c
        rw [countL_cons c c1 (c2 :: rest)] at this
        rw [countL_cons c c1 seen]
        omega
      have ihh := ih (c1 :: seen) H'
      simp only [twiceChanges, bpspGo, sameAdj, evalBag_append, List.length_cons] at ihh ⊢
      rw [ihh]
      have hlen : (((rest.length + 1 + 1 - 1 : Nat)) : Rat) = (((rest.length + 1 - 1 : Nat)) : Rat) + 1 := by
        have : rest.length + 1 + 1 - 1 = (rest.length + 1 - 1) + 1 := by omega
        rw [this, Rat.natCast_add]; rfl
      rw [hlen]
      have h1 := H c1
      have h2 := H c2
      rw [countL_cons c1 c1, countL_cons c1 c2] at h1
      rw [countL_cons c2 c1, countL_cons c2 c2] at h2
      simp only [if_true] at h1 h2
      by_cases hc : c1 = c2
      · subst hc
        simp only [if_true] at h1
        have hns : c1 ∉ seen := fun hm => by have := countL_pos_of_mem c1 seen hm; omega
        simp only [colAt, if_neg hns, List.mem_cons, true_or, if_true, ne_eq, not_true_eq_false, if_false, evalBag]
        have := hx c1
        rw [Rat.natCast_add]
        grind
      · simp only [if_neg hc, ne_eq, hc, not_false_eq_true, if_true, evalBag, PTerm.eval]
        have hc' : ¬ c2 = c1 := fun e => hc e.symm
        have hm2 : (c2 ∈ c1 :: seen) ↔ c2 ∈ seen := by simp [hc']
        have hx1 := hx c1
        have hx2 := hx c2
        by_cases m1 : c1 ∈ seen <;> by_cases m2 : c2 ∈ seen
        · have k1 : countL c1 seen = 1 := by have := countL_pos_of_mem c1 seen m1; omega
          have k2 : countL c2 seen = 1 := by have := countL_pos_of_mem c2 seen m2; omega
          simp only [colAt, if_pos m1, hm2, if_pos m2, k1, k2]
          simp; grind
        · have k1 : countL c1 seen = 1 := by have := countL_pos_of_mem c1 seen m1; omega
          have k2 : countL c2 seen = 0 := countL_zero_of_not_mem c2 seen m2
          simp only [colAt, if_pos m1, hm2, if_neg m2, k1, k2]
          simp; grind
        · have k1 : countL c1 seen = 0 := countL_zero_of_not_mem c1 seen m1
          have k2 : countL c2 seen = 1 := by have := countL_pos_of_mem c2 seen m2; omega
          simp only [colAt, if_neg m1, hm2, if_pos m2, k1, k2]
          simp; grind
        · have k1 : countL c1 seen = 0 := countL_zero_of_not_mem c1 seen m1
          have k2 : countL c2 seen = 0 := countL_zero_of_not_mem c2 seen m2
          simp only [colAt, if_neg m1, hm2, if_neg m2, k1, k2]
          simp; grind

end Gen
