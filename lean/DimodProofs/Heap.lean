import DimodModel.Heap

/-! Frame, freshness and content lemmas of the heap model of BQM / QM / CQM objects (C19). Core Lean only. -/

namespace MHeap

@[simp] theorem alloc_next (h : Heap) (c : Cell) : (alloc h c).1.next = h.next + 1 := rfl
@[simp] theorem alloc_addr (h : Heap) (c : Cell) : (alloc h c).2 = h.next := rfl
theorem alloc_cell (h : Heap) (c : Cell) (a : Nat) : (alloc h c).1.cell a = if a = h.next then c else h.cell a := rfl
@[simp] theorem store_next (h : Heap) (a : Nat) (c : Cell) : (store h a c).next = h.next := rfl
theorem store_cell (h : Heap) (a : Nat) (c : Cell) (b : Nat) : (store h a c).cell b = if b = a then c else h.cell b := rfl

theorem alloc_cell_old (h : Heap) (c : Cell) (a : Nat) (ha : a < h.next) : (alloc h c).1.cell a = h.cell a := by
  rw [alloc_cell, if_neg (by omega)]
theorem alloc_cell_new (h : Heap) (c : Cell) : (alloc h c).1.cell h.next = c := by rw [alloc_cell, if_pos rfl]
theorem store_cell_other (h : Heap) (a : Nat) (c : Cell) (b : Nat) (hb : b ≠ a) : (store h a c).cell b = h.cell b := by
  rw [store_cell, if_neg hb]
theorem store_cell_same (h : Heap) (a : Nat) (c : Cell) : (store h a c).cell a = c := by rw [store_cell, if_pos rfl]

/-- every cell below `N` is the same in both heaps -/
def Same (N : Nat) (h h' : Heap) : Prop := ∀ a, a < N → h'.cell a = h.cell a

theorem Same.refl (N : Nat) (h : Heap) : Same N h h := fun _ _ => rfl
theorem Same.trans {N : Nat} {h h1 h2 : Heap} (a : Same N h h1) (b : Same N h1 h2) : Same N h h2 :=
  fun x hx => (b x hx).trans (a x hx)
theorem Same.mono {N M : Nat} {h h' : Heap} (a : Same N h h') (hm : M ≤ N) : Same M h h' := fun x hx => a x (by omega)
theorem same_alloc (h : Heap) (c : Cell) : Same h.next h (alloc h c).1 := fun a ha => alloc_cell_old h c a ha
theorem same_store (N : Nat) (h : Heap) (a : Nat) (c : Cell) (ha : N ≤ a) : Same N h (store h a c) :=
  fun b hb => store_cell_other h a c b (by omega)

/-- `n` is a cy object of `h` whose three cells (itself, its C++ model, its `Variables`) are distinct and lie in `[N, h.next)` -/
def Born (N : Nat) (h : Heap) (n : Nat) : Prop :=
  ∃ c v, h.cell n = .cy c v ∧ N ≤ n ∧ n < h.next ∧ N ≤ c ∧ c < h.next ∧ N ≤ v ∧ v < h.next ∧ c ≠ n ∧ v ≠ n ∧ c ≠ v

theorem cppOf_eq {h : Heap} {n c v : Nat} (hc : h.cell n = .cy c v) : cppOf h n = c := by simp [cppOf, hc]
theorem varsOf_eq {h : Heap} {n c v : Nat} (hc : h.cell n = .cy c v) : varsOf h n = v := by simp [varsOf, hc]

theorem Born.mono {N M : Nat} {h : Heap} {n : Nat} (hb : Born N h n) (hm : M ≤ N) : Born M h n := by
  obtain ⟨c, v, h1, h2, h3, h4, h5, h6, h7, h8⟩ := hb
  exact ⟨c, v, h1, by omega, h3, by omega, h5, by omega, h7, h8⟩

theorem coeffsAt_congr {h h' : Heap} {a : Nat} (e : h'.cell a = h.cell a) : coeffsAt h' a = coeffsAt h a := by simp [coeffsAt, e]
theorem labelsAt_congr {h h' : Heap} {a : Nat} (e : h'.cell a = h.cell a) : labelsAt h' a = labelsAt h a := by simp [labelsAt, e]

/-- an object survives anything that leaves the cells below the old `next` alone -/
theorem Born.transport {N : Nat} {h h' : Heap} {n : Nat} (hb : Born N h n) (hs : Same h.next h h') (hn : h.next ≤ h'.next) :
    Born N h' n ∧ obs h' n = obs h n ∧ cppOf h' n = cppOf h n ∧ varsOf h' n = varsOf h n := by
  obtain ⟨c, v, h1, h2, h3, h4, h5, h6, h7, h8, h9, h10⟩ := hb
  have e1 : h'.cell n = .cy c v := (hs n h3).trans h1
  refine ⟨⟨c, v, e1, h2, by omega, h4, by omega, h6, by omega, h8, h9, h10⟩, ?_, ?_, ?_⟩
  · simp only [obs, cppOf_eq e1, varsOf_eq e1, cppOf_eq h1, varsOf_eq h1, coeffsAt_congr (hs c h5), labelsAt_congr (hs v h7)]
  · rw [cppOf_eq e1, cppOf_eq h1]
  · rw [varsOf_eq e1, varsOf_eq h1]

/-- what `mutate` does, cell by cell -/
theorem mutate_cell {N : Nat} {h : Heap} {n : Nat} (hb : Born N h n) (f : List Rat → List Rat) (g : List Nat → List Nat) (a : Nat) :
    (mutate h n f g).cell a =
      if a = varsOf h n then .labels (g (labelsAt h (varsOf h n)))
      else if a = cppOf h n then .coeffs (f (coeffsAt h (cppOf h n))) else h.cell a := by
  obtain ⟨c, v, h1, _, _, _, _, _, _, h8, h9, h10⟩ := hb
  have ec := cppOf_eq h1
  have ev := varsOf_eq h1
  have e2 : (store h c (.coeffs (f (coeffsAt h c)))).cell n = .cy c v := by rw [store_cell_other _ _ _ _ (Ne.symm h8)]; exact h1
  have e3 : labelsAt (store h c (.coeffs (f (coeffsAt h c)))) v = labelsAt h v :=
    labelsAt_congr (store_cell_other _ _ _ _ (Ne.symm h10))
  simp only [mutate, ec, ev, varsOf_eq e2, e3, store_cell]

theorem mutate_next (h : Heap) (n : Nat) (f : List Rat → List Rat) (g : List Nat → List Nat) : (mutate h n f g).next = h.next := rfl

theorem mutate_spec {N : Nat} {h : Heap} {n : Nat} (hb : Born N h n) (f : List Rat → List Rat) (g : List Nat → List Nat) :
    Same N h (mutate h n f g) ∧ Born N (mutate h n f g) n ∧ obs (mutate h n f g) n = (f (obs h n).1, g (obs h n).2) ∧
    (∀ a, a ≠ cppOf h n → a ≠ varsOf h n → (mutate h n f g).cell a = h.cell a) := by
  have hcell := mutate_cell hb f g
  obtain ⟨c, v, h1, h2, h3, h4, h5, h6, h7, h8, h9, h10⟩ := hb
  have ec := cppOf_eq h1
  have ev := varsOf_eq h1
  rw [ec, ev] at hcell
  have e1 : (mutate h n f g).cell n = .cy c v := by rw [hcell, if_neg (Ne.symm h9), if_neg (Ne.symm h8)]; exact h1
  refine ⟨fun a ha => by rw [hcell, if_neg (by omega), if_neg (by omega)],
    ⟨c, v, e1, h2, h3, h4, h5, h6, h7, h8, h9, h10⟩, ?_, fun a ha1 ha2 => by rw [hcell, if_neg (ev ▸ ha2), if_neg (ec ▸ ha1)]⟩
  simp only [obs, cppOf_eq e1, varsOf_eq e1, ec, ev, coeffsAt, labelsAt, hcell, if_pos, if_neg h10]

theorem update_eq (h : Heap) (dst src : Nat) (u : List Rat → List Rat → List Rat) (w : List Nat → List Nat → List Nat) :
    update h dst src u w = mutate h dst (fun c => u c (obs h src).1) (fun l => w l (obs h src).2) := rfl

/-- a new cy object: three new cells, nothing else touched, empty contents -/
theorem cyNew_spec (h : Heap) :
    (cyNew h).1.next = h.next + 3 ∧ Same h.next h (cyNew h).1 ∧ Born h.next (cyNew h).1 (cyNew h).2 ∧ obs (cyNew h).1 (cyNew h).2 = ([], []) := by
  have e : ∀ a, (cyNew h).1.cell a = if a = h.next + 2 then .cy h.next (h.next + 1) else if a = h.next + 1 then .labels []
      else if a = h.next then .coeffs [] else h.cell a := fun a => rfl
  have e2 : (cyNew h).2 = h.next + 2 := rfl
  have ecy : (cyNew h).1.cell (h.next + 2) = .cy h.next (h.next + 1) := by rw [e, if_pos rfl]
  refine ⟨rfl, fun a ha => by rw [e, if_neg (by omega), if_neg (by omega), if_neg (by omega)], ?_, ?_⟩
  · refine ⟨h.next, h.next + 1, by rw [e2]; exact ecy, ?_⟩
    rw [e2]
    have : (cyNew h).1.next = h.next + 3 := rfl
    omega
  · rw [e2]
    simp only [obs, cppOf_eq ecy, varsOf_eq ecy, coeffsAt, labelsAt, e]
    simp

/-- `cyBQM.__copy__` / `__deepcopy__` / `cyQM.__deepcopy__`: the copy is made of new cells only, holds the receiver's contents, and no
    existing cell is written -/
theorem cyCopy_spec {h : Heap} {d : Nat} (hd : Born 0 h d) :
    h.next ≤ (cyCopy h d).1.next ∧ Same h.next h (cyCopy h d).1 ∧ Born h.next (cyCopy h d).1 (cyCopy h d).2 ∧
    obs (cyCopy h d).1 (cyCopy h d).2 = obs h d := by
  obtain ⟨hn1, hs1, hb1, ho1⟩ := cyNew_spec h
  obtain ⟨hd1, hod1, hc1, hv1⟩ := hd.transport hs1 (by omega)
  obtain ⟨c, v, hcy, k2, k3, k4, k5, k6, k7, k8, k9, k10⟩ := hb1
  have ec := cppOf_eq hcy
  -- step 2: the C++ model of the new object gets the receiver's contents
  let h2 := store (cyNew h).1 c (.coeffs (coeffsAt (cyNew h).1 (cppOf (cyNew h).1 d)))
  have hs2 : Same h.next (cyNew h).1 h2 := same_store _ _ _ _ k4
  have hcy2 : h2.cell (cyNew h).2 = .cy c v := by rw [store_cell_other _ _ _ _ (Ne.symm k8)]; exact hcy
  -- step 3: a new Variables holding the receiver's labels
  let b := alloc h2 (.labels (labelsAt h2 (varsOf h2 d)))
  have hb2 : b.2 = h.next + 3 := by show h2.next = _; show (cyNew h).1.next = _; exact hn1
  have hnext2 : h2.next = h.next + 3 := hn1
  have hcy3 : b.1.cell (cyNew h).2 = .cy c v := by rw [alloc_cell_old _ _ _ (by omega)]; exact hcy2
  have hrun : cyCopy h d = (store b.1 (cyNew h).2 (.cy (cppOf b.1 (cyNew h).2) b.2), (cyNew h).2) := by
    simp only [cyCopy, ec]; rfl
  have ec3 := cppOf_eq hcy3
  rw [hrun]
  simp only
  rw [ec3, hb2]
  let h4 := store b.1 (cyNew h).2 (.cy c (h.next + 3))
  have hcell4 : ∀ a, h4.cell a = if a = (cyNew h).2 then .cy c (h.next + 3) else if a = h.next + 3 then .labels (labelsAt h2 (varsOf h2 d))
      else if a = c then .coeffs (coeffsAt (cyNew h).1 (cppOf (cyNew h).1 d)) else (cyNew h).1.cell a := by
    intro a
    show (store b.1 (cyNew h).2 (.cy c (h.next + 3))).cell a = _
    rw [store_cell, alloc_cell, hnext2, store_cell]
  have hsame : Same h.next h h4 := by
    intro a ha
    rw [hcell4, if_neg (by omega), if_neg (by omega), if_neg (by omega)]
    exact hs1 a ha
  have hcy4 : h4.cell (cyNew h).2 = .cy c (h.next + 3) := by rw [hcell4, if_pos rfl]
  have hnext4 : h4.next = h.next + 4 := by show b.1.next = _; rw [alloc_next, hnext2]
  show h.next ≤ h4.next ∧ Same h.next h h4 ∧ Born h.next h4 (cyNew h).2 ∧ obs h4 (cyNew h).2 = obs h d
  refine ⟨by omega, hsame,
    ⟨c, h.next + 3, hcy4, k2, by omega, k4, by omega, by omega, by omega, k8, by omega, by omega⟩, ?_⟩
  -- contents
  obtain ⟨cd, vd, hcd0, _, d3, _, d5, _, d7, _, _, _⟩ := hd
  have hcd : (cyNew h).1.cell d = .cy cd vd := (hs1 d d3).trans hcd0
  have hcd2 : h2.cell d = .cy cd vd := by rw [hs2 d (by omega)]; exact hcd
  show obs h4 (cyNew h).2 = obs h d
  rw [← hod1]
  simp only [obs, cppOf_eq hcy4, varsOf_eq hcy4, cppOf_eq hcd, varsOf_eq hcd, varsOf_eq hcd2, coeffsAt, labelsAt, hcell4]
  have n1 : c ≠ (cyNew h).2 := k8
  have n2 : c ≠ h.next + 3 := by omega
  have n3 : h.next + 3 ≠ (cyNew h).2 := by omega
  simp only [if_neg n1, if_neg n2, if_neg n3, if_true]
  have : h2.cell vd = (cyNew h).1.cell vd := hs2 vd (by omega)
  rw [this]

end MHeap

namespace MHeap

theorem mutate_refs {N : Nat} {h : Heap} {n : Nat} (hb : Born N h n) (f : List Rat → List Rat) (g : List Nat → List Nat) :
    cppOf (mutate h n f g) n = cppOf h n ∧ varsOf (mutate h n f g) n = varsOf h n := by
  have hcell := mutate_cell hb f g
  obtain ⟨c, v, h1, _, _, _, _, _, _, h8, h9, _⟩ := hb
  have e1 : (mutate h n f g).cell n = .cy c v := by
    rw [hcell, cppOf_eq h1, varsOf_eq h1, if_neg (Ne.symm h9), if_neg (Ne.symm h8)]; exact h1
  rw [cppOf_eq e1, varsOf_eq e1, cppOf_eq h1, varsOf_eq h1]; exact ⟨rfl, rfl⟩

/-- an object whose three cells are untouched is the same object with the same contents -/
theorem Born.of_cells {N : Nat} {h h' : Heap} {n : Nat} (hb : Born N h n) (hn : h.next ≤ h'.next) (e0 : h'.cell n = h.cell n)
    (e1 : h'.cell (cppOf h n) = h.cell (cppOf h n)) (e2 : h'.cell (varsOf h n) = h.cell (varsOf h n)) :
    Born N h' n ∧ obs h' n = obs h n ∧ cppOf h' n = cppOf h n ∧ varsOf h' n = varsOf h n := by
  obtain ⟨c, v, h1, h2, h3, h4, h5, h6, h7, h8, h9, h10⟩ := hb
  rw [cppOf_eq h1] at e1
  rw [varsOf_eq h1] at e2
  have e : h'.cell n = .cy c v := e0.trans h1
  refine ⟨⟨c, v, e, h2, by omega, h4, by omega, h6, by omega, h8, h9, h10⟩, ?_, ?_, ?_⟩
  · simp only [obs, cppOf_eq e, varsOf_eq e, cppOf_eq h1, varsOf_eq h1, coeffsAt_congr e1, labelsAt_congr e2]
  · rw [cppOf_eq e, cppOf_eq h1]
  · rw [varsOf_eq e, varsOf_eq h1]

/-- the shape shared by every copy-producing call: the result object is made of cells allocated by the call, no cell that existed
    before is written, and the result holds `expected` -/
def Produces (h : Heap) (r : Heap × Nat) (expected : List Rat × List Nat) : Prop :=
  h.next ≤ r.1.next ∧ Same h.next h r.1 ∧ Born h.next r.1 r.2 ∧ obs r.1 r.2 = expected

theorem produces_new (h : Heap) : Produces h (cyNew h) ([], []) := by
  obtain ⟨a, b, c, d⟩ := cyNew_spec h
  exact ⟨by omega, b, c, d⟩

theorem produces_copy {h : Heap} {d : Nat} (hd : Born 0 h d) : Produces h (cyCopy h d) (obs h d) := cyCopy_spec hd

theorem produces_then_mutate {h : Heap} {r : Heap × Nat} {e : List Rat × List Nat} (hp : Produces h r e)
    (f : List Rat → List Rat) (g : List Nat → List Nat) : Produces h (mutate r.1 r.2 f g, r.2) (f e.1, g e.2) := by
  obtain ⟨p1, p2, p3, p4⟩ := hp
  obtain ⟨m1, m2, m3, _⟩ := mutate_spec p3 f g
  exact ⟨p1, p2.trans m1, m2, by rw [m3, p4]⟩

/-- an older object seen after a producing call -/
theorem Produces.old {h : Heap} {r : Heap × Nat} {e : List Rat × List Nat} (hp : Produces h r e) {N : Nat} {x : Nat} (hx : Born N h x) :
    Born N r.1 x ∧ obs r.1 x = obs h x ∧ cppOf r.1 x = cppOf h x ∧ varsOf r.1 x = varsOf h x :=
  hx.transport hp.2.1 hp.1

theorem produces_then_update {h : Heap} {r : Heap × Nat} {e : List Rat × List Nat} (hp : Produces h r e) {src : Nat} (hs : Born 0 h src)
    (u : List Rat → List Rat → List Rat) (w : List Nat → List Nat → List Nat) :
    Produces h (update r.1 r.2 src u w, r.2) (u e.1 (obs h src).1, w e.2 (obs h src).2) := by
  rw [update_eq, (hp.old hs).2.1]
  exact produces_then_mutate hp _ _

/-- the result each call is specified to hold -/
def Call.expected (h : Heap) (d o : Nat) : Call → List Rat × List Nat
  | .copy => obs h d
  | .deepcopy => obs h d
  | .construct m => (m.u [] (obs h d).1, m.w [] (obs h d).2)
  | .fromBqm m => (m.u [] (obs h d).1, m.w [] (obs h d).2)
  | .pickle m => (m.u [] (obs h d).1, m.w [] (obs h d).2)
  | .inplaceFalse p => (p.f (obs h d).1, p.g (obs h d).2)
  | .arithNum p => (p.f (obs h d).1, p.g (obs h d).2)
  | .addModel m => (m.u (obs h d).1 (obs h o).1, m.w (obs h d).2 (obs h o).2)
  | .subModel m neg => (neg.f (m.u (neg.f (obs h d).1) (obs h o).1), neg.g (m.w (neg.g (obs h d).2) (obs h o).2))
  | .addPromote m1 m2 m => (m.u (m1.u [] (obs h d).1) (m2.u [] (obs h o).1), m.w (m1.w [] (obs h d).2) (m2.w [] (obs h o).2))
  | .mulModel m => (m.u (m.u [] (obs h d).1) (obs h o).1, m.w (m.w [] (obs h d).2) (obs h o).2)
  | .view => obs h d
  | .iadd m => (m.u (obs h d).1 (obs h o).1, m.w (obs h d).2 (obs h o).2)

theorem call_spec {h : Heap} {d o : Nat} (hd : Born 0 h d) (ho : Born 0 h o) (c : Call) (hc : c.producesCopy = true) :
    Produces h (c.run h d o) (c.expected h d o) := by
  cases c with
  | copy => exact produces_copy hd
  | deepcopy => exact produces_copy hd
  | construct m => exact produces_then_update (produces_new h) hd m.u m.w
  | fromBqm m => exact produces_then_update (produces_new h) hd m.u m.w
  | pickle m => exact produces_then_update (produces_new h) hd m.u m.w
  | inplaceFalse p => exact produces_then_mutate (produces_copy hd) p.f p.g
  | arithNum p => exact produces_then_mutate (produces_copy hd) p.f p.g
  | addModel m => exact produces_then_update (produces_copy hd) ho m.u m.w
  | subModel m neg =>
    have s1 := produces_then_mutate (produces_copy hd) neg.f neg.g
    have s2 := produces_then_update s1 ho m.u m.w
    exact produces_then_mutate s2 neg.f neg.g
  | mulModel m =>
    have s1 := produces_then_update (produces_new h) hd m.u m.w
    exact produces_then_update s1 ho m.u m.w
  | addPromote m1 m2 m =>
    -- qm = from_bqm(self)
    let h1 := update (cyNew h).1 (cyNew h).2 d m1.u m1.w
    let n := (cyNew h).2
    have s1 : Produces h (h1, n) _ := produces_then_update (produces_new h) hd m1.u m1.w
    obtain ⟨a1, a2, a3, a4⟩ := s1
    -- from_bqm(other), built after `qm`
    have ho1 := (Produces.old ⟨a1, a2, a3, a4⟩ ho)
    let h2 := update (cyNew h1).1 (cyNew h1).2 o m2.u m2.w
    let t := (cyNew h1).2
    have s2 : Produces h1 (h2, t) _ := produces_then_update (produces_new h1) (ho1.1.mono (Nat.zero_le _)) m2.u m2.w
    obtain ⟨b1, b2, b3, b4⟩ := s2
    -- `qm` as seen after that
    obtain ⟨c1, c2, _, _⟩ := Produces.old ⟨b1, b2, b3, b4⟩ a3
    -- qm += …
    obtain ⟨m1', m2', m3', _⟩ := mutate_spec c1 (fun c => m.u c (obs h2 t).1) (fun l => m.w l (obs h2 t).2)
    refine ⟨Nat.le_trans a1 b1, (a2.trans (b2.mono a1)).trans m1', m2', m3'.trans ?_⟩
    rw [c2, a4, b4, ho1.2.1]
    rfl
  | view => exact absurd hc (by simp [Call.producesCopy])
  | iadd m => exact absurd hc (by simp [Call.producesCopy])

/-- two objects with no cell in common -/
def Sep (h : Heap) (a b : Nat) : Prop :=
  Born 0 h a ∧ Born 0 h b ∧ a ≠ b ∧ a ≠ cppOf h b ∧ a ≠ varsOf h b ∧ cppOf h a ≠ b ∧ cppOf h a ≠ cppOf h b ∧ cppOf h a ≠ varsOf h b ∧
  varsOf h a ≠ b ∧ varsOf h a ≠ cppOf h b ∧ varsOf h a ≠ varsOf h b

theorem Sep.symm {h : Heap} {a b : Nat} (s : Sep h a b) : Sep h b a := by
  obtain ⟨s1, s2, s3, s4, s5, s6, s7, s8, s9, s10, s11⟩ := s
  exact ⟨s2, s1, s3.symm, s6.symm, s9.symm, s4.symm, s7.symm, s10.symm, s5.symm, s8.symm, s11.symm⟩

/-- the result of a copy-producing call shares no cell with any object that existed before the call -/
theorem sep_of_produces {h : Heap} {r : Heap × Nat} {e : List Rat × List Nat} (hp : Produces h r e) {x : Nat} (hx : Born 0 h x) :
    Sep r.1 x r.2 := by
  obtain ⟨x1, _, x3, x4⟩ := hp.old hx
  obtain ⟨_, _, p3, _⟩ := hp
  obtain ⟨c, v, k1, k2, k3, k4, k5, k6, k7, k8, k9, k10⟩ := p3
  obtain ⟨cx, vx, j1, _, j3, _, j5, _, j7, _, _, _⟩ := hx
  rw [cppOf_eq j1] at x3
  rw [varsOf_eq j1] at x4
  refine ⟨x1, ⟨c, v, k1, Nat.zero_le _, k3, Nat.zero_le _, k5, Nat.zero_le _, k7, k8, k9, k10⟩, ?_⟩
  rw [x3, x4, cppOf_eq k1, varsOf_eq k1]
  omega

/-- an in-place edit of one of two separate objects: they stay separate, the other object reads the same, the edited one reads
    the edit -/
theorem sep_mutate {h : Heap} {a b : Nat} (s : Sep h a b) (f : List Rat → List Rat) (g : List Nat → List Nat) :
    Sep (mutate h a f g) a b ∧ obs (mutate h a f g) b = obs h b ∧ obs (mutate h a f g) a = (f (obs h a).1, g (obs h a).2) := by
  obtain ⟨s1, s2, s3, s4, s5, s6, s7, s8, s9, s10, s11⟩ := s
  obtain ⟨_, m2, m3, m4⟩ := mutate_spec s1 f g
  obtain ⟨r1, r2⟩ := mutate_refs s1 f g
  obtain ⟨b1, b2, b3, b4⟩ := s2.of_cells (Nat.le_of_eq (mutate_next h a f g).symm) (m4 b s6.symm s9.symm) (m4 _ s7.symm s10.symm) (m4 _ s8.symm s11.symm)
  exact ⟨⟨m2, b1, s3, by rw [b3]; exact s4, by rw [b4]; exact s5, by rw [r1]; exact s6, by rw [r1, b3]; exact s7, by rw [r1, b4]; exact s8,
    by rw [r2]; exact s9, by rw [r2, b3]; exact s10, by rw [r2, b4]; exact s11⟩, b2, m3⟩

/-- **whole histories**: after any interleaving of in-place edits on two separate objects, each object reads exactly what its OWN edits
    make of its initial contents — no edit of one is ever visible through the other -/
theorem history_independent {h : Heap} {a b : Nat} (s : Sep h a b) (es : List (Bool × Edit)) :
    obs (runEdits h a b es) a = applyEdits (obs h a) ((es.filter (fun p => !p.1)).map (·.2)) ∧
    obs (runEdits h a b es) b = applyEdits (obs h b) ((es.filter (fun p => p.1)).map (·.2)) := by
  induction es generalizing h with
  | nil => exact ⟨rfl, rfl⟩
  | cons p t ih =>
    obtain ⟨side, e⟩ := p
    cases side with
    | false =>
      obtain ⟨s', o1, o2⟩ := sep_mutate s e.fg.f e.fg.g
      have := ih s'
      simp only [runEdits, Edit.run, Bool.false_eq_true, if_false, List.filter_cons, Bool.not_false, if_true, List.map_cons, applyEdits]
      rw [this.1, this.2, o1, o2]
      exact ⟨rfl, rfl⟩
    | true =>
      obtain ⟨s', o1, o2⟩ := sep_mutate s.symm e.fg.f e.fg.g
      have := ih s'.symm
      simp only [runEdits, Edit.run, if_true, List.filter_cons, Bool.not_true, Bool.false_eq_true, if_false, List.map_cons, applyEdits]
      rw [this.1, this.2, o1, o2]
      exact ⟨rfl, rfl⟩

/-- the shape of a CQM object: its cy cell, its C++ CQM cell -/
def CShape (h : Heap) (d q v l o : Nat) (cs : List Nat) : Prop :=
  h.cell d = .cycqm q v l ∧ h.cell q = .cqm o cs ∧ d < h.next ∧ q < h.next ∧ v < h.next ∧ l < h.next ∧
  d ≠ q ∧ d ≠ v ∧ d ≠ l ∧ q ≠ v ∧ q ≠ l ∧ v ≠ l

/-- the cells of `cyAddConstraintFromModel`'s result, in closed form -/
theorem cyAdd_cell {h : Heap} {d m q v l o : Nat} {cs : List Nat} (hm : Born 0 h m) (hd : CShape h d q v l o cs)
    (hdis : ∀ x ∈ [m, cppOf h m, varsOf h m], x ≠ d ∧ x ≠ q ∧ x ≠ v ∧ x ≠ l) (copy : Bool)
    (remap : List Rat → List Rat) (m' : Merge) (lab : List Nat → List Nat) (a : Nat) :
    (cyAddConstraintFromModel h d m copy remap m' lab).1.cell a =
      if a = l then .labels (lab (labelsAt h l)) else if a = q then .cqm o (cs ++ [h.next])
      else if a = varsOf h m ∧ copy = false then .labels [] else if a = cppOf h m ∧ copy = false then .coeffs []
      else if a = h.next then .coeffs (remap (coeffsAt h (cppOf h m)))
      else if a = v then .labels (m'.w (labelsAt h v) (labelsAt h (varsOf h m))) else h.cell a := by
  obtain ⟨cm, vm, k1, _, k3, _, k5, _, k7, k8, k9, k10⟩ := hm
  obtain ⟨d1, d2, d3, d4, d5, d6, d7, d8, d9, d10, d11, d12⟩ := hd
  rw [cppOf_eq k1, varsOf_eq k1] at hdis ⊢
  obtain ⟨a1, a2, a3, a4⟩ := hdis m (by simp)
  obtain ⟨b1, b2, b3, b4⟩ := hdis cm (by simp)
  obtain ⟨c1, c2, c3, c4⟩ := hdis vm (by simp)
  have n1 : d ≠ h.next := by omega
  have n2 : q ≠ h.next := by omega
  have n3 : v ≠ h.next := by omega
  have n4 : l ≠ h.next := by omega
  have n5 : m ≠ h.next := by omega
  have n6 : cm ≠ h.next := by omega
  have n7 : vm ≠ h.next := by omega
  have := d7.symm; have := d8.symm; have := d9.symm; have := d10.symm; have := d11.symm; have := d12.symm
  have := a1.symm; have := a2.symm; have := a3.symm; have := a4.symm
  have := b1.symm; have := b2.symm; have := b3.symm; have := b4.symm
  have := c1.symm; have := c2.symm; have := c3.symm; have := c4.symm
  have := k8.symm; have := k9.symm; have := k10.symm
  have := n1.symm; have := n2.symm; have := n3.symm; have := n4.symm; have := n5.symm; have := n6.symm; have := n7.symm
  cases copy
  · simp only [cyAddConstraintFromModel, setConstraints, clear, mutate, Bool.false_eq_true, if_false]
    simp [store_cell, alloc_cell, cppOf, varsOf, clabelsOf, objectiveOf, constraintsOf, coeffsAt, labelsAt, *]
    rfl
  · simp only [cyAddConstraintFromModel, setConstraints, if_true]
    simp [store_cell, alloc_cell, cppOf, varsOf, clabelsOf, objectiveOf, constraintsOf, coeffsAt, labelsAt, *]
    rfl

/-- adding a model to a CQM, as coded: the new constraint is a NEW cell holding the (re-indexed) contents of the model; the cells
    written are the CQM's own `Variables`, constraint vector and constraint labels — and, only without `copy`, the two cells of the
    source model, which is left empty (documented).  With `copy=True` the source model reads exactly as before. -/
theorem cyAdd_spec {h : Heap} {d m q v l o : Nat} {cs : List Nat} (hm : Born 0 h m) (hd : CShape h d q v l o cs)
    (hdis : ∀ x ∈ [m, cppOf h m, varsOf h m], x ≠ d ∧ x ≠ q ∧ x ≠ v ∧ x ≠ l) (copy : Bool)
    (remap : List Rat → List Rat) (m' : Merge) (lab : List Nat → List Nat) :
    (cyAddConstraintFromModel h d m copy remap m' lab).2 = h.next ∧
    coeffsAt (cyAddConstraintFromModel h d m copy remap m' lab).1 h.next = remap (obs h m).1 ∧
    constraintsOf (cyAddConstraintFromModel h d m copy remap m' lab).1 (cppOf (cyAddConstraintFromModel h d m copy remap m' lab).1 d) = cs ++ [h.next] ∧
    obs (cyAddConstraintFromModel h d m copy remap m' lab).1 m = (if copy then obs h m else ([], [])) ∧
    (∀ a, a < h.next → a ≠ v → a ≠ q → a ≠ l → (copy = false → a ≠ cppOf h m ∧ a ≠ varsOf h m) →
      (cyAddConstraintFromModel h d m copy remap m' lab).1.cell a = h.cell a) := by
  have hcell := cyAdd_cell hm hd hdis copy remap m' lab
  obtain ⟨cm, vm, k1, _, k3, _, k5, _, k7, k8, k9, k10⟩ := hm
  obtain ⟨d1, d2, d3, d4, d5, d6, d7, d8, d9, d10, d11, d12⟩ := hd
  rw [cppOf_eq k1, varsOf_eq k1] at hdis hcell ⊢
  obtain ⟨a1, a2, a3, a4⟩ := hdis m (by simp)
  obtain ⟨b1, b2, b3, b4⟩ := hdis cm (by simp)
  obtain ⟨c1, c2, c3, c4⟩ := hdis vm (by simp)
  have ed : (cyAddConstraintFromModel h d m copy remap m' lab).1.cell d = .cycqm q v l := by
    rw [hcell, if_neg d9, if_neg d7, if_neg (fun hh => c1 hh.1.symm), if_neg (fun hh => b1 hh.1.symm), if_neg (by omega), if_neg d8]; exact d1
  have em : (cyAddConstraintFromModel h d m copy remap m' lab).1.cell m = .cy cm vm := by
    rw [hcell, if_neg a4, if_neg a2, if_neg (fun hh => k9 hh.1.symm), if_neg (fun hh => k8 hh.1.symm), if_neg (by omega), if_neg a3]; exact k1
  refine ⟨rfl, ?_, ?_, ?_, ?_⟩
  · simp only [coeffsAt, hcell, obs, cppOf_eq k1]
    rw [if_neg (by omega), if_neg (by omega), if_neg (fun hh => by omega), if_neg (fun hh => by omega)]
    simp
  · have eq' : cppOf (cyAddConstraintFromModel h d m copy remap m' lab).1 d = q := by simp [cppOf, ed]
    rw [eq']
    simp only [constraintsOf, hcell]
    rw [if_neg d11]
    simp
  · simp only [obs, cppOf_eq em, varsOf_eq em, cppOf_eq k1, varsOf_eq k1, coeffsAt, labelsAt, hcell]
    cases copy
    · rw [if_neg b4, if_neg b2, if_neg (fun hh => k10 hh.1), if_pos ⟨trivial, rfl⟩, if_neg c4, if_neg c2, if_pos ⟨trivial, rfl⟩]; rfl
    · rw [if_neg b4, if_neg b2, if_neg (fun hh => by simp at hh), if_neg (fun hh => by simp at hh), if_neg (by omega), if_neg b3,
        if_neg c4, if_neg c2, if_neg (fun hh => by simp at hh), if_neg (fun hh => by simp at hh), if_neg (by omega), if_neg c3]; rfl
  · intro a ha hv hq hl hc
    rw [hcell, if_neg hl, if_neg hq, if_neg (fun hh => (hc hh.2).2 hh.1), if_neg (fun hh => (hc hh.2).1 hh.1), if_neg (by omega), if_neg hv]

/-- `set_objective(model)` as coded (array-backed model): the contents are *copied into* the CQM's own objective cell; the only other cell
    written is the CQM's `Variables`; the source model reads as before and shares nothing with the CQM -/
theorem setObjective_spec {h : Heap} {d m q v l o : Nat} {cs : List Nat} (hm : Born 0 h m) (hd : CShape h d q v l o cs)
    (hdis : ∀ x ∈ [m, cppOf h m, varsOf h m], x ≠ d ∧ x ≠ q ∧ x ≠ v ∧ x ≠ l ∧ x ≠ o) (ho : o ≠ d ∧ o ≠ q ∧ o ≠ v)
    (remap : List Rat → List Rat) (m' : Merge) :
    objectiveOf (setObjective h d m false remap m') (cppOf (setObjective h d m false remap m') d) = o ∧
    coeffsAt (setObjective h d m false remap m') o = remap (obs h m).1 ∧
    obs (setObjective h d m false remap m') m = obs h m ∧
    (∀ a, a ≠ o → a ≠ v → (setObjective h d m false remap m').cell a = h.cell a) := by
  obtain ⟨cm, vm, k1, _, k3, _, k5, _, k7, k8, k9, k10⟩ := hm
  obtain ⟨d1, d2, d3, d4, d5, d6, d7, d8, d9, d10, d11, d12⟩ := hd
  rw [cppOf_eq k1, varsOf_eq k1] at hdis
  obtain ⟨a1, a2, a3, a4, a5⟩ := hdis m (by simp)
  obtain ⟨b1, b2, b3, b4, b5⟩ := hdis cm (by simp)
  obtain ⟨c1, c2, c3, c4, c5⟩ := hdis vm (by simp)
  obtain ⟨o1, o2, o3⟩ := ho
  have := d7.symm; have := d8.symm; have := d10.symm
  have := a1.symm; have := a2.symm; have := a3.symm; have := a5.symm
  have := b1.symm; have := b2.symm; have := b3.symm; have := b5.symm
  have := c1.symm; have := c2.symm; have := c3.symm; have := c5.symm
  have := o1.symm; have := o2.symm; have := o3.symm
  have := k8.symm; have := k9.symm; have := k10.symm
  have hcell : ∀ a, (setObjective h d m false remap m').cell a =
      if a = o then .coeffs (remap (coeffsAt h cm)) else if a = v then .labels (m'.w (labelsAt h v) (labelsAt h vm)) else h.cell a := by
    intro a
    simp only [setObjective, Bool.false_eq_true, if_false]
    simp [store_cell, cppOf, varsOf, objectiveOf, coeffsAt, labelsAt, *]
  have ed : (setObjective h d m false remap m').cell d = .cycqm q v l := by rw [hcell, if_neg o1.symm, if_neg d8]; exact d1
  have eq' : (setObjective h d m false remap m').cell q = .cqm o cs := by rw [hcell, if_neg o2.symm, if_neg d10]; exact d2
  have em : (setObjective h d m false remap m').cell m = .cy cm vm := by rw [hcell, if_neg a5, if_neg a3]; exact k1
  refine ⟨by simp [cppOf, objectiveOf, ed, eq'], ?_, ?_, fun a h1 h2 => by rw [hcell, if_neg h1, if_neg h2]⟩
  · simp [coeffsAt, hcell, obs, cppOf, k1]
  · simp only [obs, cppOf_eq em, varsOf_eq em, cppOf_eq k1, varsOf_eq k1, coeffsAt, labelsAt, hcell]
    rw [if_neg b5, if_neg b3, if_neg c5, if_neg c3]


/-- any history of in-place edits of a model writes only the model's own two cells: every other cell of the heap — every cell of a CQM
    the model was added to in particular — is the same afterwards -/
theorem edits_write_own_cells {h : Heap} {m : Nat} (hm : Born 0 h m) (es : List Edit) (a : Nat) (h1 : a ≠ cppOf h m) (h2 : a ≠ varsOf h m) :
    (es.foldl (fun acc e => e.run acc m) h).cell a = h.cell a := by
  induction es generalizing h with
  | nil => rfl
  | cons e t ih =>
    obtain ⟨_, m2, _, m4⟩ := mutate_spec hm e.fg.f e.fg.g
    obtain ⟨r1, r2⟩ := mutate_refs hm e.fg.f e.fg.g
    simp only [List.foldl_cons]
    exact (ih m2 (by rw [r1]; exact h1) (by rw [r2]; exact h2)).trans (m4 a h1 h2)

theorem copyCells_spec (k : List Rat → List Rat) : ∀ (cs : List Nat) (h : Heap), (∀ a ∈ cs, a < h.next) →
    (copyCells k h cs).1.next = h.next + cs.length ∧
    (copyCells k h cs).2 = List.range' h.next cs.length ∧
    Same h.next h (copyCells k h cs).1 ∧
    (∀ i, i < cs.length → (copyCells k h cs).1.cell (h.next + i) = .coeffs (k (coeffsAt h (cs.getD i 0)))) := by
  intro cs
  induction cs with
  | nil => intro h _; exact ⟨rfl, rfl, Same.refl _ _, fun i hi => absurd hi (Nat.not_lt_zero i)⟩
  | cons a t ih =>
    intro h hlt
    have hx : ∀ b ∈ t, b < (alloc h (.coeffs (k (coeffsAt h a)))).1.next := fun b hb => by
      have := hlt b (List.mem_cons_of_mem _ hb); simp only [alloc_next]; omega
    obtain ⟨i1, i2, i3, i4⟩ := ih (alloc h (.coeffs (k (coeffsAt h a)))).1 hx
    simp only [alloc_next] at i1 i2 i3 i4
    refine ⟨?_, ?_, ?_, ?_⟩
    · show (copyCells k (alloc h _).1 t).1.next = _
      rw [i1, List.length_cons]; omega
    · show h.next :: (copyCells k (alloc h _).1 t).2 = _
      rw [i2, List.length_cons, List.range'_succ]
    · exact (same_alloc h _).trans (i3.mono (Nat.le_succ _))
    · intro i hi
      show (copyCells k (alloc h _).1 t).1.cell (h.next + i) = _
      cases i with
      | zero =>
        rw [Nat.add_zero, i3 h.next (Nat.lt_succ_self _), alloc_cell_new]; rfl
      | succ j =>
        have hj : j < t.length := by simpa using hi
        have := i4 j hj
        rw [show h.next + (j + 1) = h.next + 1 + j by omega, this]
        have hmem : t.getD j 0 ∈ t := by
          simp only [List.getD_eq_getElem?_getD, List.getElem?_eq_getElem hj, Option.getD_some]; exact List.getElem_mem hj
        have hlt' := hlt _ (List.mem_cons_of_mem _ hmem)
        rw [coeffsAt_congr (alloc_cell_old h _ _ hlt')]
        simp


/-- a CQM object and the bounds of its cells -/
def CWf (h : Heap) (d q v l o : Nat) (cs : List Nat) : Prop :=
  h.cell d = .cycqm q v l ∧ h.cell q = .cqm o cs ∧ d < h.next ∧ q < h.next ∧ v < h.next ∧ l < h.next ∧ o < h.next ∧ ∀ c ∈ cs, c < h.next

theorem cqmNew_cell (h : Heap) (a : Nat) : (cqmNew h).1.cell a =
    if a = h.next + 4 then .cycqm (h.next + 1) (h.next + 3) (h.next + 2) else if a = h.next + 3 then .labels []
    else if a = h.next + 2 then .labels [] else if a = h.next + 1 then .cqm h.next [] else if a = h.next then .coeffs [] else h.cell a := rfl

theorem cqmRebuild_cells {h : Heap} {d q v l o : Nat} {cs : List Nat} (hd : CWf h d q v l o cs)
    (ko kc : List Rat → List Rat) (gv gl : List Nat → List Nat) :
    Same h.next h (cqmRebuild h d ko kc gv gl).1 ∧ (cqmRebuild h d ko kc gv gl).2 = h.next + 4 ∧
    (cqmRebuild h d ko kc gv gl).1.cell (h.next + 4) = .cycqm (h.next + 1) (h.next + 7 + cs.length) (h.next + 6 + cs.length) ∧
    (cqmRebuild h d ko kc gv gl).1.cell (h.next + 1) = .cqm (h.next + 5) (List.range' (h.next + 6) cs.length) ∧
    (cqmRebuild h d ko kc gv gl).1.cell (h.next + 5) = .coeffs (ko (coeffsAt h o)) ∧
    (∀ i, i < cs.length → (cqmRebuild h d ko kc gv gl).1.cell (h.next + 6 + i) = .coeffs (kc (coeffsAt h (cs.getD i 0)))) ∧
    (cqmRebuild h d ko kc gv gl).1.cell (h.next + 6 + cs.length) = .labels (gl (labelsAt h l)) ∧
    (cqmRebuild h d ko kc gv gl).1.cell (h.next + 7 + cs.length) = .labels (gv (labelsAt h v)) := by
  obtain ⟨d1, d2, d3, d4, d5, d6, d7, d8⟩ := hd
  -- stage A: the new (empty) CQM object
  have hA : ∀ a, a < h.next → (cqmNew h).1.cell a = h.cell a := fun a ha => by
    rw [cqmNew_cell, if_neg (by omega), if_neg (by omega), if_neg (by omega), if_neg (by omega), if_neg (by omega)]
  have hAn : (cqmNew h).1.next = h.next + 5 := rfl
  have hA2 : (cqmNew h).2 = h.next + 4 := rfl
  have eA1 : cppOf (cqmNew h).1 d = q := by simp [cppOf, hA d d3, d1]
  have eA2 : objectiveOf (cqmNew h).1 q = o := by simp [objectiveOf, hA q d4, d2]
  have eA3 : coeffsAt (cqmNew h).1 o = coeffsAt h o := coeffsAt_congr (hA o d7)
  simp only [cqmRebuild, hA2, eA1, eA2, eA3]
  -- stage O: the new objective
  generalize hOeq : alloc (cqmNew h).1 (.coeffs (ko (coeffsAt h o))) = O
  have hOn : O.1.next = h.next + 6 := by rw [← hOeq]; rfl
  have hO2 : O.2 = h.next + 5 := by rw [← hOeq]; rfl
  have hOnew : O.1.cell (h.next + 5) = .coeffs (ko (coeffsAt h o)) := by rw [← hOeq]; exact alloc_cell_new _ _
  have hOA : ∀ a, a < h.next + 5 → O.1.cell a = (cqmNew h).1.cell a := fun a ha => by rw [← hOeq]; exact alloc_cell_old _ _ _ (by omega)
  have hO : ∀ a, a < h.next → O.1.cell a = h.cell a := fun a ha => (hOA a (by omega)).trans (hA a ha)
  have eO1 : cppOf O.1 d = q := by simp [cppOf, hO d d3, d1]
  have eO2 : constraintsOf O.1 q = cs := by simp [constraintsOf, hO q d4, d2]
  simp only [eO1, eO2, hO2]
  -- stage CS: the new constraints
  obtain ⟨c1, c2, c3, c4⟩ := copyCells_spec kc cs O.1 (fun c hc => by have := d8 c hc; omega)
  rw [hOn] at c1 c2 c3 c4
  generalize copyCells kc O.1 cs = CS at *
  have eC1 : cppOf CS.1 (h.next + 4) = h.next + 1 := by
    have : CS.1.cell (h.next + 4) = .cycqm (h.next + 1) (h.next + 3) (h.next + 2) := by
      rw [c3 _ (by omega), hOA _ (by omega), cqmNew_cell, if_pos rfl]
    simp [cppOf, this]
  simp only [eC1, c2]
  -- stage H1: the vector is assigned
  generalize hH1eq : store CS.1 (h.next + 1) (.cqm (h.next + 5) (List.range' (h.next + 6) cs.length)) = H1
  have hH1cell : ∀ a, H1.cell a = if a = h.next + 1 then .cqm (h.next + 5) (List.range' (h.next + 6) cs.length) else CS.1.cell a := fun a => by
    rw [← hH1eq]; exact store_cell _ _ _ _
  have hH1n : H1.next = h.next + 6 + cs.length := by rw [← hH1eq]; exact c1
  have hH1 : ∀ a, a < h.next → H1.cell a = h.cell a := fun a ha => by
    rw [hH1cell, if_neg (by omega), c3 a (by omega)]; exact hO a ha
  have eH1 : clabelsOf H1 d = l := by simp [clabelsOf, hH1 d d3, d1]
  have eH2 : labelsAt H1 l = labelsAt h l := labelsAt_congr (hH1 l d6)
  simp only [eH1, eH2]
  -- stage L: the constraint labels
  generalize hLeq : alloc H1 (.labels (gl (labelsAt h l))) = L
  have hLcell : ∀ a, L.1.cell a = if a = h.next + 6 + cs.length then .labels (gl (labelsAt h l)) else H1.cell a := fun a => by
    rw [← hLeq, alloc_cell, hH1n]
  have hLn : L.1.next = h.next + 7 + cs.length := by rw [← hLeq]; show H1.next + 1 = _; omega
  have hL2 : L.2 = h.next + 6 + cs.length := by rw [← hLeq]; exact hH1n
  have hL : ∀ a, a < h.next → L.1.cell a = h.cell a := fun a ha => by rw [hLcell, if_neg (by omega)]; exact hH1 a ha
  have eL1 : varsOf L.1 d = v := by simp [varsOf, hL d d3, d1]
  have eL2 : labelsAt L.1 v = labelsAt h v := labelsAt_congr (hL v d5)
  simp only [eL1, eL2, hL2]
  -- stage V: the variables
  generalize hVeq : alloc L.1 (.labels (gv (labelsAt h v))) = V
  have hVcell : ∀ a, V.1.cell a = if a = h.next + 7 + cs.length then .labels (gv (labelsAt h v)) else L.1.cell a := fun a => by
    rw [← hVeq, alloc_cell, hLn]
  have hV2 : V.2 = h.next + 7 + cs.length := by rw [← hVeq]; exact hLn
  have hCy : V.1.cell (h.next + 4) = .cycqm (h.next + 1) (h.next + 3) (h.next + 2) := by
    rw [hVcell, if_neg (by omega), hLcell, if_neg (by omega), hH1cell, if_neg (by omega), c3 _ (by omega), hOA _ (by omega), cqmNew_cell, if_pos rfl]
  have eV1 : cppOf V.1 (h.next + 4) = h.next + 1 := by simp [cppOf, hCy]
  simp only [eV1, hV2]
  -- the final heap, cell by cell
  have hF : ∀ a, (store V.1 (h.next + 4) (.cycqm (h.next + 1) (h.next + 7 + cs.length) (h.next + 6 + cs.length))).cell a =
      if a = h.next + 4 then .cycqm (h.next + 1) (h.next + 7 + cs.length) (h.next + 6 + cs.length)
      else if a = h.next + 7 + cs.length then .labels (gv (labelsAt h v))
      else if a = h.next + 6 + cs.length then .labels (gl (labelsAt h l))
      else if a = h.next + 1 then .cqm (h.next + 5) (List.range' (h.next + 6) cs.length) else CS.1.cell a := fun a => by
    rw [store_cell, hVcell, hLcell, hH1cell]
  refine ⟨fun a ha => ?_, trivial, ?_, ?_, ?_, fun i hi => ?_, ?_, ?_⟩
  · rw [hF, if_neg (by omega), if_neg (by omega), if_neg (by omega), if_neg (by omega), c3 a (by omega)]; exact hO a ha
  · rw [hF, if_pos rfl]
  · rw [hF, if_neg (by omega), if_neg (by omega), if_neg (by omega), if_pos rfl]
  · rw [hF, if_neg (by omega), if_neg (by omega), if_neg (by omega), if_neg (by omega), c3 _ (by omega)]; exact hOnew
  · rw [hF, if_neg (by omega), if_neg (by omega), if_neg (by omega), if_neg (by omega), c4 i hi]
    have hmem : cs.getD i 0 ∈ cs := by
      simp only [List.getD_eq_getElem?_getD, List.getElem?_eq_getElem hi, Option.getD_some]; exact List.getElem_mem hi
    rw [coeffsAt_congr (hO _ (d8 _ hmem))]
  · rw [hF, if_neg (by omega), if_neg (by omega), if_pos rfl]
  · rw [hF, if_neg (by omega), if_pos rfl]


theorem cqmRebuild_next {h : Heap} {d q v l o : Nat} {cs : List Nat} (hd : CWf h d q v l o cs)
    (ko kc : List Rat → List Rat) (gv gl : List Nat → List Nat) : (cqmRebuild h d ko kc gv gl).1.next = h.next + 8 + cs.length := by
  obtain ⟨d1, d2, d3, d4, _, _, _, d8⟩ := hd
  have hA : ∀ a, a < h.next → (cqmNew h).1.cell a = h.cell a := fun a ha => by
    rw [cqmNew_cell, if_neg (by omega), if_neg (by omega), if_neg (by omega), if_neg (by omega), if_neg (by omega)]
  have hAn : (cqmNew h).1.next = h.next + 5 := rfl
  have hcs : ∀ X, constraintsOf (alloc (cqmNew h).1 X).1 (cppOf (alloc (cqmNew h).1 X).1 d) = cs := fun X => by
    have e1 : (alloc (cqmNew h).1 X).1.cell d = h.cell d := (alloc_cell_old _ _ _ (by omega)).trans (hA d d3)
    have e2 : (alloc (cqmNew h).1 X).1.cell q = h.cell q := (alloc_cell_old _ _ _ (by omega)).trans (hA q d4)
    simp [constraintsOf, cppOf, e1, e2, d1, d2]
  simp only [cqmRebuild, store_next, alloc_next, hcs]
  rw [(copyCells_spec kc cs _ (fun c hc => by have := d8 c hc; simp only [alloc_next, hAn]; omega)).1]
  simp only [alloc_next, hAn]
  omega

/-- the cells of a CQM object -/
def cfp (h : Heap) (d : Nat) : List Nat :=
  d :: cppOf h d :: varsOf h d :: clabelsOf h d :: objectiveOf h (cppOf h d) :: constraintsOf h (cppOf h d)

/-- a CQM built from another (`copy.deepcopy`, `fix_variables(inplace=False)`): no existing cell is written, every cell of the result —
    the cy object, the C++ CQM, the objective, EVERY constraint, both `Variables` — was allocated by the call, the result holds the
    transformed contents constraint by constraint, and the receiver reads as before -/
theorem cqmRebuild_spec {h : Heap} {d q v l o : Nat} {cs : List Nat} (hd : CWf h d q v l o cs)
    (ko kc : List Rat → List Rat) (gv gl : List Nat → List Nat) :
    Same h.next h (cqmRebuild h d ko kc gv gl).1 ∧
    (∀ a ∈ cfp (cqmRebuild h d ko kc gv gl).1 (cqmRebuild h d ko kc gv gl).2, h.next ≤ a) ∧
    cobs (cqmRebuild h d ko kc gv gl).1 (cqmRebuild h d ko kc gv gl).2 =
      (ko (coeffsAt h o), cs.map (fun c => kc (coeffsAt h c)), gv (labelsAt h v), gl (labelsAt h l)) ∧
    cobs (cqmRebuild h d ko kc gv gl).1 d = cobs h d := by
  obtain ⟨s1, s2, s3, s4, s5, s6, s7, s8⟩ := cqmRebuild_cells hd ko kc gv gl
  obtain ⟨d1, d2, d3, d4, d5, d6, d7, d8⟩ := hd
  generalize cqmRebuild h d ko kc gv gl = r at *
  rw [s2]
  have e1 : cppOf r.1 (h.next + 4) = h.next + 1 := by simp [cppOf, s3]
  have e2 : varsOf r.1 (h.next + 4) = h.next + 7 + cs.length := by simp [varsOf, s3]
  have e3 : clabelsOf r.1 (h.next + 4) = h.next + 6 + cs.length := by simp [clabelsOf, s3]
  have e4 : objectiveOf r.1 (h.next + 1) = h.next + 5 := by simp [objectiveOf, s4]
  have e5 : constraintsOf r.1 (h.next + 1) = List.range' (h.next + 6) cs.length := by simp [constraintsOf, s4]
  refine ⟨s1, ?_, ?_, ?_⟩
  · intro a ha
    simp only [cfp, e1, e2, e3, e4, e5, List.mem_cons, List.mem_range'_1] at ha
    omega
  · simp only [cobs, e1, e2, e3, e4, e5]
    have m1 : coeffsAt r.1 (h.next + 5) = ko (coeffsAt h o) := by simp [coeffsAt, s5]
    have m2 : labelsAt r.1 (h.next + 7 + cs.length) = gv (labelsAt h v) := by simp [labelsAt, s8]
    have m3 : labelsAt r.1 (h.next + 6 + cs.length) = gl (labelsAt h l) := by simp [labelsAt, s7]
    rw [m1, m2, m3]
    congr 2
    apply List.ext_getElem
    · simp
    · intro i h1 h2
      have hi : i < cs.length := by simpa using h2
      simp only [List.getElem_map, List.getElem_range', Nat.one_mul]
      have := s6 i hi
      simp only [coeffsAt, this]
      simp [List.getD_eq_getElem?_getD, List.getElem?_eq_getElem hi]
  · have c0 : r.1.cell d = h.cell d := s1 d d3
    have cq : r.1.cell q = h.cell q := s1 q d4
    have eq1 : cppOf r.1 d = q := by simp [cppOf, c0, d1]
    have eq2 : cppOf h d = q := by simp [cppOf, d1]
    have eq3 : varsOf r.1 d = v := by simp [varsOf, c0, d1]
    have eq4 : varsOf h d = v := by simp [varsOf, d1]
    have eq5 : clabelsOf r.1 d = l := by simp [clabelsOf, c0, d1]
    have eq6 : clabelsOf h d = l := by simp [clabelsOf, d1]
    have eq7 : objectiveOf r.1 q = o := by simp [objectiveOf, cq, d2]
    have eq8 : objectiveOf h q = o := by simp [objectiveOf, d2]
    have eq9 : constraintsOf r.1 q = cs := by simp [constraintsOf, cq, d2]
    have eq10 : constraintsOf h q = cs := by simp [constraintsOf, d2]
    simp only [cobs, eq1, eq2, eq3, eq4, eq5, eq6, eq7, eq8, eq9, eq10, coeffsAt_congr (s1 o d7), labelsAt_congr (s1 v d5), labelsAt_congr (s1 l d6)]
    congr 2
    apply List.map_congr_left
    intro c hc
    exact coeffsAt_congr (s1 c (d8 c hc))


/-- a well-formed CQM object: shape, bounds, and no cell used twice -/
def CGood (h : Heap) (d : Nat) : Prop := ∃ q v l o cs, CWf h d q v l o cs ∧ (d :: q :: v :: l :: o :: cs).Nodup

theorem cfp_eq {h : Heap} {d q v l o : Nat} {cs : List Nat} (hd : CWf h d q v l o cs) : cfp h d = d :: q :: v :: l :: o :: cs := by
  obtain ⟨d1, d2, _⟩ := hd
  simp [cfp, cppOf, varsOf, clabelsOf, objectiveOf, constraintsOf, d1, d2]

/-- one in-place edit of a CQM: it writes only cells of the CQM's own footprint or cells it allocates; the footprint grows by
    allocated cells only; the object stays well-formed -/
theorem cedit_step {h : Heap} {d : Nat} (hg : CGood h d) (e : CEdit) :
    h.next ≤ (e.run h d).next ∧ CGood (e.run h d) d ∧
    (∀ a, a < h.next → a ∉ cfp h d → (e.run h d).cell a = h.cell a) ∧
    (∀ a ∈ cfp (e.run h d) d, a ∈ cfp h d ∨ a = h.next) := by
  obtain ⟨q, v, l, o, cs, hw, hn⟩ := hg
  have hfp := cfp_eq hw
  obtain ⟨d1, d2, d3, d4, d5, d6, d7, d8⟩ := hw
  simp only [List.nodup_cons, List.mem_cons, not_or] at hn
  obtain ⟨⟨n1, n2, n3, n4, n5⟩, ⟨n6, n7, n8, n9⟩, ⟨n10, n11, n12⟩, ⟨n13, n14⟩, n15, n16⟩ := hn
  have eq1 : cppOf h d = q := by simp [cppOf, d1]
  have eq2 : varsOf h d = v := by simp [varsOf, d1]
  have eq3 : clabelsOf h d = l := by simp [clabelsOf, d1]
  have eq4 : objectiveOf h q = o := by simp [objectiveOf, d2]
  have eq5 : constraintsOf h q = cs := by simp [constraintsOf, d2]
  -- a store into a cell other than `d` and `q` keeps the shape
  have keep : ∀ (x : Nat) (c : Cell), x ≠ d → x ≠ q → x < h.next →
      CWf (store h x c) d q v l o cs := fun x c h1 h2 h3 =>
    ⟨by rw [store_cell_other _ _ _ _ (Ne.symm h1)]; exact d1, by rw [store_cell_other _ _ _ _ (Ne.symm h2)]; exact d2, d3, d4, d5, d6, d7, d8⟩
  have nd : (d :: q :: v :: l :: o :: cs).Nodup := by
    simp only [List.nodup_cons, List.mem_cons, not_or]
    exact ⟨⟨n1, n2, n3, n4, n5⟩, ⟨n6, n7, n8, n9⟩, ⟨n10, n11, n12⟩, ⟨n13, n14⟩, n15, n16⟩
  have same_fp : ∀ (x : Nat) (c : Cell), x ≠ d → x ≠ q → x < h.next → x ∈ cfp h d →
      h.next ≤ (store h x c).next ∧ CGood (store h x c) d ∧
      (∀ a, a < h.next → a ∉ cfp h d → (store h x c).cell a = h.cell a) ∧
      (∀ a ∈ cfp (store h x c) d, a ∈ cfp h d ∨ a = h.next) := fun x c h1 h2 h3 h4 => by
    have hw' := keep x c h1 h2 h3
    refine ⟨Nat.le_refl _, ⟨q, v, l, o, cs, hw', nd⟩, fun a _ ha => store_cell_other _ _ _ _ (fun e => ha (e ▸ h4)), fun a ha => ?_⟩
    rw [cfp_eq hw'] at ha; rw [hfp]; exact Or.inl ha
  cases e with
  | objective f =>
    simp only [CEdit.run, eq1, eq4]
    exact same_fp o _ (Ne.symm n4) (Ne.symm n8) d7 (by rw [hfp]; simp)
  | vars g =>
    simp only [CEdit.run, eq2]
    exact same_fp v _ (Ne.symm n2) (Ne.symm n6) d5 (by rw [hfp]; simp)
  | clabels g =>
    simp only [CEdit.run, eq3]
    exact same_fp l _ (Ne.symm n3) (Ne.symm n7) d6 (by rw [hfp]; simp)
  | constraint k f =>
    simp only [CEdit.run, eq1, eq5]
    cases hk : cs[k]? with
    | none =>
      simp only
      refine ⟨Nat.le_refl _, ⟨q, v, l, o, cs, ⟨d1, d2, d3, d4, d5, d6, d7, d8⟩, nd⟩, fun _ _ _ => trivial, fun a ha => Or.inl ha⟩
    | some c =>
      simp only
      have hc : c ∈ cs := List.mem_of_getElem? hk
      exact same_fp c _ (fun e => n5 (e ▸ hc)) (fun e => n9 (e ▸ hc)) (d8 c hc) (by rw [hfp]; simp [hc])
  | removeConstraint k =>
    simp only [CEdit.run, setConstraints, eq1, eq4, eq5]
    have hw' : CWf (store h q (.cqm o (cs.eraseIdx k))) d q v l o (cs.eraseIdx k) :=
      ⟨by rw [store_cell_other _ _ _ _ n1]; exact d1, store_cell_same _ _ _, d3, d4, d5, d6, d7,
        fun c hc => d8 c ((List.eraseIdx_sublist cs k).subset hc)⟩
    have sub : (d :: q :: v :: l :: o :: cs.eraseIdx k).Sublist (d :: q :: v :: l :: o :: cs) := by
      repeat apply List.Sublist.cons₂
      exact List.eraseIdx_sublist cs k
    refine ⟨Nat.le_refl _, ⟨q, v, l, o, _, hw', nd.sublist sub⟩,
      fun a _ ha => store_cell_other _ _ _ _ (fun e => ha (by rw [hfp, e]; simp)), fun a ha => ?_⟩
    rw [cfp_eq hw'] at ha; rw [hfp]; exact Or.inl (sub.subset ha)
  | addConstraint c g =>
    simp only [CEdit.run, setConstraints]
    have hx : ∀ a, a < h.next → (alloc h (.coeffs c)).1.cell a = h.cell a := fun a ha => alloc_cell_old _ _ _ ha
    have e1 : cppOf (alloc h (.coeffs c)).1 d = q := by simp [cppOf, hx d d3, d1]
    have e4 : objectiveOf (alloc h (.coeffs c)).1 q = o := by simp [objectiveOf, hx q d4, d2]
    have e5 : constraintsOf (alloc h (.coeffs c)).1 q = cs := by simp [constraintsOf, hx q d4, d2]
    simp only [e1, e4, e5, alloc_addr]
    have e3 : clabelsOf (store (alloc h (.coeffs c)).1 q (.cqm o (cs ++ [h.next]))) d = l := by
      simp [clabelsOf, store_cell_other _ _ _ _ n1, hx d d3, d1]
    simp only [e3]
    generalize hL : Cell.labels _ = L
    have hcell : ∀ a, (store (store (alloc h (.coeffs c)).1 q (.cqm o (cs ++ [h.next]))) l L).cell a =
        if a = l then L else if a = q then .cqm o (cs ++ [h.next]) else if a = h.next then .coeffs c else h.cell a := fun a => by
      rw [store_cell, store_cell, alloc_cell]
    have hw' : CWf (store (store (alloc h (.coeffs c)).1 q (.cqm o (cs ++ [h.next]))) l L) d q v l o (cs ++ [h.next]) := by
      refine ⟨?_, ?_, ?_, ?_, ?_, ?_, ?_, ?_⟩
      · rw [hcell, if_neg n3, if_neg n1, if_neg (by omega)]; exact d1
      · rw [hcell, if_neg n7, if_pos rfl]
      all_goals first
        | (show _ < h.next + 1; omega)
        | (intro x hx'; show _ < h.next + 1; rcases List.mem_append.mp hx' with hh | hh
           · have := d8 x hh; omega
           · simp at hh; omega)
    have hlt : ∀ a ∈ d :: q :: v :: l :: o :: cs, a < h.next := by
      intro a ha
      simp only [List.mem_cons] at ha
      rcases ha with h1 | h1 | h1 | h1 | h1 | h1
      · rw [h1]; exact d3
      · rw [h1]; exact d4
      · rw [h1]; exact d5
      · rw [h1]; exact d6
      · rw [h1]; exact d7
      · exact d8 a h1
    have nd' : (d :: q :: v :: l :: o :: (cs ++ [h.next])).Nodup := by
      show ((d :: q :: v :: l :: o :: cs) ++ [h.next]).Nodup
      rw [List.nodup_append]
      exact ⟨nd, by simp, fun a ha b hb => by simp at hb; subst hb; exact Nat.ne_of_lt (hlt a ha)⟩
    refine ⟨by show h.next ≤ h.next + 1; omega, ⟨q, v, l, o, _, hw', nd'⟩, fun a ha hna => ?_, fun a ha => ?_⟩
    · rw [hfp] at hna
      simp only [List.mem_cons, not_or] at hna
      rw [hcell, if_neg hna.2.2.2.1, if_neg hna.2.1, if_neg (by omega)]
    · rw [cfp_eq hw'] at ha; rw [hfp]
      simp only [List.mem_cons, List.mem_append, List.mem_singleton] at ha ⊢
      rcases ha with h1 | h1 | h1 | h1 | h1 | h1 | h1
      · exact Or.inl (Or.inl h1)
      · exact Or.inl (Or.inr (Or.inl h1))
      · exact Or.inl (Or.inr (Or.inr (Or.inl h1)))
      · exact Or.inl (Or.inr (Or.inr (Or.inr (Or.inl h1))))
      · exact Or.inl (Or.inr (Or.inr (Or.inr (Or.inr (Or.inl h1)))))
      · exact Or.inl (Or.inr (Or.inr (Or.inr (Or.inr (Or.inr h1)))))
      · exact Or.inr (by simpa using h1)


theorem cfp_lt {h : Heap} {d : Nat} (hg : CGood h d) : ∀ x ∈ cfp h d, x < h.next := by
  obtain ⟨q, v, l, o, cs, hw, _⟩ := hg
  rw [cfp_eq hw]
  obtain ⟨_, _, d3, d4, d5, d6, d7, d8⟩ := hw
  intro a ha
  simp only [List.mem_cons] at ha
  rcases ha with h1 | h1 | h1 | h1 | h1 | h1
  · rw [h1]; exact d3
  · rw [h1]; exact d4
  · rw [h1]; exact d5
  · rw [h1]; exact d6
  · rw [h1]; exact d7
  · exact d8 a h1

/-- a CQM none of whose cells is written is the same object with the same contents -/
theorem CGood.of_cells {h h' : Heap} {d : Nat} (hg : CGood h d) (hn : h.next ≤ h'.next) (hc : ∀ x ∈ cfp h d, h'.cell x = h.cell x) :
    CGood h' d ∧ cfp h' d = cfp h d ∧ cobs h' d = cobs h d := by
  obtain ⟨q, v, l, o, cs, hw, nd⟩ := hg
  have hfp := cfp_eq hw
  rw [hfp] at hc
  obtain ⟨d1, d2, d3, d4, d5, d6, d7, d8⟩ := hw
  have c0 : h'.cell d = h.cell d := hc d (by simp)
  have cq : h'.cell q = h.cell q := hc q (by simp)
  have hw' : CWf h' d q v l o cs := ⟨c0.trans d1, cq.trans d2, by omega, by omega, by omega, by omega, by omega, fun c hcc => by have := d8 c hcc; omega⟩
  refine ⟨⟨q, v, l, o, cs, hw', nd⟩, by rw [cfp_eq hw', hfp], ?_⟩
  have eq1 : cppOf h' d = q := by simp [cppOf, c0, d1]
  have eq2 : cppOf h d = q := by simp [cppOf, d1]
  have eq3 : varsOf h' d = v := by simp [varsOf, c0, d1]
  have eq4 : varsOf h d = v := by simp [varsOf, d1]
  have eq5 : clabelsOf h' d = l := by simp [clabelsOf, c0, d1]
  have eq6 : clabelsOf h d = l := by simp [clabelsOf, d1]
  have eq7 : objectiveOf h' q = o := by simp [objectiveOf, cq, d2]
  have eq8 : objectiveOf h q = o := by simp [objectiveOf, d2]
  have eq9 : constraintsOf h' q = cs := by simp [constraintsOf, cq, d2]
  have eq10 : constraintsOf h q = cs := by simp [constraintsOf, d2]
  simp only [cobs, eq1, eq2, eq3, eq4, eq5, eq6, eq7, eq8, eq9, eq10, coeffsAt_congr (hc o (by simp)), labelsAt_congr (hc v (by simp)),
    labelsAt_congr (hc l (by simp))]
  congr 2
  apply List.map_congr_left
  intro c hcc
  exact coeffsAt_congr (hc c (by simp [hcc]))

/-- two CQM objects with no cell in common -/
def CSep (h : Heap) (a b : Nat) : Prop := CGood h a ∧ CGood h b ∧ ∀ x ∈ cfp h a, x ∉ cfp h b

theorem CSep.symm {h : Heap} {a b : Nat} (s : CSep h a b) : CSep h b a := ⟨s.2.1, s.1, fun x hx hxa => s.2.2 x hxa hx⟩

/-- an in-place edit of one of two separate CQMs leaves every cell of the other alone — the other reads the same — and they stay separate -/
theorem csep_step {h : Heap} {a b : Nat} (s : CSep h a b) (e : CEdit) :
    CSep (e.run h a) a b ∧ (∀ x ∈ cfp h b, (e.run h a).cell x = h.cell x) ∧ cobs (e.run h a) b = cobs h b := by
  obtain ⟨sa, sb, sd⟩ := s
  obtain ⟨n, g', fr, incl⟩ := cedit_step sa e
  have hcells : ∀ x ∈ cfp h b, (e.run h a).cell x = h.cell x := fun x hx => fr x (cfp_lt sb x hx) (fun hxa => sd x hxa hx)
  obtain ⟨gb, fpb, ob⟩ := sb.of_cells n hcells
  refine ⟨⟨g', gb, fun x hx => ?_⟩, hcells, ob⟩
  rw [fpb]
  rcases incl x hx with h1 | h1
  · exact sd x h1
  · intro hxb; have := cfp_lt sb x hxb; omega

/-- separation is an invariant of every interleaved edit history -/
theorem csep_history {h : Heap} {a b : Nat} (s : CSep h a b) (es : List (Bool × CEdit)) : CSep (runCEdits h a b es) a b := by
  induction es generalizing h with
  | nil => exact s
  | cons p t ih =>
    obtain ⟨side, e⟩ := p
    cases side with
    | false => exact ih (csep_step s e).1
    | true => exact ih (csep_step s.symm e).1.symm

/-- any history of edits of one CQM leaves the other reading the same -/
theorem csep_one_sided {h : Heap} {a b : Nat} (s : CSep h a b) (es : List CEdit) :
    CSep (es.foldl (fun acc e => e.run acc a) h) a b ∧ cobs (es.foldl (fun acc e => e.run acc a) h) b = cobs h b := by
  induction es generalizing h with
  | nil => exact ⟨s, rfl⟩
  | cons e t ih =>
    obtain ⟨s', _, o'⟩ := csep_step s e
    obtain ⟨s'', o''⟩ := ih s'
    exact ⟨s'', o''.trans o'⟩

/-- the CQM made by `copy.deepcopy` / `fix_variables(inplace=False)` and its receiver are separate, well-formed objects -/
theorem csep_of_rebuild {h : Heap} {d : Nat} (hg : CGood h d) (ko kc : List Rat → List Rat) (gv gl : List Nat → List Nat) :
    CSep (cqmRebuild h d ko kc gv gl).1 d (cqmRebuild h d ko kc gv gl).2 := by
  obtain ⟨q, v, l, o, cs, hw, nd⟩ := hg
  obtain ⟨s1, s2, s3, s4, s5, s6, s7, s8⟩ := cqmRebuild_cells hw ko kc gv gl
  have s9 := cqmRebuild_next hw ko kc gv gl
  have hfp := cfp_eq hw
  have hlt := cfp_lt ⟨q, v, l, o, cs, hw, nd⟩
  obtain ⟨gd, fpd, _⟩ := CGood.of_cells (h' := (cqmRebuild h d ko kc gv gl).1) ⟨q, v, l, o, cs, hw, nd⟩ (by rw [s9]; omega)
    (fun x hx => s1 x (hlt x hx))
  generalize cqmRebuild h d ko kc gv gl = r at *
  rw [s2]
  have hw' : CWf r.1 (h.next + 4) (h.next + 1) (h.next + 7 + cs.length) (h.next + 6 + cs.length) (h.next + 5) (List.range' (h.next + 6) cs.length) :=
    ⟨s3, s4, by omega, by omega, by omega, by omega, by omega, fun c hc => by rw [List.mem_range'_1] at hc; omega⟩
  have nd' : ((h.next + 4) :: (h.next + 1) :: (h.next + 7 + cs.length) :: (h.next + 6 + cs.length) :: (h.next + 5) :: List.range' (h.next + 6) cs.length).Nodup := by
    simp only [List.nodup_cons, List.mem_cons, List.mem_range'_1, not_or]
    refine ⟨⟨by omega, by omega, by omega, by omega, by omega⟩, ⟨by omega, by omega, by omega, by omega⟩, ⟨by omega, by omega, by omega⟩, ⟨by omega, by omega⟩, by omega, List.nodup_range'⟩
  refine ⟨gd, ⟨_, _, _, _, _, hw', nd'⟩, fun x hx => ?_⟩
  rw [fpd] at hx
  have := hlt x hx
  rw [cfp_eq hw']
  simp only [List.mem_cons, List.mem_range'_1, not_or]
  refine ⟨by omega, by omega, by omega, by omega, by omega, by omega⟩


/-- a model (BQM / QM) none of whose cells belongs to a CQM: any history of in-place edits of the CQM leaves the model reading the same
    (and the separation persists) -/
theorem cqm_edits_leave_model {h : Heap} {d m : Nat} (hg : CGood h d) (hm : Born 0 h m)
    (hdis : m ∉ cfp h d ∧ cppOf h m ∉ cfp h d ∧ varsOf h m ∉ cfp h d) (es : List CEdit) :
    obs (es.foldl (fun acc e => e.run acc d) h) m = obs h m ∧ Born 0 (es.foldl (fun acc e => e.run acc d) h) m := by
  induction es generalizing h with
  | nil => exact ⟨rfl, hm⟩
  | cons e t ih =>
    obtain ⟨n, g', fr, incl⟩ := cedit_step hg e
    obtain ⟨c, v, k1, k2, k3, k4, k5, k6, k7, k8, k9, k10⟩ := hm
    have ec := cppOf_eq k1
    have ev := varsOf_eq k1
    rw [ec, ev] at hdis
    have hm' : Born 0 h m := ⟨c, v, k1, k2, k3, k4, k5, k6, k7, k8, k9, k10⟩
    obtain ⟨b1, b2, b3, b4⟩ := hm'.of_cells n (fr m k3 hdis.1) (by rw [ec]; exact fr c k5 hdis.2.1) (by rw [ev]; exact fr v k7 hdis.2.2)
    have nin : ∀ x, x < h.next → x ∉ cfp h d → x ∉ cfp (e.run h d) d := fun x hx hnx hx' => by
      rcases incl x hx' with h1 | h1
      · exact hnx h1
      · omega
    obtain ⟨i1, i2⟩ := ih g' b1 (by rw [b3, b4, ec, ev]; exact ⟨nin m k3 hdis.1, nin c k5 hdis.2.1, nin v k7 hdis.2.2⟩)
    exact ⟨by simp only [List.foldl_cons]; exact i1.trans b2, i2⟩

/-- `add_constraint_from_model(copy=True)` on a well-formed CQM and a model sharing no cell with it: afterwards the CQM is well-formed
    (with the new constraint in its footprint), the model is the same object reading the same, and they still share no cell — so
    `cqm_edits_leave_model` and `edits_write_own_cells` apply to everything that follows -/
theorem cyAdd_copy_separate {h : Heap} {d m : Nat} (hg : CGood h d) (hm : Born 0 h m)
    (hdis : m ∉ cfp h d ∧ cppOf h m ∉ cfp h d ∧ varsOf h m ∉ cfp h d)
    (remap : List Rat → List Rat) (m' : Merge) (lab : List Nat → List Nat) :
    CGood (cyAddConstraintFromModel h d m true remap m' lab).1 d ∧ Born 0 (cyAddConstraintFromModel h d m true remap m' lab).1 m ∧
    obs (cyAddConstraintFromModel h d m true remap m' lab).1 m = obs h m ∧
    (m ∉ cfp (cyAddConstraintFromModel h d m true remap m' lab).1 d ∧
     cppOf (cyAddConstraintFromModel h d m true remap m' lab).1 m ∉ cfp (cyAddConstraintFromModel h d m true remap m' lab).1 d ∧
     varsOf (cyAddConstraintFromModel h d m true remap m' lab).1 m ∉ cfp (cyAddConstraintFromModel h d m true remap m' lab).1 d) := by
  obtain ⟨q, v, l, o, cs, hw, nd⟩ := hg
  have hfp := cfp_eq hw
  have hlt := cfp_lt ⟨q, v, l, o, cs, hw, nd⟩
  rw [hfp] at hdis hlt
  obtain ⟨d1, d2, d3, d4, d5, d6, d7, d8⟩ := hw
  have nd0 := nd
  simp only [List.nodup_cons, List.mem_cons, not_or] at nd
  obtain ⟨⟨n1, n2, n3, n4, n5⟩, ⟨n6, n7, n8, n9⟩, ⟨n10, n11, n12⟩, ⟨n13, n14⟩, n15, n16⟩ := nd
  have hshape : CShape h d q v l o cs := ⟨d1, d2, d3, d4, d5, d6, n1, n2, n3, n6, n7, n10⟩
  obtain ⟨cm, vm, k1, k2, k3, k4, k5, k6, k7, k8, k9, k10⟩ := hm
  have ec := cppOf_eq k1
  have ev := varsOf_eq k1
  rw [ec, ev] at hdis
  simp only [List.mem_cons, not_or] at hdis
  obtain ⟨⟨a1, a2, a3, a4, a5, a6⟩, ⟨b1, b2, b3, b4, b5, b6⟩, ⟨c1, c2, c3, c4, c5, c6⟩⟩ := hdis
  have hm' : Born 0 h m := ⟨cm, vm, k1, k2, k3, k4, k5, k6, k7, k8, k9, k10⟩
  have hd4 : ∀ x ∈ [m, cppOf h m, varsOf h m], x ≠ d ∧ x ≠ q ∧ x ≠ v ∧ x ≠ l := by
    rw [ec, ev]; intro x hx; simp only [List.mem_cons, List.mem_nil_iff, or_false] at hx
    rcases hx with h1 | h1 | h1 <;> subst h1
    · exact ⟨a1, a2, a3, a4⟩
    · exact ⟨b1, b2, b3, b4⟩
    · exact ⟨c1, c2, c3, c4⟩
  have hcell := cyAdd_cell hm' hshape hd4 true remap m' lab
  rw [ec, ev] at hcell
  have hnx : (cyAddConstraintFromModel h d m true remap m' lab).1.next = h.next + 1 := rfl
  generalize cyAddConstraintFromModel h d m true remap m' lab = r at *
  have ft : ¬ (true = false) := by decide
  have old : ∀ a, a ≠ l → a ≠ q → a ≠ h.next → a ≠ v → r.1.cell a = h.cell a := fun a h1 h2 h3 h4 => by
    rw [hcell, if_neg h1, if_neg h2, if_neg (fun hh => ft hh.2), if_neg (fun hh => ft hh.2), if_neg h3, if_neg h4]
  have hw' : CWf r.1 d q v l o (cs ++ [h.next]) := by
    refine ⟨(old d n3 n1 (by omega) n2).trans d1, by rw [hcell, if_neg n7, if_pos rfl], by omega, by omega, by omega, by omega, by omega, ?_⟩
    intro x hx
    rcases List.mem_append.mp hx with hh | hh
    · have := d8 x hh; omega
    · simp at hh; omega
  have nd' : (d :: q :: v :: l :: o :: (cs ++ [h.next])).Nodup := by
    show ((d :: q :: v :: l :: o :: cs) ++ [h.next]).Nodup
    rw [List.nodup_append]
    exact ⟨nd0, by simp, fun a ha b hb => by simp at hb; subst hb; exact Nat.ne_of_lt (hlt a ha)⟩
  obtain ⟨bm, om, cme, vme⟩ := hm'.of_cells (h' := r.1) (by omega) (old m a4 a2 (by omega) a3)
    (by rw [ec]; exact old cm b4 b2 (by omega) b3) (by rw [ev]; exact old vm c4 c2 (by omega) c3)
  refine ⟨⟨q, v, l, o, _, hw', nd'⟩, bm, om, ?_⟩
  rw [cfp_eq hw', cme, vme, ec, ev]
  simp only [List.mem_cons, List.mem_append, List.mem_singleton, List.mem_nil_iff, or_false, not_or]
  exact ⟨⟨a1, a2, a3, a4, a5, a6, by omega⟩, ⟨b1, b2, b3, b4, b5, b6, by omega⟩, ⟨c1, c2, c3, c4, c5, c6, by omega⟩⟩

theorem edits_next (h : Heap) (m : Nat) (es : List Edit) : (es.foldl (fun acc e => e.run acc m) h).next = h.next := by
  induction es generalizing h with
  | nil => rfl
  | cons e t ih => simp only [List.foldl_cons]; rw [ih]; rfl

/-- **`add_constraint(model, copy=True)` end to end**: afterwards any history of in-place edits of the source model leaves the CQM reading the
    same, and any history of in-place edits of the CQM leaves the source model reading what it read before the call -/
theorem cyAdd_copy_then_histories {h : Heap} {d m : Nat} (hg : CGood h d) (hm : Born 0 h m)
    (hdis : m ∉ cfp h d ∧ cppOf h m ∉ cfp h d ∧ varsOf h m ∉ cfp h d)
    (remap : List Rat → List Rat) (m' : Merge) (lab : List Nat → List Nat) (es : List Edit) (ces : List CEdit) :
    cobs (es.foldl (fun acc e => e.run acc m) (cyAddConstraintFromModel h d m true remap m' lab).1) d =
      cobs (cyAddConstraintFromModel h d m true remap m' lab).1 d ∧
    obs (ces.foldl (fun acc e => e.run acc d) (cyAddConstraintFromModel h d m true remap m' lab).1) m = obs h m := by
  obtain ⟨g', b', o', dis'⟩ := cyAdd_copy_separate hg hm hdis remap m' lab
  refine ⟨?_, (cqm_edits_leave_model g' b' dis' ces).1.trans o'⟩
  refine (g'.of_cells (Nat.le_of_eq (edits_next _ m es).symm) (fun x hx => edits_write_own_cells b' es x ?_ ?_)).2.2
  · intro e; exact dis'.2.1 (e ▸ hx)
  · intro e; exact dis'.2.2 (e ▸ hx)


/-- `set_objective` of an object-dtype BQM: `BinaryQuadraticModel(objective, dtype=self.dtype)` makes a temporary out of new cells, the
    temporary is copied into the CQM's own objective cell; the caller's model is never written and shares no cell with the CQM -/
theorem setObjective_object_spec {h : Heap} {d m q v l o : Nat} {cs : List Nat} (hm : Born 0 h m) (hd : CShape h d q v l o cs)
    (ho : o < h.next ∧ o ≠ d ∧ o ≠ q ∧ o ≠ v)
    (hdis : ∀ x ∈ [m, cppOf h m, varsOf h m], x ≠ o ∧ x ≠ v)
    (remap : List Rat → List Rat) (m' : Merge) :
    coeffsAt (setObjective h d m true remap m') o = remap (m'.u [] (obs h m).1) ∧
    obs (setObjective h d m true remap m') m = obs h m ∧
    (∀ a, a < h.next → a ≠ o → a ≠ v → (setObjective h d m true remap m').cell a = h.cell a) := by
  have hp := call_spec hm hm (.construct m') rfl
  have e : setObjective h d m true remap m' =
      setObjective ((Call.construct m').run h m m).1 d ((Call.construct m').run h m m).2 false remap m' := rfl
  rw [e]
  obtain ⟨p1, p2, p3, p4⟩ := hp
  generalize (Call.construct m').run h m m = t at *
  obtain ⟨d1, d2, d3, d4, d5, d6, d7, d8, d9, d10, d11, d12⟩ := hd
  obtain ⟨o0, o1, o2, o3⟩ := ho
  have hd' : CShape t.1 d q v l o cs := ⟨(p2 d d3).trans d1, (p2 q d4).trans d2, by omega, by omega, by omega, by omega, d7, d8, d9, d10, d11, d12⟩
  have hb : Born 0 t.1 t.2 := p3.mono (Nat.zero_le _)
  obtain ⟨c, w, k1, k2, k3, k4, k5, k6, k7, k8, k9, k10⟩ := p3
  have hdis' : ∀ x ∈ [t.2, cppOf t.1 t.2, varsOf t.1 t.2], x ≠ d ∧ x ≠ q ∧ x ≠ v ∧ x ≠ l ∧ x ≠ o := by
    rw [cppOf_eq k1, varsOf_eq k1]
    intro x hx
    simp only [List.mem_cons, List.mem_nil_iff, or_false] at hx
    rcases hx with h1 | h1 | h1 <;> subst h1 <;> refine ⟨by omega, by omega, by omega, by omega, by omega⟩
  obtain ⟨_, s2, _, s4⟩ := setObjective_spec hb hd' hdis' ⟨o1, o2, o3⟩ remap m'
  obtain ⟨cm, vm, j1, _, j3, _, j5, _, j7, _, _, _⟩ := hm
  have hm0 : Born 0 h m := ⟨cm, vm, j1, Nat.zero_le _, j3, Nat.zero_le _, j5, Nat.zero_le _, j7, ‹_›, ‹_›, ‹_›⟩
  rw [cppOf_eq j1, varsOf_eq j1] at hdis
  have a0 := hdis m (by simp)
  have a1 := hdis cm (by simp)
  have a2 := hdis vm (by simp)
  refine ⟨by rw [s2, p4]; rfl, ?_, fun a ha h1 h2 => (s4 a h1 h2).trans (p2 a ha)⟩
  have hcells : ∀ x, x < h.next → x ≠ o → x ≠ v → (setObjective t.1 d t.2 false remap m').cell x = h.cell x :=
    fun x hx h1 h2 => (s4 x h1 h2).trans (p2 x hx)
  exact (hm0.of_cells (h' := setObjective t.1 d t.2 false remap m') (by show h.next ≤ t.1.next; exact p1) (hcells m j3 a0.1 a0.2)
    (by rw [cppOf_eq j1]; exact hcells cm j5 a1.1 a1.2) (by rw [varsOf_eq j1]; exact hcells vm j7 a2.1 a2.2)).2.1


/-- a model and a CQM sharing no cell -/
def MSep (h : Heap) (d m : Nat) : Prop :=
  CGood h d ∧ Born 0 h m ∧ m ∉ cfp h d ∧ cppOf h m ∉ cfp h d ∧ varsOf h m ∉ cfp h d

/-- one in-place edit of the CQM keeps the pair separate and the model reading the same -/
theorem msep_cedit {h : Heap} {d m : Nat} (s : MSep h d m) (e : CEdit) : MSep (e.run h d) d m ∧ obs (e.run h d) m = obs h m := by
  obtain ⟨hg, hm, x1, x2, x3⟩ := s
  obtain ⟨n, g', fr, incl⟩ := cedit_step hg e
  obtain ⟨c, v, k1, k2, k3, k4, k5, k6, k7, k8, k9, k10⟩ := hm
  have ec := cppOf_eq k1
  have ev := varsOf_eq k1
  rw [ec] at x2
  rw [ev] at x3
  have hm' : Born 0 h m := ⟨c, v, k1, k2, k3, k4, k5, k6, k7, k8, k9, k10⟩
  obtain ⟨b1, b2, b3, b4⟩ := hm'.of_cells n (fr m k3 x1) (by rw [ec]; exact fr c k5 x2) (by rw [ev]; exact fr v k7 x3)
  have nin : ∀ x, x < h.next → x ∉ cfp h d → x ∉ cfp (e.run h d) d := fun x hx hnx hx' => by
    rcases incl x hx' with h1 | h1
    · exact hnx h1
    · omega
  exact ⟨⟨g', b1, nin m k3 x1, by rw [b3, ec]; exact nin c k5 x2, by rw [b4, ev]; exact nin v k7 x3⟩, b2⟩

theorem msep_cedits {h : Heap} {d m : Nat} (s : MSep h d m) (ces : List CEdit) :
    MSep (ces.foldl (fun acc e => e.run acc d) h) d m ∧ obs (ces.foldl (fun acc e => e.run acc d) h) m = obs h m := by
  induction ces generalizing h with
  | nil => exact ⟨s, rfl⟩
  | cons e t ih =>
    obtain ⟨s', o'⟩ := msep_cedit s e
    obtain ⟨s'', o''⟩ := ih s'
    exact ⟨s'', o''.trans o'⟩

/-- a separate pair stays independent along any history on either side -/
theorem msep_histories {h : Heap} {d m : Nat} (s : MSep h d m) (es : List Edit) (ces : List CEdit) :
    cobs (es.foldl (fun acc e => e.run acc m) h) d = cobs h d ∧ obs (ces.foldl (fun acc e => e.run acc d) h) m = obs h m := by
  refine ⟨?_, (msep_cedits s ces).2⟩
  obtain ⟨hg, hm, x1, x2, x3⟩ := s
  refine (hg.of_cells (Nat.le_of_eq (edits_next _ m es).symm) (fun x hx => edits_write_own_cells hm es x ?_ ?_)).2.2
  · intro e; exact x2 (e ▸ hx)
  · intro e; exact x3 (e ▸ hx)

/-- `set_objective(model)` (array-backed) IS two in-place edits of the CQM whose arguments are the source's contents: the `add_variable`s,
    then the objective cell is overwritten -/
theorem setObjective_as_edits {h : Heap} {d m : Nat} (s : MSep h d m) (remap : List Rat → List Rat) (m' : Merge) :
    setObjective h d m false remap m' =
      [CEdit.vars (fun lv => m'.w lv (labelsAt h (varsOf h m))), CEdit.objective (fun _ => remap (coeffsAt h (cppOf h m)))].foldl
        (fun acc e => e.run acc d) h := by
  obtain ⟨_, _, x1, x2, _⟩ := s
  have hv : varsOf h d ∈ cfp h d := by simp [cfp]
  have n1 : m ≠ varsOf h d := fun e => x1 (e ▸ hv)
  have n2 : cppOf h m ≠ varsOf h d := fun e => x2 (e ▸ hv)
  have e1 : ∀ X, cppOf (store h (varsOf h d) X) m = cppOf h m := fun X => by simp [cppOf, store_cell_other _ _ _ _ n1]
  have e2 : ∀ X, coeffsAt (store h (varsOf h d) X) (cppOf h m) = coeffsAt h (cppOf h m) := fun X =>
    coeffsAt_congr (store_cell_other _ _ _ _ n2)
  simp only [setObjective, List.foldl, CEdit.run, Bool.false_eq_true, if_false, e1, e2]

/-- **`set_objective(model)` end to end**: the model reads as before; afterwards any history of in-place edits of the model leaves the CQM
    reading the same and any history of in-place edits of the CQM leaves the model reading the same -/
theorem setObjective_then_histories {h : Heap} {d m : Nat} (s : MSep h d m) (remap : List Rat → List Rat) (m' : Merge)
    (es : List Edit) (ces : List CEdit) :
    MSep (setObjective h d m false remap m') d m ∧ obs (setObjective h d m false remap m') m = obs h m ∧
    cobs (es.foldl (fun acc e => e.run acc m) (setObjective h d m false remap m')) d = cobs (setObjective h d m false remap m') d ∧
    obs (ces.foldl (fun acc e => e.run acc d) (setObjective h d m false remap m')) m = obs h m := by
  rw [setObjective_as_edits s]
  obtain ⟨s', o'⟩ := msep_cedits s [CEdit.vars (fun lv => m'.w lv (labelsAt h (varsOf h m))), CEdit.objective (fun _ => remap (coeffsAt h (cppOf h m)))]
  obtain ⟨h1, h2⟩ := msep_histories s' es ces
  exact ⟨s', o', h1, h2.trans o'⟩


theorem msep_shape {h : Heap} {d m : Nat} (s : MSep h d m) :
    ∃ q v l o cs, CShape h d q v l o cs ∧ ∀ x ∈ [m, cppOf h m, varsOf h m], x ≠ d ∧ x ≠ q ∧ x ≠ v ∧ x ≠ l := by
  obtain ⟨⟨q, v, l, o, cs, hw, nd⟩, _, x1, x2, x3⟩ := s
  rw [cfp_eq hw] at x1 x2 x3
  obtain ⟨d1, d2, d3, d4, d5, d6, _, _⟩ := hw
  simp only [List.nodup_cons, List.mem_cons, not_or] at nd x1 x2 x3
  obtain ⟨⟨n1, n2, n3, _, _⟩, ⟨n6, n7, _, _⟩, ⟨n10, _, _⟩, _⟩ := nd
  refine ⟨q, v, l, o, cs, ⟨d1, d2, d3, d4, d5, d6, n1, n2, n3, n6, n7, n10⟩, fun x hx => ?_⟩
  simp only [List.mem_cons, List.mem_nil_iff, or_false] at hx
  rcases hx with h1 | h1 | h1 <;> subst h1
  · exact ⟨x1.1, x1.2.1, x1.2.2.1, x1.2.2.2.1⟩
  · exact ⟨x2.1, x2.2.1, x2.2.2.1, x2.2.2.2.1⟩
  · exact ⟨x3.1, x3.2.1, x3.2.2.1, x3.2.2.2.1⟩

/-- a write into one of the CQM's own constraint cells (`mark_discrete`, `set_weight`, an edit through a `ConstraintView`) is an in-place
    edit of the CQM -/
theorem msep_store_constraint {h : Heap} {d m : Nat} (s : MSep h d m) {c : Nat} (hc : c ∈ constraintsOf h (cppOf h d))
    (f : List Rat → List Rat) :
    MSep (store h c (.coeffs (f (coeffsAt h c)))) d m ∧ obs (store h c (.coeffs (f (coeffsAt h c)))) m = obs h m := by
  obtain ⟨k, hk⟩ := List.mem_iff_getElem?.mp hc
  have e : (CEdit.constraint k f).run h d = store h c (.coeffs (f (coeffsAt h c))) := by simp [CEdit.run, hk]
  rw [← e]
  exact msep_cedit s _

/-- **`add_discrete(model | comparison, copy=True, check_overlaps=…)` end to end**: whatever `check_overlaps` is, the caller's model reads as
    before, the pair stays separate, and any later history of in-place edits on either side is invisible on the other -/
theorem addDiscrete_then_histories {h : Heap} {d m : Nat} (s : MSep h d m) (co : Bool) (remap mark : List Rat → List Rat) (m' : Merge)
    (lab : List Nat → List Nat) (es : List Edit) (ces : List CEdit) :
    MSep (addDiscreteFromComparison h d m true co remap mark m' lab).1 d m ∧
    obs (addDiscreteFromComparison h d m true co remap mark m' lab).1 m = obs h m ∧
    cobs (es.foldl (fun acc e => e.run acc m) (addDiscreteFromComparison h d m true co remap mark m' lab).1) d =
      cobs (addDiscreteFromComparison h d m true co remap mark m' lab).1 d ∧
    obs (ces.foldl (fun acc e => e.run acc d) (addDiscreteFromComparison h d m true co remap mark m' lab).1) m = obs h m := by
  obtain ⟨q, v, l, o, cs, hshape, hd4⟩ := msep_shape s
  obtain ⟨hg, hm, x1, x2, x3⟩ := s
  obtain ⟨g', b', o', dis'⟩ := cyAdd_copy_separate hg hm ⟨x1, x2, x3⟩ remap m' lab
  obtain ⟨r2, _, r3, _, _⟩ := cyAdd_spec hm hshape hd4 true remap m' lab
  have hmem : (cyAddConstraintFromModel h d m true remap m' lab).2 ∈
      constraintsOf (cyAddConstraintFromModel h d m true remap m' lab).1 (cppOf (cyAddConstraintFromModel h d m true remap m' lab).1 d) := by
    rw [r3, r2]; simp
  obtain ⟨s', o''⟩ := msep_store_constraint ⟨g', b', dis'⟩ hmem mark
  have hrun : (addDiscreteFromComparison h d m true co remap mark m' lab).1 =
      store (cyAddConstraintFromModel h d m true remap m' lab).1 (cyAddConstraintFromModel h d m true remap m' lab).2
        (.coeffs (mark (coeffsAt (cyAddConstraintFromModel h d m true remap m' lab).1 (cyAddConstraintFromModel h d m true remap m' lab).2))) := rfl
  rw [hrun]
  obtain ⟨h1, h2⟩ := msep_histories s' es ces
  exact ⟨s', o''.trans o', h1, h2.trans (o''.trans o')⟩


end MHeap
