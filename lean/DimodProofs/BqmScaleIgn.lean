import DimodProofs.BqmViewAll
import DimodModel.BqmScaleIgn

/-! `scale(scalar, ignored_variables, ignored_interactions, ignore_offset)` / `normalize(...)` of `BinaryQuadraticModel`,
    issued on the model itself or through a `VartypeView`: the polynomial the receiver shows afterwards is the scaled
    polynomial except the ignored terms (`LPoly.scaleIgnoring`).  The loops with `continue` are the loops of
    `BqmViewScale.lean` over the filtered index lists.  Core Lean only. -/

namespace Bqm

/-- the specification: every linear bias except those of the ignored variables, every quadratic bias except those of
    the ignored interactions (either orientation), and the offset unless it is ignored, are multiplied by `s` -/
def LPoly.scaleIgnoring (p : LPoly) (s : Rat) (iv : List Label) (ii : List (Label × Label)) (io : Bool) : LPoly :=
  { p with lin := fun l => if iv.contains l then p.lin l else p.lin l * s,
           quad := fun a b => if ii.contains (a, b) || ii.contains (b, a) then p.quad a b else (p.quad a b).map (· * s),
           off := if io then p.off else p.off * s }

def keepLin (m : Bqm) (iv : List Label) (j : Nat) : Bool := !iv.contains (m.labels.getD j (.int 0))

def keepPair (ii : List (Label × Label)) (t : Label × Label × Rat) : Bool :=
  !(ii.contains (t.1, t.2.1) || ii.contains (t.2.1, t.1))

def labTriple (m : Bqm) (t : Nat × Nat × Rat) : Label × Label × Rat :=
  (m.labels.getD t.1 (.int 0), m.labels.getD t.2.1 (.int 0), t.2.2)

/-! ### the loops with `continue` are the plain loops over the filtered lists -/

theorem ignLin_filter (tv : VT) (s : Rat) (iv : List Label) (m : Bqm) (is : List Nat) (hb : ∀ j ∈ is, j < m.labels.length) :
    ∀ acc, LabelsExt m acc →
      is.foldl (scaleIgnLinStep tv s iv) acc = (is.filter (keepLin m iv)).foldl (scaleLinStep tv s) acc := by
  induction is with
  | nil => intro acc _; rfl
  | cons j t ih =>
    intro acc ea
    have hj := hb j (by simp)
    have hacc : acc.labels[j]? = some (m.labels.getD j (.int 0)) := ea.get (getD_label hj)
    have hbt : ∀ x ∈ t, x < m.labels.length := fun x hx => hb x (List.mem_cons_of_mem _ hx)
    simp only [List.foldl, List.filter_cons]
    cases hk : iv.contains (m.labels.getD j (.int 0)) with
    | true =>
      have h1 : scaleIgnLinStep tv s iv acc j = acc := by
        unfold scaleIgnLinStep; rw [hacc]; simp only [hk, if_true]
      have h2 : keepLin m iv j = false := by unfold keepLin; rw [hk]; rfl
      rw [h1, h2]
      simp only [Bool.false_eq_true, if_false]
      exact ih hbt acc ea
    | false =>
      have h1 : scaleIgnLinStep tv s iv acc j = scaleLinStep tv s acc j := by
        unfold scaleIgnLinStep scaleLinStep; rw [hacc]; simp only [hk, Bool.false_eq_true, if_false]
      have h2 : keepLin m iv j = true := by unfold keepLin; rw [hk]; rfl
      rw [h1, h2]
      simp only [if_true, List.foldl]
      apply ih hbt
      have : scaleLinStep tv s acc j = acc.vSetLinear tv (m.labels.getD j (.int 0)) (s * acc.vGetLinear tv j) := by
        unfold scaleLinStep; rw [hacc]
      rw [this]
      exact ea.trans (ext_vSetLinear acc tv _ _)

theorem vt_scaleLinFold (tv : VT) (s : Rat) (is : List Nat) (acc : Bqm) :
    (is.foldl (scaleLinStep tv s) acc).vt = acc.vt := by
  induction is generalizing acc with
  | nil => rfl
  | cons j t ih =>
    simp only [List.foldl]
    rw [ih]
    unfold scaleLinStep
    split
    · exact vt_vSetLinear _ _ _ _
    · rfl

/-- the quadratic loop, for either implementation of `set_quadratic` (the array back-end's own, or the delta code of a
    view object) -/
theorem ignQuad_view (tv : VT) (viaView : Bool) (s : Rat) (ii : List (Label × Label)) (m : Bqm)
    (hset : ∀ acc : Bqm, Inv acc → acc.vt = m.vt → ∀ u v b, u ≠ v →
      (absL (acc.setQuadVia tv viaView u v b)).viewP tv = ((absL acc).viewP tv).quadOp u v b true ∧
      Inv (acc.setQuadVia tv viaView u v b) ∧ LabelsExt acc (acc.setQuadVia tv viaView u v b) ∧
      (acc.setQuadVia tv viaView u v b).vt = acc.vt)
    (ts : List (Nat × Nat × Rat))
    (hb : ∀ t ∈ ts, t.1 < m.labels.length ∧ t.2.1 < m.labels.length ∧ t.1 ≠ t.2.1) (hn : m.labels.Nodup) :
    ∀ acc, Inv acc → LabelsExt m acc → acc.vt = m.vt →
      (absL (ts.foldl (scaleIgnQuadStep tv viaView s ii) acc)).viewP tv =
        ((ts.map (labTriple m)).filter (keepPair ii)).foldl
          (fun q t => q.quadOp t.1 t.2.1 (s * (q.quad t.1 t.2.1).getD 0) true) ((absL acc).viewP tv) ∧
      Inv (ts.foldl (scaleIgnQuadStep tv viaView s ii) acc) ∧
      LabelsExt m (ts.foldl (scaleIgnQuadStep tv viaView s ii) acc) ∧
      (ts.foldl (scaleIgnQuadStep tv viaView s ii) acc).vt = m.vt := by
  induction ts with
  | nil => intro acc ia ea hv; exact ⟨rfl, ia, ea, hv⟩
  | cons t rest ih =>
    intro acc ia ea hvt
    have ht := hb t (by simp)
    have hbr : ∀ x ∈ rest, x.1 < m.labels.length ∧ x.2.1 < m.labels.length ∧ x.1 ≠ x.2.1 :=
      fun x hx => hb x (List.mem_cons_of_mem _ hx)
    have hu : acc.labels[t.1]? = some (m.labels.getD t.1 (.int 0)) := ea.get (getD_label ht.1)
    have hv : acc.labels[t.2.1]? = some (m.labels.getD t.2.1 (.int 0)) := ea.get (getD_label ht.2.1)
    have hiu := indexOf?_of_get ia.nodup hu
    have hiv := indexOf?_of_get ia.nodup hv
    have hne : m.labels.getD t.1 (.int 0) ≠ m.labels.getD t.2.1 (.int 0) := nodup_getD_ne hn ht.1 ht.2.1 ht.2.2
    simp only [List.foldl, List.map_cons, List.filter_cons]
    cases hk : (ii.contains (m.labels.getD t.1 (.int 0), m.labels.getD t.2.1 (.int 0)) ||
        ii.contains (m.labels.getD t.2.1 (.int 0), m.labels.getD t.1 (.int 0))) with
    | true =>
      have h1 : scaleIgnQuadStep tv viaView s ii acc t = acc := by
        unfold scaleIgnQuadStep; rw [hu, hv]; simp only [hk, if_true]
      have h2 : keepPair ii (labTriple m t) = false := by unfold keepPair labTriple; simp only [hk]; rfl
      rw [h1, h2]
      simp only [Bool.false_eq_true, if_false]
      exact ih hbr acc ia ea hvt
    | false =>
      have h1 : scaleIgnQuadStep tv viaView s ii acc t =
          acc.setQuadVia tv viaView (m.labels.getD t.1 (.int 0)) (m.labels.getD t.2.1 (.int 0))
            (s * ((acc.vGetQuadratic tv t.1 t.2.1).getD 0)) := by
        unfold scaleIgnQuadStep; rw [hu, hv]; simp only [hk, Bool.false_eq_true, if_false]
      have h2 : keepPair ii (labTriple m t) = true := by unfold keepPair labTriple; simp only [hk]; rfl
      rw [h1, h2]
      simp only [if_true, List.foldl]
      have hread : (acc.vGetQuadratic tv t.1 t.2.1).getD 0 =
          (((absL acc).viewP tv).quad (m.labels.getD t.1 (.int 0)) (m.labels.getD t.2.1 (.int 0))).getD 0 := by
        show ((acc.quadAt t.1 t.2.1).map (acc.vQuadFactor tv * ·)).getD 0 = (((absL acc).quad _ _).map ((absL acc).viewFactor tv * ·)).getD 0
        rw [quad_absL hiu hiv]; rfl
      have r := hset acc ia hvt _ _ (s * ((acc.vGetQuadratic tv t.1 t.2.1).getD 0)) hne
      rw [hread] at r
      rw [hread]
      have hl : (labTriple m t).1 = m.labels.getD t.1 (.int 0) := rfl
      have hl2 : (labTriple m t).2.1 = m.labels.getD t.2.1 (.int 0) := rfl
      rw [hl, hl2, ← r.1]
      exact ih hbr _ r.2.1 (ea.trans r.2.2.1) (r.2.2.2.trans hvt)

/-- the two implementations of `set_quadratic` meet the hypothesis of `ignQuad_view` -/
theorem setQuadVia_spec (tv : VT) (viaView : Bool) (m : Bqm) (hvia : viaView = true ∨ tv = m.vt) :
    ∀ acc : Bqm, Inv acc → acc.vt = m.vt → ∀ u v b, u ≠ v →
      (absL (acc.setQuadVia tv viaView u v b)).viewP tv = ((absL acc).viewP tv).quadOp u v b true ∧
      Inv (acc.setQuadVia tv viaView u v b) ∧ LabelsExt acc (acc.setQuadVia tv viaView u v b) ∧
      (acc.setQuadVia tv viaView u v b).vt = acc.vt := by
  intro acc ia hvt u v b hne
  cases viaView with
  | true =>
    have r := view_setQuadratic ia tv u v b hne
    exact ⟨r.1, r.2.2, ext_vSetQuadratic acc tv u v b, vt_vSetQuadratic acc tv u v b⟩
  | false =>
    have htv : tv = acc.vt := by
      rcases hvia with h | h
      · cases h
      · rw [h, hvt]
    subst htv
    show (absL (acc.quadOp u v b true).1).viewP acc.vt = ((absL acc).viewP acc.vt).quadOp u v b true ∧
      Inv (acc.quadOp u v b true).1 ∧ LabelsExt acc (acc.quadOp u v b true).1 ∧ (acc.quadOp u v b true).1.vt = acc.vt
    have e1 : (absL acc).viewP acc.vt = absL acc := viewP_self (absL acc)
    have e2 : (absL (acc.quadOp u v b true).1).viewP acc.vt = absL (acc.quadOp u v b true).1 := by
      have := viewP_self (absL (acc.quadOp u v b true).1)
      rw [absL_vt, vt_quadOp] at this; exact this
    rw [e1, e2]
    exact ⟨quadOp_refines ia.wf u v b true hne, ia.quadOp u v b true, ext_quadOp acc u v b true, vt_quadOp acc u v b true⟩

theorem mem_keepLin_labels (m : Bqm) (iv : List Label) (x : Label) :
    x ∈ ((List.range m.labels.length).filter (keepLin m iv)).map (fun j => m.labels.getD j (.int 0)) ↔
      x ∈ m.labels ∧ iv.contains x = false := by
  constructor
  · intro h
    obtain ⟨j, hj, e⟩ := List.mem_map.mp h
    have f := List.mem_filter.mp hj
    have hlt : j < m.labels.length := List.mem_range.mp f.1
    have hg : m.labels.getD j (.int 0) = m.labels[j] := by simp [List.getD, List.getElem?_eq_getElem hlt]
    refine ⟨by rw [← e, hg]; exact List.getElem_mem hlt, ?_⟩
    have := f.2
    unfold keepLin at this
    rw [e] at this
    simpa using this
  · intro ⟨hx, hc⟩
    obtain ⟨j, hlt, e⟩ := List.getElem_of_mem hx
    have hg : m.labels.getD j (.int 0) = x := by simp [List.getD, List.getElem?_eq_getElem hlt, e]
    apply List.mem_map.mpr
    refine ⟨j, List.mem_filter.mpr ⟨List.mem_range.mpr hlt, ?_⟩, hg⟩
    unfold keepLin; rw [hg, hc]; rfl

/-- **`scale` with ignored terms** (the loops), issued through a view object of either vartype (`viaView = true`) or
    on the model itself (`tv = m.vt`): what the receiver shows afterwards is `LPoly.scaleIgnoring` of what it showed -/
theorem scaleIgnLoops_refines {m : Bqm} (i : Inv m) (tv : VT) (viaView : Bool) (hvia : viaView = true ∨ tv = m.vt)
    (s : Rat) (iv : List Label) (ii : List (Label × Label)) (io : Bool) :
    (absL (m.scaleIgnLoops tv viaView s iv ii io)).viewP tv = ((absL m).viewP tv).scaleIgnoring s iv ii io ∧
    Inv (m.scaleIgnLoops tv viaView s iv ii io) := by
  unfold Bqm.scaleIgnLoops
  simp only []
  -- loop 1
  have hb1 : ∀ j ∈ (List.range m.labels.length).filter (keepLin m iv), j < m.labels.length :=
    fun j hj => List.mem_range.mp (List.mem_filter.mp hj).1
  rw [ignLin_filter tv s iv m (List.range m.labels.length) (fun j hj => List.mem_range.mp hj) m (LabelsExt.refl m)]
  have L1 := scaleLin_view tv s m ((List.range m.labels.length).filter (keepLin m iv)) hb1 m i (LabelsExt.refl m)
  have hvt1 := vt_scaleLinFold tv s ((List.range m.labels.length).filter (keepLin m iv)) m
  obtain ⟨h1, i1, e1⟩ := L1
  generalize ((List.range m.labels.length).filter (keepLin m iv)).foldl (scaleLinStep tv s) m = m1 at h1 i1 e1 hvt1
  have wP := (LWF.absL i).viewP tv
  have hsub : (((List.range m.labels.length).filter (keepLin m iv)).map fun j => m.labels.getD j (.int 0)).Sublist m.labels := by
    have h0 : (List.range m.labels.length).map (fun j => m.labels.getD j (.int 0)) = m.labels := (list_eq_map_range m.labels (.int 0)).symm
    have := (List.filter_sublist (l := List.range m.labels.length) (p := keepLin m iv)).map (fun j => m.labels.getD j (.int 0))
    rw [h0] at this; exact this
  have S1 := setFold s _ (hsub.nodup i.nodup) ((absL m).viewP tv) (fun l hl => hsub.subset hl)
  rw [← h1] at S1
  -- loop 2
  have hlab1 : m1.labels = m.labels := by
    obtain ⟨e, he⟩ := e1
    have hlen : m1.labels.length = m.labels.length := by
      have := congrArg LPoly.vars h1
      have hv : ((absL m1).viewP tv).vars = ((absL m).viewP tv).vars := S1.1
      exact congrArg List.length hv
    rw [he] at hlen
    have : e = [] := by
      cases e with
      | nil => rfl
      | cons a t => simp at hlen
    rw [he, this, List.append_nil]
  have hb2 : ∀ t ∈ m1.lowerTriples, t.1 < m1.labels.length ∧ t.2.1 < m1.labels.length ∧ t.1 ≠ t.2.1 := by
    intro t ht
    have := lowerTriples_bound i1 t ht
    exact ⟨this.1, by omega, by omega⟩
  have hset := setQuadVia_spec tv viaView m1 (by rcases hvia with h | h; exact Or.inl h; exact Or.inr (h.trans hvt1.symm))
  have L2 := ignQuad_view tv viaView s ii m1 hset m1.lowerTriples hb2 i1.nodup m1 i1 (LabelsExt.refl m1) rfl
  have hlow : m1.lowerTriples.map (labTriple m1) = (absL m1).lower := (lower_absL i1).symm
  rw [hlow] at L2
  obtain ⟨h2, i2, e2, hvt2⟩ := L2
  generalize m1.lowerTriples.foldl (scaleIgnQuadStep tv viaView s ii) m1 = m2 at h2 i2 e2 hvt2
  have w1 := LWF.absL i1
  have wP1 := w1.viewP tv
  have hmem2 : ∀ t ∈ (absL m1).lower.filter (keepPair ii),
      t.1 ∈ ((absL m1).viewP tv).vars ∧ t.2.1 ∈ ((absL m1).viewP tv).vars ∧ t.1 ≠ t.2.1 := by
    intro t ht
    have f := mem_lower (List.mem_filter.mp ht).1
    have hm := w1.closed t.1 t.2.1 (by rw [f.2.1]; rfl)
    refine ⟨hm.1, hm.2, ?_⟩
    intro e; rw [e, w1.noself] at f; cases f.2.1
  have S2 := quadSetFold s ((absL m1).lower.filter (keepPair ii)) ((lower_pairwise w1).filter _) ((absL m1).viewP tv) wP1.symm hmem2
  rw [← h2] at S2
  have hq1 : ((absL m1).viewP tv).quad = ((absL m).viewP tv).quad := S1.2.1
  -- the polynomial after the two loops
  have key : ((absL m2).viewP tv).vars = ((absL m).viewP tv).vars ∧
      (∀ x, ((absL m2).viewP tv).lin x = if iv.contains x then ((absL m).viewP tv).lin x else ((absL m).viewP tv).lin x * s) ∧
      (∀ a b, ((absL m2).viewP tv).quad a b =
        if ii.contains (a, b) || ii.contains (b, a) then ((absL m).viewP tv).quad a b
        else (((absL m).viewP tv).quad a b).map (· * s)) ∧
      ((absL m2).viewP tv).off = ((absL m).viewP tv).off := by
    refine ⟨by rw [S2.1, S1.1], ?_, ?_, by rw [S2.2.2.1, S1.2.2.1]⟩
    · intro x
      rw [S2.2.1, S1.2.2.2.2 x]
      cases hc : iv.contains x with
      | true =>
        have : ¬ x ∈ ((List.range m.labels.length).filter (keepLin m iv)).map (fun j => m.labels.getD j (.int 0)) := by
          intro h; have := ((mem_keepLin_labels m iv x).mp h).2; rw [hc] at this; cases this
        rw [if_neg this]; simp
      | false =>
        simp only [Bool.false_eq_true, if_false]
        by_cases hx : x ∈ m.labels
        · rw [if_pos ((mem_keepLin_labels m iv x).mpr ⟨hx, hc⟩)]; exact Rat.mul_comm _ _
        · have : ¬ x ∈ ((List.range m.labels.length).filter (keepLin m iv)).map (fun j => m.labels.getD j (.int 0)) :=
            fun h => hx ((mem_keepLin_labels m iv x).mp h).1
          rw [if_neg this, wP.lin0 x hx, Rat.zero_mul]
    · intro a b
      by_cases hs : (((absL m1).viewP tv).quad a b).isSome
      · have hcov : ∃ t ∈ (absL m1).lower, (t.1 = a ∧ t.2.1 = b) ∨ (t.1 = b ∧ t.2.1 = a) := by
          apply lower_covers w1
          have hs' : (((absL m1).quad a b).map ((absL m1).viewFactor tv * ·)).isSome := hs
          cases hc : (absL m1).quad a b with
          | none => rw [hc] at hs'; cases hs'
          | some c => rfl
        obtain ⟨t, ht, hab⟩ := hcov
        have hkeep : keepPair ii t = !(ii.contains (a, b) || ii.contains (b, a)) := by
          unfold keepPair
          rcases hab with ⟨x1, x2⟩ | ⟨x1, x2⟩
          · rw [x1, x2]
          · rw [x1, x2, Bool.or_comm]
        cases hig : (ii.contains (a, b) || ii.contains (b, a)) with
        | true =>
          have hnc : ¬ ∃ t' ∈ (absL m1).lower.filter (keepPair ii), (t'.1 = a ∧ t'.2.1 = b) ∨ (t'.1 = b ∧ t'.2.1 = a) := by
            intro ⟨t', ht', hab'⟩
            have hk' := (List.mem_filter.mp ht').2
            unfold keepPair at hk'
            rcases hab' with ⟨x1, x2⟩ | ⟨x1, x2⟩
            · rw [x1, x2, hig] at hk'; cases hk'
            · rw [x1, x2, Bool.or_comm, hig] at hk'; cases hk'
          rw [S2.2.2.2.2.2 a b hnc, hq1]; simp
        | false =>
          have hin : ∃ t' ∈ (absL m1).lower.filter (keepPair ii), (t'.1 = a ∧ t'.2.1 = b) ∨ (t'.1 = b ∧ t'.2.1 = a) :=
            ⟨t, List.mem_filter.mpr ⟨ht, by rw [hkeep, hig]; rfl⟩, hab⟩
          rw [S2.2.2.2.2.1 a b hin, hq1]
          rw [hq1] at hs
          simp only [Bool.false_eq_true, if_false]
          cases hc : ((absL m).viewP tv).quad a b with
          | none => rw [hc] at hs; cases hs
          | some c => simp only [Option.getD_some, Option.map_some]; rw [Rat.mul_comm]
      · have hnc : ¬ ∃ t ∈ (absL m1).lower.filter (keepPair ii), (t.1 = a ∧ t.2.1 = b) ∨ (t.1 = b ∧ t.2.1 = a) := by
          intro ⟨t, ht, hab⟩
          apply hs
          have f := mem_lower (List.mem_filter.mp ht).1
          have hsome : ((absL m1).quad a b).isSome := by
            rcases hab with ⟨x1, x2⟩ | ⟨x1, x2⟩
            · rw [← x1, ← x2, f.2.1]; rfl
            · rw [w1.symm a b, ← x1, ← x2, f.2.1]; rfl
          show (((absL m1).quad a b).map _).isSome
          cases hc : (absL m1).quad a b with
          | none => rw [hc] at hsome; cases hsome
          | some c => rfl
        rw [S2.2.2.2.2.2 a b hnc, hq1]
        rw [hq1] at hs
        cases hc : ((absL m).viewP tv).quad a b with
        | none => simp
        | some c => rw [hc] at hs; exact absurd rfl hs
  cases io with
  | true =>
    simp only [if_true]
    refine ⟨?_, i2⟩
    apply LPoly.ext'
    · exact key.1
    · exact key.2.1
    · exact key.2.2.1
    · exact key.2.2.2
    · rfl
  | false =>
    simp only [Bool.false_eq_true, if_false]
    have r3 := view_setOffset i2 tv (m2.vOffset tv * s)
    refine ⟨?_, r3.2⟩
    rw [r3.1, ← viewOff_absL i2]
    apply LPoly.ext'
    · exact key.1
    · exact key.2.1
    · exact key.2.2.1
    · show ((absL m2).viewP tv).off * s = ((absL m).viewP tv).off * s
      rw [key.2.2.2]
    · rfl

theorem scale_eq_scaleIgnoring (p : LPoly) (s : Rat) : p.scale s = p.scaleIgnoring s [] [] false := by
  apply LPoly.ext'
  · rfl
  · intro l; rfl
  · intro a b; rfl
  · rfl
  · rfl

/-- **`scale(scalar, ignored_variables=…, ignored_interactions=…, ignore_offset=…)` as coded**, every combination of the
    optional arguments (absent = `None`; all absent = the plain `scale`), on the model itself or through a view -/
theorem vScaleIgnoring_refines {m : Bqm} (i : Inv m) (tv : VT) (viaView : Bool) (hvia : viaView = true ∨ tv = m.vt)
    (s : Rat) (iv : Option (List Label)) (ii : Option (List (Label × Label))) (io : Bool) :
    (absL (m.vScaleIgnoring tv viaView s iv ii io)).viewP tv =
      ((absL m).viewP tv).scaleIgnoring s (iv.getD []) (ii.getD []) io ∧
    Inv (m.vScaleIgnoring tv viaView s iv ii io) := by
  unfold Bqm.vScaleIgnoring
  split
  · rename_i h
    have hiv : iv = none := by cases iv <;> simp_all
    have hii : ii = none := by cases ii <;> simp_all
    have hio : io = false := by cases io <;> simp_all
    subst hiv; subst hii; subst hio
    simp only [Option.getD_none]
    rw [← scale_eq_scaleIgnoring]
    cases viaView with
    | true => exact view_scale i tv s
    | false =>
      have htv : tv = m.vt := by rcases hvia with h | h; cases h; exact h
      subst htv
      have r := step_refinesD i (op := .scale s) trivial
      have e0 : m.step .direct (.scale s) = (m.vScale m.vt false s, none) := rfl
      rw [e0] at r
      have hvt : (m.vScale m.vt false s).vt = m.vt := rfl
      have e1 : (absL m).viewP m.vt = absL m := viewP_self (absL m)
      have e2 : (absL (m.vScale m.vt false s)).viewP m.vt = absL (m.vScale m.vt false s) := by
        have := viewP_self (absL (m.vScale m.vt false s)); rw [absL_vt, hvt] at this; exact this
      rw [e1, e2]
      exact ⟨r.1, r.2.2⟩
  · exact scaleIgnLoops_refines i tv viaView hvia s _ _ io

/-- **`normalize(...)` as coded**: a zero bound raises before anything is touched; otherwise either nothing changes
    (`inv_scalar == 0`, returned scalar `1`) or the receiver shows `LPoly.scaleIgnoring` with the computed scalar
    `Bqm.normScalar`, which is also the returned value -/
theorem vNormalize_refines {m : Bqm} (i : Inv m) (tv : VT) (viaView : Bool) (hvia : viaView = true ∨ tv = m.vt)
    (lr qr : Rat × Rat) (iv : Option (List Label)) (ii : Option (List (Label × Label))) (io : Bool) :
    Inv (m.vNormalize tv viaView lr qr iv ii io).1.1 ∧
    ((lr.1 = 0 ∨ lr.2 = 0 ∨ qr.1 = 0 ∨ qr.2 = 0) → m.vNormalize tv viaView lr qr iv ii io = ((m, 1), some .runtime)) ∧
    (¬ (lr.1 = 0 ∨ lr.2 = 0 ∨ qr.1 = 0 ∨ qr.2 = 0) →
      (m.vNormalize tv viaView lr qr iv ii io).2 = none ∧
      match m.normScalar tv lr qr (iv.getD []) (ii.getD []) with
      | some s => (absL (m.vNormalize tv viaView lr qr iv ii io).1.1).viewP tv =
                    ((absL m).viewP tv).scaleIgnoring s (iv.getD []) (ii.getD []) io ∧
                  (m.vNormalize tv viaView lr qr iv ii io).1.2 = s
      | none => (m.vNormalize tv viaView lr qr iv ii io).1 = (m, 1)) := by
  unfold Bqm.vNormalize
  by_cases hz : (lr.1 = 0 ∨ lr.2 = 0 ∨ qr.1 = 0 ∨ qr.2 = 0)
  · have hb : (decide (lr.1 = 0) || decide (lr.2 = 0) || decide (qr.1 = 0) || decide (qr.2 = 0)) = true := by
      simp only [Bool.or_eq_true, decide_eq_true_eq]
      rcases hz with h | h | h | h
      · exact Or.inl (Or.inl (Or.inl h))
      · exact Or.inl (Or.inl (Or.inr h))
      · exact Or.inl (Or.inr h)
      · exact Or.inr h
    rw [if_pos hb]
    exact ⟨i, fun _ => rfl, fun h => absurd hz h⟩
  · have hb : ¬ (decide (lr.1 = 0) || decide (lr.2 = 0) || decide (qr.1 = 0) || decide (qr.2 = 0)) = true := by
      simp only [Bool.or_eq_true, decide_eq_true_eq]
      intro h
      apply hz
      rcases h with ((h | h) | h) | h
      · exact Or.inl h
      · exact Or.inr (Or.inl h)
      · exact Or.inr (Or.inr (Or.inl h))
      · exact Or.inr (Or.inr (Or.inr h))
    rw [if_neg hb]
    cases hs : m.normScalar tv lr qr (iv.getD []) (ii.getD []) with
    | none => exact ⟨i, fun h => absurd h hz, fun _ => ⟨rfl, rfl⟩⟩
    | some s =>
      have r := scaleIgnLoops_refines i tv viaView hvia s (iv.getD []) (ii.getD []) io
      exact ⟨r.2, fun h => absurd h hz, fun _ => ⟨rfl, r.1, rfl⟩⟩

/-! ### the data's vartype is kept -/

theorem vt_ignLinFold (tv : VT) (s : Rat) (iv : List Label) (is : List Nat) (acc : Bqm) :
    (is.foldl (scaleIgnLinStep tv s iv) acc).vt = acc.vt := by
  induction is generalizing acc with
  | nil => rfl
  | cons j t ih =>
    simp only [List.foldl]
    rw [ih]
    unfold scaleIgnLinStep
    split
    · split
      · rfl
      · exact vt_vSetLinear _ _ _ _
    · rfl

theorem vt_setQuadVia (m : Bqm) (tv : VT) (viaView : Bool) (u v : Label) (b : Rat) : (m.setQuadVia tv viaView u v b).vt = m.vt := by
  unfold Bqm.setQuadVia
  cases viaView
  · exact vt_quadOp m u v b true
  · exact vt_vSetQuadratic m tv u v b

theorem vt_ignQuadFold (tv : VT) (viaView : Bool) (s : Rat) (ii : List (Label × Label)) (ts : List (Nat × Nat × Rat)) (acc : Bqm) :
    (ts.foldl (scaleIgnQuadStep tv viaView s ii) acc).vt = acc.vt := by
  induction ts generalizing acc with
  | nil => rfl
  | cons t rest ih =>
    simp only [List.foldl]
    rw [ih]
    unfold scaleIgnQuadStep
    split
    · split
      · rfl
      · exact vt_setQuadVia _ _ _ _ _ _
    · rfl

theorem vt_scaleIgnLoops (m : Bqm) (tv : VT) (viaView : Bool) (s : Rat) (iv : List Label) (ii : List (Label × Label)) (io : Bool) :
    (m.scaleIgnLoops tv viaView s iv ii io).vt = m.vt := by
  unfold Bqm.scaleIgnLoops
  simp only []
  cases io
  · simp only [Bool.false_eq_true, if_false]
    rw [vt_vSetOffset, vt_ignQuadFold, vt_ignLinFold]
  · simp only [if_true]
    rw [vt_ignQuadFold, vt_ignLinFold]

/-- a call on the model itself keeps the data's vartype -/
theorem vt_vScaleIgnoring_direct (m : Bqm) (s : Rat) (iv : Option (List Label)) (ii : Option (List (Label × Label))) (io : Bool) :
    (m.vScaleIgnoring m.vt false s iv ii io).vt = m.vt := by
  unfold Bqm.vScaleIgnoring
  split
  · rfl
  · exact vt_scaleIgnLoops m m.vt false s _ _ io

end Bqm
