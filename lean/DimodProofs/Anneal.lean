import DimodModel.Anneal
import DimodProofs.EnumPost

/-! C07: the stochastic samplers over explicit draw streams — whatever the draws, the rows are over exactly the
    problem's variables, in domain, and carry the problem's energy. -/

namespace Enum

/-- every value is a spin -/
def PM1 (sp : List (Label × Rat)) : Prop := ∀ p ∈ sp, p.2 = 1 ∨ p.2 = -1

theorem classStep_keys (J : List (Label × Label × Rat)) (beta : Option Rat) (dh draw : Label → Rat) (spins : List (Label × Rat))
    (nodes : List Label) : (classStep J beta dh draw spins nodes).map (·.1) = spins.map (·.1) := by
  unfold classStep
  rw [List.map_map]
  apply List.map_congr_left
  intro p _
  obtain ⟨l, s⟩ := p
  simp only [Function.comp]
  split <;> rfl

theorem classStep_pm1 (J : List (Label × Label × Rat)) (beta : Option Rat) (dh draw : Label → Rat) (spins : List (Label × Rat))
    (nodes : List Label) (h : PM1 spins) : PM1 (classStep J beta dh draw spins nodes) := by
  intro p hp
  unfold classStep at hp
  obtain ⟨q, hq, rfl⟩ := List.mem_map.mp hp
  obtain ⟨l, s⟩ := q
  have hs := h (l, s) hq
  simp only at hs ⊢
  split
  · rcases hs with h1 | h1
    · right; simp [h1]
    · left; simp [h1]
  · exact hs

theorem classFold_spec (J : List (Label × Label × Rat)) (beta : Option Rat) (dh draw : Label → Rat) (classes : List (Nat × List Label)) :
    ∀ sp : List (Label × Rat),
      (classes.foldl (fun sp c => classStep J beta dh draw sp c.2) sp).map (·.1) = sp.map (·.1) ∧
      (PM1 sp → PM1 (classes.foldl (fun sp c => classStep J beta dh draw sp c.2) sp)) := by
  induction classes with
  | nil => intro sp; exact ⟨rfl, id⟩
  | cons c t ih =>
    intro sp
    simp only [List.foldl_cons]
    obtain ⟨h1, h2⟩ := ih (classStep J beta dh draw sp c.2)
    exact ⟨by rw [h1, classStep_keys], fun hp => h2 (classStep_pm1 J beta dh draw sp c.2 hp)⟩

theorem sweep_spec (h : List (Label × Rat)) (J : List (Label × Label × Rat)) (classes : List (Nat × List Label)) (beta : Option Rat)
    (draw : Label → Rat) (spins : List (Label × Rat)) :
    (sweep h J classes beta draw spins).map (·.1) = spins.map (·.1) ∧ (PM1 spins → PM1 (sweep h J classes beta draw spins)) :=
  classFold_spec J beta (diffH h spins) draw classes spins

theorem annealLoop_spec (h : List (Label × Rat)) (J : List (Label × Label × Rat)) (classes : List (Nat × List Label))
    (betas : List (Option Rat)) (σ : Nat → Label → Rat) :
    ∀ (i : Nat) (sp : List (Label × Rat)),
      (annealLoop h J classes betas σ i sp).map (·.1) = sp.map (·.1) ∧ (PM1 sp → PM1 (annealLoop h J classes betas σ i sp)) := by
  induction betas with
  | nil => intro i sp; exact ⟨rfl, id⟩
  | cons b bs ih =>
    intro i sp
    simp only [annealLoop]
    obtain ⟨h1, h2⟩ := ih (i + 1) (sweep h J classes b (σ i) sp)
    obtain ⟨k1, k2⟩ := sweep_spec h J classes b (σ i) sp
    exact ⟨by rw [h1, k1], fun hp => h2 (k2 hp)⟩

theorem initSpins_spec (h : List (Label × Rat)) (c : Label → Rat) :
    (initSpins h c).map (·.1) = h.map (·.1) ∧ PM1 (initSpins h c) := by
  constructor
  · unfold initSpins
    rw [List.map_map]
    apply List.map_congr_left
    intro p _
    rfl
  · intro p hp
    unfold initSpins at hp
    obtain ⟨q, _, rfl⟩ := List.mem_map.mp hp
    simp only
    split
    · right; rfl
    · left; rfl

/-- **one annealing run, whatever the draws**: the spins it ends in are over exactly the keys of `h`, in `h`'s
    order, each −1 or +1 -/
theorem isingSA_spec (h : List (Label × Rat)) (J : List (Label × Label × Rat)) (br : Option (Rat × Rat)) (ns : Int) (np : Bool) (d : Draws)
    (sp : List (Label × Rat)) (hr : isingSA h J br ns np d = .ok sp) : sp.map (·.1) = h.map (·.1) ∧ PM1 sp := by
  unfold isingSA at hr
  split at hr
  · cases hr
  · split at hr
    · cases hr
    · split at hr
      · cases hr
      · simp only [Except.ok.injEq] at hr
        subst hr
        obtain ⟨i1, i2⟩ := initSpins_spec h d.init
        obtain ⟨a1, a2⟩ := annealLoop_spec h J (colorClasses h J) _ d.acc 0 (initSpins h d.init)
        exact ⟨by rw [a1, i1], a2 i2⟩

theorem saReads_spec (h : List (Label × Rat)) (J : List (Label × Label × Rat)) (br : Option (Rat × Rat)) (ns : Int) (np : Bool) :
    ∀ (reads : List Draws) (sps : List (List (Label × Rat))), saReads h J br ns np reads = .ok sps →
      sps.length = reads.length ∧ ∀ sp ∈ sps, sp.map (·.1) = h.map (·.1) ∧ PM1 sp := by
  intro reads
  induction reads with
  | nil =>
    intro sps hr
    simp only [saReads, Except.ok.injEq] at hr
    subst hr
    exact ⟨rfl, by simp⟩
  | cons d ds ih =>
    intro sps hr
    simp only [saReads] at hr
    cases h1 : isingSA h J br ns np d with
    | error e => rw [h1] at hr; cases hr
    | ok sp =>
      rw [h1] at hr
      cases h2 : saReads h J br ns np ds with
      | error e => rw [h2] at hr; cases hr
      | ok rest =>
        rw [h2] at hr
        simp only [Except.ok.injEq] at hr
        subst hr
        obtain ⟨l, hall⟩ := ih rest h2
        refine ⟨by simp [l], ?_⟩
        intro x hx
        rcases List.mem_cons.mp hx with rfl | hx
        · exact isingSA_spec h J br ns np d _ h1
        · exact hall x hx

theorem find_isSome_of_key (x : List (Label × Rat)) (l : Label) (hl : l ∈ x.map (·.1)) :
    (x.find? (fun p => p.1 = l)).isSome = true := by
  obtain ⟨p, hp, rfl⟩ := List.mem_map.mp hl
  rw [List.find?_isSome]
  exact ⟨p, hp, by simp⟩

/-- the domain of the problem's vartype -/
def InVartype (spin : Bool) (v : Rat) : Prop := if spin then (v = 1 ∨ v = -1) else (v = 0 ∨ v = 1)

/-- **SimulatedAnnealingSampler.sample, whatever the draws**: one row per read; every row is over exactly the
    problem's variables (the keys of `h`, where `h, J` is the Ising form of the problem: every label of the problem
    has an entry in `h`), every value lies in the domain of the problem's vartype, and the reported energy is the
    submitted problem's energy of that row -/
theorem saSample_rows (m : Bqm) (h : List (Label × Rat)) (J : List (Label × Label × Rat)) (br : Option (Rat × Rat)) (ns : Int) (np : Bool)
    (reads : List Draws) (out : List Row) (hs : saSample m h J br ns np reads = .ok out)
    (hkeys : ∀ l ∈ ({ m.toSpin with off := 0 } : Bqm).labels, l ∈ h.map (·.1)) :
    out.length = reads.length ∧
    ∀ r ∈ out, r.energy = m.energy r.val ∧ r.x.map (·.1) = h.map (·.1) ∧ ∀ p ∈ r.x, InVartype m.spin p.2 := by
  unfold saSample at hs
  split at hs
  · cases hs
  · cases hr : saReads h J br ns np reads with
    | error e => rw [hr] at hs; cases hs
    | ok spins =>
      rw [hr] at hs
      simp only [Except.ok.injEq] at hs
      subst hs
      obtain ⟨hl, hall⟩ := saReads_spec h J br ns np reads spins hr
      have hcov : ∀ x ∈ spins, (Row.mk x 0).Covers ({ m.toSpin with off := 0 } : Bqm).labels := by
        intro x hx l hlm
        exact find_isSome_of_key x l (by rw [(hall x hx).1]; exact hkeys l hlm)
      have hE := sa_energy m spins hcov
      refine ⟨?_, ?_⟩
      · unfold saAssemble
        simp only
        split <;> simp [hl]
      · intro r hrm
        refine ⟨hE r hrm, ?_⟩
        unfold saAssemble at hrm
        simp only at hrm
        cases hsp : m.spin with
        | true =>
          simp only [hsp, if_true, List.map_map, List.mem_map, Function.comp] at hrm
          obtain ⟨x, hx, rfl⟩ := hrm
          obtain ⟨k1, k2⟩ := hall x hx
          refine ⟨k1, ?_⟩
          intro p hp
          simpa [InVartype] using k2 p hp
        | false =>
          simp only [hsp, Bool.false_eq_true, if_false, List.map_map, List.mem_map, Function.comp] at hrm
          obtain ⟨x, hx, rfl⟩ := hrm
          obtain ⟨k1, k2⟩ := hall x hx
          simp only [Row.toBinary]
          refine ⟨by rw [List.map_map, ← k1]; apply List.map_congr_left; intro p _; rfl, ?_⟩
          intro p hp
          obtain ⟨q, hq, rfl⟩ := List.mem_map.mp hp
          rcases k2 q hq with h1 | h1
          · right; simp only [h1]; norm_num
          · left; simp only [h1]; norm_num

/-- refusals: fewer than one read, a non-positive β, a non-positive number of sweeps are `ValueError`s; a single
    sweep divides by zero in the β schedule (as coded) — an exception for Python floats, a `nan` β (no spin is
    ever flipped: the rows are the initial guesses, still with their true energies) for NumPy scalars -/
theorem saSample_refuses (m : Bqm) (h : List (Label × Rat)) (J : List (Label × Label × Rat)) (br : Option (Rat × Rat)) (ns : Int) (np : Bool) :
    saSample m h J br ns np [] = .error .value ∧
    (∀ b0 b1 f, ns ≤ 0 → betaSchedule b0 b1 ns f = .error .value) ∧
    (∀ b0 b1, betaSchedule b0 b1 1 false = .error .zerodiv ∧ betaSchedule b0 b1 1 true = .ok [none]) ∧
    (∀ a b, (a ≤ 0 ∨ b ≤ 0) → betaEnds h J (some (a, b)) = .error .value) := by
  refine ⟨by simp [saSample], ?_, ?_, ?_⟩
  · intro b0 b1 f hns; simp [betaSchedule, hns]
  · intro b0 b1; simp [betaSchedule]
  · intro a b hab; simp [betaEnds, hab]

/-! ### RandomSampler -/

theorem coin_dom (spin : Bool) (d : Rat) : InVartype spin (coin spin d) := by
  unfold coin InVartype
  cases spin <;> by_cases h : d = 0 <;> simp [h]

theorem randomRows_spec (spin : Bool) (n rem : Nat) (σ : Nat → Rat) :
    (randomRows spin n rem σ).length = rem ∧
    ∀ row ∈ randomRows spin n rem σ, row.length = n ∧ ∀ v ∈ row, InVartype spin v := by
  unfold randomRows
  refine ⟨by simp, ?_⟩
  intro row hrow
  obtain ⟨i, _, rfl⟩ := List.mem_map.mp hrow
  refine ⟨by simp, ?_⟩
  intro v hv
  obtain ⟨j, _, rfl⟩ := List.mem_map.mp hv
  exact coin_dom spin _

/-- **RandomSampler.sample, whatever the PRNG delivers**: `num_reads ≥ 1` rows; every row is over exactly the
    problem's variables in their order, every value lies in the domain of the problem's vartype, and the reported
    energy is the submitted problem's energy of that row; `num_reads < 1` is refused -/
theorem randomSample_spec (m : Bqm) (labels : List Label) (nr : Nat) (σ : Nat → Rat) (hlab : ∀ l ∈ m.labels, l ∈ labels) :
    (nr < 1 → randomSample m labels nr σ = .error ()) ∧
    ∀ out, randomSample m labels nr σ = .ok out →
      out.length = nr ∧
      ∀ ro ∈ out, ro.energy = m.energy ro.val ∧ ro.x.map (·.1) = labels ∧ ∀ p ∈ ro.x, InVartype m.spin p.2 := by
  obtain ⟨hlen, hrows⟩ := randomRows_spec m.spin labels.length nr σ
  constructor
  · intro hn
    simp [randomSample, parseInitialStates, pisCore, hn]
  · intro out hout
    have hE := pis_energy m labels [] none .random (some nr) _ out hout hlab (by simp) (fun r hr => (hrows r hr).1)
    unfold randomSample parseInitialStates pisCore at hout
    simp only [List.map_nil, extrapolate, List.nil_append, List.length_nil, Nat.sub_zero] at hout
    split at hout
    · cases hout
    · simp only [Except.ok.injEq] at hout
      subst hout
      have htake : ((randomRows m.spin labels.length nr σ).take nr).take nr = randomRows m.spin labels.length nr σ := by
        rw [List.take_take, Nat.min_self, List.take_of_length_le (by omega)]
      rw [htake] at hE ⊢
      refine ⟨by simp [hlen], ?_⟩
      intro ro hro
      refine ⟨hE ro hro, ?_⟩
      obtain ⟨row, hrow, rfl⟩ := List.mem_map.mp hro
      obtain ⟨hl, hd⟩ := hrows row hrow
      simp only
      refine ⟨List.map_fst_zip (by omega), ?_⟩
      intro p hp
      exact hd p.2 (List.of_mem_zip hp).2

/-! ### entry-point wrappers -/

theorem polyEnergy_app (x : Label → Rat) (a b : Poly) : polyEnergy x (a ++ b) = polyEnergy x a + polyEnergy x b := by
  induction a with
  | nil => simp [polyEnergy]
  | cons t rest ih =>
    obtain ⟨ls, c⟩ := t
    simp only [List.cons_append, polyEnergy, ih]
    ring

theorem polyEnergy_singletons (x : Label → Rat) (h : List (Label × Rat)) :
    polyEnergy x (h.map fun (v, b) => ([v], b)) = linE x h := by
  induction h with
  | nil => rfl
  | cons p t ih =>
    obtain ⟨v, b⟩ := p
    simp only [List.map_cons, polyEnergy, termProd, linE, ih]
    ring

/-- `sample_hising` / `sample_hubo`: the rows carry the energy of the polynomial handed to `sample_poly`; when no
    term of `J` is a single variable of `h` (the documented use: `h` linear, `J` higher order) that polynomial's
    energy is `Σ h_v·x_v + Σ_J b·Π x` -/
theorem hising_hubo_energy (child : Poly → List Row) (hchild : ∀ q, ∀ r ∈ child q, r.energy = polyEnergy r.val q)
    (h : List (Label × Rat)) (J H : Poly) :
    (∀ r ∈ sampleHising child h J, r.energy = polyEnergy r.val (fromHising h J)) ∧
    (∀ r ∈ sampleHubo child H, r.energy = polyEnergy r.val H) ∧
    ((∀ p ∈ h, ∀ t ∈ J, t.1 ≠ [p.1]) → ∀ x, polyEnergy x (fromHising h J) = linE x h + polyEnergy x J) := by
  refine ⟨fun r hr => hchild _ r hr, fun r hr => hchild _ r hr, ?_⟩
  intro hdis x
  have hf : (h.filter fun (v, _) => !J.any (fun t => t.1 = [v])) = h := by
    apply List.filter_eq_self.mpr
    intro p hp
    obtain ⟨v, b⟩ := p
    simp only [Bool.not_eq_true', List.any_eq_false, decide_eq_true_eq]
    intro t ht
    exact hdis (v, b) hp t ht
  unfold fromHising
  rw [hf, polyEnergy_app, polyEnergy_singletons]

end Enum
