import DimodProofs.C02PyHist

/-! # C03 — the dict back-end (`dtype=object`): `remove_variable` and the generic `fix_variable` of `views/quadratic.py`
at the level of the polynomial, on every state satisfying the representation invariant of `C02PyHist` (hence after any
edit history). -/

namespace En

open Generated.Vartype

/-! ### `remove_variable` and the generic `fix_variable` on the dict back-end, at the level of the polynomial -/

theorem okeys_pop_erase {β : Type} (d : ODict Label β) (k : Label) : okeys (ODict.pop d k) = (okeys d).erase k := by
  induction d with
  | nil => simp [ODict.pop, okeys]
  | cons e t ih =>
    obtain ⟨k0, b0⟩ := e
    simp only [ODict.pop]
    by_cases h : k0 = k
    · subst h; simp [okeys]
    · simp only [h, if_false]
      show k0 :: okeys (ODict.pop t k) = (k0 :: okeys t).erase k
      rw [ih, List.erase_cons_tail (by simpa using h)]

theorem okeys_set_mem {β : Type} (d : ODict Label β) (k : Label) (v : β) (h : k ∈ okeys d) : okeys (ODict.set d k v) = okeys d := by
  induction d with
  | nil => cases h
  | cons e t ih =>
    obtain ⟨k0, b0⟩ := e
    simp only [ODict.set]
    by_cases h0 : k0 = k
    · subst h0; simp [okeys]
    · simp only [h0, if_false]
      have : k ∈ okeys t := by
        simp only [okeys, List.map_cons, List.mem_cons] at h
        rcases h with e | e
        · exact absurd e.symm h0
        · exact e
      show k0 :: okeys (ODict.set t k v) = k0 :: okeys t
      rw [ih this]

theorem sum_erase (K : List Label) (v : Label) (hv : v ∈ K) (f : Label → Rat) :
    ((K.erase v).map f).sum = (K.map f).sum - f v := by
  induction K with
  | nil => cases hv
  | cons a t ih =>
    by_cases h : a = v
    · subst h; simp
    · have hv' : v ∈ t := by
        rcases List.mem_cons.mp hv with e | e
        · exact absurd e.symm h
        · exact e
      rw [List.erase_cons_tail (by simpa using h)]
      simp only [List.map_cons, List.sum_cons, ih hv']; ring

namespace LBqm

theorem okeys_foldl_rowStep (f : Label → ODict Label Rat → ODict Label Rat) (skip : Label) (N : ODict Label Rat)
    (adj : ODict Label (ODict Label Rat)) (h : ∀ k ∈ okeys N, k ≠ skip → k ∈ okeys adj) :
    okeys (N.foldl (rowStep f skip) adj) = okeys adj := by
  induction N generalizing adj with
  | nil => rfl
  | cons p rest ih =>
    simp only [List.foldl_cons]
    have hstep : okeys (rowStep f skip adj p) = okeys adj := by
      unfold rowStep
      by_cases hp : p.1 = skip
      · simp only [hp, if_true]
      · simp only [hp, if_false]
        exact okeys_set_mem _ _ _ (h p.1 (by simp [okeys]) hp)
    rw [ih, hstep]
    intro k hk hks
    rw [hstep]
    exact h k (by simp only [okeys, List.map_cons, List.mem_cons]; exact Or.inr hk) hks

theorem rowVal_pop (x : Label → Rat) (u v : Label) (huv : u ≠ v) (row : ODict Label Rat) (hnd : (okeys row).Nodup) :
    rowVal (1/2) x u (ODict.pop row v) = rowVal (1/2) x u row - (ODict.get? row v).getD 0 * (1/2 * x u * x v) := by
  induction row with
  | nil => simp [ODict.pop, rowVal, ODict.get?]
  | cons e t ih =>
    obtain ⟨k, b⟩ := e
    simp only [okeys, List.map_cons, List.nodup_cons] at hnd
    simp only [ODict.pop, ODict.get?]
    by_cases h : k = v
    · subst h
      have hvu : ¬ k = u := fun e => huv e.symm
      simp only [if_true, Option.getD_some]
      unfold rowVal
      simp only [List.map_cons, List.sum_cons, hvu, if_false]; ring
    · simp only [h, if_false]
      have := ih hnd.2
      unfold rowVal at this ⊢
      simp only [List.map_cons, List.sum_cons]
      rw [this]; ring

end LBqm
namespace LBqm

theorem sum_ite_ne (K : List Label) (hK : K.Nodup) (v : Label) (hv : v ∈ K) (f : Label → Rat) :
    (K.map fun u => if u = v then 0 else f u).sum = (K.map f).sum - f v := by
  have h : (K.map f) = K.map fun u => (if v = u then f v else 0) + (if u = v then 0 else f u) := by
    apply List.map_congr_left
    intro u _
    by_cases e : u = v
    · subst e; simp
    · have : ¬ v = u := fun x => e x.symm
      simp [e, this]
  rw [h, sum_map_add', sum_ite_single K hK v hv (f v)]; ring

/-- **`remove_variable(v)` removes exactly the terms that mention `v`** -/
theorem removeVariable_evalL {m : LBqm Rat} (g : GInv m) (v : Label) (nv : ODict Label Rat) (hv : ODict.get? m.adj v = some nv) :
    ∃ m', m.removeVariable v = .ok m' ∧ GInv m' ∧ m'.vt = m.vt ∧ okeys m'.adj = (okeys m.adj).erase v ∧
      ∀ x, evalL (1/2) m' x
        = evalL (1/2) m x - (lbias v nv * x v + ((others v nv).map fun p => p.2 * (x v * x p.1)).sum) := by
  have i := g.toLInv
  have hstep : (fun (adj : ODict Label (ODict Label Rat)) (p : Label × Rat) =>
      if p.1 = v then adj else ODict.set adj p.1 (ODict.pop ((ODict.get? adj p.1).getD []) v))
      = rowStep (fun _ row => ODict.pop row v) v := rfl
  have hrm : m.removeVariable v = .ok { m with adj := nv.foldl (rowStep (fun _ row => ODict.pop row v) v) (ODict.pop m.adj v) } := by
    unfold LBqm.removeVariable; rw [hv]; simp only []; rw [hstep]
  have hvK : v ∈ okeys m.adj := mem_keys_of_get? _ _ _ hv
  have hmem : (v, nv) ∈ m.adj := mem_of_get? _ _ _ hv
  have hnvn := (g.s.rows v nv hv).1
  have hkeys0 : okeys (nv.foldl (rowStep (fun _ row => ODict.pop row v) v) (ODict.pop m.adj v)) = (okeys m.adj).erase v := by
    rw [okeys_foldl_rowStep, okeys_pop_erase]
    intro k hk hkv
    rw [mem_okeys_pop _ g.s.nodup]
    exact ⟨hkv, i.closed v nv hmem k hk⟩
  refine ⟨_, hrm, g.removeVariable_ok v hrm, rfl, hkeys0, ?_⟩
  intro x
  set res := nv.foldl (rowStep (fun _ row => ODict.pop row v) v) (ODict.pop m.adj v) with hres
  have hresnd : (okeys res).Nodup := foldl_rowStep_nodup _ _ _ _ (okeys_pop_nodup _ g.s.nodup v)
  have hkeys : okeys res = (okeys m.adj).erase v := hkeys0
  have hget : ∀ k, ODict.get? res k
      = if k ∈ okeys nv ∧ k ≠ v then some (ODict.pop ((ODict.get? (ODict.pop m.adj v) k).getD []) v) else ODict.get? (ODict.pop m.adj v) k :=
    fun k => foldl_rowStep_get? _ _ nv hnvn _ k
  -- each remaining row
  have hrow : ∀ u ∈ (okeys m.adj).erase v, rowVal (1/2) x u ((ODict.get? res u).getD [])
      = rowVal (1/2) x u ((ODict.get? m.adj u).getD []) - m.entry u v * (1/2 * x u * x v) := by
    intro u hu
    have huK : u ∈ okeys m.adj := List.mem_of_mem_erase hu
    have huv : u ≠ v := by
      intro e; subst e
      exact (List.Nodup.not_mem_erase g.s.nodup) hu
    have hvu : ¬ v = u := fun e => huv e.symm
    obtain ⟨ru, hru⟩ := Option.isSome_iff_exists.mp ((isSome_get?_iff _ _).mpr huK)
    have hrnd := (g.s.rows u ru hru).1
    have hent : m.entry u v = (ODict.get? ru v).getD 0 := by unfold entry; rw [hru]; rfl
    rw [hget u, get?_pop _ g.s.nodup, if_neg hvu, hru]
    by_cases hm : u ∈ okeys nv
    · simp only [hm, huv, ne_eq, not_false_eq_true, and_self, if_true, Option.getD_some]
      rw [rowVal_pop x u v huv ru hrnd, hent]
    · simp only [hm, false_and, if_false, Option.getD_some]
      have : m.entry u v = 0 := by
        rw [entry_eq_look, g.sym u v, look_none_of_not_key m v u nv hv hm]; rfl
      rw [this]; ring
  unfold evalL
  simp only []
  rw [sum_items_eq_keys res hresnd [] (fun u r => rowVal (1/2) x u r), hkeys]
  have e1 : (((okeys m.adj).erase v).map fun u => rowVal (1/2) x u ((ODict.get? res u).getD []))
      = ((okeys m.adj).erase v).map fun u => rowVal (1/2) x u ((ODict.get? m.adj u).getD []) - m.entry u v * (1/2 * x u * x v) :=
    List.map_congr_left hrow
  rw [e1, sum_erase _ v hvK, sum_items_eq_keys m.adj g.s.nodup [] (fun u r => rowVal (1/2) x u r)]
  have e2 : ((okeys m.adj).map fun u => rowVal (1/2) x u ((ODict.get? m.adj u).getD []) - m.entry u v * (1/2 * x u * x v))
      = (okeys m.adj).map fun u => rowVal (1/2) x u ((ODict.get? m.adj u).getD []) + (-1) * (m.entry u v * (1/2 * x u * x v)) := by
    apply List.map_congr_left; intro u _; ring
  rw [e2, sum_map_add', sum_map_mul_left']
  -- the entries of column v, via the row of v
  have e3 : ((okeys m.adj).map fun u => m.entry u v * (1/2 * x u * x v)).sum
      = m.entry v v * (1/2 * x v * x v) + 1/2 * ((others v nv).map fun p => p.2 * (x v * x p.1)).sum := by
    have := others_over_keys m i v nv hmem (fun u => x v * x u)
    rw [this]
    have h4 := sum_ite_ne (okeys m.adj) g.s.nodup v hvK (fun u => m.entry v u * (x v * x u))
    rw [h4]
    have h5 : ((okeys m.adj).map fun u => m.entry u v * (1/2 * x u * x v))
        = (okeys m.adj).map fun u => 1/2 * (m.entry v u * (x v * x u)) := by
      apply List.map_congr_left; intro u _; rw [i.sym u v]; ring
    rw [h5, sum_map_mul_left']; ring
  rw [e3, hv]
  simp only [Option.getD_some]
  obtain ⟨b, hb⟩ := i.self v nv hmem
  have hl : lbias v nv = b := by unfold lbias; rw [hb]; rfl
  rw [rowVal_split x v nv hnvn b hb, hl]
  have e6 : ((others v nv).map fun p => 1/2 * p.2 * x v * x p.1) = (others v nv).map fun p => 1/2 * (p.2 * (x v * x p.1)) := by
    apply List.map_congr_left; intro p _; ring
  rw [e6, sum_map_mul_left']
  ring

end LBqm
namespace LBqm

theorem foldl_addLinear_keys (a : Rat) (N : ODict Label Rat) :
    ∀ (m : LBqm Rat), (∀ p ∈ N, p.1 ∈ okeys m.adj) → okeys (N.foldl (fun m p => m.addLinear p.1 (a * p.2)) m).adj = okeys m.adj := by
  induction N with
  | nil => intro m _; rfl
  | cons p rest ih =>
    intro m h
    simp only [List.foldl_cons]
    have h1 : okeys (m.addLinear p.1 (a * p.2)).adj = okeys m.adj := by
      unfold LBqm.addLinear; exact okeys_set_mem _ _ _ (h p List.mem_cons_self)
    rw [ih _ (fun q hq => by rw [h1]; exact h q (List.mem_cons_of_mem _ hq)), h1]

theorem foldl_addLinear_facts (a : Rat) (v : Label) (N : ODict Label Rat) (hN : ∀ p ∈ N, p.1 ≠ v) :
    ∀ (m : LBqm Rat), GInv m →
      GInv (N.foldl (fun m p => m.addLinear p.1 (a * p.2)) m) ∧
      ODict.get? (N.foldl (fun m p => m.addLinear p.1 (a * p.2)) m).adj v = ODict.get? m.adj v ∧
      (N.foldl (fun m p => m.addLinear p.1 (a * p.2)) m).off = m.off ∧
      (N.foldl (fun m p => m.addLinear p.1 (a * p.2)) m).vt = m.vt ∧
      ∀ x, evalL (1/2) (N.foldl (fun m p => m.addLinear p.1 (a * p.2)) m) x
        = evalL (1/2) m x + (N.map fun p => a * p.2 * x p.1).sum := by
  induction N with
  | nil => intro m g; exact ⟨g, rfl, rfl, rfl, fun x => by simp⟩
  | cons p rest ih =>
    intro m g
    have hp : p.1 ≠ v := hN p List.mem_cons_self
    obtain ⟨g', h1, h2, h3, h4⟩ := ih (fun q hq => hN q (List.mem_cons_of_mem _ hq)) (m.addLinear p.1 (a * p.2)) (g.addLinear _ _)
    simp only [List.foldl_cons]
    refine ⟨g', ?_, ?_, ?_, ?_⟩
    · rw [h1]; unfold LBqm.addLinear; exact get?_set_ne _ _ _ _ hp
    · rw [h2]; rfl
    · rw [h3]; rfl
    · intro x
      rw [h4 x, evalL_addLinear]
      simp only [List.map_cons, List.sum_cons]; ring

/-- **the generic `fix_variable(v, a)` on the dict back-end** (`QuadraticViewsMixin.fix_variable` over `iter_neighborhood`,
    `add_linear`, `get_linear`, the offset setter, `remove_variable`), on any state satisfying the invariant: it succeeds,
    keeps the invariant and the vartype, and at every assignment that gives `v` the value `a` the fixed model has the value of the
    original -/
theorem fixVariable_evalL {m : LBqm Rat} (g : GInv m) (v : Label) (hvK : v ∈ okeys m.adj) (a : Rat) :
    ∃ m', m.fixVariable v a = .ok m' ∧ GInv m' ∧ m'.vt = m.vt ∧ okeys m'.adj = (okeys m.adj).erase v ∧
      ∀ x, x v = a → evalL (1/2) m' x = evalL (1/2) m x := by
  obtain ⟨nv, hv⟩ := Option.isSome_iff_exists.mp ((isSome_get?_iff _ _).mpr hvK)
  have rv := g.s.rows v nv hv
  obtain ⟨b, hb⟩ := Option.isSome_iff_exists.mp ((isSome_get?_iff _ _).mpr rv.2)
  have hnb : m.neighborhood v = .ok (others v nv) := by unfold LBqm.neighborhood others; rw [hv]
  have hN : ∀ p ∈ others v nv, p.1 ≠ v := by
    intro p hp; unfold others at hp; simpa using (List.mem_filter.mp hp).2
  obtain ⟨g1, k1, k2, k3, k4⟩ := foldl_addLinear_facts a v (others v nv) hN m g
  set m1 := (others v nv).foldl (fun m p => m.addLinear p.1 (a * p.2)) m with hm1
  have hv1 : ODict.get? m1.adj v = some nv := by rw [k1]; exact hv
  have hgl : m1.getLinear v = .ok b := by unfold LBqm.getLinear; rw [hv1]; simp [hb]
  have g2 : GInv { m1 with off := m1.off + a * b } := g1.setOffset _
  obtain ⟨m', r1, r2, r3, rk, r4⟩ := removeVariable_evalL g2 v nv hv1
  have hk1 : okeys m1.adj = okeys m.adj := by
    rw [hm1]
    apply foldl_addLinear_keys
    intro p hp
    have hp' : p.1 ∈ okeys nv := by
      unfold others at hp
      exact List.mem_map.mpr ⟨p, (List.mem_filter.mp hp).1, rfl⟩
    exact g.toLInv.closed v nv (mem_of_get? _ _ _ hv) p.1 hp'
  refine ⟨m', ?_, r2, by rw [r3]; exact k3, ?_, ?_⟩
  · unfold LBqm.fixVariable
    rw [hnb]
    simp only [bind, Except.bind, ← hm1, hgl]
    exact r1
  · rw [rk]; simp only []; rw [hk1]
  · intro x hx
    rw [r4 x]
    have hl : lbias v nv = b := by unfold lbias; rw [hb]; rfl
    have e0 : evalL (1/2) { m1 with off := m1.off + a * b } x = evalL (1/2) m1 x + a * b := by
      unfold evalL; simp only []; ring
    rw [e0, k4 x, hl, hx]
    have e1 : ((others v nv).map fun p => a * p.2 * x p.1) = (others v nv).map fun p => p.2 * (a * x p.1) := by
      apply List.map_congr_left; intro p _; ring
    rw [e1]; ring

/-- **several variables on the dict back-end**: for distinct variables of the model, in the order given, the loop succeeds, the
    remaining variables are the others in their order, and the result agrees with the original at every assignment that
    gives the fixed variables their values (simultaneous substitution) -/
theorem fixVariables_evalL (fixed : List (Label × Rat)) :
    ∀ (m : LBqm Rat), GInv m → (fixed.map (·.1)).Nodup → (∀ p ∈ fixed, p.1 ∈ okeys m.adj) →
      ∃ m', fixVariables m fixed = .ok m' ∧ GInv m' ∧ m'.vt = m.vt ∧
        okeys m'.adj = (okeys m.adj).filter (fun l => !(fixed.map (·.1)).contains l) ∧
        ∀ x, (∀ p ∈ fixed, x p.1 = p.2) → evalL (1/2) m' x = evalL (1/2) m x := by
  induction fixed with
  | nil =>
    intro m g _ _
    exact ⟨m, rfl, g, rfl, by simp, fun x _ => rfl⟩
  | cons p rest ih =>
    intro m g hnd hall
    simp only [List.map_cons, List.nodup_cons] at hnd
    obtain ⟨m1, h1, g1, v1, k1, e1⟩ := fixVariable_evalL g p.1 (hall p List.mem_cons_self) p.2
    have hall1 : ∀ q ∈ rest, q.1 ∈ okeys m1.adj := by
      intro q hq
      rw [k1]
      have hne : q.1 ≠ p.1 := fun e => hnd.1 (e ▸ List.mem_map.mpr ⟨q, hq, rfl⟩)
      exact (List.mem_erase_of_ne hne).mpr (hall q (List.mem_cons_of_mem _ hq))
    obtain ⟨m2, h2, g2, v2, k2, e2⟩ := ih m1 g1 hnd.2 hall1
    refine ⟨m2, ?_, g2, by rw [v2, v1], ?_, ?_⟩
    · simp only [fixVariables, h1]; exact h2
    · rw [k2, k1, List.Nodup.erase_eq_filter g.s.nodup, List.filter_filter]
      apply List.filter_congr
      intro l _
      simp only [List.map_cons, List.contains_cons]
      by_cases hl : l = p.1
      · subst hl; simp
      · have : (l == p.1) = false := by simpa using hl
        simp [this, hl]
    · intro x hx
      rw [e2 x (fun q hq => hx q (List.mem_cons_of_mem _ hq)), e1 x (hx p List.mem_cons_self)]

end LBqm

end En
