import DimodProofs.CqmToBqm
import DimodProofs.Encoding
import DimodProofs.Ineq
import DimodProofs.DqmEnergy

/-! # `CQMToBQMInverter` is onto, variable by variable (C16)

For every CQM variable and every value of its domain there is a setting of *that variable's* BQM bits that the
inverter maps to the value (the other bits keep their values): `binary` — the bit itself; `spin` — the bit
`(s + 1)/2`; `integer 0..ub` — a subset of the `binary_encoding` bits, whose labels are pairwise different. -/

namespace Pen

theorem pow2_inj (a b : Nat) (h : 2 ^ a = 2 ^ b) : a = b :=
  (Nat.pow_right_inj (a := 2) (m := a) (n := b) (by omega)).1 h

theorem binaryEncoding_labels_nodup (v : Label) (ub : Nat) (l : List (Label × Nat)) (h : binaryEncoding v ub = some l) :
    (l.map (·.1)).Nodup := by
  unfold binaryEncoding at h
  split at h
  · simp at h
  · simp only [Option.some.injEq] at h
    subst h
    simp only [List.map_append, List.map_map, List.map_cons, List.map_nil]
    rw [List.nodup_append]
    refine ⟨?_, by simp, ?_⟩
    · apply nodup_map_of_injOn _ List.nodup_range
      intro a _ b _ hab
      simp only [Function.comp] at hab
      injection hab with hab
      injection hab with _ hab
      injection hab with hab _
      injection hab with hab
      have : (2 ^ a : Nat) = 2 ^ b := by exact_mod_cast hab
      exact pow2_inj a b this
    · intro a ha b hb
      simp only [List.mem_map, List.mem_range, Function.comp] at ha
      simp only [List.mem_cons, List.not_mem_nil, or_false] at hb
      obtain ⟨e, _, rfl⟩ := ha
      subst hb
      intro hc
      injection hc with hc
      injection hc with _ hc
      injection hc with _ hc
      simp at hc

theorem zip_fst_snd {α β : Type} (l : List (α × β)) : (l.map (·.1)).zip (l.map (·.2)) = l := by
  induction l with
  | nil => rfl
  | cons a r ih => simp [ih]

/-- integer variable: every `t ≤ ub` is reached by changing only the variable's own encoding bits -/
theorem inverter_reaches_integer (vars : List (Label × VKind)) (v : Label) (lb ub : Int)
    (h : kindOf vars v = some (.integer lb ub)) (bits : List (Label × Nat)) (hb : binaryEncoding v ub.toNat = some bits)
    (z : Label → Int) (hz : Bin01 z) (t : Nat) (ht : t ≤ ub.toNat) :
    ∃ z', Bin01 z' ∧ (∀ l, l ∉ bits.map (·.1) → z' l = z l) ∧ decode vars (toRat z') v = (((t : Nat) : Int) : Rat) := by
  obtain ⟨bs, hlen, hdot⟩ := (binaryEncoding_exact v ub.toNat bits hb t).2 ht
  refine ⟨override z (bits.map (·.1)) bs, override_bin z hz _ _, fun l hl => override_off z _ bs l hl, ?_⟩
  rw [decode_integer vars _ v lb ub h bits hb]
  have hcast : bits.map (fun b => (b.1, natRat b.2)) = castTerms ((bits.map (·.1)).zip ((bits.map (·.2)).map Int.ofNat)) := by
    have : (bits.map (·.1)).zip ((bits.map (·.2)).map Int.ofNat) = bits.map (fun b => (b.1, Int.ofNat b.2)) := by
      clear hb hlen hdot
      induction bits with
      | nil => rfl
      | cons a r ih =>
        simp only [List.map_cons, List.zip_cons_cons, List.cons.injEq, true_and]
        exact ih
    rw [this]
    simp only [castTerms, List.map_map]
    rfl
  rw [hcast, lsum_cast, isum_override z _ bs (bits.map (·.2)) (binaryEncoding_labels_nodup v ub.toNat bits hb) hlen (by simp), hdot]

theorem inverter_reaches_binary (vars : List (Label × VKind)) (v : Label) (h : kindOf vars v = some .binary)
    (z : Label → Int) (hz : Bin01 z) (b : Bool) :
    ∃ z', Bin01 z' ∧ (∀ l, l ≠ v → z' l = z l) ∧ decode vars (toRat z') v = (if b then 1 else 0) := by
  refine ⟨override z [v] [b], override_bin z hz _ _, fun l hl => override_off z _ _ l (by simpa using hl), ?_⟩
  rw [decode_binary vars _ v h]
  simp only [toRat, override, if_true]
  cases b <;> simp

theorem inverter_reaches_spin (vars : List (Label × VKind)) (v : Label) (h : kindOf vars v = some .spin)
    (z : Label → Int) (hz : Bin01 z) (b : Bool) :
    ∃ z', Bin01 z' ∧ (∀ l, l ≠ v → z' l = z l) ∧ decode vars (toRat z') v = (if b then 1 else -1) := by
  refine ⟨override z [v] [b], override_bin z hz _ _, fun l hl => override_off z _ _ l (by simpa using hl), ?_⟩
  rw [decode_spin vars _ v h]
  simp only [toRat, override, if_true]
  cases b <;> simp <;> grind

end Pen
