import DimodProofs.VarsInv

/-! `relabel` on the sparse maps refines simultaneous substitution on the list.

    * association-list dictionaries (`dictSet`, `dictHas`, `LSpec.lookup`, `LSpec.dictOf`);
    * sequential `relabelOne` = simultaneous substitution when targets are fresh (`seqRelabel_spec`);
    * analysis of `safeRelabels` (error conditions, one-phase and two-phase plans);
    * `relabel_spec`. -/

namespace VState

open LSpec (lookup subst dictOf relabelOk)

abbrev Dict := List (Label × Label)

/-- keys of an association list, in order -/
def keys (d : Dict) : List Label := d.map Prod.fst
/-- values of an association list, in order -/
def vals (d : Dict) : List Label := d.map Prod.snd

@[simp] theorem keys_nil : keys [] = [] := rfl
@[simp] theorem vals_nil : vals [] = [] := rfl
@[simp] theorem keys_cons (p : Label × Label) (d : Dict) : keys (p :: d) = p.1 :: keys d := rfl
@[simp] theorem vals_cons (p : Label × Label) (d : Dict) : vals (p :: d) = p.2 :: vals d := rfl
@[simp] theorem keys_append (d e : Dict) : keys (d ++ e) = keys d ++ keys e := by simp [keys]
@[simp] theorem vals_append (d e : Dict) : vals (d ++ e) = vals d ++ vals e := by simp [vals]

theorem mem_keys_of_mem {d : Dict} {k v : Label} (h : (k, v) ∈ d) : k ∈ keys d :=
  List.mem_map.2 ⟨(k, v), h, rfl⟩
theorem mem_vals_of_mem {d : Dict} {k v : Label} (h : (k, v) ∈ d) : v ∈ vals d :=
  List.mem_map.2 ⟨(k, v), h, rfl⟩
theorem exists_of_mem_keys {d : Dict} {k : Label} (h : k ∈ keys d) : ∃ v, (k, v) ∈ d := by
  obtain ⟨⟨a, b⟩, hm, rfl⟩ := List.mem_map.1 h; exact ⟨b, hm⟩
theorem exists_of_mem_vals {d : Dict} {v : Label} (h : v ∈ vals d) : ∃ k, (k, v) ∈ d := by
  obtain ⟨⟨a, b⟩, hm, rfl⟩ := List.mem_map.1 h; exact ⟨a, hm⟩

theorem dictHas_iff (d : Dict) (k : Label) : dictHas d k = true ↔ k ∈ keys d := by
  simp [dictHas, keys]

theorem dictHas_eq_false_iff (d : Dict) (k : Label) : dictHas d k = false ↔ k ∉ keys d := by
  rw [← dictHas_iff]; simp

theorem lookup_eq_none_iff (d : Dict) (k : Label) : lookup d k = none ↔ k ∉ keys d := by
  induction d with
  | nil => simp [lookup]
  | cons p t ih =>
    obtain ⟨a, b⟩ := p
    simp only [lookup, keys_cons, List.mem_cons]
    by_cases h : a = k
    · simp [h]
    · simp [h, ih, Ne.symm h]

theorem lookup_mem {d : Dict} {k v : Label} (h : lookup d k = some v) : (k, v) ∈ d := by
  induction d with
  | nil => simp [lookup] at h
  | cons p t ih =>
    obtain ⟨a, b⟩ := p
    simp only [lookup] at h
    split at h
    · rename_i e; simp at h; subst e; subst h; exact List.mem_cons_self
    · exact List.mem_cons_of_mem _ (ih h)

theorem lookup_of_mem {d : Dict} (hn : (keys d).Nodup) {k v : Label} (h : (k, v) ∈ d) :
    lookup d k = some v := by
  induction d with
  | nil => simp at h
  | cons p t ih =>
    obtain ⟨a, b⟩ := p
    simp only [keys_cons, List.nodup_cons] at hn
    simp only [lookup]
    rcases List.mem_cons.1 h with e | hm
    · simp at e; simp [e.1, e.2]
    · have : a ≠ k := fun e => hn.1 (e ▸ mem_keys_of_mem hm)
      simp [this, ih hn.2 hm]

theorem lookup_append (d e : Dict) (k : Label) :
    lookup (d ++ e) k = (lookup d k).or (lookup e k) := by
  induction d with
  | nil => simp [lookup]
  | cons p t ih =>
    obtain ⟨a, b⟩ := p
    simp only [List.cons_append, lookup]
    split <;> simp [ih]

theorem dictSet_of_not_mem (d : Dict) (k v : Label) (h : k ∉ keys d) : dictSet d k v = d ++ [(k, v)] := by
  induction d with
  | nil => simp [dictSet]
  | cons p t ih =>
    obtain ⟨a, b⟩ := p
    simp only [keys_cons, List.mem_cons, not_or] at h
    simp [dictSet, Ne.symm h.1, ih h.2]

theorem length_dictSet (d : Dict) (k v : Label) :
    (dictSet d k v).length = if k ∈ keys d then d.length else d.length + 1 := by
  induction d with
  | nil => simp [dictSet]
  | cons p t ih =>
    obtain ⟨a, b⟩ := p
    simp only [dictSet, keys_cons, List.mem_cons]
    by_cases h : a = k
    · simp [h]
    · simp only [h, if_false, List.length_cons, ih, Ne.symm h, false_or]
      split <;> rfl

theorem mem_keys_dictSet (d : Dict) (k v x : Label) : x ∈ keys (dictSet d k v) ↔ x = k ∨ x ∈ keys d := by
  induction d with
  | nil => simp [dictSet]
  | cons p t ih =>
    obtain ⟨a, b⟩ := p
    simp only [dictSet, keys_cons, List.mem_cons]
    by_cases h : a = k
    · simp [h]
    · simp only [h, if_false, keys_cons, List.mem_cons, ih]
      constructor
      · rintro (h1 | h1 | h1) <;> simp [h1]
      · rintro (h1 | h1 | h1) <;> simp [h1]

/-- a key/value literal with distinct keys is its own Python dict -/
theorem dictOf_eq_self (m : Dict) (hn : (keys m).Nodup) : dictOf m = m := by
  have gen : ∀ (m d : Dict), (keys (d ++ m)).Nodup →
      m.foldl (fun d p => dictSet d p.1 p.2) d = d ++ m := by
    intro m
    induction m with
    | nil => simp
    | cons p t ih =>
      intro d hnd
      simp only [List.foldl_cons]
      have hp : p.1 ∉ keys d := by
        simp only [keys_append, keys_cons] at hnd
        intro hm
        exact (List.nodup_append.1 hnd).2.2 _ hm _ List.mem_cons_self rfl
      rw [dictSet_of_not_mem d p.1 p.2 hp, ih]
      · simp
      · simpa using hnd
  unfold dictOf
  simpa using gen m [] (by simpa using hn)

/-! ### the `{new: old}` dictionary of `safeRelabels` -/

/-- `new_labels` of `iter_safe_relabels` -/
def newLabels (m : Dict) : Dict := m.foldl (fun d p => dictSet d p.2 p.1) []

theorem newLabels_gen (m : Dict) : ∀ (d : Dict),
    (∀ x, x ∈ keys (m.foldl (fun d p => dictSet d p.2 p.1) d) ↔ x ∈ keys d ∨ x ∈ vals m) ∧
    (m.foldl (fun d p => dictSet d p.2 p.1) d).length ≤ d.length + m.length ∧
    ((m.foldl (fun d p => dictSet d p.2 p.1) d).length = d.length + m.length ↔
      (vals m).Nodup ∧ ∀ v ∈ vals m, v ∉ keys d) := by
  induction m with
  | nil => intro d; simp
  | cons p t ih =>
    intro d
    obtain ⟨h1, h2, h3⟩ := ih (dictSet d p.2 p.1)
    simp only [List.foldl_cons, vals_cons, List.mem_cons, List.length_cons, List.nodup_cons]
    have hl := length_dictSet d p.2 p.1
    refine ⟨?_, ?_, ?_⟩
    · intro x; rw [h1, mem_keys_dictSet]
      constructor
      · rintro ((h | h) | h) <;> simp [h]
      · rintro (h | h | h) <;> simp [h]
    · split at hl <;> omega
    · by_cases hp : p.2 ∈ keys d
      · simp only [hp, if_true] at hl
        constructor
        · intro e; omega
        · intro ⟨_, hh⟩; exact absurd hp (hh _ (Or.inl rfl))
      · simp only [hp, if_false] at hl
        rw [show d.length + (t.length + 1) = (dictSet d p.2 p.1).length + t.length by omega, h3]
        constructor
        · rintro ⟨hn, hd⟩
          refine ⟨⟨?_, hn⟩, ?_⟩
          · intro hm; exact hd _ hm ((mem_keys_dictSet ..).2 (Or.inl rfl))
          · rintro v (rfl | hv)
            · exact hp
            · intro hk; exact hd v hv ((mem_keys_dictSet ..).2 (Or.inr hk))
        · rintro ⟨⟨hn1, hn⟩, hd⟩
          refine ⟨hn, ?_⟩
          intro v hv hk
          rcases (mem_keys_dictSet ..).1 hk with rfl | hk
          · exact hn1 hv
          · exact hd v (Or.inr hv) hk

theorem mem_keys_newLabels (m : Dict) (x : Label) : x ∈ keys (newLabels m) ↔ x ∈ vals m := by
  unfold newLabels; simpa using (newLabels_gen m []).1 x

theorem length_newLabels_le (m : Dict) : (newLabels m).length ≤ m.length := by
  unfold newLabels; simpa using (newLabels_gen m []).2.1

theorem length_newLabels_lt_iff (m : Dict) : (newLabels m).length < m.length ↔ ¬ (vals m).Nodup := by
  have h1 := length_newLabels_le m
  have h2 : (newLabels m).length = m.length ↔ (vals m).Nodup := by
    unfold newLabels; simpa using (newLabels_gen m []).2.2
  rw [← h2]; omega

/-! ### sequential relabelling -/

/-- one sub-mapping of a relabel plan, applied pair by pair (the inner loop of `_relabel`) -/
def seqRelabel (s : VState) (sub : Dict) : VState :=
  sub.foldl (fun s p => if p.1 = p.2 || !(s.count p.1) then s else s.relabelOne p.1 p.2) s

theorem relabel_eq (s : VState) (m : Dict) :
    s.relabel m = (s.safeRelabels m).map (fun subs => subs.foldl seqRelabel s) := by
  unfold relabel; cases s.safeRelabels m <;> rfl

theorem seqRelabel_cons (s : VState) (p : Label × Label) (t : Dict) :
    seqRelabel s (p :: t) =
      seqRelabel (if p.1 = p.2 || !(s.count p.1) then s else s.relabelOne p.1 p.2) t := rfl

theorem count_eq_false_iff (s : VState) (h : s.Inv) (v : Label) : s.count v = false ↔ v ∉ s.abs := by
  rw [← s.count_iff h v]; simp

/-- sequential relabelling is simultaneous substitution when every target is fresh and no target
    is a key -/
theorem seqRelabel_spec (sub : Dict) : ∀ (s : VState), s.Inv → (vals sub).Nodup →
    (∀ v ∈ vals sub, v ∉ keys sub) → (∀ v ∈ vals sub, v ∉ s.abs) →
    (seqRelabel s sub).Inv ∧ (seqRelabel s sub).abs = subst sub s.abs := by
  induction sub with
  | nil => intro s h _ _ _; exact ⟨h, by simp [seqRelabel, subst, lookup]⟩
  | cons p t ih =>
    obtain ⟨k, v⟩ := p
    intro s h hn hk ha
    simp only [vals_cons, keys_cons, List.nodup_cons, List.mem_cons] at hn hk ha
    have hkv : k ≠ v := fun e => (hk v (Or.inl rfl)) (Or.inl e.symm)
    have hvt : v ∉ keys t := fun hm => (hk v (Or.inl rfl)) (Or.inr hm)
    rw [seqRelabel_cons]
    simp only [hkv, decide_false, Bool.false_or]
    by_cases hc : k ∈ s.abs
    · have hcc := (s.count_iff h k).2 hc
      simp only [hcc, Bool.not_true, Bool.false_eq_true, if_false]
      have hvs : v ∉ s.abs := ha v (Or.inl rfl)
      obtain ⟨hi1, ha1⟩ := relabelOne_spec s h k v hc hvs
      obtain ⟨hi2, ha2⟩ := ih (s.relabelOne k v) hi1 hn.2
        (fun v' hv' hk' => hk v' (Or.inr hv') (Or.inr hk'))
        (by
          intro v' hv' hm
          rw [ha1] at hm
          obtain ⟨x, hx, e⟩ := List.mem_map.1 hm
          split at e
          · exact hn.1 (e ▸ hv')
          · exact ha v' (Or.inr hv') (e ▸ hx))
      refine ⟨hi2, ?_⟩
      rw [ha2, ha1]
      simp only [subst, List.map_map]
      apply List.map_congr_left
      intro x _
      simp only [Function.comp, lookup]
      by_cases hx : x = k
      · subst hx
        simp [(lookup_eq_none_iff t v).2 hvt]
      · simp [hx, Ne.symm hx]
    · have hcc := (s.count_eq_false_iff h k).2 hc
      simp only [hcc, Bool.not_false, if_true]
      obtain ⟨hi2, ha2⟩ := ih s h hn.2
        (fun v' hv' hk' => hk v' (Or.inr hv') (Or.inr hk'))
        (fun v' hv' => ha v' (Or.inr hv'))
      refine ⟨hi2, ?_⟩
      rw [ha2]
      simp only [subst]
      apply List.map_congr_left
      intro x hx
      have : k ≠ x := fun e => hc (e ▸ hx)
      simp [lookup, this]

/-! ### `safeRelabels` restated -/

/-- a pair needs an intermediate label: its key is somebody's target or its target is a key -/
def conf (m : Dict) (p : Label × Label) : Bool := dictHas (newLabels m) p.1 || dictHas m p.2

/-- labels an intermediate label must avoid -/
def forb (s : VState) (m : Dict) (l : Label) : Bool := dictHas (newLabels m) l || dictHas m l || s.count l

/-- the intermediate label chosen when the counter stands at `ctr` -/
def freshOf (s : VState) (m : Dict) (ctr : Nat) : Nat :=
  safeRelabels.fresh s (newLabels m) (fun k => dictHas m k) (s.stop + 2 * m.length + 2) ctr

/-- loop body of `resolve_label_conflict` -/
def rstep (s : VState) (m : Dict) (acc : Nat × Dict × Dict) (p : Label × Label) : Nat × Dict × Dict :=
  match acc with
  | (ctr, o2i, i2n) =>
    if p.1 = p.2 then acc
    else if conf m p then
      (freshOf s m ctr + 1, dictSet o2i p.1 (.int (freshOf s m ctr)), dictSet i2n (.int (freshOf s m ctr)) p.2)
    else (ctr, dictSet o2i p.1 p.2, i2n)

theorem safeRelabels_eq (s : VState) (m : Dict) : s.safeRelabels m =
    if (newLabels m).length < m.length then none else
    if (newLabels m).any (fun p => s.count p.1 && !(dictHas m p.1)) then none else
    if m.any (fun p => dictHas (newLabels m) p.1) then
      some [(m.foldl (rstep s m) (2 * m.length, [], [])).2.1, (m.foldl (rstep s m) (2 * m.length, [], [])).2.2]
    else some [m] := by
  rfl

/-! ### intermediate labels are fresh -/

theorem fresh_ge (s : VState) (nl : Dict) (oh : Label → Bool) (fuel c : Nat) :
    c ≤ safeRelabels.fresh s nl oh fuel c := by
  induction fuel generalizing c with
  | zero => simp [safeRelabels.fresh]
  | succ f ih =>
    simp only [safeRelabels.fresh]
    split
    · exact Nat.le_trans (Nat.le_succ c) (ih (c + 1))
    · exact Nat.le_refl c

theorem fresh_free (s : VState) (m : Dict) (fuel c : Nat)
    (hex : ∃ j, c ≤ j ∧ j < c + fuel ∧ forb s m (.int (j : Nat)) = false) :
    forb s m (.int (safeRelabels.fresh s (newLabels m) (fun k => dictHas m k) fuel c : Nat)) = false := by
  induction fuel generalizing c with
  | zero => obtain ⟨j, h1, h2, _⟩ := hex; omega
  | succ f ih =>
    simp only [safeRelabels.fresh]
    split
    · rename_i hf
      apply ih
      obtain ⟨j, h1, h2, h3⟩ := hex
      have : j ≠ c := by
        intro e; subst e
        simp only [forb] at h3
        rw [h3] at hf; simp at hf
      exact ⟨j, by omega, by omega, h3⟩
    · rename_i hf
      simpa [forb] using hf

theorem freshOf_ge (s : VState) (m : Dict) (ctr : Nat) : ctr ≤ freshOf s m ctr := fresh_ge ..

theorem freshOf_free (s : VState) (h : s.Inv) (m : Dict) (ctr : Nat) :
    forb s m (.int (freshOf s m ctr : Nat)) = false := by
  apply fresh_free
  obtain ⟨j, h1, h2, h3⟩ := exists_free_nat (keys (newLabels m) ++ keys m ++ s.abs) ctr
    (s.stop + 2 * m.length + 2) (by
      have := length_newLabels_le m
      simp [keys, abs_length]; omega)
  refine ⟨j, h1, h2, ?_⟩
  simp only [List.mem_append, not_or] at h3
  simp only [forb, Bool.or_eq_false_iff]
  exact ⟨⟨(dictHas_eq_false_iff _ _).2 h3.1.1, (dictHas_eq_false_iff _ _).2 h3.1.2⟩,
    (s.count_eq_false_iff h _).2 h3.2⟩

/-! ### the two-phase plan, right-recursively -/

/-- right-recursive view of `resolve_label_conflict`: counter, old→intermediate, intermediate→new -/
def build (s : VState) (m : Dict) : Nat → Dict → Nat × Dict × Dict
  | ctr, [] => (ctr, [], [])
  | ctr, p :: t =>
    if p.1 = p.2 then build s m ctr t
    else if conf m p then
      ((build s m (freshOf s m ctr + 1) t).1,
       (p.1, .int (freshOf s m ctr)) :: (build s m (freshOf s m ctr + 1) t).2.1,
       (.int (freshOf s m ctr), p.2) :: (build s m (freshOf s m ctr + 1) t).2.2)
    else
      ((build s m ctr t).1, (p.1, p.2) :: (build s m ctr t).2.1, (build s m ctr t).2.2)

theorem foldl_rstep_eq_build (s : VState) (m : Dict) (t : Dict) :
    ∀ (ctr : Nat) (o2i i2n : Dict), (keys t).Nodup → (∀ k ∈ keys t, k ∉ keys o2i) →
      (∀ k ∈ keys i2n, ∃ c : Nat, k = Label.int c ∧ c < ctr) →
      t.foldl (rstep s m) (ctr, o2i, i2n) =
        ((build s m ctr t).1, o2i ++ (build s m ctr t).2.1, i2n ++ (build s m ctr t).2.2) := by
  induction t with
  | nil => intro ctr o2i i2n _ _ _; simp [build]
  | cons p t ih =>
    intro ctr o2i i2n hn hk hi
    simp only [keys_cons, List.nodup_cons, List.mem_cons] at hn hk
    simp only [List.foldl_cons, rstep, build]
    have hp : p.1 ∉ keys o2i := hk _ (Or.inl rfl)
    by_cases h1 : p.1 = p.2
    · simp only [h1, if_true]
      exact ih ctr o2i i2n hn.2 (fun k hk' => hk k (Or.inr hk')) hi
    · simp only [h1, if_false]
      by_cases h2 : conf m p = true
      · simp only [h2, if_true]
        have hge := freshOf_ge s m ctr
        have hc : Label.int (freshOf s m ctr : Nat) ∉ keys i2n := by
          intro hm
          obtain ⟨c, e, hlt⟩ := hi _ hm
          simp at e; omega
        rw [dictSet_of_not_mem _ _ _ hp, dictSet_of_not_mem _ _ _ hc, ih]
        · simp
        · exact hn.2
        · intro k hk' hm
          simp only [keys_append, keys_cons, keys_nil, List.mem_append, List.mem_singleton] at hm
          rcases hm with hm | rfl
          · exact hk k (Or.inr hk') hm
          · exact hn.1 hk'
        · intro k hm
          simp only [keys_append, keys_cons, keys_nil, List.mem_append, List.mem_singleton] at hm
          rcases hm with hm | rfl
          · obtain ⟨c, e, hlt⟩ := hi _ hm
            exact ⟨c, e, by omega⟩
          · exact ⟨_, rfl, by omega⟩
      · have h2' : conf m p = false := by simpa using h2
        simp only [h2', Bool.false_eq_true, if_false]
        rw [dictSet_of_not_mem _ _ _ hp, ih]
        · simp
        · exact hn.2
        · intro k hk' hm
          simp only [keys_append, keys_cons, keys_nil, List.mem_append, List.mem_singleton] at hm
          rcases hm with hm | rfl
          · exact hk k (Or.inr hk') hm
          · exact hn.1 hk'
        · exact hi


theorem forb_eq_false_iff (s : VState) (h : s.Inv) (m : Dict) (l : Label) :
    forb s m l = false ↔ l ∉ vals m ∧ l ∉ keys m ∧ l ∉ s.abs := by
  simp only [forb, Bool.or_eq_false_iff, dictHas_eq_false_iff, mem_keys_newLabels,
    s.count_eq_false_iff h, and_assoc]

theorem conf_eq_true_iff (m : Dict) (p : Label × Label) :
    conf m p = true ↔ p.1 ∈ vals m ∨ p.2 ∈ keys m := by
  simp only [conf, Bool.or_eq_true, dictHas_iff, mem_keys_newLabels]

theorem conf_eq_false_iff (m : Dict) (p : Label × Label) :
    conf m p = false ↔ p.1 ∉ vals m ∧ p.2 ∉ keys m := by
  simp only [conf, Bool.or_eq_false_iff, dictHas_eq_false_iff, mem_keys_newLabels]

/-- what the analysis of the two-phase plan needs to know about `build` -/
structure BuildOK (s : VState) (m : Dict) (ctr : Nat) (t : Dict) (B : Nat × Dict × Dict) : Prop where
  le : ctr ≤ B.1
  keysO : ∀ k, k ∈ keys B.2.1 ↔ ∃ v, (k, v) ∈ t ∧ k ≠ v
  valsO : ∀ w ∈ vals B.2.1,
    (∃ c : Nat, w = .int c ∧ ctr ≤ c ∧ c < B.1 ∧ forb s m (.int c) = false) ∨
    (∃ k, (k, w) ∈ t ∧ k ≠ w ∧ conf m (k, w) = false)
  valsO_nodup : (vals B.2.1).Nodup
  keysI : ∀ k ∈ keys B.2.2, ∃ c : Nat, k = .int c ∧ ctr ≤ c ∧ c < B.1 ∧ forb s m (.int c) = false
  valsI : ∀ v ∈ vals B.2.2, ∃ k, (k, v) ∈ t ∧ k ≠ v ∧ conf m (k, v) = true
  valsI_nodup : (vals B.2.2).Nodup
  look_direct : ∀ x v, (x, v) ∈ t → x ≠ v → conf m (x, v) = false → lookup B.2.1 x = some v
  look_conf : ∀ x v, (x, v) ∈ t → x ≠ v → conf m (x, v) = true →
    ∃ c : Nat, ctr ≤ c ∧ lookup B.2.1 x = some (.int c) ∧ lookup B.2.2 (.int c) = some v

theorem build_ok (s : VState) (hI : s.Inv) (m : Dict) (t : Dict) :
    ∀ ctr, (∀ p ∈ t, p ∈ m) → (keys t).Nodup → (vals t).Nodup →
      BuildOK s m ctr t (build s m ctr t) := by
  induction t with
  | nil =>
    intro ctr _ _ _
    constructor <;> simp [build]
  | cons p t ih =>
    obtain ⟨a, b⟩ := p
    intro ctr hsub hkn hvn
    simp only [keys_cons, vals_cons, List.nodup_cons] at hkn hvn
    have hsub' : ∀ p ∈ t, p ∈ m := fun p hp => hsub p (List.mem_cons_of_mem _ hp)
    have hab : (a, b) ∈ m := hsub _ List.mem_cons_self
    have hxa : ∀ x v, (x, v) ∈ t → a ≠ x := fun x v hm e => hkn.1 (e ▸ mem_keys_of_mem hm)
    simp only [build]
    by_cases h1 : a = b
    · subst h1
      simp only [if_true]
      have ok := ih ctr hsub' hkn.2 hvn.2
      constructor
      · exact ok.le
      · intro k; rw [ok.keysO]
        constructor
        · rintro ⟨v, hm, hne⟩; exact ⟨v, List.mem_cons_of_mem _ hm, hne⟩
        · rintro ⟨v, hm, hne⟩
          rcases List.mem_cons.1 hm with e | hm
          · simp at e; exact absurd (e.1.trans e.2.symm) hne
          · exact ⟨v, hm, hne⟩
      · intro w hw
        rcases ok.valsO w hw with h | ⟨k, hm, h⟩
        · exact Or.inl h
        · exact Or.inr ⟨k, List.mem_cons_of_mem _ hm, h⟩
      · exact ok.valsO_nodup
      · exact ok.keysI
      · intro v hv
        obtain ⟨k, hm, h⟩ := ok.valsI v hv
        exact ⟨k, List.mem_cons_of_mem _ hm, h⟩
      · exact ok.valsI_nodup
      · intro x v hm hne hc
        rcases List.mem_cons.1 hm with e | hm
        · simp at e; exact absurd (e.1.trans e.2.symm) hne
        · exact ok.look_direct x v hm hne hc
      · intro x v hm hne hc
        rcases List.mem_cons.1 hm with e | hm
        · simp at e; exact absurd (e.1.trans e.2.symm) hne
        · exact ok.look_conf x v hm hne hc
    · simp only [h1, if_false]
      by_cases h2 : conf m (a, b) = true
      · simp only [h2, if_true]
        have hge := freshOf_ge s m ctr
        have hfree := freshOf_free s hI m ctr
        generalize freshOf s m ctr = c0 at hge hfree
        have hf := (forb_eq_false_iff s hI m _).1 hfree
        have ok := ih (c0 + 1) hsub' hkn.2 hvn.2
        have hle := ok.le
        constructor
        · show ctr ≤ _; omega
        · intro k
          simp only [keys_cons, List.mem_cons, ok.keysO]
          constructor
          · rintro (rfl | ⟨v, hm, hne⟩)
            · exact ⟨b, Or.inl rfl, h1⟩
            · exact ⟨v, Or.inr hm, hne⟩
          · rintro ⟨v, hm | hm, hne⟩
            · simp at hm; exact Or.inl hm.1
            · exact Or.inr ⟨v, hm, hne⟩
        · intro w hw
          simp only [vals_cons, List.mem_cons] at hw
          rcases hw with rfl | hw
          · exact Or.inl ⟨c0, rfl, hge, by omega, hfree⟩
          · rcases ok.valsO w hw with ⟨c, e, h3, h4, h5⟩ | ⟨k, hm, h⟩
            · exact Or.inl ⟨c, e, by omega, h4, h5⟩
            · exact Or.inr ⟨k, List.mem_cons_of_mem _ hm, h⟩
        · simp only [vals_cons, List.nodup_cons]
          refine ⟨?_, ok.valsO_nodup⟩
          intro hw
          rcases ok.valsO _ hw with ⟨c, e, h3, _⟩ | ⟨k, hm, _⟩
          · simp at e; omega
          · exact hf.1 (mem_vals_of_mem (hsub' _ hm))
        · intro k hk
          simp only [keys_cons, List.mem_cons] at hk
          rcases hk with rfl | hk
          · exact ⟨c0, rfl, hge, by omega, hfree⟩
          · obtain ⟨c, e, h3, h4, h5⟩ := ok.keysI k hk
            exact ⟨c, e, by omega, h4, h5⟩
        · intro v hv
          simp only [vals_cons, List.mem_cons] at hv
          rcases hv with rfl | hv
          · exact ⟨a, List.mem_cons_self, h1, h2⟩
          · obtain ⟨k, hm, h⟩ := ok.valsI v hv
            exact ⟨k, List.mem_cons_of_mem _ hm, h⟩
        · simp only [vals_cons, List.nodup_cons]
          refine ⟨?_, ok.valsI_nodup⟩
          intro hv
          obtain ⟨k, hm, _⟩ := ok.valsI _ hv
          exact hvn.1 (mem_vals_of_mem hm)
        · intro x v hm hne hc
          rcases List.mem_cons.1 hm with e | hm
          · simp at e; rw [e.1, e.2, h2] at hc; simp at hc
          · simp only [lookup, hxa x v hm, if_false]
            exact ok.look_direct x v hm hne hc
        · intro x v hm hne hc
          rcases List.mem_cons.1 hm with e | hm
          · simp at e; obtain ⟨rfl, rfl⟩ := e
            exact ⟨c0, hge, by simp [lookup], by simp [lookup]⟩
          · obtain ⟨c, h3, h4, h5⟩ := ok.look_conf x v hm hne hc
            refine ⟨c, by omega, by simp only [lookup, hxa x v hm, if_false]; exact h4, ?_⟩
            have : Label.int (c0 : Nat) ≠ Label.int (c : Nat) := by simp; omega
            simp only [lookup, this, if_false]; exact h5
      · have h2' : conf m (a, b) = false := by simpa using h2
        simp only [h2', Bool.false_eq_true, if_false]
        have hcf := (conf_eq_false_iff m (a, b)).1 h2'
        have ok := ih ctr hsub' hkn.2 hvn.2
        constructor
        · exact ok.le
        · intro k
          simp only [keys_cons, List.mem_cons, ok.keysO]
          constructor
          · rintro (rfl | ⟨v, hm, hne⟩)
            · exact ⟨b, Or.inl rfl, h1⟩
            · exact ⟨v, Or.inr hm, hne⟩
          · rintro ⟨v, hm | hm, hne⟩
            · simp at hm; exact Or.inl hm.1
            · exact Or.inr ⟨v, hm, hne⟩
        · intro w hw
          simp only [vals_cons, List.mem_cons] at hw
          rcases hw with rfl | hw
          · exact Or.inr ⟨a, List.mem_cons_self, h1, h2'⟩
          · rcases ok.valsO w hw with h | ⟨k, hm, h⟩
            · exact Or.inl h
            · exact Or.inr ⟨k, List.mem_cons_of_mem _ hm, h⟩
        · simp only [vals_cons, List.nodup_cons]
          refine ⟨?_, ok.valsO_nodup⟩
          intro hw
          rcases ok.valsO _ hw with ⟨c, e, _, _, h5⟩ | ⟨k, hm, _⟩
          · have hf := (forb_eq_false_iff s hI m _).1 h5
            exact hf.1 (e ▸ mem_vals_of_mem hab)
          · exact hvn.1 (mem_vals_of_mem hm)
        · exact ok.keysI
        · intro v hv
          obtain ⟨k, hm, h⟩ := ok.valsI v hv
          exact ⟨k, List.mem_cons_of_mem _ hm, h⟩
        · exact ok.valsI_nodup
        · intro x v hm hne hc
          rcases List.mem_cons.1 hm with e | hm
          · simp at e; obtain ⟨rfl, rfl⟩ := e; simp [lookup]
          · simp only [lookup, hxa x v hm, if_false]
            exact ok.look_direct x v hm hne hc
        · intro x v hm hne hc
          rcases List.mem_cons.1 hm with e | hm
          · simp at e; rw [e.1, e.2, h2'] at hc; simp at hc
          · obtain ⟨c, h3, h4, h5⟩ := ok.look_conf x v hm hne hc
            exact ⟨c, h3, by simp only [lookup, hxa x v hm, if_false]; exact h4, h5⟩


theorem eq_of_mem_same_val {m : Dict} (hn : (vals m).Nodup) {k k' v : Label}
    (h1 : (k, v) ∈ m) (h2 : (k', v) ∈ m) : k = k' := by
  induction m with
  | nil => simp at h1
  | cons p t ih =>
    simp only [vals_cons, List.nodup_cons] at hn
    rcases List.mem_cons.1 h1 with e1 | h1'
    · rcases List.mem_cons.1 h2 with e2 | h2'
      · rw [← e2] at e1; simp at e1; exact e1
      · subst e1; exact absurd (mem_vals_of_mem h2') hn.1
    · rcases List.mem_cons.1 h2 with e2 | h2'
      · subst e2; exact absurd (mem_vals_of_mem h1') hn.1
      · exact ih hn.2 h1' h2'

/-- the two-phase plan (old → intermediate, intermediate → new) is the simultaneous substitution -/
theorem twoPhase_spec (s : VState) (hI : s.Inv) (m : Dict) (hk : (keys m).Nodup)
    (hvn : (vals m).Nodup) (hchk : ∀ v ∈ vals m, v ∈ s.abs → v ∈ keys m)
    (ctr : Nat) (B : Nat × Dict × Dict) (ok : BuildOK s m ctr m B) :
    (seqRelabel (seqRelabel s B.2.1) B.2.2).Inv ∧
      (seqRelabel (seqRelabel s B.2.1) B.2.2).abs = subst m s.abs := by
  obtain ⟨ctr', O, I⟩ := B
  simp only at ok ⊢
  have hOsub : ∀ k, k ∈ keys O → k ∈ keys m := by
    intro k hk'
    obtain ⟨v, hm, _⟩ := (ok.keysO k).1 hk'
    exact mem_keys_of_mem hm
  -- phase 1
  obtain ⟨hI1, ha1⟩ := seqRelabel_spec O s hI ok.valsO_nodup
    (by
      intro w hw hk'
      have hkm := hOsub w hk'
      rcases ok.valsO w hw with ⟨c, e, _, _, h5⟩ | ⟨k, hm, _, hc⟩
      · exact ((forb_eq_false_iff s hI m _).1 h5).2.1 (e ▸ hkm)
      · exact ((conf_eq_false_iff m _).1 hc).2 hkm)
    (by
      intro w hw hmem
      rcases ok.valsO w hw with ⟨c, e, _, _, h5⟩ | ⟨k, hm, _, hc⟩
      · exact ((forb_eq_false_iff s hI m _).1 h5).2.2 (e ▸ hmem)
      · exact ((conf_eq_false_iff m _).1 hc).2 (hchk w (mem_vals_of_mem hm) hmem))
  have hIfree : ∀ x, x ∈ keys I → x ∉ vals m ∧ x ∉ s.abs := by
    intro x hx
    obtain ⟨c, e, _, _, h5⟩ := ok.keysI x hx
    have := (forb_eq_false_iff s hI m _).1 h5
    exact ⟨e ▸ this.1, e ▸ this.2.2⟩
  -- phase 2
  obtain ⟨hI2, ha2⟩ := seqRelabel_spec I (seqRelabel s O) hI1 ok.valsI_nodup
    (by
      intro v hv hk'
      obtain ⟨k, hm, _⟩ := ok.valsI v hv
      exact (hIfree v hk').1 (mem_vals_of_mem hm))
    (by
      intro v hv hmem
      obtain ⟨k, hm, hne, hc⟩ := ok.valsI v hv
      rw [ha1] at hmem
      obtain ⟨x, hx, e⟩ := List.mem_map.1 hmem
      cases hl : lookup O x with
      | none =>
        simp only [hl, Option.getD_none] at e
        subst e
        obtain ⟨v', hm'⟩ := exists_of_mem_keys (hchk x (mem_vals_of_mem hm) hx)
        by_cases hxv : x = v'
        · subst hxv
          exact hne (eq_of_mem_same_val hvn hm hm')
        · exact (lookup_eq_none_iff O x).1 hl ((ok.keysO x).2 ⟨v', hm', hxv⟩)
      | some w =>
        simp only [hl, Option.getD_some] at e
        subst e
        rcases ok.valsO w (mem_vals_of_mem (lookup_mem hl)) with ⟨c, e, _, _, h5⟩ | ⟨k', hm', _, hc'⟩
        · exact ((forb_eq_false_iff s hI m _).1 h5).1 (e ▸ mem_vals_of_mem hm)
        · have := eq_of_mem_same_val hvn hm hm'
          subst this
          rw [hc] at hc'; simp at hc')
  refine ⟨hI2, ?_⟩
  rw [ha2, ha1]
  simp only [subst, List.map_map]
  apply List.map_congr_left
  intro x hx
  simp only [Function.comp]
  have hIx : lookup I x = none := (lookup_eq_none_iff I x).2 (fun hm => (hIfree x hm).2 hx)
  cases hl : lookup m x with
  | none =>
    have : lookup O x = none :=
      (lookup_eq_none_iff O x).2 (fun hm => (lookup_eq_none_iff m x).1 hl (hOsub x hm))
    simp [this, hIx]
  | some v =>
    have hm := lookup_mem hl
    by_cases hxv : x = v
    · have : lookup O x = none := by
        apply (lookup_eq_none_iff O x).2
        intro hm'
        obtain ⟨v', hm'', hne⟩ := (ok.keysO x).1 hm'
        have := lookup_of_mem hk hm''
        rw [hl] at this; simp at this
        exact hne (hxv.trans this)
      subst hxv; simp [this, hIx]
    · cases hc : conf m (x, v) with
      | false =>
        have h1 := ok.look_direct x v hm hxv hc
        have h2 : lookup I v = none :=
          (lookup_eq_none_iff I v).2 (fun hm' => (hIfree v hm').1 (mem_vals_of_mem hm))
        simp [h1, h2]
      | true =>
        obtain ⟨c, _, h1, h2⟩ := ok.look_conf x v hm hxv hc
        simp [h1, h2]

/-! ### `relabel` -/

theorem relabelOk_iff (m : Dict) (hk : (keys m).Nodup) (l : List Label) :
    relabelOk m l = true ↔ (vals m).Nodup ∧ ∀ v ∈ vals m, v ∈ l → v ∈ keys m := by
  unfold relabelOk
  rw [dictOf_eq_self m hk]
  simp only [Bool.and_eq_true, decide_eq_true_eq, List.all_eq_true, Bool.not_eq_true',
    Bool.and_eq_false_iff, decide_eq_false_iff_not, Bool.not_eq_false', dictHas_iff]
  constructor
  · rintro ⟨h1, h2⟩
    refine ⟨h1, ?_⟩
    intro v hv hl
    obtain ⟨k, hm⟩ := exists_of_mem_vals hv
    rcases h2 _ hm with h | h
    · exact absurd hl h
    · exact h
  · rintro ⟨h1, h2⟩
    refine ⟨h1, ?_⟩
    intro p hp
    by_cases hl : p.2 ∈ l
    · exact Or.inr (h2 _ (mem_vals_of_mem (k := p.1) hp) hl)
    · exact Or.inl hl

/-- `relabel` with distinct keys: accepted exactly when the specification accepts, and then it is
    the simultaneous substitution -/
theorem relabel_spec (s : VState) (hI : s.Inv) (m : Dict) (hk : (keys m).Nodup) :
    (relabelOk m s.abs = true →
      ∃ s', s.relabel m = some s' ∧ s'.Inv ∧ s'.abs = subst (dictOf m) s.abs) ∧
    (relabelOk m s.abs = false → s.relabel m = none) := by
  rw [dictOf_eq_self m hk, relabel_eq, safeRelabels_eq]
  have hok := relabelOk_iff m hk s.abs
  by_cases h1 : (newLabels m).length < m.length
  · have : ¬ (vals m).Nodup := (length_newLabels_lt_iff m).1 h1
    have hf : relabelOk m s.abs = false := by
      cases hr : relabelOk m s.abs with
      | false => rfl
      | true => exact absurd (hok.1 hr).1 this
    rw [if_pos h1]; simp [hf]
  · have hvn : (vals m).Nodup := by
      apply Classical.byContradiction
      intro hc; exact h1 ((length_newLabels_lt_iff m).2 hc)
    rw [if_neg h1]
    by_cases h2 : ((newLabels m).any fun p => s.count p.1 && !(dictHas m p.1)) = true
    · have hf : relabelOk m s.abs = false := by
        cases hr : relabelOk m s.abs with
        | false => rfl
        | true =>
          exfalso
          obtain ⟨p, hp, hc⟩ := List.any_eq_true.1 h2
          simp only [Bool.and_eq_true, Bool.not_eq_true', dictHas_eq_false_iff] at hc
          have hv : p.1 ∈ vals m := (mem_keys_newLabels m p.1).1 (mem_keys_of_mem (v := p.2) hp)
          exact hc.2 ((hok.1 hr).2 _ hv ((s.count_iff hI _).1 hc.1))
      rw [if_pos h2]; simp [hf]
    · have hchk : ∀ v ∈ vals m, v ∈ s.abs → v ∈ keys m := by
        intro v hv hl
        apply Classical.byContradiction
        intro hnk
        apply h2
        obtain ⟨o, ho⟩ := exists_of_mem_keys ((mem_keys_newLabels m v).2 hv)
        apply List.any_eq_true.2
        refine ⟨(v, o), ho, ?_⟩
        simp only [Bool.and_eq_true, Bool.not_eq_true', dictHas_eq_false_iff]
        exact ⟨(s.count_iff hI _).2 hl, hnk⟩
      have ht : relabelOk m s.abs = true := hok.2 ⟨hvn, hchk⟩
      rw [if_neg h2]
      by_cases h3 : (m.any fun p => dictHas (newLabels m) p.1) = true
      · rw [if_pos h3]
        refine ⟨fun _ => ⟨_, rfl, ?_⟩, fun hf => by rw [ht] at hf; simp at hf⟩
        have hb := foldl_rstep_eq_build s m m (2 * m.length) [] [] hk (by simp) (by simp)
        simp only [List.foldl_cons, List.foldl_nil]
        rw [hb]
        simp only [List.nil_append]
        exact twoPhase_spec s hI m hk hvn hchk _ _ (build_ok s hI m m _ (fun _ h => h) hk hvn)
      · rw [if_neg h3]
        refine ⟨fun _ => ⟨_, rfl, ?_⟩, fun hf => by rw [ht] at hf; simp at hf⟩
        simp only [List.foldl_cons, List.foldl_nil]
        have hnk : ∀ v ∈ vals m, v ∉ keys m := by
          intro v hv hkm
          apply h3
          obtain ⟨w, hm⟩ := exists_of_mem_keys hkm
          apply List.any_eq_true.2
          exact ⟨(v, w), hm, (dictHas_iff _ _).2 ((mem_keys_newLabels m v).2 hv)⟩
        exact seqRelabel_spec m s hI hvn hnk (fun v hv hl => hnk v hv (hchk v hv hl))

end VState
