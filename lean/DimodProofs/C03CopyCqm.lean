import DimodProofs.C03Copy
import Mathlib.Data.List.Nodup

/-! # C03 — the copying path on a whole CQM, and its agreement with the in-place path -/

namespace En

variable {R : Type} [CommRing R] [DecidableEq R]

namespace CqmC

/-- is index `i` among the fixed ones -/
def isFixedIn (fixed : List (Nat × R)) (i : Nat) : Bool := fixed.any (·.1 = i)

/-- `assignments` of `fix_variables`: the last occurrence of an index wins -/
def asgOf (n : Nat) (fixed : List (Nat × R)) : List R :=
  (List.range n).map fun i => ((fixed.reverse.find? (·.1 = i)).map (·.2)).getD 0

/-- old indices of the variables that stay, in order -/
def keptIdx (n : Nat) (fixed : List (Nat × R)) : List Nat := (List.range n).filter (fun i => !isFixedIn fixed i)

/-- `old_to_new` -/
def o2nOf (n : Nat) (fixed : List (Nat × R)) : List (Option Nat) :=
  (List.range n).map fun i => if isFixedIn fixed i then none else some ((keptIdx n fixed).idxOf i)

def infoOf (m : CqmC R) (fixed : List (Nat × R)) : List (VarInfo R) :=
  (keptIdx m.info.length fixed).map fun i => m.info.getD i { vt := .binary, lb := 0, ub := 0 }

def vtNewOf (m : CqmC R) (fixed : List (Nat × R)) (g : Nat) : VT4 := ((infoOf m fixed)[g]?.map (·.vt)).getD .binary

theorem fixVariables_obj (m : CqmC R) (fixed : List (Nat × R)) :
    (m.fixVariables fixed).obj
      = fixVariablesExpr m.obj (o2nOf m.info.length fixed) (asgOf m.info.length fixed) (vtNewOf m fixed) := rfl

theorem fixVariables_info (m : CqmC R) (fixed : List (Nat × R)) : (m.fixVariables fixed).info = infoOf m fixed := rfl

theorem fixVariables_cons_length (m : CqmC R) (fixed : List (Nat × R)) : (m.fixVariables fixed).cons.length = m.cons.length := by
  simp [fixVariables]

theorem fixVariables_cons (m : CqmC R) (fixed : List (Nat × R)) (i : Nat) (hi : i < m.cons.length)
    (hi' : i < (m.fixVariables fixed).cons.length) :
    (m.fixVariables fixed).cons[i].e
        = fixVariablesExpr m.cons[i].e (o2nOf m.info.length fixed) (asgOf m.info.length fixed) (vtNewOf m fixed) ∧
    (m.fixVariables fixed).cons[i].sense = m.cons[i].sense ∧ (m.fixVariables fixed).cons[i].rhs = m.cons[i].rhs ∧
    (m.fixVariables fixed).cons[i].weight = m.cons[i].weight ∧
    (m.fixVariables fixed).cons[i].quadPenalty = m.cons[i].quadPenalty := by
  simp only [fixVariables, List.getElem_map]
  refine ⟨rfl, ?_, ?_, ?_, ?_⟩ <;> trivial

theorem o2nOf_get (n : Nat) (fixed : List (Nat × R)) (i : Nat) (hi : i < n) :
    (o2nOf n fixed).getD i none = if isFixedIn fixed i then none else some ((keptIdx n fixed).idxOf i) := by
  unfold o2nOf
  rw [List.getD_eq_getElem?_getD, List.getElem?_map, List.getElem?_range hi]
  rfl

theorem mem_keptIdx (n : Nat) (fixed : List (Nat × R)) (i : Nat) : i ∈ keptIdx n fixed ↔ i < n ∧ isFixedIn fixed i = false := by
  unfold keptIdx
  simp [List.mem_filter]

/-- `old_to_new` is injective on the variables that stay -/
theorem o2nOf_inj (n : Nat) (fixed : List (Nat × R)) (i j k : Nat) (hi : i < n) (hj : j < n)
    (h1 : (o2nOf n fixed).getD i none = some k) (h2 : (o2nOf n fixed).getD j none = some k) : i = j := by
  rw [o2nOf_get n fixed i hi] at h1
  rw [o2nOf_get n fixed j hj] at h2
  by_cases fi : isFixedIn fixed i = true
  · simp [fi] at h1
  · by_cases fj : isFixedIn fixed j = true
    · simp [fj] at h2
    · simp only [fi, fj, Bool.false_eq_true, if_false, Option.some.injEq] at h1 h2
      have hmi : i ∈ keptIdx n fixed := (mem_keptIdx n fixed i).mpr ⟨hi, by simpa using fi⟩
      exact (List.idxOf_inj hmi).mp (by rw [h1, h2])

theorem vtNewOf_spec (m : CqmC R) (fixed : List (Nat × R)) (i k : Nat) (hi : i < m.info.length)
    (h : (o2nOf m.info.length fixed).getD i none = some k) :
    vtNewOf m fixed k = (m.info.getD i { vt := .binary, lb := 0, ub := 0 }).vt := by
  rw [o2nOf_get _ fixed i hi] at h
  by_cases fi : isFixedIn fixed i = true
  · simp [fi] at h
  · simp only [fi, Bool.false_eq_true, if_false, Option.some.injEq] at h
    have hmi : i ∈ keptIdx m.info.length fixed := (mem_keptIdx _ fixed i).mpr ⟨hi, by simpa using fi⟩
    have hlt : (keptIdx m.info.length fixed).idxOf i < (keptIdx m.info.length fixed).length := List.idxOf_lt_length_of_mem hmi
    unfold vtNewOf infoOf
    rw [← h, List.getElem?_map, List.getElem?_eq_getElem hlt, List.getElem_idxOf hlt]
    rfl

/-- hypotheses on one expression of the model: well-formed, its variables are variables of the model, and no squared
    term on a BINARY/SPIN variable (the invariant `add_quadratic` maintains) -/
structure ExprOk (m : CqmC R) (e : Expr R) : Prop where
  wf : e.WF
  inRange : ∀ g ∈ e.vars, g < m.info.length
  noBinSelf : ∀ t ∈ e.qb.iterQuadratic, t.1 = t.2.1 →
    (m.info.getD (e.vars.getD t.1 0) { vt := .binary, lb := 0, ub := 0 }).vt ≠ .binary ∧
    (m.info.getD (e.vars.getD t.1 0) { vt := .binary, lb := 0, ub := 0 }).vt ≠ .spin

theorem mem_iterQuadraticFrom (u0 : Nat) (rows : List (Nbh R)) (t : Nat × Nat × R) (h : t ∈ QMB.iterQuadraticFrom u0 rows) :
    u0 ≤ t.1 ∧ t.1 < u0 + rows.length ∧ t.2.1 ≤ t.1 := by
  induction rows generalizing u0 with
  | nil => simp [QMB.iterQuadraticFrom] at h
  | cons row rest ih =>
    simp only [QMB.iterQuadraticFrom, List.mem_append] at h
    rcases h with h | h
    · obtain ⟨h1, h2⟩ := mem_lowerTerms u0 row t h
      simp only [List.length_cons]; omega
    · obtain ⟨h1, h2, h3⟩ := ih (u0 + 1) h
      simp only [List.length_cons]; omega

/-- one expression through the copying path -/
theorem fixVariablesExpr_ok (m : CqmC R) (fixed : List (Nat × R)) (e : Expr R) (he : ExprOk m e) (X' : Nat → R) :
    (fixVariablesExpr e (o2nOf m.info.length fixed) (asgOf m.info.length fixed) (vtNewOf m fixed)).energyCpp X'
      = e.energyCpp (Expr.Xext X' (o2nOf m.info.length fixed) (asgOf m.info.length fixed)) := by
  have hlen : e.vars.length = e.qb.lin.length := he.wf.len
  apply Expr.fixVariablesExpr_energy e hlen he.wf.qb.len
  · -- kept indices are distinct
    unfold Expr.kept
    apply List.Nodup.filterMap _ he.wf.nodup
    intro a a' b hb hb'
    by_cases ha : a < m.info.length
    · by_cases ha' : a' < m.info.length
      · exact o2nOf_inj _ fixed a a' b ha ha' (by simpa using hb) (by simpa using hb')
      · have : (o2nOf m.info.length fixed).getD a' none = none := by
          unfold o2nOf; rw [List.getD_eq_getElem?_getD, List.getElem?_eq_none (by simp; omega)]; rfl
        rw [this] at hb'; cases hb'
    · have : (o2nOf m.info.length fixed).getD a none = none := by
        unfold o2nOf; rw [List.getD_eq_getElem?_getD, List.getElem?_eq_none (by simp; omega)]; rfl
      rw [this] at hb; cases hb
  · -- squared terms
    intro t ht nu nv hu hv hnv
    subst hnv
    -- positions of the term
    have hpos : t.1 < e.vars.length ∧ t.2.1 ≤ t.1 := by
      unfold QMB.iterQuadratic at ht
      cases ha : e.qb.adj with
      | none => rw [ha] at ht; cases ht
      | some a =>
        rw [ha] at ht
        obtain ⟨_, h2, h3⟩ := mem_iterQuadraticFrom 0 a t ht
        have := he.wf.qb.len a ha
        exact ⟨by rw [hlen, ← this]; omega, h3⟩
    have h1l : t.1 < e.vars.length := hpos.1
    have h2l : t.2.1 < e.vars.length := by omega
    have hg1 : e.vars.getD t.1 0 < m.info.length := by
      apply he.inRange
      rw [List.getD_eq_getElem?_getD, List.getElem?_eq_getElem h1l]; exact List.getElem_mem h1l
    have hg2 : e.vars.getD t.2.1 0 < m.info.length := by
      apply he.inRange
      rw [List.getD_eq_getElem?_getD, List.getElem?_eq_getElem h2l]; exact List.getElem_mem h2l
    have hsame : e.vars.getD t.1 0 = e.vars.getD t.2.1 0 := o2nOf_inj _ fixed _ _ nu hg1 hg2 hu hv
    have hidx : t.1 = t.2.1 := by
      by_contra hne
      exact Expr.getD_ne_of_nodup e he.wf t.2.1 t.1 h2l h1l hne hsame
    rw [vtNewOf_spec m fixed _ nu hg1 hu]
    exact he.noBinSelf t ht hidx

/-- **`fix_variables(…, inplace=False)` of a CQM** (`fix_variables` / `fix_variables_expr`): objective and every constraint
    left-hand side of the new model have at `X'` the value of the original at the assignment `Xext` (fixed variables ↦ their
    values, the `k`-th remaining variable ↦ `X' k`); sense, rhs, weight, penalty and the constraints' order are unchanged;
    the variable table keeps the remaining rows in order -/
theorem fixVariables_spec (m : CqmC R) (hobj : ExprOk m m.obj) (hcons : ∀ k ∈ m.cons, ExprOk m k.e)
    (fixed : List (Nat × R)) (X' : Nat → R) :
    let m' := m.fixVariables fixed
    let X := Expr.Xext X' (o2nOf m.info.length fixed) (asgOf m.info.length fixed)
    m'.obj.energyCpp X' = m.obj.energyCpp X ∧ m'.cons.length = m.cons.length ∧
    (∀ i (hi : i < m.cons.length) (hi' : i < m'.cons.length),
      m'.cons[i].e.energyCpp X' = m.cons[i].e.energyCpp X ∧
      m'.cons[i].sense = m.cons[i].sense ∧ m'.cons[i].rhs = m.cons[i].rhs ∧
      m'.cons[i].weight = m.cons[i].weight ∧ m'.cons[i].quadPenalty = m.cons[i].quadPenalty) ∧
    m'.info = (keptIdx m.info.length fixed).map fun i => m.info.getD i { vt := .binary, lb := 0, ub := 0 } := by
  intro m' X
  refine ⟨?_, fixVariables_cons_length m fixed, ?_, rfl⟩
  · rw [fixVariables_obj]; exact fixVariablesExpr_ok m fixed m.obj hobj X'
  · intro i hi hi'
    obtain ⟨h1, h2, h3, h4, h5⟩ := fixVariables_cons m fixed i hi hi'
    refine ⟨?_, h2, h3, h4, h5⟩
    rw [h1]; exact fixVariablesExpr_ok m fixed _ (hcons _ (List.getElem_mem hi)) X'

end CqmC

end En

/-! ## one variable: the two code paths agree -/

namespace En

variable {R : Type} [CommRing R] [DecidableEq R]

theorem Expr.energyCpp_congr (e : Expr R) (he : e.WF) (X Y : Nat → R) (h : ∀ g ∈ e.vars, X g = Y g) :
    e.energyCpp X = e.energyCpp Y := by
  unfold Expr.energyCpp
  apply QMB.energy_congr e.qb he.qb
  intro u hu
  have hu' : u < e.vars.length := by rw [he.len]; exact hu
  apply h
  rw [List.getD_eq_getElem?_getD, List.getElem?_eq_getElem hu']
  exact List.getElem_mem hu'

theorem filter_range_ne (n v : Nat) (hv : v < n) :
    (List.range n).filter (fun i => !decide (v = i)) = (List.range (n - 1)).map (skip v) := by
  induction n with
  | zero => omega
  | succ n ih =>
    rw [List.range_succ, List.filter_append]
    by_cases hvn : v = n
    · subst hvn
      have h1 : (List.range v).filter (fun i => !decide (v = i)) = List.range v := by
        apply List.filter_eq_self.mpr
        intro i hi
        have := List.mem_range.mp hi
        simp; omega
      have h2 : (List.range v).map (skip v) = List.range v := by
        conv_rhs => rw [← List.map_id (List.range v)]
        apply List.map_congr_left
        intro i hi
        have := List.mem_range.mp hi
        simp [skip, this]
      simp [h1, h2]
    · have hv' : v < n := by omega
      rw [ih hv']
      have hn : n + 1 - 1 = (n - 1) + 1 := by omega
      rw [hn, List.range_succ, List.map_append]
      have : skip v (n - 1) = n := by unfold skip; split <;> omega
      simp [hvn, this]

namespace CqmC

theorem isFixedIn_single (v : Nat) (a : R) (i : Nat) : isFixedIn [(v, a)] i = decide (v = i) := by
  simp [isFixedIn]

theorem keptIdx_single (n v : Nat) (a : R) (hv : v < n) : keptIdx n [(v, a)] = (List.range (n - 1)).map (skip v) := by
  unfold keptIdx
  rw [← filter_range_ne n v hv]
  apply List.filter_congr
  intro i _
  rw [isFixedIn_single]

theorem o2n_single (n v : Nat) (a : R) (hv : v < n) (i : Nat) (hi : i < n) :
    (o2nOf n [(v, a)]).getD i none = if i = v then none else some (unskip v i) := by
  rw [o2nOf_get n _ i hi, isFixedIn_single]
  by_cases hiv : i = v
  · subst hiv; simp
  · have hvi : ¬ v = i := fun e => hiv e.symm
    simp only [hvi, decide_false, Bool.false_eq_true, if_false, hiv]
    congr 1
    rw [keptIdx_single n v a hv]
    have hk : unskip v i < n - 1 := by unfold unskip; split <;> omega
    have hnd : ((List.range (n - 1)).map (skip v)).Nodup :=
      List.Nodup.map (fun x y h => skip_inj v x y h) List.nodup_range
    have hget : ((List.range (n - 1)).map (skip v))[unskip v i]'(by simpa using hk) = i := by
      simp [skip_unskip v i hiv]
    have := List.Nodup.idxOf_getElem hnd (unskip v i) (by simpa using hk)
    rw [hget] at this
    exact this

theorem asg_single (n v : Nat) (a : R) (hv : v < n) : (asgOf n [(v, a)]).getD v 0 = a := by
  unfold asgOf
  rw [List.getD_eq_getElem?_getD, List.getElem?_map, List.getElem?_range hv]
  simp

/-- the assignment the copying path evaluates the original at, for one fixed variable -/
theorem Xext_single (n v : Nat) (a : R) (hv : v < n) (X' : Nat → R) (i : Nat) (hi : i < n) :
    Expr.Xext X' (o2nOf n [(v, a)]) (asgOf n [(v, a)]) i = if i = v then a else X' (unskip v i) := by
  unfold Expr.Xext
  rw [o2n_single n v a hv i hi]
  by_cases hiv : i = v
  · subst hiv
    rw [if_pos rfl, if_pos rfl]
    exact asg_single n i a hv
  · simp [hiv]

/-- **`fix_inplace_eq_copy`**: for one variable, `fix_variable(v, a)` in place and `fix_variables({v: a}, inplace=False)` give
    models whose objective and whose every constraint left-hand side agree at every assignment of the remaining
    variables, with equal sense / rhs / weight / penalty and equally many constraints — squared terms, constants,
    expressions that do not mention `v` or consist of `v` alone included -/
theorem fix_inplace_eq_copy (m : CqmC R) (hobj : ExprOk m m.obj) (hcons : ∀ k ∈ m.cons, ExprOk m k.e)
    (v : Nat) (hv : v < m.info.length) (a : R) (X' : Nat → R) :
    let mi := m.fixVariable v a
    let mc := m.fixVariables [(v, a)]
    mi.obj.energyCpp X' = mc.obj.energyCpp X' ∧ mi.cons.length = mc.cons.length ∧
    ∀ i (hi : i < mi.cons.length) (hi' : i < mc.cons.length),
      mi.cons[i].e.energyCpp X' = mc.cons[i].e.energyCpp X' ∧
      mi.cons[i].sense = mc.cons[i].sense ∧ mi.cons[i].rhs = mc.cons[i].rhs ∧
      mi.cons[i].weight = mc.cons[i].weight ∧ mi.cons[i].quadPenalty = mc.cons[i].quadPenalty := by
  intro mi mc
  let X : Nat → R := fun u => if u = v then a else X' (unskip v u)
  have hXv : X v = a := by simp [X]
  have hXs : ∀ k, X (skip v k) = X' k := by intro k; simp [X, skip_ne, unskip_skip]
  have hmwf : m.WF := ⟨hobj.wf, fun k hk => (hcons k hk).wf⟩
  obtain ⟨i1, i2, i3⟩ := fixVariable_spec m hmwf v a X' X hXv hXs
  obtain ⟨c1, c2, c3, _⟩ := fixVariables_spec m hobj hcons [(v, a)] X'
  have hagree : ∀ (e : Expr R), ExprOk m e →
      e.energyCpp X = e.energyCpp (Expr.Xext X' (o2nOf m.info.length [(v, a)]) (asgOf m.info.length [(v, a)])) := by
    intro e he
    apply Expr.energyCpp_congr e he.wf
    intro g hg
    rw [Xext_single m.info.length v a hv X' g (he.inRange g hg)]
  refine ⟨by rw [i1, c1]; exact hagree m.obj hobj, by rw [i2, c2], ?_⟩
  intro i hi hi'
  have him : i < m.cons.length := by rw [← i2]; exact hi
  obtain ⟨a1, a2, a3, a4, a5⟩ := i3 i him hi
  obtain ⟨b1, b2, b3, b4, b5⟩ := c3 i him hi'
  refine ⟨by rw [a1, b1]; exact hagree _ (hcons _ (List.getElem_mem him)), by rw [a2, b2], by rw [a3, b3], by rw [a4, b4], by rw [a5, b5]⟩

end CqmC

end En
