import DimodProofs.CqmSteps

/-! Refinement of the CQM model to label-keyed polynomials (property C05, `cqm_step_refines`).

    `absExpr labels e` is the plain polynomial an expression denotes: its variables (private order) as
    labels, and the linear / quadratic bias of every label / pair of labels (0 when absent) — no index
    anywhere.  The theorems say that an operation on the indexed representation is the obvious operation
    on that polynomial. -/

namespace CqmP
open Expr Cqm

structure LPoly where
  vars : List Label
  lin : Label → Rat
  quad : Label → Label → Rat
  off : Rat

def absExpr (labels : List Label) (e : Expr) : LPoly :=
  { vars := e.vars.map (fun g => labels.getD g (.int 0)),
    lin := fun l => match findIdx l labels 0 with
      | some g => e.linear g
      | none => 0,
    quad := fun l l' => match findIdx l labels 0, findIdx l' labels 0 with
      | some g, some h => e.quadratic g h
      | _, _ => 0,
    off := e.qb.off }

/-- the specification of removing variable `l` from a polynomial: its terms go, nothing else changes -/
def LPoly.drop (p : LPoly) (l : Label) : LPoly :=
  { vars := p.vars.filter (· ≠ l),
    lin := fun x => if x = l then 0 else p.lin x,
    quad := fun x y => if x = l ∨ y = l then 0 else p.quad x y,
    off := p.off }

/-! ### positions of labels -/

theorem findIdx_none_iff {v : Label} {l : List Label} {s : Nat} : findIdx v l s = none ↔ v ∉ l := by
  induction l generalizing s with
  | nil => simp [findIdx]
  | cons a t ih =>
    unfold findIdx
    by_cases hav : a = v
    · subst hav; simp
    · rw [if_neg hav, ih]
      simp only [List.mem_cons, not_or]
      exact ⟨fun h => ⟨fun h' => hav h'.symm, h⟩, fun h => h.2⟩

theorem idx_unique_label {l : List Label} (hnd : l.Nodup) {i j : Nat} {v : Label} (hi : l[i]? = some v) (hj : l[j]? = some v) :
    i = j := by
  obtain ⟨hil, hi'⟩ := List.getElem?_eq_some_iff.mp hi
  obtain ⟨hjl, hj'⟩ := List.getElem?_eq_some_iff.mp hj
  have hp := List.pairwise_iff_getElem.mp hnd
  rcases Nat.lt_trichotomy i j with h | h | h
  · exact absurd (hi'.trans hj'.symm) (hp i j hil hjl h)
  · exact h
  · exact absurd (hj'.trans hi'.symm) (hp j i hjl hil h)

theorem findIdx_eq_some_iff {l : List Label} (hnd : l.Nodup) {v : Label} {i : Nat} :
    findIdx v l 0 = some i ↔ l[i]? = some v := by
  constructor
  · intro h; have := findIdx_get h; simpa using this
  · intro h
    cases hf : findIdx v l 0 with
    | none => exact absurd (mem_of_getElem? h) (findIdx_none_iff.mp hf)
    | some j =>
      have hj := findIdx_get hf
      simp only [Nat.sub_zero] at hj
      rw [idx_unique_label hnd hj h]

theorem findIdx_eraseIdx {l : List Label} (hnd : l.Nodup) {g : Nat} {lg : Label} (hg : l[g]? = some lg) (v : Label) :
    findIdx v (Bqm.eraseIdx l g) 0 = if v = lg then none else (findIdx v l 0).map (shift g) := by
  have hnd' : (Bqm.eraseIdx l g).Nodup := by
    rw [eraseIdx_eq]; exact List.Nodup.sublist (List.eraseIdx_sublist _ _) hnd
  by_cases hv : v = lg
  · subst hv
    rw [if_pos rfl, findIdx_none_iff]
    intro hmem
    obtain ⟨j, hj⟩ := List.getElem?_of_mem hmem
    rw [getElem?_eraseIdx] at hj
    split_ifs at hj with hjg
    · have := idx_unique_label hnd hj hg; omega
    · have := idx_unique_label hnd hj hg; omega
  · rw [if_neg hv]
    cases hf : findIdx v l 0 with
    | none =>
      simp only [Option.map_none]
      rw [findIdx_none_iff] at hf ⊢
      intro hmem; apply hf
      rw [eraseIdx_eq] at hmem
      exact (List.eraseIdx_sublist _ _).subset hmem
    | some i =>
      simp only [Option.map_some]
      have hi := (findIdx_eq_some_iff hnd).mp hf
      have hig : i ≠ g := by
        intro h; subst h; rw [hi] at hg; exact hv (Option.some.inj hg)
      rw [findIdx_eq_some_iff hnd', getElem?_eraseIdx_shift _ hig]; exact hi

theorem getD_label_inj {l : List Label} (hnd : l.Nodup) {i j : Nat} (hi : i < l.length) (hj : j < l.length)
    (h : l.getD i (.int 0) = l.getD j (.int 0)) : i = j := by
  rw [List.getD_eq_getElem?_getD, List.getD_eq_getElem?_getD, List.getElem?_eq_getElem hi, List.getElem?_eq_getElem hj] at h
  simp only [Option.getD_some] at h
  exact idx_unique_label hnd (List.getElem?_eq_getElem hi) (by rw [List.getElem?_eq_getElem hj, h])

/-! ### removing a variable, seen on the polynomial -/

theorem absExpr_reindex {labels : List Label} (hnd : labels.Nodup) {e : Expr} (hwf : ExprWF e) (hin : ExprIn labels.length e)
    {g : Nat} {lg : Label} (hg : labels[g]? = some lg) :
    absExpr (Bqm.eraseIdx labels g) (e.reindex g) = (absExpr labels e).drop lg := by
  have hgl : g < labels.length := lt_of_getElem? hg
  unfold absExpr LPoly.drop
  simp only [LPoly.mk.injEq]
  refine ⟨?_, ?_, ?_, reindex_off e g⟩
  · -- variables: same order, `lg` gone
    rw [reindex_vars hwf g, List.map_map, List.filter_map]
    have h1 : ∀ u ∈ e.vars.filter (· ≠ g), ((fun x => (Bqm.eraseIdx labels g).getD x (.int 0)) ∘ shift g) u = labels.getD u (.int 0) := by
      intro u hu
      have hug : u ≠ g := by simpa using (List.mem_filter.mp hu).2
      exact getD_eraseIdx_shift _ hug _
    rw [List.map_congr_left h1]
    congr 1
    apply List.filter_congr
    intro u hu
    have hul := hin u hu
    have hlg : labels.getD g (.int 0) = lg := by rw [List.getD_eq_getElem?_getD, hg]; rfl
    by_cases hug : u = g
    · subst hug
      simp only [ne_eq, not_true_eq_false, decide_false, Function.comp, hlg]
    · have : labels.getD u (.int 0) ≠ lg := by
        intro h; rw [← hlg] at h; exact hug (getD_label_inj hnd hul hgl h)
      simp only [ne_eq, hug, not_false_eq_true, decide_true, Function.comp, this]
  · funext x
    rw [findIdx_eraseIdx hnd hg]
    by_cases hx : x = lg
    · simp [hx]
    · simp only [hx, if_false]
      cases hf : findIdx x labels 0 with
      | none => rfl
      | some i =>
        have hi := (findIdx_eq_some_iff hnd).mp hf
        have hig : i ≠ g := by intro h; subst h; rw [hi] at hg; exact hx (Option.some.inj hg)
        exact reindex_linear hwf g i hig
  · funext x y
    rw [findIdx_eraseIdx hnd hg, findIdx_eraseIdx hnd hg]
    by_cases hx : x = lg
    · simp [hx]
    · by_cases hy : y = lg
      · simp only [hy, if_true, or_true]
        cases (if x = lg then none else Option.map (shift g) (findIdx x labels 0)) <;> rfl
      · simp only [hx, hy, if_false, or_self]
        cases hfx : findIdx x labels 0 with
        | none => rfl
        | some i =>
          cases hfy : findIdx y labels 0 with
          | none => rfl
          | some j =>
            have hi := (findIdx_eq_some_iff hnd).mp hfx
            have hj := (findIdx_eq_some_iff hnd).mp hfy
            have hig : i ≠ g := by intro h; subst h; rw [hi] at hg; exact hx (Option.some.inj hg)
            have hjg : j ≠ g := by intro h; subst h; rw [hj] at hg; exact hy (Option.some.inj hg)
            exact reindex_quadratic hwf g i j hig hjg


/-! ### the whole model as a plain list of polynomials -/

structure LCons where
  p : LPoly
  sense : Sense
  rhs : Rat
  weight : Option Rat
  quadPenalty : Bool
  discrete : Bool

structure LCqm where
  labels : List Label                          -- the variables, in order
  info : Label → Option (VT4 × Rat × Rat)      -- type and bounds of a variable
  obj : LPoly
  cons : List (Label × LCons)                  -- constraint label, constraint

def absCons (labels : List Label) (c : Cons) : LCons :=
  { p := absExpr labels c.e, sense := c.sense, rhs := c.rhs, weight := c.weight, quadPenalty := c.quadPenalty,
    discrete := c.discrete }

def absCqm (m : Cqm) : LCqm :=
  { labels := m.labels,
    info := fun l => (findIdx l m.labels 0).map fun g => (m.vt.getD g .binary, m.lb.getD g 0, m.ub.getD g 0),
    obj := absExpr m.labels m.obj,
    cons := m.clabels.zip (m.cons.map (absCons m.labels)) }

/-- `remove_variable(l)` on a list of polynomials: the variable and its terms go, everything else stays -/
def LCqm.removeVariable (s : LCqm) (l : Label) : LCqm :=
  { labels := s.labels.filter (· ≠ l),
    info := fun x => if x = l then none else s.info x,
    obj := s.obj.drop l,
    cons := s.cons.map fun p => (p.1, { p.2 with p := p.2.p.drop l }) }

theorem map_snd_zip {α β γ} (f : β → γ) : ∀ (a : List α) (b : List β),
    (a.zip b).map (fun p => (p.1, f p.2)) = a.zip (b.map f)
  | [], _ => rfl
  | _ :: _, [] => rfl
  | x :: a, y :: b => by simp [map_snd_zip f a b]

theorem eraseIdx_eq_filter_label {l : List Label} (hnd : l.Nodup) {i : Nat} {v : Label} (hi : l[i]? = some v) :
    Bqm.eraseIdx l i = l.filter (· ≠ v) := by
  induction l generalizing i with
  | nil => simp at hi
  | cons a t ih =>
    rw [List.nodup_cons] at hnd
    cases i with
    | zero =>
      simp only [List.getElem?_cons_zero, Option.some.injEq] at hi
      subst hi
      simp only [Bqm.eraseIdx, List.filter_cons, ne_eq, not_true_eq_false, decide_false, Bool.false_eq_true, if_false]
      symm
      rw [List.filter_eq_self]
      intro b hb
      simp only [decide_eq_true_eq]
      intro h; subst h; exact hnd.1 hb
    | succ i =>
      simp only [List.getElem?_cons_succ] at hi
      have hav : a ≠ v := fun h => hnd.1 (h ▸ mem_of_getElem? hi)
      simp only [Bqm.eraseIdx, List.filter_cons, ne_eq, hav, not_false_eq_true, decide_true, if_true]
      rw [ih hnd.2 hi]

/-- **Removing a variable only shifts indices** — seen on the plain list of polynomials the C++
    `remove_variable(g)` (re-indexing every expression, erasing `varinfo_[g]` and the label) is exactly
    "drop the variable and its terms": no other term, variable, type, bound, sense, rhs, weight, penalty
    or mark changes, in the objective and in every constraint. -/
theorem absCqm_removeVarAt {m : Cqm} (hwf : CqmWF m) (hnd : m.labels.Nodup) {g : Nat} {lg : Label} (hg : m.labels[g]? = some lg) :
    absCqm (m.removeVarAt g) = (absCqm m).removeVariable lg := by
  have hlen : ∀ e, ExprIn m.vt.length e → ExprIn m.labels.length e := by
    intro e h; rw [hwf.labels_len]; exact h
  unfold absCqm LCqm.removeVariable
  simp only [LCqm.mk.injEq]
  refine ⟨eraseIdx_eq_filter_label hnd hg, ?_, absExpr_reindex hnd hwf.obj (hlen _ hwf.obj_lt) hg, ?_⟩
  · funext x
    show (findIdx x (Bqm.eraseIdx m.labels g) 0).map _ = _
    rw [findIdx_eraseIdx hnd hg]
    by_cases hx : x = lg
    · simp [hx]
    · simp only [hx, if_false]
      cases hf : findIdx x m.labels 0 with
      | none => rfl
      | some i =>
        have hi := (findIdx_eq_some_iff hnd).mp hf
        have hig : i ≠ g := by intro h; subst h; rw [hi] at hg; exact hx (Option.some.inj hg)
        simp only [Option.map_some]
        show some ((Bqm.eraseIdx m.vt g).getD (shift g i) .binary, (Bqm.eraseIdx m.lb g).getD (shift g i) 0,
          (Bqm.eraseIdx m.ub g).getD (shift g i) 0) = _
        rw [getD_eraseIdx_shift _ hig, getD_eraseIdx_shift _ hig, getD_eraseIdx_shift _ hig]
  · show m.clabels.zip ((m.cons.map fun c => { c with e := c.e.reindex g }).map (absCons (Bqm.eraseIdx m.labels g))) = _
    rw [List.map_map]
    have := map_snd_zip (fun (c : LCons) => ({ c with p := c.p.drop lg } : LCons)) m.clabels (m.cons.map (absCons m.labels))
    rw [this]
    congr 1
    rw [List.map_map]
    apply List.map_congr_left
    intro c hc
    simp only [Function.comp, absCons]
    rw [absExpr_reindex hnd (hwf.cons c hc) (hlen _ (hwf.cons_lt c hc)) hg]


/-! ### adding to / setting a linear bias through a view -/

theorem linear_of_idx {e : Expr} {k i : Nat} (h : e.idx.get? k = some i) : e.linear k = e.qb.lin.getD i 0 := by
  unfold Expr.linear; rw [h]

theorem linear_of_none {e : Expr} {k : Nat} (h : e.idx.get? k = none) : e.linear k = 0 := by
  unfold Expr.linear; rw [h]

/-- what `enforce_variable(g)` does to the accessors: nothing -/
theorem enforce_linear {e : Expr} (hwf : ExprWF e) (g k : Nat) : (e.enforce g).1.linear k = e.linear k := by
  cases hg : e.idx.get? g with
  | some i => rw [enforce_of_some hg]
  | none =>
    rw [enforce_of_none hg]
    unfold Expr.linear
    show (match (e.idx.set g e.vars.length).get? k with
      | some i => (e.qb.lin ++ [0]).getD i 0
      | none => 0) = _
    rw [get?_set]
    by_cases hgk : g = k
    · subst hgk
      rw [if_pos rfl, hg]
      simp only []
      rw [List.getD_eq_getElem?_getD, List.getElem?_append_right (by rw [hwf.lin_len]; exact Nat.le_refl _)]
      simp [hwf.lin_len]
    · rw [if_neg hgk]
      cases hk : e.idx.get? k with
      | none => rfl
      | some j =>
        simp only []
        have hj : j < e.qb.lin.length := by rw [hwf.lin_len]; exact lt_of_getElem? ((hwf.idx k j).mp hk)
        rw [List.getD_eq_getElem?_getD, List.getElem?_append_left hj, ← List.getD_eq_getElem?_getD]

theorem addLinear_linear {e : Expr} (hwf : ExprWF e) (g : Nat) (b : Rat) (k : Nat) :
    (e.addLinear g b).linear k = if k = g then e.linear g + b else e.linear k := by
  have h1 := enforce_wf hwf g
  have hidx := enforce_idx (e := e) g
  have hlt : (e.enforce g).2 < (e.enforce g).1.qb.lin.length := by rw [h1.lin_len]; exact enforce_lt hwf g
  unfold Expr.addLinear QB.addLinear
  by_cases hkg : k = g
  · subst hkg
    rw [if_pos rfl]
    rw [show ({ (e.enforce k).1 with qb := { (e.enforce k).1.qb with lin := Bqm.modifyAt (e.enforce k).1.qb.lin (e.enforce k).2 (· + b) } } : Expr).linear k
        = (Bqm.modifyAt (e.enforce k).1.qb.lin (e.enforce k).2 (· + b)).getD (e.enforce k).2 0 from linear_of_idx hidx]
    rw [getD_modifyAt _ _ _ _ _ hlt, if_pos rfl, ← linear_of_idx hidx, enforce_linear hwf]
  · rw [if_neg hkg, ← enforce_linear hwf g k]
    cases hk : (e.enforce g).1.idx.get? k with
    | none =>
      rw [linear_of_none hk]
      exact linear_of_none (e := { (e.enforce g).1 with qb := _ }) hk
    | some j =>
      rw [linear_of_idx hk]
      rw [show ({ (e.enforce g).1 with qb := { (e.enforce g).1.qb with lin := Bqm.modifyAt (e.enforce g).1.qb.lin (e.enforce g).2 (· + b) } } : Expr).linear k
          = (Bqm.modifyAt (e.enforce g).1.qb.lin (e.enforce g).2 (· + b)).getD j 0 from linear_of_idx hk]
      rw [getD_modifyAt _ _ _ _ _ hlt]
      have : j ≠ (e.enforce g).2 := by
        intro hj; subst hj
        have a1 := (h1.idx k _).mp hk
        have a2 := (h1.idx g _).mp hidx
        rw [a1] at a2; exact hkg (Option.some.inj a2)
      rw [if_neg this]

theorem addLinear_vars (e : Expr) (g : Nat) (b : Rat) :
    (e.addLinear g b).vars = if e.hasVar g then e.vars else e.vars ++ [g] := by
  unfold Expr.addLinear Expr.hasVar
  cases hg : e.idx.get? g with
  | some i => rw [enforce_of_some hg]; rfl
  | none => rw [enforce_of_none hg]; rfl

end CqmP
