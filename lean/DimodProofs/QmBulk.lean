import DimodProofs.QmStep
import DimodProofs.QmErr

/-! `QuadraticModel`: `clear` and the three bulk folds (`add_linear_from`, `add_quadratic_from`, `add_variables_from`) refine
    steps on the label-keyed polynomial with vartypes and bounds — property C04.  A bulk call is the fold of the single call
    over the longest prefix of elements that do not raise; it raises exactly when that prefix is not the whole list.
    Core Lean only. -/

namespace Qm

def QPoly.clear (p : QPoly) : QPoly :=
  { p with vars := [], info := fun _ => none, lin := fun _ => 0, quad := fun _ _ => none, off := 0 }

theorem clear_refines {m : Qm} (i : Inv m) : absQ m.clear = (absQ m).clear ∧ Inv m.clear := by
  refine ⟨?_, ⟨?_, List.nodup_nil⟩⟩
  · apply QPoly.ext' <;> intros <;> rfl
  · exact i.wf.step .clear (by trivial)

/-- the polynomial after a list of single calls, each of which returned -/
def QPoly.applyAll (p : QPoly) : List Op → QPoly
  | [] => p
  | op :: t => QPoly.applyAll (p.apply op) t

theorem addLinearFrom_refines (d : Option (QVT × Option Rat × Option Rat)) : ∀ (l : List (Option Label × Rat)) {m : Qm}, Inv m →
    ∃ k, k ≤ l.length ∧
      absQ (m.addLinearFrom d l).1 = (absQ m).applyAll ((l.take k).map fun p => Op.addLinear p.1 p.2 d) ∧
      Inv (m.addLinearFrom d l).1 ∧ ((m.addLinearFrom d l).2 = none ↔ k = l.length) := by
  intro l
  induction l with
  | nil => intro m i; exact ⟨0, Nat.le_refl _, rfl, i, by simp [Qm.addLinearFrom]⟩
  | cons x t ih =>
    intro m i
    obtain ⟨v, b⟩ := x
    cases v with
    | none => exact ⟨0, Nat.zero_le _, rfl, i, by simp [Qm.addLinearFrom]⟩
    | some v =>
      cases h : m.addLinear v b d with
      | mk m' e =>
        cases e with
        | none =>
          have hok : (m.step (.addLinear (some v) b d)).2 = none := by show (m.addLinear v b d).2 = none; rw [h]
          have s := step_refinesQ i (QEdit.addLinear v b d) hok
          have e1 : (m.step (.addLinear (some v) b d)).1 = m' := by show (m.addLinear v b d).1 = m'; rw [h]
          rw [e1] at s
          obtain ⟨k, hk, ha, hi, hf⟩ := ih s.2
          have eq : m.addLinearFrom d ((some v, b) :: t) = m'.addLinearFrom d t := by simp only [Qm.addLinearFrom, h]
          refine ⟨k + 1, by simp; omega, ?_, by rw [eq]; exact hi, by rw [eq, hf]; simp⟩
          rw [eq, ha, s.1]; rfl
        | some er =>
          have herr : (m.step (.addLinear (some v) b d)).2 = some er := by show (m.addLinear v b d).2 = some er; rw [h]
          have hun := error_leaves_unchanged m (.addLinear (some v) b d) trivial er herr
          have e1 : m' = m := by
            have : (m.step (.addLinear (some v) b d)).1 = m' := by show (m.addLinear v b d).1 = m'; rw [h]
            rw [← this]; exact hun
          have eq : m.addLinearFrom d ((some v, b) :: t) = (m', some er) := by simp only [Qm.addLinearFrom, h]
          rw [eq, e1]
          exact ⟨0, Nat.zero_le _, rfl, i, by simp⟩

theorem addQuadraticFrom_refines : ∀ (l : List (Option Label × Option Label × Rat)) {m : Qm}, Inv m →
    ∃ k, k ≤ l.length ∧
      absQ (m.addQuadraticFrom l).1 = (absQ m).applyAll ((l.take k).map fun p => Op.addQuadratic p.1 p.2.1 p.2.2) ∧
      Inv (m.addQuadraticFrom l).1 ∧ ((m.addQuadraticFrom l).2 = none ↔ k = l.length) := by
  intro l
  induction l with
  | nil => intro m i; exact ⟨0, Nat.le_refl _, rfl, i, by simp [Qm.addQuadraticFrom]⟩
  | cons x t ih =>
    intro m i
    obtain ⟨u, v, b⟩ := x
    cases u with
    | none => exact ⟨0, Nat.zero_le _, rfl, i, by simp [Qm.addQuadraticFrom]⟩
    | some u =>
      cases v with
      | none => exact ⟨0, Nat.zero_le _, rfl, i, by simp [Qm.addQuadraticFrom]⟩
      | some v =>
        cases h : m.quadOp u v b false with
        | mk m' e =>
          cases e with
          | none =>
            have hok : (m.step (.addQuadratic (some u) (some v) b)).2 = none := by show (m.quadOp u v b false).2 = none; rw [h]
            have s := step_refinesQ i (QEdit.addQuadratic u v b) hok
            have e1 : (m.step (.addQuadratic (some u) (some v) b)).1 = m' := by show (m.quadOp u v b false).1 = m'; rw [h]
            rw [e1] at s
            obtain ⟨k, hk, ha, hi, hf⟩ := ih s.2
            have eq : m.addQuadraticFrom ((some u, some v, b) :: t) = m'.addQuadraticFrom t := by simp only [Qm.addQuadraticFrom, h]
            refine ⟨k + 1, by simp; omega, ?_, by rw [eq]; exact hi, by rw [eq, hf]; simp⟩
            rw [eq, ha, s.1]; rfl
          | some er =>
            have herr : (m.step (.addQuadratic (some u) (some v) b)).2 = some er := by show (m.quadOp u v b false).2 = some er; rw [h]
            have hun := error_leaves_unchanged m (.addQuadratic (some u) (some v) b) trivial er herr
            have e1 : m' = m := by
              have : (m.step (.addQuadratic (some u) (some v) b)).1 = m' := by show (m.quadOp u v b false).1 = m'; rw [h]
              rw [← this]; exact hun
            have eq : m.addQuadraticFrom ((some u, some v, b) :: t) = (m', some er) := by simp only [Qm.addQuadraticFrom, h]
            rw [eq, e1]
            exact ⟨0, Nat.zero_le _, rfl, i, by simp⟩

theorem addVariablesFrom_refines (ty : QVT) (thenFail : Bool) : ∀ (l : List (Option Label)) {m : Qm}, Inv m →
    ∃ k, k ≤ l.length ∧
      absQ (m.addVariablesFrom ty thenFail l).1 = (absQ m).applyAll ((l.take k).map fun v => Op.addVariable ty v none none) ∧
      Inv (m.addVariablesFrom ty thenFail l).1 ∧
      ((m.addVariablesFrom ty thenFail l).2 = none ↔ (k = l.length ∧ thenFail = false)) := by
  intro l
  induction l with
  | nil =>
    intro m i
    refine ⟨0, Nat.le_refl _, ?_, ?_, ?_⟩
    · cases thenFail <;> rfl
    · cases thenFail <;> exact i
    · cases thenFail <;> simp [Qm.addVariablesFrom]
  | cons v t ih =>
    intro m i
    cases h : m.addVariable ty v none none with
    | mk m' e =>
      cases e with
      | none =>
        have hok : (m.step (.addVariable ty v none none)).2 = none := by show (m.addVariable ty v none none).2 = none; rw [h]
        have s := step_refinesQ i (QEdit.addVariable ty v none none) hok
        have e1 : (m.step (.addVariable ty v none none)).1 = m' := by show (m.addVariable ty v none none).1 = m'; rw [h]
        rw [e1] at s
        obtain ⟨k, hk, ha, hi, hf⟩ := ih s.2
        have eq : m.addVariablesFrom ty thenFail (v :: t) = m'.addVariablesFrom ty thenFail t := by simp only [Qm.addVariablesFrom, h]
        refine ⟨k + 1, by simp; omega, ?_, by rw [eq]; exact hi, by rw [eq, hf]; simp⟩
        rw [eq, ha, s.1]; rfl
      | some er =>
        have herr : (m.step (.addVariable ty v none none)).2 = some er := by show (m.addVariable ty v none none).2 = some er; rw [h]
        have hun := error_leaves_unchanged m (.addVariable ty v none none) trivial er herr
        have e1 : m' = m := by
          have : (m.step (.addVariable ty v none none)).1 = m' := by show (m.addVariable ty v none none).1 = m'; rw [h]
          rw [← this]; exact hun
        have eq : m.addVariablesFrom ty thenFail (v :: t) = (m', some er) := by simp only [Qm.addVariablesFrom, h]
        rw [eq, e1]
        exact ⟨0, Nat.zero_le _, rfl, i, by simp⟩

end Qm
