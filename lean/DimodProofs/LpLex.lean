import DimodModel.Lp
import Mathlib.Data.List.Chain
import Mathlib.Tactic.SplitIfs

/-! C12, lexical layer (part): the `"\n "` that `_WidthLimitedFile` inserts in front of a write never changes
    the sequence of blank-separated words of the text, because in the writer's output every write ends
    with, or the next one starts with, a blank or newline. -/

namespace Lp

def flush (cur : List Char) : List (List Char) := if cur.isEmpty then [] else [cur.reverse]

theorem wordsAux_nil (cur : List Char) : wordsAux [] cur = flush cur := rfl

theorem wordsAux_ws (c : Char) (cs cur : List Char) (hc : isWs c = true) :
    wordsAux (c :: cs) cur = flush cur ++ wordsAux cs [] := by
  simp only [wordsAux, hc, if_true, flush]
  split <;> simp

theorem wordsAux_nws (c : Char) (cs cur : List Char) (hc : isWs c = false) :
    wordsAux (c :: cs) cur = wordsAux cs (c :: cur) := by
  simp [wordsAux, hc]

def startsWs : List Char → Bool
  | [] => false
  | c :: _ => isWs c

def endsWs (l : List Char) : Bool := startsWs l.reverse

/-- `b` starts with a blank: words of `a ++ b` are words of `a` followed by words of `b` -/
theorem wordsAux_append_starts (a b cur : List Char) (hb : startsWs b = true) :
    wordsAux (a ++ b) cur = wordsAux a cur ++ wordsAux b [] := by
  induction a generalizing cur with
  | nil =>
    match b, hb with
    | c :: cs, hb =>
      simp only [startsWs] at hb
      rw [List.nil_append, wordsAux_ws c cs cur hb, wordsAux_nil, wordsAux_ws c cs [] hb]
      simp [flush]
  | cons c cs ih =>
    by_cases hc : isWs c = true
    · rw [List.cons_append, wordsAux_ws c _ cur hc, wordsAux_ws c cs cur hc, ih, List.append_assoc]
    · have hc' : isWs c = false := by simpa using hc
      rw [List.cons_append, wordsAux_nws c _ cur hc', wordsAux_nws c cs cur hc', ih]

/-- `a` ends with a blank: the same -/
theorem wordsAux_append_ends (a b cur : List Char) (ha : endsWs a = true) :
    wordsAux (a ++ b) cur = wordsAux a cur ++ wordsAux b [] := by
  induction a generalizing cur with
  | nil => simp [endsWs, startsWs] at ha
  | cons c cs ih =>
    by_cases hcs : cs = []
    · subst hcs
      have hc : isWs c = true := by simpa [endsWs, startsWs] using ha
      rw [List.cons_append, List.nil_append, wordsAux_ws c b cur hc, wordsAux_ws c [] cur hc, wordsAux_nil]
      simp [flush]
    · have hends : endsWs cs = true := by
        unfold endsWs at ha ⊢
        rw [List.reverse_cons] at ha
        cases hr : cs.reverse with
        | nil => exact absurd (List.reverse_eq_nil_iff.mp hr) hcs
        | cons d t => rw [hr] at ha; simpa [startsWs] using ha
      by_cases hc : isWs c = true
      · rw [List.cons_append, wordsAux_ws c _ cur hc, wordsAux_ws c cs cur hc, ih [] hends, List.append_assoc]
      · have hc' : isWs c = false := by simpa using hc
        rw [List.cons_append, wordsAux_nws c _ cur hc', wordsAux_nws c cs cur hc', ih _ hends]

/-- the inserted break is invisible to the word splitter -/
theorem wordsL_break (b : List Char) : wordsL ('\n' :: ' ' :: b) = wordsL b := by
  unfold wordsL
  rw [wordsAux_ws '\n' _ [] (by decide), wordsAux_ws ' ' _ [] (by decide)]
  simp [flush]

/-- two consecutive writes are separated: the first ends with, or the second starts with, a blank/newline -/
def Sep (a b : List Char) : Prop := endsWs a = true ∨ startsWs b = true

/-- what `_WidthLimitedFile` produces from writes `ws` with break flags `fs` -/
def joinL : List (Bool × List Char) → List Char
  | [] => []
  | (b, w) :: rest => (if b then ['\n', ' '] else []) ++ w ++ joinL rest

theorem startsWs_append_nonempty (a b : List Char) (ha : a ≠ []) : startsWs (a ++ b) = startsWs a := by
  cases a with
  | nil => exact absurd rfl ha
  | cons c t => rfl

theorem startsWs_joinL (ws : List (Bool × List Char)) (hne : ∀ p ∈ ws, p.2 ≠ []) :
    ∀ p rest, ws = p :: rest → (startsWs (joinL ws) = true ↔ (p.1 = true ∨ startsWs p.2 = true)) := by
  intro p rest h
  subst h
  obtain ⟨b, w⟩ := p
  have hw : w ≠ [] := hne (b, w) (List.mem_cons_self)
  cases b with
  | true => simp [joinL, startsWs, isWs]
  | false =>
    simp only [joinL, Bool.false_eq_true, if_false, List.nil_append, false_or]
    rw [startsWs_append_nonempty w _ hw]

/-- **wrap does not change the words**: for non-empty writes that are pairwise separated, the text with
    breaks in front of any of the writes has the same words as the plain concatenation -/
theorem wordsL_joinL (ws : List (Bool × List Char)) (hne : ∀ p ∈ ws, p.2 ≠ [])
    (hsep : List.IsChain (fun p q : Bool × List Char => Sep p.2 q.2) ws) :
    wordsL (joinL ws) = wordsL (ws.map (·.2)).flatten := by
  induction ws with
  | nil => rfl
  | cons p rest ih =>
    obtain ⟨b, w⟩ := p
    have hw : w ≠ [] := hne (b, w) (List.mem_cons_self)
    have hrest := ih (fun q hq => hne q (List.mem_cons_of_mem _ hq)) (List.IsChain.tail hsep)
    -- words of `w ++ tail` split at the boundary, for both tails
    have split : ∀ t1 t2 : List Char, wordsL t1 = wordsL t2 → (t1 = [] ↔ t2 = []) →
        (startsWs t1 = true ∨ endsWs w = true) → (startsWs t2 = true ∨ endsWs w = true) →
        wordsL (w ++ t1) = wordsL (w ++ t2) := by
      intro t1 t2 he _ h1 h2
      unfold wordsL at he ⊢
      have e1 : wordsAux (w ++ t1) [] = wordsAux w [] ++ wordsAux t1 [] := by
        rcases h1 with h | h
        · exact wordsAux_append_starts w t1 [] h
        · exact wordsAux_append_ends w t1 [] h
      have e2 : wordsAux (w ++ t2) [] = wordsAux w [] ++ wordsAux t2 [] := by
        rcases h2 with h | h
        · exact wordsAux_append_starts w t2 [] h
        · exact wordsAux_append_ends w t2 [] h
      rw [e1, e2, he]
    have body : wordsL (w ++ joinL rest) = wordsL (w ++ (rest.map (·.2)).flatten) := by
      cases hr : rest with
      | nil => simp [joinL]
      | cons q rest' =>
        subst hr
        have hsep1 : Sep w q.2 := (List.isChain_cons_cons.mp hsep).1
        have hq : q.2 ≠ [] := hne q (List.mem_cons_of_mem _ List.mem_cons_self)
        apply split _ _ hrest (by constructor <;> intro h <;> simp_all [joinL])
        · rcases hsep1 with h | h
          · exact Or.inr h
          · left
            exact (startsWs_joinL (q :: rest') (fun x hx => hne x (List.mem_cons_of_mem _ hx)) q rest' rfl).mpr (Or.inr h)
        · rcases hsep1 with h | h
          · exact Or.inr h
          · left
            simp only [List.map_cons, List.flatten_cons]
            rw [startsWs_append_nonempty _ _ hq]; exact h
    simp only [joinL, List.map_cons, List.flatten_cons, List.append_assoc]
    cases b with
    | true =>
      simp only [if_true, List.cons_append, List.nil_append]
      rw [wordsL_break]; exact body
    | false =>
      simp only [Bool.false_eq_true, if_false, List.nil_append]; exact body

end Lp

namespace Lp

/-! ### the writer's writes are separated -/

def endsK : Tok → Bool
  | .name _ => false
  | .end_ => false
  | _ => true

def startsK : Tok → Bool
  | .name _ => true
  | .nl => true
  | _ => false

theorem endsWs_append_ws (l : List Char) (c : Char) (hc : isWs c = true) : endsWs (l ++ [c]) = true := by
  simp [endsWs, startsWs, hc]

theorem render_ends (t : Tok) (h : endsK t = true) : endsWs (t.render).toList = true := by
  cases t with
  | name v => simp [endsK] at h
  | end_ => simp [endsK] at h
  | «section» g => cases g <;> decide
  | lin b v => simp only [Tok.render, String.toList_append]; exact endsWs_append_ws _ ' ' (by decide)
  | qterm b u v => simp only [Tok.render, String.toList_append]; exact endsWs_append_ws _ ' ' (by decide)
  | const b => simp only [Tok.render, String.toList_append]; exact endsWs_append_ws _ ' ' (by decide)
  | clabel l =>
    simp only [Tok.render, String.toList_append]
    have : (": " : String).toList = [':'] ++ [' '] := by decide
    rw [this, ← List.append_assoc]; exact endsWs_append_ws _ ' ' (by decide)
  | cmp s r => simp only [Tok.render, String.toList_append]; exact endsWs_append_ws _ '\n' (by decide)
  | bound lb v ub => simp only [Tok.render, String.toList_append]; exact endsWs_append_ws _ '\n' (by decide)
  | minimize => decide
  | objLabel => decide
  | qopen => decide
  | qcloseHalf => decide
  | qclose => decide
  | blank2 => decide
  | subjectTo => decide
  | nl => decide
  | bounds => decide

theorem render_starts (t : Tok) (h : startsK t = true) : startsWs (t.render).toList = true := by
  cases t with
  | name v => simp only [Tok.render, String.toList_append]; rfl
  | nl => decide
  | _ => simp [startsK] at h

theorem render_ne_nil (t : Tok) : (t.render).toList ≠ [] := by
  cases t with
  | «section» g => cases g <;> decide
  | lin b v => simp [Tok.render, String.toList_append]
  | qterm b u v => simp [Tok.render, String.toList_append]
  | const b => simp [Tok.render, String.toList_append]
  | clabel l => simp [Tok.render, String.toList_append]
  | cmp s r => simp [Tok.render, String.toList_append]
  | bound lb v ub => simp [Tok.render, String.toList_append]
  | name v => simp [Tok.render, String.toList_append]
  | minimize => decide
  | objLabel => decide
  | qopen => decide
  | qcloseHalf => decide
  | qclose => decide
  | blank2 => decide
  | subjectTo => decide
  | nl => decide
  | bounds => decide
  | end_ => decide

/-- adjacent tokens: the first ends with a blank/newline or the second starts with one -/
def TokSep (a b : Tok) : Prop := endsK a = true ∨ startsK b = true

theorem sepL {a b : Tok} (h : endsK a = true) : TokSep a b := Or.inl h
theorem sepR {a b : Tok} (h : startsK b = true) : TokSep a b := Or.inr h

theorem chain_allEnds_append (l1 l2 : List Tok) (h1 : ∀ t ∈ l1, endsK t = true) (h2 : List.IsChain TokSep l2) :
    List.IsChain TokSep (l1 ++ l2) := by
  induction l1 with
  | nil => exact h2
  | cons a t ih =>
    have iht := ih (fun x hx => h1 x (List.mem_cons_of_mem _ hx))
    cases hr : t ++ l2 with
    | nil => rw [List.cons_append, hr]; exact List.isChain_singleton a
    | cons b r =>
      rw [List.cons_append, hr]
      rw [hr] at iht
      exact List.isChain_cons_cons.mpr ⟨sepL (h1 a List.mem_cons_self), iht⟩

theorem chain_names_append (vs : List LVar) (rest : List Tok) (h : List.IsChain TokSep (Tok.nl :: rest)) :
    List.IsChain TokSep ((vs.map fun v => Tok.name v.name) ++ Tok.nl :: rest) := by
  induction vs with
  | nil => exact h
  | cons v t ih =>
    cases t with
    | nil => exact List.isChain_cons_cons.mpr ⟨sepR rfl, h⟩
    | cons w t' => exact List.isChain_cons_cons.mpr ⟨sepR rfl, ih⟩

theorem all_linToks (l : List (Label × Rat)) : (linToks l).all endsK = true := by
  simp [linToks, List.all_map, endsK]

theorem all_qterms (k : Rat) (q : List (Label × Label × Rat)) : (q.map fun (u, v, b) => Tok.qterm (k * b) u v).all endsK = true := by
  induction q with
  | nil => rfl
  | cons p t ih => obtain ⟨u, v, b⟩ := p; simp only [List.map_cons, List.all_cons, ih, endsK, Bool.and_self]

theorem all_qterms1 (q : List (Label × Label × Rat)) : (q.map fun (u, v, b) => Tok.qterm b u v).all endsK = true := by
  induction q with
  | nil => rfl
  | cons p t ih => obtain ⟨u, v, b⟩ := p; simp only [List.map_cons, List.all_cons, ih, endsK, Bool.and_self]

theorem allEnds_objToks (e : LExpr) : ∀ t ∈ objToks e, endsK t = true := by
  have : (objToks e).all endsK = true := by
    unfold objToks
    simp only []
    split_ifs <;> simp [List.all_append, all_qterms, all_linToks, endsK]
  exact fun t ht => List.all_eq_true.mp this t ht

theorem allEnds_conToks (c : LCon) : ∀ t ∈ conToks c, endsK t = true := by
  have : (conToks c).all endsK = true := by
    unfold conToks
    split_ifs <;> simp [List.all_append, all_qterms1, all_linToks, endsK]
  exact fun t ht => List.all_eq_true.mp this t ht

/-- in everything `dump` writes, consecutive writes are separated by a blank or a newline -/
theorem dumpToks_separated (m : LCqm) (ts : List Tok) (h : dumpToks m = .ok ts) : List.IsChain TokSep ts := by
  unfold dumpToks at h
  split at h; · simp at h
  split at h; · simp at h
  split at h; · simp at h
  simp only [Except.ok.injEq] at h
  subst h
  have tail : List.IsChain TokSep (sectionToks m.vars ++ [Tok.nl, Tok.end_]) := by
    unfold sectionToks
    have e1 : List.IsChain TokSep [Tok.nl, Tok.end_] := List.isChain_cons_cons.mpr ⟨sepL rfl, List.isChain_singleton _⟩
    have e2 := chain_names_append (m.vars.filter (·.vt = .integer)) [Tok.end_] e1
    have e3 := chain_allEnds_append [Tok.nl, Tok.section true] _ (by intro t ht; simp at ht; rcases ht with rfl | rfl <;> rfl) e2
    have e4 := chain_names_append (m.vars.filter (·.vt = .binary)) _ e3
    have e5 := chain_allEnds_append [Tok.nl, Tok.section false] _ (by intro t ht; simp at ht; rcases ht with rfl | rfl <;> rfl) e4
    simpa [List.append_assoc] using e5
  have hshape : objToks m.obj ++ [Tok.blank2, Tok.subjectTo] ++ m.cons.flatMap conToks ++ [Tok.nl, Tok.bounds] ++ boundToks m.vars ++
      sectionToks m.vars ++ [Tok.nl, Tok.end_] =
      (objToks m.obj ++ [Tok.blank2, Tok.subjectTo] ++ m.cons.flatMap conToks ++ [Tok.nl, Tok.bounds] ++ boundToks m.vars) ++
      (sectionToks m.vars ++ [Tok.nl, Tok.end_]) := by simp only [List.append_assoc]
  rw [hshape]
  apply chain_allEnds_append _ _ _ tail
  intro t ht
  simp only [List.mem_append, List.mem_cons, List.not_mem_nil, or_false, List.mem_flatMap] at ht
  rcases ht with (((h | (rfl | rfl)) | ⟨c, _, h⟩) | (rfl | rfl)) | h
  · exact allEnds_objToks _ t h
  · rfl
  · rfl
  · exact allEnds_conToks c t h
  · rfl
  · rfl
  · simp only [boundToks, List.mem_map] at h
    obtain ⟨v, _, rfl⟩ := h; rfl

end Lp

namespace Lp

theorem wrapWrites_snd' (ll : Nat) (ws : List String) : (wrapWrites ll ws).map (·.2) = ws := by
  induction ws generalizing ll with
  | nil => rfl
  | cons s t ih => simp only [wrapWrites, List.map_cons, ih]

theorem joinWrites_toList (ws : List (Bool × String)) :
    (joinWrites ws).toList = joinL (ws.map fun p => (p.1, p.2.toList)) := by
  unfold joinWrites
  rw [String.toList_join]
  induction ws with
  | nil => rfl
  | cons p t ih =>
    obtain ⟨b, s⟩ := p
    simp only [List.map_cons, List.flatMap_cons, joinL, ih, String.toList_append, List.append_assoc]
    cases b <;> simp

theorem join_toList (ss : List String) : (String.join ss).toList = (ss.map String.toList).flatten := by
  rw [String.toList_join, List.flatMap_def]

/-- **the line breaks of `_WidthLimitedFile` do not change the words of a dump**: the text `lp.dumps`
    produces and the plain concatenation of the writes have the same blank-separated words, so the reader's
    tokenisation (`Lp.words`) does not depend on where lines were broken -/
theorem words_wrap_invariant (m : LCqm) (ts : List Tok) (h : dumpToks m = .ok ts) :
    words (joinWrites (wrapWrites 0 (ts.map Tok.render))) = words (String.join (ts.map Tok.render)) := by
  unfold words
  congr 1
  rw [joinWrites_toList, join_toList]
  have hsnd : ((wrapWrites 0 (ts.map Tok.render)).map fun p => (p.1, p.2.toList)).map (·.2) = (ts.map Tok.render).map String.toList := by
    have := wrapWrites_snd' 0 (ts.map Tok.render)
    calc ((wrapWrites 0 (ts.map Tok.render)).map fun p => (p.1, p.2.toList)).map (·.2)
        = ((wrapWrites 0 (ts.map Tok.render)).map (·.2)).map String.toList := by
          rw [List.map_map, List.map_map]; rfl
      _ = (ts.map Tok.render).map String.toList := by rw [this]
  rw [← hsnd]
  apply wordsL_joinL
  · intro p hp
    have : p.2 ∈ (ts.map Tok.render).map String.toList := by rw [← hsnd]; exact List.mem_map.mpr ⟨p, hp, rfl⟩
    simp only [List.mem_map] at this
    obtain ⟨s, ⟨t, _, rfl⟩, hs⟩ := this
    rw [← hs]; exact render_ne_nil t
  · have hc : List.IsChain Sep ((ts.map Tok.render).map String.toList) := by
      rw [List.map_map, List.isChain_map]
      apply List.IsChain.imp _ (dumpToks_separated m ts h)
      intro a b hab
      rcases hab with h1 | h1
      · exact Or.inl (render_ends a h1)
      · exact Or.inr (render_starts b h1)
    rw [← hsnd, List.isChain_map] at hc
    exact hc

end Lp
